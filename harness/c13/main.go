// Harness for C13 (API-version routing). Drives the real router through its public API:
// router.WithVersioning(version.With…), r.Version(v, lifecycle…).GET(…), r.GET(…), ServeHTTP.
//
// What the model takes as parameters is evaluated here for real and shipped in the case line:
// http.Header.Get, url.URL.Query (Has/Get), the custom detector callback, time.Time.Format.
package main

import (
	"context"
	"fmt"
	"net/http"
	"net/http/httptest"
	"runtime"
	"sort"
	"strconv"
	"strings"
	"sync"
	"sync/atomic"
	"time"

	"rivaas.dev/app"
	"rivaas.dev/router"
	"rivaas.dev/router/version"
	"verif/harness/hx"
)

type optT struct {
	K string // P path, H header, Q query, A accept, C custom
	A string // pattern / header name / parameter name
	N int    // custom detector number (reads header X-Cust-<N>)
}

type lcT struct {
	Ver        string
	Deprecated bool
	HasSunset  bool
	Sunset     int64 // unix seconds
	ZoneOff    int   // seconds east of UTC of the configured time value
	Migration  string
}

// lcOpT: one lifecycle statement; lcOptT: one version.LifecycleOption
type lcOpT struct {
	K    string // V: vr<ID> := r.Version(Ver, Opts…); C: vr<ID>.Configure(Opts…)
	ID   int
	Ver  string `json:",omitempty"`
	Opts []lcOptT
}

type lcOptT struct {
	K       string // D Deprecated, DS DeprecatedSince, S Sunset, M MigrationDocs, X SuccessorVersion
	Sunset  int64  `json:",omitempty"`
	ZoneOff int    `json:",omitempty"`
	Mig     string `json:",omitempty"`
}

func (o lcOptT) time() time.Time { return lcT{Sunset: o.Sunset, ZoneOff: o.ZoneOff}.time() }

func (o lcOptT) option() version.LifecycleOption {
	switch o.K {
	case "D":
		return version.Deprecated()
	case "DS":
		return version.DeprecatedSince(time.Unix(1700000000, 0))
	case "S":
		return version.Sunset(o.time())
	case "M":
		return version.MigrationDocs(o.Mig)
	}
	return version.SuccessorVersion("v9")
}

// lcScriptOf turns the generated lifecycles into statements: options split between Version and Configure, objects
// without options, an older object for the same version that is configured again AFTER the newer one (and so replaces
// it), options given twice (the later one counts)
func lcScriptOf(r *hx.Rand, lcs []lcT) []lcOpT {
	var ops []lcOpT
	id := 0
	var revive []lcOpT
	for _, lc := range lcs {
		var all []lcOptT
		if lc.Deprecated {
			all = append(all, lcOptT{K: hx.Pick(r, []string{"D", "D", "DS"})})
		}
		if lc.HasSunset {
			if r.Chance(1, 4) { // an earlier date, overridden
				all = append(all, lcOptT{K: "S", Sunset: lc.Sunset - 86400*int64(r.Range(1, 400))})
			}
			all = append(all, lcOptT{K: "S", Sunset: lc.Sunset, ZoneOff: lc.ZoneOff})
		}
		if lc.Migration != "" {
			all = append(all, lcOptT{K: "M", Mig: lc.Migration})
		}
		if r.Chance(1, 4) {
			all = append(all, lcOptT{K: "X"})
		}
		hx.Shuffle(r, all)
		if r.Chance(1, 4) { // an older object for the same version, with other settings
			id++
			old := lcOpT{K: "V", ID: id, Ver: lc.Ver, Opts: []lcOptT{{K: hx.Pick(r, []string{"D", "M", "X"}), Mig: "https://old.example/" + lc.Ver}}}
			ops = append(ops, old)
			if r.Chance(1, 2) { // … which is configured once more at the very end: its config replaces the newer one
				revive = append(revive, lcOpT{K: "C", ID: id, Opts: []lcOptT{{K: hx.Pick(r, []string{"M", "X", "D"}), Mig: "https://late.example/" + lc.Ver}}})
			}
		}
		id++
		cut := r.Range(0, len(all))
		ops = append(ops, lcOpT{K: "V", ID: id, Ver: lc.Ver, Opts: all[:cut]})
		if cut < len(all) || r.Chance(1, 5) {
			ops = append(ops, lcOpT{K: "C", ID: id, Opts: all[cut:]})
		}
	}
	return append(ops, revive...)
}

type routeT struct {
	Versioned bool
	Ver       string
	Method    string
	Path      string
}

type cfgT struct {
	Opts     []optT
	Default  string
	Valid    []string
	SendVH   bool
	SendW    bool
	Enforce  bool
	Now      int64
	LCs      []lcT
	Compiled bool // router.WithRouteCompilation: must not change any outcome (not a model input)
	ViaApp   bool // routes registered through app.App / app.VersionGroup (app/version_group.go): same outcome
	// WarmupAfter > 0: an explicit Warmup() after that many routes have been registered, the rest is registered
	// afterwards, still before the first request (allowed; they go straight into the trees): same outcome
	WarmupAfter int
	// none of the following is a model input either (the outcome must be the same):
	NoCancelCheck bool   `json:",omitempty"` // router.WithoutCancellationCheck()
	Observer      bool   `json:",omitempty"` // version.WithObserver with all four callbacks
	ObsPanic      string `json:",omitempty"` // this callback panics: D OnDetected, M OnMissing, I OnInvalid, U OnDeprecatedUse
	// LCLate: the per-version lifecycles (r.Version(v, opts…)) are configured AFTER the routes — and after the explicit
	// Warmup() when there is one —, still before the first request: same outcome
	LCLate bool `json:",omitempty"`
	// LCScript != nil: the lifecycles are configured by this script of `vr<ID> := r.Version(ver, opts…)` /
	// `vr<ID>.Configure(opts…)` statements instead of one r.Version call per entry of LCs (which is then ignored): the
	// case line carries the script and the model works out what the engine holds
	LCScript []lcOpT `json:",omitempty"`
	// an option given twice: the earlier WithValidVersions / WithDefault is replaced by the final one (Valid / Default)
	ValidFirst   []string `json:",omitempty"`
	DefaultFirst string   `json:",omitempty"`
	// Tick != 0: the injected clock ADVANCES — the first reading is Now, every later one Now+Tick seconds. The answer
	// must be the one a constant clock gives at one of the two instants (see observe)
	Tick int64 `json:",omitempty"`

	vers []string // generator only: versions that have a tree
}

type reqT struct {
	Method   string
	Path     string
	RawQuery string
	Hdr      [][2]string // added in order with Header.Add
	// Cancelled: the request context is already cancelled when the request arrives (the router is then built with
	// WithoutCancellationCheck, so that the handler chain runs as usual); Panic: the handler panics after it has
	// reported (only in request sequences: what the NEXT requests see is what is judged)
	Cancelled bool `json:",omitempty"`
	Panic     bool `json:",omitempty"`
}

type caseT struct {
	C cfgT
	R []routeT
	Q reqT
	// Conc != nil: the observation was made while G goroutines fired the requests Qs (N each) at ONE router
	// concurrently; Q = Qs[Idx]. The oracle is the ordinary per-request one.
	Conc *concT `json:",omitempty"`
	// Cfg != nil: a configuration case (cfg.go): only the option list matters
	Cfg *cfgCaseT `json:",omitempty"`
	// Chain != nil: a handler-chain case of the app layer (chain.go)
	Chain *chainCaseT `json:",omitempty"`
}

type concT struct {
	G   int
	N   int
	Qs  []reqT
	Idx int
}

type obsKeyT struct{}

type obsT struct {
	wantPanic bool // in: the handler is to panic
	obsFired  bool // an observer callback panicked during this request
	panicked  bool
	status    int
	ran       []routeT
	version   string
	hdr       http.Header
	events    [][]string // observer callbacks during this request (meaningful when nothing else is served meanwhile)
}

func (l lcT) time() time.Time {
	t := time.Unix(l.Sunset, 0).UTC()
	if l.ZoneOff != 0 {
		t = t.In(time.FixedZone("Z", l.ZoneOff))
	}
	return t
}

func custHeader(n int) string { return "X-Cust-" + strconv.Itoa(n) }

// build constructs the real router; err != nil means the configuration was rejected.
func build(k caseT) (r *router.Router, err error) {
	var vo []version.Option
	for _, op := range k.C.Opts {
		switch op.K {
		case "P":
			vo = append(vo, version.WithPathDetection(op.A))
		case "H":
			vo = append(vo, version.WithHeaderDetection(op.A))
		case "Q":
			vo = append(vo, version.WithQueryDetection(op.A))
		case "A":
			vo = append(vo, version.WithAcceptDetection(op.A))
		case "C":
			name := custHeader(op.N)
			vo = append(vo, version.WithCustomDetection(func(req *http.Request) string { return req.Header.Get(name) }))
		}
	}
	if len(k.C.ValidFirst) > 0 {
		vo = append(vo, version.WithValidVersions(k.C.ValidFirst...))
	}
	if k.C.DefaultFirst != "" {
		vo = append(vo, version.WithDefault(k.C.DefaultFirst))
	}
	vo = append(vo, version.WithDefault(k.C.Default))
	if len(k.C.Valid) > 0 {
		vo = append(vo, version.WithValidVersions(k.C.Valid...))
	}
	if k.C.SendVH {
		vo = append(vo, version.WithResponseHeaders())
	}
	if k.C.SendW {
		vo = append(vo, version.WithWarning299())
	}
	if k.C.Enforce {
		vo = append(vo, version.WithSunsetEnforcement())
	}
	now := time.Unix(k.C.Now, 0).UTC()
	later := now.Add(time.Duration(k.C.Tick) * time.Second)
	var reads atomic.Int64
	vo = append(vo, version.WithClock(func() time.Time {
		if reads.Add(1) > 1 {
			return later
		}
		return now
	}))
	if k.C.Observer || k.C.ObsPanic != "" {
		cb := func(which string) {
			if k.C.ObsPanic == which {
				obsPanicFired.Store(true)
				panic("observer callback " + which)
			}
		}
		vo = append(vo, version.WithObserver(
			version.OnDetected(func(v, m string) { recordEv("D", v, m); cb("D") }),
			version.OnMissing(func() { recordEv("M"); cb("M") }),
			version.OnInvalid(func(v string) { recordEv("I", v); cb("I") }),
			version.OnDeprecatedUse(func(v, rt string) { recordEv("U", v, rt); cb("U") }),
		))
	}
	ro := []router.Option{router.WithVersioning(vo...)}
	if k.C.NoCancelCheck || k.Q.Cancelled {
		ro = append(ro, router.WithoutCancellationCheck())
	}
	if k.C.Compiled {
		ro = append(ro, router.WithRouteCompilation(true))
	}
	var a *app.App
	if k.C.ViaApp {
		a, err = app.New(app.WithServiceName("verif-c13"), app.WithServiceVersion("v0.0.0"), app.WithRouter(ro...))
		if err != nil {
			return nil, err
		}
		r = a.Router()
	} else {
		r, err = router.New(ro...)
		if err != nil {
			return nil, err
		}
	}
	lifecycles := func() {
		if k.C.LCScript != nil {
			vrs := map[int]*router.VersionRouter{}
			for _, op := range k.C.LCScript {
				var lo []version.LifecycleOption
				for _, o := range op.Opts {
					lo = append(lo, o.option())
				}
				if op.K == "V" {
					vrs[op.ID] = r.Version(op.Ver, lo...)
				} else if vr := vrs[op.ID]; vr != nil {
					vr.Configure(lo...)
				}
			}
			return
		}
		for _, lc := range k.C.LCs {
			var lo []version.LifecycleOption
			if lc.Deprecated {
				lo = append(lo, version.Deprecated())
			}
			if lc.HasSunset {
				lo = append(lo, version.Sunset(lc.time()))
			}
			if lc.Migration != "" {
				lo = append(lo, version.MigrationDocs(lc.Migration))
			}
			r.Version(lc.Ver, lo...)
		}
	}
	if !k.C.LCLate {
		lifecycles()
	}
	for ri, rt := range k.R {
		rt := rt
		if k.C.WarmupAfter > 0 && ri == k.C.WarmupAfter {
			r.Warmup()
		}
		h := func(c *router.Context) {
			if o, ok := c.Request.Context().Value(obsKeyT{}).(*obsT); ok { // per request: handlers are shared
				o.ran = append(o.ran, rt)
				o.version = c.Version()
				if o.wantPanic {
					panic("handler panic (requested by the case)")
				}
			}
			_ = c.String(http.StatusOK, "ok")
		}
		ah := func(c *app.Context) { h(c.Context) }
		switch {
		case a != nil && rt.Versioned && rt.Method == "POST":
			a.Version(rt.Ver).POST(rt.Path, ah)
		case a != nil && rt.Versioned:
			a.Version(rt.Ver).GET(rt.Path, ah)
		case a != nil && rt.Method == "POST":
			a.POST(rt.Path, ah)
		case a != nil:
			a.GET(rt.Path, ah)
		case rt.Versioned:
			r.Version(rt.Ver).Handle(rt.Method, rt.Path, h)
		case rt.Method == "POST":
			r.POST(rt.Path, h)
		default:
			r.GET(rt.Path, h)
		}
	}
	if k.C.LCLate {
		if k.C.WarmupAfter > 0 && k.C.WarmupAfter >= len(k.R) {
			r.Warmup()
		}
		lifecycles()
	}
	return r, nil
}

func mkReq(q reqT) *http.Request {
	req := httptest.NewRequest(q.Method, "http://example.com/", nil)
	req.URL.Path = q.Path
	req.URL.RawPath = ""
	req.URL.RawQuery = q.RawQuery
	req.RequestURI = q.Path
	if q.RawQuery != "" {
		req.RequestURI += "?" + q.RawQuery
	}
	for _, h := range q.Hdr {
		req.Header.Add(h[0], h[1])
	}
	return req
}

// observer callbacks of the request being served (single-request cases only: one request at a time)
var (
	evMu     sync.Mutex
	evCalled [][]string
)

func recordEv(f ...string) {
	evMu.Lock()
	evCalled = append(evCalled, f)
	evMu.Unlock()
}

// serveOne runs one request on the router and returns what was observed for THAT request.
// obsPanicFired: an observer callback panicked (only in single-request cases: one request at a time).
var obsPanicFired atomic.Bool

func serveOne(r *router.Router, q reqT) (o obsT) {
	req := mkReq(q)
	ctx := context.WithValue(req.Context(), obsKeyT{}, &o)
	if q.Cancelled {
		var cancel context.CancelFunc
		ctx, cancel = context.WithCancel(ctx)
		cancel()
	}
	req = req.WithContext(ctx)
	o.wantPanic = q.Panic
	rec := httptest.NewRecorder()
	obsPanicFired.Store(false)
	evMu.Lock()
	evCalled = nil
	evMu.Unlock()
	func() {
		defer func() {
			if p := recover(); p != nil {
				o.panicked = true
			}
		}()
		r.ServeHTTP(rec, req)
	}()
	o.obsFired = obsPanicFired.Load()
	evMu.Lock()
	o.events = evCalled
	evMu.Unlock()
	o.status = rec.Code
	o.hdr = rec.Header()
	return o
}

// observe: the observation and the case it is reported for. With an advancing clock (Tick != 0) the statement
// asks for the answer of ONE instant: the observation is compared with what the same tree answers under a
// constant clock at Now and at Now+Tick; if it equals one of them the case is reported for that instant (and
// judged there), otherwise as it is, for Now — a mixture of two instants agrees with the model at neither.
func observe(k caseT) (o obsT, kk caseT, cfgErr error) {
	r, err := build(k)
	if err != nil {
		return o, k, err
	}
	o = serveOne(r, k.Q)
	if k.C.Tick == 0 {
		return o, k, nil
	}
	k0 := k
	k0.C.Tick = 0
	r0, err := build(k0)
	if err != nil {
		return o, k, nil
	}
	if o0 := serveOne(r0, k.Q); o0.key() == o.key() {
		return o, k, nil
	}
	k1 := k0
	k1.C.Now += k.C.Tick
	r1, err := build(k1)
	if err != nil {
		return o, k, nil
	}
	if o1 := serveOne(r1, k.Q); o1.key() == o.key() {
		return o, k1, nil
	}
	return o, k, nil
}

func (o obsT) key() string {
	var b strings.Builder
	fmt.Fprintf(&b, "%v|%d|%d|%s", o.panicked, o.status, len(o.ran), o.version)
	for _, rt := range o.ran {
		fmt.Fprintf(&b, "|%v:%s:%s:%s", rt.Versioned, rt.Ver, rt.Method, rt.Path)
	}
	for _, h := range []string{"X-API-Version", "Deprecation", "Sunset", "Link", "Warning"} {
		b.WriteString("|" + strings.Join(o.hdr.Values(h), "\x00"))
	}
	return b.String()
}

// runConc: G goroutines fire the requests qs (N each, rotating) at one router at the same time; returns one
// case line per distinct (request, observation) pair — on a correct router exactly one per request.
func runConc(idPrefix string, k caseT, qs []reqT, G, N int, only int, st *hx.Stats) []string {
	r, err := build(k)
	if err != nil {
		return nil
	}
	type seenT struct {
		o obsT
		n int
	}
	perG := make([]map[string]*seenT, G)
	var wg sync.WaitGroup
	start := make(chan struct{})
	for g := 0; g < G; g++ {
		perG[g] = map[string]*seenT{}
		wg.Add(1)
		go func(g int) {
			defer wg.Done()
			<-start
			for i := 0; i < N; i++ {
				idx := (g + i) % len(qs)
				o := serveOne(r, qs[idx])
				key := strconv.Itoa(idx) + "#" + o.key()
				if e := perG[g][key]; e != nil {
					e.n++
				} else {
					perG[g][key] = &seenT{o: o, n: 1}
				}
			}
		}(g)
	}
	close(start)
	wg.Wait()
	merged := map[string]*seenT{}
	for _, m := range perG {
		for key, e := range m {
			if x := merged[key]; x != nil {
				x.n += e.n
			} else {
				merged[key] = e
			}
		}
	}
	keys := make([]string, 0, len(merged))
	for key := range merged {
		keys = append(keys, key)
	}
	sort.Strings(keys)
	var out []string
	for j, key := range keys {
		idx, _ := strconv.Atoi(key[:strings.IndexByte(key, '#')])
		if only >= 0 && idx != only {
			continue
		}
		if qs[idx].Panic {
			continue // aborted by its own handler: only a disturbance for the others
		}
		kk := k
		kk.Q = qs[idx]
		kk.Conc = &concT{G: G, N: N, Qs: qs, Idx: idx}
		out = append(out, emitObs(fmt.Sprintf("%s-%d-%d", idPrefix, idx, j), kk, merged[key].o, st))
		if st != nil {
			st.Count("concurrent_distinct_observations")
		}
	}
	if st != nil {
		st.Count("concurrent_batches")
		st.Counters["concurrent_requests"] += G * N
	}
	return out
}

func optHdr(l *hx.Line, h http.Header, name string) {
	vs := h.Values(name)
	if len(vs) == 0 {
		l.Bool(false)
		return
	}
	l.Bool(true).Str(strings.Join(vs, "\x00")) // more than one value never matches the model's single one
}

func isLCEmpty(lc lcT) bool { return !lc.Deprecated && !lc.HasSunset && lc.Migration == "" }

// emit renders the case line: configuration, routes, request with the shipped library results, and
// what the implementation did. ok=false: the configuration was rejected by router.New (no line).
func emit(id string, k caseT, st *hx.Stats) (string, bool) {
	o, kk, cfgErr := observe(k)
	if cfgErr != nil {
		if st != nil {
			st.Count("config_rejected")
		}
		return "", false
	}
	if st != nil {
		if k.C.Tick != 0 {
			st.Count("advancing_clock")
			if kk.C.Now != k.C.Now {
				st.Count("advancing_clock_answer_of_the_later_instant")
			}
		}
		if k.Q.Cancelled {
			st.Count("request_context_already_cancelled")
		}
		if k.C.Observer || k.C.ObsPanic != "" {
			st.Count("observer_configured")
		}
		if len(k.C.ValidFirst) > 0 {
			st.Count("valid_versions_given_twice")
		}
		if k.C.LCScript != nil {
			st.Count("lifecycles_by_version_and_configure_script")
		}
		if k.C.LCLate {
			st.Count("lifecycles_configured_after_routes")
			if k.C.WarmupAfter > 0 {
				st.Count("lifecycles_configured_after_warmup")
			}
		}
		if k.C.DefaultFirst != "" {
			st.Count("default_given_twice")
		}
	}
	if o.panicked && o.obsFired {
		// the observer callback's panic reached the caller: the request was aborted, no handler ran — nothing the
		// statement speaks about. (A panic that is swallowed leaves a served request, judged like any other.)
		if st != nil {
			st.Count("observer_panic_propagated_request_aborted")
		}
		return "", false
	}
	if st != nil && o.obsFired {
		st.Count("observer_panic_swallowed")
	}
	if k.Q.Panic && k.Conc == nil {
		if o.panicked {
			// no recovery middleware (plain router): the panic reached the caller, there is no answer to judge
			if st != nil {
				st.Count("handler_panic_propagated_no_answer")
			}
			return "", false
		}
		if len(o.ran) == 1 && o.status == http.StatusInternalServerError {
			// recovered by the app's recovery middleware: the handler ran (and reported), the answer is the middleware's 500.
			// The statement does not speak about the status of a panicking handler; it is reported as the handler's own 200 so
			// that handler / Version() / the five headers are judged by the ordinary oracle
			o.status = http.StatusOK
			if st != nil {
				st.Count("handler_panic_recovered_headers_judged")
			}
		}
	}
	return emitObs(id, kk, o, st), true
}

// emitObs renders the case line for an observation already made.
func emitObs(id string, k caseT, o obsT, st *hx.Stats) string {
	req := mkReq(k.Q)
	l := hx.NewLine(id)
	l.Nat(len(k.C.Opts))
	for _, op := range k.C.Opts {
		l.Tok(op.K)
		if op.K == "C" {
			l.Nat(op.N)
		} else {
			l.Str(op.A)
		}
	}
	l.Str(k.C.Default).Strs(k.C.Valid).Bool(k.C.SendVH).Bool(k.C.SendW).Bool(k.C.Enforce).I64(k.C.Now)
	nlc := 0
	for _, lc := range k.C.LCs {
		if !isLCEmpty(lc) {
			nlc++
		}
	}
	if k.C.LCScript != nil {
		nlc = 0
		l.Tok("S").Nat(len(k.C.LCScript))
		for _, op := range k.C.LCScript {
			l.Tok(op.K).Nat(op.ID)
			if op.K == "V" {
				l.Str(op.Ver)
			}
			l.Nat(len(op.Opts))
			for _, o := range op.Opts {
				l.Tok(o.K)
				switch o.K {
				case "S":
					t := o.time()
					l.I64(o.Sunset).Str(t.UTC().Format(http.TimeFormat)).Str(t.Format(time.RFC3339))
				case "M":
					l.Str(o.Mig)
				}
			}
		}
	} else {
		l.Nat(nlc)
	}
	for _, lc := range k.C.LCs {
		if k.C.LCScript != nil {
			break
		}
		if isLCEmpty(lc) {
			continue // r.Version(v) without options registers no lifecycle
		}
		l.Str(lc.Ver).Bool(lc.Deprecated)
		if lc.HasSunset {
			t := lc.time()
			l.Bool(true).I64(lc.Sunset).Str(t.UTC().Format(http.TimeFormat)).Str(t.Format(time.RFC3339))
		} else {
			l.Bool(false)
		}
		l.Str(lc.Migration)
	}
	l.Nat(len(k.R))
	for _, rt := range k.R {
		if rt.Versioned {
			l.Bool(true).Str(rt.Ver)
		} else {
			l.Bool(false)
		}
		l.Str(rt.Method).Str(rt.Path)
	}
	l.Str(k.Q.Method).Str(k.Q.Path).Str(k.Q.RawQuery)
	l.Nat(len(k.C.Opts))
	present := 0
	invalid := false
	note := func(v string, has bool) {
		if has {
			present++
			if len(k.C.Valid) > 0 && !contains(k.C.Valid, v) {
				invalid = true
			}
		}
	}
	qv := req.URL.Query()
	for _, op := range k.C.Opts {
		switch op.K {
		case "P":
			l.Tok("N")
			if i := strings.Index(op.A, "{version}"); i > 0 && strings.HasPrefix(k.Q.Path, op.A[:i]) && len(k.Q.Path) > i {
				note("", true)
			}
		case "H":
			v := req.Header.Get(op.A)
			l.Tok("H").Str(v)
			note(v, v != "")
		case "Q":
			l.Tok("Q").Bool(qv.Has(op.A)).Str(qv.Get(op.A))
			note(qv.Get(op.A), qv.Has(op.A))
		case "A":
			v := req.Header.Get("Accept")
			l.Tok("A").Str(v)
			if i := strings.Index(op.A, "{version}"); v != "" && i >= 0 && strings.Contains(v, op.A[:i]) {
				note("", true)
			}
		case "C":
			v := req.Header.Get(custHeader(op.N))
			l.Tok("C").Str(v)
			note(v, v != "")
		}
	}
	in := l.String()
	l.Sep()
	if o.panicked || len(o.ran) > 1 {
		l.Tok("P")
	} else {
		l.Tok("R").Nat(o.status)
		if len(o.ran) == 1 {
			l.Bool(true)
			if o.ran[0].Versioned {
				l.Bool(true).Str(o.ran[0].Ver)
			} else {
				l.Bool(false)
			}
			l.Str(o.ran[0].Path)
			l.Bool(true).Str(o.version)
		} else {
			l.Bool(false).Bool(false)
		}
		for _, h := range []string{"X-API-Version", "Deprecation", "Sunset", "Link", "Warning"} {
			optHdr(l, o.hdr, h)
		}
		if k.C.Observer && k.C.ObsPanic == "" && k.Conc == nil {
			// the observer callbacks this request caused, in call order (glue: compared with the model, no oracle clause)
			l.Tok("V").Nat(len(o.events))
			for _, e := range o.events {
				l.Tok(e[0])
				for _, a := range e[1:] {
					l.Str(a)
				}
			}
			if st != nil {
				st.Count("observer_events_compared")
				for _, e := range o.events {
					st.Count("observer_event_" + e[0])
				}
			}
		}
	}
	if st != nil {
		st.Case(in[len(id):], present >= 2 || invalid)
		st.Count("status_" + strconv.Itoa(o.status))
		if o.panicked {
			st.Count("panic")
		}
		switch {
		case len(o.ran) == 0:
			st.Count("handler_none")
		case !o.ran[0].Versioned:
			st.Count("handler_main_tree")
		case o.ran[0].Ver == o.version:
			st.Count("handler_version_tree")
		default:
			st.Count("handler_default_tree_fallback")
		}
		if len(o.ran) == 1 && o.ran[0].Versioned {
			if o.version == k.C.Default {
				st.Count("version_is_default")
			} else {
				st.Count("version_detected")
			}
		}
		st.Count("candidates_present_" + strconv.Itoa(min(present, 3)))
		if invalid {
			st.Count("candidate_not_in_valid_list")
		}
		if o.hdr.Get("Deprecation") != "" {
			st.Count("deprecation_header")
		}
		st.Count("n_opts_" + strconv.Itoa(len(k.C.Opts)))
		for _, op := range k.C.Opts {
			st.Count("opt_" + op.K)
		}
		if k.C.Compiled {
			st.Count("route_compilation_on")
		}
		if k.C.ViaApp {
			st.Count("registered_through_app")
		}
		if k.C.WarmupAfter > 0 {
			st.Count("explicit_warmup_between_registrations")
		}
	}
	return l.String() + hx.Comment(k)
}

func contains(xs []string, s string) bool {
	for _, x := range xs {
		if x == s {
			return true
		}
	}
	return false
}

// ---------------------------------------------------------------- generator

var verPool = []string{"v1", "v2", "v3", "1", "2", "beta"}
var pathPatterns = []string{"/v{version}/", "/v{version}", "/api/v{version}/", "/api/{version}/", "/{version}/", "{version}", "/api/v{version}/x", "/v{version}v"}
var commonPathPatterns = []string{"/v{version}/", "/v{version}/", "/api/v{version}/", "/api/v{version}/", "/api/{version}/", "/v{version}", "/{version}/"}
var headerNames = []string{"X-API-Version", "Api-Version", "x-api-version"}
var queryParams = []string{"v", "version", "api-version", "ver"}
var acceptPatterns = []string{"application/vnd.api.v{version}+json", "application/vnd.api+{version}+json", "application/vnd.myapi.{version}", "{version}", "application/vnd.v{version}", "application/{version}+json"}
var routePaths = []string{"/", "/users", "/items", "/users/list", "/v1/users", "/api/users", "/api/v1/users", "/v2", "/1/users"}

func genOpts(r *hx.Rand) []optT {
	n := r.Range(1, 5)
	if r.Chance(1, 12) {
		n = 0
	}
	kinds := []string{"P", "H", "Q", "A", "C"}
	var out []optT
	hx.Shuffle(r, kinds)
	nc := 0
	for i := 0; i < n; i++ {
		k := kinds[i%5]
		if r.Chance(1, 8) {
			k = hx.Pick(r, kinds) // occasional duplicate kind
		}
		switch k {
		case "P":
			out = append(out, optT{K: "P", A: hx.Pick(r, commonPathPatterns)})
			if r.Chance(1, 8) {
				out[len(out)-1].A = hx.Pick(r, pathPatterns)
			}
		case "H":
			out = append(out, optT{K: "H", A: hx.Pick(r, headerNames)})
		case "Q":
			out = append(out, optT{K: "Q", A: hx.Pick(r, queryParams)})
		case "A":
			out = append(out, optT{K: "A", A: hx.Pick(r, acceptPatterns)})
		case "C":
			out = append(out, optT{K: "C", N: nc})
			nc++
		}
	}
	return out
}

func genVersionValue(r *hx.Rand, c *cfgT) string {
	switch r.Intn(10) {
	case 0:
		return "v9" // not in any list
	case 1:
		return ""
	case 2:
		return hx.Pick(r, []string{"V1", " v1", "v1 ", "v1,v2", "v%32", "latest"})
	case 3, 4:
		return hx.Pick(r, verPool)
	default:
		if len(c.vers) > 0 {
			return hx.Pick(r, c.vers) // mostly a version that has routes
		}
		return hx.Pick(r, verPool)
	}
}

func genQuery(r *hx.Rand, c *cfgT) string {
	var params []string
	for _, op := range c.Opts {
		if op.K == "Q" {
			params = append(params, op.A)
		}
	}
	if len(params) == 0 {
		params = []string{hx.Pick(r, queryParams)}
	}
	n := r.Range(0, 4)
	var parts []string
	for i := 0; i < n; i++ {
		p := hx.Pick(r, params)
		val := strings.ReplaceAll(genVersionValue(r, c), " ", "+") // a request line carries no raw space
		key := p
		switch r.Intn(14) {
		case 0:
			key = "x" + p // a key that merely ends in the parameter name
		case 1:
			key = "y" + p
		case 2:
			key = p + "x"
		case 3:
			key = "%" + fmt.Sprintf("%02x", p[0]) + p[1:] // percent-encoded first letter
		case 4:
			key = strings.ToUpper(p)
		case 5:
			key = hx.Pick(r, []string{"a", "page", "q"})
		case 6:
			key = "%zz" + p // malformed escape: the pair is dropped by standard parsing
		}
		switch r.Intn(12) {
		case 0:
			val = strings.ReplaceAll(val, "2", "%32")
		case 1:
			val = val + "+x"
		case 2:
			val = val + "%"
		case 3:
			val = val + ";" + p + "=" + hx.Pick(r, verPool) // semicolon: the whole pair is dropped
		case 4:
			val = val + "=" + hx.Pick(r, verPool)
		}
		switch r.Intn(10) {
		case 0:
			parts = append(parts, key) // key without '='
		case 1:
			parts = append(parts, "")
		default:
			parts = append(parts, key+"="+val)
		}
	}
	return strings.Join(parts, "&")
}

func genAccept(r *hx.Rand, c *cfgT) string {
	var pats []string
	for _, op := range c.Opts {
		if op.K == "A" {
			pats = append(pats, op.A)
		}
	}
	if len(pats) == 0 {
		pats = []string{hx.Pick(r, acceptPatterns)}
	}
	n := r.Range(1, 4)
	var items []string
	for i := 0; i < n; i++ {
		pat := hx.Pick(r, pats)
		var mt string
		switch r.Intn(10) {
		case 0:
			mt = hx.Pick(r, []string{"*/*", "application/json", "text/html", ""})
		case 1:
			// the pattern with nothing (or an overlap) where the version should be
			mt = strings.Replace(pat, "{version}", "", 1)
			if r.Chance(1, 2) {
				mt = strings.Replace(pat, "+{version}+", "+", 1)
			}
		case 2:
			mt = strings.Replace(pat, "{version}", genVersionValue(r, c), 1)
		default:
			mt = strings.Replace(pat, "{version}", strings.TrimPrefix(hx.Pick(r, verPool), "v"), 1)
			if r.Chance(1, 3) {
				mt = strings.Replace(pat, "{version}", hx.Pick(r, verPool), 1)
			}
		}
		switch r.Intn(8) {
		case 0:
			mt += ";q=0." + strconv.Itoa(r.Range(1, 9))
		case 1:
			mt += " ;q=0.5"
		case 2:
			mt += "; q=0.5; x=y"
		case 3:
			mt += "\t; level=1"
		}
		switch r.Intn(6) {
		case 0:
			mt = " " + mt
		case 1:
			mt = mt + " "
		case 2:
			mt = "\t" + mt + " \t"
		}
		items = append(items, mt)
	}
	return strings.Join(items, hx.Pick(r, []string{",", ", ", " , "}))
}

func genPath(r *hx.Rand, c *cfgT, base string) string {
	var pats []string
	for _, op := range c.Opts {
		if op.K == "P" {
			pats = append(pats, op.A)
		}
	}
	if len(pats) == 0 && r.Chance(1, 10) {
		pats = []string{hx.Pick(r, commonPathPatterns)}
	}
	if len(pats) == 0 || r.Chance(1, 6) {
		return base
	}
	pat := hx.Pick(r, pats)
	i := strings.Index(pat, "{version}")
	pfx := pat[:i]
	seg := hx.Pick(r, verPool)
	if len(c.vers) > 0 && r.Chance(2, 3) {
		seg = hx.Pick(r, c.vers)
	}
	if strings.HasSuffix(pfx, "v") {
		// "/v{version}" names version "v"+segment: use a segment that gives a pool version
		vs := []string{}
		for _, v := range append(append([]string{}, c.vers...), "v1", "v2") {
			if strings.HasPrefix(v, "v") {
				vs = append(vs, strings.TrimPrefix(v, "v"))
			}
		}
		seg = hx.Pick(r, vs)
	}
	switch r.Intn(14) {
	case 0:
		seg = "9"
	case 1:
		seg = "" // empty version segment
	case 2:
		seg = "v9"
	}
	out := pfx + seg
	switch r.Intn(12) {
	case 0:
		return out // version segment at the end of the path
	case 1:
		return out + "/"
	case 2:
		return out + "/" + base // double slash
	default:
		if base == "/" {
			return out + "/"
		}
		return out + base
	}
}

func genCase(r *hx.Rand) caseT {
	var k caseT
	c := &k.C
	c.Opts = genOpts(r)
	c.Default = hx.Pick(r, verPool)
	nv := r.Range(1, 3)
	vers := append([]string(nil), verPool...)
	hx.Shuffle(r, vers)
	vers = vers[:nv]
	if r.Chance(7, 8) && !contains(vers, c.Default) {
		vers[0] = c.Default
	}
	c.vers = vers
	if r.Chance(3, 5) {
		n := r.Range(1, 4)
		perm := append([]string(nil), verPool...)
		hx.Shuffle(r, perm)
		c.Valid = perm[:n]
		if r.Chance(3, 4) && !contains(c.Valid, c.Default) {
			c.Valid[0] = c.Default
		}
		if r.Chance(2, 3) { // mostly: every version that has routes is valid
			for _, v := range vers {
				if !contains(c.Valid, v) {
					c.Valid = append(c.Valid, v)
				}
			}
		}
	} else {
		c.Valid = []string{}
	}
	c.SendVH = r.Chance(1, 2)
	c.SendW = r.Chance(1, 2)
	c.Enforce = r.Chance(2, 3)
	c.Now = 1750000000 + int64(r.Intn(2000))*86400
	c.Compiled = r.Chance(1, 3)
	c.ViaApp = r.Chance(1, 6)
	warm := r.Chance(1, 3)
	c.LCs = []lcT{}
	for _, v := range verPool {
		if !r.Chance(2, 5) {
			continue
		}
		lc := lcT{Ver: v, Deprecated: r.Chance(3, 5), HasSunset: r.Chance(3, 5)}
		if lc.HasSunset {
			lc.Sunset = c.Now + int64(r.Range(-400, 400))*86400
			switch r.Intn(8) {
			case 0:
				lc.Sunset = c.Now // boundary: now.After(sunset) is false
			case 1:
				lc.Sunset = c.Now - 1
			case 2:
				lc.Sunset = c.Now + 1
			}
			if r.Chance(1, 4) {
				lc.ZoneOff = hx.Pick(r, []int{3600, -5 * 3600, 19800})
			}
		}
		if r.Chance(1, 2) {
			lc.Migration = "https://docs.example.com/migrate/" + v
		}
		if isLCEmpty(lc) {
			continue
		}
		c.LCs = append(c.LCs, lc)
		if r.Chance(1, 10) { // a second r.Version(v, …) call replaces the first
			lc2 := lc
			lc2.Deprecated = !lc.Deprecated
			if !isLCEmpty(lc2) {
				c.LCs = append(c.LCs, lc2)
			}
		}
	}
	// routes: the same path in the main tree / two or three version trees
	k.R = []routeT{}
	np := r.Range(1, 4)
	for i := 0; i < np; i++ {
		p := hx.Pick(r, routePaths)
		for _, v := range vers {
			if r.Chance(7, 8) {
				m := "GET"
				if r.Chance(1, 6) {
					m = "POST"
				}
				k.R = append(k.R, routeT{Versioned: true, Ver: v, Method: m, Path: p})
			}
		}
		if r.Chance(1, 4) {
			m := "GET"
			if r.Chance(1, 4) {
				m = "POST"
			}
			k.R = append(k.R, routeT{Method: m, Path: p})
		}
	}
	k.R = dedupRoutes(k.R)
	if warm && len(k.R) >= 2 {
		c.WarmupAfter = r.Range(1, len(k.R)-1)
		if r.Chance(1, 2) { // the routes registered after the warm-up: same version trees as before it, new paths
			hx.Shuffle(r, k.R)
		}
	}
	// faults and environment that are not model inputs
	if r.Chance(1, 6) {
		c.Observer = true
	}
	if len(c.Valid) > 0 && r.Chance(1, 5) { // an earlier, different valid list (replaced): its versions must not count
		for _, v := range verPool {
			if !contains(c.Valid, v) || r.Chance(1, 3) {
				c.ValidFirst = append(c.ValidFirst, v)
			}
		}
	}
	if r.Chance(1, 8) {
		c.DefaultFirst = hx.Pick(r, verPool)
	}
	if len(c.LCs) > 0 && r.Chance(1, 3) {
		c.LCScript = lcScriptOf(r, c.LCs)
	}
	if len(c.LCs) > 0 && r.Chance(1, 4) {
		c.LCLate = true
		if c.WarmupAfter == 0 && r.Chance(1, 2) {
			c.WarmupAfter = len(k.R) // Warmup() after ALL routes, then the lifecycles
		}
	}
	if r.Chance(1, 10) {
		c.ObsPanic = hx.Pick(r, []string{"D", "D", "M", "I", "U"})
	}
	if r.Chance(1, 5) { // an advancing clock around a sunset date
		var ss []int64
		for _, lc := range c.LCs {
			if lc.HasSunset {
				ss = append(ss, lc.Sunset)
			}
		}
		if len(ss) > 0 {
			c.Now = hx.Pick(r, ss) - int64(r.Range(0, 2))
			c.Tick = int64(r.Range(1, 4))
			c.Enforce = c.Enforce || r.Chance(2, 3)
		}
	}
	k.Q = genReq(r, &k)
	if r.Chance(1, 10) {
		k.Q.Cancelled = true
	}
	if c.ViaApp && r.Chance(1, 3) {
		// the handler panics after it has reported; the app's default recovery middleware answers 500 — the lifecycle
		// headers the router set before the chain ran belong to that answer too
		k.Q.Panic = true
	}
	if c.WarmupAfter > 0 && c.WarmupAfter < len(k.R) && r.Chance(2, 3) { // mostly ask for a route registered after the warm-up
		rt := k.R[r.Range(c.WarmupAfter, len(k.R)-1)]
		keep := k.Q
		k.Q = genReq(r, &k)
		k.Q.Cancelled = keep.Cancelled
		if !rt.Versioned || rt.Path == "" {
			k.Q = keep
		} else {
			k.Q.Method = rt.Method
			if !strings.HasSuffix(k.Q.Path, rt.Path) {
				k.Q.Path = rt.Path
			}
		}
	}
	return k
}

// genReq generates one request for the configuration and routes of k.
func genReq(r *hx.Rand, k *caseT) reqT {
	c := &k.C
	var qq reqT
	q := &qq
	q.Method = "GET"
	base := hx.Pick(r, routePaths)
	if len(k.R) > 0 && r.Chance(7, 8) {
		rt := hx.Pick(r, k.R) // mostly a registered (method, path): the interesting outcomes are not 404s
		base = rt.Path
		q.Method = rt.Method
	}
	if r.Chance(1, 16) {
		q.Method = hx.Pick(r, []string{"GET", "POST"})
	}
	q.Path = genPath(r, c, base)
	if r.Chance(3, 5) {
		q.RawQuery = genQuery(r, c)
	}
	q.Hdr = [][2]string{}
	for _, op := range c.Opts {
		switch op.K {
		case "H":
			if r.Chance(2, 3) {
				// net/http delivers header values without leading / trailing white space
				q.Hdr = append(q.Hdr, [2]string{op.A, strings.TrimSpace(genVersionValue(r, c))})
				if r.Chance(1, 10) {
					q.Hdr = append(q.Hdr, [2]string{op.A, hx.Pick(r, verPool)})
				}
			}
		case "C":
			if r.Chance(1, 2) {
				q.Hdr = append(q.Hdr, [2]string{custHeader(op.N), strings.TrimSpace(genVersionValue(r, c))})
			}
		}
	}
	if r.Chance(1, 2) {
		q.Hdr = append(q.Hdr, [2]string{"Accept", strings.TrimSpace(genAccept(r, c))})
		if r.Chance(1, 12) {
			q.Hdr = append(q.Hdr, [2]string{"Accept", strings.TrimSpace(genAccept(r, c))})
		}
	}
	return qq
}

// concBatches: concurrent-request batches. The first mirrors the documented use (Accept pattern, v1..v3, one
// path in every version tree); the others take a generated configuration that has an Accept option and 4-6
// generated requests for it.
func concBatches(seed uint64, r *hx.Rand, n int, st *hx.Stats, w func(string)) {
	G := min(max(runtime.GOMAXPROCS(0), 2), 8)
	demo := caseT{
		C: cfgT{Opts: []optT{{K: "A", A: "application/vnd.demo.{version}+json"}, {K: "H", A: "X-API-Version"}, {K: "Q", A: "v"}},
			Default: "v1", Valid: []string{"v1", "v2", "v3"}, SendVH: true, Now: 1750000000, LCs: []lcT{{Ver: "v2", Deprecated: true}}},
	}
	var qs []reqT
	for _, v := range []string{"v1", "v2", "v3"} {
		demo.R = append(demo.R, routeT{Versioned: true, Ver: v, Method: "GET", Path: "/users"})
		qs = append(qs, reqT{Method: "GET", Path: "/users", Hdr: [][2]string{{"Accept", "text/html;q=0.1, application/vnd.demo." + v + "+json"}}})
	}
	qs = append(qs, reqT{Method: "GET", Path: "/users", Hdr: [][2]string{{"X-API-Version", "v3"}}},
		reqT{Method: "GET", Path: "/users", RawQuery: "v=v2", Hdr: [][2]string{}})
	for _, l := range runConc(fmt.Sprintf("c13c-%d-0", seed), demo, qs, G, 600, -1, st) {
		w(l)
	}
	// the same with PATH detection (two patterns), a custom detector and a header: per-detector state shared between
	// requests for different versions (seeded C13-25: a memo of the last "v"+segment inside the path detector)
	demo2 := caseT{
		C: cfgT{Opts: []optT{{K: "P", A: "/v{version}/"}, {K: "P", A: "/api/{version}/"}, {K: "C", N: 1}, {K: "H", A: "X-API-Version"}},
			Default: "v1", Valid: []string{"v1", "v2", "v3"}, SendVH: true, Now: 1750000000, LCs: []lcT{{Ver: "v3", Deprecated: true}}},
	}
	var qs2 []reqT
	for _, v := range []string{"v1", "v2", "v3"} {
		demo2.R = append(demo2.R, routeT{Versioned: true, Ver: v, Method: "GET", Path: "/users"})
		qs2 = append(qs2, reqT{Method: "GET", Path: "/" + v + "/users"}, reqT{Method: "GET", Path: "/api/" + v + "/users"})
	}
	qs2 = append(qs2, reqT{Method: "GET", Path: "/users", Hdr: [][2]string{{"X-API-Version", "v2"}}},
		reqT{Method: "GET", Path: "/v1/users", Hdr: [][2]string{{custHeader(1), "v3"}}})
	for _, l := range runConc(fmt.Sprintf("c13c-%d-p", seed), demo2, qs2, G, 25000, -1, st) {
		w(l)
	}
	for b := 1; b <= n; b++ {
		var k caseT
		need := []string{"A", "P", "A", "P", "C", "Q"}[b%6] // the detector kind the batch is about
		for try := 0; try < 80; try++ {
			k = genCase(r)
			hasA := false
			for _, op := range k.C.Opts {
				if op.K == need {
					hasA = true
				}
			}
			if hasA && len(k.R) > 0 && !k.C.ViaApp {
				break
			}
		}
		k.C.ObsPanic, k.C.Tick, k.Q.Cancelled = "", 0, false
		var vs []reqT
		for i := 0; i < r.Range(4, 6); i++ {
			q := genReq(r, &k)
			if len(k.C.vers) > 0 { // make sure the Accept header carries a version that has routes
				pat := ""
				for _, op := range k.C.Opts {
					if op.K == "A" {
						pat = op.A
					}
				}
				v := k.C.vers[i%len(k.C.vers)]
				if strings.Contains(pat, "v{version}") {
					v = strings.TrimPrefix(v, "v")
				}
				q.Hdr = append([][2]string{}, q.Hdr...)
				kept := q.Hdr[:0]
				for _, h := range q.Hdr {
					if h[0] != "Accept" {
						kept = append(kept, h)
					}
				}
				q.Hdr = append(kept, [2]string{"Accept", strings.Replace(pat, "{version}", v, 1)})
			}
			vs = append(vs, q)
		}
		for _, l := range runConc(fmt.Sprintf("c13c-%d-%d", seed, b), k, vs, G, 300, -1, st) {
			w(l)
		}
	}
}

// seqBatches: request SEQUENCES on one router from one goroutine (G = 1), some of whose handlers panic after
// reporting (the harness recovers, as net/http does per connection). Judged: every request whose handler does not
// panic, by the ordinary per-request oracle — what an aborted request leaves behind must not reach the next one.
func seqBatches(seed uint64, r *hx.Rand, n int, st *hx.Stats, w func(string)) {
	for b := 0; b < n; b++ {
		var k caseT
		for try := 0; try < 50; try++ {
			k = genCase(r)
			nv, nu := 0, 0
			for _, rt := range k.R {
				if rt.Versioned {
					nv++
				} else {
					nu++
				}
			}
			if nv > 0 && (nu > 0 || try > 25) && !k.C.ViaApp {
				break
			}
		}
		k.C.ObsPanic, k.C.Tick, k.Q.Cancelled = "", 0, false
		if b%2 == 0 {
			// an unversioned route of its own: "reports none", also after a panic (routes of the model are static paths)
			k.R = append(k.R, routeT{Method: "GET", Path: "/zz-plain"})
			k.R = dedupRoutes(k.R)
		}
		var qs []reqT
		for i := 0; i < r.Range(4, 8); i++ {
			q := genReq(r, &k)
			if r.Chance(1, 3) {
				q.Panic = true
			}
			qs = append(qs, q)
			if b%2 == 0 && r.Chance(1, 2) {
				qs = append(qs, reqT{Method: "GET", Path: "/zz-plain", Hdr: [][2]string{}})
			}
		}
		for _, l := range runConc(fmt.Sprintf("c13s-%d-%d", seed, b), k, qs, 1, 3*len(qs), -1, st) {
			w(l)
		}
		if st != nil {
			st.Count("request_sequences_with_panicking_handlers")
		}
	}
}

// manyVersionsSequence (seeded C13-35 class): ONE router without a valid-versions list sees 70 requests that each name
// another unknown version (served from the default version's tree, reported as named), then the first request ever for a
// registered version: state that accumulates over requests must not change what a later request is answered
func manyVersionsSequence(seed uint64, st *hx.Stats, w func(string)) {
	k := caseT{C: cfgT{Opts: []optT{{K: "H", A: "X-API-Version"}, {K: "Q", A: "v"}}, Default: "v1", Valid: []string{}, SendVH: true, Now: 1750000000, LCs: []lcT{}},
		R: []routeT{{Versioned: true, Ver: "v1", Method: "GET", Path: "/users"}, {Versioned: true, Ver: "v2", Method: "GET", Path: "/users"}}}
	var qs []reqT
	for i := 0; i < 70; i++ {
		if i%2 == 0 {
			qs = append(qs, reqT{Method: "GET", Path: "/users", Hdr: [][2]string{{"X-API-Version", "u" + strconv.Itoa(i)}}})
		} else {
			qs = append(qs, reqT{Method: "GET", Path: "/users", RawQuery: "v=u" + strconv.Itoa(i), Hdr: [][2]string{}})
		}
	}
	qs = append(qs, reqT{Method: "GET", Path: "/users", Hdr: [][2]string{{"X-API-Version", "v2"}}},
		reqT{Method: "GET", Path: "/users", RawQuery: "v=v2", Hdr: [][2]string{}})
	for _, l := range runConc(fmt.Sprintf("c13s-%d-many", seed), k, qs, 1, len(qs), -1, st) {
		w(l)
	}
}

// the router panics on a duplicate (tree, method, path); keep the first
func dedupRoutes(rs []routeT) []routeT {
	seen := map[routeT]bool{}
	out := rs[:0:0]
	for _, x := range rs {
		if !seen[x] {
			seen[x] = true
			out = append(out, x)
		}
	}
	return out
}

// ---------------------------------------------------------------- fixed witnesses

func witness(opts []optT, lcs []lcT, enforce bool, q reqT) caseT {
	if lcs == nil {
		lcs = []lcT{}
	}
	if q.Hdr == nil {
		q.Hdr = [][2]string{}
	}
	return caseT{
		C: cfgT{Opts: opts, Default: "v1", Valid: []string{}, SendVH: true, Enforce: enforce, Now: 1750000000, LCs: lcs},
		R: []routeT{{Versioned: true, Ver: "v1", Method: "GET", Path: "/users"}, {Versioned: true, Ver: "v2", Method: "GET", Path: "/users"}},
		Q: q,
	}
}

func fixedCases() []caseT {
	qv := []optT{{K: "Q", A: "v"}}
	acc := []optT{{K: "A", A: "application/vnd.api+{version}+json"}}
	acc2 := []optT{{K: "A", A: "application/vnd.api.{version}+json"}}
	return []caseT{
		// K13a: the substring scanner gave up after two keys that merely end in the parameter name
		witness(qv, nil, false, reqT{Method: "GET", Path: "/users", RawQuery: "xv=v1&yv=v9&v=v2"}),
		// K13a: neither key nor value was percent-decoded
		witness(qv, nil, false, reqT{Method: "GET", Path: "/users", RawQuery: "%76=v2"}),
		witness(qv, nil, false, reqT{Method: "GET", Path: "/users", RawQuery: "v=v%32"}),
		witness(qv, nil, false, reqT{Method: "GET", Path: "/users", RawQuery: "v=v2"}),
		witness(qv, nil, false, reqT{Method: "GET", Path: "/users", RawQuery: "xv=v9&v=v2"}),
		// K13b: media type shorter than prefix+suffix that has both: slice bounds out of range
		witness(acc, nil, false, reqT{Method: "GET", Path: "/users", Hdr: [][2]string{{"Accept", "application/vnd.api+json"}}}),
		// K13c: sunset in the past, enforcement on, version not marked deprecated
		witness(qv, []lcT{{Ver: "v1", HasSunset: true, Sunset: 1750000000 - 86400}}, true, reqT{Method: "GET", Path: "/users"}),
		// K13d: optional white space before the parameter separator
		witness(acc2, nil, false, reqT{Method: "GET", Path: "/users", Hdr: [][2]string{{"Accept", "application/vnd.api.v2+json ;q=0.9"}}}),
		// seeded C13-7 class: static version routes, explicit Warmup, more routes for the same version+method, request them
		func() caseT {
			k := witness(qv, nil, false, reqT{Method: "GET", Path: "/items", RawQuery: "v=v2"})
			k.R = append(k.R, routeT{Versioned: true, Ver: "v2", Method: "GET", Path: "/items"}, routeT{Versioned: true, Ver: "v1", Method: "GET", Path: "/items"})
			k.C.WarmupAfter = 2
			return k
		}(),
		func() caseT {
			k := witness(qv, nil, false, reqT{Method: "GET", Path: "/items"}) // reached as the default version
			k.R = append(k.R, routeT{Versioned: true, Ver: "v1", Method: "GET", Path: "/items"})
			k.C.WarmupAfter = 2
			return k
		}(),
		// boundaries: deprecated with future sunset; sunset exactly now
		witness(qv, []lcT{{Ver: "v1", Deprecated: true, HasSunset: true, Sunset: 1750000000 + 86400, Migration: "https://d/m"}}, true, reqT{Method: "GET", Path: "/users"}),
		witness(qv, []lcT{{Ver: "v1", Deprecated: true, HasSunset: true, Sunset: 1750000000}}, true, reqT{Method: "GET", Path: "/users"}),
		// seeded C13-14 class: the request context is already cancelled; a version past its sunset date / a deprecated one
		witness(qv, []lcT{{Ver: "v2", HasSunset: true, Sunset: 1750000000 - 86400}}, true, reqT{Method: "GET", Path: "/users", RawQuery: "v=v2", Cancelled: true}),
		witness(qv, []lcT{{Ver: "v2", Deprecated: true}}, false, reqT{Method: "GET", Path: "/users", RawQuery: "v=v2", Cancelled: true}),
		// seeded C13-15 class: the clock advances during the request, the sunset date lies between two readings
		func() caseT {
			k := witness(qv, []lcT{{Ver: "v2", Deprecated: true, HasSunset: true, Sunset: 1750000000, Migration: "https://d/m"}}, true, reqT{Method: "GET", Path: "/users", RawQuery: "v=v2"})
			k.C.Tick = 1
			return k
		}(),
		// seeded C13-16 class: observer callbacks that do nothing
		func() caseT {
			k := witness(qv, []lcT{{Ver: "v2", Deprecated: true}}, false, reqT{Method: "GET", Path: "/users", RawQuery: "v=v2"})
			k.C.Observer = true
			return k
		}(),
	}
}

func main() {
	a := hx.ParseArgs()
	w := hx.Out()
	defer w.Flush()
	switch a.Cmd {
	case "gen":
		r := hx.NewRand(a.Seed)
		st := hx.NewStats()
		for i, k := range fixedCases() {
			if line, ok := emit(fmt.Sprintf("c13-fix-%d", i), k, st); ok {
				fmt.Fprintln(w, line)
			}
		}
		for i := 0; i < a.N; i++ {
			if line, ok := emit(fmt.Sprintf("c13-%d-%d", a.Seed, i), genCase(r), st); ok {
				fmt.Fprintln(w, line)
			}
		}
		for i, k := range fixedCfgCases() {
			fmt.Fprintln(w, emitCfg(fmt.Sprintf("c13o-fix-%d", i), k, st))
		}
		for i := 0; i < a.N/10; i++ {
			fmt.Fprintln(w, emitCfg(fmt.Sprintf("c13o-%d-%d", a.Seed, i), genCfgCase(r), st))
		}
		for i, k := range fixedChainCases() {
			fmt.Fprintln(w, emitChain(fmt.Sprintf("c13g-fix-%d", i), k, st))
		}
		for i := 0; i < a.N/20; i++ {
			fmt.Fprintln(w, emitChain(fmt.Sprintf("c13g-%d-%d", a.Seed, i), genChainCase(r), st))
		}
		nb := 6
		if a.Tier == "thorough" {
			nb = 40
		}
		concBatches(a.Seed, r, nb, st, func(l string) { fmt.Fprintln(w, l) })
		seqBatches(a.Seed, r, 50*nb, st, func(l string) { fmt.Fprintln(w, l) })
		manyVersionsSequence(a.Seed, st, func(l string) { fmt.Fprintln(w, l) })
		st.Emit(w)
	case "replay":
		for _, line := range hx.StdinLines() {
			var k caseT
			id, err := hx.CaseFromComment(line, &k)
			if err != nil {
				fmt.Fprintf(w, "# cannot replay %q: %v\n", id, err)
				continue
			}
			if k.Chain != nil {
				fmt.Fprintln(w, emitChain(id, *k.Chain, nil))
				continue
			}
			if k.Cfg != nil {
				fmt.Fprintln(w, emitCfg(id, *k.Cfg, nil))
				continue
			}
			if k.Conc != nil { // re-run the concurrent batch, report what request Idx was answered
				for _, l := range runConc(id, k, k.Conc.Qs, k.Conc.G, k.Conc.N, k.Conc.Idx, nil) {
					fmt.Fprintln(w, l)
				}
				continue
			}
			if out, ok := emit(id, k, nil); ok {
				fmt.Fprintln(w, out)
			}
		}
	}
}
