// Harness for C18 (client IP resolution). Drives the real router through its public API:
// router.WithTrustedProxies(...) + a handler that reports c.ClientIP().
package main

import (
	"fmt"
	"net"
	"net/http"
	"net/http/httptest"
	"strconv"
	"strings"

	"rivaas.dev/router"
	"verif/harness/hx"
)

type cfgT struct {
	Cidrs   []string
	nets    []*net.IPNet
	Headers []string // header names in configuration order; nil = default
	MaxHops int      // as configured (0 = default 1)
}

type reqT struct {
	Remote string
	Hdr    map[string]string // header name -> value ("" = absent)
}

// caseT is the concrete case; it travels as JSON in the trailing comment of the case line so that
// `replay` can re-run exactly the same configuration and request.
type caseT struct {
	C cfgT
	Q reqT
}

var cidrPool = [][]string{
	{"10.0.0.0/8"},
	{"10.0.0.0/8", "127.0.0.0/8"},
	{"192.168.0.0/16", "10.1.0.0/16", "::1/128"},
	{"fd00::/8", "10.0.0.0/8"},
	{"0.0.0.0/0"},
	{"127.0.0.1/32", "2001:db8::/32"},
	{},
}

var trustedIPs = []string{"10.0.0.1", "10.0.0.2", "10.1.2.3", "127.0.0.1", "192.168.1.1", "::1", "fd00::1", "2001:db8::5", "10.255.255.255"}
var untrustedIPs = []string{"9.9.9.9", "203.0.113.7", "8.8.8.8", "2001:4860::8888", "172.16.0.9", "1.1.1.1", "11.0.0.1", "::ffff:9.9.9.9"}
var garbage = []string{"", " ", "unknown", "1.2.3", "1.2.3.4:80", "[::1]:80", "fe80::1%eth0", "999.1.1.1", "a,b", "10.0.0.1 x", "\t10.0.0.2\t", " 9.9.9.9 ", "0x7f.1", "::", "1.2.3.4.5", "_hidden", "127.1", "010.0.0.1", "１.２.３.４"}
var hdrNames = []string{"X-Forwarded-For", "X-Real-IP", "CF-Connecting-IP", "Fastly-Client-IP", "True-Client-IP"}

func genItem(r *hx.Rand) string {
	switch r.Intn(10) {
	case 0, 1, 2:
		return hx.Pick(r, trustedIPs)
	case 3, 4, 5, 6:
		return hx.Pick(r, untrustedIPs)
	case 7:
		return hx.Pick(r, garbage)
	case 8:
		return fmt.Sprintf("10.%d.%d.%d", r.Intn(256), r.Intn(256), r.Intn(256))
	default:
		return fmt.Sprintf("%d.%d.%d.%d", r.Range(1, 223), r.Intn(256), r.Intn(256), r.Intn(256))
	}
}

func genXFF(r *hx.Rand) string {
	n := r.Range(0, 6)
	if r.Chance(1, 25) {
		n = r.Range(10, 40) // very long chains
	}
	parts := make([]string, n)
	for i := range parts {
		parts[i] = genItem(r)
	}
	seps := []string{",", ", ", " , ", ",  ", ",,", ", ,"}
	var b strings.Builder
	for i, p := range parts {
		if i > 0 {
			b.WriteString(hx.Pick(r, seps))
		}
		b.WriteString(p)
	}
	return b.String()
}

func genCase(r *hx.Rand) (cfgT, reqT) {
	var c cfgT
	c.Cidrs = hx.Pick(r, cidrPool)
	switch r.Intn(4) {
	case 0: // default headers
	default:
		n := r.Range(1, 4)
		perm := append([]string(nil), hdrNames...)
		hx.Shuffle(r, perm)
		c.Headers = perm[:n]
		if r.Chance(2, 3) && !contains(c.Headers, "X-Forwarded-For") {
			c.Headers[r.Intn(n)] = "X-Forwarded-For"
		}
	}
	c.MaxHops = r.Range(0, 5)
	var q reqT
	peer := ""
	switch r.Intn(10) {
	case 0, 1, 2, 3, 4:
		peer = hx.Pick(r, trustedIPs)
		// make the peer really trusted under this configuration most of the time
		cc := c
		for _, s := range cc.Cidrs {
			if _, n, err := net.ParseCIDR(s); err == nil {
				cc.nets = append(cc.nets, n)
			}
		}
		for k := 0; k < 8 && !cc.trusted(peer); k++ {
			peer = hx.Pick(r, trustedIPs)
		}
	case 5, 6, 7:
		peer = hx.Pick(r, untrustedIPs)
	case 8:
		peer = genItem(r)
	default:
		peer = hx.Pick(r, garbage)
	}
	switch r.Intn(6) {
	case 0:
		q.Remote = peer // bare
	case 1:
		q.Remote = "[" + peer + "]:" + strconv.Itoa(r.Range(1, 65535))
	default:
		if strings.Contains(peer, ":") {
			q.Remote = "[" + peer + "]:" + strconv.Itoa(r.Range(1, 65535))
		} else {
			q.Remote = peer + ":" + strconv.Itoa(r.Range(1, 65535))
		}
	}
	q.Hdr = map[string]string{}
	for _, h := range hdrNames {
		if r.Chance(1, 3) {
			continue
		}
		if h == "X-Forwarded-For" {
			q.Hdr[h] = genXFF(r)
		} else if r.Chance(1, 8) {
			q.Hdr[h] = genXFF(r) // a list where a single address is expected
		} else {
			q.Hdr[h] = genItem(r)
		}
	}
	return c, q
}

func contains(xs []string, s string) bool {
	for _, x := range xs {
		if x == s {
			return true
		}
	}
	return false
}

// --- the parts of the `net` package the model takes as parameters, evaluated for real ---

func parseOne(s string) (string, bool) {
	s = strings.TrimSpace(s)
	if s == "" {
		return "", false
	}
	ip := net.ParseIP(s)
	if ip == nil {
		return "", false
	}
	return ip.String(), true
}

func (c *cfgT) trusted(ip string) bool {
	p := net.ParseIP(ip)
	if p == nil {
		return false
	}
	for _, n := range c.nets {
		if n.Contains(p) {
			return true
		}
	}
	return false
}

func peerOf(remote string) string {
	if remote == "" {
		return ""
	}
	h, _, err := net.SplitHostPort(remote)
	if err != nil {
		return remote
	}
	return h
}

func splitTrim(s string) []string {
	var out []string
	for _, p := range strings.Split(s, ",") {
		p = strings.TrimSpace(p)
		if p != "" {
			out = append(out, p)
		}
	}
	return out
}

// observe runs the real code; ok=false means ClientIP panicked.
func observe(c cfgT, q reqT) (res string, ok bool) {
	opts := []router.TrustedProxyOption{router.WithProxies(c.Cidrs...)}
	if c.Headers != nil {
		hs := make([]router.RealIPHeader, len(c.Headers))
		for i, h := range c.Headers {
			hs[i] = router.RealIPHeader(h)
		}
		opts = append(opts, router.WithProxyHeaders(hs...))
	}
	if c.MaxHops != 0 {
		opts = append(opts, router.WithProxyMaxHops(c.MaxHops))
	}
	r := router.MustNew(router.WithTrustedProxies(opts...))
	ok = true
	r.GET("/ip", func(ctx *router.Context) {
		defer func() {
			if p := recover(); p != nil {
				ok = false
			}
		}()
		res = ctx.ClientIP()
	})
	req := httptest.NewRequest(http.MethodGet, "/ip", nil)
	req.RemoteAddr = q.Remote
	for k, v := range q.Hdr {
		req.Header.Set(k, v)
	}
	r.ServeHTTP(httptest.NewRecorder(), req)
	return res, ok
}

func emit(id string, c cfgT, q reqT, st *hx.Stats) string {
	c.nets = nil
	for _, s := range c.Cidrs {
		_, n, err := net.ParseCIDR(s)
		if err != nil {
			panic(err)
		}
		c.nets = append(c.nets, n)
	}
	headers := c.Headers
	if len(headers) == 0 {
		headers = []string{"X-Forwarded-For", "X-Real-IP"}
	}
	mh := c.MaxHops
	if mh <= 0 {
		mh = 1
	}
	peer := peerOf(q.Remote)
	l := hx.NewLine(id).Nat(mh).Str(peer).Bool(c.trusted(peer)).Nat(len(headers))
	nontrivial := false
	// the `net` table: every candidate item of every configured header, classified for real
	tbl := map[string]bool{}
	var order []string
	add := func(item string) {
		if item != "" && !tbl[item] {
			tbl[item] = true
			order = append(order, item)
		}
	}
	for _, h := range headers {
		v := q.Hdr[h]
		if h == "X-Forwarded-For" {
			l.Tok("X").Str(v)
			parts := splitTrim(v)
			sawT, sawU, sawBad := false, false, false
			for _, p := range parts {
				add(p)
				if ip, ok := parseOne(p); ok {
					if c.trusted(ip) {
						sawT = true
					} else {
						sawU = true
					}
				} else {
					sawBad = true
				}
			}
			if (sawT && sawU) || sawBad || len(parts) > mh+1 {
				nontrivial = true
			}
		} else {
			l.Tok("S").Str(v)
			add(strings.TrimSpace(v))
			if _, ok := parseOne(v); !ok && v != "" {
				nontrivial = true
			}
		}
	}
	l.Nat(len(order))
	for _, item := range order {
		l.Str(item)
		if ip, ok := parseOne(item); ok {
			l.Bool(true).Str(ip).Bool(c.trusted(ip))
		} else {
			l.Bool(false)
		}
	}
	res, ok := observe(c, q)
	in := l.String()
	l.Sep()
	if ok {
		l.Tok("R").Str(res)
	} else {
		l.Tok("P")
	}
	if st != nil {
		st.Case(in[len(id):], nontrivial && c.trusted(peer))
		if c.trusted(peer) {
			st.Count("peer_trusted")
		} else {
			st.Count("peer_untrusted")
		}
		if res != peer {
			st.Count("result_from_header")
		}
		st.Count("maxhops_" + strconv.Itoa(mh))
	}
	return l.String() + hx.Comment(caseT{c, q})
}

func main() {
	a := hx.ParseArgs()
	w := hx.Out()
	defer w.Flush()
	switch a.Cmd {
	case "gen":
		r := hx.NewRand(a.Seed)
		st := hx.NewStats()
		// fixed corpus first: the witnesses of K18a / K18b and the suite's documented rows
		fixed := []struct {
			c cfgT
			q reqT
		}{
			{cfgT{Cidrs: []string{"10.0.0.0/8"}, MaxHops: 1}, reqT{"10.0.0.1:1234", map[string]string{"X-Forwarded-For": "9.9.9.9, 10.0.0.2"}}},
			{cfgT{Cidrs: []string{"10.0.0.0/8", "127.0.0.0/8"}, MaxHops: 5}, reqT{"10.0.0.1:1234", map[string]string{"X-Forwarded-For": "127.0.0.1, 9.9.9.9"}}},
			{cfgT{Cidrs: []string{"10.0.0.0/8"}, MaxHops: 3}, reqT{"10.0.0.1:1234", map[string]string{"X-Forwarded-For": "203.0.113.1, 70.41.3.18, 150.172.238.178"}}},
			{cfgT{Cidrs: []string{"10.0.0.0/8"}, MaxHops: 2}, reqT{"10.0.0.1:1234", map[string]string{"X-Forwarded-For": "203.0.113.1, 10.0.0.1, 10.0.0.2"}}},
		}
		for i, f := range fixed {
			fmt.Fprintln(w, emit(fmt.Sprintf("c18-fix-%d", i), f.c, f.q, st))
		}
		for i := 0; i < a.N; i++ {
			c, q := genCase(r)
			fmt.Fprintln(w, emit(fmt.Sprintf("c18-%d-%d", a.Seed, i), c, q, st))
		}
		st.Emit(w)
	case "replay":
		for _, line := range hx.StdinLines() {
			var k caseT
			id, err := hx.CaseFromComment(line, &k)
			if err != nil {
				fmt.Fprintf(w, "# cannot replay %q: %v\n", id, err)
				continue
			}
			fmt.Fprintln(w, emit(id, k.C, k.Q, nil))
		}
	}
}
