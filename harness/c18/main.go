// Harness for C18 (client IP resolution). Drives the real router through its public API:
// router.WithTrustedProxies(...) + a handler that reports c.ClientIP().
package main

import (
	"encoding/hex"
	"fmt"
	"io"
	"log/slog"
	"net"
	"net/http"
	"net/http/httptest"
	"sort"
	"strconv"
	"strings"
	"sync"
	"time"

	"rivaas.dev/app"
	"rivaas.dev/middleware/recovery"
	"rivaas.dev/middleware/timeout"
	"rivaas.dev/router"
	"rivaas.dev/router/version"
	"verif/harness/hx"
)

type cfgT struct {
	Cidrs   []string
	nets    []*net.IPNet
	Headers []string // header names in configuration order; nil = default
	MaxHops int      // as configured (0 = default 1)
	Diag    bool     `json:",omitempty"` // router.WithDiagnostics installed (must not change any answer)
	// DiagNil: WithDiagnostics(handler) followed by WithDiagnostics(nil) — the later option wins: diagnostics off.
	DiagNil bool `json:",omitempty"`
	// Decoy: each option is given twice inside WithTrustedProxies — first with decoy values (trust everything,
	// another header, another hop limit), then with the real ones. The later option wins.
	Decoy bool `json:",omitempty"`
	// ExplicitZero: with MaxHops == 0 the option is still given — WithProxyMaxHops(0) — instead of left out;
	// "Defaults to 1": a hop limit of zero or less is the default, not "no limit"
	ExplicitZero bool `json:",omitempty"`
}

type reqT struct {
	Remote string
	Hdr    map[string]string // canonical header name -> value of its FIRST field line ("" = absent)
	// More: further field lines of the same header, sent after the first one. The code reads headers with
	// Header.Get, i.e. the first line only: these must have no influence.
	More map[string][]string `json:",omitempty"`
}

// caseT is the concrete case; it travels as JSON in the trailing comment of the case line so that
// `replay` can re-run exactly the same configuration and request.
type caseT struct {
	C cfgT
	Q reqT
	// Prev: the request state of an EARLIER ClientIP() call on the same context; the request was
	// then changed in place to Q (RemoteAddr, headers) and ClientIP() called again.
	Prev *reqT `json:",omitempty"`
	// Conc: the other requests served concurrently on the same router while Q was served.
	Conc []reqT `json:",omitempty"`
	// Before: requests served earlier on the same router (the router must be stateless per request).
	Before []reqT `json:",omitempty"`
	// Other: configuration of ANOTHER router in the same process that served a request just before;
	// Site: where ClientIP() was called from ("" = route handler, "noroute" = custom NoRoute handler reached
	// through a method without any route tree, "nf" = NoRoute on a method with a tree, "mw" = global middleware).
	Other *cfgT  `json:",omitempty"`
	Site  string `json:",omitempty"`
}

var cidrPool = [][]string{
	{"10.0.0.0/8"},
	{"10.0.0.0/8", "127.0.0.0/8"},
	{"192.168.0.0/16", "10.1.0.0/16", "::1/128"},
	{"fd00::/8", "10.0.0.0/8"},
	{"0.0.0.0/0"},
	{"127.0.0.1/32", "2001:db8::/32"},
	{},
	{"10.1.2.3/8", "192.168.1.7/16"},       // host bits set: ParseCIDR keeps the network only
	{"::ffff:10.0.0.0/104", "127.0.0.1/8"}, // IPv4-mapped notation
	{"::/0"},
	{"0.0.0.0/0", "::/0"},
	{"10.0.0.1/32", "10.0.0.0/8", "10.0.0.1/32"}, // duplicates and nesting
	{"fe80::/10", "fd00::/8", "::1/128", "::ffff:127.0.0.0/104"},
}

var trustedIPs = []string{"10.0.0.1", "10.0.0.2", "10.1.2.3", "127.0.0.1", "192.168.1.1", "::1", "fd00::1", "2001:db8::5", "10.255.255.255",
	"::ffff:10.0.0.1", "::ffff:127.0.0.1", "0:0:0:0:0:ffff:a00:2", "fd00:0:0::1", "010.0.0.1"}
var untrustedIPs = []string{"9.9.9.9", "203.0.113.7", "8.8.8.8", "2001:4860::8888", "172.16.0.9", "1.1.1.1", "11.0.0.1", "::ffff:9.9.9.9"}
var garbage = []string{"", " ", "unknown", "1.2.3", "1.2.3.4:80", "[::1]:80", "fe80::1%eth0", "999.1.1.1", "a,b", "10.0.0.1 x", "\t10.0.0.2\t", " 9.9.9.9 ", "0x7f.1", "::", "1.2.3.4.5", "_hidden", "127.1", "010.0.0.1", "１.２.３.４"}
var hdrNames = []string{"X-Forwarded-For", "X-Real-IP", "CF-Connecting-IP", "Fastly-Client-IP", "True-Client-IP"}

const decoyHdr = "X-Decoy"

// uniPad wraps an item in white space of every kind strings.TrimSpace knows, and in look-alikes it must
// NOT trim (lone Latin-1 bytes, zero-width space, BOM, truncated sequences).
func uniPad(r *hx.Rand, s string) string {
	pads := []string{"\u00a0", "\u0085", "\u1680", "\u2000", "\u2003", "\u200a", "\u2028", "\u2029", "\u202f", "\u205f", "\u3000",
		" ", "\t", "\r", "\v", "\f", "\xa0", "\x85", "\u200b", "\ufeff", "\xc2", "\xe2\x80", "\xe3\x80\x80\x80"}
	if r.Chance(1, 2) {
		s = hx.Pick(r, pads) + s
	}
	if r.Chance(1, 2) {
		s = s + hx.Pick(r, pads)
	}
	return s
}

// probeIPs: addresses around the edges of the networks of a GENERATED CIDR list (first/last address of each
// network, the addresses just outside, the sibling networks); drawn by genItem while such a case is built.
var probeIPs []string

func v4(u uint32) string {
	return fmt.Sprintf("%d.%d.%d.%d", byte(u>>24), byte(u>>16), byte(u>>8), byte(u))
}

func v6(hi uint64, lo uint16) string {
	return net.IP{byte(hi >> 56), byte(hi >> 48), byte(hi >> 40), byte(hi >> 32), byte(hi >> 24), byte(hi >> 16), byte(hi >> 8), byte(hi),
		0, 0, 0, 0, 0, 0, byte(lo >> 8), byte(lo)}.String()
}

// genCidrs builds a trusted-proxy list whose networks are related to each other — adjacent networks of equal size
// (aligned to their common parent or not), a network nested in another one with the same base address (narrow
// first or wide first), duplicates, host bits set — in IPv4 or IPv6, and the probe addresses around their edges.
func genCidrs(r *hx.Rand) (cidrs, probes []string) {
	if r.Chance(2, 3) {
		p := hx.Pick(r, []int{8, 16, 22, 23, 24, 25, 30, 31})
		size := uint32(1) << (32 - p)
		base := (uint32(hx.Pick(r, []int{10, 172, 192, 100}))<<24 | uint32(r.Intn(1<<16))<<8) &^ (size - 1)
		if base == 0 || base+2*size < base {
			base = 10 << 24
		}
		net1 := fmt.Sprintf("%s/%d", v4(base), p)
		edge := func(b uint32, sz uint32) {
			probes = append(probes, v4(b-1), v4(b), v4(b+sz/2), v4(b+sz-1), v4(b+sz))
		}
		edge(base, size)
		switch r.Intn(5) {
		case 0, 1: // the next network of the same size (aligned with net1 under a common parent, or not)
			cidrs = []string{net1, fmt.Sprintf("%s/%d", v4(base+size), p)}
			edge(base+size, size)
			edge(base-size, size)
			probes = append(probes, v4(base+2*size+1), v4(base-size-1))
		case 2: // nested, narrow first: same base address, a shorter prefix after it
			wp := p - r.Range(1, min(p-1, 16))
			wsize := uint32(1) << (32 - wp)
			wbase := base &^ (wsize - 1)
			cidrs = []string{net1, fmt.Sprintf("%s/%d", v4(wbase), wp)}
			edge(wbase, wsize)
		case 3: // nested, wide first
			wp := p - r.Range(1, min(p-1, 16))
			wsize := uint32(1) << (32 - wp)
			wbase := base &^ (wsize - 1)
			cidrs = []string{fmt.Sprintf("%s/%d", v4(wbase), wp), net1}
			edge(wbase, wsize)
		default: // one network, written with host bits, and twice
			cidrs = []string{fmt.Sprintf("%s/%d", v4(base+size/2), p), net1}
		}
		if r.Chance(1, 3) {
			hx.Shuffle(r, cidrs)
		}
		return cidrs, probes
	}
	p := hx.Pick(r, []int{8, 16, 32, 47, 48, 56, 63, 64})
	size := uint64(1) << (64 - p)
	base := (uint64(hx.Pick(r, []int{0xfd00, 0x2001, 0xfe80, 0xfc00}))<<48 | uint64(r.Intn(1<<16))<<16 | uint64(r.Intn(1<<16))) &^ (size - 1)
	net1 := fmt.Sprintf("%s/%d", v6(base, 0), p)
	edge := func(b, sz uint64) {
		probes = append(probes, v6(b-1, 0xffff), v6(b, 0), v6(b, 7), v6(b+sz/2, 1), v6(b+sz-1, 0xffff), v6(b+sz, 0))
	}
	edge(base, size)
	switch r.Intn(4) {
	case 0, 1:
		cidrs = []string{net1, fmt.Sprintf("%s/%d", v6(base+size, 0), p)}
		edge(base+size, size)
		edge(base-size, size)
	case 2:
		wp := p - r.Range(1, min(p-1, 24))
		wsize := uint64(1) << (64 - wp)
		cidrs = []string{net1, fmt.Sprintf("%s/%d", v6(base&^(wsize-1), 0), wp)}
		edge(base&^(wsize-1), wsize)
	default:
		wp := p - r.Range(1, min(p-1, 24))
		wsize := uint64(1) << (64 - wp)
		cidrs = []string{fmt.Sprintf("%s/%d", v6(base&^(wsize-1), 0), wp), net1}
		edge(base&^(wsize-1), wsize)
	}
	return cidrs, probes
}

func genItem(r *hx.Rand) string {
	if r.Chance(1, 12) {
		return uniPad(r, genItem(r))
	}
	if len(probeIPs) > 0 && r.Chance(1, 2) {
		return hx.Pick(r, probeIPs)
	}
	switch r.Intn(10) {
	case 0, 1, 2:
		return hx.Pick(r, trustedIPs)
	case 3, 4, 5, 6:
		return hx.Pick(r, untrustedIPs)
	case 7:
		return hx.Pick(r, garbage)
	case 8:
		return fmt.Sprintf("10.%d.%d.%d", r.Intn(256), r.Intn(256), r.Intn(256))
	default:
		return fmt.Sprintf("%d.%d.%d.%d", r.Range(1, 223), r.Intn(256), r.Intn(256), r.Intn(256))
	}
}

func genXFF(r *hx.Rand) string {
	n := r.Range(0, 6)
	if r.Chance(1, 25) {
		n = r.Range(10, 40) // very long chains
	}
	parts := make([]string, n)
	for i := range parts {
		parts[i] = genItem(r)
	}
	seps := []string{",", ", ", " , ", ",  ", ",,", ", ,", ",\u00a0", "\u2003,\u3000", ",\u0085 ", " \t,\v", ",\xa0", ",\x85", ",\u200b", "\ufeff,", ",\xc2", ",\xe2\x80"}
	var b strings.Builder
	for i, p := range parts {
		if i > 0 {
			b.WriteString(hx.Pick(r, seps))
		}
		b.WriteString(p)
	}
	return b.String()
}

func genCase(r *hx.Rand) (cfgT, reqT) {
	var c cfgT
	c.Cidrs = hx.Pick(r, cidrPool)
	probeIPs = nil
	if r.Chance(1, 5) { // a generated list of related networks; addresses around their edges as peers and items
		c.Cidrs, probeIPs = genCidrs(r)
		defer func() { probeIPs = nil }()
	}
	switch r.Intn(4) {
	case 0: // default headers
	default:
		n := r.Range(1, 4)
		perm := append([]string(nil), hdrNames...)
		hx.Shuffle(r, perm)
		c.Headers = perm[:n]
		if r.Chance(2, 3) && !contains(c.Headers, "X-Forwarded-For") {
			c.Headers[r.Intn(n)] = "X-Forwarded-For"
		}
		c.Headers = append([]string(nil), c.Headers...)
		if r.Chance(1, 6) { // configured names in odd case, repeated, or empty
			i := r.Intn(len(c.Headers))
			switch r.Intn(5) {
			case 0:
				c.Headers[i] = strings.ToLower(c.Headers[i])
			case 1:
				c.Headers[i] = strings.ToUpper(c.Headers[i])
			case 2:
				c.Headers = append(c.Headers, c.Headers[0])
			case 3:
				c.Headers[i] = ""
			default:
				c.Headers = append([]string{"x-real-ip"}, c.Headers...)
			}
		}
	}
	c.MaxHops = r.Range(0, 5)
	if r.Chance(1, 12) {
		c.MaxHops = hx.Pick(r, []int{-1, -1, -100, 6, 50, 1 << 30})
	}
	c.ExplicitZero = c.MaxHops == 0 && r.Chance(1, 2)
	c.Diag = r.Chance(1, 3)
	c.Decoy = r.Chance(1, 4)
	c.DiagNil = !c.Diag && r.Chance(1, 4)
	var q reqT
	peer := ""
	switch r.Intn(10) {
	case 0, 1, 2, 3, 4:
		peer = hx.Pick(r, trustedIPs)
		if len(probeIPs) > 0 {
			peer = hx.Pick(r, probeIPs)
		}
		// make the peer really trusted under this configuration most of the time
		cc := c
		for _, s := range cc.Cidrs {
			if _, n, err := net.ParseCIDR(s); err == nil {
				cc.nets = append(cc.nets, n)
			}
		}
		for k := 0; k < 8 && !cc.trusted(peer); k++ {
			if len(probeIPs) > 0 {
				peer = hx.Pick(r, probeIPs)
			} else {
				peer = hx.Pick(r, trustedIPs)
			}
		}
	case 5, 6, 7:
		peer = hx.Pick(r, untrustedIPs)
	case 8:
		peer = genItem(r)
	default:
		peer = hx.Pick(r, garbage)
	}
	switch r.Intn(6) {
	case 0:
		q.Remote = peer // bare
	case 1:
		q.Remote = "[" + peer + "]:" + strconv.Itoa(r.Range(1, 65535))
	default:
		if strings.Contains(peer, ":") {
			q.Remote = "[" + peer + "]:" + strconv.Itoa(r.Range(1, 65535))
		} else {
			q.Remote = peer + ":" + strconv.Itoa(r.Range(1, 65535))
		}
	}
	if r.Chance(1, 10) { // odd RemoteAddr forms: every branch of net.SplitHostPort
		q.Remote = hx.Pick(r, []string{"[::1]", "[::1]:", "::1:80", "a:b:c", "[a]b:1", "[[::1]]:1", "[::1]]:1", "host:1:2",
			":80", ":", "[]:1", "[x]:y]", "[10.0.0.1]:80", "10.0.0.1:", "[fd00::1%eth0]:1", "10.0.0.1:80:", "[::1]:80:90",
			"[::1", "::1]:80", "@", "unix", "/var/run/app.sock", "10.0.0.1 :80", " 10.0.0.1:80", "[" + peer + "]", peer + ":", "[" + peer})
	}
	q.Hdr = map[string]string{}
	for _, h := range hdrNames {
		if r.Chance(1, 3) {
			continue
		}
		if h == "X-Forwarded-For" {
			q.Hdr[h] = genXFF(r)
		} else if r.Chance(1, 8) {
			q.Hdr[h] = genXFF(r) // a list where a single address is expected
		} else {
			q.Hdr[h] = genItem(r)
		}
	}
	if r.Chance(1, 5) { // further field lines (Header.Get sees the first one only)
		q.More = map[string][]string{}
		for _, h := range hdrNames {
			if _, ok := q.Hdr[h]; ok && r.Chance(1, 2) {
				q.More[h] = []string{genXFF(r)}
				if r.Chance(1, 3) {
					q.More[h] = append(q.More[h], genItem(r))
				}
			}
		}
	}
	return c, q
}

func contains(xs []string, s string) bool {
	for _, x := range xs {
		if x == s {
			return true
		}
	}
	return false
}

// --- the parts of the `net` package the model takes as parameters, evaluated for real ---

func parseOne(s string) (string, bool) {
	s = strings.TrimSpace(s)
	if s == "" {
		return "", false
	}
	ip := net.ParseIP(s)
	if ip == nil {
		return "", false
	}
	return ip.String(), true
}

func (c *cfgT) trusted(ip string) bool {
	p := net.ParseIP(ip)
	if p == nil {
		return false
	}
	for _, n := range c.nets {
		if n.Contains(p) {
			return true
		}
	}
	return false
}

func peerOf(remote string) string {
	if remote == "" {
		return ""
	}
	h, _, err := net.SplitHostPort(remote)
	if err != nil {
		return remote
	}
	return h
}

func splitTrim(s string) []string {
	var out []string
	for _, p := range strings.Split(s, ",") {
		p = strings.TrimSpace(p)
		if p != "" {
			out = append(out, p)
		}
	}
	return out
}

// observe runs the real code; ok=false means ClientIP panicked.
func observe(c cfgT, q reqT) (res string, ok bool) {
	r := newRouter(c)
	ok = true
	r.GET("/ip", func(ctx *router.Context) {
		defer func() {
			if p := recover(); p != nil {
				ok = false
			}
		}()
		res = ctx.ClientIP()
	})
	req := httptest.NewRequest(http.MethodGet, "/ip", nil)
	req.RemoteAddr = q.Remote
	for k, v := range q.Hdr {
		req.Header.Set(k, v)
	}
	r.ServeHTTP(httptest.NewRecorder(), req)
	return res, ok
}

func emit(id string, c cfgT, q reqT, st *hx.Stats) string {
	res, ok := observe(c, q)
	return emitObs(id, caseT{C: c, Q: q}, res, ok, st)
}

// emitObs renders the case line of request k.Q under configuration k.C with the given observation
// (however it was obtained: single call, second call after an in-place change, concurrent batch).
func emitObs(id string, k caseT, res string, ok bool, st *hx.Stats) string {
	c, q := k.C, k.Q
	c.nets = nil
	for _, s := range c.Cidrs {
		_, n, err := net.ParseCIDR(s)
		if err != nil {
			panic(err)
		}
		c.nets = append(c.nets, n)
	}
	headers := c.Headers
	if len(headers) == 0 {
		headers = []string{"X-Forwarded-For", "X-Real-IP"}
	}
	mh := c.MaxHops
	if mh <= 0 {
		mh = 1 // (only for the non-triviality classification below: the MODEL normalises the configured value itself)
	}
	peer := peerOf(q.Remote)
	l := hx.NewLine(id).I64(int64(c.MaxHops)).Str(q.Remote)
	nontrivial := false
	// the `net` table: every candidate item of every configured header, classified for real
	tbl := map[string]bool{}
	var order []string
	add := func(item string) {
		if item != "" && !tbl[item] {
			tbl[item] = true
			order = append(order, item)
		}
	}
	canonHdr := map[string]string{}
	for k, v := range q.Hdr {
		canonHdr[http.CanonicalHeaderKey(k)] = v
	}
	// the header lists: as CONFIGURED (possibly empty) and the default pair — the model applies compileProxies'
	// "no headers configured: X-Forwarded-For, then X-Real-IP" itself (Model.compileHeaders)
	emitHdrs := func(hs []string) {
		l.Nat(len(hs))
		for _, h := range hs {
			v := canonHdr[http.CanonicalHeaderKey(h)] // Header.Get canonicalises the configured name
			if h == "X-Forwarded-For" {
				l.Tok("X").Str(v)
				parts := splitTrim(v)
				sawT, sawU, sawBad := false, false, false
				for _, p := range parts {
					add(p)
					if ip, ok := parseOne(p); ok {
						if c.trusted(ip) {
							sawT = true
						} else {
							sawU = true
						}
					} else {
						sawBad = true
					}
				}
				if (sawT && sawU) || sawBad || len(parts) > mh+1 {
					nontrivial = true
				}
			} else {
				l.Tok("S").Str(v)
				add(strings.TrimSpace(v))
				if _, ok := parseOne(v); !ok && v != "" {
					nontrivial = true
				}
			}
		}
	}
	emitHdrs(c.Headers)
	emitHdrs([]string{"X-Forwarded-For", "X-Real-IP"})
	_ = headers
	add(peer) // isTrusted(peer): net.ParseIP on the string as it is
	l.Nat(len(order))
	for _, item := range order {
		l.Str(item)
		if p := net.ParseIP(item); p != nil { // keys are trimmed items or the peer as it is: no trimming here
			ip := p.String()
			l.Bool(true).Str(ip).Bool(c.trusted(ip))
		} else {
			l.Bool(false)
		}
	}
	in := l.String()
	l.Sep()
	if ok {
		l.Tok("R").Str(res)
	} else {
		l.Tok("P")
	}
	if st != nil {
		st.Case(in[len(id):], nontrivial && c.trusted(peer))
		if c.trusted(peer) {
			st.Count("peer_trusted")
		} else {
			st.Count("peer_untrusted")
		}
		if res != peer {
			st.Count("result_from_header")
		}
		st.Count("maxhops_" + strconv.Itoa(mh))
	}
	if st != nil && k.Prev != nil {
		st.Count("second_call_after_in_place_change")
	}
	if st != nil && k.Conc != nil {
		st.Count("served_concurrently")
	}
	if st != nil && k.Before != nil {
		st.Count("not_first_request_on_router")
	}
	if st != nil && k.Other != nil {
		st.Count("other_router_served_before_site_" + k.Site)
	}
	if st != nil && c.Diag {
		st.Count("diagnostics_on")
	}
	if st != nil && c.Decoy {
		st.Count("options_given_twice")
	}
	return l.String() + hx.Comment(k)
}

func newRouter(c cfgT, extra ...router.Option) *router.Router {
	return router.MustNew(routerOptions(c, extra...)...)
}

func routerOptions(c cfgT, extra ...router.Option) []router.Option {
	var opts []router.TrustedProxyOption
	if c.Decoy {
		opts = append(opts, router.WithProxies("0.0.0.0/0", "::/0"))
		if c.Headers != nil {
			opts = append(opts, router.WithProxyHeaders(router.RealIPHeader("X-Decoy"), router.HeaderXFF))
		}
		if c.MaxHops != 0 {
			opts = append(opts, router.WithProxyMaxHops(7))
		}
	}
	opts = append(opts, router.WithProxies(c.Cidrs...))
	if c.Headers != nil {
		hs := make([]router.RealIPHeader, len(c.Headers))
		for i, h := range c.Headers {
			hs[i] = router.RealIPHeader(h)
		}
		opts = append(opts, router.WithProxyHeaders(hs...))
	}
	if c.MaxHops != 0 || c.ExplicitZero {
		opts = append(opts, router.WithProxyMaxHops(c.MaxHops))
	}
	ro := []router.Option{router.WithTrustedProxies(opts...)}
	if c.Diag {
		ro = append(ro, router.WithDiagnostics(router.DiagnosticHandlerFunc(func(router.DiagnosticEvent) {})))
	}
	if c.DiagNil {
		ro = append(ro, router.WithDiagnostics(router.DiagnosticHandlerFunc(func(router.DiagnosticEvent) {})), router.WithDiagnostics(nil))
	}
	return append(ro, extra...)
}

func applyReq(req *http.Request, q reqT) {
	req.RemoteAddr = q.Remote
	req.Header.Set(decoyHdr, "6.6.6.66")                                            // never configured for real: must have no influence
	req.Header.Set("Forwarded", "for=6.6.6.67;proto=https, for=\"[2001:db8::67]\"") // RFC 7239: not a configured header either
	for _, h := range hdrNames {
		req.Header.Del(h)
	}
	for k, v := range q.Hdr {
		req.Header.Set(k, v)
	}
	for k, vs := range q.More {
		if _, ok := q.Hdr[k]; !ok {
			continue
		}
		for _, v := range vs {
			req.Header.Add(k, v)
		}
	}
}

// serveOn serves q on router r at the given call site and returns what ClientIP() answered there.
func serveOn(r http.Handler, q reqT, site string, out *string, ok *bool) {
	method, path := http.MethodGet, "/ip"
	switch site {
	case "noroute":
		method, path = http.MethodDelete, "/nothing/here" // no DELETE tree at all
	case "nf":
		path = "/nothing/here"
	case "param", "cparam":
		path = "/p/7/ip"
	case "group":
		path = "/g/ip"
	case "mount", "mountsub":
		path = "/m/ip"
	case "mountown":
		path = "/ip"
	case "cstatic":
		path = "/s5"
	case "version":
		path = "/vip"
	case "app":
		path = "/app/ip"
	}
	req := httptest.NewRequest(method, path, nil)
	applyReq(req, q)
	if site == "version" {
		req.Header.Set("X-Api-Version", "v2")
	}
	func() {
		defer func() {
			if p := recover(); p != nil {
				*ok = false
			}
		}()
		r.ServeHTTP(httptest.NewRecorder(), req)
	}()
}

// siteRouter builds a router whose handler at `site` records ClientIP().
func siteRouter(c cfgT, site string, out *string, ok *bool) http.Handler {
	var extra []router.Option
	switch site {
	case "cstatic", "cparam":
		extra = append(extra, router.WithRouteCompilation(true))
	case "version":
		extra = append(extra, router.WithVersioning(version.WithHeaderDetection("X-Api-Version"), version.WithDefault("v1")))
	}
	rec := func(ctx *router.Context) {
		defer func() {
			if p := recover(); p != nil {
				*ok = false
			}
		}()
		*out = ctx.ClientIP()
	}
	if site == "app" { // the configuration reaches the router through app.WithRouter
		a, err := app.New(app.WithServiceName("c18"), app.WithServiceVersion("1.0.0"),
			app.WithRouter(routerOptions(c)...),                // platform defaults: trusted proxies …
			app.WithRouter(router.WithRouteCompilation(false))) // … service tuning in a second group
		if err != nil {
			panic(err)
		}
		// ClientIP() as an app handler calls it: on the *app.Context (today the promoted router method)
		a.GET("/app/ip", func(ctx *app.Context) {
			defer func() {
				if p := recover(); p != nil {
					*ok = false
				}
			}()
			*out = ctx.ClientIP()
		})
		return a.Router()
	}
	if site == "mountsub" || site == "mountown" {
		// the serving (parent) router has NO trusted-proxy configuration of its own; the mounted sub-router
		// trusts everything. The parent's configuration (none: the peer) applies, also on its own routes.
		parent := router.MustNew()
		sub := newRouter(cfgT{Cidrs: []string{"0.0.0.0/0", "::/0"}, MaxHops: 5})
		sub.GET("/ip", rec)
		parent.Mount("/m", sub)
		parent.GET("/ip", rec)
		parent.NoRoute(rec)
		return parent
	}
	r := newRouter(c, extra...)
	switch site {
	case "mw":
		r.Use(func(ctx *router.Context) { rec(ctx); ctx.Next() })
		r.GET("/ip", func(ctx *router.Context) {})
	case "param":
		r.GET("/p/:x/ip", rec)
	case "cparam": // enough routes for the compiled engine's index
		for i := 0; i < 12; i++ {
			r.GET(fmt.Sprintf("/q%d/:x/ip", i), func(ctx *router.Context) {})
		}
		r.GET("/p/:x/ip", rec)
	case "cstatic":
		for i := 0; i < 12; i++ {
			if i == 5 {
				r.GET("/s5", rec)
			} else {
				r.GET(fmt.Sprintf("/s%d", i), func(ctx *router.Context) {})
			}
		}
	case "group":
		r.Group("/g", func(ctx *router.Context) { ctx.Next() }).GET("/ip", rec)
	case "timeout": // ClientIP() called by the timeout middleware's handler, after the deadline has passed
		r.Use(timeout.New(timeout.WithDuration(3*time.Millisecond), timeout.WithoutLogging(),
			timeout.WithHandler(func(ctx *router.Context, _ time.Duration) { rec(ctx) })))
		r.GET("/ip", func(ctx *router.Context) {
			select {
			case <-ctx.Request.Context().Done():
			case <-time.After(200 * time.Millisecond):
			}
		})
	case "recovered", "recoveryhandler": // ClientIP() called after a handler panic has been recovered
		quiet := slog.New(slog.NewTextHandler(io.Discard, nil))
		if site == "recovered" { // by an outer middleware on its way out (what an access log does)
			r.Use(func(ctx *router.Context) { ctx.Next(); rec(ctx) })
			r.Use(recovery.New(recovery.WithLogger(quiet)))
		} else { // by the recovery middleware's own error handler
			r.Use(recovery.New(recovery.WithLogger(quiet), recovery.WithHandler(func(ctx *router.Context, _ any) { rec(ctx) })))
		}
		r.GET("/ip", func(ctx *router.Context) { panic("handler failed") })
	case "mount": // the serving router's configuration applies; the sub-router has none of its own
		sub := router.MustNew()
		sub.GET("/ip", rec)
		r.Mount("/m", sub)
	case "version":
		r.Version("v1").GET("/vip", func(ctx *router.Context) {})
		r.Version("v2").GET("/vip", rec)
	default:
		r.GET("/ip", rec)
	}
	r.NoRoute(rec)
	return r
}

// observeSession serves qs one after the other on ONE router and returns each answer.
func observeSession(c cfgT, qs []reqT) (res []string, oks []bool) {
	var out string
	ok := true
	r := siteRouter(c, "", &out, &ok)
	for _, q := range qs {
		out, ok = "", true
		serveOn(r, q, "", &out, &ok)
		res = append(res, out)
		oks = append(oks, ok)
	}
	return
}

// observeAfterOther: router A (configuration other) serves a request first — the pooled context then carries
// A — and router B (configuration c) answers q at the given call site.
func observeAfterOther(other, c cfgT, qa, q reqT, site string) (string, bool) {
	var outA, outB string
	okA, okB := true, true
	ra := siteRouter(other, "", &outA, &okA)
	rb := siteRouter(c, site, &outB, &okB)
	for i := 0; i < 3; i++ { // a few rounds so that pooled objects really change hands
		serveOn(ra, qa, "", &outA, &okA)
		outB, okB = "", true
		serveOn(rb, q, site, &outB, &okB)
	}
	return outB, okB
}

// v6WithLow32 is an (untrusted) IPv6 address whose low 32 bits equal the given IPv4 address.
func v6WithLow32(v4 string) string {
	ip := net.ParseIP(v4).To4()
	if ip == nil {
		return "2001:db8:ffff::1"
	}
	return fmt.Sprintf("2001:4860::%x:%x", int(ip[0])<<8|int(ip[1]), int(ip[2])<<8|int(ip[3]))
}

// observeTwice: a middleware calls ClientIP() on request state q1, the request is then changed IN PLACE
// to q2 (what a real-ip or proxy-protocol middleware does), and the handler calls ClientIP() again.
// ClientIP() is a function of the current request: the second answer is judged as an ordinary case of q2.
func observeTwice(c cfgT, q1, q2 reqT) (res1, res2 string, ok bool) {
	r := newRouter(c)
	ok = true
	r.Use(func(ctx *router.Context) {
		defer func() {
			if p := recover(); p != nil {
				ok = false
			}
		}()
		res1 = ctx.ClientIP()
		applyReq(ctx.Request, q2)
		ctx.Next()
	})
	r.GET("/ip", func(ctx *router.Context) {
		defer func() {
			if p := recover(); p != nil {
				ok = false
			}
		}()
		res2 = ctx.ClientIP()
	})
	req := httptest.NewRequest(http.MethodGet, "/ip", nil)
	applyReq(req, q1)
	r.ServeHTTP(httptest.NewRecorder(), req)
	return
}

// observeConcurrent serves the requests qs on ONE router from several goroutines, many rounds, and
// returns for every request the set of distinct answers it got ("\x00P" = panic). The property is per
// request, so every (request, answer) pair is judged as an ordinary case — sound for every interleaving.
func observeConcurrent(c cfgT, qs []reqT, rounds int) []map[string]bool {
	r := newRouter(c)
	r.GET("/ip", func(ctx *router.Context) {
		defer func() {
			if p := recover(); p != nil {
				ctx.Response.Header().Set("X-Panic", "1")
			}
		}()
		ip := ctx.ClientIP()
		ctx.Response.Header().Set("X-Res", hex.EncodeToString([]byte(ip)))
	})
	out := make([]map[string]bool, len(qs))
	var mu sync.Mutex
	var wg sync.WaitGroup
	for i := range qs {
		out[i] = map[string]bool{}
		wg.Add(1)
		go func(i int) {
			defer wg.Done()
			seen := map[string]bool{}
			for n := 0; n < rounds; n++ {
				req := httptest.NewRequest(http.MethodGet, "/ip", nil)
				applyReq(req, qs[i])
				rec := httptest.NewRecorder()
				func() {
					defer func() {
						if p := recover(); p != nil {
							seen["\x00P"] = true
						}
					}()
					r.ServeHTTP(rec, req)
				}()
				if rec.Header().Get("X-Panic") != "" {
					seen["\x00P"] = true
				} else if b, err := hex.DecodeString(rec.Header().Get("X-Res")); err == nil {
					seen[string(b)] = true
				}
			}
			mu.Lock()
			out[i] = seen
			mu.Unlock()
		}(i)
	}
	wg.Wait()
	return out
}

func main() {
	a := hx.ParseArgs()
	w := hx.Out()
	defer w.Flush()
	switch a.Cmd {
	case "gen":
		r := hx.NewRand(a.Seed)
		st := hx.NewStats()
		// fixed corpus first: the witnesses of K18a / K18b and the suite's documented rows
		fixed := []struct {
			c cfgT
			q reqT
		}{
			{cfgT{Cidrs: []string{"10.0.0.0/8"}, MaxHops: 1}, reqT{"10.0.0.1:1234", map[string]string{"X-Forwarded-For": "9.9.9.9, 10.0.0.2"}, nil}},
			{cfgT{Cidrs: []string{"10.0.0.0/8", "127.0.0.0/8"}, MaxHops: 5}, reqT{"10.0.0.1:1234", map[string]string{"X-Forwarded-For": "127.0.0.1, 9.9.9.9"}, nil}},
			{cfgT{Cidrs: []string{"10.0.0.0/8"}, MaxHops: 3}, reqT{"10.0.0.1:1234", map[string]string{"X-Forwarded-For": "203.0.113.1, 70.41.3.18, 150.172.238.178"}, nil}},
			{cfgT{Cidrs: []string{"10.0.0.0/8"}, MaxHops: 2}, reqT{"10.0.0.1:1234", map[string]string{"X-Forwarded-For": "203.0.113.1, 10.0.0.1, 10.0.0.2"}, nil}},
			// K18c: X-Real-IP configured in front of X-Forwarded-For names a trusted proxy while X-Forwarded-For names an untrusted client
			{cfgT{Cidrs: []string{"10.0.0.0/8"}, Headers: []string{"X-Real-IP", "X-Forwarded-For"}, MaxHops: 2}, reqT{"10.0.0.1:1234", map[string]string{"X-Real-IP": "10.0.0.2", "X-Forwarded-For": "9.9.9.9, 10.0.0.2"}, nil}},
			// a hop limit of zero or less is the default (1), also when given explicitly: the walk stops at the second proxy
			{cfgT{Cidrs: []string{"10.0.0.0/8"}, MaxHops: 0, ExplicitZero: true}, reqT{"10.0.0.1:1234", map[string]string{"X-Forwarded-For": "198.51.100.66, 10.0.0.3, 10.0.0.2"}, nil}},
			{cfgT{Cidrs: []string{"10.0.0.0/8"}, MaxHops: -3}, reqT{"10.0.0.1:1234", map[string]string{"X-Forwarded-For": "198.51.100.66, 10.0.0.3, 10.0.0.2"}, nil}},
		}
		for i, f := range fixed {
			fmt.Fprintln(w, emit(fmt.Sprintf("c18-fix-%d", i), f.c, f.q, st))
		}
		for i := 0; i < a.N; i++ {
			c, q := genCase(r)
			fmt.Fprintln(w, emit(fmt.Sprintf("c18-%d-%d", a.Seed, i), c, q, st))
		}
		// sessions: several requests on ONE router, each judged on its own (the resolver must be stateless);
		// later requests reuse addresses of earlier ones in other roles (IPv6 with the same low 32 bits, …)
		for i := 0; i < a.N/12+4; i++ {
			c, q0 := genCase(r)
			n := r.Range(2, 6)
			qs := []reqT{q0}
			for j := 1; j < n; j++ {
				_, q := genCase(r)
				switch r.Intn(4) {
				case 0: // the peer is an untrusted IPv6 look-alike of an earlier trusted IPv4 peer
					q.Remote = "[" + v6WithLow32(peerOf(qs[j-1].Remote)) + "]:443"
					if q.Hdr["X-Forwarded-For"] == "" {
						q.Hdr["X-Forwarded-For"] = "6.6.6.6"
					}
				case 1: // … or such a look-alike sits in the chain
					q.Hdr["X-Forwarded-For"] = "6.6.6.6, " + v6WithLow32(hx.Pick(r, trustedIPs))
				}
				qs = append(qs, q)
			}
			if i < 2 {
				c = cfgT{Cidrs: []string{"10.0.0.0/8"}, MaxHops: 2}
				qs = []reqT{{"10.0.0.1:1", map[string]string{"X-Forwarded-For": "9.9.9.9"}, nil},
					{"[" + v6WithLow32("10.0.0.1") + "]:1", map[string]string{"X-Forwarded-For": "6.6.6.6"}, nil},
					{"10.0.0.1:1", map[string]string{"X-Forwarded-For": "6.6.6.6, " + v6WithLow32("10.0.0.1")}, nil}}
			}
			res, oks := observeSession(c, qs)
			for j := range qs {
				k := caseT{C: c, Q: qs[j]}
				if j > 0 {
					k.Before = qs[:j]
				}
				fmt.Fprintln(w, emitObs(fmt.Sprintf("c18-%d-s%d-%d", a.Seed, i, j), k, res[j], oks[j], st))
			}
		}
		// another router with another configuration served a request just before; ClientIP() is called from
		// a route handler, a global middleware, a custom NoRoute handler (method with and without a tree)
		for i := 0; i < a.N/15+8; i++ {
			other, qa := genCase(r)
			c, q := genCase(r)
			if i%2 == 0 { // A trusts everything, B trusts nothing: any leak of A's configuration into B shows
				other = cfgT{Cidrs: []string{"0.0.0.0/0", "::/0"}, MaxHops: 5}
				c.Cidrs = nil
				qa = reqT{"10.0.0.1:1", map[string]string{"X-Forwarded-For": "7.7.7.7"}, nil}
				if q.Hdr["X-Forwarded-For"] == "" {
					q.Hdr["X-Forwarded-For"] = "6.6.6.6"
				}
			}
			site := hx.Pick(r, []string{"", "mw", "nf", "noroute", "noroute", "param", "cparam", "cstatic", "group", "mount", "version", "app", "app", "mountsub", "mountown",
				"timeout", "recovered", "recoveryhandler"})
			if site == "mountsub" || site == "mountown" {
				c = cfgT{} // no configuration on the serving router
				if q.Hdr["X-Forwarded-For"] == "" {
					q.Hdr["X-Forwarded-For"] = "6.6.6.6"
				}
			}
			res, ok := observeAfterOther(other, c, qa, q, site)
			fmt.Fprintln(w, emitObs(fmt.Sprintf("c18-%d-o%d", a.Seed, i), caseT{C: c, Q: q, Other: &other, Site: site, Before: []reqT{qa}}, res, ok, st))
		}
		// two calls on one context with the request changed in place in between
		for i := 0; i < a.N/10+4; i++ {
			c, q1 := genCase(r)
			_, q2 := genCase(r)
			if i < 2 { // fixed shape: trusted peer with a forged chain, then the peer becomes untrusted
				c = cfgT{Cidrs: []string{"10.0.0.0/8"}, MaxHops: 2}
				q1 = reqT{"10.0.0.1:1234", map[string]string{"X-Forwarded-For": "6.6.6.6"}, nil}
				q2 = reqT{"9.9.9.9:1234", map[string]string{"X-Forwarded-For": "6.6.6.6"}, nil}
			}
			res1, res2, ok := observeTwice(c, q1, q2)
			id := fmt.Sprintf("c18-%d-t%d", a.Seed, i)
			fmt.Fprintln(w, emitObs(id+"a", caseT{C: c, Q: q1}, res1, ok, st))
			fmt.Fprintln(w, emitObs(id+"b", caseT{C: c, Q: q2, Prev: &q1}, res2, ok, st))
		}
		// concurrent requests with different chains on one router
		batches, rounds := 6, 300
		if a.Tier == "thorough" {
			batches, rounds = 40, 1500
		}
		for bi := 0; bi < batches; bi++ {
			c, _ := genCase(r)
			qs := make([]reqT, 8)
			for i := range qs {
				_, qs[i] = genCase(r)
				// long, distinct chains from a trusted peer make a shared scratch buffer visible
				qs[i].Remote = hx.Pick(r, trustedIPs) + ":1"
				n := r.Range(3, 12)
				parts := make([]string, n)
				for j := range parts {
					parts[j] = fmt.Sprintf("%d.%d.%d.%d", 20+i, r.Intn(250), r.Intn(250), 1+r.Intn(250))
				}
				qs[i].Hdr["X-Forwarded-For"] = strings.Join(parts, hx.Pick(r, []string{",", ", ", " , "}))
			}
			if bi%2 == 0 {
				c = cfgT{Cidrs: []string{"10.0.0.0/8", "127.0.0.0/8", "192.168.0.0/16", "::1/128", "fd00::/8", "2001:db8::/32"}, MaxHops: r.Range(1, 5)}
			}
			res := observeConcurrent(c, qs, rounds)
			for i, set := range res {
				keys := make([]string, 0, len(set))
				for k := range set {
					keys = append(keys, k)
				}
				sort.Strings(keys)
				for j, k := range keys {
					others := append(append([]reqT(nil), qs[:i]...), qs[i+1:]...)
					id := fmt.Sprintf("c18-%d-c%d-%d-%d", a.Seed, bi, i, j)
					fmt.Fprintln(w, emitObs(id, caseT{C: c, Q: qs[i], Conc: others}, k, k != "\x00P", st))
				}
			}
		}
		st.Emit(w)
	case "replay":
		for _, line := range hx.StdinLines() {
			var k caseT
			id, err := hx.CaseFromComment(line, &k)
			if err != nil {
				fmt.Fprintf(w, "# cannot replay %q: %v\n", id, err)
				continue
			}
			switch {
			case k.Other != nil:
				res, ok := observeAfterOther(*k.Other, k.C, k.Before[0], k.Q, k.Site)
				fmt.Fprintln(w, emitObs(id, k, res, ok, nil))
			case k.Before != nil:
				res, oks := observeSession(k.C, append(append([]reqT(nil), k.Before...), k.Q))
				fmt.Fprintln(w, emitObs(id, k, res[len(res)-1], oks[len(oks)-1], nil))
			case k.Prev != nil:
				_, res2, ok := observeTwice(k.C, *k.Prev, k.Q)
				fmt.Fprintln(w, emitObs(id, k, res2, ok, nil))
			case k.Conc != nil:
				qs := append([]reqT{k.Q}, k.Conc...)
				set := observeConcurrent(k.C, qs, 3000)[0]
				keys := make([]string, 0, len(set))
				for x := range set {
					keys = append(keys, x)
				}
				sort.Strings(keys)
				for j, x := range keys {
					fmt.Fprintln(w, emitObs(fmt.Sprintf("%s.%d", id, j), k, x, x != "\x00P", nil))
				}
			default:
				fmt.Fprintln(w, emit(id, k.C, k.Q, nil))
			}
		}
	}
}
