// Package chainx is shared by the C02 and C10 harnesses: the script language of the chain
// composition model (lean/Rivaas/Model/Compose.lean), its interpreter on the real router / app
// API, instrumented handlers that perform `Act` lists, and the token encoders.
package chainx

import (
	"context"
	"encoding/json"
	"errors"
	"fmt"
	"io"
	"log/slog"
	"math"
	"net/http"
	"net/http/httptest"
	"strconv"
	"strings"
	"sync"
	"sync/atomic"
	"syscall"
	"time"

	"rivaas.dev/app"
	rverrors "rivaas.dev/errors"
	"rivaas.dev/logging"
	"rivaas.dev/middleware/timeout"
	"rivaas.dev/router"
	"rivaas.dev/router/route"
	"rivaas.dev/router/version"
	"rivaas.dev/tracing"
	"verif/harness/hx"
)

// Act is one statement of a handler body (lean: Rivaas.Chain.Act).
type Act struct {
	K    string `json:"k"`           // N A C W R P K
	V    int    `json:"v,omitempty"` // panic value index (P)
	Body []Act  `json:"b,omitempty"` // nested call (K)
}

// Op is one API call of the configuration phase (lean: Rivaas.Compose.Op).
type Op struct {
	K   string `json:"k"`
	A   int    `json:"a,omitempty"` // first object id (router / group / version router …)
	B   int    `json:"b,omitempty"` // second object id (mount: sub-router; AG: array id)
	Seg int    `json:"s,omitempty"` // path segment tag
	Ver int    `json:"v,omitempty"` // version number
	Cap int    `json:"c,omitempty"` // AG: capacity of the caller's array
	Inh bool   `json:"i,omitempty"`
	OK  string `json:"ok,omitempty"` // owner kind: r g v vg | a ag avg
	Hs  []int  `json:"h,omitempty"`
	H   int    `json:"hh,omitempty"` // AR: the main handler
	Hs2 []int  `json:"h2,omitempty"` // AR: after
	// R / AR: number of constraints chained onto the route at declaration (WhereInt, Where); the
	// model does not see them (a re-registration in the same step rewrites the node identically)
	Cons int `json:"cons,omitempty"`
	// WH: `Where…` on the route declared by op number RI (router A, version tree Ver (-1 none), path P)
	RI int   `json:"ri,omitempty"`
	P  []int `json:"p,omitempty"`
}

// Target is a route served by router 0.
type Target struct {
	Mounts []int `json:"m"`
	Route  int   `json:"r"`
	Path   []int `json:"p"`
	Ver    int   `json:"v"` // -1 = main tree
}

type Beh struct {
	H    int   `json:"h"`
	Acts []Act `json:"a"`
}

const (
	RecChunk     = 100000
	TimeoutChunk = 100001
	OtherChunk   = 999999
)

// MixSeed scrambles a seed (splitmix64 finalizer): hx.NewRand(k+1) is hx.NewRand(k) shifted by one
// draw, so consecutive VERIF_SEEDs would otherwise replay almost the same stream.
func MixSeed(seed uint64) uint64 {
	z := seed + 0x9E3779B97F4A7C15
	z = (z ^ (z >> 30)) * 0xBF58476D1CE4E5B9
	z = (z ^ (z >> 27)) * 0x94D049BB133111EB
	return z ^ (z >> 31)
}

// ---------------------------------------------------------------- tokens

func EncHs(l *hx.Line, hs []int) {
	l.Nat(len(hs))
	for _, h := range hs {
		l.Nat(h)
	}
}

func EncActs(l *hx.Line, acts []Act) {
	l.Nat(len(acts))
	for _, a := range acts {
		l.Tok(a.K)
		switch a.K {
		case "P":
			l.Nat(a.V)
		case "K":
			EncActs(l, a.Body)
		}
	}
}

func EncOp(l *hx.Line, o Op) {
	l.Tok(o.K)
	switch o.K {
	case "NR":
	case "U":
		l.Nat(o.A)
		EncHs(l, o.Hs)
	case "G", "SG", "VG", "ASG", "AVSG":
		l.Nat(o.A).Nat(o.Seg)
		EncHs(l, o.Hs)
	case "GU", "AGU", "AVU":
		l.Nat(o.A)
		EncHs(l, o.Hs)
	case "V":
		l.Nat(o.A).Nat(o.Ver)
	case "R":
		l.Tok(o.OK).Nat(o.A).Nat(o.Seg)
		EncHs(l, o.Hs)
	case "M":
		l.Nat(o.A).Nat(o.B).Nat(o.Seg).Bool(o.Inh)
		EncHs(l, o.Hs)
	case "W":
		l.Nat(o.A)
	case "WH":
		l.Nat(o.A)
		if o.Ver < 0 {
			l.Nat(0)
		} else {
			l.Nat(1).Nat(o.Ver)
		}
		EncHs(l, o.P)
	case "AU":
		EncHs(l, o.Hs)
	case "AG":
		l.Nat(o.Seg)
		EncHs(l, o.Hs)
		l.Nat(o.B).Nat(o.Cap)
	case "AV":
		l.Nat(o.Ver)
	case "AR":
		l.Tok(o.OK)
		if o.OK != "a" {
			l.Nat(o.A)
		}
		l.Nat(o.Seg)
		EncHs(l, o.Hs)
		l.Nat(o.H)
		EncHs(l, o.Hs2)
	default:
		panic("unknown op " + o.K)
	}
}

func EncScript(l *hx.Line, s []Op) {
	l.Nat(len(s))
	for _, o := range s {
		EncOp(l, o)
	}
}

func EncTarget(l *hx.Line, t Target) {
	EncHs(l, t.Mounts)
	l.Nat(t.Route)
	EncHs(l, t.Path)
	if t.Ver < 0 {
		l.Nat(0)
	} else {
		l.Nat(1).Nat(t.Ver)
	}
}

func EncBeh(l *hx.Line, bs []Beh) {
	l.Nat(len(bs))
	for _, b := range bs {
		l.Nat(b.H)
		EncActs(l, b.Acts)
	}
}

// ---------------------------------------------------------------- per-request state and handlers

type ctxKey struct{}

// ReqState is what the instrumented handlers of one request share.
type ReqState struct {
	// Wrote: an instrumented handler has written to the response of this request
	Wrote  bool
	Log    []string
	Cancel context.CancelFunc
	Beh    map[int][]Act
	Probe  bool
	// Hook is called for acts chainx does not know (C10's synchronisation acts).
	Hook func(c *router.Context, st *ReqState, hid int, a Act)
	// App: the application the request is served by (nil in the router world)
	App *app.App
	// ac: the app context of the app-level position that is running (nil for router-level handlers)
	ac *app.Context
	// act T (a timeout middleware with a real budget sits in front of the chain): when the request started, the
	// budget, whether a T act was reached, and whether the deadline may have passed before one was (timing artefact)
	Start    time.Time
	Budget   time.Duration
	TReached bool
	Late     bool
}

// states of requests that travel through a real HTTP server (no context value survives the wire):
// keyed by the X-Verif-Req header
var wireStates sync.Map

const wireHeader = "X-Verif-Req"

var wireSeq atomic.Int64

func stateOf(c *router.Context) *ReqState {
	if st, ok := c.Request.Context().Value(ctxKey{}).(*ReqState); ok {
		return st
	}
	if id := c.Request.Header.Get(wireHeader); id != "" {
		if v, ok := wireStates.Load(id); ok {
			return v.(*ReqState)
		}
	}
	return nil
}

// PanicValue returns the panic value number v of the C10 quantifier.
type customPanic struct{ N int }

func PanicValue(v int) any {
	switch v {
	case 0:
		return ErrBoom
	case 1:
		return "boom"
	case 2:
		return nil // replaced by a real nil dereference in doPanic
	case 3:
		return customPanic{3}
	case 4:
		return http.ErrAbortHandler
	case 5: // the error of a sub-operation with its own, shorter budget
		return fmt.Errorf("load user: %w", context.DeadlineExceeded)
	case 6:
		return fmt.Errorf("inner call: %w", context.Canceled)
	case TypedNilPanic:
		// the typed-nil trap: a nil *nilErr inside an error interface (`var e *MyErr; return e` upstream,
		// `panic(err)` here). The value is non-nil, its Error method dereferences the nil receiver.
		var e *nilErr
		var err error = e
		return err
	default:
		return fmt.Errorf("read body: %w", io.EOF)
	}
}

// nilErr is an error type whose Error method fails on a nil receiver.
type nilErr struct{ msg string }

func (e *nilErr) Error() string { return e.msg }

// TypedNilPanic: a panic value whose own Error method panics (fmt verbs survive that, a direct call does not).
const TypedNilPanic = 10

// GatePanic: the panic is raised inside a framework helper that works under a lock — a readiness gate whose
// Ready method panics, called through app.Readiness().Check() (router world: a plain panic with the same text).
const GatePanic = 11

const gatePanicText = "gate: connection pool is nil"

type panickyGate struct{}

func (panickyGate) Ready() bool  { panic(gatePanicText) }
func (panickyGate) Name() string { return "db" }

type okGate struct{}

func (okGate) Ready() bool  { return true }
func (okGate) Name() string { return "late" }

// ReadinessAlive registers a gate and runs a readiness check as a component would do later in the life of the
// application; false = that did not come back within 2 s.
func ReadinessAlive(a *app.App) bool {
	if readinessHung.Load() { // one witness per run is enough: every further one costs two seconds
		return true
	}
	done := make(chan struct{})
	go func() {
		defer close(done)
		a.Readiness().Unregister("db")
		a.Readiness().Register("late", okGate{})
		a.Readiness().Check()
		a.Readiness().Unregister("late")
	}()
	select {
	case <-done:
		return true
	case <-time.After(2 * time.Second):
		readinessHung.Store(true)
		return false
	}
}

var readinessHung atomic.Bool

// RPanicValues are the values the recovery cases draw from.
var RPanicValues = []int{0, 1, 2, 3, 4, 5, 6, 7, WriterPanic, TypedNilPanic, GatePanic}

// ErrBoom is panic value 0 (a package-level error, so that an application's error mapping can know it).
var ErrBoom = errors.New("boom")

// NPanicValues is the number of panic values of the quantifier (0..NPanicValues-1) that can be
// raised anywhere; value WriterPanic is raised by the response writer from inside c.JSON.
const NPanicValues = 8

// WriterPanic: `c.JSON(0, doc)` — the document is encoded, then the writer refuses the status code
// ("invalid WriteHeader code 0"): a panic raised in the middle of a render call. Once the response
// has been started the status is not sent again, so there the same string is raised directly.
const WriterPanic = 8

const writerPanicText = "invalid WriteHeader code 0"

// StatusResolver is an application's mapping of domain errors to statuses (app.WithErrorFormatter):
// it knows most of the error values handlers panic with. What a handler panicked with is a crash,
// not a domain error — the mapping must not decide the status of the 500.
func StatusResolver(err error) int {
	switch {
	case errors.Is(err, ErrBoom):
		return http.StatusNotFound
	case errors.Is(err, context.DeadlineExceeded):
		return http.StatusGatewayTimeout
	case errors.Is(err, context.Canceled):
		return 499
	case errors.Is(err, io.EOF):
		return http.StatusBadRequest
	case errors.Is(err, http.ErrAbortHandler):
		return http.StatusUnprocessableEntity
	}
	var typed interface{ HTTPStatus() int }
	if errors.As(err, &typed) { // like the formatter's default: an error that declares its status keeps it
		return typed.HTTPStatus()
	}
	return http.StatusInternalServerError
}

func doPanic(v int) {
	if v == 2 {
		var p *customPanic
		_ = p.N // nil dereference: a runtime.Error
	}
	panic(PanicValue(v))
}

// PanicIndex maps a recovered value back to its number (-1 = none, 9 = unknown).
func PanicIndex(p any) int {
	switch x := p.(type) {
	case nil:
		return -1
	case string:
		if strings.HasPrefix(x, "invalid WriteHeader code") {
			return WriterPanic
		}
		if x == gatePanicText {
			return GatePanic
		}
		return 1
	case customPanic:
		return 3
	case *nilErr:
		return TypedNilPanic
	case error:
		if x == http.ErrAbortHandler {
			return 4
		}
		if errors.Is(x, context.DeadlineExceeded) {
			return 5
		}
		if errors.Is(x, context.Canceled) {
			return 6
		}
		if errors.Is(x, io.EOF) {
			return 7
		}
		if _, ok := p.(interface{ RuntimeError() }); ok {
			return 2
		}
		return 0
	}
	return 9
}

func StatusOf(hid int) int { return 210 + hid%80 }

func runActs(c *router.Context, st *ReqState, hid int, acts []Act) {
	for _, a := range acts {
		switch a.K {
		case "N":
			c.Next()
		case "A":
			c.Abort()
		case "C":
			if a.V == 1 && st.ac != nil {
				// the cancellable scope is installed by this position itself, which also binds the body (Bind swaps
				// in a request copy of its own); then the scope is cancelled: c.Request.Context() stays cancelled
				ctx, cancel := context.WithCancel(c.Request.Context())
				c.Request = c.Request.WithContext(ctx)
				var in struct {
					Name string `json:"name"`
				}
				_ = st.ac.Bind(&in)
				cancel()
			} else {
				st.Cancel()
			}
		case "W":
			st.Wrote = true
			_ = c.JSON(StatusOf(hid), map[string]int{"h": hid})
		case "R":
			return
		case "T":
			// overrun the budget of the timeout middleware in front of the chain: go on only when its deadline has passed
			if !st.TReached && st.Budget > 0 && time.Since(st.Start) >= st.Budget {
				st.Late = true
			}
			st.TReached = true
			select {
			case <-c.Request.Context().Done():
			case <-time.After(3 * time.Second):
				st.Late = true
			}
		case "F":
			// refuse the request the way app handlers do: c.Fail(err) = Abort + error response (router-level
			// handlers: Abort + a response of their own). V = 1: the error's details cannot be encoded.
			st.Wrote = true
			if st.ac != nil {
				st.ac.Fail(failErr{status: StatusOf(hid), unencodable: a.V == 1})
			} else {
				c.Abort()
				_ = c.JSON(StatusOf(hid), map[string]int{"h": hid})
			}
		case "P":
			if a.V == WriterPanic {
				if !st.Wrote {
					_ = c.JSON(0, map[string]int{"h": hid})
				}
				panic(writerPanicText)
			}
			if a.V == GatePanic {
				if st.App != nil {
					st.App.Readiness().Register("db", panickyGate{})
					st.App.Readiness().Check()
				}
				panic(gatePanicText)
			}
			doPanic(a.V)
		case "K":
			func() { runActs(c, st, hid, a.Body) }()
		default:
			if st.Hook != nil {
				st.Hook(c, st, hid, a)
			}
		}
	}
}

func handle(c *router.Context, hid int) {
	st := stateOf(c)
	if st == nil {
		return
	}
	h := strconv.Itoa(hid)
	if len(st.Log) > 4000 {
		// a chain that re-enters its handlers without end would overflow the Go stack (fatal, not
		// recoverable): stop it here — the repeated enters are in the trace, the panic is observed
		panic("verif: runaway handler chain")
	}
	st.Log = append(st.Log, "e"+h)
	normal := false
	defer func() {
		if !normal {
			st.Log = append(st.Log, "u"+h)
		}
	}()
	if st.Probe {
		c.Next()
	} else {
		runActs(c, st, hid, st.Beh[hid])
	}
	normal = true
	st.Log = append(st.Log, "x"+h)
}

// RH is the router-level instrumented handler number hid.
func RH(hid int) router.HandlerFunc { return func(c *router.Context) { handle(c, hid) } }

// AH is the app-level instrumented handler number hid.
func AH(hid int) app.HandlerFunc {
	return func(c *app.Context) {
		if st := stateOf(c.Context); st != nil { // act F needs the app context of the position that is running
			prev := st.ac
			st.ac = c
			defer func() { st.ac = prev }()
		}
		handle(c.Context, hid)
	}
}

// failErr is what act F fails with: its status is the handler's status; its details cannot be encoded by
// encoding/json when unencodable is set (Fail then answers with the status and the error text alone).
type failErr struct {
	status      int
	unencodable bool
}

func (e failErr) Error() string   { return "request refused" }
func (e failErr) HTTPStatus() int { return e.status }
func (e failErr) Details() any {
	if e.unencodable {
		return map[string]any{"limit": math.NaN()}
	}
	return map[string]any{"limit": 3}
}

func rhs(hs []int) []router.HandlerFunc {
	out := make([]router.HandlerFunc, len(hs))
	for i, h := range hs {
		out[i] = RH(h)
	}
	return out
}

type routeGroup struct{ g *route.Group }

// toHandlers passes router.HandlerFunc values as route.Handler (= any), the dynamic type the
// router's convertHandlers / mountRoute type-switch on.
func toHandlers(hs []router.HandlerFunc) []route.Handler {
	out := make([]route.Handler, len(hs))
	for i, h := range hs {
		if i%2 == 0 {
			// route.Handler is `any`: what callers of the route package pass is as often a plain function
			// value (`g.Use(func(c *router.Context) {…})`) as a router.HandlerFunc
			out[i] = (func(*router.Context))(h)
		} else {
			out[i] = h
		}
	}
	return out
}

func ahs(hs []int) []app.HandlerFunc {
	out := make([]app.HandlerFunc, len(hs))
	for i, h := range hs {
		out[i] = AH(h)
	}
	return out
}

// ---------------------------------------------------------------- building the real thing

func SegPath(p []int) string {
	var b strings.Builder
	for _, s := range p {
		b.WriteString(seg(s))
	}
	return b.String()
}

// InvisibleSeg: segment tags from here on are rendered as the empty prefix ("") — a group created
// with `Group("")` — while the model keeps the (unique) tag in its path.
const InvisibleSeg = 1000000

// AliasSeg: a tag AliasSeg*k + s (k >= 1, below InvisibleSeg) is rendered like the tag s — the same URL
// path declared a second time in another version tree — while the model keeps the two tags apart.
const AliasSeg = 10000

// SpecialSeg: the tags SpecialSeg+k render as path segments that mean something to other parts of the framework
// (the default observability exclusions, the usual probe and admin paths) — for the chain they are paths like any other.
const SpecialSeg = 9000

var SpecialNames = []string{"/health", "/metrics", "/debug", "/ready", "/live", "/healthz", "/admin", "/internal"}

func seg(s int) string {
	if s >= InvisibleSeg {
		return ""
	}
	if k := s%AliasSeg - SpecialSeg; k >= 0 && k < len(SpecialNames) {
		return SpecialNames[k]
	}
	return "/s" + strconv.Itoa(s%AliasSeg)
}

const VersionHeader = "X-Api-Version"

// World is the real configuration built from a script.
type World struct {
	App     *app.App
	Routers []*router.Router
	// FailWrites: every body write reports an error after the bytes were taken (a connection that breaks);
	// nobody aborted and the request context is alive, so the chain goes on as if the write had succeeded
	FailWrites bool
	// TimeoutBudget: the budget of the timeout middleware in front of router 0's chains (0 = none)
	TimeoutBudget time.Duration
}

type brokenPipe struct{ *httptest.ResponseRecorder }

func (w brokenPipe) Write(p []byte) (int, error) {
	n, _ := w.ResponseRecorder.Write(p)
	return n, syscall.EPIPE
}

// Options of Build.
type BuildOpts struct {
	Check    bool
	Compiled bool // router.WithRouteCompilation(true): static routes are served from the compiled table
	Obs      bool // app world: observability (logging to io.Discard) on — c.Response is the size-tracking observability writer
	Tracing  bool // app world: app.WithObservability(app.WithTracing(tracing.WithNoop()))
	Fmt      bool // app world: app.WithErrorFormatter(RFC 9457 with StatusResolver)
	Health   bool // app world: app.WithHealthEndpoints() (built-in /livez and /readyz)
	// TimeoutMs > 0 (router world): timeout.New(WithDuration(ms), WithoutLogging(), WithHandler(writes nothing)) is the
	// first global middleware of router 0 — transparent for the chain until a handler overruns the budget (act T)
	TimeoutMs int
	NoRoute   bool                 // a custom NoRoute handler that calls Abort() (served on a pooled context without a chain)
	CtorMw    []int                // app world: middleware given through app.WithMiddleware(...) at construction
	Defaults  bool                 // app world: keep the default middleware (recovery)
	Pre       []router.HandlerFunc // router world: installed with Use before the script runs (C10: recovery)
}

func usesApp(script []Op) bool {
	for _, o := range script {
		if strings.HasPrefix(o.K, "A") {
			return true
		}
	}
	return false
}

func quietLogger() *slog.Logger { return slog.New(slog.NewTextHandler(io.Discard, nil)) }

// Build executes the script against the public API. A panic of the configuration phase is
// returned as an error (the generators only emit scripts that are legal API usage).
func Build(script []Op, bo BuildOpts) (w *World, err error) {
	defer func() {
		if p := recover(); p != nil {
			err = fmt.Errorf("configuration panicked: %v", p)
		}
	}()
	ropts := []router.Option{router.WithCancellationCheck(bo.Check), router.WithRouteCompilation(bo.Compiled),
		router.WithVersioning(version.WithHeaderDetection(VersionHeader), version.WithDefault("v0"))}
	w = &World{}
	if usesApp(script) {
		aopts := []app.Option{app.WithServiceName("verif"), app.WithServiceVersion("0.0.1"), app.WithRouter(ropts...)}
		if !bo.Defaults {
			aopts = append(aopts, app.WithoutDefaultMiddleware())
		}
		if len(bo.CtorMw) > 0 {
			aopts = append(aopts, app.WithMiddleware(ahs(bo.CtorMw)...))
		}
		switch {
		case bo.Obs && bo.Tracing:
			aopts = append(aopts, app.WithObservability(app.WithLogging(logging.WithOutput(io.Discard)), app.WithTracing(tracing.WithNoop())))
		case bo.Obs:
			aopts = append(aopts, app.WithObservability(app.WithLogging(logging.WithOutput(io.Discard))))
		case bo.Tracing:
			aopts = append(aopts, app.WithObservability(app.WithTracing(tracing.WithNoop())))
		}
		if bo.Health {
			aopts = append(aopts, app.WithHealthEndpoints())
		}
		if bo.Fmt {
			aopts = append(aopts, app.WithErrorFormatter(&rverrors.RFC9457{StatusResolver: StatusResolver}))
		}
		a, e := app.New(aopts...)
		if e != nil {
			return nil, e
		}
		w.App = a
		w.Routers = []*router.Router{a.Router()}
	} else {
		w.Routers = []*router.Router{router.MustNew(ropts...)}
		if len(bo.Pre) > 0 {
			w.Routers[0].Use(bo.Pre...)
		}
		if bo.TimeoutMs > 0 {
			w.TimeoutBudget = time.Duration(bo.TimeoutMs) * time.Millisecond
			w.Routers[0].Use(timeout.New(timeout.WithDuration(w.TimeoutBudget), timeout.WithoutLogging(),
				timeout.WithHandler(func(*router.Context, time.Duration) {})))
		}
	}
	if bo.NoRoute {
		if w.App != nil {
			w.App.NoRoute(func(c *app.Context) { c.Abort(); c.Status(http.StatusNotFound) })
		} else {
			w.Routers[0].NoRoute(func(c *router.Context) { c.Abort(); c.Status(http.StatusNotFound) })
		}
	}
	var rgroups []*routeGroup
	var vrouters []*router.VersionRouter
	var vgroups []*router.VersionGroup
	var agroups []*app.Group
	var avgroups []*app.VersionGroup
	arrays := map[int][]app.HandlerFunc{}
	routeObjs := map[int]*route.Route{}
	constrain := func(rt *route.Route, n int) {
		for k := 0; k < n && rt != nil; k++ {
			if k%2 == 0 {
				rt.WhereInt("id")
			} else {
				rt.Where("tenant", "[a-z]+")
			}
		}
	}
	for oi, o := range script {
		switch o.K {
		case "NR":
			w.Routers = append(w.Routers, router.MustNew(router.WithCancellationCheck(bo.Check), router.WithRouteCompilation(bo.Compiled)))
		case "U":
			w.Routers[o.A].Use(rhs(o.Hs)...)
		case "G":
			rgroups = append(rgroups, &routeGroup{w.Routers[o.A].Group(seg(o.Seg), rhs(o.Hs)...)})
		case "SG":
			rgroups = append(rgroups, &routeGroup{rgroups[o.A].g.Group(seg(o.Seg), toHandlers(rhs(o.Hs))...)})
		case "GU":
			rgroups[o.A].g.Use(toHandlers(rhs(o.Hs))...)
		case "V":
			vrouters = append(vrouters, w.Routers[o.A].Version("v"+strconv.Itoa(o.Ver)))
		case "VG":
			vgroups = append(vgroups, vrouters[o.A].Group(seg(o.Seg), rhs(o.Hs)...))
		case "R":
			var rt *route.Route
			switch o.OK {
			case "r":
				rt = w.Routers[o.A].GET(seg(o.Seg), rhs(o.Hs)...)
			case "g":
				rt = rgroups[o.A].g.GET(seg(o.Seg), toHandlers(rhs(o.Hs))...)
			case "v":
				rt = vrouters[o.A].GET(seg(o.Seg), rhs(o.Hs)...)
			case "vg":
				rt = vgroups[o.A].GET(seg(o.Seg), rhs(o.Hs)...)
			}
			routeObjs[oi] = rt
			constrain(rt, o.Cons)
		case "M":
			var mo []route.MountOption
			if o.Inh {
				mo = append(mo, router.InheritMiddleware())
			}
			if len(o.Hs) > 0 {
				mo = append(mo, router.WithMiddleware(rhs(o.Hs)...))
			}
			w.Routers[o.A].Mount(seg(o.Seg), w.Routers[o.B], mo...)
		case "W":
			w.Routers[o.A].Warmup()
		case "WH":
			if rt := routeObjs[o.RI]; rt != nil {
				rt.WhereInt("id")
			}
		case "AU":
			w.App.Use(ahs(o.Hs)...)
		case "AG":
			if o.B == 0 {
				agroups = append(agroups, w.App.Group(seg(o.Seg), ahs(o.Hs)...))
			} else {
				arr, ok := arrays[o.B]
				if !ok {
					arr = make([]app.HandlerFunc, len(o.Hs), o.Cap)
					copy(arr, ahs(o.Hs))
					arrays[o.B] = arr
				}
				agroups = append(agroups, w.App.Group(seg(o.Seg), arr[:len(o.Hs)]...))
			}
		case "ASG":
			agroups = append(agroups, agroups[o.A].Group(seg(o.Seg), ahs(o.Hs)...))
		case "AGU":
			agroups[o.A].Use(ahs(o.Hs)...)
		case "AV":
			avgroups = append(avgroups, w.App.Version("v"+strconv.Itoa(o.Ver)))
		case "AVSG":
			avgroups = append(avgroups, avgroups[o.A].Group(seg(o.Seg), ahs(o.Hs)...))
		case "AVU":
			avgroups[o.A].Use(ahs(o.Hs)...)
		case "AR":
			ro := routeOptions(ahs(o.Hs), ahs(o.Hs2), o.Seg+o.H)
			var rt *route.Route
			switch o.OK {
			case "a":
				rt = w.App.GET(seg(o.Seg), AH(o.H), ro...)
			case "ag":
				rt = agroups[o.A].GET(seg(o.Seg), AH(o.H), ro...)
			case "avg":
				rt = avgroups[o.A].GET(seg(o.Seg), AH(o.H), ro...)
			}
			routeObjs[oi] = rt
			constrain(rt, o.Cons)
		default:
			return nil, fmt.Errorf("unknown op %q", o.K)
		}
	}
	return w, nil
}

// routeOptions spells the before / after handlers of an app route in one of several equivalent ways: one
// WithBefore / WithAfter each, several of them in a row, or (partly) bundled into reusable option sets
// (app.RouteOptions, also nested). The order of the handlers is the order in which they are listed.
func routeOptions(before, after []app.HandlerFunc, salt int) []app.RouteOption {
	var ro []app.RouteOption
	switch {
	case len(before) >= 2 && salt%3 == 1:
		k := 1 + salt%(len(before)-1)
		ro = append(ro, app.WithBefore(before[:k]...), app.RouteOptions(app.WithBefore(before[k:]...)))
	case len(before) >= 2 && salt%3 == 2:
		k := 1 + salt%(len(before)-1)
		ro = append(ro, app.RouteOptions(app.RouteOptions(app.WithBefore(before[:k]...))), app.WithBefore(before[k:]...))
	case len(before) > 0:
		ro = append(ro, app.WithBefore(before...))
	}
	switch {
	case len(after) >= 2 && salt%2 == 1:
		ro = append(ro, app.WithAfter(after[:1]...), app.RouteOptions(app.WithAfter(after[1:]...)))
	case len(after) > 0 && salt%4 == 2:
		ro = append(ro, app.RouteOptions(app.WithAfter(after...)))
	case len(after) > 0:
		ro = append(ro, app.WithAfter(after...))
	}
	return ro
}

// Result is what one request was observed to do.
type Result struct {
	Trace   []string
	Status  int
	Body    []int
	Escaped int // -1 = no panic left ServeHTTP
	// Discard: the run is no observation (the real budget of the timeout middleware ran out before the handler
	// program said so: a timing artefact)
	Discard string
}

// ParseBody splits a response body into JSON values and names their writers.
func ParseBody(b []byte) []int {
	var out []int
	dec := json.NewDecoder(strings.NewReader(string(b)))
	for {
		var v map[string]any
		if err := dec.Decode(&v); err != nil {
			if err != io.EOF {
				out = append(out, OtherChunk)
			}
			return out
		}
		switch {
		case v["title"] != nil && v["status"] != nil: // an error document written by app.Context.Fail for handler status-210
			f, _ := v["status"].(float64)
			out = append(out, int(f)-210)
		case v["h"] != nil:
			f, _ := v["h"].(float64)
			out = append(out, int(f))
		case v["code"] == "INTERNAL_ERROR":
			out = append(out, RecChunk)
		case v["code"] == "TIMEOUT":
			out = append(out, TimeoutChunk)
		default:
			out = append(out, OtherChunk)
		}
	}
}

// Serve sends one request for the target to router 0 and records what happened.
func (w *World) Serve(t Target, st *ReqState) Result {
	return w.ServeOn(w.Routers[0], t, st)
}

func (w *World) ServeOn(h http.Handler, t Target, st *ReqState) Result {
	ctx, cancel := context.WithCancel(context.WithValue(context.Background(), ctxKey{}, st))
	defer cancel()
	st.Cancel = cancel
	st.App = w.App
	st.Budget = w.TimeoutBudget
	req := httptest.NewRequest(http.MethodGet, SegPath(t.Path), strings.NewReader(`{"name":"x"}`)).WithContext(ctx)
	req.Header.Set("Content-Type", "application/json")
	if t.Ver >= 0 {
		req.Header.Set(VersionHeader, "v"+strconv.Itoa(t.Ver))
	}
	rec := httptest.NewRecorder()
	var rw http.ResponseWriter = rec
	if w.FailWrites {
		rw = brokenPipe{rec}
	}
	res := Result{Escaped: -1}
	func() {
		defer func() {
			if p := recover(); p != nil {
				res.Escaped = PanicIndex(p)
			}
		}()
		st.Start = time.Now()
		h.ServeHTTP(rw, req)
	}()
	if st.Late || (st.Budget > 0 && !st.TReached && time.Since(st.Start) >= st.Budget) {
		res.Discard = "the budget of the timeout middleware ran out before the handler program overran it"
	}
	res.Trace = st.Log
	res.Status = rec.Code
	res.Body = ParseBody(rec.Body.Bytes())
	return res
}

// ServeWire sends the request through a real HTTP server (srv wraps router 0). A panic that leaves
// ServeHTTP is caught by net/http, which drops the connection: the client sees a transport error,
// reported as Escaped = WireEscaped (the panic value itself is not observable over the wire).
const WireEscaped = 9

func (w *World) ServeWire(srv *httptest.Server, t Target, st *ReqState) Result {
	st.App = w.App
	id := strconv.FormatInt(wireSeq.Add(1), 10)
	wireStates.Store(id, st)
	defer wireStates.Delete(id)
	st.Cancel = func() {}
	req, _ := http.NewRequest(http.MethodGet, srv.URL+SegPath(t.Path), nil)
	req.Header.Set(wireHeader, id)
	if t.Ver >= 0 {
		req.Header.Set(VersionHeader, "v"+strconv.Itoa(t.Ver))
	}
	res := Result{Escaped: -1}
	resp, err := srv.Client().Do(req)
	if err != nil {
		res.Escaped = WireEscaped
		res.Trace = st.Log
		return res
	}
	defer resp.Body.Close()
	b, err := io.ReadAll(resp.Body)
	if err != nil {
		res.Escaped = WireEscaped
	}
	res.Trace = st.Log
	res.Status = resp.StatusCode
	res.Body = ParseBody(b)
	return res
}

// Miss sends a request that matches no route (answered by the NoRoute handler or the default 404).
func (w *World) Miss() int {
	rec := httptest.NewRecorder()
	func() {
		defer func() { _ = recover() }()
		w.Routers[0].ServeHTTP(rec, httptest.NewRequest(http.MethodGet, "/no/such/route", nil))
	}()
	return rec.Code
}

// Probe asks for the composed chain: every handler passes through.
func (w *World) Probe(t Target) ([]int, bool) {
	st := &ReqState{Probe: true}
	r := w.Serve(t, st)
	if r.Status == http.StatusNotFound && len(r.Trace) == 0 {
		return nil, false
	}
	var chain []int
	for _, e := range r.Trace {
		if e[0] == 'e' {
			n, _ := strconv.Atoi(e[1:])
			chain = append(chain, n)
		}
	}
	return chain, true
}

func BehMap(bs []Beh) map[int][]Act {
	m := map[int][]Act{}
	for _, b := range bs {
		m[b.H] = b.Acts
	}
	return m
}

// EncResult appends `<trace> <status> <body> <escaped>`.
func EncResult(l *hx.Line, r Result) {
	l.Nat(len(r.Trace))
	for _, e := range r.Trace {
		l.Tok(e)
	}
	l.Nat(r.Status)
	EncHs(l, r.Body)
	if r.Escaped < 0 {
		l.Nat(0)
	} else {
		l.Nat(1).Nat(r.Escaped)
	}
}
