// Harness for C10 (panics and timeouts are contained).
//
// Kind R — recovery: chain [recovery, (timeout wrapper with a 1h budget)?, handlers…] on a router or
// an app (whose default middleware is recovery); handlers perform act lists with panic sites
// (before Next / after Next / after a write / inside a nested call) and panic values
// {error, string, nil dereference, custom type, http.ErrAbortHandler}. Observed: enter/exit/unwound
// trace, status, body split into JSON values, whether a panic left ServeHTTP, and two follow-up
// requests on the same router (pooled contexts are reused).
//
// Kind T — timeout: chain [recovery, timeout, handler]. The handler goroutine performs a program of
// writes, panics and synchronisation acts; "the deadline passes" and "the client goes away" are
// produced through a request context the harness controls (Done/Err), so every order of events is
// forced by channels — no sleeps, no wall-clock races.
package main

import (
	"bufio"
	"bytes"
	"context"
	"fmt"
	"io"
	"log"
	"log/slog"
	"net/http"
	"net/http/httptest"
	"os"
	"os/exec"
	"strconv"
	"strings"
	"sync"
	"sync/atomic"
	"time"

	"rivaas.dev/middleware/recovery"
	"rivaas.dev/middleware/timeout"
	"rivaas.dev/router"
	cx "verif/harness/chainx"
	"verif/harness/hx"
)

// ---------------------------------------------------------------- kind R

type rCase struct {
	Kind   string   `json:"kind"` // "R"
	Check  bool     `json:"check"`
	Comp   bool     `json:"compiled"` // router.WithRouteCompilation(true)
	Ctor   int      `json:"ctor"`     // app world: how many of the Global handlers are given through app.WithMiddleware at construction
	Obs    bool     `json:"obs"`      // app world: observability on (the response writer tracks status and size)
	Wire   bool     `json:"wire"`     // serve through a real HTTP server (httptest.Server) instead of calling ServeHTTP
	App    bool     `json:"app"`
	Wrap   bool     `json:"wrap"`   // a timeout middleware with a 1h budget right after recovery
	Global int      `json:"global"` // how many of the handlers are Use()d; app: how many are WithBefore
	After  int      `json:"after"`  // app: how many trailing handlers are WithAfter
	Chain  []cx.Beh `json:"chain"`  // handlers in chain order
	// configuration the model says is irrelevant to containment:
	// RecH: router world — recovery.WithHandler(h), h writes the 500 document itself (status + Write,
	// no render helper) and, like the documented examples, does not touch the chain;
	// Fmt: app world — app.WithErrorFormatter(RFC 9457 with a StatusResolver that knows the error
	// values handlers panic with)
	RecH bool `json:"rech,omitempty"`
	Fmt  bool `json:"fmt,omitempty"`
	// Log: router world — recovery logs (recovery.WithLogger, a handler that formats every record and
	// throws it away) instead of recovery.WithoutLogging
	Log bool `json:"log,omitempty"`
	// Stack: with Log — 0 = default stack capture; 1 = WithStackTrace(false); n >= 2: WithStackSize(n-2)
	// (0, 8, 16 bytes: smaller than the first line of any trace); n < 0: WithStackSize(n)
	Stack int `json:"stack,omitempty"`
	// PreV: 0 = nothing; v+1 = before the request of the case the same router has served (and recovered) a
	// request whose handler panicked with value v
	PreV int `json:"prev,omitempty"`
}

// recoveryHandler is a custom response handler for recovery.WithHandler: the same document as the
// default one, written without c.JSON.
func recoveryHandler(c *router.Context, _ any) {
	c.Header("Content-Type", "application/json; charset=utf-8")
	c.Status(http.StatusInternalServerError)
	_, _ = c.Response.Write([]byte(`{"code":"INTERNAL_ERROR","error":"Internal server error"}` + "\n"))
}

const okHid = 99
const preHid = 98

func buildR(c rCase) (*cx.World, error) {
	n := len(c.Chain)
	ids := make([]int, n)
	for i, b := range c.Chain {
		ids[i] = b.H
	}
	var script []cx.Op
	bo := cx.BuildOpts{Check: c.Check, Compiled: c.Comp, Obs: c.Obs && c.App, Defaults: true, Fmt: c.Fmt && c.App}
	if c.App {
		// app.New installs recovery itself (default middleware)
		if c.Ctor > 0 {
			bo.CtorMw = ids[:c.Ctor]
		}
		if c.Global > c.Ctor {
			script = append(script, cx.Op{K: "AU", Hs: ids[c.Ctor:c.Global]})
		}
		rest := ids[c.Global:]
		nb := 0
		if len(rest)-c.After-1 > 0 {
			nb = len(rest) - c.After - 1
		}
		script = append(script, cx.Op{K: "AR", OK: "a", Seg: 1, Hs: rest[:nb], H: rest[nb], Hs2: rest[nb+1:]})
		script = append(script, cx.Op{K: "AR", OK: "a", Seg: 2, H: okHid})
		script = append(script, cx.Op{K: "AR", OK: "a", Seg: 3, H: preHid})
	} else {
		ropts := []recovery.Option{recovery.WithoutLogging()}
		if c.Log {
			ropts = []recovery.Option{recovery.WithLogger(slog.New(slog.NewTextHandler(io.Discard, nil))), recovery.WithPrettyStack(false)}
			switch {
			case c.Stack == 1:
				ropts = append(ropts, recovery.WithStackTrace(false))
			case c.Stack >= 2:
				ropts = append(ropts, recovery.WithStackSize(c.Stack-2))
			case c.Stack < 0:
				ropts = append(ropts, recovery.WithStackSize(c.Stack))
			}
		}
		if c.RecH {
			ropts = append(ropts, recovery.WithHandler(recoveryHandler))
		}
		bo.Pre = []router.HandlerFunc{recovery.New(ropts...)}
		if c.Wrap {
			bo.Pre = append(bo.Pre, timeout.New(timeout.WithDuration(time.Hour), timeout.WithoutLogging()))
		}
		if c.Global > 0 {
			script = append(script, cx.Op{K: "U", A: 0, Hs: ids[:c.Global]})
		}
		script = append(script, cx.Op{K: "R", OK: "r", A: 0, Seg: 1, Hs: ids[c.Global:]})
		script = append(script, cx.Op{K: "R", OK: "r", A: 0, Seg: 2, Hs: []int{okHid}})
		script = append(script, cx.Op{K: "R", OK: "r", A: 0, Seg: 3, Hs: []int{preHid}})
	}
	return cx.Build(script, bo)
}

func emitR(id string, c rCase, st *hx.Stats) string {
	if skipped() {
		return ""
	}
	l := hx.NewLine(id).Tok("R").Bool(c.Check).Bool(c.Comp).Bool(c.Obs && c.App).Bool(c.Wire).Bool(c.Wrap).Nat(c.Global)
	cx.EncBeh(l, c.Chain)
	in := l.String()
	l.Sep()
	announce(l.String() + " 0 0 0 1 9 2 0 0 0 1 9 0 0 0 1 9" + hx.Comment(c))
	w, err := buildR(c)
	if err != nil {
		return fmt.Sprintf("# %s: cannot build: %v", id, err)
	}
	main := cx.Target{Path: []int{1}, Ver: -1}
	ok := cx.Target{Path: []int{2}, Ver: -1}
	serve := w.Serve
	if c.Wire {
		// the real thing: net/http server loop, real connection; the process must survive and the
		// follow-ups travel over the same keep-alive client
		srv := httptest.NewUnstartedServer(w.Routers[0])
		srv.Config.ErrorLog = log.New(io.Discard, "", 0)
		srv.Start()
		defer srv.Close()
		serve = func(t cx.Target, st *cx.ReqState) cx.Result { return w.ServeWire(srv, t, st) }
	}
	if c.PreV > 0 {
		// an earlier request on the same router (same middleware instances, same pools) that panicked
		serve(cx.Target{Path: []int{3}, Ver: -1}, &cx.ReqState{Beh: map[int][]cx.Act{preHid: {p(c.PreV - 1)}}})
		if st != nil {
			st.Count("R_after_an_earlier_recovered_panic")
		}
	}
	res := serve(main, &cx.ReqState{Beh: cx.BehMap(c.Chain)})
	cx.EncResult(l, res)
	// follow-ups on the same router: the same route with every handler passing through, then a plain route
	f1 := serve(main, &cx.ReqState{Probe: true})
	f2 := serve(ok, &cx.ReqState{Beh: map[int][]cx.Act{okHid: {{K: "W"}}}})
	if c.App && w.App != nil && !cx.ReadinessAlive(w.App) {
		// a component registering a readiness gate later in the life of the application hangs: later requests
		// (every probe, every handler that checks readiness) are not served any more
		f2.Escaped = 9
		if st != nil {
			st.Count("R_app_readiness_hangs_after_the_request")
		}
	}
	l.Nat(2)
	cx.EncResult(l, f1)
	cx.EncResult(l, f2)
	if st != nil {
		nt := false
		for _, b := range c.Chain {
			if nontrivialActs(b.Acts) {
				nt = true
			}
		}
		st.Case(in[len(id):], nt)
		st.Count("R_chain_len_" + strconv.Itoa(len(c.Chain)))
		if c.App {
			st.Count("R_world_app")
		} else {
			st.Count("R_world_router")
		}
		if c.Wrap {
			st.Count("R_timeout_wrapper")
		}
		if c.Comp {
			st.Count("R_route_compilation_on")
		}
		if c.Wire {
			st.Count("R_through_real_http_server")
		}
		if c.Obs && c.App {
			st.Count("R_app_observability_writer")
		}
		if c.Ctor > 0 {
			st.Count("R_app_WithMiddleware_at_construction")
		}
		if c.RecH && !c.App {
			st.Count("R_custom_recovery_handler")
		}
		if c.Log && !c.App {
			st.Count("R_router_recovery_logging_on")
			if c.Stack > 0 {
				st.Count("R_router_recovery_stack_option")
			}
		}
		if c.Fmt && c.App {
			st.Count("R_app_error_formatter_with_status_resolver")
		}
		if res.Escaped >= 0 {
			st.Count("R_panic_escaped")
		}
		st.Count("R_status_" + strconv.Itoa(res.Status/100) + "xx")
		st.Count("R_panics_" + strconv.Itoa(countPanics(c.Chain)))
	}
	return l.String() + hx.Comment(c)
}

func countPanicsIn(acts []cx.Act) int {
	n := 0
	for _, a := range acts {
		if a.K == "P" {
			n++
		}
		n += countPanicsIn(a.Body)
	}
	return n
}

func countPanics(ch []cx.Beh) int {
	n := 0
	for _, b := range ch {
		if countPanicsIn(b.Acts) > 0 {
			n++
		}
	}
	return n
}

func nontrivialActs(acts []cx.Act) bool {
	for i, x := range acts {
		switch x.K {
		case "A", "C", "P", "F":
			return true
		case "N":
			if i != len(acts)-1 {
				return true
			}
		case "K":
			if nontrivialActs(x.Body) || i != len(acts)-1 {
				return true
			}
		}
	}
	return false
}

func a(ks ...string) []cx.Act {
	out := make([]cx.Act, len(ks))
	for i, k := range ks {
		out[i] = cx.Act{K: k}
	}
	return out
}

func p(v int) cx.Act { return cx.Act{K: "P", V: v} }

// panicSite draws one of the panic sites of the quantifier.
func panicSite(r *hx.Rand, st *hx.Stats) []cx.Act {
	v := hx.Pick(r, cx.RPanicValues) // incl. cx.WriterPanic and cx.TypedNilPanic
	name, acts := "", []cx.Act(nil)
	switch r.Intn(8) {
	case 0:
		name, acts = "before_next", []cx.Act{p(v), {K: "N"}}
	case 1:
		name, acts = "after_next", []cx.Act{{K: "N"}, p(v)}
	case 2:
		name, acts = "after_write", []cx.Act{{K: "W"}, p(v)}
	case 3:
		name, acts = "after_write_and_next", []cx.Act{{K: "W"}, {K: "N"}, p(v)}
	case 4:
		name, acts = "nested", []cx.Act{{K: "K", Body: []cx.Act{p(v)}}, {K: "N"}}
	case 5:
		name, acts = "nested_after_next", []cx.Act{{K: "K", Body: []cx.Act{{K: "N"}, p(v)}}}
	case 6:
		name, acts = "after_abort", []cx.Act{{K: "A"}, p(v)}
	default:
		name, acts = "plain", []cx.Act{p(v)}
	}
	if st != nil {
		st.Count("R_site_" + name)
		st.Count("R_value_" + strconv.Itoa(v))
	}
	return acts
}

func genR(r *hx.Rand, st *hx.Stats) rCase {
	c := rCase{Kind: "R", Check: !r.Chance(1, 5), Comp: r.Chance(1, 3), App: r.Chance(2, 5)}
	if !c.App {
		c.Wrap = r.Chance(1, 4)
		c.RecH = r.Chance(1, 3)
		c.Log = r.Chance(1, 2)
		if c.Log && r.Chance(1, 2) {
			c.Stack = hx.Pick(r, []int{1, 2, 10, 18, 66, 4098, -1, -4096})
		}
	} else {
		c.Obs = r.Chance(1, 2)
		c.Fmt = r.Chance(1, 3)
	}
	n := r.Range(1, 5)
	c.Global = r.Intn(n) // at least one route handler
	if c.App {
		rest := n - c.Global
		if rest > 1 && r.Chance(1, 2) {
			c.After = r.Range(1, rest-1)
		}
		// Global doubles as "how many go through app.Use"; the WithBefore share is what remains
	}
	if c.App && c.Global > 0 && r.Chance(1, 2) {
		c.Ctor = r.Range(1, c.Global)
	}
	c.Wire = r.Chance(1, 8)
	if r.Chance(1, 3) {
		c.PreV = 1 + hx.Pick(r, []int{0, 1, 2, 3, 4, 7})
	}
	plain := [][]cx.Act{a("N"), a("N"), a("N"), a("W", "N"), a("N", "W"), a("N", "N"), a(), {{K: "K", Body: a("N")}}}
	if !c.Wrap && !c.Wire { // cancelling the request context is not a deterministic act over a real connection
		plain = append(plain, a("C", "N"), a("A", "N"), []cx.Act{{K: "F"}}, []cx.Act{{K: "F", V: 1}, {K: "N"}})
	}
	for i := 0; i < n; i++ {
		c.Chain = append(c.Chain, cx.Beh{H: i + 1, Acts: hx.Pick(r, plain)})
	}
	if r.Chance(1, 2) {
		c.Chain[n-1].Acts = a("W")
	}
	switch k := r.Intn(20); {
	case k < 2: // control: no panic at all
	case k < 12: // one panic site
		c.Chain[r.Intn(n)].Acts = panicSite(r, st)
	default: // two panicking handlers (the second one only runs if the chain goes on after a recovered panic)
		i := r.Intn(n)
		c.Chain[i].Acts = panicSite(r, st)
		c.Chain[r.Intn(n)].Acts = panicSite(r, st)
	}
	return c
}

// ---------------------------------------------------------------- kind T

type tCase struct {
	Kind   string   `json:"kind"` // "T"
	WaitH  bool     `json:"waitH"`
	WaitL  bool     `json:"waitL,omitempty"` // timeout.WithLogger: the logger waits inside Warn("request timeout") for the handler's signal
	Custom bool     `json:"custom"`          // timeout.WithHandler (signals after writing); false = the default handler
	Pre    int      `json:"pre"`             // pass-through middleware between recovery and timeout
	Budget int      `json:"budget"`          // timeout.WithDuration in ms (0 = one hour: only the harness-controlled context ends the budget)
	Prog   []string `json:"prog"`
	// the timed chain behind the middleware: Wrap (a nesting middleware `pre; Next(); post` in front of
	// the main handler, acts W only), the main handler performing Prog, Tail flat handlers behind it
	Wrap *tWrap     `json:"wrap,omitempty"`
	Tail [][]string `json:"tail,omitempty"` // W D X aC aE aT sH aR hold P0..P4
	// configuration the model says is irrelevant:
	// Fmtf: handlers and the timeout handler render with c.Stringf (after a warm-up request that has used it);
	// Gate: a slow client — the first body write of the timeout response blocks inside the writer until the
	// handler lets it go on (instead of the timeout handler waiting before it writes; only with WaitH);
	// Conc: while recovery handles the panic of this request a second request is in flight on the same router
	Fmtf bool `json:"fmtf,omitempty"`
	Gate bool `json:"gate,omitempty"`
	Conc bool `json:"conc,omitempty"`
	// Hdr: the timed chain never writes, but its first handler sets headers that describe a body
	// (Content-Length, Content-Encoding) before anything else happens
	Hdr bool `json:"hdr,omitempty"`
	// CL: the main handler is the only writer of the chain and declares the total length of its writes
	// (Content-Length) before the first one
	CL bool `json:"cl,omitempty"`
}

type tWrap struct {
	Pre  []string `json:"pre"`
	Post []string `json:"post"`
}

const tHid = 7

// flat renders the timed chain as the model's flat program: G<n> is the loop test of Next in front
// of a position; when the context is done the next n acts are skipped.
func (c tCase) flat() []string {
	var x []string // the flat handlers from the last one backwards
	for i := len(c.Tail) - 1; i >= 0; i-- {
		h := append([]string{}, c.Tail[i]...)
		if i < len(c.Tail)-1 {
			h = append(append(h, "G"+strconv.Itoa(len(x))), x...)
		}
		x = h
	}
	m := append([]string{}, c.Prog...)
	if len(c.Tail) > 0 {
		m = append(append(m, "G"+strconv.Itoa(len(x))), x...)
	}
	if c.Wrap != nil {
		w := append([]string{}, c.Wrap.Pre...)
		w = append(append(w, "G"+strconv.Itoa(len(m))), m...)
		m = append(w, c.Wrap.Post...)
	}
	return append([]string{"G" + strconv.Itoa(len(m))}, m...) // the bracket's own Next
}

// ctlCtx is the request context the harness controls: "the deadline passed" / "the client went
// away" are reported through Done/Err exactly as a real parent context would.
type ctlCtx struct {
	context.Context
	done chan struct{}
	mu   sync.Mutex
	err  error
}

func (c *ctlCtx) Done() <-chan struct{} { return c.done }
func (c *ctlCtx) Err() error {
	c.mu.Lock()
	defer c.mu.Unlock()
	return c.err
}
func (c *ctlCtx) fire(err error) {
	c.mu.Lock()
	defer c.mu.Unlock()
	if c.err == nil {
		c.err = err
		close(c.done)
	}
}

type tState struct {
	parent     *ctlCtx
	tEntered   chan struct{}
	tWritten   chan struct{}
	hGo        chan struct{}
	hGoOnce    sync.Once
	returned   chan struct{}
	hExit      chan struct{}
	hFinished  atomic.Bool
	hStarted   atomic.Bool
	hPanicked  atomic.Bool
	recovered  atomic.Bool // the recovery middleware handled a panic (it logged it)
	reqCtx     context.Context
	retTimeout atomic.Bool
	prog       []string
	waitH      bool
	hold       time.Duration
	fmtf, gate bool
	hdr        bool
	cl         int // > 0: Content-Length the main handler declares before its first write
	clOnce     sync.Once
	tLogging   chan struct{} // the timeout middleware is logging the timeout
	logOnce    sync.Once
	tIn        atomic.Bool   // the timeout handler has been entered
	tInWrite   chan struct{} // gate: the timeout response is inside the writer's Write
	gateOnce   sync.Once
	conc       bool
	concOnce   sync.Once
	bInside    chan struct{} // conc: the second request is inside its handler
	aDone      chan struct{} // conc: the first request's ServeHTTP has returned
	bDone      chan struct{}
	bStatus    int
	bBody      []int
	router     *router.Router
}

// gateWriter is the writer of a connection to a slow client: the first body write of the timeout response
// takes until the handler goroutine lets it go on; then the bytes are taken over.
type gateWriter struct {
	*httptest.ResponseRecorder
	s *tState
}

func (w *gateWriter) Write(p []byte) (int, error) {
	if w.s.tIn.Load() {
		w.s.gateOnce.Do(func() {
			close(w.s.tInWrite)
			select {
			case <-w.s.hGo:
			case <-time.After(3 * time.Second):
				w.s.retTimeout.Store(true)
			}
		})
	}
	return w.ResponseRecorder.Write(p)
}

// timeoutLog is the slog handler behind timeout.WithLogger (WaitL): the first record — the timeout warning —
// is held inside the logger until the handler goroutine lets it go on.
type timeoutLog struct{ s *tState }

func (h timeoutLog) Enabled(context.Context, slog.Level) bool { return true }
func (h timeoutLog) WithAttrs([]slog.Attr) slog.Handler       { return h }
func (h timeoutLog) WithGroup(string) slog.Handler            { return h }
func (h timeoutLog) Handle(context.Context, slog.Record) error {
	h.s.logOnce.Do(func() {
		close(h.s.tLogging)
		select {
		case <-h.s.hGo:
		case <-time.After(3 * time.Second):
			h.s.retTimeout.Store(true)
		}
	})
	return nil
}

// recoveryLog is the slog handler behind recovery.WithLogger in the T cases: recovery logs every panic it
// handles ("a panic ... is re-raised to recovery" is observed here, whatever becomes of recovery's response).
// With conc it also starts a second request on the same router and returns only when that request is inside
// its handler — it then completes after the first one has been answered.
type recoveryLog struct{ s *tState }

func (h recoveryLog) Enabled(context.Context, slog.Level) bool { return true }
func (h recoveryLog) WithAttrs([]slog.Attr) slog.Handler       { return h }
func (h recoveryLog) WithGroup(string) slog.Handler            { return h }
func (h recoveryLog) Handle(context.Context, slog.Record) error {
	s := h.s
	s.recovered.Store(true)
	if s.conc {
		s.concOnce.Do(func() {
			go func() {
				defer close(s.bDone)
				rec := httptest.NewRecorder()
				func() {
					defer func() {
						if p := recover(); p != nil {
							rec.Code = -1
						}
					}()
					req := httptest.NewRequest(http.MethodGet, "/okb", nil)
					s.router.ServeHTTP(rec, req.WithContext(context.WithValue(req.Context(), tKey{}, s)))
				}()
				s.bStatus, s.bBody = rec.Code, cx.ParseBody(rec.Body.Bytes())
			}()
			select {
			case <-s.bInside:
			case <-time.After(3 * time.Second):
				s.retTimeout.Store(true)
			}
		})
	}
	return nil
}

type tKey struct{}

// hangWaitMs: how long a timed request may take before it counts as never answered
var hangWaitMs = func() *atomic.Int64 { v := new(atomic.Int64); v.Store(5000); return v }()

func (s *tState) goH() { s.hGoOnce.Do(func() { close(s.hGo) }) }

// tBracket is the first handler of the timed route: it runs inside the timeout middleware's
// goroutine around the whole timed chain and tells the harness when that goroutine starts and ends.
func tBracket(c *router.Context) {
	s := c.Request.Context().Value(tKey{}).(*tState)
	s.reqCtx = c.Request.Context()
	if s.hdr {
		c.Response.Header().Set("Content-Length", "3")
		c.Response.Header().Set("Content-Encoding", "gzip")
	}
	s.hStarted.Store(true)
	defer func() {
		s.goH()
		s.hFinished.Store(true)
		close(s.hExit)
	}()
	c.Next()
}

func tActs(acts []string, next bool, post []string) router.HandlerFunc {
	return func(c *router.Context) {
		s := c.Request.Context().Value(tKey{}).(*tState)
		tRun(c, s, acts)
		if next {
			c.Next()
		}
		tRun(c, s, post)
	}
}

func tRun(c *router.Context, s *tState, acts []string) {
	for _, act := range acts {
		switch act {
		case "W":
			if s.cl > 0 {
				s.clOnce.Do(func() { c.Response.Header().Set("Content-Length", strconv.Itoa(s.cl)) })
			}
			if s.fmtf {
				_ = c.Stringf(cx.StatusOf(tHid), "{\"h\":%d}", tHid)
			} else {
				_ = c.JSON(cx.StatusOf(tHid), map[string]int{"h": tHid})
			}
		case "D":
			s.parent.fire(context.DeadlineExceeded)
		case "X":
			s.parent.fire(context.Canceled)
		case "aC":
			<-s.reqCtx.Done()
		case "aL":
			<-s.tLogging
		case "aE":
			if s.gate { // the timeout response is formatted and on its way to the slow client
				<-s.tInWrite
			} else {
				<-s.tEntered
			}
		case "aT":
			<-s.tWritten
		case "sH":
			s.goH()
		case "hold":
			// overrun by many budgets (60 ms when only the harness ends the budget); correct code keeps
			// ServeHTTP blocked on <-done the whole time, so `returned` can only be closed early if the
			// middleware gave up waiting
			select {
			case <-s.returned:
			case <-time.After(s.hold):
			}
		case "aR":
			select {
			case <-s.returned:
			case <-time.After(3 * time.Second):
				s.retTimeout.Store(true)
			}
		default: // P<v>
			v, _ := strconv.Atoi(act[1:])
			s.hPanicked.Store(true)
			panicNow(v)
		}
	}
}

func panicNow(v int) {
	if v == 2 {
		var m map[string]int
		m["x"] = 1 // runtime error: assignment to entry in nil map
	}
	panic(cx.PanicValue(v))
}

func timeoutHandler(c *router.Context, d time.Duration) {
	s := c.Request.Context().Value(tKey{}).(*tState)
	s.tIn.Store(true)
	close(s.tEntered)
	if s.waitH && !s.gate {
		<-s.hGo
	}
	if s.fmtf {
		_ = c.Stringf(http.StatusRequestTimeout, "{\"error\":%q,\"code\":%q,\"after\":%q}", "Request timeout", "TIMEOUT", d.String())
	} else {
		_ = c.JSON(http.StatusRequestTimeout, map[string]any{"error": "Request timeout", "code": "TIMEOUT"})
	}
	close(s.tWritten)
}

// flagHandler is the slog handler behind recovery.WithLogger: recovery logs every panic it handles
// ("a panic ... is re-raised to recovery" is observed here, whatever becomes of recovery's response).
type flagHandler struct{ f *atomic.Bool }

func (h flagHandler) Enabled(context.Context, slog.Level) bool { return true }
func (h flagHandler) Handle(context.Context, slog.Record) error {
	h.f.Store(true)
	return nil
}
func (h flagHandler) WithAttrs([]slog.Attr) slog.Handler { return h }
func (h flagHandler) WithGroup(string) slog.Handler      { return h }

type tObs struct {
	Status        int
	Body          []int
	Escaped       int
	ReleasedEarly bool
	HPanicked     bool
	Recovered     bool
	Claimed       bool // the timeout handler was called (custom handler: observed directly; default one: its body is there)
	Follow        int
	Discard       string
}

func runT(c tCase) tObs {
	s := &tState{tEntered: make(chan struct{}), tWritten: make(chan struct{}), hGo: make(chan struct{}), returned: make(chan struct{}),
		hExit: make(chan struct{}), prog: c.Prog, waitH: c.WaitH, fmtf: c.Fmtf, gate: c.Gate && c.WaitH && c.Custom, conc: c.Conc, hdr: c.Hdr && !c.writes(),
		tLogging: make(chan struct{}), tInWrite: make(chan struct{}), bInside: make(chan struct{}), aDone: make(chan struct{}), bDone: make(chan struct{})}
	r := router.MustNew()
	s.router = r
	if c.CL && c.soleWriter() {
		n := 0
		for _, a := range c.Prog {
			if a == "W" {
				n += len(`{"h":7}`) + 1
			}
		}
		s.cl = n
	}
	r.Use(recovery.New(recovery.WithLogger(slog.New(recoveryLog{s}))))
	for i := 0; i < c.Pre; i++ {
		r.Use(func(c *router.Context) { c.Next() })
	}
	budget := time.Hour
	if c.Budget > 0 {
		budget = time.Duration(c.Budget) * time.Millisecond
	}
	opts := []timeout.Option{timeout.WithDuration(budget), timeout.WithoutLogging()}
	if c.WaitL {
		opts = []timeout.Option{timeout.WithDuration(budget), timeout.WithLogger(slog.New(timeoutLog{s}))}
	}
	if c.Custom {
		opts = append(opts, timeout.WithHandler(timeoutHandler))
	}
	r.Use(timeout.New(opts...))
	hs := []router.HandlerFunc{tBracket}
	if c.Wrap != nil {
		hs = append(hs, tActs(c.Wrap.Pre, true, c.Wrap.Post))
	}
	hs = append(hs, tActs(c.Prog, false, nil))
	for _, t := range c.Tail {
		hs = append(hs, tActs(t, false, nil))
	}
	r.GET("/t", hs...)
	r.GET("/ok", func(c *router.Context) { _ = c.JSON(cx.StatusOf(okHid), map[string]int{"h": okHid}) })
	r.GET("/okf", func(c *router.Context) {
		_ = c.Stringf(cx.StatusOf(okHid), "{\"h\":%d,\"pad\":%q}", okHid, strings.Repeat("y", 160))
	})
	r.GET("/okb", func(c *router.Context) { // the second request of conc: answers once the first one is through
		b := c.Request.Context().Value(tKey{}).(*tState)
		close(b.bInside)
		select {
		case <-b.aDone:
		case <-time.After(3 * time.Second):
			b.retTimeout.Store(true)
		}
		_ = c.JSON(cx.StatusOf(okHid), map[string]int{"h": okHid})
	})

	s.hold = 6 * budget
	if c.Budget == 0 {
		s.hold = 60 * time.Millisecond
	}
	s.parent = &ctlCtx{Context: context.WithValue(context.Background(), tKey{}, s), done: make(chan struct{})}
	if c.Fmtf { // an earlier request that has rendered with Stringf (pooled contexts keep what they have grown)
		r.ServeHTTP(httptest.NewRecorder(), httptest.NewRequest(http.MethodGet, "/okf", nil))
	}
	req := httptest.NewRequest(http.MethodGet, "/t", nil).WithContext(s.parent)
	rec := httptest.NewRecorder()
	var rw http.ResponseWriter = rec
	if s.gate {
		rw = &gateWriter{ResponseRecorder: rec, s: s}
	}
	o := tObs{Escaped: -1}
	served := make(chan struct{})
	go func() {
		defer close(served)
		defer func() {
			if p := recover(); p != nil {
				o.Escaped = cx.PanicIndex(p)
			}
		}()
		r.ServeHTTP(rw, req)
	}()
	select {
	case <-served:
	case <-time.After(time.Duration(hangWaitMs.Load()) * time.Millisecond):
		hangWaitMs.Store(300) // one witness with the long wait is enough: the later ones must not cost 5 s each
		// the request is never answered (in the model every generated program returns): an observation, not a timing
		// artefact — reported like a process that is gone: no response, escaped = 9
		s.parent.fire(context.Canceled)
		s.goH()
		o.Escaped, o.ReleasedEarly, o.HPanicked = 9, true, true
		return o
	}
	o.ReleasedEarly = !s.hFinished.Load()
	close(s.returned)
	close(s.aDone)
	if !s.hStarted.Load() {
		// a real (small) budget ran out before the handler goroutine was scheduled: Next's
		// cancellation check skipped the handler - a timing artefact, not an observation
		o.Discard = "budget elapsed before the handler started"
		return o
	}
	select {
	case <-s.hExit:
	case <-time.After(20 * time.Second):
		o.Discard = "handler goroutine did not finish within 20s"
		return o
	}
	if s.retTimeout.Load() {
		o.Discard = "awaitRet fell back to its 3s timer"
	}
	o.HPanicked = s.hPanicked.Load()
	o.Recovered = s.recovered.Load()
	o.Claimed = s.tIn.Load()
	o.Status = rec.Code
	o.Body = cx.ParseBody(rec.Body.Bytes())
	if !c.Custom {
		for _, ch := range o.Body {
			if ch == cx.TimeoutChunk {
				o.Claimed = true
			}
		}
	}
	// well-formed also means: the headers describe the body that was sent
	if cl := rec.Header().Get("Content-Length"); cl != "" && cl != strconv.Itoa(rec.Body.Len()) || rec.Header().Get("Content-Encoding") != "" {
		o.Body = append(o.Body, cx.OtherChunk)
	}
	// follow-up on the same router
	rec2 := httptest.NewRecorder()
	func() {
		defer func() {
			if p := recover(); p != nil {
				rec2.Code = -1
			}
		}()
		r.ServeHTTP(rec2, httptest.NewRequest(http.MethodGet, "/ok", nil))
	}()
	o.Follow = rec2.Code
	if s.conc && s.recovered.Load() {
		select {
		case <-s.bDone:
			if s.bStatus != cx.StatusOf(okHid) || len(s.bBody) != 1 || s.bBody[0] != okHid {
				// the request that was in flight during the recovery was not served normally
				o.Follow = 100000 + s.bStatus*10 + len(s.bBody)
			}
		case <-time.After(5 * time.Second):
			o.Discard = "the concurrent request did not finish within 5s"
		}
	}
	return o
}

// writes reports whether any handler of the timed chain writes a response.
func (c tCase) writes() bool {
	w := hasAct(c.Prog, "W")
	if c.Wrap != nil {
		w = w || hasAct(c.Wrap.Pre, "W") || hasAct(c.Wrap.Post, "W")
	}
	for _, t := range c.Tail {
		w = w || hasAct(t, "W")
	}
	return w
}

// soleWriter: the main handler writes, nobody else in the timed chain does, nothing panics, JSON rendering.
func (c tCase) soleWriter() bool {
	if !hasAct(c.Prog, "W") || c.Fmtf {
		return false
	}
	for _, a := range c.Prog {
		if strings.HasPrefix(a, "P") {
			return false
		}
	}
	main := c
	main.Prog = nil
	return !main.writes()
}

func hasAct(prog []string, x string) bool {
	for _, a := range prog {
		if a == x {
			return true
		}
	}
	return false
}

func emitT(id string, c tCase, st *hx.Stats) string {
	if skipped() {
		return ""
	}
	l := hx.NewLine(id).Tok("T").Bool(c.WaitH).Bool(c.WaitL).Bool(c.Custom).Nat(c.Budget)
	fl := c.flat()
	l.Nat(len(fl))
	for _, x := range fl {
		l.Tok(x)
	}
	in := l.String()
	l.Sep()
	announce(l.String() + " 0 0 1 9 1 1 0 0 0" + hx.Comment(c))
	o := runT(c)
	if o.Discard != "" {
		if st != nil {
			st.Count("T_discarded")
		}
		return fmt.Sprintf("# %s discarded: %s%s", id, o.Discard, hx.Comment(c))
	}
	l.Nat(o.Status)
	cx.EncHs(l, o.Body)
	if o.Escaped < 0 {
		l.Nat(0)
	} else {
		l.Nat(1).Nat(o.Escaped)
	}
	l.Bool(o.ReleasedEarly).Bool(o.HPanicked).Bool(o.Recovered).Bool(o.Claimed).Nat(o.Follow)
	if st != nil {
		st.Case(in[len(id):], true)
		st.Count("T_status_" + strconv.Itoa(o.Status))
		st.Count("T_body_values_" + strconv.Itoa(len(o.Body)))
		if o.ReleasedEarly {
			st.Count("T_released_early")
		}
	}
	return l.String() + hx.Comment(c)
}

// genT draws a handler program from a grammar whose event order is fully forced by channels:
//
//	prog     = end | panic | deadline | cancel | W{1..2} ( end | panic | started | cancel )
//	deadline = D aC aE [ W{0..2} sH ]   aT W{0..2} ( end | panic )     the bracket only with waitH
//	         | D aC aE [ W{0..1} ] panic                               only with waitH
//	started  = D aC W{0..2} ( end | panic )          the chain owns the response: no timeout handler
//	cancel   = X aC [ hold ] ( end | W | panic )
//
// Every program whose deadline passes on an untouched response uses the custom timeout handler: after
// `D aC aE` thread R is provably past its select (inside the timeout handler), and the handler
// goroutine does not finish before `aT` (or before the timeout handler is blocked on it) — otherwise
// Go's select could see `done` and `ctx.Done()` ready at once and the outcome would be a coin toss.
// In `started` and `cancel` that coin toss is harmless: either way the middleware sends nothing, waits
// for the handler and re-raises its panic (the driver rejects a case whose two fair schedules differ).
// `hold` keeps the handler running for a while after the event: a middleware that returns without
// waiting is seen as "released early".
func genT(r *hx.Rand, st *hx.Stats) (c tCase) {
	c = tCase{Kind: "T", Pre: r.Intn(2)}
	defer func() {
		c.Fmtf = r.Chance(1, 3)
		c.Hdr = !c.writes() && r.Chance(1, 2)
		c.CL = c.soleWriter() && r.Chance(1, 2)
		c.Gate = c.WaitH && c.Custom && hasAct(c.Prog, "sH") && r.Chance(1, 2)
		for _, a := range c.Prog {
			if strings.HasPrefix(a, "P") && r.Chance(1, 3) {
				c.Conc = true
			}
		}
		if st != nil {
			if c.Fmtf {
				st.Count("T_rendered_with_Stringf")
			}
			if c.Gate {
				st.Count("T_slow_client_write_gated")
			}
			if c.Conc {
				st.Count("T_second_request_in_flight_during_recovery")
			}
			if c.Hdr {
				st.Count("T_chain_sets_body_headers_without_writing")
			}
			if c.CL {
				st.Count("T_handler_declares_content_length")
			}
		}
	}()
	w := func(n int) []string { // 0..n writes
		var out []string
		for i := r.Intn(n + 1); i > 0; i-- {
			out = append(out, "W")
		}
		return out
	}
	pv := func() string { return "P" + strconv.Itoa(r.Intn(cx.NPanicValues)) }
	name := ""
	if r.Chance(1, 30) {
		// the budget is the middleware's own (real, 40 ms) and the request context stays live: the first
		// of several flat handlers overruns without writing, then returns; nothing behind it may run
		c.Custom, c.Budget = true, 40
		c.Prog = []string{"aC", "aE", "aT"}
		c.Tail = [][]string{w(1), {"W"}}
		if r.Chance(1, 2) {
			c.Tail = append(c.Tail, w(1))
		}
		if r.Chance(1, 3) {
			c.Wrap = &tWrap{}
		}
		if st != nil {
			st.Count("T_shape_real_deadline_first_of_flat_handlers_overruns")
		}
		return c
	}
	// the timed chain around the main handler: a nesting middleware in front, flat handlers behind
	defer func() {
		if c.Budget > 0 && hasAct(c.Prog, "aC") && !hasAct(c.Prog, "D") {
			return
		}
		if r.Chance(1, 3) {
			c.Wrap = &tWrap{Post: w(1)}
			if !hasAct(c.Prog, "aE") && !hasAct(c.Prog, "aL") { // a write in front of the main handler starts the response: no timeout handler to wait for
				c.Wrap.Pre = w(1)
			}
			if st != nil {
				st.Count("T_chain_nesting_middleware")
			}
		}
		for i := r.Intn(4); i > 0; i-- {
			c.Tail = append(c.Tail, w(1))
		}
		if st != nil {
			st.Count("T_chain_tail_" + strconv.Itoa(len(c.Tail)))
		}
	}()
	c.Prog = w(2)
	if len(c.Prog) > 0 {
		name = "wrote_first_"
	}
	if r.Chance(1, 45) {
		// a straggler: real small budget, the handler ignores the context and overruns by 6 budgets
		c.Custom, c.Budget = true, 40
		if len(c.Prog) > 0 {
			c.Prog = append(c.Prog, "D", "aC", "hold")
		} else {
			c.Prog = append(c.Prog, "D", "aC", "aE", "aT", "hold")
		}
		if r.Chance(1, 3) {
			c.Prog = append(c.Prog, pv())
		}
		if st != nil {
			st.Count("T_shape_" + name + "straggler_overruns_6_budgets")
		}
		return c
	}
	if len(c.Prog) == 0 && r.Chance(1, 12) {
		// the handler starts the response while the middleware is logging the timeout (the logger is slow):
		// the claim that follows fails, the response stays the handler's
		c.Custom, c.WaitL = r.Chance(1, 2), true
		c.Prog = append(append([]string{"D", "aC", "aL", "W"}, w(1)...), "sH")
		switch r.Intn(3) {
		case 0:
			c.Prog = append(c.Prog, pv())
		case 1:
			c.Prog = append(c.Prog, "hold", "W")
		}
		if st != nil {
			st.Count("T_shape_handler_starts_the_response_while_the_timeout_is_logged")
		}
		return c
	}
	switch k := r.Intn(20); {
	case k < 3:
		name += "finishes"
		c.Custom = r.Chance(1, 2)
		if len(c.Prog) == 0 {
			c.Prog = []string{"W"}
		}
	case k < 6:
		name += "panics"
		c.Custom = r.Chance(1, 2)
		c.Prog = append(c.Prog, pv())
	case k < 15 && len(c.Prog) > 0:
		// the chain has started the response before the deadline passes: it stays the chain's
		name += "deadline"
		c.Custom = r.Chance(1, 2)
		c.Prog = append(append(c.Prog, "D", "aC"), w(2)...)
		if r.Chance(1, 3) {
			name += "_then_panic"
			c.Prog = append(c.Prog, pv())
		}
	case k < 15:
		c.Custom = true
		c.Prog = append(c.Prog, "D", "aC", "aE")
		c.WaitH = r.Chance(1, 2)
		if c.WaitH && r.Chance(1, 4) {
			name += "deadline_panic_while_timeout_handler_waits"
			c.Prog = append(append(c.Prog, w(1)...), pv())
			break
		}
		if c.WaitH {
			mid := w(2)
			if len(mid) > 0 {
				name += "deadline_writes_before_timeout_body_"
			}
			c.Prog = append(append(c.Prog, mid...), "sH")
		}
		c.Prog = append(c.Prog, "aT")
		post := w(2)
		c.Prog = append(c.Prog, post...)
		switch {
		case r.Chance(1, 4):
			name += "deadline_then_panic"
			c.Prog = append(c.Prog, pv())
		case len(post) > 0:
			name += "deadline_writes_after_timeout_body"
		default:
			name += "deadline_honoured"
		}
	default:
		name += "parent_cancel"
		c.Custom = r.Chance(1, 2)
		c.Prog = append(c.Prog, "X", "aC")
		if r.Chance(1, 6) {
			name += "_handler_goes_on_for_a_while"
			c.Prog = append(c.Prog, "hold")
		}
		switch r.Intn(3) {
		case 0:
			c.Prog = append(c.Prog, "W")
		case 1:
			c.Prog = append(c.Prog, pv())
		}
	}
	if st != nil {
		st.Count("T_shape_" + name)
	}
	return c
}

// ---------------------------------------------------------------- kind O: the options of timeout.New

type oOpt struct {
	K  string   `json:"k"`            // D NL WL H SP PX SX SK
	N  int      `json:"n,omitempty"`  // D: budget in ms; H: tag; SK: 0 nil function, 1 returns false, 2 returns true
	Ps []string `json:"ps,omitempty"` // SP PX SX
}

type oCase struct {
	Kind string   `json:"kind"` // "O"
	Opts []oOpt   `json:"opts"`
	Path string   `json:"path"`
	Prog []string `json:"prog"` // W P<v>
}

var oPaths = []string{"/t", "/t/x", "/admin/t", "/admin", "/a.ws", "/ws", "/x/a.ws"}

type oObs struct {
	HasDeadline bool
	Budget      int
	Calls       int
	Status      int
	Body        []int
	Escaped     int
	HPanicked   bool
	Recovered   bool
}

func runO(c oCase) oObs {
	var recovered, hPanicked atomic.Bool
	var calls atomic.Int32
	o := oObs{Escaped: -1}
	var opts []timeout.Option
	for _, op := range c.Opts {
		switch op.K {
		case "D":
			opts = append(opts, timeout.WithDuration(time.Duration(op.N)*time.Millisecond))
		case "NL":
			opts = append(opts, timeout.WithoutLogging())
		case "WL":
			opts = append(opts, timeout.WithLogger(slog.New(slog.NewTextHandler(io.Discard, nil))))
		case "H":
			opts = append(opts, timeout.WithHandler(func(c *router.Context, _ time.Duration) {
				_ = c.JSON(http.StatusRequestTimeout, map[string]any{"error": "Request timeout", "code": "TIMEOUT"})
			}))
		case "SP":
			opts = append(opts, timeout.WithSkipPaths(op.Ps...))
		case "PX":
			opts = append(opts, timeout.WithSkipPrefix(op.Ps...))
		case "SX":
			opts = append(opts, timeout.WithSkipSuffix(op.Ps...))
		case "SK":
			if op.N == 0 {
				opts = append(opts, timeout.WithSkip(nil))
			} else {
				res := op.N == 2
				opts = append(opts, timeout.WithSkip(func(*router.Context) bool { calls.Add(1); return res }))
			}
		}
	}
	r := router.MustNew()
	r.Use(recovery.New(recovery.WithLogger(slog.New(flagHandler{&recovered}))))
	r.Use(timeout.New(opts...))
	h := func(rc *router.Context) {
		if dl, ok := rc.Request.Context().Deadline(); ok {
			o.HasDeadline = true
			o.Budget = int((time.Until(dl) + 500*time.Millisecond) / time.Second) // the budget rounded to whole seconds (30, 3600, 7200)
		}
		for _, act := range c.Prog {
			if act == "W" {
				_ = rc.JSON(cx.StatusOf(tHid), map[string]int{"h": tHid})
			} else {
				v, _ := strconv.Atoi(act[1:])
				hPanicked.Store(true)
				panicNow(v)
			}
		}
	}
	for _, p := range oPaths {
		r.GET(p, h)
	}
	rec := httptest.NewRecorder()
	func() {
		defer func() {
			if p := recover(); p != nil {
				o.Escaped = cx.PanicIndex(p)
			}
		}()
		r.ServeHTTP(rec, httptest.NewRequest(http.MethodGet, c.Path, nil))
	}()
	o.Calls = int(calls.Load())
	o.Status = rec.Code
	o.Body = cx.ParseBody(rec.Body.Bytes())
	o.HPanicked = hPanicked.Load()
	o.Recovered = recovered.Load()
	return o
}

func emitO(id string, c oCase, st *hx.Stats) string {
	if skipped() {
		return ""
	}
	l := hx.NewLine(id).Tok("O").Nat(len(c.Opts))
	for _, op := range c.Opts {
		l.Tok(op.K)
		switch op.K {
		case "D", "H", "SK":
			l.Nat(op.N)
		case "SP", "PX", "SX":
			l.Nat(len(op.Ps))
			for _, p := range op.Ps {
				l.Str(p)
			}
		}
	}
	l.Str(c.Path).Nat(len(c.Prog) + 1).Tok("G" + strconv.Itoa(len(c.Prog)))
	for _, a := range c.Prog {
		l.Tok(a)
	}
	in := l.String()
	l.Sep()
	announce(l.String() + " 0 0 0 0 0 1 9 1 0" + hx.Comment(c))
	o := runO(c)
	l.Bool(o.HasDeadline).Nat(o.Budget).Nat(o.Calls).Nat(o.Status)
	cx.EncHs(l, o.Body)
	if o.Escaped < 0 {
		l.Nat(0)
	} else {
		l.Nat(1).Nat(o.Escaped)
	}
	l.Bool(o.HPanicked).Bool(o.Recovered)
	if st != nil {
		st.Case(in[len(id):], true)
		st.Count("O_options_" + strconv.Itoa(len(c.Opts)))
		if o.HasDeadline {
			st.Count("O_timed")
		} else {
			st.Count("O_skipped")
		}
		if o.Calls > 0 {
			st.Count("O_skip_function_consulted")
		}
		for _, op := range c.Opts {
			st.Count("O_opt_" + op.K)
		}
	}
	return l.String() + hx.Comment(c)
}

func genO(r *hx.Rand) oCase {
	c := oCase{Kind: "O", Path: hx.Pick(r, oPaths)}
	somePaths := func() []string {
		pool := []string{"/t", "/admin", "/adm", "/t/", ".ws", "ws", "/a.ws", "/x", "/", ""}
		var out []string
		for i := r.Range(1, 2); i > 0; i-- {
			out = append(out, hx.Pick(r, pool))
		}
		return out
	}
	for i := r.Intn(5); i > 0; i-- {
		switch r.Intn(10) {
		case 0:
			c.Opts = append(c.Opts, oOpt{K: "D", N: hx.Pick(r, []int{3600000, 7200000})})
		case 1:
			c.Opts = append(c.Opts, oOpt{K: "NL"})
		case 2:
			c.Opts = append(c.Opts, oOpt{K: "WL"})
		case 3:
			c.Opts = append(c.Opts, oOpt{K: "H", N: 1})
		case 4, 5:
			c.Opts = append(c.Opts, oOpt{K: "SP", Ps: somePaths()})
		case 6:
			c.Opts = append(c.Opts, oOpt{K: "PX", Ps: somePaths()})
		case 7:
			c.Opts = append(c.Opts, oOpt{K: "SX", Ps: somePaths()})
		default:
			c.Opts = append(c.Opts, oOpt{K: "SK", N: r.Intn(3)})
		}
	}
	for i := r.Intn(3); i > 0; i-- {
		c.Prog = append(c.Prog, "W")
	}
	if r.Chance(1, 3) {
		c.Prog = append(c.Prog, "P"+strconv.Itoa(r.Intn(cx.NPanicValues)))
	}
	return c
}

func fixedO() []oCase {
	return []oCase{
		{Kind: "O", Path: "/t", Prog: []string{"W"}}, // defaults: 30 s, nothing skipped
		{Kind: "O", Path: "/admin/t", Opts: []oOpt{{K: "PX", Ps: []string{"/admin"}}, {K: "SK", N: 1}}, Prog: []string{"W"}},
		{Kind: "O", Path: "/a.ws", Opts: []oOpt{{K: "SX", Ps: []string{".ws"}}, {K: "D", N: 3600000}}, Prog: []string{"P1"}},
		{Kind: "O", Path: "/t", Opts: []oOpt{{K: "SK", N: 2}, {K: "SK", N: 0}}, Prog: []string{"W"}},                         // a nil function given last switches the custom test off
		{Kind: "O", Path: "/t", Opts: []oOpt{{K: "SP", Ps: []string{"/x"}}, {K: "SP", Ps: []string{"/t"}}, {K: "SK", N: 2}}}, // path sets accumulate; the function is not consulted
		{Kind: "O", Path: "/t/x", Opts: []oOpt{{K: "D", N: 3600000}, {K: "D", N: 7200000}, {K: "SK", N: 1}}, Prog: []string{"W", "P0"}},
	}
}

// ---------------------------------------------------------------- main

func fixedR() []rCase {
	return []rCase{
		// K10c: [recovery; A panics; B panics] — as shipped B ran after the recovered panic and its panic left ServeHTTP
		{Kind: "R", Check: true, Chain: []cx.Beh{{H: 1, Acts: []cx.Act{p(0)}}, {H: 2, Acts: []cx.Act{p(1)}}}},
		// K10c: the second handler writes behind the 500 body
		{Kind: "R", Check: true, Chain: []cx.Beh{{H: 1, Acts: []cx.Act{p(1)}}, {H: 2, Acts: a("W")}}},
		// the same through the app's default middleware
		{Kind: "R", Check: true, App: true, Chain: []cx.Beh{{H: 1, Acts: []cx.Act{p(2)}}, {H: 2, Acts: []cx.Act{p(4)}}}},
		// size-tracking writer (app observability): panic after the first write in a middleware, two more positions behind it
		{Kind: "R", Check: true, App: true, Obs: true, Global: 1, Chain: []cx.Beh{{H: 1, Acts: []cx.Act{{K: "W"}, p(2), {K: "N"}}}, {H: 2, Acts: []cx.Act{p(2)}}, {H: 3, Acts: a("W")}}},
		// middleware given through app.WithMiddleware at construction panics before / after Next
		{Kind: "R", Check: true, App: true, Global: 2, Ctor: 2, Chain: []cx.Beh{{H: 1, Acts: []cx.Act{{K: "N"}, p(1)}}, {H: 2, Acts: []cx.Act{p(0), {K: "N"}}}, {H: 3, Acts: a("W")}}},
		// through a real HTTP server
		{Kind: "R", Check: true, Wire: true, Chain: []cx.Beh{{H: 1, Acts: []cx.Act{p(4)}}, {H: 2, Acts: []cx.Act{p(1)}}}},
		// panic after the response was started
		{Kind: "R", Check: true, Global: 1, Chain: []cx.Beh{{H: 1, Acts: a("N")}, {H: 2, Acts: []cx.Act{{K: "W"}, p(3)}}}},
		// a panic value whose Error method panics itself (typed nil), recovery logging on
		{Kind: "R", Check: true, Log: true, Chain: []cx.Beh{{H: 1, Acts: []cx.Act{p(cx.TypedNilPanic)}}}},
		{Kind: "R", Check: true, App: true, Global: 1, Chain: []cx.Beh{{H: 1, Acts: a("N")}, {H: 2, Acts: []cx.Act{{K: "W"}, p(cx.TypedNilPanic)}}}},
		// K10e: recovery.WithStackSize(-1) — as shipped recovery itself panicked in captureStack (stack[:-1])
		{Kind: "R", Check: true, Log: true, Stack: -1, Chain: []cx.Beh{{H: 1, Acts: []cx.Act{p(0)}}, {H: 2, Acts: a("W")}}},
		// recovery.WithStackSize(0): the captured stack is cut to nothing
		{Kind: "R", Check: true, Log: true, Stack: 2, Chain: []cx.Beh{{H: 1, Acts: []cx.Act{p(1)}}}},
		// the panic comes out of app.Readiness().Check() (a gate whose Ready method panics)
		{Kind: "R", Check: true, App: true, Chain: []cx.Beh{{H: 1, Acts: []cx.Act{p(cx.GatePanic)}}}},
		// two panics with values of different types, one request after the other, recovery logging on
		{Kind: "R", Check: true, Log: true, PreV: 2, Chain: []cx.Beh{{H: 1, Acts: []cx.Act{p(0)}}}},
		{Kind: "R", Check: true, App: true, PreV: 1, Chain: []cx.Beh{{H: 1, Acts: []cx.Act{p(3)}}}},
		// through the timeout middleware's goroutine
		{Kind: "R", Check: true, Wrap: true, Global: 1, Chain: []cx.Beh{{H: 1, Acts: []cx.Act{{K: "N"}, p(0)}}, {H: 2, Acts: []cx.Act{p(4)}}}},
	}
}

func fixedT() []tCase {
	return []tCase{
		{Kind: "T", Custom: true, Prog: []string{"D", "aC", "aE", "aT", "W"}},                                // K10a: as shipped the handler's write landed behind the 408 body
		{Kind: "T", Custom: true, Prog: []string{"W", "D", "aC", "hold", "W"}},                               // K10a: as shipped the 408 body landed behind the handler's output
		{Kind: "T", Prog: []string{"X", "aC", "hold", "P1"}},                                                 // K10b: as shipped ServeHTTP returned while the handler was running, the panic was dropped
		{Kind: "T", Custom: true, Prog: []string{"D", "aC", "aE", "aT", "P0"}},                               // K10d: as shipped recovery's 500 body landed behind the 408 body
		{Kind: "T", Custom: true, Prog: []string{"D", "aC", "aE", "aT"}},                                     // the good case: one timeout response
		{Kind: "T", Custom: true, Budget: 40, Prog: []string{"D", "aC", "aE", "aT", "hold"}},                 // straggler: ServeHTTP must wait however long it takes
		{Kind: "T", Custom: true, Budget: 40, Prog: []string{"aC", "aE", "aT"}, Tail: [][]string{{}, {"W"}}}, // real deadline, first of three flat handlers overruns silently
		{Kind: "T", Prog: []string{"P5"}},                                                                    // a panic whose value wraps context.DeadlineExceeded, before any deadline
		{Kind: "T", Prog: []string{"W", "P6"}, Tail: [][]string{{"W"}}},
		{Kind: "T", Prog: []string{"W"}},                                                         // handler first
		{Kind: "T", Prog: []string{"P1"}},                                                        // re-panic to recovery
		{Kind: "T", Custom: true, WaitH: true, Prog: []string{"D", "aC", "aE", "W", "sH", "aT"}}, // handler writes first, then the 408 body
		{Kind: "T", Custom: true, WaitH: true, Prog: []string{"D", "aC", "aE", "P3"}},            // panic while the timeout handler waits
		// slow client + Stringf: the handler renders while the timeout response is inside the writer
		{Kind: "T", Custom: true, WaitH: true, Fmtf: true, Gate: true, Prog: []string{"D", "aC", "aE", "W", "sH", "aT"}},
		// a second request is in flight while recovery handles the panic that followed the timeout response
		{Kind: "T", Custom: true, Conc: true, Prog: []string{"D", "aC", "aE", "aT", "P0"}},
		{Kind: "T", Conc: true, Prog: []string{"W", "P1"}},
		// the chain sets Content-Length / Content-Encoding, writes nothing, runs into the deadline
		{Kind: "T", Custom: true, Hdr: true, Prog: []string{"D", "aC", "aE", "aT"}},
		{Kind: "T", Hdr: true, Prog: []string{"P0"}},
		// the first write of the handler lands while the timeout warning is being logged
		{Kind: "T", Custom: true, WaitL: true, Prog: []string{"D", "aC", "aL", "W", "sH"}},
		// the handler owns the response (started before the deadline, Content-Length declared) and completes it afterwards
		{Kind: "T", Custom: true, CL: true, Prog: []string{"W", "D", "aC", "hold", "W"}},
	}
}

// ---------------------------------------------------------------- supervisor
//
// "never terminates the process" is an observation of its own: a panic in a goroutine nobody
// recovers in cannot be caught from inside. The harness therefore runs its cases in a child process;
// before each case the child announces the line that is to be printed should the process die in it
// (no response, escaped = 9 "the process terminated"). When the child dies the parent prints that
// line and starts a new child that skips the cases already done.

const pendingPrefix = "#pending "

var (
	announceW *bufio.Writer
	skipCases int
	caseNo    int
)

// skipped reports whether the case about to be emitted was already done by an earlier child.
func skipped() bool {
	caseNo++
	return caseNo <= skipCases
}

func announce(died string) {
	if announceW != nil {
		fmt.Fprintln(announceW, pendingPrefix+strconv.Itoa(caseNo)+" "+died)
		announceW.Flush()
	}
}

const maxDeaths = 6

func supervise() {
	exe, err := os.Executable()
	if err != nil {
		fmt.Fprintln(os.Stderr, "c10: cannot find own executable:", err)
		os.Exit(3)
	}
	var stdin []byte
	if len(os.Args) > 1 && os.Args[1] == "replay" { // gen reads nothing: never wait for an stdin that stays open
		stdin, _ = io.ReadAll(os.Stdin)
	}
	w := hx.Out()
	defer w.Flush()
	done := 0
	for deaths := 0; ; {
		cmd := exec.Command(exe, os.Args[1:]...)
		cmd.Env = append(os.Environ(), "VERIF_C10_CHILD=1", "VERIF_C10_SKIP="+strconv.Itoa(done))
		cmd.Stdin = bytes.NewReader(stdin)
		var stderr bytes.Buffer
		cmd.Stderr = &stderr
		pipe, err := cmd.StdoutPipe()
		if err != nil || cmd.Start() != nil {
			fmt.Fprintln(os.Stderr, "c10: cannot start the child process")
			os.Exit(3)
		}
		pending := ""
		sc := bufio.NewScanner(pipe)
		sc.Buffer(make([]byte, 1<<20), 1<<26)
		for sc.Scan() {
			line := sc.Text()
			if strings.HasPrefix(line, pendingPrefix) {
				no, rest, _ := strings.Cut(line[len(pendingPrefix):], " ")
				pending = rest
				done, _ = strconv.Atoi(no)
				continue
			}
			pending = ""
			fmt.Fprintln(w, line)
		}
		err = cmd.Wait()
		if err == nil {
			return
		}
		if pending == "" { // not inside a case: nothing to attribute the death to
			w.Flush()
			os.Stderr.Write(stderr.Bytes())
			fmt.Fprintln(os.Stderr, "c10: child process failed outside a case:", err)
			os.Exit(2)
		}
		deaths++
		msg := stderr.String()
		if i := strings.Index(msg, "\n\n"); i > 0 {
			msg = msg[:i]
		}
		fmt.Fprintln(w, "# the process died in the next case ("+err.Error()+"): "+strings.ReplaceAll(strings.TrimSpace(msg), "\n", " | "))
		fmt.Fprintln(w, pending)
		if deaths >= maxDeaths {
			fmt.Fprintf(w, "# %d process deaths: giving up on the remaining cases\n", deaths)
			return
		}
	}
}

func main() {
	// the app's default recovery logs through slog.Default(): keep stderr quiet
	slog.SetDefault(slog.New(slog.NewTextHandler(io.Discard, nil)))
	if os.Getenv("VERIF_C10_CHILD") == "" {
		supervise()
		return
	}
	skipCases, _ = strconv.Atoi(os.Getenv("VERIF_C10_SKIP"))
	args := hx.ParseArgs()
	w := hx.Out()
	defer w.Flush()
	announceW = w
	out := func(s string) {
		if s != "" {
			fmt.Fprintln(w, s)
		}
	}
	switch args.Cmd {
	case "gen":
		r := hx.NewRand(cx.MixSeed(args.Seed))
		st := hx.NewStats()
		for i, c := range fixedR() {
			out(emitR(fmt.Sprintf("c10-fixR-%d", i), c, st))
		}
		for i, c := range fixedT() {
			out(emitT(fmt.Sprintf("c10-fixT-%d", i), c, st))
		}
		for i, c := range fixedO() {
			out(emitO(fmt.Sprintf("c10-fixO-%d", i), c, st))
		}
		for i := 0; i < args.N; i++ {
			if i%16 == 7 {
				out(emitO(fmt.Sprintf("c10-%d-%d", args.Seed, i), genO(r), st))
			} else if i%4 == 3 {
				out(emitT(fmt.Sprintf("c10-%d-%d", args.Seed, i), genT(r, st), st))
			} else {
				out(emitR(fmt.Sprintf("c10-%d-%d", args.Seed, i), genR(r, st), st))
			}
		}
		st.Emit(w)
	case "replay":
		for _, line := range hx.StdinLines() {
			var k struct {
				Kind string `json:"kind"`
			}
			id, err := hx.CaseFromComment(line, &k)
			if err != nil {
				out(fmt.Sprintf("# cannot replay %q: %v", id, err))
				continue
			}
			if k.Kind == "O" {
				var c oCase
				_, _ = hx.CaseFromComment(line, &c)
				out(emitO(id, c, nil))
			} else if k.Kind == "T" {
				var c tCase
				_, _ = hx.CaseFromComment(line, &c)
				out(emitT(id, c, nil))
			} else {
				var c rCase
				_, _ = hx.CaseFromComment(line, &c)
				out(emitR(id, c, nil))
			}
		}
	}
}
