//go:build !race

package main

const raceBuild = false
