//go:build race

package main

// raceBuild: the thorough tier builds this harness with -race. The parent-cancel shapes (finding
// K10b) race on Context.index by construction — the request goroutine goes on while the handler
// goroutine still runs — so they are skipped (and counted) in that build; every other shape runs
// under the detector, and a report makes the harness exit non-zero.
const raceBuild = true
