// Harness for C03 — pooled contexts never leak state between requests.
//
// One case = one history of 2..40 requests on the process-wide context pool, over every serve path
// (tree static map, tree traversal, wildcard, compiled static, compiled dynamic, per-tree static table,
// versioned static, versioned tree, 404, 405, NoRoute, sunset), through a router.Router or through an
// app.App (app-level pool, Bind). The first handler of every chain is a probe that records what the
// public API shows at handler start; afterwards the handlers dirty every mutable field (10-parameter
// routes, Error, Abort, all four Accept helpers, Params map, SetParam/SetParamCount, Bind). The pool is
// drained before each history and the run is single-threaded (GOMAXPROCS=1), so the next request gets
// the object the previous one dirtied; which object each handler got is measured (pointer identity,
// numbered by first appearance) and shipped to the model. After ServeHTTP returns the retained object
// is inspected by reflection (observation: which fields are not in their clean state).
//
// Thorough tier: the same histories on 8 goroutines (views still compared per request; with -race).
package main

import (
	"bytes"
	"context"
	"errors"
	"fmt"
	"io"
	"log/slog"
	"net/http"
	"net/http/httptest"
	"os"
	"reflect"
	"regexp"
	"runtime"
	"sort"
	"strconv"
	"strings"
	"sync"
	"sync/atomic"
	"time"

	sdkmetric "go.opentelemetry.io/otel/sdk/metric"
	sdktrace "go.opentelemetry.io/otel/sdk/trace"

	"rivaas.dev/app"
	riverrors "rivaas.dev/errors"
	"rivaas.dev/metrics"
	"rivaas.dev/middleware/basicauth"
	"rivaas.dev/middleware/recovery"
	"rivaas.dev/router"
	"rivaas.dev/tracing"
	rroute "rivaas.dev/router/route"
	"rivaas.dev/router/version"
	"rivaas.dev/validation"

	"verif/harness/hx"
)

// ---------------------------------------------------------------- configuration and route table

type Cfg struct {
	Compiled   bool
	Versioning bool
	NoRoute    bool
	App        bool // serve through app.App (app-level pool on top of the router pool)
	Obs        bool `json:",omitempty"` // app with observability (metrics + tracing recorder: wraps the response writer per request)
	// a second router with the same routes but another configuration (it trusts the peer as a proxy) serves the requests
	// marked Alt: both take their contexts from the one process-wide pool
	Two bool `json:",omitempty"`
	// router with an observability recorder installed (its OnRequestEnd panics for requests marked RecPanic)
	Rec bool `json:",omitempty"`
}

type routeDef struct {
	method, pattern, ver string
	hid                  int
	kind                 string // static | param | wild | treestatic
	intParam             string
	compiledOnly         bool // registered only when route compilation is on (K03a witness pair)
	chain                string // "auth": recovery, basicauth (user alice), then the probe handler
}

const tenParams = "/p/:a/:b/:c/:d/:e/:f/:g/:h/:i/:j"
const nineParamsV = "/vq/:a/:b/:c/:d/:e/:f/:g/:h/:i"

var table = []routeDef{
	{method: "GET", pattern: "/", hid: 1, kind: "static"},
	{method: "GET", pattern: "/s/a", hid: 2, kind: "static"},
	{method: "GET", pattern: "/d/:id", hid: 4, kind: "param"},
	{method: "GET", pattern: "/d/:id/e/:x", hid: 5, kind: "param"},
	{method: "GET", pattern: "/w/*", hid: 6, kind: "wild"},
	{method: "POST", pattern: "/only/post", hid: 7, kind: "static"},
	{method: "GET", pattern: "/c/:n", hid: 9, kind: "param", intParam: "n"},
	{method: "GET", pattern: tenParams, hid: 10, kind: "param"},
	{method: "GET", pattern: "/star*", hid: 16, kind: "treestatic"},
	// two routes that share a parameter position under different names, the more specific one constrained: a request that
	// fails the constraint is served by the other route and must see that route's names only
	{method: "GET", pattern: "/r/:owner/:repo", hid: 33, kind: "param"},
	{method: "GET", pattern: "/r/:id/settings", hid: 34, kind: "param", intParam: "id"},
	// behind recovery + basicauth: the handler runs only with valid credentials; a panic in it is recovered inside the chain
	{method: "GET", pattern: "/ba/:id", hid: 40, kind: "param", chain: "auth"},
	// a catch-all next to a parameter branch below the same prefix: the tree tries the parameter branch first and falls
	// back to the catch-all when that branch does not lead to a route (backtracking, since /repo e8ff29c)
	{method: "GET", pattern: "/f/*", hid: 30, kind: "wild"},
	{method: "GET", pattern: "/f/:id/meta", hid: 31, kind: "param"},
	{method: "GET", pattern: "/f/:id/rev/:rev/diff", hid: 32, kind: "param"},
	// K03a witness pair: the more specific candidate fails on its last constraint after it stored :i in the map
	{method: "GET", pattern: "/m/s/:a/:b/:c/:d/:e/:f/:g/:h/:i/:j", hid: 17, kind: "param", intParam: "j", compiledOnly: true},
	{method: "GET", pattern: "/m/:z/:a/:b/:c/:d/:e/:f/:g/:h/:x/:y", hid: 18, kind: "param", compiledOnly: true},
	{method: "GET", pattern: "/vs", ver: "v1", hid: 20, kind: "static"},
	{method: "GET", pattern: "/vd/:id", ver: "v1", hid: 21, kind: "param"},
	{method: "GET", pattern: nineParamsV, ver: "v1", hid: 26, kind: "param"},
	// a method that has routes in the version trees only (no main tree for it: the versioned static path then takes
	// the first pooled context itself instead of the one the main-tree lookup just gave back)
	{method: "PUT", pattern: "/vput", ver: "v1", hid: 27, kind: "static"},
	{method: "PUT", pattern: "/vput/:id", ver: "v1", hid: 28, kind: "param"},
	{method: "GET", pattern: "/vs", ver: "v2", hid: 22, kind: "static"},
	{method: "GET", pattern: "/vd/:id", ver: "v2", hid: 23, kind: "param"},
	{method: "GET", pattern: "/vs", ver: "v0", hid: 24, kind: "static"},
	{method: "GET", pattern: "/vd/:id", ver: "v0", hid: 25, kind: "param"},
}

var validVersions = []string{"v0", "v1", "v2"}

const defaultVersion = "v1"
const sunsetVersion = "v0"
const noRouteHid = 99

func active(d routeDef, c Cfg) bool {
	if d.ver != "" && !c.Versioning {
		return false
	}
	return !d.compiledOnly || c.Compiled
}

func segs(s string) []string {
	s = strings.Trim(s, "/")
	if s == "" {
		return nil
	}
	return strings.Split(s, "/")
}

type kv struct{ K, V string }

// matchTable: reference matcher for this table; returns the route and the parameters in pattern order.
// The tree lookup backtracks (since /repo e8ff29c): at every node the static child is tried first, then the parameter
// child, then the catch-all, and an alternative that does not lead to a route whose constraints accept the captured
// values is abandoned — the answer is the first fully matching, constraint-satisfying route in that order. The
// compiled matcher tries its candidates by specificity and falls through on a failed constraint.
func matchTable(c Cfg, method, path, ver string) (routeDef, []kv, bool) {
	ps := segs(path)
	if path == "" || strings.Contains(path, "//") || (len(path) > 1 && strings.HasSuffix(path, "/")) {
		return routeDef{}, nil, false
	}
	type cand struct {
		d     routeDef
		ps    []kv
		score int
		ok    bool
		kinds []int // per segment: 2 static, 1 parameter, 0 catch-all (the order the tree tries its children)
	}
	var cands []cand
	for _, d := range table {
		if d.method != method || d.ver != ver || !active(d, c) {
			continue
		}
		rs := segs(d.pattern)
		structural, ok := true, true
		score := 0
		var params []kv
		var kinds []int
		for i, r := range rs {
			if r == "*" {
				if i >= len(ps) {
					structural = false
				} else {
					params = append(params, kv{"filepath", strings.Join(ps[i:], "/")})
				}
				kinds = append(kinds, 0)
				break
			}
			if i >= len(ps) {
				structural = false
				break
			}
			if strings.HasPrefix(r, ":") {
				params = append(params, kv{r[1:], ps[i]})
				if d.intParam == r[1:] && (ps[i] == "" || strings.Trim(ps[i], "0123456789") != "") {
					ok = false
				}
				score = score * 3
				kinds = append(kinds, 1)
			} else if r == ps[i] {
				score = score*3 + 2
				kinds = append(kinds, 2)
			} else {
				structural = false
				break
			}
		}
		wild := len(rs) > 0 && rs[len(rs)-1] == "*"
		if !structural || (!wild && len(rs) != len(ps)) || (wild && len(ps) < len(rs)) {
			continue
		}
		cands = append(cands, cand{d, params, score, ok, kinds})
	}
	if len(cands) == 0 {
		return routeDef{}, nil, false
	}
	sort.SliceStable(cands, func(i, j int) bool { return cands[i].score > cands[j].score })
	if ver == "" && c.Compiled {
		for _, cd := range cands {
			if cd.ok && cd.d.kind != "wild" && cd.d.kind != "treestatic" {
				return cd.d, cd.ps, true
			}
		}
	}
	// tree: depth-first with backtracking — the first route, in child order at the first differing segment, that
	// matches and whose constraints hold
	sort.SliceStable(cands, func(i, j int) bool {
		a, b := cands[i].kinds, cands[j].kinds
		for k := 0; k < len(a) && k < len(b); k++ {
			if a[k] != b[k] {
				return a[k] > b[k]
			}
		}
		return len(a) > len(b)
	})
	for _, cd := range cands {
		if cd.ok {
			return cd.d, cd.ps, true
		}
	}
	return routeDef{}, nil, false
}

func hasTree(c Cfg, method, ver string) bool {
	for _, d := range table {
		if d.method == method && d.ver == ver && active(d, c) {
			return true
		}
	}
	return false
}

// ---------------------------------------------------------------- requests

type Dirty struct {
	Kind string // E A M S C X
	N    int
	K, V string
}

type Req struct {
	Method string
	Path   string
	Ver    string
	Accept string
	Body   string // JSON body (app histories: Bind)
	Dirty  []Dirty
	Class  string
	Nested int  `json:",omitempty"` // >0: the handler of this request serves request H[Nested] before it returns (overlapping requests, deterministically)
	Inner  bool `json:",omitempty"` // served from inside another request's handler, not by the top-level loop
	Panic  bool `json:",omitempty"` // the handler panics (no recovery middleware) after its dirtying program
	// app: a second Bind with validation — "P": WithPartial + WithPresence(only plan), "T": WithPartial (presence from the own body)
	Bind2 string `json:",omitempty"`
	// a second Accept field line (list-valued header spread over two lines)
	Accept2 string `json:",omitempty"`
	// app: the handler answers with c.Fail (error format negotiated over the configured formatters)
	Fail bool `json:",omitempty"`
	// app: the handler calls ResetBinding() after its binds and does not bind again
	ResetB bool `json:",omitempty"`
	// the nested request is served with this handler's c.Response as its ResponseWriter (an app mounted inside a handler)
	NestShare bool `json:",omitempty"`
	Alt       bool `json:",omitempty"` // served by the second router (Cfg.Two)
	Auth      bool `json:",omitempty"` // carries valid Basic credentials (user alice)
	RecPanic  bool `json:",omitempty"` // the recorder's OnRequestEnd panics for this request (Cfg.Rec)
}

type Case struct {
	C    Cfg
	H    []Req
	Conc int `json:",omitempty"` // >0: run the history on this many goroutines (thorough tier)
	// Kind "N": concurrent content negotiation — G goroutines serve requests with different Accept-* headers for
	// Millis milliseconds; every handler calls the negotiation helpers Iter times and compares each answer with the
	// answer a fresh sequential call gives for its own headers
	Kind   string `json:",omitempty"`
	G      int    `json:",omitempty"`
	Millis int    `json:",omitempty"`
	Iter   int    `json:",omitempty"`
	Detail string `json:",omitempty"` // first mismatch of a kind-N run (filled in by the run, ignored on replay)
}

// names the probe asks for: every parameter name of the table plus names no route declares
var probeNames = []string{"id", "x", "n", "filepath", "a", "b", "h", "i", "j", "y", "z", "stale", "zz", "p9", "owner", "repo"}

type probeView struct {
	obj        uintptr
	paramCount int
	all, mapE  []kv
	version    string
	pattern    string
	aborted    bool
	nerrors    int
	acc        string
	presence   int
	params     []kv
	retained   int
	ctx        *router.Context
	hid        int
	unstable   bool // the view changed while a nested request was served
	shared     bool // the nested request's handler received the very same *Context
}

var (
	mu    sync.Mutex
	views map[int]*probeView // request index -> view
)

func sortedKV(m map[string]string) []kv {
	out := make([]kv, 0, len(m))
	for k, v := range m {
		out = append(out, kv{k, v})
	}
	sort.Slice(out, func(i, j int) bool { return out[i].K < out[j].K })
	return out
}

var accOffers = [][]string{{"application/json", "text/html", "text/plain"}, {"utf-8", "iso-8859-1"}, {"gzip", "br", "identity"}, {"en", "de", "fr"}}

func acceptResults(c *router.Context) string {
	return c.Accepts(accOffers[0]...) + "|" + c.AcceptsCharsets(accOffers[1]...) + "|" + c.AcceptsEncodings(accOffers[2]...) + "|" + c.AcceptsLanguages(accOffers[3]...)
}

func reqIndex(r *http.Request) int {
	var i int
	_, _ = fmt.Sscanf(r.Header.Get("X-Idx"), "%d", &i)
	return i
}

// snapshot reads what the public API shows.
func snapshot(c *router.Context, hid int, presence int) *probeView {
	v := &probeView{obj: reflect.ValueOf(c).Pointer(), paramCount: int(c.ParamCount()), all: sortedKV(c.AllParams()),
		mapE: sortedKV(c.Params), version: c.Version(), pattern: c.RoutePattern(), aborted: c.IsAborted(), nerrors: len(c.Errors()),
		presence: presence, ctx: c, hid: hid}
	for _, n := range probeNames {
		v.params = append(v.params, kv{n, c.Param(n)})
	}
	return v
}

func sameView(a, b *probeView) bool {
	return a.paramCount == b.paramCount && reflect.DeepEqual(a.all, b.all) && reflect.DeepEqual(a.mapE, b.mapE) && a.version == b.version &&
		a.pattern == b.pattern && a.aborted == b.aborted && a.nerrors == b.nerrors && reflect.DeepEqual(a.params, b.params)
}

// probe records the view at handler start (idx: the request index read from the request at handler entry).
func probe(c *router.Context, idx, hid int, presence int) *probeView {
	progress.Add(1)
	v := snapshot(c, hid, presence)
	v.acc = acceptResults(c) + "|ip:" + c.ClientIP() + "|user:" + basicauth.Username(c) // observes and dirties the cache
	mu.Lock()
	views[idx] = v
	mu.Unlock()
	return v
}

var (
	curHandler func(i int) http.Handler // the router/app that serves request i of the running history (nested requests)
	curCase    *Case
	broken     bool // a handler was entered with c.Request == nil: the context is shared with a request that released it
)

type probePanic struct{} // what a panicking probe handler panics with (expected, not a framework panic)

// body of every probe handler, router and app level
func handle(c *router.Context, hid int, presence int, bind func(q Req) string) {
	req := c.Request
	if req == nil {
		mu.Lock()
		broken = true
		mu.Unlock()
		return
	}
	idx := reqIndex(req)
	v := probe(c, idx, hid, presence)
	var q Req
	if curCase != nil && idx < len(curCase.H) {
		q = curCase.H[idx]
	}
	if q.Nested > 0 && q.Nested < len(curCase.H) {
		// another request is served while this one is in flight
		func() {
			defer func() {
				if r := recover(); r != nil {
					_, ok1 := r.(probePanic)
					_, ok2 := r.(recPanic)
					if !ok1 && !ok2 {
						panic(r)
					}
				}
			}()
			if q.NestShare && c.Response != nil {
				serveReq(curHandler(q.Nested), c.Response, curCase.H[q.Nested], q.Nested)
				return
			}
			rec := httptest.NewRecorder()
			defer func() {
				// what the nested request's handlers wrote must have arrived in ITS recorder, and nothing else
				mu.Lock()
				if in := views[q.Nested]; !markersOK(rec.Body.String(), q.Nested, in != nil) && in != nil {
					in.unstable = true
				}
				mu.Unlock()
			}()
			serveReq(curHandler(q.Nested), rec, curCase.H[q.Nested], q.Nested)
		}()
		after := snapshot(c, hid, presence)
		mu.Lock()
		if !sameView(v, after) || c.Request != req {
			v.unstable = true
		}
		if in := views[q.Nested]; in != nil && in.obj == v.obj {
			v.shared = true
		}
		mu.Unlock()
	}
	if bind != nil {
		// app level: what this handler binds (after a before-handler bound the same body and returned, and after any
		// nested request bound its own) must be this request's own payload
		bound := bind(q)
		mu.Lock()
		v.acc += "|bind:" + bound
		mu.Unlock()
	}
	dirtyIdx(c, q.Dirty, idx)
	// the parameter strings a handler read are values of this request: keep them and look again after the history
	mu.Lock()
	for _, p := range v.params {
		if p.V != "" {
			keptStrs = append(keptStrs, keptStr{idx, p.K, p.V, strings.Clone(p.V)})
		}
	}
	mu.Unlock()
	// the error list the API hands out is a value of this request: keep it and look at it again after the history
	if es := c.Errors(); len(es) > 0 {
		mu.Lock()
		kept = append(kept, keptErrs{idx, es, append([]error(nil), es...)})
		mu.Unlock()
	}
	if c.Response != nil {
		c.Response.WriteHeader(200)
		_, _ = fmt.Fprintf(c.Response, "<r%d>", idx) // the response is part of the request's own state: checked at its recorder
	}
	if q.Panic {
		panic(probePanic{})
	}
}

var errProbe = errors.New("probe error")

// recPanic is what the harness's recorder panics with in OnRequestEnd (expected, not a framework panic)
type recPanic struct{}

type probeRecorder struct{}

func (probeRecorder) OnRequestStart(ctx context.Context, req *http.Request) (context.Context, any) {
	return ctx, req.Header.Get("X-RecPanic") == "1"
}
func (probeRecorder) WrapResponseWriter(w http.ResponseWriter, _ any) http.ResponseWriter { return w }
func (probeRecorder) OnRequestEnd(_ context.Context, st any, _ http.ResponseWriter, _ string) {
	if p, ok := st.(bool); ok && p {
		panic(recPanic{})
	}
}

// serveReq serves one request the way net/http does: the request context is cancelled as soon as ServeHTTP returns
// (also when it panics), and whatever was registered on that context gets a chance to run before the next request.
func serveReq(h http.Handler, w http.ResponseWriter, q Req, idx int) {
	req := newRequest(q, idx)
	ctx, cancel := context.WithCancel(req.Context())
	defer func() {
		cancel()
		for k := 0; k < 3; k++ {
			runtime.Gosched()
		}
	}()
	for _, d := range q.Dirty {
		if d.Kind == "D" {
			w = &capWriter{ResponseWriter: w, left: 7} // the connection dies after a few bytes
			break
		}
	}
	h.ServeHTTP(w, req.WithContext(ctx))
}

// capWriter is a connection that accepts `left` more bytes and then fails
type capWriter struct {
	http.ResponseWriter
	left int
}

func (w *capWriter) Write(b []byte) (int, error) {
	if len(b) <= w.left {
		w.left -= len(b)
		return w.ResponseWriter.Write(b)
	}
	n, _ := w.ResponseWriter.Write(b[:w.left])
	w.left = 0
	return n, io.ErrShortWrite
}

type keptStr struct {
	idx        int
	name       string
	got, clone string
}

var keptStrs []keptStr

var markerRe = regexp.MustCompile(`<r(\d+)>`)

// markersOK: the body holds the marker of request idx (a handler ran for it) or no marker at all (none ran), markers
// of requests nested into it through a shared writer, and no other request's marker.
func markersOK(body string, idx int, ran bool) bool {
	allowed := map[int]bool{idx: true}
	for j := idx; curCase != nil && j < len(curCase.H) && curCase.H[j].Nested > 0 && curCase.H[j].NestShare; j = curCase.H[j].Nested {
		allowed[curCase.H[j].Nested] = true
	}
	own := 0
	for _, m := range markerRe.FindAllStringSubmatch(body, -1) {
		k, _ := strconv.Atoi(m[1])
		if !allowed[k] {
			return false
		}
		if k == idx {
			own++
		}
	}
	if ran {
		if curCase != nil && idx < len(curCase.H) {
			for _, d := range curCase.H[idx].Dirty {
				if d.Kind == "D" {
					return own <= 1 // the connection died before the marker
				}
			}
		}
		return own == 1
	}
	return own == 0
}

// pathProbe: every field is bound from a path parameter; names that are not parameters of the matched route stay empty
type pathProbe struct {
	ID       string `path:"id"`
	X        string `path:"x"`
	N        string `path:"n"`
	Filepath string `path:"filepath"`
	A        string `path:"a"`
	Stale    string `path:"stale"`
	ZZ       string `path:"zz"`
}

var pathProbeNames = []string{"id", "x", "n", "filepath", "a", "stale", "zz"}

func (p pathProbe) String() string {
	return fmt.Sprintf("id=%s,x=%s,n=%s,filepath=%s,a=%s,stale=%s,zz=%s", p.ID, p.X, p.N, p.Filepath, p.A, p.Stale, p.ZZ)
}

func errorFormatters() app.Option {
	return app.WithErrorFormatters(map[string]riverrors.Formatter{
		"application/problem+json": &riverrors.RFC9457{},
		"application/vnd.api+json": &riverrors.JSONAPI{},
		"application/json":         &riverrors.Simple{},
	})
}

type keptErrs struct {
	idx  int
	list []error // what c.Errors() returned
	copy []error // its elements at that moment
}

var kept []keptErrs

func dirtyIdx(c *router.Context, ds []Dirty, idx int) {
	for _, d := range ds {
		switch d.Kind {
		case "E":
			for i := 0; i < d.N; i++ {
				c.Error(fmt.Errorf("probe error of request %d: %w", idx, errProbe))
			}
		case "A":
			c.Abort()
		case "M":
			if c.Params == nil {
				c.Params = map[string]string{}
			}
			c.Params[d.K] = d.V
		case "S":
			c.SetParam(d.N, d.K, d.V)
		case "C":
			c.SetParamCount(int32(d.N))
		case "D":
			// stream to a connection that dies after a few bytes (the request's writer is capped for this program)
			_ = c.DataFromReader(200, -1, "text/plain", strings.NewReader(strings.Repeat("d", 300)), nil)
		case "Y":
			// AllParams() hands out a copy: changing it must not be visible to anyone
			if m := c.AllParams(); m != nil {
				m[d.K] = d.V
			}
		case "X":
			saved := c.Request.Header.Get("Accept")
			c.Request.Header.Set("Accept", d.K)
			_ = acceptResults(c)
			c.Request.Header.Set("Accept", saved)
		}
	}
}

func routerHandler(hid int) router.HandlerFunc {
	return func(c *router.Context) { handle(c, hid, 0, nil) }
}

type payload struct {
	A int    `json:"a"`
	B string `json:"b"`
}

func boundString(p payload, failed bool) string { return fmt.Sprintf("%d,%s,%v", p.A, p.B, failed) }

type accountPatch struct {
	Email *string `json:"email" validate:"omitempty,email"`
	Plan  *string `json:"plan" validate:"omitempty,oneof=free pro"`
}

// doBind is what the main app handler binds: the payload, then (Bind2) a validated partial bind.
func doBind(c *app.Context, q Req) string {
	if c.Request == nil || c.Request.Body == nil || c.Request.ContentLength <= 0 {
		return ""
	}
	var p payload
	err := c.BindOnly(&p)
	out := boundString(p, err != nil)
	switch q.Bind2 {
	case "P":
		var ap accountPatch
		err := c.Bind(&ap, app.WithPartial(), app.WithPresence(validation.PresenceMap{"plan": true}))
		out += fmt.Sprintf(",P:%v", err != nil)
	case "T":
		var ap accountPatch
		err := c.Bind(&ap, app.WithPartial())
		out += fmt.Sprintf(",T:%v", err != nil)
	}
	return out
}

func appHandler(hid int) app.HandlerFunc {
	return func(c *app.Context) {
		handle(c.Context, hid, len(c.Presence()), func(q Req) string {
			out := doBind(c, q)
			// path binding: only the parameters of this request's route may show up
			var pp pathProbe
			_ = c.BindOnly(&pp)
			out += "|path:" + pp.String()
			if q.ResetB {
				c.ResetBinding()
			}
			if q.Fail {
				c.Fail(errProbe)
				ct, _, _ := strings.Cut(c.Response.Header().Get("Content-Type"), ";")
				out += "|fail:" + ct
			}
			return out
		})
	}
}

// appBefore is registered in front of every app route (like app.WithBefore): it binds the JSON body in its own
// app.Context and returns, so the main handler binds the refilled body with another app.Context.
func appBefore(c *app.Context) {
	if c.Request != nil && c.Request.Body != nil && c.Request.ContentLength > 0 {
		var p payload
		_ = c.BindOnly(&p)
	}
}

// expectedBind: what the handler binds for this request on a brand-new app (nothing pooled, no other request).
func expectedBind(q Req, params map[string]string) string {
	var pp pathProbe
	pp.ID, pp.X, pp.N, pp.Filepath, pp.A, pp.Stale, pp.ZZ = params["id"], params["x"], params["n"], params["filepath"], params["a"], params["stale"], params["zz"]
	path := "|path:" + pp.String()
	if q.Body == "" && !q.Fail {
		return path
	}
	a, err := app.New(app.WithServiceName("c03ref"), app.WithServiceVersion("v0.0.1"), app.WithoutDefaultMiddleware(), errorFormatters(),
		app.WithDefaultErrorFormat("application/problem+json"))
	if err != nil {
		fmt.Fprintln(os.Stderr, "app.New:", err)
		os.Exit(1)
	}
	res, fail := "", ""
	a.Router().GET("/ref", a.WrapHandler(func(c *app.Context) {
		res = doBind(c, q)
		if q.Fail {
			c.Fail(errProbe)
			ct, _, _ := strings.Cut(c.Response.Header().Get("Content-Type"), ";")
			fail = "|fail:" + ct
		}
	}))
	var body io.Reader
	if q.Body != "" {
		body = bytes.NewReader([]byte(q.Body))
	}
	req := httptest.NewRequest("GET", "http://h.test/ref", body)
	if q.Body != "" {
		req.Header.Set("Content-Type", "application/json")
	}
	if q.Accept != "" {
		req.Header.Set("Accept", q.Accept)
	}
	if q.Accept2 != "" {
		req.Header.Add("Accept", q.Accept2)
	}
	a.Router().ServeHTTP(httptest.NewRecorder(), req)
	return res + path + fail
}

func routerOpts(c Cfg) []router.Option {
	opts := []router.Option{router.WithRouteCompilation(c.Compiled)}
	if c.Versioning {
		opts = append(opts, router.WithVersioning(
			version.WithHeaderDetection("X-API-Version"),
			version.WithDefault(defaultVersion),
			version.WithValidVersions(validVersions...),
			version.WithSunsetEnforcement(),
		))
	}
	return opts
}

// build returns the handler of the configuration and, with Cfg.Two, a second router with the same routes that trusts
// the peer (192.0.2.0/24, where httptest requests come from) as a proxy.
func build(c Cfg) (http.Handler, http.Handler) {
	h := build1(c, nil)
	if !c.Two || c.App {
		return h, h
	}
	return h, build1(c, []router.Option{router.WithTrustedProxies(router.WithProxies("192.0.2.0/24"))})
}

func build1(c Cfg, extra []router.Option) http.Handler {
	var r *router.Router
	var a *app.App
	if c.App {
		var err error
		opts := []app.Option{app.WithServiceName("c03"), app.WithServiceVersion("v0.0.1"), app.WithoutDefaultMiddleware(), app.WithRouter(routerOpts(c)...),
			errorFormatters(), app.WithDefaultErrorFormat("application/problem+json")}
		if c.Obs {
			opts = append(opts, app.WithObservability(
				app.WithMetrics(metrics.WithMeterProvider(sdkmetric.NewMeterProvider(sdkmetric.WithReader(sdkmetric.NewManualReader()))), metrics.WithServerDisabled()),
				app.WithTracing(tracing.WithTracerProvider(sdktrace.NewTracerProvider())),
			))
		}
		a, err = app.New(opts...)
		if err != nil {
			fmt.Fprintln(os.Stderr, "app.New:", err)
			os.Exit(1)
		}
		r = a.Router()
	} else {
		r = router.MustNew(append(routerOpts(c), extra...)...)
		if c.Rec {
			r.SetObservabilityRecorder(probeRecorder{})
		}
	}
	for _, d := range table {
		if !active(d, c) {
			continue
		}
		var h []router.HandlerFunc
		if c.App {
			h = []router.HandlerFunc{a.WrapHandler(appBefore), a.WrapHandler(appHandler(d.hid))}
		} else {
			h = []router.HandlerFunc{routerHandler(d.hid)}
		}
		if d.chain == "auth" {
			h = append([]router.HandlerFunc{recovery.New(), basicauth.New(basicauth.WithUsers(map[string]string{"alice": "pw"}))}, h...)
		}
		if d.ver != "" {
			var vr *router.VersionRouter
			if d.ver == sunsetVersion {
				vr = r.Version(d.ver, version.Deprecated(), version.Sunset(time.Date(2001, 1, 1, 0, 0, 0, 0, time.UTC)))
			} else {
				vr = r.Version(d.ver)
			}
			rt := vr.Handle(d.method, d.pattern, h...)
			if d.intParam != "" {
				rt.WhereInt(d.intParam)
			}
			continue
		}
		var rt interface{ WhereInt(string) *rroute.Route }
		switch d.method {
		case "GET":
			rt = r.GET(d.pattern, h...)
		case "POST":
			rt = r.POST(d.pattern, h...)
		}
		if d.intParam != "" {
			rt.WhereInt(d.intParam)
		}
	}
	if c.NoRoute {
		if c.App {
			r.NoRoute(a.WrapHandler(appHandler(noRouteHid)))
		} else {
			r.NoRoute(routerHandler(noRouteHid))
		}
	}
	return r
}

// ---------------------------------------------------------------- steps predicted for the model

type step struct {
	kind string
	n    int
	a, b string
}

func detect(q Req) string {
	for _, v := range validVersions {
		if q.Ver == v {
			return v
		}
	}
	return defaultVersion
}

// predictSteps returns the preparation the serve path performs (in source order) and whether a probe
// handler runs at all (405 / default 404 / sunset answer without one).
func predictSteps(c Cfg, q Req, idx int) (string, []step, bool) {
	Q, P, I, Z, R := step{kind: "Q", n: idx + 1}, step{kind: "P", n: idx + 1}, step{kind: "I", n: -1}, step{kind: "Z"}, step{kind: "R", n: 1}
	V := func(s string) step { return step{kind: "V", a: s} }
	T := func(s string) step { return step{kind: "T", a: s} }
	H := func(n int) step { return step{kind: "H", n: n} }
	W := func(ps []kv) []step {
		var out []step
		for _, p := range ps {
			out = append(out, step{kind: "W", a: p.K, b: p.V})
		}
		return out
	}
	cat := func(parts ...[]step) []step {
		var out []step
		for _, p := range parts {
			out = append(out, p...)
		}
		return out
	}
	d, ps, ok := matchTable(c, q.Method, q.Path, "")
	if ok && d.chain == "auth" && !q.Auth {
		return "basicauth.401", nil, false // the middleware answers, no probe handler runs
	}
	if ok {
		switch {
		case c.Compiled && d.kind == "static":
			return "serveCompiledRoute", []step{Q, P, H(d.hid), R, I, Z, V(""), T(d.pattern)}, true
		case c.Compiled && d.kind == "param":
			return "serveCompiledRouteWithParams", cat([]step{Z}, W(ps), []step{T(d.pattern), Q, P, H(d.hid), R, I, V("")}), true
		case c.Compiled && d.kind == "treestatic":
			return "serveStaticRoute", []step{Q, P, H(d.hid), R, T(q.Path), I, Z, V("")}, true
		default:
			return "mainTreeTail", cat([]step{Q, P, I, Z, R, V("")}, W(ps), []step{T(d.pattern), H(d.hid), I}), true
		}
	}
	if c.Versioning {
		ver := detect(q)
		tv := ""
		if hasTree(c, q.Method, ver) {
			tv = ver
		} else if hasTree(c, q.Method, defaultVersion) {
			tv = defaultVersion
		}
		if tv != "" {
			vd, vps, vok := matchTable(c, q.Method, q.Path, tv)
			switch {
			case vok && ver == sunsetVersion:
				return "versioned.sunset", nil, false
			case vok && vd.kind == "static":
				return "versionedHandlers", []step{Q, P, I, Z, R, V(ver), T(vd.pattern), H(vd.hid)}, true
			case vok:
				return "versionedRequest.tail", cat([]step{Q, P, I, Z, R, V(ver)}, W(vps), []step{T(vd.pattern), H(vd.hid)}), true
			}
			return notFoundSteps(c, q, "versionedRequest.notFound.", Q, P, I, Z, R, V, T)
		}
	}
	return notFoundSteps(c, q, "notFoundWithObs.", Q, P, I, Z, R, V, T)
}

func notFoundSteps(c Cfg, q Req, prefix string, Q, P, I, Z, R step, V, T func(string) step) (string, []step, bool) {
	for _, m := range []string{"GET", "POST", "PUT", "PATCH", "DELETE", "HEAD", "OPTIONS"} {
		if _, _, ok := matchTable(Cfg{Compiled: false, Versioning: c.Versioning, NoRoute: c.NoRoute}, m, q.Path, ""); ok {
			return prefix + "405", nil, false
		}
	}
	if c.NoRoute {
		st := []step{Q, P, I, Z, R}
		if c.Versioning {
			st = append(st, V(detect(q)))
		}
		return prefix + "noRoute", append(st, T("_not_found")), true
	}
	return prefix + "404", nil, false
}

// ---------------------------------------------------------------- running a history

func newRequest(q Req, idx int) *http.Request {
	var body io.Reader
	if q.Body != "" {
		body = bytes.NewReader([]byte(q.Body))
	}
	req := httptest.NewRequest(q.Method, "http://h.test/", body)
	req.URL.Path = q.Path
	req.Header.Set("X-Idx", fmt.Sprint(idx))
	if q.Ver != "" {
		req.Header.Set("X-API-Version", q.Ver)
	}
	if q.Accept != "" {
		req.Header.Set("Accept", q.Accept)
		req.Header.Set("Accept-Charset", "utf-8;q=0.9, iso-8859-1")
		req.Header.Set("Accept-Encoding", "br;q=0.5, gzip")
		req.Header.Set("Accept-Language", "de, en;q=0.7")
	}
	if q.Accept2 != "" {
		req.Header.Add("Accept", q.Accept2)
	}
	if q.Body != "" {
		req.Header.Set("Content-Type", "application/json")
	}
	req.Header.Set("X-Forwarded-For", forwardedFor) // honoured only by a router that trusts the peer
	if q.Auth {
		req.SetBasicAuth("alice", "pw")
	}
	if q.RecPanic {
		req.Header.Set("X-RecPanic", "1")
	}
	return req
}

const forwardedFor = "203.0.113.9"

// recovered: the route's chain has the recovery middleware, a handler panic does not leave ServeHTTP
func recovered(c Cfg, q Req) bool {
	d, _, ok := matchTable(c, q.Method, q.Path, "")
	return ok && d.chain == "auth"
}

// expectedExtras: what ClientIP() and basicauth.Username() show on a context that belongs to this request alone
func expectedExtras(c Cfg, q Req) string {
	ip := "192.0.2.1"
	if q.Alt && c.Two && !c.App {
		ip = forwardedFor
	}
	user := ""
	if d, _, ok := matchTable(c, q.Method, q.Path, ""); ok && d.chain == "auth" && q.Auth {
		user = "alice"
	}
	return "|ip:" + ip + "|user:" + user
}

// field indexes of router.Context (declaration order) for the retained-object observation
func retainedMask(c *router.Context) int {
	v := reflect.ValueOf(c).Elem()
	t := v.Type()
	mask := 0
	for i := 0; i < v.NumField(); i++ {
		f := v.Field(i)
		clean := f.IsZero()
		switch t.Field(i).Name {
		case "index":
			clean = f.Int() == -1
		case "Params":
			clean = f.Len() == 0
		}
		if !clean && i < 30 {
			mask |= 1 << i
		}
	}
	return mask
}

func drainPool() {
	runtime.GC()
	runtime.GC()
}

// ---------------------------------------------------------------- kind N: concurrent content negotiation

type negSet struct{ accept, charset, encoding, language string }

var negSets = []negSet{
	{"application/json", "utf-8", "gzip", "en"},
	{"text/html, application/json;q=0.8", "iso-8859-1;q=0.9, utf-8;q=0.1", "br;q=0.9, gzip;q=0.2", "de, en;q=0.7"},
	{"text/plain;q=0.5, text/html", "iso-8859-1", "identity;q=0.5, zstd;q=0.7", "fr;q=0.9, de;q=0.1"},
	{"*/*;q=0.1, text/plain", "utf-8;q=0.3, iso-8859-1;q=0.4", "gzip;q=0.1, identity;q=0.9", "en;q=0.2, fr;q=0.8"},
	{"application/xml", "us-ascii", "deflate", "es"},
	{"text/html;q=0.2, application/json;q=0.9", "utf-8;q=0.9, iso-8859-1;q=0.8", "br", "fr"},
	{"text/*", "*;q=0.1, iso-8859-1", "gzip;q=0, br;q=0.3, identity;q=0.2", "de;q=0.3, en;q=0.4, fr;q=0.5"},
	{"application/json;q=0.1, text/plain;q=0.9", "iso-8859-1;q=0.2, utf-8", "identity", "en-US, en;q=0.9"},
}

var negOffers = struct{ media, charset, encoding, language []string }{
	[]string{"application/json", "text/html", "text/plain"}, []string{"utf-8", "iso-8859-1"}, []string{"gzip", "br", "identity"}, []string{"en", "de", "fr"}}

func negRequest(i int) *http.Request {
	st := negSets[i%len(negSets)]
	req := httptest.NewRequest("GET", "http://h.test/neg", nil)
	req.Header.Set("Accept", st.accept)
	req.Header.Set("Accept-Charset", st.charset)
	req.Header.Set("Accept-Encoding", st.encoding)
	req.Header.Set("Accept-Language", st.language)
	req.Header.Set("X-Set", fmt.Sprint(i%len(negSets)))
	return req
}

// one round of the helpers; withAccepts: also the media-type helper (which pins an arena to the context)
func negRound(c *router.Context, withAccepts bool) string {
	out := c.AcceptsEncodings(negOffers.encoding...) + "|" + c.AcceptsLanguages(negOffers.language...) + "|" + c.AcceptsCharsets(negOffers.charset...)
	if withAccepts {
		out += "|" + c.Accepts(negOffers.media...)
	}
	return out
}

func runNegotiation(id string, cs Case) string {
	// expectations: a fresh sequential call on a brand-new context per header set
	expect := make([][2]string, len(negSets))
	for i := range negSets {
		expect[i][0] = negRound(router.NewContext(httptest.NewRecorder(), negRequest(i)), false)
		expect[i][1] = negRound(router.NewContext(httptest.NewRecorder(), negRequest(i)), true)
	}
	var served, bad atomic.Int64
	var first atomic.Value
	r := router.MustNew()
	r.GET("/neg", func(c *router.Context) {
		var set int
		_, _ = fmt.Sscanf(c.Request.Header.Get("X-Set"), "%d", &set)
		for k := 0; k < cs.Iter; k++ {
			// the first rounds without Accepts(): a context that has called it keeps its own arena
			with := k >= cs.Iter/2
			w := 0
			if with {
				w = 1
			}
			if got := negRound(c, with); got != expect[set][w] {
				if bad.Add(1) == 1 {
					first.Store(fmt.Sprintf("header set %d negotiated %q, a sequential call on a fresh context gives %q", set, got, expect[set][w]))
				}
			}
		}
		served.Add(1)
		progress.Add(1)
		c.Response.WriteHeader(200)
	})
	runtime.GOMAXPROCS(4)
	drainPool()
	var wg sync.WaitGroup
	deadline := time.Now().Add(time.Duration(cs.Millis) * time.Millisecond)
	var pmu sync.Mutex
	panicked := false
	for g := 0; g < cs.G; g++ {
		wg.Add(1)
		go func(g int) {
			defer wg.Done()
			defer func() {
				if rec := recover(); rec != nil {
					pmu.Lock()
					panicked = true
					pmu.Unlock()
				}
			}()
			for i := g; time.Now().Before(deadline); i += cs.G {
				r.ServeHTTP(httptest.NewRecorder(), negRequest(i))
			}
		}(g)
	}
	wg.Wait()
	l := hx.NewLine(id)
	l.Tok("N").Nat(cs.G).Nat(cs.Iter).Sep()
	if panicked {
		l.Tok("P")
		return l.String() + hx.Comment(cs)
	}
	l.I64(served.Load()).I64(bad.Load())
	if f, ok := first.Load().(string); ok {
		cs.Detail = f
	}
	return l.String() + hx.Comment(cs)
}

// historyTimeout bounds one history: a request that never completes is an observation (T), not a hang.
const historyTimeout = 20 * time.Second

func runCase(id string, cs Case) string {
	done := make(chan string, 1)
	go func() {
		defer func() {
			if r := recover(); r != nil {
				l := hx.NewLine(id)
				l.Tok("H").Nat(0).Nat(0).Sep().Tok("P")
				done <- l.String() + hx.Comment(cs)
			}
		}()
		if cs.Kind == "N" {
			done <- runNegotiation(id, cs)
		} else {
			done <- runHistory(id, cs)
		}
	}()
	// a history is stuck when no handler was entered and no request completed for a whole historyTimeout window; a
	// history that keeps making progress on an overloaded machine gets up to six windows and is then discarded
	// (counted, no verdict): slowness is not an observation
	last := progress.Load()
	for w := 0; ; w++ {
		select {
		case line := <-done:
			return line
		case <-time.After(historyTimeout):
		}
		now := progress.Load()
		if now != last && w < 5 {
			last = now
			continue
		}
		mu = sync.Mutex{} // the stuck goroutines are abandoned; the next history builds its own router
		if now != last {
			slowDiscards.Add(1)
			return ""
		}
		l := hx.NewLine(id)
		l.Tok("H").Nat(0).Nat(0).Sep().Tok("T")
		return l.String() + hx.Comment(cs)
	}
}

var routingLookups atomic.Int64 // lookups recomputed by the routing model in the driver

var (
	progress     atomic.Int64 // bumped whenever a handler is entered or a request completes
	slowDiscards atomic.Int64
)

func runHistory(id string, cs Case) string {
	hA, hB := build(cs.C)
	pick := func(i int) http.Handler {
		if i < len(cs.H) && cs.H[i].Alt {
			return hB
		}
		return hA
	}
	mu.Lock()
	views = map[int]*probeView{}
	kept = nil
	keptStrs = nil
	broken = false
	curHandler = pick
	curCase = &cs
	mu.Unlock()
	if cs.Conc > 0 {
		runtime.GOMAXPROCS(cs.Conc)
	} else {
		runtime.GOMAXPROCS(1) // one P: sync.Pool hands the object just released to the next request
	}
	drainPool()
	var pmu sync.Mutex
	panicked := false
	serve := func(i int) {
		defer func() {
			if r := recover(); r != nil {
				if _, ok := r.(probePanic); ok && cs.H[i].Panic {
					return // the probe handler's own panic, no recovery middleware: expected
				}
				if _, ok := r.(recPanic); ok {
					return // the harness's recorder panicked in its end callback: expected
				}
				pmu.Lock()
				panicked = true
				pmu.Unlock()
			}
		}()
		rec := httptest.NewRecorder()
		defer func() {
			mu.Lock()
			if v := views[i]; !markersOK(rec.Body.String(), i, v != nil) && v != nil {
				v.unstable = true // what this request's handler wrote did not (only) arrive at this request's client
			}
			mu.Unlock()
		}()
		serveReq(pick(i), rec, cs.H[i], i)
		progress.Add(1)
		mu.Lock()
		v := views[i]
		mu.Unlock()
		if v != nil && cs.Conc == 0 {
			v.retained = retainedMask(v.ctx) // after release: sequential runs only (another goroutine may own it otherwise)
		}
	}
	_ = serve
	if cs.Conc > 0 {
		var wg sync.WaitGroup
		ch := make(chan int)
		for g := 0; g < cs.Conc; g++ {
			wg.Add(1)
			go func() {
				defer wg.Done()
				for i := range ch {
					serve(i)
				}
			}()
		}
		for i := range cs.H {
			if !cs.H[i].Inner {
				ch <- i
			}
		}
		close(ch)
		wg.Wait()
	} else {
		for i := range cs.H {
			if !cs.H[i].Inner {
				serve(i)
			}
		}
	}
	mu.Lock()
	if broken {
		panicked = true // a handler ran on a context whose Request another request had already cleared
	}
	for _, k := range keptStrs {
		if v := views[k.idx]; k.got != k.clone && v != nil {
			v.unstable = true // a parameter string handed to request k.idx changed afterwards
		}
	}
	for _, k := range kept {
		same := len(k.list) == len(k.copy)
		for i := 0; same && i < len(k.list); i++ {
			same = k.list[i] == k.copy[i]
		}
		if v := views[k.idx]; !same && v != nil {
			v.unstable = true // the error list handed to request k.idx changed under it: it shows another request's errors
		}
	}
	mu.Unlock()
	// reference for the Accept helpers: the same request on a brand-new context
	l := hx.NewLine(id)
	l.Tok("H")
	type out struct {
		v     *probeView
		steps []step
		q     Req
		idx   int
	}
	var outs []out
	for i, q := range cs.H {
		_, steps, runs := predictSteps(cs.C, q, i)
		v := views[i]
		if !runs && v == nil {
			continue
		}
		if v == nil {
			v = &probeView{hid: -1} // predicted a handler, none ran: shows up as a mismatch
		}
		outs = append(outs, out{v, steps, q, i})
	}
	objs := map[uintptr]int{}
	l.Nat(len(outs))
	for _, o := range outs {
		if _, ok := objs[o.v.obj]; !ok {
			objs[o.v.obj] = len(objs)
		}
		if cs.Conc > 0 {
			l.Nat(1000 + o.idx) // concurrent: which object a request got is not part of the case; every view must be fresh anyway
		} else {
			l.Nat(objs[o.v.obj])
		}
		l.Nat(len(o.steps))
		for _, s := range o.steps {
			switch s.kind {
			case "Q", "P", "H", "R":
				l.Tok(s.kind).Nat(s.n)
			case "I":
				l.Tok("I").I64(int64(s.n))
			case "Z":
				l.Tok("Z")
			case "V", "T":
				l.Tok(s.kind).Str(s.a)
			case "W":
				l.Tok("W").Str(s.a).Str(s.b)
			}
		}
		ds := o.q.Dirty
		l.Nat(len(ds) + 1)
		for _, d := range ds {
			switch d.Kind {
			case "E":
				l.Tok("E").Nat(d.N)
			case "A":
				l.Tok("A")
			case "M":
				l.Tok("M").Str(d.K).Str(d.V)
			case "S":
				l.Tok("S").Nat(d.N).Str(d.K).Str(d.V)
			case "C":
				l.Tok("C").I64(int64(d.N))
			case "X":
				l.Tok("X").Str(d.K)
			case "D":
				l.Tok("D")
			case "Y":
				l.Tok("Y").Str(d.K).Str(d.V)
			}
		}
		if o.q.Panic && !recovered(cs.C, o.q) {
			l.Tok("P")
		} else {
			l.Tok("N").I64(1) // the chain ran: index advanced
		}
		ref := router.NewContext(httptest.NewRecorder(), newRequest(o.q, o.idx))
		refAcc := acceptResults(ref) + expectedExtras(cs.C, o.q)
		if cs.C.App {
			params := map[string]string{}
			for _, st := range o.steps {
				if st.kind == "W" {
					params[st.a] = st.b
				}
			}
			refAcc += "|bind:" + expectedBind(o.q, params)
		}
		if os.Getenv("VERIF_DEBUG") != "" && refAcc != o.v.acc {
			fmt.Fprintf(os.Stderr, "DEBUG %s req %d (%s %s fail=%v reset=%v nested=%d share=%v inner=%v):\n  impl %q\n  ref  %q\n  unstable=%v shared=%v\n", id, o.idx, o.q.Method, o.q.Path, o.q.Fail, o.q.ResetB, o.q.Nested, o.q.NestShare, o.q.Inner, o.v.acc, refAcc, o.v.unstable, o.v.shared)
		} else if os.Getenv("VERIF_DEBUG") != "" && (o.v.unstable || o.v.shared) {
			fmt.Fprintf(os.Stderr, "DEBUG %s req %d unstable=%v shared=%v nested=%d share=%v inner=%v panic=%v\n", id, o.idx, o.v.unstable, o.v.shared, o.q.Nested, o.q.NestShare, o.q.Inner, o.q.Panic)
		}
		l.Str(refAcc)
		l.Str(o.q.Accept)
	}
	l.Strs(probeNames)
	// the registered routes and, for every request whose parameters come from a radix-tree lookup (main tree or a
	// version tree), the lookup itself: the driver recomputes the parameter writes with the routing model
	// (Model/Radix, the model C01's theorems are about) and compares them with the steps predicted above
	var act []routeDef
	for _, d := range table {
		if active(d, cs.C) {
			act = append(act, d)
		}
	}
	l.Nat(len(act))
	for _, d := range act {
		l.Str(d.method).Str(d.ver).Str(d.pattern).Str(d.intParam)
	}
	type lk struct {
		out         int
		method, ver string
		path        string
	}
	var lks []lk
	for k, o := range outs {
		path, _, _ := predictSteps(cs.C, o.q, o.idx)
		switch path {
		case "mainTreeTail":
			lks = append(lks, lk{k, o.q.Method, "", o.q.Path})
		case "versionedRequest.tail":
			ver := detect(o.q)
			if !hasTree(cs.C, o.q.Method, ver) {
				ver = defaultVersion
			}
			lks = append(lks, lk{k, o.q.Method, ver, o.q.Path})
		}
	}
	routingLookups.Add(int64(len(lks)))
	l.Nat(len(lks))
	for _, x := range lks {
		l.Nat(x.out).Str(x.method).Str(x.ver).Str(x.path)
	}
	l.Sep()
	if panicked {
		l.Tok("P")
		return l.String() + hx.Comment(cs)
	}
	l.Nat(len(outs))
	kvs := func(x []kv) {
		l.Nat(len(x))
		for _, e := range x {
			l.Str(e.K).Str(e.V)
		}
	}
	for _, o := range outs {
		v := o.v
		l.I64(int64(v.paramCount))
		kvs(v.all)
		kvs(v.mapE)
		l.Str(v.version).Str(v.pattern).Bool(v.aborted).Nat(v.nerrors).Str(v.acc).Nat(v.presence)
		kvs(v.params)
		if o.q.Panic || o.q.Nested > 0 || o.q.Inner {
			l.Nat(0) // dropped un-reset by the panic / inspected while another request may hold it: no observation
		} else {
			l.Nat(v.retained)
		}
		l.Bool(!v.unstable).Bool(v.shared)
	}
	return l.String() + hx.Comment(cs)
}

// ---------------------------------------------------------------- generator

var vals = []string{"1", "42", "abc", "a-b", "007", "x_y", "Z9"}
var accepts = []string{"", "", "application/json", "text/html, application/json;q=0.8", "*/*;q=0.1, text/plain", "text/*"}

func v(r *hx.Rand) string { return hx.Pick(r, vals) }

func tenPath(r *hx.Rand, prefix string, n int) string {
	p := prefix
	for i := 0; i < n; i++ {
		p += "/" + v(r)
	}
	return p
}

func genDirty(r *hx.Rand) []Dirty {
	var ds []Dirty
	n := r.Intn(6)
	for i := 0; i < n; i++ {
		switch r.Intn(7) {
		case 0:
			ds = append(ds, Dirty{Kind: "E", N: r.Range(1, 5)})
		case 1:
			ds = append(ds, Dirty{Kind: "A"})
		case 2:
			ds = append(ds, Dirty{Kind: "M", K: hx.Pick(r, []string{"stale", "id", "p9", "zz"}), V: "leak-" + v(r)})
		case 3:
			ds = append(ds, Dirty{Kind: "S", N: r.Intn(10), K: hx.Pick(r, []string{"stale", "id", "x", "zz"}), V: "leak-" + v(r)})
		case 4:
			ds = append(ds, Dirty{Kind: "C", N: r.Intn(9)})
		default:
			ds = append(ds, Dirty{Kind: "X", K: hx.Pick(r, accepts[2:])})
		}
	}
	if r.Chance(1, 6) {
		ds = append(ds, Dirty{Kind: "Y", K: hx.Pick(r, []string{"stale", "id", "zz"}), V: "leak-" + v(r)})
	}
	if r.Chance(1, 10) {
		ds = append(ds, Dirty{Kind: "D"})
	}
	return ds
}

func genReq(r *hx.Rand, c Cfg) Req {
	ver := hx.Pick(r, []string{"", "v1", "v2", "v0", "v9"})
	type g struct {
		class, method, path string
	}
	gs := []g{
		{"static", "GET", hx.Pick(r, []string{"/", "/s/a"})},
		{"param", "GET", hx.Pick(r, []string{"/d/" + v(r), "/d/" + v(r) + "/e/" + v(r), "/c/12"})},
		{"ten-params", "GET", tenPath(r, "/p", 10)},
		{"wild", "GET", "/w/" + v(r) + "/" + v(r)},
		{"tree-static", "GET", "/star*"},
		{"post", "POST", "/only/post"},
		{"405", hx.Pick(r, []string{"GET", "PUT"}), "/only/post"},
		{"405-ten-params", hx.Pick(r, []string{"POST", "PUT", "DELETE"}), tenPath(r, "/p", 10)},
		{"404", hx.Pick(r, []string{"GET", "POST", "DELETE"}), hx.Pick(r, []string{"/nope", "/d", "/c/abc", tenPath(r, "/p", 9)})},
		{"k03a", "GET", tenPath(r, "/m/s", 9) + "/zz"},
		{"catchall-vs-param", "GET", "/f/" + v(r) + hx.Pick(r, []string{"/meta", "/raw", "", "/rev/" + v(r) + "/diff", "/rev/" + v(r) + "/blame", "/rev"})},
		{"non-origin-target", hx.Pick(r, []string{"OPTIONS", "GET"}), hx.Pick(r, []string{"*", "relative", "host.example:443"})},
		{"basicauth", "GET", "/ba/" + v(r)},
		{"sibling-names", "GET", hx.Pick(r, []string{"/r/acme/settings", "/r/12/settings", "/r/acme/" + v(r), "/r/7/" + v(r)})},
		// parameter values with control characters (a decoded %0A): whatever the framework does with them, a string it
		// handed out must not change afterwards
		{"ctl-param", "GET", hx.Pick(r, []string{"/d/ali\nce", "/d/bob\tby", "/d/a\nb/e/c\rd", "/w/x\ny/z"})},
		{"ver-static", "GET", "/vs"},
		{"ver-only-method", "PUT", hx.Pick(r, []string{"/vput", "/vput/" + v(r), "/vput/" + v(r) + "/x", "/vs"})},
		{"ver-param", "GET", "/vd/" + v(r)},
		{"ver-nine", "GET", tenPath(r, "/vq", 9)},
		{"ver-miss", "GET", hx.Pick(r, []string{"/vmiss", "/vd/" + v(r) + "/more"})},
	}
	x := hx.Pick(r, gs)
	q := Req{Method: x.method, Path: x.path, Ver: ver, Accept: hx.Pick(r, accepts), Dirty: genDirty(r), Class: x.class}
	q.Auth = x.class == "basicauth" && r.Chance(2, 3)
	q.Alt = c.Two && r.Chance(1, 2)
	if c.App && r.Chance(2, 3) {
		q.Body = hx.Pick(r, []string{`{"a":1,"b":"x"}`, `{"a":2,"b":"y"}`, `{"a":9,"b":"z"}`, `{"a":2}`, `{"b":"y","c":{"d":1}}`,
			`{"email":"not-an-email","plan":"platinum"}`, `{"email":"bob@example.com"}`, `{"plan":"pro","email":"x"}`})
		q.Bind2 = hx.Pick(r, []string{"", "", "P", "T", "T"})
	}
	if c.App {
		// error-format negotiation: Accept lists over the configured formatters, some spread over two field lines
		if r.Chance(1, 3) {
			q.Accept = hx.Pick(r, errAccepts)
			if r.Chance(1, 2) {
				q.Accept2 = hx.Pick(r, errAccepts)
			}
		}
		// selectFormatter offers the media types in map order: with a tie (or without an Accept header) the format is
		// picked at random on the unchanged tree — only tie-free headers make the format a function of the request
		q.Fail = r.Chance(1, 2) && tieFree(q.Accept, q.Accept2)
		q.ResetB = r.Chance(1, 4)
		if q.Fail {
			q.Dirty = append(q.Dirty, Dirty{Kind: "A"}) // Fail aborts the chain
		}
	}
	return q
}

// tieFree: only exact media types of the three formatters (no wildcards), and the best quality is reached by one of
// them alone (or by none)
func tieFree(a1, a2 string) bool {
	h := a1
	if a2 != "" {
		h += ", " + a2
	}
	if h == "" || strings.Contains(h, "*") {
		return false
	}
	q := map[string]float64{}
	for _, part := range strings.Split(h, ",") {
		f := strings.Split(strings.TrimSpace(part), ";")
		v := 1.0
		for _, p := range f[1:] {
			if strings.HasPrefix(strings.TrimSpace(p), "q=") {
				v, _ = strconv.ParseFloat(strings.TrimSpace(p)[2:], 64)
			}
		}
		if old, ok := q[f[0]]; !ok || v > old {
			q[f[0]] = v
		}
		if ok := q[f[0]]; ok != v {
			return false // the same type twice with different qualities: which one counts is not this property's business
		}
	}
	best, n := 0.0, 0
	for _, t := range []string{"application/problem+json", "application/vnd.api+json", "application/json"} {
		if q[t] > best {
			best, n = q[t], 1
		} else if q[t] == best && best > 0 {
			n++
		}
	}
	return n <= 1
}

var errAccepts = []string{"application/problem+json;q=0.1", "application/vnd.api+json", "application/json;q=0.5", "application/problem+json",
	"application/vnd.api+json;q=0.2, application/json", "text/html"}

// nontrivial: the previous request on the same pooled object dirtied a field the current serve path does not assign
func nontrivial(cs Case, objOf map[int]int) bool {
	last := map[int]int{}
	nt := false
	for i := range cs.H {
		o, ok := objOf[i]
		if !ok {
			continue
		}
		if j, seen := last[o]; seen && len(cs.H[j].Dirty) > 0 {
			nt = true
		}
		last[o] = i
	}
	return nt
}

func witnesses() []Case {
	d := []Dirty{{Kind: "E", N: 3}, {Kind: "A"}, {Kind: "M", K: "stale", V: "leak"}, {Kind: "X", K: "text/html"}, {Kind: "S", N: 5, K: "zz", V: "leak"}, {Kind: "C", N: 8}}
	return []Case{
		{C: Cfg{}, H: []Req{
			{Method: "GET", Path: "/p/1/2/3/4/5/6/7/8/9/10", Accept: "text/html", Dirty: d, Class: "ten-params"},
			{Method: "GET", Path: "/s/a", Accept: "text/html", Class: "static"},
			{Method: "GET", Path: "/d/7", Class: "param"},
		}},
		{C: Cfg{Compiled: true, Versioning: true, NoRoute: true}, H: []Req{
			{Method: "GET", Path: "/vq/1/2/3/4/5/6/7/8/9", Ver: "v1", Dirty: d, Class: "ver-nine"},
			{Method: "GET", Path: "/nope", Class: "404"},
			{Method: "GET", Path: "/vs", Ver: "v2", Class: "ver-static"},
			{Method: "GET", Path: "/d/7", Class: "param"},
		}},
		// K03a: a failed compiled candidate leaves :i in the Params map of the same request
		{C: Cfg{Compiled: true}, H: []Req{
			{Method: "GET", Path: "/m/s/1/2/3/4/5/6/7/8/9/zz", Class: "k03a"},
			{Method: "GET", Path: "/s/a", Class: "static"},
		}},
		// overlap after a sunset answer through the version tree (a double put would hand both requests one object)
		{C: Cfg{Versioning: true}, H: []Req{
			{Method: "GET", Path: "/vd/7", Ver: "v0", Class: "ver-param"},
			{Method: "GET", Path: "/d/1", Nested: 2, Dirty: d, Class: "param"},
			{Method: "GET", Path: "/d/2/e/3", Inner: true, Dirty: d, Class: "param"},
			{Method: "GET", Path: "/s/a", Class: "static"},
		}},
		// a handler that aborts, collects errors and panics out of ServeHTTP; the next request must be unaffected
		{C: Cfg{}, H: []Req{
			{Method: "GET", Path: "/d/1", Dirty: d, Panic: true, Class: "param"},
			{Method: "GET", Path: "/s/a", Class: "static"},
			{Method: "GET", Path: "/d/2", Class: "param"},
		}},
		// 405 probe over a 10-parameter route of another method, then a short route on the same object
		{C: Cfg{}, H: []Req{
			{Method: "PUT", Path: "/p/1/2/3/4/5/6/7/8/9/10", Class: "405-ten-params"},
			{Method: "GET", Path: "/d/7", Class: "param"},
			{Method: "GET", Path: "/s/a", Class: "static"},
		}},
		// app: a before-handler binds and returns, another request binds in between, the main handler binds again
		{C: Cfg{App: true}, H: []Req{
			{Method: "GET", Path: "/d/7", Body: `{"a":1,"b":"x"}`, Nested: 1, Class: "param"},
			{Method: "GET", Path: "/d/8", Body: `{"a":9,"b":"z"}`, Inner: true, Class: "param"},
			{Method: "GET", Path: "/s/a", Body: `{"a":2,"b":"y"}`, Class: "static"},
		}},
		// app: a Bind with an explicit presence map, then a partial Bind of another request (its own body decides)
		{C: Cfg{App: true}, H: []Req{
			{Method: "GET", Path: "/d/1", Body: `{"plan":"pro","email":"x"}`, Bind2: "P", Class: "param"},
			{Method: "GET", Path: "/d/2", Body: `{"email":"not-an-email","plan":"platinum"}`, Bind2: "T", Class: "param"},
			{Method: "GET", Path: "/s/a", Body: `{"email":"bob@example.com"}`, Bind2: "T", Class: "static"},
		}},
		{C: Cfg{}, H: []Req{
			{Method: "GET", Path: "/f/7/raw", Class: "catchall-vs-param"},
			{Method: "GET", Path: "/f/7/meta", Class: "catchall-vs-param"},
			{Method: "GET", Path: "/f/7/rev/3/blame", Class: "catchall-vs-param"},
			{Method: "GET", Path: "/s/a", Class: "static"},
		}},
		// round 6: a stream to a dying connection (whatever was registered on the request context runs after ServeHTTP
		// returned), a recorder whose end callback panics followed by overlapping requests, parameter strings with control
		// characters kept past the request, a handler that edits the map AllParams() returned
		{C: Cfg{}, H: []Req{
			{Method: "GET", Path: "/d/1", Dirty: []Dirty{{Kind: "D"}}, Class: "param"},
			{Method: "GET", Path: "/s/a", Class: "static"},
			{Method: "GET", Path: "/d/2", Class: "param"},
		}},
		{C: Cfg{Compiled: true, Versioning: true, Rec: true}, H: []Req{
			{Method: "GET", Path: "/d/bob", RecPanic: true, Class: "param"},
			{Method: "GET", Path: "/vs", Ver: "v1", RecPanic: true, Class: "ver-static"},
			{Method: "GET", Path: "/d/alice", Nested: 3, Class: "param"},
			{Method: "GET", Path: "/d/carol", Inner: true, Class: "param"},
			{Method: "GET", Path: "/s/a", Nested: 5, Class: "static"},
			{Method: "GET", Path: "/d/dave", Inner: true, Class: "param"},
		}},
		{C: Cfg{}, H: []Req{
			{Method: "GET", Path: "/d/ali\nce", Class: "ctl-param"},
			{Method: "GET", Path: "/d/bob\tby", Class: "ctl-param"},
			{Method: "GET", Path: "/d/a\nb/e/c\rd", Class: "ctl-param"},
		}},
		{C: Cfg{}, H: []Req{
			{Method: "GET", Path: "/s/a", Dirty: []Dirty{{Kind: "Y", K: "stale", V: "leak"}}, Class: "static"},
			{Method: "GET", Path: "/", Class: "static"},
			{Method: "GET", Path: "/d/7", Dirty: []Dirty{{Kind: "Y", K: "zz", V: "leak"}}, Class: "param"},
			{Method: "GET", Path: "/s/a", Class: "static"},
		}},
		{C: Cfg{}, H: []Req{
			{Method: "GET", Path: "/r/acme/settings", Class: "sibling-names"},
			{Method: "GET", Path: "/r/12/settings", Class: "sibling-names"},
			{Method: "GET", Path: "/r/acme/settings", Class: "sibling-names"},
		}},
		// two routers on the one pool: the second trusts the peer as a proxy; a context that keeps the other router's
		// pointer answers ClientIP() with the other router's configuration
		{C: Cfg{Versioning: true, Two: true}, H: []Req{
			{Method: "GET", Path: "/s/a", Alt: true, Class: "static"},
			{Method: "GET", Path: "/vs", Ver: "v1", Class: "ver-static"},
			{Method: "GET", Path: "/vd/7", Ver: "v2", Alt: true, Class: "ver-param"},
			{Method: "GET", Path: "/vs", Ver: "v2", Class: "ver-static"},
			{Method: "GET", Path: "/d/1", Class: "param"},
		}},
		// (the versioned static path borrows a second context while it still holds the lookup context: both objects
		// must have been with the other router before)
		{C: Cfg{Versioning: true, Two: true}, H: []Req{
			{Method: "GET", Path: "/vs", Ver: "v1", Alt: true, Class: "ver-static"},
			{Method: "GET", Path: "/vs", Ver: "v1", Class: "ver-static"},
			{Method: "GET", Path: "/vs", Ver: "v2", Alt: true, Class: "ver-static"},
			{Method: "GET", Path: "/vs", Ver: "v2", Class: "ver-static"},
		}},
		{C: Cfg{Compiled: true, Versioning: true, Two: true}, H: []Req{
			{Method: "GET", Path: "/vs", Ver: "v1", Alt: true, Class: "ver-static"},
			{Method: "GET", Path: "/vs", Ver: "v1", Class: "ver-static"},
			{Method: "GET", Path: "/vd/3", Ver: "v1", Alt: true, Class: "ver-param"},
			{Method: "GET", Path: "/vd/4", Ver: "v1", Class: "ver-param"},
		}},
		{C: Cfg{Versioning: true, Two: true}, H: []Req{
			{Method: "GET", Path: "/d/1", Alt: true, Class: "param"},
			{Method: "PUT", Path: "/vput", Ver: "v1", Class: "ver-only-method"},
			{Method: "PUT", Path: "/vput/9", Ver: "v1", Alt: true, Class: "ver-only-method"},
			{Method: "PUT", Path: "/vput", Class: "ver-only-method"},
		}},
		{C: Cfg{Compiled: true, Versioning: true, NoRoute: true, Two: true}, H: []Req{
			{Method: "GET", Path: "/d/1", Alt: true, Class: "param"},
			{Method: "GET", Path: "/vs", Ver: "v1", Class: "ver-static"},
			{Method: "GET", Path: "/nope", Alt: true, Class: "404"},
			{Method: "GET", Path: "/s/a", Class: "static"},
		}},
		// an authenticated request whose handler panics (recovered inside the chain), then an anonymous request
		{C: Cfg{}, H: []Req{
			{Method: "GET", Path: "/ba/1", Auth: true, Panic: true, Dirty: d, Class: "basicauth"},
			{Method: "GET", Path: "/s/a", Class: "static"},
			{Method: "GET", Path: "/ba/2", Auth: true, Class: "basicauth"},
			{Method: "GET", Path: "/ba/3", Class: "basicauth"},
			{Method: "GET", Path: "/d/2", Class: "param"},
		}},
		// the error list a request was handed must not change when later requests collect errors on the same object
		{C: Cfg{}, H: []Req{
			{Method: "GET", Path: "/d/1", Dirty: []Dirty{{Kind: "E", N: 2}}, Class: "param"},
			{Method: "GET", Path: "/d/2", Dirty: []Dirty{{Kind: "E", N: 3}}, Class: "param"},
			{Method: "GET", Path: "/s/a", Dirty: []Dirty{{Kind: "E", N: 1}}, Class: "static"},
		}},
		// app: path parameters bound into a struct, ResetBinding without a second bind, then a route without that parameter
		{C: Cfg{App: true}, H: []Req{
			{Method: "GET", Path: "/d/secret-42", ResetB: true, Class: "param"},
			{Method: "GET", Path: "/c/12", Class: "param"},
			{Method: "GET", Path: "/s/a", ResetB: true, Class: "static"},
			{Method: "GET", Path: "/w/a/b", Class: "wild"},
		}},
		// app: error format negotiated per request; a later request whose Accept header is spread over two field lines
		{C: Cfg{App: true}, H: []Req{
			{Method: "GET", Path: "/s/a", Accept: "application/problem+json;q=0.1", Fail: true, Dirty: []Dirty{{Kind: "A"}}, Class: "static"},
			{Method: "GET", Path: "/s/a", Accept: "application/problem+json;q=0.1", Accept2: "application/vnd.api+json", Fail: true, Dirty: []Dirty{{Kind: "A"}}, Class: "static"},
			{Method: "GET", Path: "/d/7", Accept: "application/json;q=0.5", Accept2: "application/problem+json;q=0.1", Fail: true, Dirty: []Dirty{{Kind: "A"}}, Class: "param"},
		}},
		// app with observability: a request served from inside a handler through that handler's (already wrapped) writer,
		// then overlapping requests with writers of their own: every response must arrive at its own client
		{C: Cfg{App: true, Obs: true}, H: []Req{
			{Method: "GET", Path: "/s/a", Nested: 1, NestShare: true, Class: "static"},
			{Method: "GET", Path: "/d/1", Inner: true, Class: "param"},
			{Method: "GET", Path: "/d/2", Nested: 3, Class: "param"},
			{Method: "GET", Path: "/d/3", Inner: true, Class: "param"},
			{Method: "GET", Path: "/s/a", Nested: 5, Class: "static"},
			{Method: "GET", Path: "/d/4", Inner: true, Class: "param"},
			{Method: "GET", Path: "/s/a", Class: "static"},
		}},
		{C: Cfg{App: true, Versioning: true}, H: []Req{
			{Method: "GET", Path: "/d/7", Body: `{"a":1,"b":"x"}`, Dirty: d, Class: "param"},
			{Method: "GET", Path: "/s/a", Class: "static"},
			{Method: "GET", Path: "/vd/3", Ver: "v2", Body: `{"a":2}`, Class: "ver-param"},
		}},
	}
}

func main() {
	slog.SetDefault(slog.New(slog.NewTextHandler(io.Discard, nil)))
	a := hx.ParseArgs()
	w := hx.Out()
	defer w.Flush()
	switch a.Cmd {
	case "replay":
		for _, line := range hx.StdinLines() {
			var cs Case
			id, err := hx.CaseFromComment(line, &cs)
			if err != nil {
				fmt.Fprintln(os.Stderr, "replay:", err)
				os.Exit(1)
			}
			if line := runCase(id, cs); line != "" {
				fmt.Fprintln(w, line)
			}
		}
	case "gen":
		st := hx.NewStats()
		r := hx.NewRand(hx.NewRand(a.Seed).U64())
		emit := func(id string, cs Case) {
			line := runCase(id, cs)
			if line == "" {
				return // discarded: too slow on this machine (counted below)
			}
			fmt.Fprintln(w, line)
			objOf := map[int]int{}
			objs := map[uintptr]int{}
			reused := 0
			for i := range cs.H {
				if vw := views[i]; vw != nil {
					if _, ok := objs[vw.obj]; !ok {
						objs[vw.obj] = len(objs)
					} else {
						reused++
					}
					objOf[i] = objs[vw.obj]
					if vw.retained&(1<<6|1<<7) != 0 {
						st.Count("retained:stale-param-slots(observation)")
					}
				}
				path, _, _ := predictSteps(cs.C, cs.H[i], i)
				st.Count("path:" + path)
				st.Count("class:" + cs.H[i].Class)
				for _, d := range cs.H[i].Dirty {
					st.Count("dirty:" + d.Kind)
				}
				if cs.H[i].Nested > 0 {
					st.Count("nested(overlapping)-requests")
				}
				if cs.H[i].Panic {
					st.Count("handler-panics-out-of-ServeHTTP")
				}
				if cs.H[i].Fail {
					st.Count("app:Fail(negotiated error format)")
				}
				if cs.H[i].ResetB {
					st.Count("app:ResetBinding")
				}
				if cs.H[i].NestShare {
					st.Count("nested-through-the-outer-writer")
				}
				if cs.H[i].Accept2 != "" {
					st.Count("accept-on-two-field-lines")
				}
				if cs.H[i].Alt {
					st.Count("served-by-the-second-router")
				}
				if cs.H[i].RecPanic {
					st.Count("recorder-end-callback-panics")
				}
			}
			st.Count(fmt.Sprintf("cfg:compiled=%v,versioning=%v,noRoute=%v,app=%v,obs=%v", cs.C.Compiled, cs.C.Versioning, cs.C.NoRoute, cs.C.App, cs.C.Obs))
			st.Counters["requests"] += len(cs.H)
			st.Counters["handler-got-a-reused-object"] += reused
			if cs.Conc > 0 {
				st.Count("concurrent-histories")
			}
			st.Case(fmt.Sprintf("%+v", cs), nontrivial(cs, objOf))
		}
		for i, cs := range witnesses() {
			emit(fmt.Sprintf("c03-w%d", i), cs)
		}
		for i := 0; i < a.N; i++ {
			c := Cfg{Compiled: r.Chance(1, 2), Versioning: r.Chance(2, 3), NoRoute: r.Chance(1, 2), App: r.Chance(1, 4)}
			c.Obs = c.App && r.Chance(1, 2)
			c.Two = !c.App && r.Chance(1, 3)
			c.Rec = !c.App && r.Chance(1, 3)
			n := r.Range(2, 40)
			h := make([]Req, n)
			for j := range h {
				h[j] = genReq(r, c)
			}
			// overlapping requests, deterministically: the handler of request j serves request j+1 before it returns
			for j := 0; j+1 < n; j++ {
				if _, _, runs := predictSteps(c, h[j], j); runs && r.Chance(1, 3) {
					h[j].Nested, h[j+1].Inner = j+1, true
					h[j].NestShare = r.Chance(1, 3) // the nested request writes through this request's writer
					j++
				}
			}
			// the recorder's end callback panics for some requests (after the context went back to the pool)
			for j := range h {
				if c.Rec && r.Chance(1, 6) {
					h[j].RecPanic = true
				}
			}
			// handlers that panic after dirtying the context (no recovery middleware)
			for j := range h {
				if !h[j].Inner && r.Chance(1, 8) {
					h[j].Panic = true
					h[j].Dirty = append(h[j].Dirty, Dirty{Kind: "A"}, Dirty{Kind: "E", N: 2})
				}
			}
			cs := Case{C: c, H: h}
			if a.Tier == "thorough" && i%4 == 3 {
				cs.Conc = 8
			}
			emit(fmt.Sprintf("c03-%d-%d", a.Seed, i), cs)
		}
		nN, ms := 4, 120
		if a.Tier == "thorough" {
			nN, ms = 10, 400
		}
		if a.N < 50 {
			nN = 0
		}
		for k := 0; k < nN; k++ {
			cs := Case{Kind: "N", G: 32, Millis: ms, Iter: r.Range(6, 30)}
			line := runCase(fmt.Sprintf("c03-%d-n%d", a.Seed, k), cs)
			if line == "" {
				continue
			}
			fmt.Fprintln(w, line)
			st.Count("concurrent-negotiation-cases")
			var served int
			if i := strings.Index(line, "=> "); i >= 0 {
				_, _ = fmt.Sscanf(line[i+3:], "%d", &served)
			}
			st.Counters["concurrent-negotiation-requests"] += served
			st.Case(fmt.Sprintf("%+v#%d", cs, k), true)
		}
		st.Counters["tree-lookups-recomputed-by-the-routing-model"] = int(routingLookups.Load())
		if n := slowDiscards.Load(); n > 0 {
			st.Counters["discarded:slow-but-progressing-history(overloaded machine)"] = int(n)
		}
		st.Emit(w)
	}
}
