package main

import (
	"bytes"
	"os"
	"strconv"
	"strings"

	"verif/harness/hx"
)

func sp(s string) *string { return &s }
func ip(i int) *int       { return &i }

// body heads chosen so that http.DetectContentType has something to decide (and so that a split
// inside the head changes what a first-chunk sniffer would see)
var heads = []string{
	"<html><body>hi</body></html>", "<!DOCTYPE HTML><p>", "  \n<html>", "<?xml version=\"1.0\"?><a/>", "%PDF-1.7 ",
	"\x89PNG\r\n\x1a\n....", "GIF89a....", "\xff\xd8\xff\xe0JFIF", "{\"a\":1,\"b\":[true,null]}", "plain text, nothing special ",
	"\xef\xbb\xbfbom text", "\x1f\x8b\x08\x00gzip-looking", "\x00\x01\x02\x03binary", "PK\x03\x04zip", "<body>", "<!-- c --><h1>x</h1>",
	"\xfe\xffutf16", "RIFF\x00\x00\x00\x00WEBPVP", "a", "", "<", "\n",
}

var ctPool = [][]string{
	{"text/plain"}, {"text/plain; charset=utf-8"}, {"application/json"}, {"application/json; charset=utf-8"}, {"text/html"},
	{"image/jpeg"}, {"application/zip"}, {"text/event-stream"}, {"application/grpc+proto"}, {"application/octet-stream"},
	{"TEXT/EVENT-STREAM"}, {"text/csv"}, {"application/x-custom"}, {""}, {}, {"text/css", "text/plain"},
}

var hdrPool = [][2]string{
	{"X-Custom", "v1"}, {"Cache-Control", "no-store"}, {"Location", "/elsewhere"}, {"Vary", "Origin"}, {"Content-Language", "en"},
	{"X-Request-Id", "abc-123"}, {"X-Content-Type-Options", "nosniff"}, {"X-Content-Type-Options", "nosniff"}, {"Etag", "\"v7\""}, {"X-Custom", "v2"}, {"Set-Cookie", "a=b"}, {"Content-Encoding", "x-own"},
}

var codePool = []int{200, 200, 200, 201, 202, 204, 206, 301, 302, 304, 400, 404, 418, 500, 503, 299, 599, 999, 203, 307, 103, 100, 102}

var exclCTPool = [][]string{nil, nil, nil, {"image/jpeg", "application/zip"}, {"text/csv"}, {"JSON"}, {"text/"}, {"application/x-custom", "image/"}}
var pathPool = []string{"/p", "/p", "/p", "/p", "/p", "/p", "/metrics", "/a.png", "/x.gz", "/data.json", "/p.PNG", "/deep/path/file.txt"}

var aeTokens = []string{"gzip", "br", "gzip", "br", "GZip", "BR", "gZIP", "bR", "deflate", "identity", "*", "x-gzip", "brotli", "GZIP", "Br", "gzip2", "compress", "zstd", "bro", "gzi", "br-x", "", "abr", "gzipp"}
var aeQ = []string{"", "", "", ";q=0", ";q=0.0", ";q=0.000", ";Q=0", ";Q=0", "; Q=0.000", ";Q=0.0", " ; Q = 0", ";Q=1", ";Q=0.9", ";q=1", ";q=1.0", ";q=0.5", ";q=0.001", ";q=0.9", ";q=0.25", "; q=0.8", " ;q=0.3", ";Q=0.5",
	";q=1.5", ";q=abc", ";q=", ";q=0.5555", ";q=.5", ";q=-1", ";q=1e-3", ";q=00.5", ";q = 0.3", ";level=9;q=0.5", ";q=0.5;foo=bar", ";q=0;q=1", ";x=q=0", ";q=1.000", ";q=1.001", ";q=0.", ";q=2"}
var aeQSimple = []string{"", "", "", ";q=0", ";q=0.0", ";q=0.000", ";q=1", ";q=1.0", ";q=0.5", ";q=0.001", ";q=0.9", ";q=0.25", "; q=0.8", ";q=abc", ";q=", ";q=1.5", ";level=9;q=0.5"}
var aeSeps = []string{",", ", ", " ,", " , ", ",,", ",\t", ";", " "}

func genAE(r *hx.Rand, simple bool) *string {
	switch r.Intn(12) {
	case 0:
		return nil
	case 1:
		return sp("")
	case 2:
		return sp("gzip")
	case 3:
		return sp("br")
	case 4:
		return sp("gzip, deflate, br")
	}
	n := r.Range(1, 4)
	var b strings.Builder
	for i := 0; i < n; i++ {
		if i > 0 {
			if simple {
				b.WriteString(hx.Pick(r, aeSeps[:4]))
			} else {
				b.WriteString(hx.Pick(r, aeSeps))
			}
		}
		b.WriteString(hx.Pick(r, aeTokens))
		if simple {
			b.WriteString(hx.Pick(r, aeQSimple))
		} else {
			b.WriteString(hx.Pick(r, aeQ))
		}
	}
	return sp(b.String())
}

func filler(r *hx.Rand, idx, n int) []byte {
	if n <= 0 {
		return nil
	}
	return bytes.Repeat([]byte{byte('a' + idx%26)}, n)
}

// interesting sizes around the threshold, the sniff length and net/http's 2048-byte buffer
func genSize(r *hx.Rand, thr int, big bool) int {
	switch r.Intn(10) {
	case 0:
		return 0
	case 1, 2:
		return r.Range(1, 16)
	case 3:
		return max(thr-1, 0)
	case 4:
		return thr
	case 5:
		return thr + 1
	case 6:
		return (thr + 1) / 2
	case 7:
		if big {
			return hx.Pick(r, []int{511, 512, 513, 2047, 2048, 2049, 4096, 5000})
		}
		return r.Range(1, 64)
	default:
		return r.Range(1, 40)
	}
}

func genChunk(r *hx.Rand, idx, thr int, big, first bool) []byte {
	n := genSize(r, thr, big)
	var b []byte
	if first && r.Chance(3, 4) {
		h := hx.Pick(r, heads)
		if r.Chance(1, 3) && len(h) > 1 {
			h = h[:r.Range(1, len(h)-1)] // split inside the magic prefix
		}
		b = append(b, h...)
	} else if r.Chance(1, 6) {
		b = append(b, hx.Pick(r, heads)...)
	}
	if len(b) > n && r.Chance(1, 2) {
		b = b[:n]
	}
	if len(b) < n {
		b = append(b, filler(r, idx, n-len(b))...)
	}
	return b
}

func genCase(r *hx.Rand, tier string) *caseT {
	simple := os.Getenv("C15_MODEL") == "asis"
	k := &caseT{}
	big := r.Chance(1, 7)
	switch r.Intn(10) {
	case 0, 1, 2, 3:
		k.Opt.MinSize = 0
	case 4, 5, 6:
		k.Opt.MinSize = r.Range(1, 40)
	case 7:
		k.Opt.MinSize = hx.Pick(r, []int{1, 2, 10, 100, 511, 512, 513})
	default:
		if big {
			k.Opt.MinSize = hx.Pick(r, []int{1024, 2047, 2048, 2049, 4096, r.Range(65, 4096)})
		} else {
			k.Opt.MinSize = r.Range(1, 200)
		}
	}
	k.Opt.NoGzip = r.Chance(1, 10)
	k.Opt.NoBr = r.Chance(1, 5)
	if r.Chance(1, 3) {
		k.Opt.GzipLevel = ip(hx.Pick(r, []int{-1, 1, 6, 9, 0, -2, 42, -3, 10}))
	}
	if r.Chance(1, 3) {
		k.Opt.BrLevel = ip(hx.Pick(r, []int{0, 1, 4, 5, 6, 9, 11, 15, -3}))
	}
	k.Opt.ExclCT = hx.Pick(r, exclCTPool)
	if r.Chance(1, 5) {
		k.Opt.ExclPaths = []string{"/metrics", "/stream"}
	}
	if r.Chance(1, 5) {
		k.Opt.ExclExts = []string{".png", ".gz"}
	}
	if !simple && r.Chance(1, 2) {
		k.Opt.Seq = deriveSeq(r, k.Opt)
	}
	k.Path = hx.Pick(r, pathPool)
	k.AE = genAE(r, simple)
	if r.Chance(3, 5) { // make sure the middleware is usually active
		k.AE = sp(hx.Pick(r, []string{"gzip", "br", "gzip, br", "br;q=0.9, gzip", "gzip;q=0.5, br;q=0.4", "deflate, gzip;q=1.0, *;q=0.5",
			"gzip", "br", "gzip, br", "GZIP", "Br, gzip;q=0.1",
			// refusals, also spelled with an upper-case weight parameter or a mixed-case coding
			"gzip;Q=0", "br;Q=0, gzip;q=0.5", "br;Q=0, gzip;Q=0", "gzip; Q=0.000, br", "GZip;Q=0", "BR;q=0, GZIP;Q=0.5", "gzip;q=0, br;q=0"}))
	}
	if r.Chance(1, 15) {
		// the client refuses the unencoded response too (alone, or next to codings that are refused / unknown / disabled):
		// the middleware has nothing to offer and must stay out of the way — the answer is the handler's
		k.AE = sp(hx.Pick(r, []string{"identity;q=0", "*;q=0", "zstd, *;q=0", "identity;q=0, *;q=0", "gzip;q=0, identity;q=0",
			"br;q=0, gzip;q=0, *;q=0", "deflate, identity;q=0", "identity;Q=0.000", "compress;q=0.5, identity;q=0", "*;q=0.0, identity;q=0.5",
			"gzip, identity;q=0", "br, identity;q=0", "gzip, br, *;q=0"}))
		if r.Chance(1, 2) {
			k.Opt.NoGzip, k.Opt.NoBr = true, r.Chance(1, 2)
			k.Opt.Seq = nil
		}
	}
	if !simple && r.Chance(1, 9) {
		k.Pre = [][2]string{hx.Pick(r, [][2]string{{"Content-Encoding", "x-pre"}, {"X-Outer", "1"}, {"Vary", "Origin"}, {"Content-Type", "text/x-outer"}, {"Content-Encoding", ""}, {"Cache-Control", "private"}, {"Etag", "\"pre\""}, {"X-Content-Type-Options", "nosniff"}, {"X-Content-Type-Options", "nosniff"}, {"Vary", "Accept-Encoding"}, {"Content-Encoding", "identity"}, {"Vary", "*"}})}
		if r.Chance(1, 3) {
			k.Pre = append(k.Pre, [2]string{"X-Outer-2", "two"})
		}
	}
	thr := k.Opt.MinSize
	nops := r.Range(0, 8)
	idx := 0
	first := true
	chunk := func() []byte {
		c := genChunk(r, idx, thr, big, first)
		idx++
		if len(c) > 0 {
			first = false
		}
		return c
	}
	if r.Chance(1, 8) {
		// http.ServeContent (or a handler-declared Content-Length) produces the whole body: only header
		// operations around it, so that the declared length is the length written
		for i := r.Intn(3); i > 0; i-- {
			if r.Chance(1, 2) {
				k.Prog = append(k.Prog, opT{K: "H", Key: "Content-Type", Vals: hx.Pick(r, ctPool)})
			} else {
				h := hx.Pick(r, hdrPool)
				k.Prog = append(k.Prog, opT{K: "H", Key: h[0], Vals: []string{h[1]}})
			}
		}
		if r.Chance(1, 3) {
			// conditional / range requests answered by http.ServeContent: 206 with Content-Range, 304, 416
			d := chunk()
			if len(d) < 20 {
				d = append(d, []byte("0123456789abcdefghijklmnopqrstuvwxyz")...)
			}
			switch r.Intn(4) {
			case 0:
				k.ReqHdr = [][2]string{{"Range", hx.Pick(r, []string{"bytes=0-9", "bytes=5-", "bytes=-7", "bytes=0-0"})}}
			case 1:
				k.ReqHdr = [][2]string{{"Range", hx.Pick(r, []string{"bytes=999999-", "bytes=x-y", "lines=1-2"})}}
			case 2:
				k.Prog = append(k.Prog, opT{K: "H", Key: "Etag", Vals: []string{"\"v7\""}})
				k.ReqHdr = [][2]string{{"If-None-Match", hx.Pick(r, []string{"\"v7\"", "\"other\"", "*", "W/\"v7\""})}}
			default:
				k.Prog = append(k.Prog, opT{K: "H", Key: "Etag", Vals: []string{"\"v7\""}})
				k.ReqHdr = [][2]string{{"If-Range", "\"v7\""}, {"Range", "bytes=1-3"}}
			}
			k.Head = r.Chance(1, 6)
			k.Prog = append(k.Prog, opT{K: "Sc", S: hx.Pick(r, []string{"f.txt", "f.bin", "noext", "f.html"}), Data: d})
		} else if r.Chance(1, 5) {
			cs := [][]byte{chunk()}
			if len(cs[0]) == 0 {
				cs[0] = []byte("x")
			}
			if r.Chance(1, 2) {
				cs = append(cs, []byte("second chunk"))
			}
			k.Prog = append(k.Prog, opT{K: "Dr", Key: hx.Pick(r, []string{"len", "unknown"}), Code: hx.Pick(r, codePool), S: hx.Pick(r, ctPool[:12])[0], Chunks: cs})
		} else if r.Chance(2, 3) {
			d := chunk()
			if r.Chance(1, 12) { // more than io.Copy's 32 KiB buffer: several writes
				d = append(d, bytes.Repeat([]byte{'z'}, hx.Pick(r, []int{32768, 40000, 70000}))...)
			}
			k.Prog = append(k.Prog, opT{K: "Sc", S: hx.Pick(r, []string{"f.txt", "f.bin", "noext", "f.html", "f.json"}), Data: d})
		} else {
			d := chunk()
			k.Prog = append(k.Prog, opT{K: "H", Key: "Content-Length", Vals: []string{strconv.Itoa(len(d))}})
			if r.Chance(1, 2) {
				k.Prog = append(k.Prog, opT{K: "W", Code: hx.Pick(r, codePool)})
			}
			if r.Chance(1, 2) || len(d) < 2 {
				k.Prog = append(k.Prog, opT{K: "B", Data: d})
			} else {
				m := r.Range(1, len(d)-1)
				k.Prog = append(k.Prog, opT{K: "B", Data: d[:m]}, opT{K: "B", Data: d[m:]})
			}
		}
		if r.Chance(1, 4) {
			k.Prog = append(k.Prog, opT{K: "F"})
		}
		return k
	}
	if !simple && r.Chance(1, 12) {
		// trailers: announced in one or several Trailer values and/or sent through http.TrailerPrefix, values set
		// before, between and after the body writes, sometimes changed or deleted again
		names := []string{"X-T", "X-U", "X-Sum"}
		if r.Chance(1, 2) {
			k.Prog = append(k.Prog, opT{K: "H", Key: "Content-Type", Vals: []string{hx.Pick(r, []string{"text/plain", "application/json", "text/html"})}})
		}
		announce := r.Chance(5, 6)
		if announce {
			k.Prog = append(k.Prog, opT{K: "H", Key: "Trailer", Vals: hx.Pick(r, [][]string{{"X-T"}, {"X-T", "X-U"}, {"X-T, X-U"}, {"X-T,X-U", "X-Sum"}, {"X-U"}})})
		}
		if r.Chance(1, 4) {
			k.Prog = append(k.Prog, opT{K: "H", Key: hx.Pick(r, names), Vals: []string{"early"}})
		}
		if r.Chance(1, 2) {
			k.Prog = append(k.Prog, opT{K: "W", Code: hx.Pick(r, []int{200, 200, 201, 404, 204})})
		}
		late := func() {
			switch r.Intn(6) {
			case 0, 1, 2:
				k.Prog = append(k.Prog, opT{K: "H", Key: hx.Pick(r, names), Vals: []string{hx.Pick(r, []string{"late", "v2", "sum=1"})}})
			case 3:
				k.Prog = append(k.Prog, opT{K: "H", Key: "Trailer:X-P", Vals: []string{"p"}})
			case 4:
				k.Prog = append(k.Prog, opT{K: "D", Key: hx.Pick(r, names)})
			default:
				k.Prog = append(k.Prog, opT{K: "H", Key: "X-Late", Vals: []string{"not-a-trailer"}})
			}
		}
		for i := r.Range(1, 4); i > 0; i-- {
			if r.Chance(1, 2) {
				late()
			}
			if r.Chance(1, 6) {
				k.Prog = append(k.Prog, opT{K: "F"})
			}
			k.Prog = append(k.Prog, opT{K: "B", Data: chunk()})
		}
		for i := r.Range(0, 3); i > 0; i-- {
			late()
		}
		return k
	}
	if !simple && r.Chance(1, 30) {
		// a middleware behind compression wraps the writer and never takes its wrapper off; the handler panics
		// before any output and recovery (in front) answers
		k.Recovery = true
		k.Wrap = "inner-sticky-flush"
		if r.Chance(1, 2) {
			k.Prog = append(k.Prog, opT{K: "H", Key: "X-Custom", Vals: []string{"v1"}})
		}
		if r.Chance(1, 3) {
			k.Prog = append(k.Prog, opT{K: "St", Code: hx.Pick(r, []int{202, 404})})
		}
		k.Prog = append(k.Prog, opT{K: "Pn"})
		return k
	}
	if !simple && r.Chance(1, 30) {
		// a writer in front of the compression middleware refuses one write; the response is passed through from the
		// first byte (streaming type or 206), the handler keeps writing
		if r.Chance(1, 2) {
			k.Prog = append(k.Prog, opT{K: "H", Key: "Content-Type", Vals: []string{hx.Pick(r, []string{"text/event-stream", "application/octet-stream"})}}, opT{K: "W", Code: 200})
		} else {
			k.Prog = append(k.Prog, opT{K: "H", Key: "Content-Type", Vals: []string{"text/plain"}}, opT{K: "W", Code: 206})
		}
		nwr := r.Range(2, 5)
		for i := 0; i < nwr; i++ {
			d := chunk()
			if len(d) == 0 {
				d = []byte{byte('A' + i)}
			}
			k.Prog = append(k.Prog, opT{K: "B", Data: d})
			if r.Chance(1, 4) {
				k.Prog = append(k.Prog, opT{K: "F"})
			}
		}
		k.Wrap = "outer-refuse-" + strconv.Itoa(r.Range(1, nwr))
		return k
	}
	if !simple && r.Chance(1, 25) {
		// an informational status after the final one, behind a first-call-wins status recorder
		k.Wrap = "outer-recorder"
		if r.Chance(1, 2) {
			k.Prog = append(k.Prog, opT{K: "H", Key: "Content-Type", Vals: []string{"text/plain"}})
		}
		k.Prog = append(k.Prog, opT{K: "W", Code: hx.Pick(r, []int{404, 201, 500, 200})})
		k.Prog = append(k.Prog, opT{K: hx.Pick(r, []string{"W", "St"}), Code: hx.Pick(r, []int{103, 100, 102})})
		for i := r.Range(0, 3); i > 0; i-- {
			k.Prog = append(k.Prog, opT{K: "B", Data: chunk()})
		}
		return k
	}
	if !simple && r.Chance(1, 10) {
		// header edits after the response was committed, with deletions (the map does not grow):
		// rename a header, delete one and add another, delete only
		early := [][2]string{{"Cache-Control", "no-store"}, {"X-Early", "original"}, {"Content-Language", "en"}, {"X-Custom", "v1"}}
		hx.Shuffle(r, early)
		n := r.Range(1, 3)
		if r.Chance(1, 2) {
			k.Prog = append(k.Prog, opT{K: "H", Key: "Content-Type", Vals: []string{hx.Pick(r, []string{"text/plain", "application/json", "text/html"})}})
		}
		for _, h := range early[:n] {
			k.Prog = append(k.Prog, opT{K: "H", Key: h[0], Vals: []string{h[1]}})
		}
		switch r.Intn(4) { // the commit
		case 0:
			k.Prog = append(k.Prog, opT{K: "B", Data: chunk()})
		case 1:
			k.Prog = append(k.Prog, opT{K: "St", Code: hx.Pick(r, []int{200, 201, 404, 500})})
		default:
			k.Prog = append(k.Prog, opT{K: "W", Code: hx.Pick(r, []int{200, 200, 201, 404, 500})})
		}
		ndel := r.Range(1, n)
		for _, h := range early[:ndel] {
			k.Prog = append(k.Prog, opT{K: "D", Key: h[0]})
		}
		for i := r.Range(0, ndel); i > 0; i-- {
			k.Prog = append(k.Prog, opT{K: "H", Key: hx.Pick(r, []string{"X-Cache-Control", "X-Late", "X-Renamed", "Etag"}), Vals: []string{"late"}})
		}
		if r.Chance(1, 4) {
			k.Prog = append(k.Prog, opT{K: "H", Key: early[0][0], Vals: []string{"overwritten"}})
		}
		for i := r.Range(0, 3); i > 0; i-- {
			if r.Chance(1, 5) {
				k.Prog = append(k.Prog, opT{K: "F"})
			}
			k.Prog = append(k.Prog, opT{K: "B", Data: chunk()})
		}
		return k
	}
	if !simple && r.Chance(1, 12) {
		k.Head = true
	}
	if !simple && r.Chance(1, 8) {
		k.Wrap = hx.Pick(r, []string{"outer-noflush", "outer-noflush", "outer-flush", "inner-noflush", "inner-flush", "outer-lazyheader", "outer-lazyheader", "outer-realtimeout", "outer-realtimeout"})
	}
	pn := -1
	if !k.Head && r.Chance(1, 14) {
		// the handler panics somewhere; recovery.New() sits in front of the compression middleware
		k.Recovery = true
		pn = r.Range(0, nops)
	}
	defer func() {
		if pn >= 0 {
			if pn > len(k.Prog) {
				pn = len(k.Prog)
			}
			k.Prog = append(k.Prog[:pn:pn], opT{K: "Pn"})
		}
	}()
	for len(k.Prog) < nops {
		switch r.Intn(23) {
		case 0, 1, 2:
			k.Prog = append(k.Prog, opT{K: "H", Key: "Content-Type", Vals: hx.Pick(r, ctPool)})
		case 3, 4:
			h := hx.Pick(r, hdrPool)
			k.Prog = append(k.Prog, opT{K: "H", Key: h[0], Vals: []string{h[1]}})
		case 5:
			h := hx.Pick(r, hdrPool)
			if r.Chance(1, 2) {
				k.Prog = append(k.Prog, opT{K: "Hc", Key: h[0], Vals: []string{h[1]}})
			} else {
				k.Prog = append(k.Prog, opT{K: "D", Key: hx.Pick(r, []string{"Content-Type", "X-Custom", "Vary"})})
			}
		case 6, 7, 8:
			k.Prog = append(k.Prog, opT{K: "W", Code: hx.Pick(r, codePool)})
		case 9, 10, 11, 12, 13, 14:
			k.Prog = append(k.Prog, opT{K: "B", Data: chunk()})
		case 15:
			k.Prog = append(k.Prog, opT{K: hx.Pick(r, []string{"P", "Ws"}), Data: chunk()})
		case 16, 17:
			if !simple && r.Chance(1, 5) {
				k.Prog = append(k.Prog, opT{K: hx.Pick(r, []string{"Hj", "Cx"})})
			} else {
				k.Prog = append(k.Prog, opT{K: "F"})
			}
		case 18, 19:
			n := r.Range(0, 4)
			var cs [][]byte
			for i := 0; i < n; i++ {
				c := chunk()
				if len(c) == 0 {
					c = []byte{byte('A' + i)}
					first = false
				}
				cs = append(cs, c)
			}
			cp := opT{K: "C", Chunks: cs}
			if r.Chance(1, 3) {
				cp.Key = "eof" // the reader hands out its last bytes together with io.EOF
			}
			k.Prog = append(k.Prog, cp)
		case 20:
			switch r.Intn(3) {
			case 0:
				k.Prog = append(k.Prog, opT{K: "St", Code: hx.Pick(r, codePool)})
			case 1:
				k.Prog = append(k.Prog, opT{K: "Rd", Code: hx.Pick(r, []int{301, 302, 303, 307, 308}), S: "/login"})
			default:
				k.Prog = append(k.Prog, opT{K: "Nc"})
			}
		case 21:
			s := string(chunk())
			switch r.Intn(3) {
			case 0:
				k.Prog = append(k.Prog, opT{K: "Sg", Code: hx.Pick(r, codePool), S: s})
			case 1:
				k.Prog = append(k.Prog, opT{K: "Ht", Code: hx.Pick(r, codePool), S: s})
			default:
				k.Prog = append(k.Prog, opT{K: "Dt", Code: hx.Pick(r, codePool), S: hx.Pick(r, ctPool[:12])[0], Data: []byte(s)})
			}
		case 22:
			switch r.Intn(4) {
			case 0:
				k.Prog = append(k.Prog, opT{K: "Sf", Key: hx.Pick(r, []string{"fast", "fmt"}), Code: hx.Pick(r, codePool), S: strings.Repeat("s", genSize(r, thr, big))})
			case 1:
				k.Prog = append(k.Prog, opT{K: "Ym", Code: hx.Pick(r, codePool), S: strings.Repeat("y", genSize(r, thr, big))})
			default:
				k.Prog = append(k.Prog, opT{K: "Js", Code: hx.Pick(r, codePool), S: strings.Repeat("v", genSize(r, thr, big))})
			}
			first = false
		}
	}
	if !simple && r.Chance(1, 60) {
		// one Write far above 64 KiB AFTER the decision was taken (a first write that reaches the threshold, then the big one)
		k.Prog = []opT{{K: "H", Key: "Content-Type", Vals: []string{"text/plain"}}, {K: "B", Data: bytes.Repeat([]byte("d"), max(k.Opt.MinSize, 600))},
			{K: "B", Data: bytes.Repeat([]byte("L"), hx.Pick(r, []int{64*1024 + 1, 70000, 3*64*1024 + 16, 204816}))}}
		if r.Chance(1, 2) {
			k.Prog = append(k.Prog, opT{K: "B", Data: []byte("tail")})
		}
		k.Wrap = ""
	}
	onlyPrimitives := true // the router.Context helpers expand differently on a writer that is already committed
	for _, op := range k.Prog {
		switch op.K {
		case "H", "Hc", "D", "W", "B", "F", "C", "P", "Ws":
		default:
			onlyPrimitives = false
		}
	}
	if !simple && onlyPrimitives && k.Wrap == "" && !k.Recovery && !k.Head && r.Chance(1, 20) {
		// a middleware in front of the compression middleware uses the writer before the chain goes on: an informational
		// response (harmless), or a final status / body bytes / a flush (the response is committed: open finding K15r)
		switch r.Intn(5) {
		case 0:
			k.PreOp = &opT{K: "W", Code: hx.Pick(r, []int{100, 103, 102})}
		case 1, 2:
			k.PreOp = &opT{K: "W", Code: hx.Pick(r, []int{200, 201, 404, 500, 204, 304})}
		case 3:
			k.PreOp = &opT{K: "B", Data: []byte(hx.Pick(r, []string{"prefix:", "\xef\xbb\xbf", "<!-- build 7 -->\n"}))}
		default:
			k.PreOp = &opT{K: "F"}
		}
	}
	return k
}

// genGroup generates an overlap group: 2–3 programs of small writes served at the same time through one
// middleware instance with a minimum size (so that bytes are held back while another request writes).
func genGroup(r *hx.Rand) []caseT {
	n := r.Range(2, 3)
	opt := optT{MinSize: hx.Pick(r, []int{64, 100, 512, 600, 1024, 2048, 4096, r.Range(16, 4096)})}
	opt.NoBr = r.Chance(1, 4)
	g := make([]caseT, n)
	for i := range g {
		k := caseT{Opt: opt, Path: "/o" + strconv.Itoa(i)}
		k.AE = sp(hx.Pick(r, []string{"gzip", "br", "gzip, br", "gzip;q=0.5, br;q=0.4"}))
		if r.Chance(1, 8) {
			k.AE = genAE(r, false)
		}
		if r.Chance(2, 3) {
			k.Prog = append(k.Prog, opT{K: "H", Key: "Content-Type", Vals: []string{hx.Pick(r, []string{"text/plain", "application/json", "text/html"})}})
		}
		if r.Chance(1, 2) {
			k.Prog = append(k.Prog, opT{K: "W", Code: hx.Pick(r, []int{200, 200, 201, 404})})
		}
		nw := r.Range(1, 5)
		for j := 0; j < nw; j++ {
			sz := hx.Pick(r, []int{1, 5, 16, 40, 200, r.Range(1, 64)})
			if j == nw-1 && r.Chance(1, 3) {
				sz = opt.MinSize + r.Range(0, 200) // grows past the minimum size at the end
			}
			d := bytes.Repeat([]byte{byte('A' + (i*9+j)%26)}, sz)
			switch r.Intn(8) {
			case 0:
				k.Prog = append(k.Prog, opT{K: "C", Chunks: [][]byte{d, []byte{byte('0' + i)}}})
			case 1:
				k.Prog = append(k.Prog, opT{K: "F"}, opT{K: "B", Data: d})
			default:
				k.Prog = append(k.Prog, opT{K: "B", Data: d})
			}
		}
		g[i] = k
	}
	return g
}

// genSeq generates a sequence: ordinary cases (distinct paths, different Accept-Encoding, statuses, types) that share
// the options of the first one and are served one after the other by one middleware instance.
func genSeq(r *hx.Rand, tier string) []caseT {
	n := r.Range(3, 5)
	var g []caseT
	for len(g) < n {
		k := genCase(r, tier)
		k.PreOp = nil // sequence members run on one shared router without an extra middleware in front
		if k.Recovery || len(k.Pre) > 0 || k.Wrap != "" || hasOp(k.Prog, "Hj") || hasOp(k.Prog, "Cx") || len(k.Group) > 0 {
			continue
		}
		k.Path = k.Path + "-s" + strconv.Itoa(len(g))
		if len(g) > 0 && r.Chance(1, 3) {
			k.AE = g[0].AE // the same client again
		}
		g = append(g, *k)
	}
	if r.Chance(1, 2) {
		// two clients whose long Accept-Encoding values have the same length and the same first 40 bytes but end in
		// different verdicts (what a per-instance negotiation cache with a truncated key would confuse)
		prefix := hx.Pick(r, []string{"deflate;q=0.5, compress;q=0.25, identity;q=0.1, ", "zstd;q=0.9, deflate;q=0.8, x-unknown-coding;q=0.7, "})
		tails := []string{"gzip;q=1, br;q=0", "gzip;q=0, br;q=1", "gzip;q=0, br;q=0", "gzip;q=1, br;q=1", "gzip;q=0, br;q=0"}
		hx.Shuffle(r, tails)
		for i := 0; i < 2 && i < len(g); i++ {
			g[i].AE = sp(prefix + tails[i])
			g[i].Head = false
			g[i].ReqHdr = nil
			g[i].Prog = []opT{{K: "H", Key: "Content-Type", Vals: []string{"text/plain"}}, {K: "B", Data: bytes.Repeat([]byte{byte('p' + i)}, 40)}}
		}
	}
	return g
}

// fixedGroups: request A holds 200 bytes back while request B is served completely; then A goes on.
func fixedGroups() [][]caseT {
	gz := sp("gzip")
	ct := opT{K: "H", Key: "Content-Type", Vals: []string{"text/plain"}}
	a := func(more int) caseT {
		p := []opT{ct, {K: "B", Data: bytes.Repeat([]byte("A"), 200)}, {K: "H", Key: "X-Pause", Vals: []string{"1"}}, {K: "H", Key: "X-Pause", Vals: []string{"2"}}}
		if more > 0 {
			p = append(p, opT{K: "B", Data: bytes.Repeat([]byte("a"), more)})
		}
		return caseT{Path: "/o0", AE: gz, Prog: p}
	}
	b := caseT{Path: "/o1", AE: gz, Prog: []opT{ct, {K: "B", Data: bytes.Repeat([]byte("B"), 300)}}}
	return [][]caseT{
		{func() caseT { k := a(0); k.Opt = optT{MinSize: 1024}; return k }(), b},
		{func() caseT { k := a(3000); k.Opt = optT{MinSize: 1024}; return k }(), b},
		{func() caseT { k := a(0); k.Opt = optT{MinSize: 4096}; return k }(), b, {Path: "/o2", AE: sp("br"), Prog: []opT{ct, {K: "B", Data: []byte("cc")}, {K: "B", Data: []byte("CC")}}}},
	}
}

// fixedCases are the witnesses of the §7 findings and the boundary cases; they run before the random ones.
func fixedCases() []*caseT {
	gz := sp("gzip")
	ct := opT{K: "H", Key: "Content-Type", Vals: []string{"text/plain"}}
	return []*caseT{
		// a writer in front that hands out a private header map until the response starts (the timeout middleware's shape):
		// Early Hints first, then a compressed body; a trailer set between the handler's WriteHeader and the deciding write
		{Path: "/p", AE: gz, Wrap: "outer-lazyheader", Prog: []opT{{K: "H", Key: "Link", Vals: []string{"</s.css>; rel=preload"}}, {K: "W", Code: 103}, ct, {K: "B", Data: []byte("hello hello hello hello hello hello")}}},
		{Path: "/p", AE: gz, Wrap: "outer-lazyheader", Opt: optT{MinSize: 64}, Prog: []opT{ct, {K: "H", Key: "Trailer", Vals: []string{"X-T"}}, {K: "W", Code: 200}, {K: "H", Key: "X-T", Vals: []string{"late"}}, {K: "B", Data: bytes.Repeat([]byte("z"), 100)}}},
		// K15r: a middleware in front commits the response before the compression middleware runs
		{Path: "/p", AE: gz, PreOp: &opT{K: "W", Code: 201}, Prog: []opT{ct, {K: "B", Data: []byte("hello hello hello hello hello hello")}}},
		{Path: "/p", AE: gz, PreOp: &opT{K: "B", Data: []byte("prefix:")}, Prog: []opT{ct, {K: "B", Data: []byte("hello hello hello hello hello hello")}}},
		{Path: "/p", AE: gz, PreOp: &opT{K: "W", Code: 103}, Prog: []opT{ct, {K: "B", Data: []byte("hello hello hello hello hello hello")}}},
		// a single Write above 64 KiB after the decision; the client refuses the unencoded response as well
		{Path: "/p", AE: gz, Prog: []opT{ct, {K: "B", Data: bytes.Repeat([]byte("d"), 600)}, {K: "B", Data: bytes.Repeat([]byte("L"), 204816)}, {K: "B", Data: []byte("tail")}}},
		{Path: "/p", AE: sp("identity;q=0"), Prog: []opT{ct, {K: "B", Data: []byte("hello")}}},
		{Path: "/p", AE: sp("gzip, identity;q=0"), Opt: optT{NoGzip: true}, Prog: []opT{ct, {K: "B", Data: []byte("hello")}}},
		// K15a: a status-only response must keep its status
		{Path: "/p", AE: gz, Prog: []opT{{K: "St", Code: 201}}},
		{Path: "/p", AE: gz, Prog: []opT{{K: "Rd", Code: 302, S: "/login"}}},
		// K15b: Write without WriteHeader is an implicit 200
		{Path: "/p", AE: gz, Prog: []opT{ct, {K: "B", Data: []byte("hello")}}},
		{Path: "/p", AE: gz, Opt: optT{MinSize: 10}, Prog: []opT{ct, {K: "B", Data: []byte("tiny")}}},
		// K15c: writes of 4 then 10 bytes across a threshold of 10
		{Path: "/p", AE: gz, Opt: optT{MinSize: 10}, Prog: []opT{ct, {K: "W", Code: 200}, {K: "B", Data: []byte("aaaa")}, {K: "B", Data: []byte("bbbbbbbbbb")}}},
		{Path: "/p", AE: gz, Opt: optT{MinSize: 10}, Prog: []opT{ct, {K: "W", Code: 200}, {K: "C", Chunks: [][]byte{[]byte("aaaa"), []byte("bbbbbbbbbb"), []byte("cc")}}}},
		// K15d: no Content-Type from the handler
		{Path: "/p", AE: gz, Prog: []opT{{K: "W", Code: 200}, {K: "B", Data: []byte("<html><body>x</body></html>")}}},
		{Path: "/p", AE: gz, Prog: []opT{{K: "W", Code: 200}, {K: "B", Data: []byte("<ht")}, {K: "B", Data: []byte("ml><body>x</body></html>")}}},
		// K15e: substring matching of codings
		{Path: "/p", AE: sp("x-gzip;q=0.5"), Prog: []opT{ct, {K: "W", Code: 200}, {K: "B", Data: []byte("hello")}}},
		{Path: "/p", AE: sp("brotli;q=0.001"), Prog: []opT{ct, {K: "W", Code: 200}, {K: "B", Data: []byte("hello")}}},
		{Path: "/p", AE: sp("gzip, identity;q=0"), Prog: []opT{ct, {K: "W", Code: 200}, {K: "B", Data: []byte("hello")}}},
		{Path: "/p", AE: sp("gzip;q=0, br"), Prog: []opT{ct, {K: "W", Code: 200}, {K: "B", Data: []byte("hello")}}},
		// first WriteHeader wins
		{Path: "/p", AE: gz, Prog: []opT{ct, {K: "St", Code: 201}, {K: "Js", Code: 200, S: "x"}}},
		{Path: "/p", AE: gz, Opt: optT{MinSize: 10}, Prog: []opT{ct, {K: "B", Data: []byte("ab")}, {K: "W", Code: 404}}},
		// flush commits the response
		{Path: "/p", AE: gz, Prog: []opT{ct, {K: "F"}, {K: "W", Code: 404}, {K: "B", Data: []byte("late")}}},
		{Path: "/p", AE: gz, Prog: []opT{{K: "B", Data: []byte("<ht")}, {K: "F"}, {K: "B", Data: []byte("ml>")}}},
		// headers set after the response was committed
		{Path: "/p", AE: gz, Opt: optT{MinSize: 10}, Prog: []opT{ct, {K: "B", Data: []byte("ab")}, {K: "H", Key: "X-Custom", Vals: []string{"late"}}}},
		{Path: "/p", AE: gz, Prog: []opT{ct, {K: "W", Code: 200}, {K: "H", Key: "X-Custom", Vals: []string{"late"}}, {K: "B", Data: []byte("abc")}}},
		// statuses that never carry a compressed body; excluded type; ServeContent; the suite's JSON row
		{Path: "/p", AE: gz, Prog: []opT{{K: "Nc"}}},
		{Path: "/p", AE: gz, Prog: []opT{{K: "W", Code: 304}, {K: "B", Data: []byte("x")}}},
		{Path: "/p", AE: gz, Opt: optT{ExclCT: []string{"image/jpeg"}}, Prog: []opT{{K: "H", Key: "Content-Type", Vals: []string{"image/jpeg"}}, {K: "W", Code: 200}, {K: "B", Data: []byte("fake image data")}}},
		{Path: "/p", AE: gz, Prog: []opT{{K: "Sc", S: "f.txt", Data: bytes.Repeat([]byte("content "), 100)}}},
		{Path: "/p", AE: sp("br, gzip"), Prog: []opT{{K: "Js", Code: 200, S: "value"}}},
		// K15f: a handler panic behind [recovery, compression] before anything was written
		{Path: "/p", AE: gz, Recovery: true, Prog: []opT{{K: "Pn"}}},
		{Path: "/p", AE: gz, Recovery: true, Prog: []opT{{K: "H", Key: "X-Custom", Vals: []string{"v1"}}, {K: "St", Code: 202}, {K: "Pn"}}},
		// K15m (open): the panic comes after the compressed stream has started
		{Path: "/p", AE: gz, Recovery: true, Prog: []opT{ct, {K: "B", Data: []byte("partial")}, {K: "Pn"}}},
		// weights are case-insensitive: a coding refused with Q=0 is not used
		{Path: "/p", AE: sp("gzip;Q=0"), Prog: []opT{ct, {K: "W", Code: 200}, {K: "B", Data: []byte("hello")}}},
		{Path: "/p", AE: sp("br;Q=0, gzip;q=0.5"), Prog: []opT{ct, {K: "W", Code: 200}, {K: "B", Data: []byte("hello")}}},
		{Path: "/p", AE: sp("GZip ; Q = 0.000 , BR;q=0"), Prog: []opT{ct, {K: "W", Code: 200}, {K: "B", Data: []byte("hello")}}},
		// a header renamed after WriteHeader (one deleted, one added: the map does not grow)
		{Path: "/p", AE: gz, Prog: []opT{ct, {K: "H", Key: "Cache-Control", Vals: []string{"no-store"}}, {K: "H", Key: "X-Early", Vals: []string{"original"}}, {K: "W", Code: 200},
			{K: "D", Key: "Cache-Control"}, {K: "H", Key: "X-Cache-Control", Vals: []string{"private"}}, {K: "B", Data: []byte("body")}}},
		{Path: "/p", AE: gz, Opt: optT{MinSize: 1024}, Prog: []opT{ct, {K: "H", Key: "Cache-Control", Vals: []string{"no-store"}}, {K: "H", Key: "X-Early", Vals: []string{"original"}}, {K: "W", Code: 200},
			{K: "D", Key: "Cache-Control"}, {K: "D", Key: "X-Early"}, {K: "H", Key: "X-Late", Vals: []string{"1"}}, {K: "B", Data: []byte("body")}}},
		// another middleware's writer without Flush in front of the compression middleware: the handler's Flush does nothing
		{Path: "/p", AE: gz, Wrap: "outer-noflush", Prog: []opT{ct, {K: "F"}, {K: "W", Code: 404}, {K: "B", Data: []byte("not found")}}},
		{Path: "/p", AE: gz, Wrap: "inner-noflush", Prog: []opT{ct, {K: "F"}, {K: "W", Code: 404}, {K: "B", Data: []byte("not found")}}},
		// an interim status after the final one, behind a first-call-wins recorder; nosniff without a Content-Type
		{Path: "/p", AE: gz, Wrap: "outer-recorder", Opt: optT{MinSize: 64}, Prog: []opT{ct, {K: "W", Code: 404}, {K: "W", Code: 103}, {K: "B", Data: []byte("not found")}}},
		{Path: "/p", AE: gz, Prog: []opT{{K: "H", Key: "X-Content-Type-Options", Vals: []string{"nosniff"}}, {K: "B", Data: []byte("<html><body>x</body></html>")}}},
		// a wrapper behind compression that is never taken off, panic before output, recovery in front
		{Path: "/p", AE: gz, Recovery: true, Wrap: "inner-sticky-flush", Prog: []opT{{K: "Pn"}}},
		// one refused write on a passed-through response, the handler keeps writing
		{Path: "/p", AE: gz, Wrap: "outer-refuse-2", Prog: []opT{{K: "H", Key: "Content-Type", Vals: []string{"text/event-stream"}}, {K: "W", Code: 200}, {K: "B", Data: []byte("data: 1\n\n")}, {K: "B", Data: []byte("data: 2\n\n")}, {K: "B", Data: []byte("data: 3\n\n")}}},
		// HEAD, Range and conditional requests
		{Path: "/p", AE: gz, Head: true, Prog: []opT{ct, {K: "W", Code: 200}, {K: "B", Data: []byte("head body")}}},
		{Path: "/p", AE: gz, Head: true, Prog: []opT{{K: "B", Data: []byte("<html>sniff me")}}},
		{Path: "/p", AE: gz, ReqHdr: [][2]string{{"Range", "bytes=0-9"}}, Prog: []opT{{K: "Sc", S: "f.txt", Data: bytes.Repeat([]byte("0123456789"), 10)}}},
		{Path: "/p", AE: gz, ReqHdr: [][2]string{{"If-None-Match", "\"v7\""}}, Prog: []opT{{K: "H", Key: "Etag", Vals: []string{"\"v7\""}}, {K: "Sc", S: "f.txt", Data: bytes.Repeat([]byte("0123456789"), 10)}}},
		{Path: "/p", AE: gz, ReqHdr: [][2]string{{"Range", "bytes=999999-"}}, Prog: []opT{{K: "Sc", S: "f.txt", Data: bytes.Repeat([]byte("0123456789"), 10)}}},
		// a failed upgrade attempt answered over plain HTTP; a response written after the request context ended
		{Path: "/p", AE: gz, Prog: []opT{{K: "Hj"}, ct, {K: "W", Code: 426}, {K: "B", Data: []byte("upgrade required")}}},
		{Path: "/p", AE: gz, Opt: optT{MinSize: 64}, Prog: []opT{ct, {K: "B", Data: []byte("held back")}, {K: "Hj"}, {K: "B", Data: []byte(" and more")}}},
		{Path: "/p", AE: gz, Prog: []opT{{K: "Cx"}, {K: "Js", Code: 504, S: "deadline exceeded"}}},
		{Path: "/p", AE: gz, Opt: optT{MinSize: 1024}, Prog: []opT{ct, {K: "W", Code: 504}, {K: "B", Data: []byte("timeout")}, {K: "Cx"}}},
		// trailers: announced on two Trailer lines and set while the body is held back; set before and after
		// the commit; through http.TrailerPrefix next to an announced one
		{Path: "/p", AE: gz, Prog: []opT{{K: "H", Key: "Trailer", Vals: []string{"X-T", "X-U"}}, {K: "B", Data: []byte("small body")}, {K: "H", Key: "X-T", Vals: []string{"late"}}, {K: "H", Key: "X-U", Vals: []string{"late-u"}}}},
		{Path: "/p", AE: gz, Opt: optT{MinSize: 100}, Prog: []opT{ct, {K: "H", Key: "Trailer", Vals: []string{"X-T"}}, {K: "H", Key: "X-T", Vals: []string{"early"}}, {K: "W", Code: 200},
			{K: "H", Key: "X-T", Vals: []string{"late"}}, {K: "B", Data: bytes.Repeat([]byte("a"), 200)}}},
		{Path: "/p", AE: gz, Prog: []opT{ct, {K: "H", Key: "Trailer", Vals: []string{"X-T"}}, {K: "B", Data: []byte("body")}, {K: "H", Key: "Trailer:X-P", Vals: []string{"p"}}, {K: "H", Key: "X-T", Vals: []string{"t"}}}},
		// a reader that returns its last bytes together with io.EOF
		{Path: "/p", AE: gz, Prog: []opT{ct, {K: "C", Key: "eof", Chunks: [][]byte{[]byte("first "), []byte("last")}}}},
		// K15p (open): a trailer through http.TrailerPrefix only, body larger than net/http's buffer but tiny once compressed
		{Path: "/p", AE: gz, Prog: []opT{ct, {K: "B", Data: bytes.Repeat([]byte("a"), 3000)}, {K: "H", Key: "Trailer:X-P", Vals: []string{"v"}}}},
		// an outer middleware already declared an encoding: the middleware stays out
		{Path: "/p", AE: gz, Pre: [][2]string{{"Content-Encoding", "x-pre"}}, Prog: []opT{ct, {K: "B", Data: []byte("pre-encoded")}}},
		{Path: "/p", AE: gz, Pre: [][2]string{{"X-Outer", "1"}, {"Vary", "Origin"}}, Prog: []opT{{K: "B", Data: []byte("<html>x")}}},
		// informational status, handler-declared encoding
		{Path: "/p", AE: gz, Prog: []opT{ct, {K: "W", Code: 103}, {K: "W", Code: 404}, {K: "B", Data: []byte("nf")}}},
		{Path: "/p", AE: gz, Prog: []opT{{K: "H", Key: "Content-Encoding", Vals: []string{"x-own"}}, {K: "B", Data: []byte("<html>own")}}},
		{Path: "/p", AE: gz, Opt: optT{MinSize: 600}, Prog: []opT{{K: "B", Data: append([]byte("<html>"), bytes.Repeat([]byte("x"), 300)...)}, {K: "B", Data: bytes.Repeat([]byte("y"), 400)}}},
	}
}

// deriveSeq spells the options o amounts to as a list of With… calls the way callers write them: values that a later
// call overrides (last one wins), a threshold that is negative instead of 0, levels outside the valid range, the
// Disabled options repeated, exclusion lists split over several calls with duplicates, a logger — in mixed order.
// Expected to amount to o: the generator's size biases rely on that, the verdict does not (the model folds Seq itself).
func deriveSeq(r *hx.Rand, o optT) []optItem {
	var early, late []optItem
	ms := o.MinSize
	if ms == 0 && r.Chance(1, 2) {
		ms = -hx.Pick(r, []int{1, 2, 100, 512, 4096})
	}
	late = append(late, optItem{K: "ms", N: ms})
	for range r.Intn(3) {
		early = append(early, optItem{K: "ms", N: hx.Pick(r, []int{0, 1, 16, 512, 1024, 4096, -1, r.Range(1, 5000)})})
	}
	if o.GzipLevel != nil {
		late = append(late, optItem{K: "gl", N: *o.GzipLevel})
		if r.Chance(1, 2) {
			early = append(early, optItem{K: "gl", N: hx.Pick(r, []int{-1, 0, 1, 9, 42, -7})})
		}
	}
	if o.BrLevel != nil {
		late = append(late, optItem{K: "bl", N: *o.BrLevel})
		if r.Chance(1, 2) {
			early = append(early, optItem{K: "bl", N: hx.Pick(r, []int{0, 4, 11, 12, 99, -1})})
		}
	}
	put := func(it optItem) {
		if r.Chance(1, 2) {
			early = append(early, it)
		} else {
			late = append(late, it)
		}
	}
	if o.NoGzip {
		for range 1 + r.Intn(2) {
			put(optItem{K: "ng"})
		}
	}
	if o.NoBr {
		for range 1 + r.Intn(2) {
			put(optItem{K: "nb"})
		}
	}
	split := func(k string, l []string) {
		if len(l) == 0 {
			if r.Chance(1, 6) {
				put(optItem{K: k}) // a call without arguments
			}
			return
		}
		cut := r.Intn(len(l) + 1)
		put(optItem{K: k, L: append([]string(nil), l[:cut]...)})
		rest := append([]string(nil), l[cut:]...)
		if r.Chance(1, 3) {
			rest = append(rest, l[r.Intn(len(l))]) // a duplicate
		}
		put(optItem{K: k, L: rest})
	}
	split("ect", o.ExclCT)
	split("ep", o.ExclPaths)
	split("ee", o.ExclExts)
	if r.Chance(1, 4) {
		put(optItem{K: "lg"})
	}
	shuffle := func(l []optItem) {
		for i := len(l) - 1; i > 0; i-- {
			j := r.Intn(i + 1)
			l[i], l[j] = l[j], l[i]
		}
	}
	shuffle(early)
	shuffle(late)
	return append(early, late...)
}
