// Harness for C15 (response compression is transparent).
//
// One case = (middleware options, request path, Accept-Encoding, handler write program). The same
// program is mounted on two real routers — with and without compression.New(opts...) — behind one
// real net/http server on loopback (so WriteHeader(0) panics, Content-Type sniffing, header
// snapshots, body-less statuses are net/http's own). A third, dry run on a recording writer
// expands the program into the primitive calls the handler makes on its http.ResponseWriter
// (header set/delete, WriteHeader, Write, Flush, io.Copy); those primitives are the model's input.
// Bodies are decoded with the real gzip / brotli readers; http.DetectContentType is evaluated here
// and shipped as a table (it is a parameter of the model).
package main

import (
	"bufio"
	"bytes"
	"compress/gzip"
	"context"
	"encoding/hex"
	"errors"
	"fmt"
	"io"
	"log"
	"log/slog"
	"net"
	"net/http"
	"net/http/httptest"
	"os"
	"sort"
	"strconv"
	"strings"
	"sync"
	"sync/atomic"
	"time"

	"github.com/andybalholm/brotli"

	"rivaas.dev/middleware/compression"
	"rivaas.dev/middleware/recovery"
	"rivaas.dev/middleware/timeout"
	"rivaas.dev/router"
	"verif/harness/hx"
)

// ---------------------------------------------------------------- case

type optT struct {
	MinSize   int
	NoGzip    bool     `json:",omitempty"`
	NoBr      bool     `json:",omitempty"`
	GzipLevel *int     `json:",omitempty"`
	BrLevel   *int     `json:",omitempty"`
	ExclCT    []string `json:",omitempty"`
	ExclPaths []string `json:",omitempty"`
	ExclExts  []string `json:",omitempty"`
	// Seq, when present, is the exact list of options handed to compression.New, in order (repeated, overridden,
	// clamped, split); the fields above then only say what the generator expects it to amount to — the model
	// computes the configuration from Seq itself (case tag O)
	Seq []optItem `json:",omitempty"`
}

// optItem is one functional option: gl / bl / ms <N>, nb, ng, lg, ep / ee / ect <L>
type optItem struct {
	K string
	N int      `json:",omitempty"`
	L []string `json:",omitempty"`
}

// opT is one step of the handler program (high level: what the handler source says).
type opT struct {
	K      string   // H Hc D W B F C P Ws | St Rd Sg Js Ht Dt Nc Sc Dr Sf Ym | Pn | Hj (failing Hijack attempt) Cx (request context cancelled)
	Key    string   `json:",omitempty"`
	Vals   []string `json:",omitempty"`
	Code   int      `json:",omitempty"`
	Data   []byte   `json:",omitempty"`
	Chunks [][]byte `json:",omitempty"`
	S      string   `json:",omitempty"`
}

type caseT struct {
	Opt      optT
	Path     string
	AE       *string     // nil: header absent
	Recovery bool        `json:",omitempty"` // recovery.New() in front of the compression middleware
	Pre      [][2]string `json:",omitempty"` // headers an outer middleware sets before the chain goes on
	Head     bool        `json:",omitempty"` // HEAD request (otherwise GET)
	Wrap     string      `json:",omitempty"` // other middleware wrapping the writer: "outer-noflush" / "outer-flush" in front of the compression middleware, "inner-noflush" / "inner-flush" behind it
	ReqHdr   [][2]string `json:",omitempty"` // further request headers (Range, If-None-Match, ...)
	Prog     []opT
	// overlap kind: this case is member Idx of Group — requests served at the same time by ONE router and
	// ONE middleware instance (options of member 0), their handlers advancing one operation at a time in turn
	Group  []caseT `json:",omitempty"`
	Idx    int     `json:",omitempty"`
	Poison bool    `json:",omitempty"` // responses on a failing writer were served (unjudged) just before the group
	Seq    bool    `json:",omitempty"` // the members are served one after the other (state kept between requests)
	// PreOp: one primitive (W code / B data / F) that a middleware in FRONT of the compression middleware performs on
	// the bare writer before the chain goes on (in both runs); on the case line it precedes the marker Z
	PreOp *opT `json:",omitempty"`
	// Contract: a contract-only case (line tag K); every other field is unused then
	Contract *contractT `json:",omitempty"`
}

// primT is one primitive call on the ResponseWriter (the model's alphabet).
type primT struct {
	K      string // H D W B F C X(panic)
	Key    string
	Vals   []string
	Code   int
	Data   []byte
	Chunks [][]byte
}

// outT is what the handler saw come back from a write-like call.
type outT struct {
	Flag int // 0 not observed, 1 (n, err) observed, 2 only err==nil observed
	N    int64
	E    int
}

func errClass(err error) int {
	switch {
	case err == nil:
		return 0
	case errors.Is(err, http.ErrBodyNotAllowed):
		return 1
	case errors.Is(err, io.ErrShortWrite):
		return 2
	case err.Error() == "invalid write result":
		return 3
	case errors.Is(err, http.ErrContentLength):
		return 4
	}
	return 9
}

// ---------------------------------------------------------------- program interpreter

type scriptReader struct {
	chunks  [][]byte
	i       int
	dataEOF bool // the last chunk comes together with io.EOF (as request bodies and decompressors do)
}

func (s *scriptReader) Read(p []byte) (int, error) {
	if s.i >= len(s.chunks) {
		return 0, io.EOF
	}
	c := s.chunks[s.i]
	if len(c) > len(p) {
		// never happens: chunks are <= 32 KiB, io.Copy's buffer
		n := copy(p, c)
		s.chunks[s.i] = c[n:]
		return n, nil
	}
	s.i++
	if s.dataEOF && s.i == len(s.chunks) {
		return copy(p, c), io.EOF
	}
	return copy(p, c), nil
}

type runRes struct {
	Panic  bool
	PanicV string
	Outs   []outT
	cancel func() // cancels the request context (installed by ctxMW when the program has a Cx op)
}

// hook lets the dry run know which high-level op is executing.
type hook interface {
	begin(op *opT)
	end(op *opT)
}

func noBody(code int) bool { return (code >= 100 && code <= 199) || code == 204 || code == 304 }

// runProg executes the program against c.Response exactly as a handler would.
// nw[i] (from the dry run) is the number of write-like primitives op i expands to.
func runProg(c *router.Context, prog []opT, res *runRes, hk hook, nw []int) {
	defer func() {
		if p := recover(); p != nil {
			if _, own := p.(progPanic); own {
				panic(p) // the program's own panic travels on (K15f scenario)
			}
			res.Panic = true
			res.PanicV = fmt.Sprint(p)
		}
	}()
	for i := range prog {
		op := &prog[i]
		if hk != nil {
			hk.begin(op)
		}
		w := c.Response
		pad := func(flag int, n int64, e int) {
			k := 1
			if nw != nil {
				k = nw[i]
			}
			for j := 0; j < k; j++ {
				if j == k-1 {
					res.Outs = append(res.Outs, outT{flag, n, e})
				} else {
					res.Outs = append(res.Outs, outT{})
				}
			}
		}
		switch op.K {
		case "H":
			if len(op.Vals) == 1 {
				w.Header().Set(op.Key, op.Vals[0])
			} else if len(op.Vals) == 0 {
				w.Header()[op.Key] = nil
			} else {
				w.Header()[op.Key] = append([]string(nil), op.Vals...)
			}
		case "Hc":
			c.Header(op.Key, op.Vals[0])
		case "D":
			w.Header().Del(op.Key)
		case "W":
			w.WriteHeader(op.Code)
		case "B":
			n, err := w.Write(op.Data)
			if nw != nil && nw[i] == 0 {
				break // refused by a writer in front of everything (refuseWriter): not an operation of the model
			}
			res.Outs = append(res.Outs, outT{1, int64(n), errClass(err)})
		case "P":
			n, err := fmt.Fprintf(w, "%s", op.Data)
			res.Outs = append(res.Outs, outT{1, int64(n), errClass(err)})
		case "Ws":
			n, err := io.WriteString(w, string(op.Data))
			res.Outs = append(res.Outs, outT{1, int64(n), errClass(err)})
		case "F":
			if f, ok := w.(http.Flusher); ok {
				f.Flush()
			}
		case "C":
			cs := make([][]byte, len(op.Chunks))
			copy(cs, op.Chunks)
			n, err := io.Copy(w, &scriptReader{chunks: cs, dataEOF: op.Key == "eof"})
			res.Outs = append(res.Outs, outT{1, n, errClass(err)})
		case "St":
			c.Status(op.Code)
		case "Rd":
			c.Redirect(op.Code, op.S)
		case "Nc":
			c.NoContent()
		case "Sg":
			err := c.String(op.Code, op.S)
			pad(2, 0, errClass(err))
		case "Js":
			err := c.JSON(op.Code, map[string]string{"k": op.S})
			pad(2, 0, errClass(err))
		case "Ht":
			err := c.HTML(op.Code, op.S)
			pad(2, 0, errClass(err))
		case "Dt":
			err := c.Data(op.Code, op.S, op.Data)
			pad(2, 0, errClass(err))
		case "Sc":
			http.ServeContent(w, c.Request, op.S, time.Time{}, bytes.NewReader(op.Data))
			pad(0, 0, 0)
		case "Dr":
			cs := make([][]byte, len(op.Chunks))
			copy(cs, op.Chunks)
			n := int64(-1)
			if op.Key == "len" {
				n = 0
				for _, ch := range cs {
					n += int64(len(ch))
				}
			}
			c.DataFromReader(op.Code, n, op.S, &scriptReader{chunks: cs}, nil) //nolint:errcheck
			pad(0, 0, 0)
		case "Sf":
			if op.Key == "fast" {
				c.Stringf(op.Code, "<"+"%s"+">", op.S) //nolint:errcheck // up to three writes
			} else {
				c.Stringf(op.Code, "%s=%d", op.S, op.Code) //nolint:errcheck // fmt.Fprintf path
			}
			pad(0, 0, 0)
		case "Ym":
			c.YAML(op.Code, map[string]string{"k": op.S}) //nolint:errcheck
			pad(0, 0, 0)
		case "Hj":
			// an upgrade attempt; the writer underneath has a Hijack method that fails (as wrappers over
			// HTTP/2 or a recorder do), so the handler goes on over plain HTTP
			if hj, ok := w.(http.Hijacker); ok {
				hj.Hijack() //nolint:errcheck
			}
		case "Cx":
			// the request context ends (deadline of an outer middleware, cancellation by the application)
			// while the connection still works
			if res.cancel != nil {
				res.cancel()
			}
		case "Pn":
			if hk != nil {
				hk.end(op)
			}
			panic(progPanic{})
		}
		if hk != nil {
			hk.end(op)
		}
	}
}

type progPanic struct{}

// ---------------------------------------------------------------- dry run (recording writer)

type fake struct {
	h, last http.Header
	wrote   bool
	status  int
	prims   []primT
	group   bool // consecutive writes of the current op form one copy primitive
	open    *primT
	nw      []int
	cur     int
}

func newFake() *fake { return &fake{h: http.Header{}, last: http.Header{}} }

func (f *fake) sync() {
	keys := map[string]bool{}
	for k := range f.h {
		keys[k] = true
	}
	for k := range f.last {
		keys[k] = true
	}
	ks := make([]string, 0, len(keys))
	for k := range keys {
		ks = append(ks, k)
	}
	sort.Strings(ks)
	for _, k := range ks {
		nv, nok := f.h[k]
		ov, ook := f.last[k]
		if !nok && ook {
			f.closeGroup()
			f.prims = append(f.prims, primT{K: "D", Key: k})
		} else if nok && (!ook || strings.Join(nv, "\x00") != strings.Join(ov, "\x00") || len(nv) != len(ov)) {
			f.closeGroup()
			f.prims = append(f.prims, primT{K: "H", Key: k, Vals: append([]string{}, nv...)})
		}
	}
	f.last = f.h.Clone()
}
func (f *fake) closeGroup() {
	if f.open != nil {
		f.prims = append(f.prims, *f.open)
		f.nw[f.cur]++
		f.open = nil
	}
}
func (f *fake) Header() http.Header { return f.h }
func (f *fake) WriteHeader(code int) {
	f.sync()
	f.closeGroup()
	f.prims = append(f.prims, primT{K: "W", Code: code})
	if !f.wrote && !(code >= 100 && code <= 199 && code != 101) {
		f.wrote, f.status = true, code
	}
}
func (f *fake) Write(d []byte) (int, error) {
	f.sync()
	if !f.wrote {
		f.wrote, f.status = true, 200
	}
	dd := append([]byte{}, d...)
	if f.group {
		if f.open == nil {
			f.open = &primT{K: "C"}
		}
		f.open.Chunks = append(f.open.Chunks, dd)
	} else {
		f.prims = append(f.prims, primT{K: "B", Data: dd})
		f.nw[f.cur]++
	}
	if len(d) == 0 {
		return 0, nil
	}
	if noBody(f.status) {
		return 0, http.ErrBodyNotAllowed
	}
	return len(d), nil
}
func (f *fake) Flush() {
	f.sync()
	f.closeGroup()
	f.prims = append(f.prims, primT{K: "F"})
	if !f.wrote {
		f.wrote, f.status = true, 200
	}
}
func (f *fake) begin(op *opT) {
	f.group = op.K == "C" || op.K == "Sc" || op.K == "Dr"
	if op.K == "C" {
		// the copy primitive is the scripted chunk list itself (the copy loop is part of the model)
		f.sync()
		f.open = nil
	}
}
func (f *fake) end(op *opT) {
	f.sync()
	if op.K == "C" {
		f.open = nil
		cs := make([][]byte, len(op.Chunks))
		copy(cs, op.Chunks)
		f.prims = append(f.prims, primT{K: "C", Chunks: cs})
		f.nw[f.cur]++
	} else {
		f.closeGroup()
	}
	if op.K == "Pn" {
		f.prims = append(f.prims, primT{K: "X"})
	}
	f.group = false
	f.cur++
}

// ---------------------------------------------------------------- real runs over loopback

var (
	curHandler atomic.Pointer[http.Handler]
	srvURL     string
	client     *http.Client
)

func startServer() {
	ln, err := net.Listen("tcp", "127.0.0.1:0")
	if err != nil {
		panic(err)
	}
	srv := &http.Server{
		Handler: http.HandlerFunc(func(w http.ResponseWriter, r *http.Request) {
			(*curHandler.Load()).ServeHTTP(w, r)
		}),
		ErrorLog: log.New(io.Discard, "", 0),
	}
	go srv.Serve(ln) //nolint:errcheck
	srvURL = "http://" + ln.Addr().String()
	client = &http.Client{
		Transport:     &http.Transport{DisableCompression: true, MaxIdleConnsPerHost: 4},
		CheckRedirect: func(*http.Request, []*http.Request) error { return http.ErrUseLastResponse },
		Timeout:       20 * time.Second,
	}
}

type respT struct {
	Kind    string // R response, P handler saw a panic from the writer, E transport error (connection torn down)
	Status  int
	Hdr     [][2]string // sorted (key, values joined with \x00); Date and Content-Length dropped
	Trailer [][2]string // header fields received after the body, same form
	CE      string
	Raw     []byte
	Decoded []byte
	DecOK   bool
	Outs    []outT
	PanicV  string
}

func buildOpts(o optT) []compression.Option {
	var opts []compression.Option
	if len(o.Seq) > 0 {
		for _, it := range o.Seq {
			switch it.K {
			case "gl":
				opts = append(opts, compression.WithGzipLevel(it.N))
			case "bl":
				opts = append(opts, compression.WithBrotliLevel(it.N))
			case "ms":
				opts = append(opts, compression.WithMinSize(it.N))
			case "nb":
				opts = append(opts, compression.WithBrotliDisabled())
			case "ng":
				opts = append(opts, compression.WithGzipDisabled())
			case "lg":
				opts = append(opts, compression.WithLogger(slog.New(slog.NewTextHandler(io.Discard, nil))))
			case "ep":
				opts = append(opts, compression.WithExcludePaths(it.L...))
			case "ee":
				opts = append(opts, compression.WithExcludeExtensions(it.L...))
			case "ect":
				opts = append(opts, compression.WithExcludeContentTypes(it.L...))
			default:
				panic("harness: unknown option item " + it.K)
			}
		}
		return opts
	}
	opts = append(opts, compression.WithMinSize(o.MinSize))
	if o.NoGzip {
		opts = append(opts, compression.WithGzipDisabled())
	}
	if o.NoBr {
		opts = append(opts, compression.WithBrotliDisabled())
	}
	if o.GzipLevel != nil {
		opts = append(opts, compression.WithGzipLevel(*o.GzipLevel))
	}
	if o.BrLevel != nil {
		opts = append(opts, compression.WithBrotliLevel(*o.BrLevel))
	}
	if len(o.ExclCT) > 0 {
		opts = append(opts, compression.WithExcludeContentTypes(o.ExclCT...))
	}
	if len(o.ExclPaths) > 0 {
		opts = append(opts, compression.WithExcludePaths(o.ExclPaths...))
	}
	if len(o.ExclExts) > 0 {
		opts = append(opts, compression.WithExcludeExtensions(o.ExclExts...))
	}
	return opts
}

// countingByteReader hands out one byte per Read, so that a decoder never consumes input beyond
// the end of its stream and trailing bytes can be detected.
type countingByteReader struct {
	b []byte
	i int
}

func (c *countingByteReader) Read(p []byte) (int, error) {
	if c.i >= len(c.b) {
		return 0, io.EOF
	}
	if len(p) == 0 {
		return 0, nil
	}
	p[0] = c.b[c.i]
	c.i++
	return 1, nil
}
func (c *countingByteReader) ReadByte() (byte, error) {
	if c.i >= len(c.b) {
		return 0, io.EOF
	}
	c.i++
	return c.b[c.i-1], nil
}

// decodeBody decodes by Content-Encoding; the body must be exactly one encoded stream
// (a truncated stream or bytes after its end are a decoding failure).
func decodeBody(ce string, raw []byte) (out []byte, ok bool) {
	defer func() {
		// the brotli reader panics on some malformed inputs (bytes after the end of a stream)
		if p := recover(); p != nil {
			out, ok = nil, false
		}
	}()
	switch strings.ToLower(strings.TrimSpace(ce)) {
	case "", "identity":
		return raw, true
	case "gzip":
		src := &countingByteReader{b: raw}
		zr, err := gzip.NewReader(src)
		if err != nil {
			return nil, false
		}
		zr.Multistream(false)
		b, err := io.ReadAll(zr)
		if err != nil || src.i != len(raw) {
			return nil, false
		}
		return b, true
	case "br":
		src := &countingByteReader{b: raw}
		b, err := io.ReadAll(brotli.NewReader(src))
		if err != nil || src.i != len(raw) {
			return nil, false
		}
		return b, true
	}
	return raw, true // an encoding the handler itself declared: the bytes are the handler's
}

func realRun(k *caseT, withMW bool, nw []int) respT {
	r := router.MustNew()
	if k.Recovery {
		r.Use(recovery.New(recovery.WithoutLogging()))
	}
	if len(k.Pre) > 0 {
		r.Use(outer(k.Pre, nil))
	}
	if k.PreOp != nil {
		r.Use(preMW(k.PreOp))
	}
	res := &runRes{}
	if hasOp(k.Prog, "Hj") || hasOp(k.Prog, "Cx") {
		r.Use(envMW(k.Prog, res))
	}
	if strings.HasPrefix(k.Wrap, "outer") {
		r.Use(wrapMW(k.Wrap))
	}
	if withMW {
		r.Use(compression.New(buildOpts(k.Opt)...))
	}
	if strings.HasPrefix(k.Wrap, "inner") {
		r.Use(wrapMW(k.Wrap))
	}
	done := make(chan struct{})
	var once sync.Once
	hf := func(c *router.Context) {
		defer once.Do(func() { close(done) }) // res is read only after the handler has returned (the client may see the end of a Content-Length body earlier)
		runProg(c, k.Prog, res, nil, nw)
	}
	if k.Head {
		r.HEAD(k.Path, hf)
	} else {
		r.GET(k.Path, hf)
	}
	// a chain that answers without ever reaching the handler (a middleware that rejects the request) is an observation
	// like any other: the exchange is over when the router returns
	var h http.Handler = http.HandlerFunc(func(w http.ResponseWriter, req *http.Request) {
		defer once.Do(func() { close(done) })
		r.ServeHTTP(w, req)
	})
	curHandler.Store(&h)
	return fetch(k, res, done, nw)
}

// turns makes the handlers of an overlap group advance one operation at a time, round robin
// (deterministic interleaving, no sleeps).
type turns struct {
	mu     sync.Mutex
	cond   *sync.Cond
	turn   int
	active []bool
}

func newTurns(n int) *turns {
	t := &turns{active: make([]bool, n)}
	for i := range t.active {
		t.active[i] = true
	}
	t.cond = sync.NewCond(&t.mu)
	return t
}
func (t *turns) advance() {
	for j := 1; j <= len(t.active); j++ {
		n := (t.turn + j) % len(t.active)
		if t.active[n] {
			t.turn = n
			break
		}
	}
	t.cond.Broadcast()
}
func (t *turns) wait(i int) {
	t.mu.Lock()
	for t.turn != i {
		t.cond.Wait()
	}
	t.mu.Unlock()
}
func (t *turns) pass(i int) {
	t.mu.Lock()
	if t.turn == i {
		t.advance()
	}
	t.mu.Unlock()
}
func (t *turns) finish(i int) {
	t.mu.Lock()
	t.active[i] = false
	if t.turn == i {
		t.advance()
	}
	t.mu.Unlock()
}

type turnHook struct {
	t *turns
	i int
}

func (h turnHook) begin(*opT) { h.t.wait(h.i) }
func (h turnHook) end(*opT)   { h.t.pass(h.i) }

// overlapRun serves all members of the group at the same time through one router and one instance of
// the compression middleware.
func overlapRun(group []caseT, nws [][]int, seq bool) []respT {
	r := router.MustNew()
	r.Use(compression.New(buildOpts(group[0].Opt)...))
	t := newTurns(len(group))
	if seq {
		t = nil
	}
	res := make([]*runRes, len(group))
	done := make([]chan struct{}, len(group))
	onces := make([]sync.Once, len(group))
	byPath := map[string]int{}
	for i := range group {
		i := i
		res[i] = &runRes{}
		done[i] = make(chan struct{})
		if _, dup := byPath[group[i].Path]; dup {
			byPath[group[i].Path] = -1
		} else {
			byPath[group[i].Path] = i
		}
		reg := r.GET
		if group[i].Head {
			reg = r.HEAD
		}
		reg(group[i].Path, func(c *router.Context) {
			defer onces[i].Do(func() { close(done[i]) })
			if t == nil {
				runProg(c, group[i].Prog, res[i], nil, nws[i])
				return
			}
			defer t.finish(i)
			runProg(c, group[i].Prog, res[i], turnHook{t, i}, nws[i])
		})
	}
	// a member whose handler is never reached (the chain answered by itself) has finished when the router returns:
	// it gives up its turn and its exchange is over
	var h http.Handler = http.HandlerFunc(func(w http.ResponseWriter, req *http.Request) {
		defer func() {
			if i, ok := byPath[req.URL.Path]; ok && i >= 0 {
				if t != nil {
					t.finish(i)
				}
				onces[i].Do(func() { close(done[i]) })
			}
		}()
		r.ServeHTTP(w, req)
	})
	curHandler.Store(&h)
	out := make([]respT, len(group))
	if seq {
		for i := range group {
			out[i] = fetch(&group[i], res[i], done[i], nws[i])
		}
		return out
	}
	var wg sync.WaitGroup
	for i := range group {
		wg.Add(1)
		go func(i int) {
			defer wg.Done()
			out[i] = fetch(&group[i], res[i], done[i], nws[i])
		}(i)
	}
	wg.Wait()
	return out
}

func fetch(k *caseT, res *runRes, done chan struct{}, nw []int) respT {
	req, err := http.NewRequest(method(k), srvURL+k.Path, nil)
	if err != nil {
		panic(err)
	}
	if k.AE != nil {
		req.Header.Set("Accept-Encoding", *k.AE)
	}
	for _, kv := range k.ReqHdr {
		req.Header.Set(kv[0], kv[1])
	}
	resp, err := client.Do(req)
	select {
	case <-done:
	case <-time.After(15 * time.Second):
		if resp != nil {
			resp.Body.Close()
		}
		return respT{Kind: "E", PanicV: "handler did not return"}
	}
	if res.Panic {
		if resp != nil {
			io.Copy(io.Discard, resp.Body) //nolint:errcheck
			resp.Body.Close()
		}
		return respT{Kind: "P", PanicV: res.PanicV}
	}
	if err != nil {
		return respT{Kind: "E", PanicV: err.Error()}
	}
	raw, err := io.ReadAll(resp.Body)
	resp.Body.Close()
	if err != nil {
		return respT{Kind: "E", PanicV: err.Error()}
	}
	out := respT{Kind: "R", Status: resp.StatusCode, Raw: raw, Outs: res.Outs}
	// writes made after a program panic (by the recovery middleware) are not observed: pad
	for len(out.Outs) < nw[len(nw)-1] {
		out.Outs = append(out.Outs, outT{})
	}
	keys := make([]string, 0, len(resp.Header))
	for hk := range resp.Header {
		if hk == "Date" || hk == "Content-Length" {
			continue
		}
		keys = append(keys, hk)
	}
	sort.Strings(keys)
	for _, hk := range keys {
		out.Hdr = append(out.Hdr, [2]string{hk, strings.Join(resp.Header[hk], "\x00")})
	}
	tkeys := make([]string, 0, len(resp.Trailer))
	for tk, tv := range resp.Trailer {
		if len(tv) > 0 {
			tkeys = append(tkeys, tk)
		}
	}
	sort.Strings(tkeys)
	for _, tk := range tkeys {
		out.Trailer = append(out.Trailer, [2]string{tk, strings.Join(resp.Trailer[tk], "\x00")})
	}
	out.CE = resp.Header.Get("Content-Encoding")
	if k.Head {
		out.Decoded, out.DecOK = raw, len(raw) == 0 // a HEAD response carries no body, whatever its Content-Encoding says
	} else {
		out.Decoded, out.DecOK = decodeBody(out.CE, raw)
	}
	return out
}

// failHijackWriter has a Hijack method that fails; everything else goes to the writer underneath.
type failHijackWriter struct{ http.ResponseWriter }

func (w failHijackWriter) Hijack() (net.Conn, *bufio.ReadWriter, error) {
	return nil, nil, errors.New("connection cannot be hijacked")
}
func (w failHijackWriter) Flush() {
	if f, ok := w.ResponseWriter.(http.Flusher); ok {
		f.Flush()
	}
}

func hasOp(prog []opT, k string) bool {
	for _, o := range prog {
		if o.K == k {
			return true
		}
	}
	return false
}

// bareWriter hides every optional interface of the writer underneath (as a minimal logging / metrics wrapper does).
type bareWriter struct{ http.ResponseWriter }

// flushWriter forwards Flush and nothing else optional.
type flushWriter struct{ http.ResponseWriter }

func (w flushWriter) Flush() {
	if f, ok := w.ResponseWriter.(http.Flusher); ok {
		f.Flush()
	}
}

// lazyHeaderWriter hands out a private header map until the response is started (any WriteHeader, Write or Flush), copies
// it into the real map at that moment and hands out the real map from then on — the shape of the repository's timeout
// writer. Whoever asks Header() every time sees no difference from the bare writer; whoever keeps the map it got first
// talks to a map nobody reads once the response (or an informational response) has started.
type lazyHeaderWriter struct {
	http.ResponseWriter
	private http.Header
	started bool
}

func (w *lazyHeaderWriter) start() {
	if w.started {
		return
	}
	w.started = true
	real := w.ResponseWriter.Header()
	clear(real)
	for k, v := range w.private {
		real[k] = v
	}
}
func (w *lazyHeaderWriter) Header() http.Header {
	if w.started {
		return w.ResponseWriter.Header()
	}
	return w.private
}
func (w *lazyHeaderWriter) WriteHeader(code int) { w.start(); w.ResponseWriter.WriteHeader(code) }
func (w *lazyHeaderWriter) Write(b []byte) (int, error) {
	w.start()
	return w.ResponseWriter.Write(b)
}
func (w *lazyHeaderWriter) Flush() {
	w.start()
	if f, ok := w.ResponseWriter.(http.Flusher); ok {
		f.Flush()
	}
}

// recorderWriter is a first-call-wins status recorder (the shape of access-log / metrics / tracing writers):
// only the first WriteHeader — whatever its code — reaches the writer underneath.
type recorderWriter struct {
	http.ResponseWriter
	wrote bool
}

func (w *recorderWriter) WriteHeader(code int) {
	if w.wrote {
		return
	}
	w.wrote = true
	w.ResponseWriter.WriteHeader(code)
}
func (w *recorderWriter) Write(b []byte) (int, error) {
	w.wrote = true
	return w.ResponseWriter.Write(b)
}
func (w *recorderWriter) Flush() {
	if f, ok := w.ResponseWriter.(http.Flusher); ok {
		w.wrote = true
		f.Flush()
	}
}

// refuseWriter refuses exactly its n-th Write (a transient fault of a writer in front of the compression
// middleware); everything else goes through.
type refuseWriter struct {
	http.ResponseWriter
	n int
}

func (w *refuseWriter) Write(b []byte) (int, error) {
	w.n--
	if w.n == 0 {
		return 0, errors.New("write refused")
	}
	return w.ResponseWriter.Write(b)
}
func (w *refuseWriter) Flush() {
	if f, ok := w.ResponseWriter.(http.Flusher); ok {
		f.Flush()
	}
}

// wrapMW is another middleware that wraps the response writer.
func wrapMW(kind string) router.HandlerFunc {
	return func(c *router.Context) {
		orig := c.Response
		if strings.HasSuffix(kind, "noflush") {
			c.Response = bareWriter{orig}
		} else if strings.HasSuffix(kind, "recorder") {
			c.Response = &recorderWriter{ResponseWriter: orig}
		} else if strings.HasSuffix(kind, "realtimeout") {
			// the repository's own timeout middleware (a generous deadline that never expires): it installs its writer
			// and runs the rest of the chain in its own goroutine
			timeout.New(timeout.WithDuration(time.Minute), timeout.WithoutLogging())(c)
			return
		} else if strings.HasSuffix(kind, "lazyheader") {
			c.Response = &lazyHeaderWriter{ResponseWriter: orig, private: orig.Header().Clone()}
		} else if i := strings.Index(kind, "refuse-"); i >= 0 {
			n, _ := strconv.Atoi(kind[i+7:])
			c.Response = &refuseWriter{ResponseWriter: orig, n: n}
		} else {
			c.Response = flushWriter{orig}
		}
		if !strings.Contains(kind, "sticky") { // a sticky wrapper is never taken off again (as accesslog does)
			defer func() { c.Response = orig }()
		}
		c.Next()
	}
}

// envMW prepares what the Hj / Cx operations of the program need, in front of the compression middleware.
func envMW(prog []opT, res *runRes) router.HandlerFunc {
	hj, cx := hasOp(prog, "Hj"), hasOp(prog, "Cx")
	return func(c *router.Context) {
		if hj {
			orig := c.Response
			c.Response = failHijackWriter{orig}
			defer func() { c.Response = orig }()
		}
		if cx {
			ctx, cancel := context.WithCancel(c.Request.Context())
			defer cancel()
			c.Request = c.Request.WithContext(ctx)
			res.cancel = cancel
		}
		c.Next()
	}
}

// brokenWriter fails every Write (a client that went away).
type brokenWriter struct{ h http.Header }

func (b *brokenWriter) Header() http.Header       { return b.h }
func (b *brokenWriter) WriteHeader(int)           {}
func (b *brokenWriter) Write([]byte) (int, error) { return 0, errors.New("write: broken pipe") }
func (b *brokenWriter) Flush()                    {}

// poison serves a few responses whose underlying writer fails while they are being compressed, through the
// same options as the group that follows. Nothing is judged here: it only perturbs what later requests find
// (pooled encoders).
func poison(opt optT) {
	defer func() { recover() }() //nolint:errcheck
	r := router.MustNew()
	r.Use(compression.New(buildOpts(opt)...))
	r.GET("/x", func(c *router.Context) {
		w := c.Response
		w.Header().Set("Content-Type", "text/plain")
		w.Write(bytes.Repeat([]byte("x"), opt.MinSize+600)) //nolint:errcheck
		if f, ok := w.(http.Flusher); ok {
			f.Flush()
		}
		w.Write([]byte("more")) //nolint:errcheck
	})
	for _, ae := range []string{"gzip", "br", "gzip", "br"} {
		req, _ := http.NewRequest(http.MethodGet, "http://x/x", nil)
		req.Header.Set("Accept-Encoding", ae)
		r.ServeHTTP(&brokenWriter{h: http.Header{}}, req)
	}
}

// outer is a middleware in front of the compression middleware that sets response headers
// preMW performs one primitive on the writer as it finds it, then lets the chain go on.
func preMW(op *opT) router.HandlerFunc {
	return func(c *router.Context) {
		switch op.K {
		case "W":
			c.Response.WriteHeader(op.Code)
		case "B":
			c.Response.Write(op.Data) //nolint:errcheck
		case "F":
			if f, ok := c.Response.(http.Flusher); ok {
				f.Flush()
			}
		}
		c.Next()
	}
}

func outer(pre [][2]string, after func()) router.HandlerFunc {
	return func(c *router.Context) {
		for _, kv := range pre {
			c.Response.Header().Set(kv[0], kv[1])
		}
		if after != nil {
			after()
		}
		c.Next()
	}
}

func method(k *caseT) string {
	if k.Head {
		return http.MethodHead
	}
	return http.MethodGet
}

func dryRun(k *caseT) ([]primT, []int) {
	f := newFake()
	f.nw = make([]int, len(k.Prog)+1)
	r := router.MustNew()
	if k.Recovery {
		r.Use(recovery.New(recovery.WithoutLogging()))
	}
	if len(k.Pre) > 0 {
		r.Use(outer(k.Pre, func() { f.last = f.h.Clone() })) // initial headers, not handler operations
	}
	if k.Wrap != "" {
		r.Use(wrapMW(k.Wrap))
	}
	res := &runRes{}
	dh := func(c *router.Context) {
		if !k.Recovery {
			defer func() { recover() }() //nolint:errcheck // a program panic ends the dry run
		}
		runProg(c, k.Prog, res, f, nil)
	}
	if k.Head {
		r.HEAD(k.Path, dh)
	} else {
		r.GET(k.Path, dh)
	}
	req, _ := http.NewRequest(method(k), "http://x"+k.Path, nil)
	for _, kv := range k.ReqHdr {
		req.Header.Set(kv[0], kv[1])
	}
	r.ServeHTTP(f, req)
	f.sync()
	f.closeGroup()
	total := 0
	for _, p := range f.prims {
		if p.K == "B" || p.K == "C" {
			total++
		}
	}
	f.nw[len(k.Prog)] = total // last slot: number of write-like primitives of the whole exchange
	return f.prims, f.nw
}

// ---------------------------------------------------------------- case line

// encBytes: `h:<hex>` or, when the data has long runs, `z:<seg>.<seg>…` with seg = hex | <hexbyte>*<count>.
func encBytes(b []byte) string {
	if len(b) < 24 {
		return "h:" + hex.EncodeToString(b)
	}
	var segs []string
	lit := 0
	i := 0
	flush := func(to int) {
		if to > lit {
			segs = append(segs, hex.EncodeToString(b[lit:to]))
		}
	}
	for i < len(b) {
		j := i
		for j < len(b) && b[j] == b[i] {
			j++
		}
		if j-i >= 12 {
			flush(i)
			segs = append(segs, fmt.Sprintf("%02x*%d", b[i], j-i))
			lit = j
		}
		i = j
	}
	flush(len(b))
	if len(segs) == 1 && !strings.Contains(segs[0], "*") {
		return "h:" + segs[0]
	}
	return "z:" + strings.Join(segs, ".")
}

func take(b []byte, n int) []byte {
	if len(b) > n {
		return b[:n]
	}
	return b
}

func sniffTable(lists ...[]primT) [][2][]byte {
	seen := map[string]bool{}
	var tab [][2][]byte
	add := func(b []byte) {
		p := take(b, 512)
		if seen[string(p)] {
			return
		}
		seen[string(p)] = true
		ct := http.DetectContentType(p)
		if full := http.DetectContentType(b); full != ct {
			panic("http.DetectContentType looked beyond 512 bytes")
		}
		tab = append(tab, [2][]byte{append([]byte{}, p...), []byte(ct)})
	}
	add(nil)
	for _, prims := range lists {
		var cum []byte
		for _, p := range prims {
			switch p.K {
			case "B":
				add(p.Data)
				cum = append(cum, p.Data...)
				add(cum)
			case "C":
				for _, c := range p.Chunks {
					add(c)
					cum = append(cum, c...)
					add(cum)
				}
			}
		}
	}
	return tab
}

func writeResp(l *hx.Line, r respT) {
	switch r.Kind {
	case "P", "E":
		l.Tok(r.Kind)
		return
	}
	l.Tok("R").Nat(r.Status).Nat(len(r.Hdr))
	for _, kv := range r.Hdr {
		vs := strings.Split(kv[1], "\x00")
		l.Str(kv[0]).Nat(len(vs))
		for _, v := range vs {
			l.Str(v)
		}
	}
	l.Nat(len(r.Trailer))
	for _, kv := range r.Trailer {
		vs := strings.Split(kv[1], "\x00")
		l.Str(kv[0]).Nat(len(vs))
		for _, v := range vs {
			l.Str(v)
		}
	}
	l.Bool(len(r.Raw) > 2048) // a codec parameter: did the encoder's output overflow net/http's buffer
	if r.DecOK {
		l.Tok("1").Tok(encBytes(r.Decoded))
	} else {
		l.Tok("0")
	}
	l.Nat(len(r.Outs))
	for _, o := range r.Outs {
		l.Nat(o.Flag).I64(o.N).Nat(o.E)
	}
}

func modelTag() string {
	if os.Getenv("C15_MODEL") == "asis" {
		return "A"
	}
	return "N"
}

// contract-only cases (line tag K): the handler writes through the compression middleware onto a writer that fails —
// from its FailAt-th Write on (a connection that went away) or only then (a transient fault). There is no "same response
// without the middleware" on a failing connection; what is judged is the io.Writer clause of the statement on every
// result the handler sees: 0 <= n <= len(p), and n < len(p) only together with an error.
type contractT struct {
	Opt       optT
	AE        string
	CT        string // "" = no Content-Type set
	Sizes     []int
	FailAt    int
	Transient bool
}

type failingWriter struct {
	http.ResponseWriter
	calls, failAt int
	transient     bool
}

func (f *failingWriter) Write(b []byte) (int, error) {
	f.calls++
	if f.calls == f.failAt || (!f.transient && f.calls > f.failAt) {
		return 0, errors.New("connection went away")
	}
	return f.ResponseWriter.Write(b)
}

func (f *failingWriter) Flush() {}

func genContract(r *hx.Rand) *contractT {
	k := &contractT{AE: hx.Pick(r, []string{"gzip", "br", "gzip, br"}), CT: hx.Pick(r, []string{"text/plain", "", "application/json"}),
		FailAt: r.Range(1, 3), Transient: r.Chance(1, 3)}
	k.Opt.MinSize = hx.Pick(r, []int{0, 10, 64, 600, 1024})
	n := r.Range(1, 5)
	for i := 0; i < n; i++ {
		k.Sizes = append(k.Sizes, hx.Pick(r, []int{1, 6, 9, 10, 63, 64, 511, 512, 600, 1024, 5000, 70000, r.Range(1, 2000)}))
	}
	return k
}

func (k *contractT) emit(id string, st *hx.Stats) string {
	type res struct {
		l, n int
		ok   bool
	}
	var outs []res
	r := router.MustNew()
	r.Use(func(c *router.Context) {
		c.Response = &failingWriter{ResponseWriter: c.Response, failAt: k.FailAt, transient: k.Transient}
		c.Next()
	})
	r.Use(recovery.New(recovery.WithoutLogging()))
	r.Use(compression.New(buildOpts(k.Opt)...))
	r.GET("/p", func(c *router.Context) {
		if k.CT != "" {
			c.Response.Header().Set("Content-Type", k.CT)
		}
		for i, sz := range k.Sizes {
			p := bytes.Repeat([]byte{byte('a' + i)}, sz)
			n, err := c.Response.Write(p)
			outs = append(outs, res{sz, n, err == nil})
		}
	})
	req := httptest.NewRequest(http.MethodGet, "/p", nil)
	req.Header.Set("Accept-Encoding", k.AE)
	r.ServeHTTP(httptest.NewRecorder(), req)
	l := hx.NewLine(id).Tok("K").Tok(fmt.Sprintf("failAt=%d", k.FailAt)).Sep().Nat(len(outs))
	for _, o := range outs {
		l.Nat(o.l).Tok(strconv.Itoa(o.n)).Bool(o.ok)
	}
	if st != nil {
		st.Case(l.String(), true)
		st.Count("contract_only_failing_writer")
	}
	return l.String() + hx.Comment(caseT{Contract: k})
}

// emit runs one case (alone) and renders its line.
func emit(id string, k *caseT, st *hx.Stats) string {
	if k.Contract != nil {
		return k.Contract.emit(id, st)
	}
	if len(k.Group) > 0 {
		// replay of one member of an overlap group: the whole group runs again, this member's line is printed
		return emitGroup(id, k.Group, st, k.Idx, k.Poison, k.Seq)[0]
	}
	prims, nw := dryRun(k)
	plain := realRun(k, false, nw)
	with := realRun(k, true, nw)
	return render(id, k, prims, plain, with, st, k)
}

// emitGroup runs the members overlapped (and each one alone without the middleware) and renders one
// line per member (only member `only` when only >= 0). Ids are <id>-o<i>.
func emitGroup(id string, group []caseT, st *hx.Stats, only int, poisoned, seq bool) []string {
	if poisoned {
		poison(group[0].Opt)
		if st != nil {
			st.Count("overlap_group_after_failed_writes")
		}
	}
	prims := make([][]primT, len(group))
	nws := make([][]int, len(group))
	plains := make([]respT, len(group))
	for i := range group {
		group[i].Opt = group[0].Opt // one middleware instance
		prims[i], nws[i] = dryRun(&group[i])
		plains[i] = realRun(&group[i], false, nws[i])
	}
	withs := overlapRun(group, nws, seq)
	var out []string
	for i := range group {
		if only >= 0 && i != only {
			continue
		}
		mid := id
		if only < 0 {
			mid = fmt.Sprintf("%s-o%d", id, i)
		}
		full := &caseT{Group: group, Idx: i, Poison: poisoned, Seq: seq}
		out = append(out, render(mid, &group[i], prims[i], plains[i], withs[i], st, full))
		if st != nil {
			if seq {
				st.Count("sequence_member")
			} else {
				st.Count("overlap_member")
			}
		}
	}
	return out
}

func render(id string, k *caseT, prims []primT, plain, with respT, st *hx.Stats, comment *caseT) string {
	o := k.Opt
	var l *hx.Line
	if len(o.Seq) > 0 && modelTag() == "N" {
		l = hx.NewLine(id).Tok("O").Nat(len(o.Seq))
		for _, it := range o.Seq {
			l.Tok(it.K)
			switch it.K {
			case "gl", "bl", "ms":
				l.Tok(strconv.Itoa(it.N))
			case "ep", "ee", "ect":
				l.Strs(it.L)
			}
		}
		if st != nil {
			st.Count("options_as_sequence")
		}
	} else {
		l = hx.NewLine(id).Tok(modelTag())
		l.Nat(o.MinSize).Bool(!o.NoGzip).Bool(!o.NoBr).Strs(o.ExclCT).Strs(o.ExclPaths).Strs(o.ExclExts)
	}
	l.Str(k.Path)
	if k.AE != nil {
		l.Str(*k.AE)
	} else {
		l.Str("")
	}
	l.Bool(k.Recovery)
	l.Bool(k.Head)
	pre := map[string]string{}
	for _, kv := range k.Pre {
		pre[http.CanonicalHeaderKey(kv[0])] = kv[1]
	}
	pk := make([]string, 0, len(pre))
	for key := range pre {
		pk = append(pk, key)
	}
	sort.Strings(pk)
	l.Nat(len(pk))
	for _, key := range pk {
		l.Str(key).Nat(1).Str(pre[key])
	}
	var prePrims []primT
	if k.PreOp != nil {
		prePrims = []primT{{K: k.PreOp.K, Code: k.PreOp.Code, Data: k.PreOp.Data}}
	}
	tab := sniffTable(append(append([]primT(nil), prePrims...), prims...), prims)
	l.Nat(len(tab))
	for _, e := range tab {
		l.Tok(encBytes(e[0])).Bytes(e[1])
	}
	if k.PreOp != nil {
		l.Nat(len(prims) + 2)
		switch k.PreOp.K {
		case "W":
			l.Tok("W").Nat(k.PreOp.Code)
		case "B":
			l.Tok("B").Tok(encBytes(k.PreOp.Data))
		case "F":
			l.Tok("F")
		}
		l.Tok("Z")
		if st != nil {
			st.Count("outer_middleware_used_the_writer_first")
		}
	} else {
		l.Nat(len(prims))
	}
	nWrites, explicit, nFlush, total, lateEdit := 0, false, 0, 0, false
	committed := false
	for _, p := range prims {
		l.Tok(p.K)
		switch p.K {
		case "H":
			l.Str(p.Key).Strs(p.Vals)
			lateEdit = lateEdit || committed
		case "D":
			l.Str(p.Key)
			lateEdit = lateEdit || committed
		case "W":
			l.Nat(p.Code)
			explicit = true
			committed = true
		case "B":
			l.Tok(encBytes(p.Data))
			nWrites++
			total += len(p.Data)
			committed = true
		case "C":
			l.Nat(len(p.Chunks))
			for _, c := range p.Chunks {
				l.Tok(encBytes(c))
				total += len(c)
			}
			nWrites += len(p.Chunks)
			committed = true
		case "F":
			nFlush++
			committed = true
		}
	}
	in := l.String()
	l.Sep()
	writeResp(l, plain)
	writeResp(l, with)
	if st != nil {
		st.Case(in[len(id):], nWrites >= 2 || !explicit)
		st.Count("with_" + with.Kind)
		if with.Kind == "R" {
			if with.CE == "" {
				st.Count("enc_none")
			} else {
				st.Count("enc_" + with.CE)
			}
		}
		switch {
		case o.MinSize == 0:
			st.Count("min_0")
		case o.MinSize <= 64:
			st.Count("min_1..64")
		case o.MinSize <= 512:
			st.Count("min_65..512")
		default:
			st.Count("min_513..4096")
		}
		if total >= o.MinSize && o.MinSize > 0 {
			st.Count("body_reaches_min")
		}
		if nFlush > 0 {
			st.Count("has_flush")
		}
		if lateEdit {
			st.Count("header_edit_after_commit")
		}
		if k.AE != nil && strings.Contains(*k.AE, "Q=") {
			st.Count("ae_uppercase_weight")
		}
		if len(k.Pre) > 0 {
			st.Count("outer_headers")
		}
		if k.Head {
			st.Count("head_request")
		}
		if k.Wrap != "" {
			st.Count("wrap_" + k.Wrap)
		}
		for _, kv := range k.ReqHdr {
			st.Count("req_" + kv[0])
		}
		if with.Kind == "R" && plain.Kind == "R" && with.CE != plain.CE {
			st.Count("compressed")
		}
		if !explicit {
			st.Count("no_explicit_status")
		}
		if nWrites >= 2 {
			st.Count("writes_ge2")
		}
		if nWrites == 0 {
			st.Count("writes_0")
		}
		for _, op := range k.Prog {
			st.Count("op_" + op.K)
		}
		st.Count("nprims_" + strconv.Itoa(min(len(prims), 12)))
	}
	return l.String() + hx.Comment(comment)
}

func main() {
	a := hx.ParseArgs()
	w := hx.Out()
	defer w.Flush()
	startServer()
	switch a.Cmd {
	case "gen":
		r := hx.NewRand(a.Seed)
		st := hx.NewStats()
		for i, k := range fixedCases() {
			fmt.Fprintln(w, emit(fmt.Sprintf("c15-fix-%d", i), k, st))
		}
		if os.Getenv("C15_MODEL") != "asis" {
			// a held-back write, then the write that takes the decision on a writer that fails at once
			for i, k := range []*contractT{
				{Opt: optT{MinSize: 10}, AE: "gzip", CT: "text/plain", Sizes: []int{6, 9, 3}, FailAt: 1},
				{Opt: optT{MinSize: 600}, AE: "br", CT: "", Sizes: []int{511, 512}, FailAt: 1, Transient: true},
				{Opt: optT{MinSize: 0}, AE: "gzip", CT: "text/plain", Sizes: []int{70000, 10}, FailAt: 2}} {
				fmt.Fprintln(w, k.emit(fmt.Sprintf("c15-fixk-%d", i), st))
			}
		}
		for i, g := range fixedGroups() {
			for _, line := range emitGroup(fmt.Sprintf("c15-fixg-%d", i), g, st, -1, i%2 == 1, false) {
				fmt.Fprintln(w, line)
			}
		}
		for i := 0; i < a.N; i++ {
			if os.Getenv("C15_MODEL") != "asis" && i%25 == 7 {
				// overlap kind: 2–3 requests at the same time through one middleware instance
				for _, line := range emitGroup(fmt.Sprintf("c15-%d-%d", a.Seed, i), genGroup(r), st, -1, r.Chance(1, 2), false) {
					fmt.Fprintln(w, line)
				}
				continue
			}
			if os.Getenv("C15_MODEL") != "asis" && i%25 == 19 {
				// sequence kind: 3–5 different requests one after the other through one middleware instance
				for _, line := range emitGroup(fmt.Sprintf("c15-%d-%d", a.Seed, i), genSeq(r, a.Tier), st, -1, false, true) {
					fmt.Fprintln(w, line)
				}
				continue
			}
			if os.Getenv("C15_MODEL") != "asis" && i%25 == 13 {
				fmt.Fprintln(w, genContract(r).emit(fmt.Sprintf("c15-%d-%d", a.Seed, i), st))
				continue
			}
			k := genCase(r, a.Tier)
			fmt.Fprintln(w, emit(fmt.Sprintf("c15-%d-%d", a.Seed, i), k, st))
		}
		st.Emit(w)
	case "replay":
		for _, line := range hx.StdinLines() {
			var k caseT
			id, err := hx.CaseFromComment(line, &k)
			if err != nil {
				fmt.Fprintf(w, "# cannot replay %q: %v\n", id, err)
				continue
			}
			fmt.Fprintln(w, emit(id, &k, nil))
		}
	}
}
