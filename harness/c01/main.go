// Harness for C01 (route dispatch). Builds a real router from a registration script through the public
// API (GET/POST/…, Group, Where*, NoRoute), sends one request through ServeHTTP with httptest, and
// reports what the handler that ran saw. Case lines are read by lean/Rivaas/Driver/C01.lean.
package main

import (
	"fmt"
	"strings"

	"verif/harness/hx"
	"verif/harness/rtgen"
)

func emit(id string, c rtgen.CaseT, st *hx.Stats) string {
	ask := rtgen.AskNames(c.Script)
	return emitObs(id, c, ask, rtgen.Observe(c, ask), st)
}

// emitObs writes the case line for an observation already made (sessions serve several requests on
// one router and emit one line per request).
func emitObs(id string, c rtgen.CaseT, ask []string, o rtgen.ObsT, st *hx.Stats) string {
	l := hx.NewLine(id)
	rtgen.InputTokens(l, c, ask)
	in := l.String()
	l.Sep()
	rtgen.ObsTokens(l, o, ask)
	if !o.Panic {
		l.Bool(o.Exists)
	}
	if st != nil {
		st.Case(in[len(id):], rtgen.Compatible(c) >= 2 || o.Status == 405)
		switch {
		case o.Panic:
			st.Count("outcome_panic")
		case o.Ran >= 0:
			st.Count("outcome_route")
		case o.NoRoute:
			st.Count("outcome_noroute")
		default:
			st.Count(fmt.Sprintf("outcome_%d", o.Status))
		}
		st.Count(fmt.Sprintf("routes_%02d", min(len(c.Script), 13)))
		if strings.Contains(c.Req.Path, "//") || (len(c.Req.Path) > 1 && strings.HasSuffix(c.Req.Path, "/")) || !strings.HasPrefix(c.Req.Path, "/") {
			st.Count("path_noncanonical")
		} else {
			st.Count("path_canonical")
		}
		if len(o.Params) > 8 {
			st.Count("params_over_8")
		}
		if len(o.Params) > 0 {
			st.Count("params_some")
		}
		if c.Warm {
			st.Count("script_warmup_before_registrations")
		}
		if len(c.Prev) > 0 {
			st.Count("request_not_first_on_router")
		}
		if c.Req.Cancelled {
			st.Count("request_context_cancelled")
		}
		for _, q := range c.Prev {
			if q.PanicIn {
				st.Count("request_after_a_failing_handler")
				break
			}
		}
		if len(c.Burst) > 0 {
			st.Count("request_in_concurrent_burst")
		}
		if c.Overlap != nil {
			st.Count("request_overlapping_" + c.Overlap.Kind)
		}
		for _, g := range c.Script {
			rej := false
			for _, k := range g.Cons {
				rej = rej || k.Kind == "rejected"
			}
			if rej {
				st.Count("script_with_rejected_where")
				break
			}
		}
		if len(c.Req.Path) >= 64 {
			st.Count("path_ge_64_bytes")
		}
		for _, g := range c.Script {
			if len(g.Groups) > 0 {
				st.Count("script_with_groups")
				break
			}
		}
		for _, g := range c.Script {
			if len(g.Cons) > 0 {
				st.Count("script_with_constraints")
				break
			}
		}
		for _, g := range c.Script {
			if strings.HasSuffix(g.FullPath(), "/*") {
				st.Count("script_with_wildcard")
				break
			}
		}
		for _, g := range c.Script {
			if g.MountSub > 0 {
				st.Count("script_with_mounted_subrouter")
				break
			}
		}
		if c.Req.Raw != "" {
			st.Count("request_target_with_needless_escapes")
		}
		if rtgen.HasStatic(c.Script) {
			st.Count("script_with_static_file_route")
		}
	}
	return l.String() + hx.Comment(c)
}

func reg(m, p string, cons ...rtgen.ConsT) rtgen.RegT {
	return rtgen.RegT{Method: m, Path: p, Cons: cons}
}

// fixed witnesses: the findings of DESIGN.md §7 for C01 and boundary cases, before any random case
func fixed() []rtgen.CaseT {
	G := "GET"
	k01a := []rtgen.RegT{reg(G, "/a/:x/b"), reg(G, "/a/:y/c")}
	k01b := []rtgen.RegT{reg(G, "/users/:id/posts"), reg(G, "/users/admin/:x/y")}
	k01c := []rtgen.RegT{reg(G, "/u/:id", rtgen.ConsT{Name: "id", Kind: "int"}), reg(G, "/u/:name", rtgen.ConsT{Name: "name", Kind: "regex", Arg: "[a-z]+"})}
	k01d := []rtgen.RegT{reg(G, "/users/:id/files/*")}
	cfall := []rtgen.RegT{reg(G, "/u/:id", rtgen.ConsT{Name: "id", Kind: "int"}), reg(G, "/u/*")}
	nine := []rtgen.RegT{reg(G, "/:p1/:p2/:p3/:p4/:p5/:p6/:p7/:p8/:p9/:x", rtgen.ConsT{Name: "p9", Kind: "int"}, rtgen.ConsT{Name: "x", Kind: "where", Arg: "[a-c]+"}, rtgen.ConsT{Name: "p1", Kind: "int"}, rtgen.ConsT{Name: "p5", Kind: "int"})}
	multi := []rtgen.RegT{reg(G, "/r/:id"), reg("POST", "/r/:id"), reg("DELETE", "/r/:id", rtgen.ConsT{Name: "id", Kind: "int"}), reg("PUT", "/r/list")}
	grp := []rtgen.RegT{{Method: G, Groups: []string{"/api", "/v1"}, Path: "/users/:id"}, {Method: G, Groups: []string{"/api"}, Path: ""}}
	k01e := []rtgen.RegT{reg(G, "/f/:id/*", rtgen.ConsT{Name: "id", Kind: "int"}), reg("POST", "/g/*", rtgen.ConsT{Name: "filepath", Kind: "where", Arg: `[a-z/]+`})}
	long64 := "/documentation-and-reference-material/administration/zzzzzzzzzzzz"
	longs := []rtgen.RegT{reg(G, long64), reg(G, "/documentation-and-reference-material/administration/:x")}
	items := []rtgen.RegT{reg(G, "/items/:id"), reg("DELETE", "/items/:id", rtgen.ConsT{Name: "id", Kind: "int"}), reg("POST", "/items/new")}
	warm := []rtgen.RegT{reg(G, "/posts/:year/:slug", rtgen.ConsT{Name: "year", Kind: "int"}, rtgen.ConsT{Name: "slug", Kind: "regex", Arg: "[a-z-]+"})}
	p8 := "/:p1/:p2/:p3/:p4/:p5/:p6/:p7/:p8"
	ovfNames := []rtgen.RegT{reg(G, p8+"/:x/k"), reg(G, p8+"/:y/:x/m", rtgen.ConsT{Name: "y", Kind: "int"}, rtgen.ConsT{Name: "x", Kind: "int"}),
		reg(G, p8+"/:z/w/*", rtgen.ConsT{Name: "z", Kind: "int"})}
	deep := []rtgen.RegT{reg(G, "/a/:x/b/c"), reg(G, "/a/:p/*"), reg(G, "/a/b/:q/c", rtgen.ConsT{Name: "q", Kind: "int"}), reg(G, "/:r/:s")}
	ovfBack := []rtgen.RegT{reg(G, p8+"/:x", rtgen.ConsT{Name: "x", Kind: "int"}), reg(G, "/:p1/:p2/*")}
	grpRoot := []rtgen.RegT{{Method: G, Groups: []string{"/api"}, Path: "/"}, {Method: "POST", Groups: []string{"/api"}, Path: ""}, {Method: G, Groups: []string{"/api", "/v1"}, Path: "/"}}
	mnt := func(m, prefix, sub string, idx int, cons ...rtgen.ConsT) rtgen.RegT {
		return rtgen.RegT{Method: m, Cons: cons, MountSub: 1, MountPrefix: prefix, SubPath: sub, SubIdx: idx, Path: rtgen.MountJoin(prefix, sub)}
	}
	mounted := []rtgen.RegT{reg(G, "/api/health"),
		mnt(G, "/api/v1", "/users/:id", 0), mnt(G, "/api/v1", "/", 1), mnt("DELETE", "/api/v1", "/users/:id", 2, rtgen.ConsT{Name: "id", Kind: "int"}),
		mnt(G, "/api/latest/", "/users/:id", 0), mnt(G, "/api/latest/", "/", 1), mnt("DELETE", "/api/latest/", "/users/:id", 2, rtgen.ConsT{Name: "id", Kind: "int"})}
	renamed := []rtgen.RegT{reg(G, "/u/:id/:tab", rtgen.ConsT{Name: "id", Kind: "int"}), reg(G, "/u/:name/profile", rtgen.ConsT{Name: "name", Kind: "regex", Arg: "[a-z]+"})}
	st2 := func(sp string) []rtgen.RegT {
		return []rtgen.RegT{{Method: G, Path: rtgen.StaticPattern(sp), Static: sp}, {Method: "HEAD", Path: rtgen.StaticPattern(sp), Static: sp}}
	}
	statics := append(append(append(append([]rtgen.RegT{reg(G, "/assets/:id")}, st2("/assets/*")...), st2("files")...), st2("/img/")...), st2("/css")...)
	ovfDrop := []rtgen.RegT{reg(G, p8+"/:x/k"), reg(G, p8+"/*"), reg(G, p8+"/:y/:z/w")}
	mk := func(s []rtgen.RegT, m, p string, nr bool) rtgen.CaseT {
		return rtgen.CaseT{Script: s, Req: rtgen.ReqT{Method: m, Path: p}, NoRoute: nr}
	}
	return []rtgen.CaseT{
		mk(k01a, G, "/a/1/c", false), mk(k01a, G, "/a/1/b", false),
		mk(k01b, G, "/users/admin/posts", false), mk(k01b, G, "/users/7/posts", false),
		mk(k01c, G, "/u/123", false), mk(k01c, G, "/u/abc", false),
		mk(k01d, G, "/users/42/files/a/b.txt", false), mk(k01d, G, "/users/:id/files/a/b.txt", false),
		mk(cfall, G, "/u/abc", false), mk(cfall, G, "/u/12", false),
		mk(nine, G, "/1/2/3/4/5/6/7/8/9/abc", false), mk(nine, G, "/1/2/3/4/5/6/7/8/x/abc", false),
		mk(multi, "PATCH", "/r/7", false), mk(multi, "PATCH", "/r/x", true), mk(multi, "PATCH", "/r/list", false),
		mk(multi, "PATCH", "/nothing", true), mk(multi, "PATCH", "/nothing", false), mk(multi, "TRACE", "/r/7", false),
		mk(grp, G, "/api/v1/users/9", false), mk(grp, G, "/api", false), mk(grp, G, "/api/", false),
		mk([]rtgen.RegT{reg(G, "/"), reg(G, "/*")}, G, "/", false), mk([]rtgen.RegT{reg(G, "/*")}, G, "/x/y/", false),
		mk(longs, G, long64, false), mk(longs, "PUT", long64, false),
		{Script: items, Req: rtgen.ReqT{Method: "PUT", Path: "/items/abc"}, Prev: []rtgen.ReqT{{Method: "PUT", Path: "/items/42"}}},
		{Script: items, Req: rtgen.ReqT{Method: "POST", Path: "/items/7"}, Prev: []rtgen.ReqT{{Method: "PATCH", Path: "/items/new"}}},
		{Script: warm, Req: rtgen.ReqT{Method: G, Path: "/posts/2024/Hello_World"}, Warm: true, WarmupAt: 0},
		{Script: warm, Req: rtgen.ReqT{Method: G, Path: "/posts/2024/hello-world"}, Warm: true, WarmupAt: 0},
		mk([]rtgen.RegT{reg(G, "/t/:s", rtgen.ConsT{Name: "s", Kind: "enum", Arg: "open|closed|void"})}, G, "/t/opened", false),
		mk([]rtgen.RegT{reg(G, "/t/:s", rtgen.ConsT{Name: "s", Kind: "enum", Arg: "open|closed|void"})}, "PUT", "/t/unclosed", false),
		mk([]rtgen.RegT{reg(G, "/t/:s", rtgen.ConsT{Name: "s", Kind: "enum", Arg: "open|closed|void"})}, G, "/t/closed", false),
		mk([]rtgen.RegT{reg(G, "/f/*")}, G, "/f/a/../b.txt", false), mk([]rtgen.RegT{reg(G, "/f/*")}, G, "/f/v1..2/", false),
		mk([]rtgen.RegT{reg(G, "/w/:id", rtgen.ConsT{Name: "id", Kind: "where", Arg: `\d+`}, rtgen.ConsT{Name: "id", Kind: "where", Arg: `[a-z0-9]+`})}, G, "/w/abc", false),
		mk([]rtgen.RegT{reg(G, "/w/:id", rtgen.ConsT{Name: "id", Kind: "where", Arg: `\d+`}, rtgen.ConsT{Name: "id", Kind: "where", Arg: `[a-z0-9]+`})}, "PUT", "/w/abc", false),
		// a rejected Where (pattern does not compile, caller recovers) on a live route, then an accepted one
		{Script: []rtgen.RegT{reg(G, "/users/:id", rtgen.ConsT{Name: "id", Kind: "rejected", Arg: "[0-9"}, rtgen.ConsT{Name: "id", Kind: "where", Arg: "[0-9]+"})}, Req: rtgen.ReqT{Method: G, Path: "/users/abc"}, Warm: true, WarmupAt: 0},
		{Script: []rtgen.RegT{reg(G, "/users/:id", rtgen.ConsT{Name: "id", Kind: "rejected", Arg: "("}, rtgen.ConsT{Name: "id", Kind: "int"})}, Req: rtgen.ReqT{Method: G, Path: "/users/abc"}, Warm: true, WarmupAt: 0},
		// nobody's route, request context already cancelled: still 405 + Allow / 404 / NoRoute
		{Script: k01d, Req: rtgen.ReqT{Method: "POST", Path: "/users/7/files/a", Cancelled: true}},
		{Script: k01d, Req: rtgen.ReqT{Method: G, Path: "/nothing", Cancelled: true}},
		{Script: k01d, Req: rtgen.ReqT{Method: G, Path: "/nothing", Cancelled: true}, NoRoute: true},
		mk(k01e, G, "/f/abc/x", false), mk(k01e, G, "/f/12/x/y", false), mk(k01e, "POST", "/g/a/b", false), mk(k01e, "POST", "/g/a/7", false), mk(k01e, "PUT", "/g/a/7", false),
		mk([]rtgen.RegT{reg(G, "/s/*"), reg(G, "/s/:x")}, G, "/s/1", false), mk([]rtgen.RegT{reg(G, "/s/*")}, G, "/s", false),
		// K01a (repaired): values are named after the matched route's own pattern, past the 8 inline slots too
		// (the shared 9th param node holds the name x of the first route; the second route calls that position y
		// and its own 10th parameter x; a wildcard route names the 9th position z and captures the rest)
		mk(ovfNames, G, "/1/2/3/4/5/6/7/8/9/10/m", false), mk(ovfNames, G, "/1/2/3/4/5/6/7/8/nine/10/m", false),
		mk(ovfNames, G, "/1/2/3/4/5/6/7/8/9/k", false), mk(ovfNames, G, "/1/2/3/4/5/6/7/8/9/w/a/b", false),
		mk(ovfNames, "PUT", "/1/2/3/4/5/6/7/8/9/10/m", false),
		// K01b / K01f (repaired): the descent backtracks. A static edge that leads nowhere hands over to the
		// parameter sibling and further up to a wildcard (captures of the abandoned alternative dropped); a leaf
		// that rejects (also one whose 9th parameter was already entered into Params) hands over to a wildcard
		// nearer the root, and the handler must not see the rejected leaf's parameters
		mk(deep, G, "/a/1/b/d", false), mk(deep, G, "/a/1/b/c", false), mk(deep, G, "/a/b/b/c", false), mk(deep, G, "/a/1", false),
		mk(ovfBack, G, "/1/2/3/4/5/6/7/8/abc", false), mk(ovfBack, G, "/1/2/3/4/5/6/7/8/9", false), mk(ovfBack, "PUT", "/1/2/3/4/5/6/7/8/abc", false),
		mk(k01b, G, "/users/admin/q/y", false), mk(k01b, "PUT", "/users/admin/posts", false),
		// a group's own root: g.GET("") is the prefix, g.GET("/") the prefix with a trailing slash (two different routes)
		mk(grpRoot, G, "/api", false), mk(grpRoot, G, "/api/", false), mk(grpRoot, "POST", "/api/", false), mk(grpRoot, G, "/api/v1/", false), mk(grpRoot, G, "/api/v1", false),
		// a sub-router mounted twice (both prefixes serve all its routes; "/" is the prefix itself), next to a direct route
		mk(mounted, G, "/api/v1/users/7", false), mk(mounted, G, "/api/latest/users/7", false), mk(mounted, G, "/api/latest", false),
		mk(mounted, "POST", "/api/latest/users/7", false), mk(mounted, G, "/api/v1/", false), mk(mounted, "DELETE", "/api/latest/users/x", false),
		// a sibling that names the shared parameter position differently rejects (its constraint fails); the
		// fallback that is served afterwards reads its own names, nothing of the rejected sibling's
		mk(renamed, G, "/u/42/profile", false), mk(renamed, G, "/u/bob/profile", false), mk(renamed, G, "/u/42/x", false), mk(renamed, "PUT", "/u/42/profile", false),
		// r.StaticFS in its four spellings: GET and HEAD of prefix/*; other methods 405 with Allow: GET, HEAD
		mk(statics, G, "/assets/js/app.js", false), mk(statics, "HEAD", "/assets/js/app.js", false), mk(statics, "POST", "/assets/x", false),
		mk(statics, G, "/files/a", false), mk(statics, G, "/img/logo.png", false), mk(statics, G, "/css/a/b/", false), mk(statics, G, "/assets", false), mk(statics, G, "/css/x", true),
		// an abandoned alternative's capture past the inline slots is dropped too
		mk(ovfDrop, G, "/1/2/3/4/5/6/7/8/9/m", false), mk(ovfDrop, G, "/1/2/3/4/5/6/7/8/9/k", false), mk(ovfDrop, G, "/1/2/3/4/5/6/7/8/9/10/11", false),
	}
}

func main() {
	a := hx.ParseArgs()
	w := hx.Out()
	defer w.Flush()
	switch a.Cmd {
	case "gen":
		r := hx.NewRand(a.Seed)
		st := hx.NewStats()
		for i, c := range fixed() {
			fmt.Fprintln(w, emit(fmt.Sprintf("c01-fix-%d", i), c, st))
		}
		maxRoutes, perScript := 12, 40
		if a.Tier == "thorough" {
			maxRoutes, perScript = 25, 60
		}
		for i := 0; i < a.N; {
			script := rtgen.GenScript(r, maxRoutes)
			nr := r.Chance(1, 4)
			base := rtgen.CaseT{NoRoute: nr, Script: script}
			if r.Chance(1, 4) { // warm-up in the middle of (or before) the registrations
				base.Warm = true
				base.WarmupAt = r.Intn(len(script) + 1)
				if r.Chance(1, 3) {
					base.WarmupAt = 0
				}
			}
			ask := rtgen.AskNames(script)
			for j := 0; j < perScript && i < a.N; {
				// a session: several requests on one router instance, each judged on its own
				reqs := rtgen.GenSession(r, script)
				if r.Chance(1, 5) {
					reqs = []rtgen.ReqT{rtgen.GenReq(r, script)}
				}
				for k := range reqs {
					if r.Chance(1, 8) { // the handler that answers this one fails after answering
						reqs[k].PanicIn = true
					}
				}
				sess := rtgen.NewSession(base, ask)
				for k, q := range reqs {
					if j >= perScript || i >= a.N {
						break
					}
					c := base
					c.Req = q
					c.Prev = reqs[:k:k]
					o := sess.Serve(q)
					fmt.Fprintln(w, emitObs(fmt.Sprintf("c01-%d-%d", a.Seed, i), c, ask, o, st))
					i++
					j++
					if o.Ran < 0 && !o.Panic && r.Chance(1, 3) {
						// nobody's route: the same request once more, its context already cancelled
						c.Prev = reqs[: k+1 : k+1]
						c.Req.Cancelled = true
						fmt.Fprintln(w, emitObs(fmt.Sprintf("c01-%d-%dx", a.Seed, i), c, ask, sess.Serve(c.Req), st))
						i++
						j++
					}
				}
			}
			if !rtgen.HasStatic(script) && r.Chance(1, 2) && i < a.N {
				// two requests in flight on one router, one of them held (and possibly failing) at a chosen point
				kind := hx.Pick(r, []string{"handler", "end-slow", "end-panic", "end-panic"})
				qa, qb := rtgen.GenReq(r, script), rtgen.GenReq(r, script)
				ca := base
				ca.Req = qa
				ca.Overlap = &rtgen.OverlapT{Kind: kind, Role: "A", Other: qb}
				cb := base
				cb.Req = qb
				cb.Overlap = &rtgen.OverlapT{Kind: kind, Role: "B", Other: qa}
				oa, ob := rtgen.NewSession(ca, ask).ServeOverlap(kind, qa, qb)
				fmt.Fprintln(w, emitObs(fmt.Sprintf("c01-%d-%doa", a.Seed, i), ca, ask, oa, st))
				fmt.Fprintln(w, emitObs(fmt.Sprintf("c01-%d-%dob", a.Seed, i), cb, ask, ob, st))
				i += 2
			}
			if r.Chance(1, 25) && i < a.N {
				// a wide node under concurrent requests: every different answer to a request is a case
				ws, reqs := rtgen.GenWide(r)
				wb := rtgen.CaseT{NoRoute: nr, Script: ws}
				wask := rtgen.AskNames(ws)
				for k, obs := range rtgen.NewSession(wb, wask).ServeBurst(reqs, rtgen.BurstWorkers, rtgen.BurstRounds) {
					for n, o := range obs {
						c := wb
						c.Req = reqs[k]
						c.Burst = append(append([]rtgen.ReqT(nil), reqs[:k]...), reqs[k+1:]...)
						fmt.Fprintln(w, emitObs(fmt.Sprintf("c01-%d-%db%d", a.Seed, i, n), c, wask, o, st))
						i++
					}
				}
			}
		}
		st.Emit(w)
	case "replay":
		rtgen.BurstTries = 5
		for _, line := range hx.StdinLines() {
			var c rtgen.CaseT
			id, err := hx.CaseFromComment(line, &c)
			if err != nil {
				fmt.Fprintf(w, "# cannot replay %q: %v\n", id, err)
				continue
			}
			fmt.Fprintln(w, emit(id, c, nil))
		}
	}
}
