// Harness for C11 (route compilation is transparent). Two real routers are built from the same
// registration script — the plain tree engine and the configured engine (WithRouteCompilation(true),
// WithBloomFilterSize, WithBloomFilterHashFunctions, optionally every route inside a version tree) —
// and the same request is sent through both. Case lines are read by lean/Rivaas/Driver/C11.lean.
package main

import (
	"fmt"
	"strings"

	"verif/harness/hx"
	"verif/harness/rtgen"
)

func baseOf(c rtgen.CaseT) rtgen.CaseT {
	base := c
	base.Eng = rtgen.EngineT{Version: c.Eng.Version}
	return base
}

func emit(id string, c rtgen.CaseT, st *hx.Stats) string {
	ask := rtgen.AskNames(c.Script)
	return emitObs(id, c, ask, rtgen.Observe(baseOf(c), ask), rtgen.Observe(c, ask), st)
}

// emitObs writes the case line for a pair of observations already made (plain engine, configured engine)
func emitObs(id string, c rtgen.CaseT, ask []string, oa, ob rtgen.ObsT, st *hx.Stats) string {
	l := hx.NewLine(id)
	l.Bool(c.Eng.Compiled).Nat(int(c.Eng.BloomSize)).Nat(c.Eng.BloomK).Bool(c.Eng.Version != "")
	if c.Warm && c.WarmupAt <= len(c.Script) { // explicit Warmup() before registration WarmupAt
		l.Nat(c.WarmupAt + 1)
	} else {
		l.Nat(0)
	}
	rtgen.InputTokens(l, c, ask)
	in := l.String()
	l.Sep()
	rtgen.ObsTokens(l, oa, ask)
	rtgen.ObsTokens(l, ob, ask)
	if st != nil {
		st.Case(in[len(id):], rtgen.Compatible(c) >= 2 || oa.Status == 405)
		switch {
		case ob.Panic:
			st.Count("outcome_panic")
		case ob.Ran >= 0:
			st.Count("outcome_route")
		case ob.NoRoute:
			st.Count("outcome_noroute")
		default:
			st.Count(fmt.Sprintf("outcome_%d", ob.Status))
		}
		dyn, stat := 0, 0
		for _, g := range c.Script {
			p := g.FullPath()
			if strings.Contains(p, ":") {
				dyn++
			} else if !strings.HasSuffix(p, "*") {
				stat++
			}
		}
		if dyn >= 10 {
			st.Count("dynamic_routes_ge10_index_built")
		} else {
			st.Count("dynamic_routes_lt10")
		}
		if stat >= 10 {
			st.Count("static_routes_ge10_bloom_used")
		} else {
			st.Count("static_routes_lt10")
		}
		if c.Req.Cancelled {
			st.Count("request_context_cancelled")
		}
		if len(c.Prev) > 0 {
			st.Count("request_not_first_on_router")
		}
		for _, q := range c.Prev {
			if q.PanicIn {
				st.Count("request_after_a_failing_handler")
				break
			}
		}
		if len(c.Burst) > 0 {
			st.Count("request_in_concurrent_burst")
		}
		if c.Overlap != nil {
			st.Count("request_overlapping_" + c.Overlap.Kind)
		}
		if c.Warm {
			st.Count("script_warmup_before_registrations")
			if c.Eng.Version != "" {
				st.Count("version_tree_warmup_before_registrations")
			}
		}
		if c.Eng.Version != "" {
			st.Count("engine_version_tree")
		} else {
			st.Count("engine_main_tree")
		}
		switch {
		case c.Eng.BloomSize == 0:
			st.Count("bloom_default")
		case c.Eng.BloomSize < 100:
			st.Count("bloom_size_lt100")
		default:
			st.Count("bloom_size_ge100")
		}
		if len(c.Req.Path) > 1 && c.Req.Path[1] >= 128 {
			st.Count("path_first_byte_nonascii")
		}
		if strings.Contains(c.Req.Path, "//") || (len(c.Req.Path) > 1 && strings.HasSuffix(c.Req.Path, "/")) || !strings.HasPrefix(c.Req.Path, "/") {
			st.Count("path_noncanonical")
		} else {
			st.Count("path_canonical")
		}
	}
	return l.String() + hx.Comment(c)
}

func reg(m, p string, cons ...rtgen.ConsT) rtgen.RegT {
	return rtgen.RegT{Method: m, Path: p, Cons: cons}
}

// uniqueTexts: no (method, pattern text) is registered twice (then the middleware of a CancelMid request can tell
// from the matched pattern which registration's handler is next)
func uniqueTexts(script []rtgen.RegT) bool {
	seen := map[string]bool{}
	for _, g := range script {
		k := g.Method + " " + g.FullPath()
		if seen[k] {
			return false
		}
		seen[k] = true
	}
	return true
}

func fixed() []rtgen.CaseT {
	G := "GET"
	on := rtgen.EngineT{Compiled: true}
	k11a := []rtgen.RegT{reg(G, "/:kind/list"), reg(G, "/users/:id")}
	k11b := []rtgen.RegT{reg(G, "/users/:id")}
	k11c := []rtgen.RegT{reg(G, "/:p1/:p2/:p3/:p4/:p5/:p6/:p7/:p8/:p9")}
	var many []rtgen.RegT
	for _, w := range []string{"a", "b", "c", "d", "e", "f", "g", "h", "i", "j", "k", "l"} {
		many = append(many, reg(G, "/s/"+w), reg(G, "/"+w+"/:id"))
	}
	many = append(many, reg(G, "/:x/list"))
	mk := func(s []rtgen.RegT, m, p string, e rtgen.EngineT) rtgen.CaseT {
		return rtgen.CaseT{Script: s, Req: rtgen.ReqT{Method: m, Path: p}, Eng: e}
	}
	api := []rtgen.RegT{reg(G, "/users/:id"), reg(G, "/users/:id/posts"), reg("POST", "/users/:id/posts"), reg(G, "/users/:id/posts/:pid"), reg(G, "/health"), reg(G, "/:tenant")}
	return []rtgen.CaseT{
		// cancelled by a global middleware after the match, before Next(): the route's handler does not run (either engine)
		{Script: api, Req: rtgen.ReqT{Method: G, Path: "/users/7/posts", CancelMid: true}, Eng: on},
		{Script: api, Req: rtgen.ReqT{Method: G, Path: "/health", CancelMid: true}, Eng: on},
		{Script: api, Req: rtgen.ReqT{Method: G, Path: "/acme", CancelMid: true}, Eng: rtgen.EngineT{Compiled: true, Version: "v1"}},
		// paths without a leading slash (a router behind http.StripPrefix): whatever they mean, both engines agree
		mk(api, G, "users/7/posts", on), mk(api, G, "acme", on), mk(api, G, "users/7", on), mk(api, G, "health", on), mk(api, "POST", "users/7/posts/3", on),
		mk(k11a, G, "/users/list", on), mk(k11a, G, "/users/7", on),
		mk(k11b, G, "/users/", on), mk(k11b, G, "/users/7", on),
		mk(k11c, G, "/1/2/3/4/5/6/7/8/9", on),
		mk(many, G, "/s/c", rtgen.EngineT{Compiled: true, BloomSize: 1, BloomK: 1}), mk(many, G, "/s/zz", rtgen.EngineT{Compiled: true, BloomSize: 7, BloomK: 8}),
		mk(many, G, "/c/5", on), mk(many, G, "/c/list", on), mk(many, G, "/zz/list", on), mk(many, G, "/\xc3\xa9/list", on),
		mk(many, G, "/s/c", rtgen.EngineT{Compiled: true, BloomSize: 3, BloomK: 2, Version: "v1"}), mk(many, G, "/s/zz", rtgen.EngineT{BloomSize: 1, BloomK: 1, Version: "v1"}),
		mk(many, "POST", "/s/c", rtgen.EngineT{Compiled: true, BloomSize: 64, BloomK: 12}),
		// explicit Warmup() while the main tree has no static route yet, static + same-shape param route after it
		{Script: []rtgen.RegT{reg(G, "/users/:id"), reg(G, "/users/me")}, Req: rtgen.ReqT{Method: G, Path: "/users/me"}, Eng: on, Warm: true, WarmupAt: 0},
		{Script: []rtgen.RegT{reg(G, "/posts/:id"), reg(G, "/users/me"), reg(G, "/users/:id")}, Req: rtgen.ReqT{Method: G, Path: "/users/me"}, Eng: on, Warm: true, WarmupAt: 1},
		{Script: []rtgen.RegT{reg(G, "/health"), reg(G, "/users/me"), reg(G, "/users/:id")}, Req: rtgen.ReqT{Method: G, Path: "/users/me"}, Eng: on, Warm: true, WarmupAt: 1},
		// version tree, explicit Warmup() first: every route registers immediately, each Where* re-registers it
		{Script: []rtgen.RegT{reg(G, "/a/b"), reg(G, "/a/:x", rtgen.ConsT{Name: "x", Kind: "where", Arg: "[a-z]+"})}, Req: rtgen.ReqT{Method: G, Path: "/a/b"}, Eng: rtgen.EngineT{Compiled: true, Version: "v1"}, Warm: true, WarmupAt: 0},
		{Script: []rtgen.RegT{reg(G, "/a/b"), reg(G, "/a/b"), reg(G, "/a/:x", rtgen.ConsT{Name: "x", Kind: "int"}), reg(G, "/a/*")}, Req: rtgen.ReqT{Method: G, Path: "/a/7"}, Eng: rtgen.EngineT{Compiled: true, Version: "v1"}, Warm: true, WarmupAt: 1},
		{Script: []rtgen.RegT{reg(G, "/a/b"), reg(G, "/a/b"), reg(G, "/a/:x", rtgen.ConsT{Name: "x", Kind: "int"})}, Req: rtgen.ReqT{Method: G, Path: "/a/b"}, Eng: rtgen.EngineT{Compiled: true, Version: "v1"}, Warm: true, WarmupAt: 1},
		// overlapping templates in one bucket of the first-segment index (>= 10 parameter routes): the answer
		// to the second request must not depend on which template served the first
		{Script: append(append([]rtgen.RegT(nil), many...), reg(G, "/users/:id/profile"), reg(G, "/users/:id/:action")), Req: rtgen.ReqT{Method: G, Path: "/users/7/profile"}, Eng: on, Prev: []rtgen.ReqT{{Method: G, Path: "/users/7/edit"}}},
		{Script: append(append([]rtgen.RegT(nil), many...), reg(G, "/users/:id/:action"), reg(G, "/users/:id/profile")), Req: rtgen.ReqT{Method: G, Path: "/users/7/profile"}, Eng: on, Prev: []rtgen.ReqT{{Method: G, Path: "/users/7/profile"}, {Method: G, Path: "/users/8/edit"}}},
		mk([]rtgen.RegT{reg(G, "/a/:x ")}, G, "/a/1", on), mk([]rtgen.RegT{reg(G, "/ ")}, G, "/", on),
		mk([]rtgen.RegT{reg(G, "/u/:id", rtgen.ConsT{Name: "id", Kind: "int"}, rtgen.ConsT{Name: "id", Kind: "where", Arg: "[1-9].*"})}, G, "/u/07", on),
		mk([]rtgen.RegT{reg(G, "/u/:id", rtgen.ConsT{Name: "uid", Kind: "int"})}, G, "/u/7", on),
	}
}

func genEngine(r *hx.Rand) rtgen.EngineT {
	e := rtgen.EngineT{Compiled: true}
	if r.Chance(1, 5) {
		e.Version = "v1"
		e.Compiled = r.Chance(1, 2)
	}
	if r.Chance(2, 3) {
		switch r.Intn(4) {
		case 0:
			e.BloomSize = uint64(r.Range(1, 12))
		case 1:
			e.BloomSize = uint64(r.Range(13, 128))
		case 2:
			e.BloomSize = uint64(r.Range(129, 4096))
		default:
			e.BloomSize = uint64(hx.Pick(r, []int{1, 63, 64, 65, 99, 100, 101, 1000, 1024, 4096}))
		}
	}
	if r.Chance(2, 3) {
		e.BloomK = r.Range(1, 8)
		if r.Chance(1, 20) {
			e.BloomK = r.Range(9, 14) // clamped to 10 by the option
		}
	}
	return e
}

func main() {
	a := hx.ParseArgs()
	w := hx.Out()
	defer w.Flush()
	switch a.Cmd {
	case "gen":
		r := hx.NewRand(a.Seed)
		st := hx.NewStats()
		for i, c := range fixed() {
			fmt.Fprintln(w, emit(fmt.Sprintf("c11-fix-%d", i), c, st))
		}
		perScript := 30
		if a.Tier == "thorough" {
			perScript = 50
		}
		for i := 0; i < a.N; {
			script := rtgen.GenScriptWide(r)
			nr := r.Chance(1, 4)
			eng := genEngine(r)
			// explicit r.Warmup() before or among the registrations. The routes after it are registered
			// immediately. In the main tree they carry no constraints here, because every Where* would
			// re-register them (RemoveRoute swaps the dynamic list, which the model does not replay); in a
			// version tree they keep them (re-registration overwrites the leaf in place, the version cache
			// stays as compiled at warm-up — Model/Compiler `Opts.warmAt`).
			warm, warmAt := false, 0
			if r.Chance(1, 4) || (eng.Version != "" && r.Chance(1, 3)) {
				warm = true
				warmAt = r.Intn(len(script) + 1)
				switch r.Intn(3) {
				case 0:
					warmAt = 0
				case 1: // just before the first parameter-free route: warm-up with zero static routes
					for k, g := range script {
						if !strings.Contains(g.FullPath(), ":") && !strings.HasSuffix(g.FullPath(), "*") {
							warmAt = k
							break
						}
					}
				}
				if eng.Version == "" {
					script = append([]rtgen.RegT(nil), script...)
					for k := warmAt; k < len(script); k++ {
						script[k].Cons = nil
						if script[k].MountSub > 0 { // the routes of a sub-router are shared by all its mounts
							for j := range script {
								if script[j].MountSub == script[k].MountSub {
									script[j].Cons = nil
								}
							}
						}
					}
				}
			}
			ask := rtgen.AskNames(script)
			for j := 0; j < perScript && i < a.N; j++ {
				c := rtgen.CaseT{NoRoute: nr, Script: script, Req: rtgen.GenReqWide(r, script), Eng: eng, Warm: warm, WarmupAt: warmAt}
				if r.Chance(1, 4) { // a family of overlapping templates, several requests on one router
					fam := rtgen.GenFamily(r, script)
					c.Req = fam[len(fam)-1]
					c.Prev = fam[:len(fam)-1]
				} else if r.Chance(1, 4) { // not the first request on its router; earlier ones may fail in the handler or arrive cancelled
					for k := r.Range(1, 3); k > 0; k-- {
						q := rtgen.GenReqWide(r, script)
						q.PanicIn = r.Chance(1, 3)
						q.Cancelled = r.Chance(1, 6)
						c.Prev = append(c.Prev, q)
					}
				}
				if !rtgen.HasStatic(script) && r.Chance(1, 8) { // another request in flight, held (and possibly failing) at a chosen point
					c.Overlap = &rtgen.OverlapT{Kind: hx.Pick(r, []string{"handler", "end-slow", "end-panic", "end-panic"}),
						Role: hx.Pick(r, []string{"A", "B", "B"}), Other: rtgen.GenReqWide(r, script)}
				}
				oa, ob := rtgen.Observe(baseOf(c), ask), rtgen.Observe(c, ask)
				fmt.Fprintln(w, emitObs(fmt.Sprintf("c11-%d-%d", a.Seed, i), c, ask, oa, ob, st))
				i++
				if uniqueTexts(script) && c.Req.Path != "/" && c.Req.Path != "" && c.Overlap == nil && len(c.Prev) == 0 && oa.Ran >= 0 && ob.Ran >= 0 && oa.Status == 200 && !oa.Panic && !ob.Panic && r.Chance(1, 12) && i < a.N {
					// a route answers: the same request once more, cancelled by a global middleware after the match,
					// before Next() — the route's handler must not run, in either engine
					cm := c
					cm.Req.CancelMid = true
					fmt.Fprintln(w, emit(fmt.Sprintf("c11-%d-%dm", a.Seed, i), cm, st))
					i++
				}
				if c.Overlap == nil && oa.Ran < 0 && ob.Ran < 0 && !oa.Panic && !ob.Panic && r.Chance(1, 4) && i < a.N {
					// nobody's route: the same request once more, its context already cancelled
					c.Prev = append(c.Prev[:len(c.Prev):len(c.Prev)], c.Req)
					c.Req.Cancelled = true
					fmt.Fprintln(w, emit(fmt.Sprintf("c11-%d-%dx", a.Seed, i), c, st))
					i++
				}
			}
			if !rtgen.HasStatic(script) && r.Chance(1, 12) && i < a.N {
				// concurrent burst on both engines: every pair of different answers to one request is a case
				var reqs []rtgen.ReqT
				for k := r.Range(6, 12); k > 0; k-- {
					reqs = append(reqs, rtgen.GenReqWide(r, script))
				}
				c := rtgen.CaseT{NoRoute: nr, Script: script, Eng: eng, Warm: warm, WarmupAt: warmAt}
				A := rtgen.NewSession(baseOf(c), ask).ServeBurst(reqs, rtgen.BurstWorkers, rtgen.BurstRounds)
				B := rtgen.NewSession(c, ask).ServeBurst(reqs, rtgen.BurstWorkers, rtgen.BurstRounds)
				for k := range reqs {
					c.Req = reqs[k]
					c.Burst = append(append([]rtgen.ReqT(nil), reqs[:k]...), reqs[k+1:]...)
					n := 0
					for _, oa := range A[k] {
						for _, ob := range B[k] {
							fmt.Fprintln(w, emitObs(fmt.Sprintf("c11-%d-%db%d", a.Seed, i, n), c, ask, oa, ob, st))
							n++
							i++
						}
					}
				}
			}
		}
		st.Emit(w)
	case "replay":
		rtgen.BurstTries = 5
		for _, line := range hx.StdinLines() {
			var c rtgen.CaseT
			id, err := hx.CaseFromComment(line, &c)
			if err != nil {
				fmt.Fprintf(w, "# cannot replay %q: %v\n", id, err)
				continue
			}
			fmt.Fprintln(w, emit(id, c, nil))
		}
	}
}
