// Harness for C16 (rate limiting). Drives the real middleware/ratelimit through its public API:
//
//	S  direct store.Allow(key, now) traces on an InMemoryTokenBucketStore (the API takes `now`, so any
//	   clock sequence — regressing ones included — is driven directly, on the 1/512 s grid)
//	C  the same with the last calls issued by simultaneous goroutines
//	M  the trace through WithTokenBucket + httptest, with a TokenBucketStore wrapper (public interface)
//	   that replaces the wall clock by the scripted one and records what the store answered;
//	   plus the ratelimit.New(...) path (wall clock, timing-validated)
//	W  WithSlidingWindow over the real InMemoryStore behind a WindowStore wrapper (public interface)
//	   that releases GetCounts/Incr in the order of a schedule. The sliding window reads time.Now()
//	   itself: every request is stamped before and after, and a case is kept only if the model's
//	   decision is the same for every instant between the stamps (same window, same second, weighted
//	   usage away from an integer boundary); otherwise it is discarded and counted — never failed.
package main

import (
	"context"
	"fmt"
	"math/big"
	"net/http"
	"net/http/httptest"
	"os"
	"sort"
	"strconv"
	"sync"
	"time"

	"rivaas.dev/middleware/ratelimit"
	"rivaas.dev/router"
	"verif/harness/hx"
)

const tick = 1953125 * time.Nanosecond // 1/512 s
const tick512 = tick

var epoch = time.Unix(1_600_000_000, 0)

func at(k int64) time.Time { return epoch.Add(time.Duration(k) * tick) }

type callT struct {
	Key string
	Now int64 // ticks
	// Pause: before this call, wait (wall clock) until the store's 5-minute cleanup ticker has fired once
	Pause bool `json:",omitempty"`
	// Cancel: (middleware cases) the request's context is cancelled by the handler while it runs — a client
	// that hangs up or times out mid-request; the call has been admitted and served all the same
	Cancel bool `json:",omitempty"`
}

// cleanupWait is how long after its creation a store has certainly run its first cleanup.
const cleanupWait = 5*time.Minute + 3*time.Second

type outT struct {
	Allowed          bool
	Remaining, Reset int
}

// caseT is the concrete case (JSON comment of the case line, used by `replay`).
type caseT struct {
	Kind  string
	Rate  int
	Burst int
	Calls []callT `json:",omitempty"`
	// C: the last NConc calls are simultaneous
	NConc int `json:",omitempty"`
	// Flood: before the trace, that many Allow calls on distinct OTHER keys are made on the same store. They
	// are not part of the case line: by the property (and keys_independent) they cannot matter.
	Flood int `json:",omitempty"`
	// ViaNew: options left out of the New(...) call — the documented defaults (100 requests/s, burst 20, key
	// "ip:"+ClientIP) must then apply, whatever other limiters the process has built before
	OmitRate, OmitBurst, OmitKey bool `json:",omitempty"`
	// JunkOpts (ViaNew): after the real options, WithRequestsPerSecond / WithBurst are given again with values that are
	// not positive — "if rps > 0": they must be ignored, the earlier value (or the default) stays
	JunkOpts []int `json:",omitempty"`
	// Method: HTTP method of the requests of a middleware case ("" = GET)
	Method string `json:",omitempty"`
	// EpochAgoSec: tick 0 of this case lies that many seconds before the moment the case is run
	// (default 0: a fixed instant in 2020). The cleanup cases need scripted times near the wall clock,
	// because the store's cleanup compares entries with time.Now().
	EpochAgoSec int64 `json:",omitempty"`
	epoch       time.Time
	// M
	Headers, Enforce, Callback bool
	ViaNew                     bool `json:",omitempty"`
	// ViaNew with WithCleanupInterval / WithLimiterTTL (milliseconds) and an idle pause of IdleMs before the
	// first call whose Now is > 0 (the model puts those calls IdleTick ticks after the first phase)
	CleanupMs, TTLMs, IdleMs int `json:",omitempty"`
	// Cold: a C case produced by coldStart (fresh limiter, default store, simultaneous first requests)
	Cold bool `json:",omitempty"`
	// W
	Win *winCase `json:",omitempty"`
	// V: the sliding-window middleware over a store that reports SCRIPTED counts (any magnitudes, any window length)
	Scr *scrCase `json:",omitempty"`
}

// scrCase: requests served one after the other by WithSlidingWindow over a store with the one-call interface that
// answers each request with the scripted (current, previous) counts of the window the request falls into. The
// middleware's arithmetic — estimate, remaining, reset, Retry-After — is exercised on counts and window lengths
// that no real-time case reaches (millions of requests, windows of days and weeks).
type scrCase struct {
	Limit, W                   int
	Headers, Enforce, Callback bool
	Method                     string `json:",omitempty"`
	Rows                       [][2]int64
}

type scriptStore struct {
	rows [][2]int64
	ws   []int64
	t    []time.Time
}

func (s *scriptStore) GetCounts(context.Context, string, time.Duration) (int, int, int64, error) {
	return 0, 0, 0, errStore // never used: the middleware prefers the one-call interface
}
func (s *scriptStore) Incr(context.Context, string, time.Duration) error { return errStore }
func (s *scriptStore) IncrAndGetCounts(ctx context.Context, _ string, w time.Duration) (int, int, int64, error) {
	i := ctx.Value(ctxKey{}).(int)
	now := time.Now()
	s.ws[i], s.t[i] = now.Truncate(w).Unix(), now
	return int(s.rows[i][0]), int(s.rows[i][1]), s.ws[i], nil
}

func genScr(r *hx.Rand) *scrCase {
	k := &scrCase{Limit: hx.Pick(r, []int{1, 2, 3, 5, 100, 5000, 500000, 1000000}), W: hx.Pick(r, []int{1, 2, 7, 60, 3600, 86400, 604800, 2592000, 31536000}),
		Headers: !r.Chance(1, 8), Enforce: !r.Chance(1, 10), Callback: r.Chance(1, 12), Method: pickMethod(r)}
	L := int64(k.Limit)
	for i, n := 0, r.Range(1, 6); i < n; i++ {
		cur := hx.Pick(r, []int64{0, 0, 1, L - 1, L, L + 1, 2 * L, 3*L + 7, 1000000, 2000000000})
		prev := hx.Pick(r, []int64{0, 0, 1, L - 1, L, L + 1, 2 * L, 10*L + 3, 1000000, 3000000000})
		k.Rows = append(k.Rows, [2]int64{max(cur, 0), max(prev, 0)})
	}
	return k
}

func (k *scrCase) run(id string) (line string, discard string, nontrivial bool) {
	window := time.Duration(k.W) * time.Second
	Wns := int64(window)
	n := len(k.Rows)
	ss := &scriptStore{rows: k.Rows, ws: make([]int64, n), t: make([]time.Time, n)}
	ran := make([]bool, n)
	r := router.MustNew()
	r.Use(ratelimit.WithSlidingWindow(ratelimit.SlidingWindow{Window: window, Limit: k.Limit, Store: ss}, commonOpts(k.Headers, k.Enforce, k.Callback)))
	anyMethod(r, func(c *router.Context) { ran[c.Request.Context().Value(ctxKey{}).(int)] = true })
	obs := make([]mwObs, n)
	t0, t1 := make([]int64, n), make([]int64, n)
	panicked := guard(func() {
		for i := range k.Rows {
			ctx := context.WithValue(context.WithValue(context.Background(), ctxKey{}, i), methodCtx{}, k.Method)
			t0[i] = time.Now().UnixNano()
			obs[i], _ = serveOnce(r, "scripted", ctx)
			t1[i] = time.Now().UnixNano()
		}
	})
	big3 := func(a, b, c int64) *big.Int { // a*b + c
		return new(big.Int).Add(new(big.Int).Mul(big.NewInt(a), big.NewInt(b)), big.NewInt(c))
	}
	if !panicked {
		for i, row := range k.Rows {
			if t0[i]/1e9 != t1[i]/1e9 || time.Unix(0, t0[i]).Truncate(window).Unix() != ss.ws[i] || time.Unix(0, t1[i]).Truncate(window).Unix() != ss.ws[i] {
				return "", "V.discarded_second_or_window_changed_during_request", false
			}
			if retryAfterRef(row[0], row[1], ss.ws[i], k.Limit, Wns, t0[i]) != retryAfterRef(row[0], row[1], ss.ws[i], k.Limit, Wns, t1[i]) {
				return "", "V.discarded_retry_after_changed_during_request", false
			}
			if row[1] > 0 { // the estimate must not be within 1e-5 of an integer between the two stamps (float64 in the code)
				num := func(t int64) *big.Int {
					e := min(t-ss.ws[i]*1e9, Wns)
					x := big3(row[0], Wns, 0)
					return x.Add(x, new(big.Int).Mul(big.NewInt(row[1]), big.NewInt(Wns-e)))
				}
				a, b := num(t0[i]), num(t1[i])
				W := big.NewInt(Wns)
				qa, ra := new(big.Int).QuoRem(a, W, new(big.Int))
				qb, rb := new(big.Int).QuoRem(b, W, new(big.Int))
				margin := Wns / 100000 * max(1, row[1]/1000) // float64 keeps ~15 digits of prev·weight
				if margin > Wns/4 {
					return "", "V.discarded_counts_too_large_for_a_float_margin", false
				}
				if qa.Cmp(qb) != 0 || ra.Int64() < margin || ra.Int64() > Wns-margin || rb.Int64() < margin || rb.Int64() > Wns-margin {
					return "", "V.discarded_weighted_usage_near_integer", false
				}
				nontrivial = true
			}
		}
	}
	l := hx.NewLine(id).Tok("V").Nat(k.Limit).Nat(k.W).Bool(k.Headers).Bool(k.Enforce).Bool(k.Callback).Nat(n)
	for i, row := range k.Rows {
		l.I64(row[0]).I64(row[1]).I64(ss.ws[i]).I64(t0[i])
	}
	l.Sep()
	if panicked {
		l.Tok("P")
	} else {
		l.Nat(n)
		for i := range k.Rows {
			m := obs[i]
			m.Ran = ran[i]
			l.Nat(i)
			m.tokens(l)
		}
	}
	return l.String(), "", nontrivial
}

func (k *caseT) at(tick int64) time.Time {
	if k.EpochAgoSec != 0 {
		if k.epoch.IsZero() {
			k.epoch = time.Now().Add(-time.Duration(k.EpochAgoSec) * time.Second).Truncate(time.Second)
		}
		return k.epoch.Add(time.Duration(tick) * tick512)
	}
	return at(tick)
}

func guard(f func()) (panicked bool) {
	defer func() {
		if p := recover(); p != nil {
			panicked = true
		}
	}()
	f()
	return false
}

// ---------------------------------------------------------------------------------------------
// token bucket: trace generation (adaptive: a retry uses the reset the real code just returned)

type traceGen struct {
	r        *hx.Rand
	rate     int
	burst    int
	keys     []string
	now      int64
	monotone bool
	longKeys bool
	lastRej  map[string]outT
	lastAt   map[string]int64
}

func (g *traceGen) next() callT {
	r := g.r
	key := hx.Pick(r, g.keys)
	// a retry exactly Retry-After seconds after a rejection of this key (if nothing happened since)
	if o, ok := g.lastRej[key]; ok && r.Chance(1, 2) && o.Reset < 1_000_000 {
		t := g.lastAt[key] + int64(o.Reset)*512
		if r.Chance(1, 4) && o.Reset > 1 {
			t = g.lastAt[key] + int64(o.Reset-1)*512 // one second early
		}
		if t >= g.now {
			g.now = t
			return callT{Key: key, Now: t}
		}
	}
	var dt int64
	perTok := int64(512 / g.rate)
	switch r.Intn(12) {
	case 0, 1, 2:
		dt = 0
	case 3:
		dt = 1
	case 4, 5:
		dt = int64(r.Range(1, 600))
	case 6:
		dt = perTok // one token's worth (when 512/rate is whole)
	case 7:
		dt = max(perTok-1, 0)
	case 8:
		dt = int64(g.burst)*512/int64(g.rate) + int64(r.Range(0, 3)) // refill to the cap
	case 9:
		dt = int64(r.Range(1, 5)) * 512
	case 10:
		dt = int64(r.Range(1, 100000)) * 512
	default:
		if g.monotone {
			dt = int64(r.Range(0, 40))
		} else {
			dt = -int64(r.Range(1, 700)) // the clock steps back
		}
	}
	g.now += dt
	return callT{Key: key, Now: g.now}
}

func (g *traceGen) saw(c callT, o outT) {
	if o.Allowed {
		delete(g.lastRej, c.Key)
	} else {
		g.lastRej[c.Key] = o
	}
	g.lastAt[c.Key] = c.Now
}

func newTraceGen(r *hx.Rand) *traceGen {
	g := &traceGen{r: r, lastRej: map[string]outT{}, lastAt: map[string]int64{}}
	g.rate = hx.Pick(r, []int{1, 1, 2, 3, 4, 5, 8, 10, 64, 100, 512, 1000})
	g.burst = hx.Pick(r, []int{1, 1, 2, 3, 5, 8, 20})
	nk := hx.Pick(r, []int{1, 1, 2, 3})
	pool := []string{"ip:10.0.0.1", "ip:10.0.0.2", "user:é", "", "ip:10.0.0.1 "}
	hx.Shuffle(r, pool)
	g.keys = pool[:nk]
	if r.Chance(1, 4) {
		// long keys (65–200 bytes) that share a long prefix (bearer tokens of one issuer, URLs, …)
		pre := make([]byte, r.Range(64, 150))
		for i := range pre {
			pre[i] = "abcdefghijklmnopqrstuvwxyzABCDEFGHIJKLMNOPQRSTUVWXYZ0123456789._-"[r.Intn(65)]
		}
		p := "Bearer " + string(pre)
		g.keys = []string{p + ".alice", p + ".bob", p[:64], p + ".alice.2"}[:hx.Pick(r, []int{2, 2, 3, 4})]
		g.longKeys = true
	}
	g.monotone = !r.Chance(1, 3)
	g.now = int64(r.Range(0, 1000))
	return g
}

func stats(st *hx.Stats, kind string, rate, burst int, calls []callT, outs []outT, in string, extraNT bool) {
	if st == nil {
		return
	}
	rej, regress, retry := 0, false, false
	last := map[string]int64{}
	lastRej := map[string]outT{}
	for i, c := range calls {
		if p, ok := last[c.Key]; ok && c.Now < p {
			regress = true
		}
		if o, ok := lastRej[c.Key]; ok && c.Now == last[c.Key]+int64(o.Reset)*512 {
			retry = true
		}
		last[c.Key] = c.Now
		if i < len(outs) {
			if !outs[i].Allowed {
				rej++
				lastRej[c.Key] = outs[i]
			} else {
				delete(lastRej, c.Key)
			}
		}
	}
	st.Case(in, (rej > 0 && rej < len(calls)) || regress || extraNT)
	st.Count(kind + ".cases")
	if regress {
		st.Count(kind + ".clock_regresses")
	}
	if retry {
		st.Count(kind + ".retry_after_reset")
	}
	if rej > 0 {
		st.Count(kind + ".has_rejection")
	}
	_ = rate
	_ = burst
}

func callsTokens(l *hx.Line, calls []callT) {
	l.Nat(len(calls))
	for _, c := range calls {
		l.Str(c.Key).I64(c.Now)
	}
}

func outTokens(l *hx.Line, o outT) { l.Bool(o.Allowed).Nat(o.Remaining).Nat(o.Reset) }

// S / C: direct store traces. When gen != nil the calls are generated adaptively while running.
func (k *caseT) runStore(id string, st *hx.Stats, gen *traceGen, n int) string {
	var outs []outT
	panicked := guard(func() {
		store := ratelimit.NewInMemoryTokenBucketStore(k.Rate, k.Burst)
		created := time.Now()
		for i := 0; i < k.Flood; i++ {
			store.Allow("flood-"+strconv.Itoa(i), k.at(0))
		}
		serial := len(k.Calls) - k.NConc
		if gen != nil {
			serial = n
		}
		for i := 0; i < serial; i++ {
			var c callT
			if gen != nil {
				c = gen.next()
				k.Calls = append(k.Calls, c)
			} else {
				c = k.Calls[i]
			}
			if c.Pause {
				time.Sleep(time.Until(created.Add(cleanupWait)))
			}
			a, rem, rst := store.Allow(c.Key, k.at(c.Now))
			o := outT{a, rem, rst}
			outs = append(outs, o)
			if gen != nil {
				gen.saw(c, o)
			}
		}
		if k.NConc > 0 {
			if gen != nil {
				c := callT{Key: hx.Pick(gen.r, gen.keys), Now: gen.now + int64(gen.r.Range(0, 300))}
				for i := 0; i < k.NConc; i++ {
					k.Calls = append(k.Calls, c)
				}
			}
			c := k.Calls[len(k.Calls)-1]
			res := make([]outT, k.NConc)
			start := make(chan struct{})
			var wg sync.WaitGroup
			for i := 0; i < k.NConc; i++ {
				wg.Add(1)
				go func(i int) {
					defer wg.Done()
					<-start
					a, rem, rst := store.Allow(c.Key, k.at(c.Now))
					res[i] = outT{a, rem, rst}
				}(i)
			}
			close(start)
			wg.Wait()
			// canonical order: admitted first, highest remaining first
			sort.SliceStable(res, func(i, j int) bool {
				if res[i].Allowed != res[j].Allowed {
					return res[i].Allowed
				}
				return res[i].Remaining > res[j].Remaining
			})
			outs = append(outs, res...)
		}
	})
	l := hx.NewLine(id).Tok(k.Kind).Nat(k.Rate).Nat(k.Burst)
	callsTokens(l, k.Calls)
	in := l.String()
	l.Sep()
	if panicked {
		l.Tok("P")
	} else {
		l.Nat(len(outs))
		for _, o := range outs {
			outTokens(l, o)
		}
	}
	stats(st, k.Kind, k.Rate, k.Burst, k.Calls, outs, in[len(id):], k.NConc > 0)
	if st != nil && k.Flood > 0 {
		st.Count("store_flooded_with_70000_other_keys")
	}
	if st != nil && k.NConc > 0 {
		adm := 0
		for _, o := range outs[len(outs)-k.NConc:] {
			if o.Allowed {
				adm++
			}
		}
		if adm < k.NConc && adm > 0 {
			st.Count("C.more_simultaneous_calls_than_tokens")
		}
	}
	return l.String() + hx.Comment(k)
}

// ---------------------------------------------------------------------------------------------
// token bucket through the middleware

// clockStore is a TokenBucketStore (public interface) that passes the scripted clock to the real store
// and records its answer.
type clockStore struct {
	inner *ratelimit.InMemoryTokenBucketStore
	now   time.Time
	last  outT
}

func (s *clockStore) Allow(key string, _ time.Time) (bool, int, int) {
	a, rem, rst := s.inner.Allow(key, s.now)
	s.last = outT{a, rem, rst}
	return a, rem, rst
}

type mwObs struct {
	Status                       int
	Ran                          bool
	Limit                        []string
	Remaining, Reset, RetryAfter []string
}

func hdrInt(l *hx.Line, v []string) {
	if len(v) == 0 {
		l.Bool(false)
		return
	}
	n, err := strconv.Atoi(v[0])
	if err != nil {
		l.Bool(true).Tok("NaN:" + v[0]) // unparsable for the driver: reported as a bad case
		return
	}
	l.Bool(true).Nat(n)
}

func (m mwObs) tokens(l *hx.Line) {
	l.Nat(m.Status).Bool(m.Ran)
	if len(m.Limit) == 0 {
		l.Bool(false)
	} else {
		l.Bool(true).Str(m.Limit[0])
	}
	hdrInt(l, m.Remaining)
	hdrInt(l, m.Reset)
	hdrInt(l, m.RetryAfter)
}

type methodCtx struct{}
type xffCtx struct{}

func anyMethod(r *router.Router, h router.HandlerFunc) {
	r.GET("/", h)
	r.HEAD("/", h)
	r.POST("/", h)
	r.OPTIONS("/", h)
}

// pickMethod: the limiter is specified for requests, whatever their method
func pickMethod(r *hx.Rand) string {
	return hx.Pick(r, []string{"GET", "GET", "GET", "HEAD", "HEAD", "POST", "OPTIONS"})
}

func serveOnce(r *router.Router, key string, ctx context.Context) (mwObs, *bool) {
	rec := httptest.NewRecorder()
	method := http.MethodGet
	if ctx != nil {
		if m, ok := ctx.Value(methodCtx{}).(string); ok && m != "" {
			method = m
		}
	}
	req := httptest.NewRequest(method, "/", nil)
	req.Header.Set("X-Key", key)
	// client-chosen headers that must not matter to the limiter: what a browser sends with a CORS preflight, with a
	// conditional request, with a keep-alive probe (a limiter that exempts "harmless looking" requests is no limiter)
	switch method {
	case http.MethodOptions:
		req.Header.Set("Origin", "https://app.example")
		req.Header.Set("Access-Control-Request-Method", "POST")
		req.Header.Set("Access-Control-Request-Headers", "content-type")
	case http.MethodHead:
		req.Header.Set("If-None-Match", `"v1"`)
	case http.MethodPost:
		req.Header.Set("Content-Type", "application/json")
		req.Header.Set("X-Requested-With", "XMLHttpRequest")
	default:
		req.Header.Set("Upgrade-Insecure-Requests", "1")
		req.Header.Set("Purpose", "prefetch")
	}
	if ctx != nil {
		if x, ok := ctx.Value(xffCtx{}).(string); ok && x != "" {
			req.Header.Set("X-Forwarded-For", x)
			req.Header.Set("X-Real-IP", x)
		}
		req = req.WithContext(ctx)
	}
	r.ServeHTTP(rec, req)
	// the response as sent (snapshot taken at WriteHeader), not the recorder's live header map: a header
	// set after the status line never reaches a client
	h := rec.Result().Header
	return mwObs{Status: rec.Code, Limit: h.Values("RateLimit-Limit"), Remaining: h.Values("RateLimit-Remaining"),
		Reset: h.Values("RateLimit-Reset"), RetryAfter: h.Values("Retry-After")}, nil
}

func commonOptsDefaultKey(headers, enforce, callback bool) ratelimit.CommonOptions {
	o := commonOpts(headers, enforce, callback)
	o.Key = nil // the documented default: "ip:" + ClientIP()
	return o
}

func commonOpts(headers, enforce, callback bool) ratelimit.CommonOptions {
	o := ratelimit.CommonOptions{
		Key:     func(c *router.Context) string { return c.Request.Header.Get("X-Key") },
		Headers: headers, Enforce: enforce,
	}
	if callback {
		o.OnExceeded = func(c *router.Context, _ ratelimit.Meta) { c.Response.WriteHeader(http.StatusTeapot) }
	}
	return o
}

func (k *caseT) runMw(id string, st *hx.Stats, gen *traceGen, n int) string {
	type rowT struct {
		o outT
		m mwObs
	}
	var rows []rowT
	discard := ""
	panicked := guard(func() {
		ran := false
		r := router.MustNew()
		var cs *clockStore
		if k.ViaNew {
			// the packaged constructor: wall clock, own store. All calls use one timestamp in the model;
			// the run is kept only if it was fast enough for the refill to stay below one token.
			var nopts []ratelimit.Option
			if !k.OmitRate {
				nopts = append(nopts, ratelimit.WithRequestsPerSecond(k.Rate))
			}
			if !k.OmitBurst {
				nopts = append(nopts, ratelimit.WithBurst(k.Burst))
			}
			for _, j := range k.JunkOpts {
				nopts = append(nopts, ratelimit.WithRequestsPerSecond(j), ratelimit.WithBurst(j))
			}
			if !k.OmitKey {
				nopts = append(nopts, ratelimit.WithKeyFunc(func(c *router.Context) string { return c.Request.Header.Get("X-Key") }))
			}
			if k.CleanupMs > 0 {
				nopts = append(nopts, ratelimit.WithCleanupInterval(time.Duration(k.CleanupMs)*time.Millisecond),
					ratelimit.WithLimiterTTL(time.Duration(k.TTLMs)*time.Millisecond))
			}
			r.Use(ratelimit.New(nopts...))
		} else {
			cs = &clockStore{inner: ratelimit.NewInMemoryTokenBucketStore(k.Rate, k.Burst)}
			for i := 0; i < k.Flood; i++ {
				cs.inner.Allow("flood-"+strconv.Itoa(i), at(0))
			}
			co := commonOpts(k.Headers, k.Enforce, k.Callback)
			if k.OmitKey {
				co = commonOptsDefaultKey(k.Headers, k.Enforce, k.Callback)
			}
			r.Use(ratelimit.WithTokenBucket(ratelimit.TokenBucket{Rate: k.Rate, Burst: k.Burst, Store: cs}, co))
		}
		type cancelKey struct{}
		anyMethod(r, func(c *router.Context) {
			ran = true
			if cancel, ok := c.Request.Context().Value(cancelKey{}).(context.CancelFunc); ok {
				cancel()
			}
		})
		t0 := time.Now()
		idled := false
		cnt := len(k.Calls)
		if gen != nil {
			cnt = n
		}
		for i := 0; i < cnt; i++ {
			var c callT
			if gen != nil {
				if k.ViaNew {
					c = callT{Key: hx.Pick(gen.r, gen.keys)}
				} else {
					c = gen.next()
				}
				k.Calls = append(k.Calls, c)
			} else {
				c = k.Calls[i]
			}
			if cs != nil {
				cs.now = at(c.Now)
			}
			if k.ViaNew && c.Now > 0 && !idled {
				idled = true
				time.Sleep(time.Duration(k.IdleMs) * time.Millisecond)
			}
			ran = false
			if gen != nil && gen.r.Chance(1, 5) {
				c.Cancel = true
				k.Calls[len(k.Calls)-1].Cancel = true
			}
			rctx := context.WithValue(context.Background(), methodCtx{}, k.Method)
			if k.OmitKey {
				// forwarding headers from an untrusted peer must not change the default key
				rctx = context.WithValue(rctx, xffCtx{}, "203.0.113."+strconv.Itoa(len(c.Key)%200+1)+", 10.0.0."+strconv.Itoa(i%50+1))
			}
			if c.Cancel {
				cctx, cancel := context.WithCancel(rctx)
				rctx = context.WithValue(cctx, cancelKey{}, cancel)
			}
			m, _ := serveOnce(r, c.Key, rctx)
			m.Ran = ran
			row := rowT{m: m}
			if cs != nil {
				row.o = cs.last
				if gen != nil {
					gen.saw(c, cs.last)
				}
			}
			rows = append(rows, row)
		}
		// wall-clock run: kept only if the whole run refilled well below one token, so that every decision,
		// `remaining` and `reset` is the same for every instant the calls can have read the clock at
		limit := 400 * time.Millisecond
		if k.IdleMs > 0 {
			limit = 800 * time.Millisecond
		}
		if k.ViaNew && time.Since(t0)*time.Duration(k.Rate) > limit {
			discard = "M.discarded_slow_run_via_New"
		}
	})
	if discard != "" {
		if st != nil {
			st.Count(discard)
		}
		return ""
	}
	if k.ViaNew {
		// the store's answers are not visible on this path: they are read back from the headers the
		// middleware copied them into (Headers is always on for New)
		for i := range rows {
			rem, _ := strconv.Atoi(first(rows[i].m.Remaining))
			rst, _ := strconv.Atoi(first(rows[i].m.Reset))
			rows[i].o = outT{rows[i].m.Status != http.StatusTooManyRequests, rem, rst}
		}
	}
	l := hx.NewLine(id)
	if k.ViaNew {
		// ratelimit.New: the option VALUES as given, in order — the model applies the defaults (100/s, burst 20) and
		// the "only if positive" guards itself (Model.newConfig)
		var ro, bo []int
		if !k.OmitRate {
			ro = append(ro, k.Rate)
		}
		if !k.OmitBurst {
			bo = append(bo, k.Burst)
		}
		ro, bo = append(ro, k.JunkOpts...), append(bo, k.JunkOpts...)
		l.Tok("N").Nat(len(ro))
		for _, v := range ro {
			l.I64(int64(v))
		}
		l.Nat(len(bo))
		for _, v := range bo {
			l.I64(int64(v))
		}
	} else {
		l.Tok("M").Nat(k.Rate).Nat(k.Burst)
	}
	l.Bool(k.Headers).Bool(k.Enforce).Bool(k.Callback)
	if k.OmitKey {
		// the default key: "ip:" + ClientIP() — httptest requests all come from 192.0.2.1
		eff := make([]callT, len(k.Calls))
		for i, c := range k.Calls {
			eff[i] = callT{Key: "ip:192.0.2.1", Now: c.Now}
		}
		callsTokens(l, eff)
	} else {
		callsTokens(l, k.Calls)
	}
	in := l.String()
	l.Sep()
	var outs []outT
	if panicked {
		l.Tok("P")
	} else {
		l.Nat(len(rows))
		for _, row := range rows {
			outTokens(l, row.o)
			row.m.tokens(l)
			outs = append(outs, row.o)
		}
	}
	stats(st, "M", k.Rate, k.Burst, k.Calls, outs, in[len(id):], false)
	if st != nil {
		for _, c := range k.Calls {
			if c.Cancel {
				st.Count("M.requests_whose_context_is_cancelled_in_the_handler")
			}
		}
	}
	if st != nil && k.ViaNew {
		st.Count("M.via_New_wall_clock")
		if k.OmitRate || k.OmitBurst || k.OmitKey {
			st.Count("M.via_New_with_options_left_at_their_defaults")
		}
	}
	if st != nil && k.Flood > 0 {
		st.Count("store_flooded_with_70000_other_keys")
	}
	return l.String() + hx.Comment(k)
}

func first(v []string) string {
	if len(v) == 0 {
		return ""
	}
	return v[0]
}

// ---------------------------------------------------------------------------------------------
// sliding window

type winReq struct {
	Key string
	// phase structure for generation/replay: wait before issuing
	SleepToNextWindow bool `json:",omitempty"` // sleep until the next window starts (+OffsetMs)
	OffsetMs          int  `json:",omitempty"`
	RetryOf           int  `json:",omitempty"` // 1+index of the 429 this request retries after its Retry-After
	PauseCleanup      bool `json:",omitempty"` // wait until the store's cleanup ticker has fired once
	Noise             bool `json:",omitempty"` // (default-store cases) the request goes to the second limiter and is not judged
	NextSec           bool `json:",omitempty"` // (default-store cases) first sleep into the next wall-clock second
	SleepMs           int  `json:",omitempty"` // sleep that long before the request
	// ErrBefore "G"/"I": before this request ANOTHER client's request (own key, not part of the case) is served
	// for which the store fails in GetCounts resp. Incr — a store error must not change anything for other keys
	ErrBefore string `json:",omitempty"`
	now       int64  // t0 in ns (filled while running)
}

type opT struct {
	G bool
	I int
}

type winCase struct {
	Limit, W                   int
	Headers, Enforce, Callback bool
	Method                     string `json:",omitempty"` // HTTP method of the requests ("" = GET)
	// DefaultStore: two limiters configured WITHOUT a Store (each gets the package's default), same key,
	// windows W and NoiseW, on two routes of one router; only the first limiter's requests are judged
	DefaultStore bool `json:",omitempty"`
	// SharedStore (with DefaultStore's two-limiter layout): both limiters get ONE explicit InMemoryStore.
	// Window NoiseW = 2·W, the case starts in the second half of a NoiseW window, and the second limiter is
	// used only after the first one is exhausted: then its traffic can only inflate counts that are already
	// at the limit, so the first limiter's answers are those of a limiter on its own
	SharedStore bool `json:",omitempty"`
	// Stale: (uses the verif hook of the in-memory store) the LAST-BUT-ONE request reads its clock just before
	// a window boundary and is held right after that read; the LAST request is served completely just after
	// the boundary; then the held one goes on — a call that reaches the entry with a clock reading older than
	// the entry's window
	Stale bool `json:",omitempty"`
	// Atomic: the Store handed to the limiter also implements ratelimit.AtomicWindowStore (like the in-memory
	// store itself): a request is counted and told the counts in ONE store call (released by its G step; its I
	// step is only the point at which the response is awaited). Without it the wrapper only has GetCounts/Incr.
	Atomic bool `json:",omitempty"`
	// Burst: G requests released together on the REAL in-memory store (no wrapper, real contention on the entry
	// lock); the responses are sorted into the order the store served them (by the count each one saw)
	Burst int `json:",omitempty"`
	// Held: (real in-memory store, window 1 s, OnExceeded callback) the window is filled, one more request is rejected
	// and its callback is HELD — a slow client or a slow callback — across the window boundary; late in the next
	// window a request is admitted, then the held rejection completes, then Limit more requests follow. Whatever a
	// limiter does when a rejection completes (clean up, refund, log), the next window admits at most Limit
	Held       bool `json:",omitempty"`
	NoiseW     int  `json:",omitempty"`
	NoiseLimit int  `json:",omitempty"`
	Reqs       []winReq
	Sched      []opT
}

type ctxKey struct{}

// schedStore is a WindowStore (public interface) over the real InMemoryStore that lets each
// GetCounts / Incr proceed only when the schedule says so, and records what GetCounts returned.
type schedStore struct {
	inner *ratelimit.InMemoryStore
	mu    sync.Mutex
	turn  map[opT]chan struct{} // closed when the op may run
	done  map[opT]chan struct{} // closed when the op has run
	got   map[int][3]int64      // request -> (curr, prev, windowStart) returned by GetCounts
	tG    map[int]time.Time     // stamp right after GetCounts returned
}

var errStore = fmt.Errorf("store unavailable")

func (s *schedStore) GetCounts(ctx context.Context, key string, w time.Duration) (int, int, int64, error) {
	i := ctx.Value(ctxKey{}).(int)
	if i == -1 { // noise request: the store fails on GetCounts
		return 0, 0, 0, errStore
	}
	if i == -2 { // noise request: GetCounts works (on a throw-away key), Incr will fail
		return s.inner.GetCounts(ctx, key, w)
	}
	op := opT{true, i}
	<-s.turn[op]
	c, p, ws, err := s.inner.GetCounts(ctx, key, w)
	t := time.Now()
	s.mu.Lock()
	s.got[i] = [3]int64{int64(c), int64(p), ws}
	s.tG[i] = t
	s.mu.Unlock()
	close(s.done[op])
	return c, p, ws, err
}

func (s *schedStore) Incr(ctx context.Context, key string, w time.Duration) error {
	i := ctx.Value(ctxKey{}).(int)
	if i < 0 {
		return errStore
	}
	op := opT{false, i}
	<-s.turn[op]
	err := s.inner.Incr(ctx, key, w)
	close(s.done[op])
	return err
}

// atomicSchedStore adds the optional one-call interface (ratelimit.AtomicWindowStore) to schedStore.
type atomicSchedStore struct{ *schedStore }

func (s atomicSchedStore) IncrAndGetCounts(ctx context.Context, key string, w time.Duration) (int, int, int64, error) {
	i := ctx.Value(ctxKey{}).(int)
	if i < 0 { // noise request: the store fails
		return 0, 0, 0, errStore
	}
	op := opT{true, i}
	<-s.turn[op]
	c, p, ws, err := s.inner.IncrAndGetCounts(ctx, key, w)
	t := time.Now()
	s.mu.Lock()
	s.got[i] = [3]int64{int64(c), int64(p), ws}
	s.tG[i] = t
	s.mu.Unlock()
	close(s.done[op])
	return c, p, ws, err
}

// retryAfterRef: the Retry-After a rejected request is given, as a function of the counts its store call
// reported and of the instant t (ns) the middleware read — used ONLY for the timing validation (a case whose
// value depends on where between its two stamps the clock was read is discarded, never failed).
func retryAfterRef(curr, prev, ws int64, limit int, Wns, t int64) int64 {
	e := max(min(t-ws*1e9, Wns), 0)
	counted, L := curr+1, int64(limit)
	var wait int64
	switch {
	case L <= 0:
		wait = 2*Wns - e
	case counted < L && prev > 0:
		num := max(prev-(L-counted), 0)
		wait = new(big.Int).Div(new(big.Int).Mul(big.NewInt(Wns), big.NewInt(num)), big.NewInt(prev)).Int64() - e
	case counted < L:
		wait = 0
	default:
		wait = Wns - e + new(big.Int).Div(new(big.Int).Mul(big.NewInt(Wns), big.NewInt(counted-L)), big.NewInt(counted)).Int64()
	}
	return max(wait, 0)/1e9 + 1
}

func serialSched(n int) []opT {
	var s []opT
	for i := 0; i < n; i++ {
		s = append(s, opT{true, i}, opT{false, i})
	}
	return s
}

// run executes the case on the real code. It returns "" and the reason when the timing validation
// fails (the case is then discarded and counted).
var dfltSeq struct {
	sync.Mutex
	n int
}

// runDefault: limiters without an explicit Store. No Store wrapper is possible here, so the requests are
// served strictly one after the other and only the long-window limiter (1 h: no carried-over weight
// inside the hour) is judged; its case line is an ordinary serial W case.
func (w *winCase) runDefault(id string) (line string, discard string, nontrivial bool, raced bool) {
	dfltSeq.Lock()
	dfltSeq.n++
	key := fmt.Sprintf("dflt-%d-%d", os.Getpid(), dfltSeq.n) // the default store may be shared: keep cases apart
	dfltSeq.Unlock()
	window := time.Duration(w.W) * time.Second
	ran := false
	r := router.MustNew()
	h := func(*router.Context) { ran = true }
	var storeA, storeB ratelimit.WindowStore
	if w.SharedStore {
		shared := ratelimit.NewInMemoryStore()
		storeA, storeB = shared, shared
		// start in the second half of a NoiseW window (so that the longer window's start lies before the shorter one's)
		nw := time.Duration(w.NoiseW) * time.Second
		for {
			off := time.Since(time.Now().Truncate(nw))
			if off >= nw/2+20*time.Millisecond && off < nw/2+400*time.Millisecond {
				break
			}
			time.Sleep(time.Until(time.Now().Truncate(nw).Add(nw/2 + 30*time.Millisecond)))
			if time.Since(time.Now().Truncate(nw)) < nw/2 {
				time.Sleep(time.Until(time.Now().Truncate(nw).Add(nw/2 + 30*time.Millisecond)))
			}
		}
	}
	r.GET("/a", ratelimit.WithSlidingWindow(ratelimit.SlidingWindow{Window: window, Limit: w.Limit, Store: storeA}, commonOpts(w.Headers, w.Enforce, w.Callback)), h)
	r.GET("/b", ratelimit.WithSlidingWindow(ratelimit.SlidingWindow{Window: time.Duration(w.NoiseW) * time.Second, Limit: w.NoiseLimit, Store: storeB}, commonOpts(true, true, false)), h)
	type rowT struct {
		t0, t1 int64
		m      mwObs
	}
	var rows []rowT
	panicked := guard(func() {
		for _, q := range w.Reqs {
			if q.NextSec {
				time.Sleep(time.Until(time.Now().Truncate(time.Second).Add(time.Second + 15*time.Millisecond)))
			}
			path := "/a"
			if q.Noise {
				path = "/b"
			}
			rec := httptest.NewRecorder()
			req := httptest.NewRequest(http.MethodGet, path, nil)
			req.Header.Set("X-Key", key)
			ran = false
			t0 := time.Now().UnixNano()
			r.ServeHTTP(rec, req)
			t1 := time.Now().UnixNano()
			if q.Noise {
				continue
			}
			hd := rec.Result().Header
			rows = append(rows, rowT{t0, t1, mwObs{Status: rec.Code, Ran: ran, Limit: hd.Values("RateLimit-Limit"),
				Remaining: hd.Values("RateLimit-Remaining"), Reset: hd.Values("RateLimit-Reset"), RetryAfter: hd.Values("Retry-After")}})
		}
	})
	for _, row := range rows {
		if !time.Unix(0, row.t0).Truncate(window).Equal(time.Unix(0, row.t1).Truncate(window)) ||
			!time.Unix(0, row.t0).Truncate(window).Equal(time.Unix(0, rows[0].t0).Truncate(window)) {
			return "", "W.discarded_window_changed_during_request", false, false
		}
		if row.t0/1e9 != row.t1/1e9 {
			return "", "W.discarded_second_changed_during_request", false, false
		}
	}
	for i, row := range rows { // fresh key, one window: the i-th judged request sees (curr = i, prev = 0)
		ws := time.Unix(0, row.t0).Truncate(window).Unix()
		if retryAfterRef(int64(i), 0, ws, w.Limit, int64(window), row.t0) != retryAfterRef(int64(i), 0, ws, w.Limit, int64(window), row.t1) {
			return "", "W.discarded_retry_after_changed_during_request", false, false
		}
	}
	l := hx.NewLine(id).Tok("W").Nat(w.Limit).Nat(w.W).Bool(w.Headers).Bool(w.Enforce).Bool(w.Callback).Bool(true).Nat(len(rows))
	for _, row := range rows {
		l.Str(key).I64(row.t0)
	}
	ser := serialSched(len(rows))
	l.Nat(len(ser))
	for _, op := range ser {
		if op.G {
			l.Tok("G")
		} else {
			l.Tok("I")
		}
		l.Nat(op.I)
	}
	l.Nat(0).Sep()
	if panicked {
		l.Tok("P")
	} else {
		l.Nat(len(rows))
		for i, row := range rows {
			l.Nat(i)
			row.m.tokens(l)
		}
	}
	return l.String(), "", true, false
}

var burstSeq struct {
	sync.Mutex
	n int
}

// runBurst: w.Burst requests for one fresh key released together on the real in-memory store (explicit, or — with
// DefaultStore — the one the limiter creates for itself): real contention on the entry lock, no wrapper. The window
// is an hour and the key is fresh, so the i-th call the store serves sees (curr = i, prev = 0): the responses are
// sorted into that order by the count they report (RateLimit-Remaining, then Retry-After, which grows with the
// count) and emitted as a W case over an atomic store. Kept only if every request stayed within one second.
func (w *winCase) runBurst(id string) (line string, discard string, nontrivial bool, raced bool) {
	burstSeq.Lock()
	burstSeq.n++
	key := fmt.Sprintf("burst-%d-%d", os.Getpid(), burstSeq.n)
	burstSeq.Unlock()
	window := time.Duration(w.W) * time.Second
	Wns := int64(window)
	sw := ratelimit.SlidingWindow{Window: window, Limit: w.Limit}
	if !w.DefaultStore {
		sw.Store = ratelimit.NewInMemoryStore()
	}
	type ranK struct{}
	r := router.MustNew()
	r.Use(ratelimit.WithSlidingWindow(sw, commonOpts(true, true, false)))
	anyMethod(r, func(c *router.Context) { *(c.Request.Context().Value(ranK{}).(*bool)) = true })
	type rowT struct {
		t0, t1 int64
		m      mwObs
		p      bool
	}
	rows := make([]rowT, w.Burst)
	start := make(chan struct{})
	var wg sync.WaitGroup
	for i := range rows {
		wg.Add(1)
		go func(i int) {
			defer wg.Done()
			ran := false
			ctx := context.WithValue(context.WithValue(context.Background(), ranK{}, &ran), methodCtx{}, w.Method)
			<-start
			rows[i].t0 = time.Now().UnixNano()
			rows[i].p = guard(func() { rows[i].m, _ = serveOnce(r, key, ctx) })
			rows[i].m.Ran = ran
			rows[i].t1 = time.Now().UnixNano()
		}(i)
	}
	close(start)
	wg.Wait()
	tmin, tmax := rows[0].t0, rows[0].t1
	panicked := false
	for _, row := range rows {
		tmin, tmax = min(tmin, row.t0), max(tmax, row.t1)
		panicked = panicked || row.p
	}
	if tmin/1e9 != tmax/1e9 || !time.Unix(0, tmin).Truncate(window).Equal(time.Unix(0, tmax).Truncate(window)) {
		return "", "W.discarded_second_changed_during_request", false, false
	}
	ws := time.Unix(0, tmin).Truncate(window).Unix()
	for i := range rows {
		if retryAfterRef(int64(i), 0, ws, w.Limit, Wns, tmin) != retryAfterRef(int64(i), 0, ws, w.Limit, Wns, tmax) {
			return "", "W.discarded_retry_after_changed_during_request", false, false
		}
	}
	num := func(v []string) int {
		n, err := strconv.Atoi(first(v))
		if err != nil {
			return -1
		}
		return n
	}
	sort.SliceStable(rows, func(a, b int) bool {
		ra, rb := num(rows[a].m.Remaining), num(rows[b].m.Remaining)
		if ra != rb {
			return ra > rb
		}
		if rows[a].m.Ran != rows[b].m.Ran {
			return rows[a].m.Ran
		}
		return num(rows[a].m.RetryAfter) < num(rows[b].m.RetryAfter)
	})
	l := hx.NewLine(id).Tok("W").Nat(w.Limit).Nat(w.W).Bool(true).Bool(true).Bool(false).Bool(true).Nat(len(rows))
	for range rows {
		l.Str(key).I64(tmin)
	}
	ser := serialSched(len(rows))
	l.Nat(len(ser))
	for _, op := range ser {
		if op.G {
			l.Tok("G")
		} else {
			l.Tok("I")
		}
		l.Nat(op.I)
	}
	l.Nat(0).Sep()
	if panicked {
		l.Tok("P")
	} else {
		l.Nat(len(rows))
		for i, row := range rows {
			l.Nat(i)
			row.m.tokens(l)
		}
	}
	return l.String(), "", w.Burst > w.Limit, false
}

type holdCtx struct{}

// runHeld: see winCase.Held. Emitted as an ordinary W case over an atomic store with a callback; the requests in
// the order the store served them: L admitted, the rejected one (answered late), one admitted late in the next
// window, L more.
func (w *winCase) runHeld(id string) (line string, discard string, nontrivial bool, raced bool) {
	burstSeq.Lock()
	burstSeq.n++
	key := fmt.Sprintf("held-%d-%d", os.Getpid(), burstSeq.n)
	burstSeq.Unlock()
	window := time.Second
	Wns := int64(window)
	opts := commonOpts(true, true, true)
	opts.OnExceeded = func(c *router.Context, _ ratelimit.Meta) {
		if ch, ok := c.Request.Context().Value(holdCtx{}).(chan struct{}); ok {
			<-ch
		}
		c.Response.WriteHeader(http.StatusTeapot)
	}
	type ranK struct{}
	r := router.MustNew()
	r.Use(ratelimit.WithSlidingWindow(ratelimit.SlidingWindow{Window: window, Limit: w.Limit, Store: ratelimit.NewInMemoryStore()}, opts))
	r.GET("/", func(c *router.Context) { *(c.Request.Context().Value(ranK{}).(*bool)) = true })
	type rowT struct {
		t0, t1 int64
		m      mwObs
	}
	do := func(hold chan struct{}) rowT {
		ran := false
		ctx := context.WithValue(context.Background(), ranK{}, &ran)
		if hold != nil {
			ctx = context.WithValue(ctx, holdCtx{}, hold)
		}
		t0 := time.Now().UnixNano()
		m, _ := serveOnce(r, key, ctx)
		m.Ran = ran
		return rowT{t0, time.Now().UnixNano(), m}
	}
	boundary := time.Now().Truncate(window).Add(window)
	if time.Until(boundary) < 100*time.Millisecond {
		boundary = boundary.Add(window)
	}
	time.Sleep(time.Until(boundary.Add(300 * time.Millisecond))) // 300 ms into window A
	var rows []rowT
	for i := 0; i < w.Limit; i++ {
		rows = append(rows, do(nil))
	}
	hold := make(chan struct{})
	var held rowT
	heldDone := make(chan struct{})
	go func() { defer close(heldDone); held = do(hold) }()
	time.Sleep(50 * time.Millisecond) // the rejected request has been counted and sits in its callback
	tHeld := time.Now()
	time.Sleep(time.Until(boundary.Add(window + 800*time.Millisecond))) // late in window B
	first := do(nil)
	close(hold)
	<-heldDone
	var later []rowT
	for i := 0; i < w.Limit; i++ {
		later = append(later, do(nil))
	}
	a0, a1 := boundary.UnixNano(), boundary.Add(window).UnixNano()
	for _, row := range rows {
		if row.t0 < a0 || row.t1 >= a1 || row.t0/1e9 != row.t1/1e9 {
			return "", "W.discarded_held_case_timing", false, false
		}
	}
	if held.t0 < a0 || tHeld.UnixNano() >= a1 || held.m.Status != http.StatusTeapot {
		return "", "W.discarded_held_case_timing", false, false
	}
	inB := append([]rowT{first}, later...)
	for k, row := range inB {
		if row.t0 < a1 || row.t1 >= a1+Wns || row.t0/1e9 != row.t1/1e9 {
			return "", "W.discarded_held_case_timing", false, false
		}
		num := func(t int64) int64 { return int64(k)*Wns + int64(w.Limit+1)*(Wns-min(t-a1, Wns)) }
		x, y := num(row.t0), num(row.t1)
		margin := Wns / 100000
		if x/Wns != y/Wns || x%Wns < margin || x%Wns > Wns-margin || y%Wns < margin || y%Wns > Wns-margin {
			return "", "W.discarded_weighted_usage_near_integer", false, false
		}
	}
	all := append(append(append([]rowT(nil), rows...), held), inB...)
	l := hx.NewLine(id).Tok("W").Nat(w.Limit).Nat(1).Bool(true).Bool(true).Bool(true).Bool(true).Nat(len(all))
	for _, row := range all {
		l.Str(key).I64(row.t0)
	}
	ser := serialSched(len(all))
	l.Nat(len(ser))
	for _, op := range ser {
		if op.G {
			l.Tok("G")
		} else {
			l.Tok("I")
		}
		l.Nat(op.I)
	}
	l.Nat(0).Sep().Nat(len(all))
	for i, row := range all {
		l.Nat(i)
		row.m.tokens(l)
	}
	return l.String(), "", true, false
}

var staleSeq struct {
	sync.Mutex
	n     int
	armed map[string]chan struct{} // key -> released when the holder may go on
	hit   map[string]chan struct{} // key -> closed when the held call has arrived at the hook
	once  sync.Once
}

// runStale: window 1 s, limit L. n1 = L+2 requests one after the other ~300 ms before a window boundary, then
// the stale request (held by the hook after its clock read, 3 ms before the boundary), the fresh request
// (3 ms after), then the stale one is released. Whatever the store does with the stale clock reading, the
// stale request belongs to the old window (full) and the fresh one sees the old window weigh ≥ L.
func (w *winCase) runStale(id string) (line string, discard string, nontrivial bool, raced bool) {
	staleSeq.once.Do(func() {
		staleSeq.armed, staleSeq.hit = map[string]chan struct{}{}, map[string]chan struct{}{}
		ratelimit.VerifSetYield(func(point, key string) {
			if point != "window.incrandgetcounts.clock" {
				return
			}
			staleSeq.Lock()
			rel, ok := staleSeq.armed[key]
			hit := staleSeq.hit[key]
			delete(staleSeq.armed, key)
			staleSeq.Unlock()
			if ok {
				close(hit)
				<-rel
			}
		})
	})
	staleSeq.Lock()
	staleSeq.n++
	key := fmt.Sprintf("stale-%d-%d", os.Getpid(), staleSeq.n)
	staleSeq.Unlock()
	window := time.Second
	store := ratelimit.NewInMemoryStore()
	type ctxK struct{}
	r := router.MustNew()
	r.Use(ratelimit.WithSlidingWindow(ratelimit.SlidingWindow{Window: window, Limit: w.Limit, Store: store}, commonOpts(true, true, false)))
	r.GET("/", func(c *router.Context) { *(c.Request.Context().Value(ctxK{}).(*bool)) = true })
	type rowT struct {
		t0, t1 int64
		m      mwObs
	}
	do := func() rowT {
		ran := false
		ctx := context.WithValue(context.Background(), ctxK{}, &ran)
		t0 := time.Now().UnixNano()
		m, _ := serveOnce(r, key, ctx)
		m.Ran = ran
		return rowT{t0, time.Now().UnixNano(), m}
	}
	boundary := time.Now().Truncate(window).Add(window)
	if time.Until(boundary) < 400*time.Millisecond {
		boundary = boundary.Add(window)
	}
	time.Sleep(time.Until(boundary.Add(-300 * time.Millisecond)))
	var rows []rowT
	for i := 0; i < w.Limit+2; i++ {
		row := do()
		if row.t0/1e9 != row.t1/1e9 || row.t1 >= boundary.UnixNano()-50e6 {
			return "", "W.discarded_stale_case_timing", false, false
		}
		rows = append(rows, row)
	}
	rel, hit := make(chan struct{}), make(chan struct{})
	staleSeq.Lock()
	staleSeq.armed[key], staleSeq.hit[key] = rel, hit
	staleSeq.Unlock()
	time.Sleep(time.Until(boundary.Add(-3 * time.Millisecond)))
	var stale rowT
	done := make(chan struct{})
	go func() { defer close(done); stale = do() }()
	select {
	case <-hit:
	case <-time.After(time.Second):
		close(rel)
		<-done
		return "", "W.discarded_stale_case_hook_not_reached", false, false
	}
	heldBefore := time.Now().Before(boundary)
	time.Sleep(time.Until(boundary.Add(3 * time.Millisecond)))
	fresh := do()
	close(rel)
	<-done
	if !heldBefore || stale.t0 >= boundary.UnixNano()-500e3 || fresh.t0 <= boundary.UnixNano() || fresh.t0/1e9 != fresh.t1/1e9 ||
		fresh.t1 > boundary.UnixNano()+100e6 || stale.t1 > boundary.UnixNano()+200e6 {
		return "", "W.discarded_stale_case_timing", false, false
	}
	n := len(rows)
	all := append(append([]rowT(nil), rows...), stale, fresh) // indices: 0..n-1 sequential, n stale, n+1 fresh
	l := hx.NewLine(id).Tok("W").Nat(w.Limit).Nat(1).Bool(true).Bool(true).Bool(false).Bool(true).Nat(len(all))
	for _, row := range all {
		l.Str(key).I64(row.t0)
	}
	sched := serialSched(n)
	sched = append(sched, opT{true, n + 1}, opT{false, n + 1}, opT{true, n}, opT{false, n})
	l.Nat(len(sched))
	for _, op := range sched {
		if op.G {
			l.Tok("G")
		} else {
			l.Tok("I")
		}
		l.Nat(op.I)
	}
	l.Nat(0).Sep().Nat(len(all))
	for i := 0; i < n; i++ {
		l.Nat(i)
		all[i].m.tokens(l)
	}
	l.Nat(n + 1)
	fresh.m.tokens(l)
	l.Nat(n)
	stale.m.tokens(l)
	return l.String(), "", true, true
}

// genWinShared: two limiters on one explicit store, windows W and 2·W, same key; the first limiter is
// exhausted, then the second one is used, then the first again (must still be exhausted).
func genWinShared(r *hx.Rand) *winCase {
	w := &winCase{Limit: r.Range(2, 5), W: 2, Headers: true, Enforce: true, DefaultStore: true, SharedStore: true, NoiseW: 4, NoiseLimit: 1000}
	for i, n := 0, w.Limit+r.Range(1, 2); i < n; i++ {
		w.Reqs = append(w.Reqs, winReq{Key: "a"})
	}
	for i, n := 0, r.Range(1, 3); i < n; i++ {
		w.Reqs = append(w.Reqs, winReq{Key: "a", Noise: true})
	}
	for i, n := 0, r.Range(1, 3); i < n; i++ {
		w.Reqs = append(w.Reqs, winReq{Key: "a"})
	}
	return w
}

func genWinDefault(r *hx.Rand) *winCase {
	w := &winCase{Limit: r.Range(2, 4), W: 3600, Headers: true, Enforce: true, DefaultStore: true,
		NoiseW: hx.Pick(r, []int{1, 1, 2}), NoiseLimit: 1000}
	w.SharedStore = r.Chance(1, 2) // one explicit store for both limiters (K16e) instead of each one's default
	a := func() { w.Reqs = append(w.Reqs, winReq{Key: "a"}) }
	b := func(next bool) { w.Reqs = append(w.Reqs, winReq{Key: "a", Noise: true, NextSec: next}) }
	if r.Chance(1, 3) {
		// the other limiter's traffic must not be charged to this one
		for i, n := 0, r.Range(2, 6); i < n; i++ {
			b(false)
		}
		a()
		return w
	}
	for i, n := 0, w.Limit+r.Range(0, 1); i < n; i++ {
		a()
	}
	// the short window elapses (twice) between requests to the other limiter, then this limiter again
	b(false)
	for i, n := 0, r.Range(2, 3)*w.NoiseW; i < n; i++ {
		b(true)
	}
	for i, n := 0, r.Range(1, 3); i < n; i++ {
		a()
	}
	return w
}

func (w *winCase) run(id string) (line string, discard string, nontrivial bool, raced bool) {
	if w.Burst > 0 {
		return w.runBurst(id)
	}
	if w.Held {
		return w.runHeld(id)
	}
	if w.DefaultStore {
		return w.runDefault(id)
	}
	if w.Stale {
		return w.runStale(id)
	}
	n := len(w.Reqs)
	window := time.Duration(w.W) * time.Second
	Wns := int64(window)
	created := time.Now()
	ss := &schedStore{inner: ratelimit.NewInMemoryStore(), turn: map[opT]chan struct{}{}, done: map[opT]chan struct{}{},
		got: map[int][3]int64{}, tG: map[int]time.Time{}}
	for _, op := range w.Sched {
		ss.turn[op] = make(chan struct{})
		ss.done[op] = make(chan struct{})
	}
	ran := make([]bool, n)
	r := router.MustNew()
	var theStore ratelimit.WindowStore = ss
	if w.Atomic {
		theStore = atomicSchedStore{ss}
	}
	r.Use(ratelimit.WithSlidingWindow(ratelimit.SlidingWindow{Window: window, Limit: w.Limit, Store: theStore},
		commonOpts(w.Headers, w.Enforce, w.Callback)))
	anyMethod(r, func(c *router.Context) {
		if i := c.Request.Context().Value(ctxKey{}).(int); i >= 0 {
			ran[i] = true
		}
	})

	obs := make([]mwObs, n)
	t1 := make([]time.Time, n)
	finished := make([]chan struct{}, n)
	var order []int
	var omu sync.Mutex
	panicked := false
	retries := [][2]int{}
	for _, op := range w.Sched {
		i := op.I
		if op.G {
			q := &w.Reqs[i]
			// waiting that belongs to the request: next window, or the Retry-After of an earlier 429
			if q.RetryOf > 0 {
				j := q.RetryOf - 1
				<-finished[j]
				ra, err := strconv.Atoi(first(obs[j].RetryAfter))
				if err != nil {
					return "", "W.discarded_retry_without_retry_after", false, false
				}
				if ra > 3 {
					return "", "W.discarded_retry_after_too_long_to_wait", false, false
				}
				time.Sleep(time.Until(time.Unix(0, w.Reqs[j].now).Add(time.Duration(ra)*time.Second + 3*time.Millisecond)))
				retries = append(retries, [2]int{j, i})
			}
			if q.PauseCleanup {
				time.Sleep(time.Until(created.Add(cleanupWait)))
			}
			if q.SleepMs > 0 {
				time.Sleep(time.Duration(q.SleepMs) * time.Millisecond)
			}
			if q.ErrBefore != "" {
				nctx := context.WithValue(context.Background(), ctxKey{}, map[string]int{"G": -1, "I": -2}[q.ErrBefore])
				guard(func() { serveOnce(r, "other-client-whose-store-call-fails", nctx) })
			}
			if q.SleepToNextWindow {
				next := time.Now().Truncate(window).Add(window).Add(time.Duration(q.OffsetMs) * time.Millisecond)
				time.Sleep(time.Until(next))
			}
			finished[i] = make(chan struct{})
			q.now = time.Now().UnixNano()
			go func(i int) {
				defer close(finished[i])
				defer func() {
					if p := recover(); p != nil {
						panicked = true
					}
				}()
				ctx := context.WithValue(context.WithValue(context.Background(), ctxKey{}, i), methodCtx{}, w.Method)
				m, _ := serveOnce(r, w.Reqs[i].Key, ctx)
				t1[i] = time.Now()
				omu.Lock()
				obs[i] = m
				order = append(order, i)
				omu.Unlock()
			}(i)
			close(ss.turn[op])
			select {
			case <-ss.done[op]:
			case <-finished[i]: // the middleware returned without calling the store (cannot happen) or panicked
			}
		} else {
			close(ss.turn[op])
			select {
			case <-ss.done[op]:
			case <-finished[i]:
			}
			<-finished[i] // the answer is complete before the next step: completion order = order of the I steps
		}
	}
	for i := 0; i < n; i++ {
		if finished[i] != nil {
			<-finished[i]
		}
	}
	// ---- timing validation (discard, never fail)
	for i := 0; i < n; i++ {
		t0 := w.Reqs[i].now
		g := ss.got[i]
		te := t1[i].UnixNano()
		tg := te // a request that never reached the store is judged on its completion stamp
		if tgt, ok := ss.tG[i]; ok {
			tg = tgt.UnixNano()
		}
		if !time.Unix(0, t0).Truncate(window).Equal(time.Unix(0, te).Truncate(window)) {
			return "", "W.discarded_window_changed_during_request", false, false
		}
		if t0/1e9 != tg/1e9 {
			return "", "W.discarded_second_changed_during_request", false, false
		}
		if _, reached := ss.tG[i]; reached && retryAfterRef(g[0], g[1], g[2], w.Limit, Wns, t0) != retryAfterRef(g[0], g[1], g[2], w.Limit, Wns, tg) {
			return "", "W.discarded_retry_after_changed_during_request", false, false
		}
		if g[1] > 0 {
			num := func(t int64) int64 {
				e := min(t-g[2]*1e9, Wns)
				return g[0]*Wns + g[1]*(Wns-e)
			}
			a, b := num(t0), num(tg)
			margin := Wns / 100000 // 10 µs per second of window
			if a/Wns != b/Wns || a%Wns < margin || a%Wns > Wns-margin || b%Wns < margin || b%Wns > Wns-margin {
				return "", "W.discarded_weighted_usage_near_integer", false, false
			}
			nontrivial = true
		}
	}
	if w.Atomic {
		// the verdict of a request is fixed by its (single) store call: answers in the order of the G steps
		order = order[:0]
		for _, op := range w.Sched {
			if op.G {
				order = append(order, op.I)
			}
		}
	}
	l := hx.NewLine(id).Tok("W").Nat(w.Limit).Nat(w.W).Bool(w.Headers).Bool(w.Enforce).Bool(w.Callback).Bool(w.Atomic).Nat(n)
	for _, q := range w.Reqs {
		l.Str(q.Key).I64(q.now)
	}
	l.Nat(len(w.Sched))
	ser := serialSched(n)
	for k, op := range w.Sched {
		if op.G {
			l.Tok("G")
		} else {
			l.Tok("I")
		}
		l.Nat(op.I)
		if (k >= len(ser) || ser[k] != op) && !w.Atomic {
			raced = true
		}
	}
	l.Nat(len(retries))
	for _, ij := range retries {
		l.Nat(ij[0]).Nat(ij[1])
	}
	l.Sep()
	if panicked {
		l.Tok("P")
	} else {
		l.Nat(len(order))
		for _, i := range order {
			m := obs[i]
			m.Ran = ran[i]
			l.Nat(i)
			m.tokens(l)
		}
	}
	return l.String(), "", nontrivial || raced || len(retries) > 0, raced
}

// shape is the case without its wall-clock stamps (distinctness is counted on it).
func (w *winCase) shape() string {
	s := fmt.Sprintf("W %s %d %d %v %v %v %v %d %v %v", w.Method, w.Limit, w.W, w.Headers, w.Enforce, w.Callback, w.DefaultStore, w.NoiseW, w.SharedStore, w.Stale)
	for _, q := range w.Reqs {
		s += fmt.Sprintf(" %s/%v/%d/%v/%v/%d/%s", q.Key, q.SleepToNextWindow, q.RetryOf, q.Noise, q.NextSec, q.SleepMs/500, q.ErrBefore)
	}
	return s + fmt.Sprint(w.Sched)
}

func genWin(r *hx.Rand, rolling bool) *winCase {
	w := &winCase{Limit: r.Range(1, 4), Headers: !r.Chance(1, 6), Enforce: !r.Chance(1, 8), Callback: r.Chance(1, 10)}
	kp := []string{"a", "b", "", "a "}
	hx.Shuffle(r, kp)
	keys := kp[:r.Range(1, 2)]
	w.Method = pickMethod(r)
	w.Atomic = r.Chance(1, 2) // half of the scheduled cases hand the limiter a store with the one-call interface
	if !rolling {
		// window lengths that do and do not divide 24 h (time.Truncate counts from Go's zero time)
		w.W = hx.Pick(r, []int{3600, 3600, 420, 604800, 7, 11, 35 * 60})
		n := r.Range(1, 9)
		for i := 0; i < n; i++ {
			q := winReq{Key: hx.Pick(r, keys)}
			if r.Chance(1, 10) {
				q.ErrBefore = hx.Pick(r, []string{"G", "I"})
			}
			w.Reqs = append(w.Reqs, q)
		}
		if r.Chance(1, 2) {
			w.Sched = serialSched(n)
		} else {
			// a random interleaving: G i before I i, requests start in index order
			started, pend := 0, []int{}
			for started < n || len(pend) > 0 {
				if started < n && (len(pend) == 0 || (len(pend) < 3 && r.Chance(1, 2))) {
					w.Sched = append(w.Sched, opT{true, started})
					pend = append(pend, started)
					started++
				} else {
					j := r.Intn(len(pend))
					w.Sched = append(w.Sched, opT{false, pend[j]})
					pend = append(pend[:j], pend[j+1:]...)
				}
			}
		}
		return w
	}
	// rolling: a short window, one key, serial; fill, cross into the next window, continue; sometimes retry a 429
	w.W = hx.Pick(r, []int{1, 1, 2})
	w.Enforce, w.Callback, w.Headers = true, false, true
	n1 := r.Range(1, w.Limit+2)
	for i := 0; i < n1; i++ {
		q := winReq{Key: "a"}
		if i == 0 {
			q.SleepToNextWindow, q.OffsetMs = true, r.Range(5, 300)
		}
		w.Reqs = append(w.Reqs, q)
	}
	switch r.Intn(4) {
	case 3: // rejected early in the NEXT window by the carried-over count alone, then retried after its Retry-After
		w.Reqs = w.Reqs[:0]
		for i, n := 0, w.Limit+r.Range(1, 2); i < n; i++ {
			q := winReq{Key: "a"}
			if i == 0 {
				q.SleepToNextWindow, q.OffsetMs = true, r.Range(300, w.W*1000-300)
			}
			w.Reqs = append(w.Reqs, q)
		}
		w.Reqs = append(w.Reqs, winReq{Key: "a", SleepToNextWindow: true, OffsetMs: r.Range(10, 120)})
		w.Reqs = append(w.Reqs, winReq{Key: "a", RetryOf: len(w.Reqs)})
	case 0: // next window, somewhere inside it
		n2 := r.Range(1, w.Limit+1)
		for i := 0; i < n2; i++ {
			q := winReq{Key: "a"}
			if i == 0 {
				q.SleepToNextWindow, q.OffsetMs = true, r.Range(20, w.W*1000-100)
			}
			w.Reqs = append(w.Reqs, q)
		}
	case 1: // retry the last request after its Retry-After, if it was a 429
		w.Reqs = append(w.Reqs, winReq{Key: "a", RetryOf: n1})
	default: // two windows later: the carried-over count must be gone
		q := winReq{Key: "a", SleepToNextWindow: true, OffsetMs: w.W*1000 + r.Range(20, 300)}
		w.Reqs = append(w.Reqs, q)
	}
	w.Sched = serialSched(len(w.Reqs))
	return w
}

// genWinOdd: a window of W seconds that does not divide 24 h, in real time: bursts of requests spread over
// one window length, so that a boundary of the window grid — and of any other grid a store might use — is
// crossed inside the case.
func genWinOdd(r *hx.Rand, W int) *winCase {
	w := &winCase{Limit: r.Range(3, 5), W: W, Headers: true, Enforce: true}
	parts := 3
	for p := 0; p <= parts; p++ {
		n := 2
		if p == 0 {
			n = w.Limit + r.Range(0, 1)
		}
		for i := 0; i < n; i++ {
			q := winReq{Key: "a"}
			if i == 0 && p > 0 {
				q.SleepMs = W*1000/parts - 40 + r.Range(0, 60)
			}
			w.Reqs = append(w.Reqs, q)
		}
	}
	w.Sched = serialSched(len(w.Reqs))
	return w
}

// ---------------------------------------------------------------------------------------------

func emitCase(id string, k *caseT, st *hx.Stats) string {
	switch k.Kind {
	case "K":
		{
			for try := 0; try < 200; try++ { // the interleaving is up to the scheduler: try until it differs or give up
				line, _, adm := coldStart(id, k.Rate, k.Burst, k.NConc, k.ViaNew)
				if line != "" && (adm != min(k.Burst, k.NConc) || try == 199) {
					return line
				}
			}
			return ""
		}
	case "S", "C":
		return k.runStore(id, st, nil, 0)
	case "M":
		return k.runMw(id, st, nil, 0)
	case "V":
		line, discard, nt := k.Scr.run(id)
		if discard != "" {
			if st != nil {
				st.Count(discard)
			}
			return ""
		}
		if st != nil {
			st.Case(fmt.Sprintf("V %v", *k.Scr), nt)
			st.Count("V.scripted_counts_cases")
		}
		return line + hx.Comment(k)
	case "W":
		line, discard, nt, raced := k.Win.run(id)
		if discard != "" {
			if st != nil {
				st.Count(discard)
			}
			return ""
		}
		if st != nil {
			in := line
			if i := indexSep(line); i > 0 {
				in = line[len(id):i]
			}
			// the wall-clock stamps make every window case distinct; hash the structure instead
			_ = in
			st.Case(k.Win.shape(), nt)
			st.Count("W.cases")
			if raced {
				st.Count("W.context_switch_between_GetCounts_and_Incr")
			}
			if 86400%k.Win.W != 0 {
				st.Count("W.window_not_dividing_24h")
			}
			for _, q := range k.Win.Reqs {
				if q.ErrBefore != "" {
					st.Count("W.store_error_on_another_clients_request")
				}
			}
		}
		return line + hx.Comment(k)
	}
	return ""
}

func indexSep(s string) int {
	for i := 0; i+3 < len(s); i++ {
		if s[i:i+4] == " => " {
			return i
		}
	}
	return -1
}

// coldStart: a FRESH limiter without an explicit store, hit by G goroutines released together with its
// very first requests (one key). The answers are read back from the response headers and listed
// admitted-first; all calls carry one timestamp in the model, and the run is kept only if it was fast
// enough for the refill to stay below 0.4 token. Sound for every interleaving.
func coldStart(id string, rate, burst, G int, viaNew bool) (line string, discard string, admitted int) {
	key := "cold"
	ran := make([]bool, G)
	type ctxK struct{}
	r := router.MustNew()
	if viaNew {
		r.Use(ratelimit.New(ratelimit.WithRequestsPerSecond(rate), ratelimit.WithBurst(burst),
			ratelimit.WithKeyFunc(func(c *router.Context) string { return c.Request.Header.Get("X-Key") })))
	} else {
		r.Use(ratelimit.WithTokenBucket(ratelimit.TokenBucket{Rate: rate, Burst: burst}, commonOpts(true, true, false)))
	}
	anyMethod(r, func(c *router.Context) { ran[c.Request.Context().Value(ctxK{}).(int)] = true })
	obs := make([]mwObs, G)
	start := make(chan struct{})
	var wg sync.WaitGroup
	panicked := false
	for i := 0; i < G; i++ {
		wg.Add(1)
		go func(i int) {
			defer wg.Done()
			defer func() {
				if p := recover(); p != nil {
					panicked = true
				}
			}()
			ctx := context.WithValue(context.Background(), ctxK{}, i)
			<-start
			obs[i], _ = serveOnce(r, key, ctx)
		}(i)
	}
	t0 := time.Now()
	close(start)
	wg.Wait()
	if time.Since(t0)*time.Duration(rate) > 400*time.Millisecond {
		return "", "K.discarded_slow_cold_start", 0
	}
	k := &caseT{Kind: "K", Rate: rate, Burst: burst, NConc: G, ViaNew: viaNew, Headers: true, Enforce: true}
	res := make([]outT, G)
	for i := range obs {
		rem, _ := strconv.Atoi(first(obs[i].Remaining))
		rst, _ := strconv.Atoi(first(obs[i].Reset))
		res[i] = outT{obs[i].Status != http.StatusTooManyRequests && ran[i], rem, rst}
		k.Calls = append(k.Calls, callT{Key: key})
		if res[i].Allowed {
			admitted++
		}
	}
	sort.SliceStable(res, func(i, j int) bool {
		if res[i].Allowed != res[j].Allowed {
			return res[i].Allowed
		}
		return res[i].Remaining > res[j].Remaining
	})
	l := hx.NewLine(id).Tok("K").Nat(rate).Nat(burst)
	callsTokens(l, k.Calls)
	l.Sep()
	if panicked {
		l.Tok("P")
	} else {
		l.Nat(G)
		for _, o := range res {
			outTokens(l, o)
		}
	}
	k.Cold = true
	return l.String() + hx.Comment(k), "", admitted
}

func fixedCases() []*caseT {
	return []*caseT{
		// K16a: rate 1, burst 1: second call half a second later is rejected; reset must be 1 (s), and the
		// retry one second after the rejection succeeds
		{Kind: "S", Rate: 1, Burst: 1, Calls: []callT{{Key: "k", Now: 0}, {Key: "k", Now: 256}, {Key: "k", Now: 256 + 512}}},
		{Kind: "S", Rate: 2, Burst: 1, Calls: []callT{{Key: "k", Now: 0}, {Key: "k", Now: 1}, {Key: "k", Now: 1 + 512}, {Key: "k", Now: 2 + 512}}},
		{Kind: "M", Rate: 1, Burst: 1, Headers: true, Enforce: true, Calls: []callT{{Key: "k", Now: 0}, {Key: "k", Now: 256}, {Key: "k", Now: 256 + 512}}},
		// slow refill: rate 1, burst 3, drained, retry needs a full second
		{Kind: "S", Rate: 1, Burst: 3, Calls: []callT{{Key: "k", Now: 0}, {Key: "k", Now: 0}, {Key: "k", Now: 0}, {Key: "k", Now: 0}, {Key: "k", Now: 511}, {Key: "k", Now: 512}}},
		// regressing clock: tokens are taken away, never added
		{Kind: "S", Rate: 5, Burst: 2, Calls: []callT{{Key: "k", Now: 1000}, {Key: "k", Now: 400}, {Key: "k", Now: 400}, {Key: "k", Now: 1000}, {Key: "k", Now: 1000}}},
		// keys do not influence each other
		{Kind: "S", Rate: 1, Burst: 1, Calls: []callT{{Key: "a", Now: 0}, {Key: "b", Now: 0}, {Key: "a", Now: 1}, {Key: "b", Now: 1}, {Key: "c", Now: 1}}},
		// 8 simultaneous calls on 3 tokens
		{Kind: "C", Rate: 1, Burst: 3, NConc: 8, Calls: []callT{{Key: "k", Now: 0}, {Key: "k", Now: 0}, {Key: "k", Now: 0}, {Key: "k", Now: 0}, {Key: "k", Now: 0}, {Key: "k", Now: 0}, {Key: "k", Now: 0}, {Key: "k", Now: 0}}},
		// K16b race: limit 1, both requests read the count before either increments it
		{Kind: "W", Win: &winCase{Limit: 1, W: 3600, Headers: true, Enforce: true, Reqs: []winReq{{Key: "a"}, {Key: "a"}},
			Sched: []opT{{true, 0}, {true, 1}, {false, 0}, {false, 1}}}},
		// the same two requests, same schedule, over a store with the one-call interface (K16b as repaired): 200, 429
		{Kind: "W", Win: &winCase{Limit: 1, W: 3600, Headers: true, Enforce: true, Atomic: true, Reqs: []winReq{{Key: "a"}, {Key: "a"}},
			Sched: []opT{{true, 0}, {true, 1}, {false, 0}, {false, 1}}}},
		// the same two requests serially: the second is rejected
		{Kind: "W", Win: &winCase{Limit: 1, W: 3600, Headers: true, Enforce: true, Reqs: []winReq{{Key: "a"}, {Key: "a"}},
			Sched: serialSched(2)}},
		// K16b truthfulness: limit 2, window 2 s: three requests; as shipped the 429 said Retry-After ≤ 2 and the retry was rejected again; repaired: Retry-After 3, the retry is admitted
		{Kind: "W", Win: &winCase{Limit: 2, W: 2, Headers: true, Enforce: true,
			Reqs:  []winReq{{Key: "a", SleepToNextWindow: true, OffsetMs: 100}, {Key: "a"}, {Key: "a"}, {Key: "a", RetryOf: 3}},
			Sched: serialSched(4)}},
	}
}

// slowCases are the two cases that wait for the stores' 5-minute cleanup tick (K16c, K16d). They are
// generated only in the thorough tier (first seed) and run concurrently with everything else.
func slowCases() []*caseT {
	var out []*caseT
	// token bucket: burst larger than what the idle time refills. Take 4500 of 5000 tokens at a scripted
	// instant 3700 s before now, wait for the cleanup (the entry is then idle for ~4000 s, which refills
	// 4000 < 4500 tokens), go on one scripted second later: 501 tokens are there — not a fresh 5000.
	s := &caseT{Kind: "S", Rate: 1, Burst: 5000, EpochAgoSec: 3700}
	for i := 0; i < 4500; i++ {
		s.Calls = append(s.Calls, callT{Key: "k"})
	}
	for i := 0; i < 6; i++ {
		s.Calls = append(s.Calls, callT{Key: "k", Now: 512, Pause: i == 0})
	}
	out = append(out, s)
	// sliding window longer than the store's 2-hour retention, started more than 2 hours ago and with more
	// than 10 minutes to go: its counters must survive the cleanup
	for _, h := range []int{3, 4, 6, 8, 12, 24} {
		w := time.Duration(h) * time.Hour
		start := time.Now().Truncate(w)
		if time.Since(start) > 2*time.Hour+10*time.Minute && time.Until(start.Add(w)) > 10*time.Minute {
			out = append(out, &caseT{Kind: "W", Win: &winCase{Limit: 3, W: h * 3600, Headers: true, Enforce: true,
				Reqs:  []winReq{{Key: "a"}, {Key: "a"}, {Key: "a"}, {Key: "a", PauseCleanup: true}, {Key: "a"}},
				Sched: serialSched(5)}})
			break
		}
	}
	return out
}

func main() {
	a := hx.ParseArgs()
	w := hx.Out()
	defer w.Flush()
	switch a.Cmd {
	case "gen":
		r := hx.NewRand(a.Seed)
		st := hx.NewStats()
		// rolling-window cases sleep on the wall clock: run them concurrently while the rest is generated
		nRoll := 36
		if a.Tier == "thorough" {
			nRoll = 96
		}
		if a.N < 200 {
			nRoll = 0
		}
		type rollRes struct {
			id   string
			k    *caseT
			line string
			disc string
			nt   bool
		}
		rolls := make([]rollRes, nRoll)
		var wg sync.WaitGroup
		for i := range rolls {
			rolls[i].id = fmt.Sprintf("c16-%d-roll-%d", a.Seed, i)
			if i%12 == 9 {
				rolls[i].k = &caseT{Kind: "W", Win: &winCase{Limit: r.Range(2, 3), W: 1, Headers: true, Enforce: true, Callback: true, Held: true}}
			} else if i%6 == 3 {
				rolls[i].k = &caseT{Kind: "W", Win: &winCase{Limit: r.Range(2, 5), W: 1, Headers: true, Enforce: true, Stale: true}}
			} else if i%12 == 5 {
				rolls[i].k = &caseT{Kind: "W", Win: genWinShared(r)} // two limiters on one explicit store, nested windows
			} else if i%3 == 2 {
				rolls[i].k = &caseT{Kind: "W", Win: genWinDefault(r)} // two limiters on the default store
			} else if i%6 == 1 {
				W := 7
				if a.Tier == "thorough" && i%12 == 1 {
					W = 11
				}
				rolls[i].k = &caseT{Kind: "W", Win: genWinOdd(r, W)} // window not dividing 24 h, real time
			} else {
				rolls[i].k = &caseT{Kind: "W", Win: genWin(r, true)}
			}
		}
		var slow []*caseT
		if a.Tier == "thorough" && a.Seed%1000 == 0 && a.N >= 200 {
			slow = slowCases()
		}
		slowLines := make([]string, len(slow))
		for i := range slow {
			wg.Add(1)
			go func(i int) {
				defer wg.Done()
				slowLines[i] = emitCase(fmt.Sprintf("c16-%d-slow-%d", a.Seed, i), slow[i], nil)
			}(i)
		}
		fixed := fixedCases()
		fixedLines := make([]string, len(fixed))
		for i := range fixed {
			if fixed[i].Kind == "W" && fixed[i].Win.W < 3600 {
				wg.Add(1)
				go func(i int) {
					defer wg.Done()
					fixedLines[i] = emitCase(fmt.Sprintf("c16-fix-%d", i), fixed[i], nil)
				}(i)
			}
		}
		for i := range rolls {
			wg.Add(1)
			go func(i int) {
				defer wg.Done()
				line, disc, nt, _ := rolls[i].k.Win.run(rolls[i].id)
				rolls[i].line, rolls[i].disc, rolls[i].nt = line, disc, nt
			}(i)
		}
		for i, k := range fixed {
			if k.Kind == "W" && k.Win.W < 3600 {
				continue
			}
			if s := emitCase(fmt.Sprintf("c16-fix-%d", i), k, st); s != "" {
				fmt.Fprintln(w, s)
			}
		}
		for i := 0; i < a.N; i++ {
			id := fmt.Sprintf("c16-%d-%d", a.Seed, i)
			var s string
			switch i % 8 {
			case 0, 1, 2, 3:
				g := newTraceGen(r)
				k := &caseT{Kind: "S", Rate: g.rate, Burst: g.burst}
				if r.Chance(1, 150) {
					k.Flood = 70000 // a very large key table must not change anything for the keys of the trace
				}
				s = k.runStore(id, st, g, r.Range(1, 40))
			case 4:
				g := newTraceGen(r)
				k := &caseT{Kind: "C", Rate: g.rate, Burst: g.burst, NConc: r.Range(2, 8)}
				s = k.runStore(id, st, g, r.Range(0, 12))
			case 5, 6:
				if i%40 == 5 { // a twentieth of the middleware cases: the sliding-window arithmetic on scripted counts
					s = emitCase(id, &caseT{Kind: "V", Scr: genScr(r)}, st)
					break
				}
				g := newTraceGen(r)
				k := &caseT{Kind: "M", Rate: g.rate, Burst: g.burst, Headers: !r.Chance(1, 6), Enforce: !r.Chance(1, 6), Callback: r.Chance(1, 8)}
				k.Method = pickMethod(r)
				if r.Chance(1, 8) {
					k.ViaNew, k.Headers, k.Enforce, k.Callback = true, true, true, false
					// leave options out: the documented defaults apply (rate 100/s, burst 20, key by client IP)
					if r.Chance(1, 3) {
						k.OmitRate, k.Rate = true, 100
					}
					if r.Chance(1, 3) {
						k.OmitBurst, k.Burst = true, 20
					}
					k.OmitKey = r.Chance(1, 4)
					if r.Chance(1, 3) {
						k.JunkOpts = hx.Pick(r, [][]int{{0}, {-1}, {0, -100}, {-5, 0}})
					}
				} else if r.Chance(1, 60) {
					k.Flood = 70000
				} else if r.Chance(1, 10) {
					k.OmitKey = true // WithTokenBucket with CommonOptions.Key == nil
				}
				nreq := r.Range(1, 25)
				if k.ViaNew && k.OmitBurst {
					nreq = r.Range(18, 26)
				}
				s = k.runMw(id, st, g, nreq)
			default:
				s = emitCase(id, &caseT{Kind: "W", Win: genWin(r, false)}, st)
			}
			if s != "" {
				fmt.Fprintln(w, s)
			}
		}
		wg.Wait()
		for i, s := range fixedLines {
			if s != "" {
				fmt.Fprintln(w, s)
				st.Case("fixed-w-"+strconv.Itoa(i), true)
				st.Count("W.cases")
				st.Count("W.rolling_window_real_time")
			} else if fixed[i].Kind == "W" && fixed[i].Win.W < 3600 {
				st.Count("W.discarded_fixed_witness_timing")
			}
		}
		// ---- cold-start limiters (simultaneous first requests on a fresh default store)
		nCold := 800
		if a.Tier == "thorough" {
			nCold = 2000
		}
		if a.N < 200 {
			nCold = 0
		}
		for i := 0; i < nCold; i++ {
			rate, burst, G := hx.Pick(r, []int{1, 1, 2, 10}), hx.Pick(r, []int{1, 1, 2, 3}), hx.Pick(r, []int{4, 8, 16, 16})
			line, disc, adm := coldStart(fmt.Sprintf("c16-%d-cold-%d", a.Seed, i), rate, burst, G, i%3 == 0)
			if disc != "" {
				st.Count(disc)
				continue
			}
			fmt.Fprintln(w, line)
			st.Case(fmt.Sprintf("cold %d %d %d %v", rate, burst, G, i%3 == 0), G > burst)
			st.Count("K.cold_start_limiters")
			if adm != min(burst, G) {
				st.Count("K.cold_start_admitted_fewer_than_burst")
			}
		}
		// ---- bursts of simultaneous requests on the real in-memory window store (atomic count-and-report)
		nBurst := 400
		if a.Tier == "thorough" {
			nBurst = 1500
		}
		if a.N < 200 {
			nBurst = 0
		}
		for i := 0; i < nBurst; i++ {
			k := &caseT{Kind: "W", Win: &winCase{Limit: hx.Pick(r, []int{1, 1, 2, 3, 5}), W: 3600, Headers: true, Enforce: true,
				Burst: hx.Pick(r, []int{2, 4, 8, 16}), DefaultStore: i%2 == 0, Method: pickMethod(r)}}
			line, disc, nt, _ := k.Win.run(fmt.Sprintf("c16-%d-burst-%d", a.Seed, i))
			if disc != "" {
				st.Count(disc)
				continue
			}
			fmt.Fprintln(w, line+hx.Comment(k))
			st.Case(fmt.Sprintf("burst %d %d %v %s", k.Win.Limit, k.Win.Burst, k.Win.DefaultStore, k.Win.Method), nt)
			st.Count("W.cases")
			st.Count("W.burst_of_simultaneous_requests_on_the_in_memory_store")
		}
		// ---- ratelimit.New with small cleanup interval / TTL, drained, idle past TTL + 2 ticks, back again
		nIdle := 12
		if a.N < 200 {
			nIdle = 0
		}
		idleLines := make([]string, nIdle)
		var iwg sync.WaitGroup
		for i := 0; i < nIdle; i++ {
			k := &caseT{Kind: "M", ViaNew: true, Headers: true, Enforce: true, Rate: hx.Pick(r, []int{1, 1, 2}), Burst: r.Range(2, 6),
				CleanupMs: hx.Pick(r, []int{10, 20}), TTLMs: hx.Pick(r, []int{30, 50}), IdleMs: 170}
			keys := []string{"idle-a", "idle-b"}[:r.Range(1, 2)]
			for _, key := range keys {
				for j, n := 0, k.Burst+r.Range(-1, 1); j < n; j++ {
					k.Calls = append(k.Calls, callT{Key: key})
				}
			}
			for _, key := range keys {
				for j, n := 0, r.Range(1, k.Burst+1); j < n; j++ {
					k.Calls = append(k.Calls, callT{Key: key, Now: 64})
				}
			}
			iwg.Add(1)
			go func(i int, k *caseT) {
				defer iwg.Done()
				idleLines[i] = k.runMw(fmt.Sprintf("c16-%d-idle-%d", a.Seed, i), nil, nil, 0)
			}(i, k)
		}
		iwg.Wait()
		for i, il := range idleLines {
			if il == "" {
				st.Count("M.discarded_slow_run_via_New")
				continue
			}
			fmt.Fprintln(w, il)
			st.Case("idle-"+strconv.Itoa(i), true)
			st.Count("M.via_New_idle_past_TTL_with_small_cleanup_interval")
		}
		for i, sl := range slowLines {
			if sl != "" {
				fmt.Fprintln(w, sl)
				st.Case("slow-"+strconv.Itoa(i), true)
				st.Count("cases_across_a_store_cleanup_tick")
			} else {
				st.Count("discarded_cleanup_case")
			}
		}
		for _, rr := range rolls {
			if rr.disc != "" {
				st.Count(rr.disc)
				continue
			}
			fmt.Fprintln(w, rr.line+hx.Comment(rr.k))
			st.Case(rr.k.Win.shape(), rr.nt)
			st.Count("W.cases")
			if rr.k.Win.Held {
				st.Count("W.rejection_held_across_a_window_boundary")
			} else if rr.k.Win.Stale {
				st.Count("W.call_overtaken_after_its_clock_read_at_a_window_boundary")
			} else if rr.k.Win.SharedStore {
				st.Count("W.two_limiters_on_one_explicit_store_nested_windows")
			} else if rr.k.Win.DefaultStore {
				st.Count("W.two_limiters_on_the_default_store")
			} else if 86400%rr.k.Win.W != 0 {
				st.Count("W.real_time_window_not_dividing_24h")
			} else {
				st.Count("W.rolling_window_real_time")
			}
		}
		st.Emit(w)
	case "replay":
		for _, line := range hx.StdinLines() {
			var k caseT
			id, err := hx.CaseFromComment(line, &k)
			if err != nil {
				fmt.Fprintf(w, "# cannot replay %q: %v\n", id, err)
				continue
			}
			// a timing-validated case may be discarded on an unlucky run: try a few times
			for try := 0; try < 5; try++ {
				kk := k
				if s := emitCase(id, &kk, nil); s != "" {
					fmt.Fprintln(w, s)
					break
				}
			}
		}
	}
}
