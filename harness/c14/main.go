// Harness for C14 (configuration merging is last-source-wins, reload is atomic). Drives the real
// rivaas.dev/config through its public API: New(WithSource/WithFile/WithEnv, WithBinding,
// WithValidator, WithJSONSchema), Load, Values, Get. A case is a whole history of Loads on one
// Config, with faults injected through the sources' contents and readers placed deterministically
// through the Source / validator / Validate() callbacks (no hook in the repository needed).
//
// Parameters of the Lean model evaluated here for real: the decoders (a file or environment
// source is asked once more for the map it returns, and that map is shipped), and mapstructure +
// applyDefaults + Validate(): a fresh Config over the same sources says what the bound struct is.
package main

import (
	"bytes"
	"crypto/sha256"
	"context"
	"encoding/json"
	"errors"
	"fmt"
	"os"
	"path/filepath"
	"reflect"
	"slices"
	"sort"
	"strconv"
	"strings"
	"sync"
	"sync/atomic"
	"time"
	"unicode"

	"github.com/BurntSushi/toml"
	"github.com/goccy/go-yaml"
	"github.com/spf13/cast"
	"rivaas.dev/config"
	"rivaas.dev/config/codec"
	"rivaas.dev/config/source"
	"verif/harness/hx"
)

// ---------------------------------------------------------------- the case

type srcT struct {
	Kind string         // map | static | json | yaml | env
	Fail bool           // the source returns an error in this Load
	M    map[string]any `json:",omitempty"` // what it returns otherwise (nil = a nil map)
	// Cancel: the (scripted) source cancels the context of the Load while it is being read and then
	// returns its map: the next source is not read any more, the Load fails with ctx.Err()
	Cancel bool `json:",omitempty"`
	// Pad (file sources): the file additionally holds the key "pad" with a string of that many bytes — a file of more
	// than a MiB; the value is shipped as a digest (see leaf)
	Pad int `json:",omitempty"`
	// Rev (environment source): the variables are set in descending instead of ascending name order, which is the
	// order os.Environ() lists them in: `A=1` before or after `A_B=2` decides which of the two survives
	Rev bool `json:",omitempty"`
}

type readerT struct {
	Place int // 0 pointer taken before the Load, read after it; 1 inside source 0's Load; 2 inside validator 0;
	// 3 started inside Validate() under the write lock; 4 after the Load; 9 free-running during the Load
}

type loadT struct {
	Srcs    []srcT
	Readers []readerT
	// Race, when set, is what the scripted sources return to a second Load that runs concurrently
	// with this one on the same Config (file and environment sources serve both alike)
	Race []srcT `json:",omitempty"`
}

type loaderKey struct{}

type caseT struct {
	Schema bool
	NV     int
	Bound  bool
	// Plain: the bound struct has no Validate() method (same fields, declared as another type)
	Plain bool `json:",omitempty"`
	// Tag: the Config is built WithTag("cfg") and the bound struct carries its keys under that tag
	Tag bool `json:",omitempty"`
	// Stress: after the history, a key is toggled by 300 Loads on a small Config of its own while two
	// goroutines hammer the …Or getters; a result that is neither the value nor the default is an anomaly
	Stress bool `json:",omitempty"`
	// Dump: the Config has a dumper that edits the top level of the map it is handed (masks a value, drops a key,
	// adds one); Dump is called after every Load, before the observations: what Get / Values return must not change
	Dump  bool `json:",omitempty"`
	Loads []loadT
	Keys   []string // Get probes after every Load
}

// ---------------------------------------------------------------- the bound struct

type Server struct {
	Host string `config:"host" default:"localhost"`
	Port int    `config:"port" default:"80"`
}
type Emb struct {
	Level string `config:"level"`
}
type Bound struct {
	Name   string `config:"name"`
	Debug  bool   `config:"debug"`
	Server Server `config:"server"`
	Emb    `config:",squash"`
	Rate   float64           `config:"rate" default:"1.5"`
	Tags   []string          `config:"tags"`
	Labels map[string]string `config:"labels"`
	Peer   *Server           `config:"peer"`
	Reject bool              `config:"deny"`
	Since  time.Time         `config:"since"`
	Wait   time.Duration     `config:"idle"`
	Meta   Meta              `config:"meta"`
}

// Meta mixes exported fields with an unexported one and a field the decoder is told to skip.
type Meta struct {
	Owner  string `config:"owner"`
	hidden int
	Skip   string `config:"-"`
}

// cfgBound is Bound with the top-level tags under another tag name (WithTag("cfg")) and keys that
// differ from the field names, so that a decoder that forgets the tag name misses them. Struct
// conversion ignores tags, so both views share one value.
type cfgBound struct {
	Name   string `cfg:"name"`
	Debug  bool   `cfg:"debug"`
	Server Server `cfg:"server"`
	Emb    `cfg:",squash"`
	Rate   float64           `cfg:"rate" default:"1.5"`
	Tags   []string          `cfg:"tags"`
	Labels map[string]string `cfg:"labels"`
	Peer   *Server           `cfg:"peer"`
	Reject bool              `cfg:"deny"`
	Since  time.Time         `cfg:"since"`
	Wait   time.Duration     `cfg:"idle"`
	Meta   Meta              `cfg:"meta"`
}

func (b *cfgBound) Validate() error { return (*Bound)(b).Validate() }

// plainBound has Bound's fields and none of its methods.
type plainBound Bound

func (b *Bound) Validate() error {
	if h := validateHook; h != nil {
		h()
	}
	if b.Reject {
		return errors.New("rejected by Validate")
	}
	if b.Name == "boom" {
		panic(injectedValidatePanic) // a panic out of Validate() is a panic out of Load: nothing may change
	}
	return nil
}

const injectedValidatePanic = "Validate panics (injected)"

// validateHook runs inside Validate(), i.e. while Load holds the write lock.
var validateHook func()

type fieldT struct {
	name string
	path []string // key path in the merged values
	get  func(b *Bound) any
}

var boundFields = []fieldT{
	{"name", []string{"name"}, func(b *Bound) any { return b.Name }},
	{"debug", []string{"debug"}, func(b *Bound) any { return b.Debug }},
	{"server.host", []string{"server", "host"}, func(b *Bound) any { return b.Server.Host }},
	{"server.port", []string{"server", "port"}, func(b *Bound) any { return b.Server.Port }},
	{"level", []string{"level"}, func(b *Bound) any { return b.Level }},
	{"rate", []string{"rate"}, func(b *Bound) any { return b.Rate }},
	{"tags", []string{"tags"}, func(b *Bound) any { return b.Tags }},
	{"labels", []string{"labels"}, func(b *Bound) any { return b.Labels }},
	{"peer", []string{"peer"}, func(b *Bound) any { return b.Peer }},
	{"reject", []string{"deny"}, func(b *Bound) any { return b.Reject }},
	{"since", []string{"since"}, func(b *Bound) any { return b.Since.UTC().Format(time.RFC3339) }},
	{"wait", []string{"idle"}, func(b *Bound) any { return b.Wait.String() }},
	{"meta.owner", []string{"meta", "owner"}, func(b *Bound) any { return b.Meta.Owner }},
	{"meta.skip", []string{"meta", "-"}, func(b *Bound) any { return b.Meta.Skip + strconv.Itoa(b.Meta.hidden) }},
}

func renderField(v any) string {
	b, _ := json.Marshal(v) // maps are rendered with sorted keys
	return string(b)
}

func renderBound(b *Bound) [][2]string {
	out := make([][2]string, len(boundFields))
	for i, f := range boundFields {
		out[i] = [2]string{f.name, renderField(f.get(b))}
	}
	return out
}

// ---------------------------------------------------------------- sources

// scriptSrc returns the content scripted for the current Load; `onLoad` places readers.
type scriptSrc struct {
	cur    *srcT
	race   *srcT
	onLoad func()
}

func (s *scriptSrc) Load(ctx context.Context) (map[string]any, error) {
	if s.onLoad != nil {
		s.onLoad()
	}
	cur := s.cur
	if ctx.Value(loaderKey{}) == 1 {
		cur = s.race
	}
	if cur.Fail {
		return nil, errors.New("source failure (injected)")
	}
	if cur.Cancel {
		if cancel, ok := ctx.Value(cancelKey{}).(context.CancelFunc); ok {
			cancel()
		}
	}
	return deepCopyMap(cur.M), nil
}

type cancelKey struct{}

// barrierMissed counts racing Loads in which one loader never reached its first source while the other
// was held there (code that serialises or coalesces Loads before the sources are read). On the code as it
// is this never happens; when it does the barrier is only a scheduling aid (the outcome is judged against
// both commit orders anyway), so after the first miss the wait drops from 2 s to 5 ms: a tree on which
// every race misses must not turn a 15 s run into minutes.
var envLoads, envConflicts, envNewline int // generator counters for the modelled environment source

func envParts(name string) []string {
	var parts []string
	for _, p := range strings.Split(strings.ToLower(strings.TrimSpace(name)), "_") {
		if p != "" {
			parts = append(parts, p)
		}
	}
	return parts
}

var barrierMissed atomic.Int64
var barrierEver atomic.Bool

func barrierWait() time.Duration {
	if barrierEver.Load() {
		return 5 * time.Millisecond
	}
	return 2 * time.Second
}

// staticSrc hands out the very same map on every Load, like config.TestSource and any source that
// caches what it parsed. Load must not modify it: the next Load would start from the modified map.
type staticSrc struct{ m map[string]any }

func (s *staticSrc) Load(context.Context) (map[string]any, error) { return s.m, nil }

// withoutNils drops nil values at every level of nested maps and lists.
func withoutNils(v any) any {
	switch x := v.(type) {
	case map[string]any:
		out := map[string]any{}
		for k, e := range x {
			if e != nil {
				out[k] = withoutNils(e)
			}
		}
		return out
	case []any:
		out := []any{}
		for _, e := range x {
			if e != nil {
				out = append(out, withoutNils(e))
			}
		}
		return out
	}
	return v
}

func deepCopy(v any) any {
	switch x := v.(type) {
	case map[string]any:
		return deepCopyMap(x)
	case []any:
		out := make([]any, len(x))
		for i, e := range x {
			out[i] = deepCopy(e)
		}
		return out
	}
	return v
}

func deepCopyMap(m map[string]any) map[string]any {
	if m == nil {
		return nil
	}
	out := make(map[string]any, len(m))
	for k, v := range m {
		out[k] = deepCopy(v)
	}
	return out
}

// ---------------------------------------------------------------- rendering of values

// leaf renders a non-map value: type-tagged so that 0, "0", false, "" and nil stay distinct.
func leaf(v any) string {
	switch x := v.(type) {
	case nil:
		return "n:"
	case bool:
		return "b:" + strconv.FormatBool(x)
	case string:
		if len(x) > 4096 { // a long string travels as its digest (same rendering on the input and the observation side)
			return fmt.Sprintf("s#%x:%d", sha256.Sum256([]byte(x)), len(x))
		}
		return "s:" + x
	}
	b, err := json.Marshal(v)
	if err != nil {
		return fmt.Sprintf("%T:%v", v, v)
	}
	return fmt.Sprintf("%T:%s", v, b)
}

// foldNonASCII lower-cases the non-ASCII letters of a key and leaves the ASCII ones alone: the
// model lower-cases ASCII itself, the Unicode tables are a parameter. A key reaches the model as
// strings.ToLower would leave it as far as non-ASCII letters go, so code that forgets to fold them
// (or folds them differently) disagrees with the model.
func foldNonASCII(s string) string {
	return strings.Map(func(r rune) rune {
		if r < 128 {
			return r
		}
		return unicode.ToLower(r)
	}, s)
}

func kvsTerm(l *hx.Line, m map[string]any) {
	keys := make([]string, 0, len(m))
	for k := range m {
		keys = append(keys, k)
	}
	sort.Strings(keys)
	l.Nat(len(keys))
	for _, k := range keys {
		l.Str(foldNonASCII(k))
		if mm, ok := m[k].(map[string]any); ok {
			l.Tok("M")
			kvsTerm(l, mm)
		} else {
			l.Tok("L").Str(leaf(m[k]))
		}
	}
}

func resTok(l *hx.Line, v any) {
	switch x := v.(type) {
	case nil:
		l.Tok("N")
	case map[string]any:
		l.Tok("M")
	default:
		l.Tok("L").Str(leaf(x))
	}
}

// ---------------------------------------------------------------- running a case

const schemaJSON = `{"type":"object","properties":{"schemafail":{"not":{"const":true}}}}`

func isTrue(m map[string]any, k string) bool { b, ok := m[k].(bool); return ok && b }

type runT struct {
	c       *caseT
	cfg     *config.Config
	bound   *Bound
	cur     []*srcT // current script position per source
	race    []*srcT // what the scripted sources give the second, concurrent loader
	dir     string
	envPref string
	hooks   struct{ src0, val0, validate func() }
	real    []config.Source // the real (file/env) source objects, for asking them what they return
	written map[int][]byte  // what was written into the file of source i for the current Load
	holds   map[int]*holdDecoder
}

// holdDecoder is the decoder of a `source.NewFile(path, decoder)` source (kind hfile): the YAML library, with a hook
// at the start of Decode — i.e. after the file source has read the bytes and before it decodes them.
type holdDecoder struct{ hold func() }

func (d *holdDecoder) Decode(data []byte, v any) error {
	if h := d.hold; h != nil {
		h()
	}
	return yaml.Unmarshal(data, v)
}

// blockYAML renders a map as one `"key": <JSON value>` line per top-level key (JSON is YAML), unpadded: a shorter
// document followed by the tail of a longer one is, with luck, still a document.
func blockYAML(m map[string]any) []byte {
	var b bytes.Buffer
	for _, k := range sortedMapKeys(m) {
		kb, _ := json.Marshal(k)
		vb, _ := json.Marshal(m[k])
		b.Write(kb)
		b.WriteString(": ")
		b.Write(vb)
		b.WriteByte('\n')
	}
	if b.Len() == 0 {
		b.WriteString("{}\n")
	}
	return b.Bytes()
}

// editDumper edits the top level of the map Dump hands it (Dump passes a copy of the top level).
type editDumper struct{}

func (editDumper) Dump(_ context.Context, values *map[string]any) error {
	m := *values
	ks := sortedMapKeys(m)
	if len(ks) > 0 {
		delete(m, ks[0])
	}
	if len(ks) > 1 {
		m[ks[1]] = "***"
	}
	m["dumped"] = true
	return nil
}

// pref: the prefix of an environment source; a second environment source (kind env2) of the same Config has a
// prefix of its own
func (r *runT) pref(kind string) string {
	if kind == "env2" {
		return "VC14Y" + strings.TrimPrefix(r.envPref, "VC14X")
	}
	return r.envPref
}

func isEnvKind(k string) bool { return k == "env" || k == "env2" }

func (r *runT) build(c *caseT, withHooks bool) error {
	r.c = c
	nsrc := 0
	for _, l := range c.Loads {
		if len(l.Srcs) > nsrc {
			nsrc = len(l.Srcs)
		}
	}
	r.cur = make([]*srcT, nsrc)
	r.race = make([]*srcT, nsrc)
	r.real = make([]config.Source, nsrc)
	var opts []config.Option
	kinds := c.Loads[0].Srcs
	for i := 0; i < nsrc; i++ {
		r.cur[i] = &srcT{}
		r.race[i] = &srcT{}
		kind := "map"
		if i < len(kinds) {
			kind = kinds[i].Kind
		}
		switch kind {
		case "json", "yaml", "toml":
			opts = append(opts, config.WithFile(filepath.Join(r.dir, "s"+strconv.Itoa(i)+"."+kind)))
		case "hfile":
			if r.holds == nil {
				r.holds = map[int]*holdDecoder{}
			}
			r.holds[i] = &holdDecoder{}
			opts = append(opts, config.WithSource(source.NewFile(filepath.Join(r.dir, "s"+strconv.Itoa(i)+".hyaml"), r.holds[i])))
		case "env", "env2":
			opts = append(opts, config.WithEnv(r.pref(kind)))
		case "static":
			opts = append(opts, config.WithSource(&staticSrc{m: deepCopyMap(kinds[i].M)}))
		case "content":
			// a content-backed file source: the same bytes decoded again on every Load
			b, _ := json.Marshal(kinds[i].M)
			opts = append(opts, config.WithContent(b, codec.TypeJSON))
		default:
			s := &scriptSrc{cur: r.cur[i], race: r.race[i]}
			if i == 0 && withHooks {
				s.onLoad = func() {
					if h := r.hooks.src0; h != nil {
						h()
					}
				}
			}
			opts = append(opts, config.WithSource(s))
		}
	}
	if c.Schema {
		opts = append(opts, config.WithJSONSchema([]byte(schemaJSON)))
	}
	if c.Dump {
		opts = append(opts, config.WithDumper(editDumper{}))
	}
	for i := 0; i < c.NV; i++ {
		i := i
		opts = append(opts, config.WithValidator(func(m map[string]any) error {
			if i == 0 && withHooks {
				if h := r.hooks.val0; h != nil {
					h()
				}
				r.inflightGets() // a validator that compares with the running configuration
			}
			if isTrue(m, "vpanic"+strconv.Itoa(i)) {
				panic("validator panic (injected)")
			}
			if isTrue(m, "vfail"+strconv.Itoa(i)) {
				return errors.New("validator rejects (injected)")
			}
			return nil
		}))
	}
	if c.Bound {
		r.bound = &Bound{}
		if c.Tag {
			opts = append(opts, config.WithTag("cfg"), config.WithBinding((*cfgBound)(r.bound)))
		} else if c.Plain {
			opts = append(opts, config.WithBinding((*plainBound)(r.bound)))
		} else {
			opts = append(opts, config.WithBinding(r.bound))
		}
	}
	cfg, err := config.New(opts...)
	r.cfg = cfg
	return err
}

// stage sets the content every source returns in Load number i: scripted sources get the map, file
// sources get their file (re)written or removed, the environment source its variables.
func (r *runT) stage(l *loadT) {
	for i := range r.cur {
		var s srcT
		if i < len(l.Srcs) {
			s = l.Srcs[i]
		}
		*r.cur[i] = s
		*r.race[i] = s
		if l.Race != nil && i < len(l.Race) && (s.Kind == "map" || s.Kind == "hfile") {
			*r.race[i] = l.Race[i]
		}
		switch s.Kind {
		case "hfile":
			p := filepath.Join(r.dir, "s"+strconv.Itoa(i)+".hyaml")
			if s.Fail {
				_ = os.Remove(p)
				continue
			}
			_ = os.WriteFile(p, blockYAML(s.M), 0o600)
		case "json", "yaml", "toml":
			p := filepath.Join(r.dir, "s"+strconv.Itoa(i)+"."+s.Kind)
			if s.Fail {
				_ = os.Remove(p)
				continue
			}
			m := s.M
			if m == nil {
				m = map[string]any{}
			}
			if s.Pad > 0 {
				m = deepCopyMap(m)
				m["pad"] = strings.Repeat("x", s.Pad)
			}
			b, _ := json.Marshal(m) // JSON is YAML
			if s.Kind == "toml" {
				// TOML has no null: nil values are left out of the file (what is written is what counts: the
				// expectation is decoded from these bytes)
				tb, err := toml.Marshal(withoutNils(m))
				if err != nil {
					tb = []byte("# not encodable\n")
				}
				b = tb
			}
			// same size (padded with blanks) and same modification time on every rewrite: a source
			// that decides from size and mtime whether to read the file again would serve stale bytes
			for len(b)%512 != 0 {
				b = append(b, ' ')
			}
			_ = os.WriteFile(p, b, 0o600)
			_ = os.Chtimes(p, fixedTime, fixedTime)
			if r.written == nil {
				r.written = map[int][]byte{}
			}
			r.written[i] = b
		case "env", "env2":
			pf := r.pref(s.Kind)
			for _, e := range os.Environ() {
				if strings.HasPrefix(e, pf) {
					k, _, _ := strings.Cut(e, "=")
					_ = os.Unsetenv(k)
				}
			}
			names := sortedMapKeys(s.M)
			if s.Rev {
				slices.Reverse(names)
			}
			for _, k := range names {
				_ = os.Setenv(pf+k, fmt.Sprint(s.M[k]))
			}
			// a variable that merely starts with the same letters does not belong to the prefix
			_ = os.Setenv(strings.TrimSuffix(pf, "_")+"X_NAME", "decoy")
		}
	}
}

// returned says what source i hands to Load in the current stage — computed here, not by the code
// under test: a scripted or static source returns its map; a JSON file is decoded with
// encoding/json, a YAML file with the YAML library, straight from the bytes that were written; the
// environment source's documented rule (strip the prefix, lower-case, split at "_", nest) is
// re-implemented below.
func (r *runT) returned(i int, s *srcT) (map[string]any, bool) {
	if s.Fail {
		return nil, false
	}
	switch s.Kind {
	case "content":
		b, _ := json.Marshal(s.M)
		var m map[string]any
		if err := json.Unmarshal(b, &m); err != nil {
			return nil, false
		}
		return m, true
	case "json":
		var m map[string]any
		if err := json.Unmarshal(r.written[i], &m); err != nil {
			return nil, false
		}
		return m, true
	case "hfile":
		var m map[string]any
		if err := yaml.Unmarshal(blockYAML(s.M), &m); err != nil {
			return nil, false
		}
		return m, true
	case "toml":
		var m map[string]any
		if err := toml.Unmarshal(r.written[i], &m); err != nil {
			return nil, false
		}
		return m, true
	case "yaml":
		var m map[string]any
		if err := yaml.Unmarshal(r.written[i], &m); err != nil {
			return nil, false
		}
		return m, true
	case "env", "env2":
		out := map[string]any{}
		for k, v := range s.M {
			var parts []string
			for _, p := range strings.Split(strings.ToLower(strings.TrimSpace(k)), "_") {
				if p != "" {
					parts = append(parts, p)
				}
			}
			if len(parts) == 0 {
				continue
			}
			cur := out
			for _, p := range parts[:len(parts)-1] {
				next, ok := cur[p].(map[string]any)
				if !ok {
					next = map[string]any{}
					cur[p] = next
				}
				cur = next
			}
			cur[parts[len(parts)-1]] = strings.TrimSpace(fmt.Sprint(v))
		}
		return out, true
	}
	return s.M, true
}

type loadObs struct {
	failed   bool
	values   map[string]any
	bound    [][2]string
	gets     []any
	seen     []map[string]any // one per reader (free readers: first snapshot that is neither before nor after, else before)
	seenOK   []bool           // free readers: every snapshot was one of the two
	place    []int            // effective placement: a reader whose callback did not run reads after the Load (4)
	typed    bool             // the typed getters agree with Get: value present (falsy or not) -> converted value, nil -> zero / default
	panicked bool             // a Load panicked
	raced    bool             // a second Load ran concurrently
	failB    bool             // … and failed
}

// typedOK compares String/Int/Bool/Float64, the …Or variants and the generic Get/GetOr with what
// they are documented to be: a conversion of Get(key), the default only when Get(key) is nil.
func typedOK(cfg *config.Config, keys []string) bool {
	ok := true
	for _, k := range keys {
		v := cfg.Get(k)
		ok = ok && cfg.String(k) == cast.ToString(v) && cfg.Int(k) == cast.ToInt(v) && cfg.Bool(k) == cast.ToBool(v) &&
			cfg.Float64(k) == cast.ToFloat64(v) && cfg.Int64(k) == cast.ToInt64(v)
		ok = ok && reflect.DeepEqual(cfg.StringSlice(k), cast.ToStringSlice(v)) && reflect.DeepEqual(cfg.IntSlice(k), cast.ToIntSlice(v)) &&
			reflect.DeepEqual(cfg.StringMap(k), cast.ToStringMap(v)) && cfg.Duration(k) == cast.ToDuration(v) && cfg.Time(k).Equal(cast.ToTime(v))
		_, gerr := config.GetE[string](cfg, k)
		ok = ok && (gerr != nil) == (v == nil) // GetE fails exactly when the key is absent (or nil), never for a falsy value
		if v == nil {
			ok = ok && cfg.StringOr(k, "dflt") == "dflt" && cfg.IntOr(k, 4242) == 4242 && cfg.BoolOr(k, true) &&
				cfg.Float64Or(k, 2.5) == 2.5 && config.GetOr(cfg, k, 77) == 77 && config.Get[string](cfg, k) == ""
		} else {
			ok = ok && cfg.StringOr(k, "dflt") == cast.ToString(v) && cfg.IntOr(k, 4242) == cast.ToInt(v) &&
				cfg.BoolOr(k, true) == cast.ToBool(v) && cfg.Float64Or(k, 2.5) == cast.ToFloat64(v)
			if iv, isInt := v.(int); isInt {
				ge, eerr := config.GetE[int](cfg, k)
				ok = ok && config.GetOr(cfg, k, 77) == iv && config.Get[int](cfg, k) == iv && eerr == nil && ge == iv
			}
			if sv, isStr := v.(string); isStr {
				ok = ok && config.GetOr(cfg, k, "d") == sv
			}
			if bv, isBool := v.(bool); isBool {
				ok = ok && config.GetOr(cfg, k, !bv) == bv
			}
		}
	}
	return ok
}

func snapshot(cfg *config.Config) map[string]any { return deepCopyMap(*cfg.Values()) }

var panicMu sync.Mutex

// safeLoad: a panic out of Load is an observation, not a harness crash.
func (r *runT) safeLoad(ctx context.Context, o *loadObs) (err error) {
	defer func() {
		if p := recover(); p != nil {
			if p != injectedValidatePanic { // the binding's own Validate() panicking is the caller's fault: an error like another
				panicMu.Lock()
				o.panicked = true
				panicMu.Unlock()
			}
			err = fmt.Errorf("panic: %v", p)
		}
	}()
	return r.cfg.Load(ctx)
}

// inflightGets reads every probe key through Get (and a typed getter) while a Load is running. The
// results are not part of the observation; reading must simply not influence anything: whatever a
// Get returns after the Load is compared with the model as usual.
func (r *runT) inflightGets() {
	for _, k := range r.c.Keys {
		_ = r.cfg.Get(k)
		_ = r.cfg.String(k)
		_ = r.cfg.IntOr(k, 1)
	}
}

func (r *runT) runLoad(l *loadT) (o loadObs) {
	r.stage(l)
	o.seen = make([]map[string]any, len(l.Readers))
	o.seenOK = make([]bool, len(l.Readers))
	o.place = make([]int, len(l.Readers))
	for j, rd := range l.Readers {
		o.place[j] = rd.Place
	}
	var wg sync.WaitGroup
	var pre []*map[string]any
	stop := make(chan struct{})
	type free struct {
		idx   int
		snaps []map[string]any
	}
	var frees []*free
	r.hooks.src0, r.hooks.val0, validateHook = nil, nil, nil
	inSrc := func(place int) func() {
		return func() {
			for j, rd := range l.Readers {
				if rd.Place == place {
					done := make(chan struct{})
					go func() { o.seen[j] = snapshot(r.cfg); r.inflightGets(); close(done) }()
					<-done
				}
			}
		}
	}
	r.hooks.src0 = inSrc(1)
	r.hooks.val0 = inSrc(2)
	validateHook = func() {
		for j, rd := range l.Readers {
			if rd.Place == 3 {
				wg.Add(1)
				go func() { defer wg.Done(); o.seen[j] = snapshot(r.cfg) }() // blocks on the read lock until Load is done
			}
		}
	}
	pre = make([]*map[string]any, len(l.Readers))
	early := make([]map[string]any, len(l.Readers))
	for j, rd := range l.Readers {
		switch rd.Place {
		case 0:
			// the reader keeps the pointer across the Load: it reads every other key now and the rest
			// afterwards; the pointer must keep showing one configuration (the one it was taken from)
			pre[j] = r.cfg.Values()
			early[j] = map[string]any{}
			for n, k := range sortedMapKeys(*pre[j]) {
				if n%2 == 0 {
					early[j][k] = deepCopy((*pre[j])[k])
				}
			}
		case 9:
			f := &free{idx: j}
			frees = append(frees, f)
			wg.Add(1)
			started := make(chan struct{})
			go func() {
				defer wg.Done()
				close(started)
				for {
					f.snaps = append(f.snaps, snapshot(r.cfg))
					select {
					case <-stop:
						f.snaps = append(f.snaps, snapshot(r.cfg))
						return
					default:
					}
					if len(f.snaps) > 200 {
						f.snaps = f.snaps[len(f.snaps)-2:]
					}
				}
			}()
			<-started
		}
	}
	before := snapshot(r.cfg)
	var err error
	if l.Race != nil && len(l.Srcs) > 0 && l.Srcs[0].Kind == "hfile" && r.holds[0] != nil {
		// two Loads of a file source that overlap between "read" and "decode": loader A has read the file and is
		// held at the start of Decode; the file is replaced (by what the second loader is to see, usually shorter);
		// loader B runs to completion; A goes on. Each must have decoded the bytes it read, whole.
		o.raced = true
		atDecode := make(chan struct{})
		release := make(chan struct{})
		var once sync.Once
		held := false
		r.holds[0].hold = func() {
			first := false
			once.Do(func() { first = true })
			if first {
				held = true
				close(atDecode)
				select {
				case <-release:
				case <-time.After(2 * time.Second):
				}
			}
		}
		var errB error
		doneA := make(chan struct{})
		go func() { defer close(doneA); err = r.safeLoad(context.Background(), &o) }()
		select {
		case <-atDecode:
		case <-doneA: // the file could not be read: A never decodes
		case <-time.After(2 * time.Second):
		}
		p := filepath.Join(r.dir, "s0.hyaml")
		if r.race[0].Fail {
			_ = os.Remove(p)
		} else {
			_ = os.WriteFile(p, blockYAML(r.race[0].M), 0o600)
		}
		// the second loader runs to completion — unless the code serialises or coalesces Loads in front of the sources,
		// in which case it cannot finish while the first is held: same adaptive wait as the barrier of the other races
		doneB := make(chan struct{})
		go func() {
			defer close(doneB)
			errB = r.safeLoad(context.WithValue(context.Background(), loaderKey{}, 1), &o)
		}()
		select {
		case <-doneB:
		case <-time.After(barrierWait()):
			barrierMissed.Add(1)
			barrierEver.Store(true)
		}
		close(release)
		<-doneA
		<-doneB
		_ = held
		r.holds[0].hold = nil
		o.failB = errB != nil
	} else if l.Race != nil {
		// two Loads at once: both are inside source 0's Load (outside the lock) before either goes on
		o.raced = true
		arrived := make(chan struct{}, 2)
		release := make(chan struct{})
		r.hooks.src0 = func() {
			arrived <- struct{}{}
			select {
			case <-release:
			case <-time.After(barrierWait()):
			}
		}
		var errB error
		var lw sync.WaitGroup
		lw.Add(2)
		go func() { defer lw.Done(); err = r.safeLoad(context.Background(), &o) }()
		go func() {
			defer lw.Done()
			errB = r.safeLoad(context.WithValue(context.Background(), loaderKey{}, 1), &o)
		}()
		if len(l.Srcs) > 0 && l.Srcs[0].Kind == "map" { // a file/env source has no hook: no barrier then
			for n := 0; n < 2; n++ {
				select {
				case <-arrived:
				case <-time.After(barrierWait()):
					barrierMissed.Add(1)
					barrierEver.Store(true)
					n = 2 // the other loader is not coming either way
				}
			}
		}
		close(release)
		lw.Wait()
		o.failB = errB != nil
	} else {
		ctx, cancel := context.WithCancel(context.Background())
		err = r.safeLoad(context.WithValue(ctx, cancelKey{}, cancel), &o)
		cancel()
	}
	close(stop)
	wg.Wait()
	validateHook = nil
	if r.c.Dump {
		_ = r.cfg.Dump(context.Background())
	}
	o.failed = err != nil
	o.values = snapshot(r.cfg)
	for j, rd := range l.Readers {
		switch rd.Place {
		case 0:
			late := deepCopyMap(*pre[j])
			for k := range early[j] {
				delete(late, k)
			}
			for k, v := range early[j] {
				late[k] = v // what was read before the Load
			}
			o.seen[j] = late
		case 4:
			o.seen[j] = snapshot(r.cfg)
		}
		if o.seen[j] == nil && rd.Place != 9 {
			// the callback the reader was attached to did not run in this Load (an earlier stage failed):
			// it reads after the Load instead
			o.seen[j] = snapshot(r.cfg)
			o.place[j] = 4
		}
		o.seenOK[j] = true
	}
	for _, f := range frees {
		o.seen[f.idx] = before
		for _, s := range f.snaps {
			if !reflect.DeepEqual(s, before) && !reflect.DeepEqual(s, o.values) {
				o.seen[f.idx] = s // a mixture: ship it, the oracle rejects it
				o.seenOK[f.idx] = false
			} else if reflect.DeepEqual(s, o.values) && o.seenOK[f.idx] {
				o.seen[f.idx] = s
			}
		}
	}
	if r.bound != nil {
		o.bound = renderBound(r.bound)
	}
	for _, k := range r.c.Keys {
		o.gets = append(o.gets, r.cfg.Get(k))
	}
	o.typed = typedOK(r.cfg, r.c.Keys)
	return o
}

// freshOutcome: what a brand-new Config over the same sources (same stage) makes of the binding.
func (r *runT) freshOutcome(second bool) (ok bool, fields [][2]string, vals map[string]any, loaded bool) {
	var f runT
	f.dir, f.envPref = r.dir, r.envPref
	c2 := *r.c
	if err := f.build(&c2, false); err != nil {
		return false, nil, nil, false
	}
	for i := range f.cur {
		*f.cur[i] = *r.cur[i]
		if second {
			*f.cur[i] = *r.race[i]
		}
		*f.race[i] = *f.cur[i]
		if f.cur[i].Kind == "hfile" {
			// the file on disk holds what the last reader of the race saw: give the fresh Config the content this
			// loader read
			p := filepath.Join(r.dir, "s"+strconv.Itoa(i)+".hyaml")
			if f.cur[i].Fail {
				_ = os.Remove(p)
			} else {
				_ = os.WriteFile(p, blockYAML(f.cur[i].M), 0o600)
			}
		}
	}
	var dummy loadObs
	err := f.safeLoad(context.Background(), &dummy)
	if err != nil {
		return false, nil, nil, false
	}
	if f.bound != nil && !r.c.Plain && (f.bound.Reject || f.bound.Name == "boom") {
		// Validate() is the harness' own code: it rejects (returns an error, or panics) exactly then — a Load that
		// succeeded nevertheless did not run it, or ignored its verdict
		return false, nil, nil, false
	}
	return true, renderBound(f.bound), *f.cfg.Values(), true
}

func sortedMapKeys(m map[string]any) []string {
	out := make([]string, 0, len(m))
	for k := range m {
		out = append(out, k)
	}
	sort.Strings(out)
	return out
}

func lookupPath(m map[string]any, path []string) bool {
	cur := m
	for i, p := range path {
		v, ok := cur[p]
		if !ok {
			return false
		}
		if i == len(path)-1 {
			return v != nil // the decoder leaves a field alone when the value is nil
		}
		next, isMap := v.(map[string]any)
		if !isMap {
			return false
		}
		cur = next
	}
	return false
}

// toggleSrc returns a map with or without the keys, by turns.
type toggleSrc struct{ n atomic.Int64 }

func (s *toggleSrc) Load(context.Context) (map[string]any, error) {
	if s.n.Add(1)%2 == 0 {
		return map[string]any{"on": true, "n": 7, "s": "val", "sec": map[string]any{"on": true}}, nil
	}
	return map[string]any{"other": 1}, nil
}

// stressOrGetters: while Loads add and remove keys, every …Or getter must return the value or
// the default, never anything else (for instance the zero value).
func stressOrGetters() (anomaly bool) {
	cfg, err := config.New(config.WithSource(&toggleSrc{}))
	if err != nil {
		return false
	}
	_ = cfg.Load(context.Background())
	var bad atomic.Bool
	stop := make(chan struct{})
	var wg sync.WaitGroup
	for g := 0; g < 2; g++ {
		wg.Add(1)
		go func() {
			defer wg.Done()
			for {
				select {
				case <-stop:
					return
				default:
				}
				if !cfg.BoolOr("on", true) || !cfg.BoolOr("sec.on", true) {
					bad.Store(true)
				}
				if v := cfg.IntOr("n", 7); v != 7 {
					bad.Store(true)
				}
				if v := cfg.StringOr("s", "val"); v != "val" {
					bad.Store(true)
				}
				if v := config.GetOr(cfg, "n", 7); v != 7 {
					bad.Store(true)
				}
			}
		}()
	}
	for i := 0; i < 300; i++ {
		_ = cfg.Load(context.Background())
	}
	close(stop)
	wg.Wait()
	return bad.Load()
}

var fixedTime = time.Date(2024, 1, 2, 3, 4, 5, 0, time.UTC)

var caseCtr int

func emit(id string, c caseT, st *hx.Stats) string {
	caseCtr++
	dir, err := os.MkdirTemp("", "verif-c14-")
	if err != nil {
		panic(err)
	}
	defer os.RemoveAll(dir)
	var r runT
	r.dir = dir
	r.envPref = "VC14X" + strconv.Itoa(os.Getpid()) + "N" + strconv.Itoa(caseCtr) + "_"
	defer os.Unsetenv(strings.TrimSuffix(r.envPref, "_") + "X_NAME")
	defer os.Unsetenv(strings.TrimSuffix(r.pref("env2"), "_") + "X_NAME")
	defer func() {
		for _, e := range os.Environ() {
			if strings.HasPrefix(e, r.envPref) || strings.HasPrefix(e, r.pref("env2")) {
				k, _, _ := strings.Cut(e, "=")
				_ = os.Unsetenv(k)
			}
		}
	}()
	if err := r.build(&c, true); err != nil {
		return "# skipped " + id + ": config.New: " + err.Error()
	}
	zero := renderBound(&Bound{})
	foldedKeys := make([]string, len(c.Keys))
	for i, k := range c.Keys {
		foldedKeys[i] = foldNonASCII(k)
	}
	l := hx.NewLine(id).Tok("CFG").Bool(c.Schema).Nat(c.NV).Bool(c.Bound).Strs(foldedKeys)
	if c.Bound {
		l.Tok("Z").Nat(len(zero))
		for _, f := range zero {
			l.Str(f[0]).Str(f[1])
		}
	} else {
		l.Tok("Z").Nat(0)
	}
	var obs []loadObs
	l.Tok("L").Nat(len(c.Loads))
	faults, overlaps, vanished, races := 0, 0, 0, 0
	var prevKeys map[string]bool
	for li := range c.Loads {
		ld := &c.Loads[li]
		o := r.runLoad(ld)
		obs = append(obs, o)
		seenKeys := map[string]int{}
		nowKeys := map[string]bool{}
		// writeInput ships what the sources hand to a loader (the first one, or the concurrent second
		// one) and what a fresh Config makes of it
		writeInput := func(second bool) {
			l.Tok("S").Nat(len(r.cur))
			cancelled := false
			for i := range r.cur {
				s := r.cur[i]
				if second {
					s = r.race[i]
				}
				m, ok := r.returned(i, s)
				if cancelled {
					ok = false // the context was cancelled while the previous source was read
				}
				if s.Cancel && !second {
					cancelled = true
				}
				if !ok {
					l.Tok("F")
					faults++
					continue
				}
				if isEnvKind(s.Kind) {
					// the environment source is modelled (Model/ConfigEnv.lean): ship os.Environ() as the source
					// sees it (the entries with this case's stem, the decoy included) and the prefix
					stem := strings.TrimSuffix(r.pref(s.Kind), "_")
					var ents []string
					for _, e := range os.Environ() {
						if strings.HasPrefix(e, stem) {
							ents = append(ents, e)
						}
					}
					l.Tok("E").Str(r.pref(s.Kind)).Strs(ents)
					if !second {
						envLoads++
						names := sortedMapKeys(s.M)
						for _, a := range names {
							if strings.Contains(fmt.Sprint(s.M[a]), "\n") {
								envNewline++
							}
							for _, b := range names {
								pa, pb := envParts(a), envParts(b)
								if a != b && len(pa) > 0 && len(pa) <= len(pb) && slices.Equal(pa, pb[:len(pa)]) {
									envConflicts++
								}
							}
						}
					}
				} else {
					l.Tok("O")
					kvsTerm(l, m)
				}
				if !second {
					for k := range m {
						seenKeys[strings.ToLower(k)]++
						nowKeys[strings.ToLower(k)] = true
					}
				}
			}
			// binding outcome of a fresh Config, and per field whether its key is in the merged values
			if c.Bound {
				ok, fields, vals, _ := r.freshOutcome(second)
				if ok {
					l.Tok("B").Tok("K").Nat(len(fields))
					for _, f := range fields {
						l.Str(f[0]).Str(f[1])
					}
					l.Tok("FI").Nat(len(boundFields))
					for i, f := range boundFields {
						l.Str(f.name).Bool(lookupPath(vals, f.path)).Str(zero[i][1])
					}
				} else {
					// the fresh Config failed: at the binding stage, or earlier (then the model never looks at it)
					l.Tok("B").Tok("R").Tok("FI").Nat(0)
				}
			} else {
				l.Tok("B").Tok("N").Tok("FI").Nat(0)
			}
		}
		writeInput(false)
		for _, n := range seenKeys {
			if n >= 2 {
				overlaps++
			}
		}
		for k := range prevKeys {
			if !nowKeys[k] {
				vanished++
			}
		}
		prevKeys = nowKeys
		l.Tok("RD").Nat(len(ld.Readers))
		for j := range ld.Readers {
			l.Nat(o.place[j])
		}
		if ld.Race != nil {
			l.Tok("RC").Bool(true)
			writeInput(true)
			races++
		} else {
			l.Tok("RC").Bool(false)
		}
		for _, s := range r.cur {
			if s.M != nil {
				for _, k := range []string{"schemafail", "vfail0", "vfail1", "vpanic0", "vpanic1", "deny"} {
					if isTrue(s.M, k) {
						faults++
					}
				}
			}
		}
	}
	in := l.String()
	l.Sep()
	for _, o := range obs {
		l.Tok("L").Bool(o.failed).Tok("V")
		kvsTerm(l, o.values)
		l.Tok("B").Nat(len(o.bound))
		for _, f := range o.bound {
			l.Str(f[0]).Str(f[1])
		}
		l.Tok("G").Nat(len(o.gets))
		for _, g := range o.gets {
			resTok(l, g)
		}
		l.Tok("TY").Bool(o.typed).Tok("PN").Bool(o.panicked)
		l.Tok("RD").Nat(len(o.seen))
		for j, s := range o.seen {
			l.Bool(o.seenOK[j])
			kvsTerm(l, s)
		}
		l.Tok("RC").Bool(o.raced)
		if o.raced {
			l.Bool(o.failB)
		}
	}
	if c.Stress {
		l.Tok("ST").Bool(stressOrGetters())
	}
	if st != nil {
		if c.Stress {
			st.Count("with_or_getter_stress")
		}
		if c.Dump {
			st.Count("with_editing_dumper")
		}
		for _, k := range c.Loads[0].Srcs {
			if k.Kind == "env2" {
				st.Count("two_environment_sources")
			}
		}
		if c.Plain {
			st.Count("binding_without_validate_method")
		}
		if c.Tag {
			st.Count("binding_with_custom_tag_name")
		}
		st.Case(in[len(id):], overlaps > 0 || faults > 0 || vanished > 0)
		st.Count("loads_" + strconv.Itoa(len(c.Loads)))
		if overlaps > 0 {
			st.Count("same_key_in_two_sources")
		}
		if faults > 0 {
			st.Count("fault_injected")
		}
		if vanished > 0 {
			st.Count("key_disappears_between_loads")
		}
		for _, o := range obs {
			if o.failed {
				st.Count("load_failed")
			} else {
				st.Count("load_ok")
			}
		}
		if c.Bound {
			st.Count("with_binding")
		}
		nrd := 0
		for _, ld := range c.Loads {
			nrd += len(ld.Readers)
		}
		if nrd > 0 {
			st.Count("with_readers")
		}
		if races > 0 {
			st.Count("with_two_racing_loads")
		}
		for ; envLoads > 0; envLoads-- {
			st.Count("env_source_loads")
		}
		for ; envConflicts > 0; envConflicts-- {
			st.Count("env_variable_pairs_on_one_path_or_prefix")
		}
		for ; envNewline > 0; envNewline-- {
			st.Count("env_value_with_line_feed")
		}
		if n := barrierMissed.Swap(0); n > 0 {
			for ; n > 0; n-- {
				st.Count("racing_load_never_reached_its_sources")
			}
		}
	}
	return l.String() + hx.Comment(c)
}

// ---------------------------------------------------------------- generators

var keyPool = []string{"Über", "über", "ÜBER", "Élan", "élan", "name", "Name", "NAME", "debug", "Debug", "server", "Server", "SERVER", "level", "rate", "tags", "labels",
	"peer", "a", "A", "b", "a.b", "x-y", "db", "DB", "cache", "Port", "port", "host", "Host", "timeout", "é"}

func genScalar(r *hx.Rand) any {
	switch r.Intn(12) {
	case 0:
		return 0
	case 1:
		return false
	case 2:
		return ""
	case 3:
		return nil
	case 4:
		return true
	case 5:
		return r.Intn(10000)
	case 6:
		return []any{"x", r.Intn(5)}
	case 7:
		return []any{}
	case 8:
		return float64(r.Intn(100)) / 4
	case 9:
		// a string is a string, whatever its text looks like
		return hx.Pick(r, []string{`{"a":1}`, `{}`, `{"host":"h9","port":1}`, `[1,2]`, `null`, `{"name":"inner"}`})
	default:
		return "v" + strconv.Itoa(r.Intn(50))
	}
}

func genMap(r *hx.Rand, depth int) map[string]any {
	m := map[string]any{}
	used := map[string]bool{}
	n := r.Range(0, 4)
	for i := 0; i < n; i++ {
		k := hx.Pick(r, keyPool)
		if used[strings.ToLower(k)] {
			continue // two keys of one map that differ only in case are outside the statement
		}
		used[strings.ToLower(k)] = true
		if depth < 3 && r.Chance(2, 5) {
			m[k] = genMap(r, depth+1)
		} else {
			m[k] = genScalar(r)
		}
	}
	return m
}

// genBindable adds keys the bound struct decodes, mostly well-typed.
func genBindable(r *hx.Rand, m map[string]any) {
	put := func(k string, v any) {
		for ex := range m {
			if strings.EqualFold(ex, k) {
				delete(m, ex)
			}
		}
		if r.Chance(1, 3) {
			k = strings.ToUpper(k[:1]) + k[1:]
		}
		m[k] = v
	}
	if r.Chance(1, 2) {
		put("name", hx.Pick(r, []any{"svc", "", "other", nil}))
	}
	if r.Chance(1, 3) {
		put("debug", r.Chance(1, 2))
	}
	if r.Chance(1, 2) {
		s := map[string]any{}
		if r.Chance(2, 3) {
			s[hx.Pick(r, []string{"host", "Host"})] = hx.Pick(r, []any{"h1", "h2", ""})
		}
		if r.Chance(2, 3) {
			s[hx.Pick(r, []string{"port", "PORT"})] = hx.Pick(r, []any{8080, 0, 9090, "7070"})
		}
		put("server", s)
	}
	if r.Chance(1, 4) {
		put("level", hx.Pick(r, []any{"info", "debug"}))
	}
	if r.Chance(1, 4) {
		put("rate", hx.Pick(r, []any{0.25, 0, 3}))
	}
	if r.Chance(1, 4) {
		put("tags", hx.Pick(r, []any{[]any{"a", "b", "c"}, []any{"z"}, []any{}, "x,y", ""}))
	}
	if r.Chance(1, 4) {
		put("labels", hx.Pick(r, []any{map[string]any{"x": "1", "y": "2"}, map[string]any{"x": "9"}, map[string]any{}}))
	}
	if r.Chance(1, 5) {
		put("peer", hx.Pick(r, []any{map[string]any{"host": "p"}, map[string]any{"port": 1}}))
	}
	if r.Chance(1, 4) {
		put("since", hx.Pick(r, []any{"2024-01-02T03:04:05Z", "2031-12-31T23:59:59Z"}))
	}
	if r.Chance(1, 5) {
		put("idle", hx.Pick(r, []any{"1500ms", "2h", 0, "soon"}))
	}
	if r.Chance(1, 5) {
		put("meta", hx.Pick(r, []any{map[string]any{"owner": "me"}, map[string]any{"Owner": ""}, map[string]any{}}))
	}
}

func genCase(r *hx.Rand, tier string) caseT {
	var c caseT
	c.Schema = r.Chance(1, 3)
	c.NV = r.Intn(3)
	c.Bound = r.Chance(2, 3)
	c.Dump = r.Chance(1, 8)
	c.Plain = c.Bound && r.Chance(1, 4)
	c.Tag = c.Bound && !c.Plain && r.Chance(1, 5)
	c.Stress = r.Chance(1, 60)
	nsrc := r.Range(1, 4)
	kinds := make([]string, nsrc)
	for i := range kinds {
		switch r.Intn(9) {
		case 0:
			kinds[i] = "json"
		case 1:
			kinds[i] = hx.Pick(r, []string{"yaml", "toml"})
		case 2:
			kinds[i] = "static"
		case 3:
			kinds[i] = hx.Pick(r, []string{"static", "content"})
		default:
			kinds[i] = "map"
		}
	}
	if r.Chance(1, 10) {
		kinds[0] = "hfile" // a file source with a decoder of the harness: overlapping Loads between read and decode
	}
	statics := make([]map[string]any, nsrc)
	for i := range statics {
		if kinds[i] == "static" || kinds[i] == "content" {
			// what a caching source parsed once: lower-case keys mostly, nested maps
			statics[i] = genMap(r, 0)
			if c.Bound || r.Chance(1, 2) {
				genBindable(r, statics[i])
			}
			if r.Chance(1, 2) {
				statics[i] = lowerKeys(statics[i])
			}
		}
	}
	if nsrc >= 2 && r.Chance(1, 6) {
		kinds[nsrc-1] = "env"
		if nsrc >= 3 && r.Chance(1, 2) {
			kinds[0] = "env2" // WithEnv(A), …other sources…, WithEnv(B): each prefix at its own place in the order
		}
	}
	nl := r.Range(1, 6)
	var prev []map[string]any
	for li := 0; li < nl; li++ {
		var ld loadT
		for i := 0; i < nsrc; i++ {
			s := srcT{Kind: kinds[i]}
			switch {
			case kinds[i] == "static" || kinds[i] == "content":
				s.M = statics[i]
			case isEnvKind(kinds[i]):
				s.M = map[string]any{}
				for n := r.Range(0, 4); n > 0; n-- {
					s.M[hx.Pick(r, []string{"NAME", "SERVER_PORT", "SERVER_HOST", "DEBUG", "A_B", "LEVEL", "DB_POOL_SIZE", "CACHE__TTL", "_RATE", "Timeout_", "x-y",
						"A", "SERVER", "Name", "name", " NAME", "DB_POOL", "A_B_C", "A__B", "_", "server_port"})] = hx.Pick(r, []string{"1", "envv", "", "true", "8081", " padded ", "a=b", "0",
						"x\nINJ_KEY=1", "\tq\t", "=", "a b", "v\n",
						"Release #5 is out", "\"quoted\"", "'single'", "#hash", "export X=1", "a # b", "\"a b\" # c"})
				}
				s.Rev = r.Chance(1, 2)
			case li > 0 && r.Chance(1, 2):
				// a variation of what the source returned last time: keys vanish, values change
				s.M = deepCopyMap(prev[i])
				for k := range s.M {
					if r.Chance(1, 3) {
						delete(s.M, k)
					}
				}
				if r.Chance(1, 2) {
					for k, v := range genMap(r, 1) {
						dup := false
						for ex := range s.M {
							if strings.EqualFold(ex, k) {
								dup = true
							}
						}
						if !dup {
							s.M[k] = v
						}
					}
				}
			default:
				s.M = genMap(r, 0)
				if c.Bound || r.Chance(1, 2) {
					genBindable(r, s.M)
				}
				if kinds[i] == "map" && r.Chance(1, 30) {
					s.M = nil
				}
			}
			// faults (set replaces a key that differs only in case: two such keys in one map are outside the statement)
			set := func(k string, v any) {
				for ex := range s.M {
					if strings.EqualFold(ex, k) {
						delete(s.M, ex)
					}
				}
				s.M[k] = v
			}
			if s.M != nil && !isEnvKind(kinds[i]) && kinds[i] != "static" && kinds[i] != "content" {
				if c.Schema && r.Chance(1, 12) {
					set("schemafail", r.Chance(3, 4))
				}
				for v := 0; v < c.NV; v++ {
					if r.Chance(1, 14) {
						set(hx.Pick(r, []string{"vfail", "vpanic"})+strconv.Itoa(v), r.Chance(3, 4))
					}
				}
				if c.Bound && r.Chance(1, 12) {
					set("deny", r.Chance(3, 4))
				}
				if c.Bound && !c.Plain && r.Chance(1, 20) {
					set("name", "boom") // Validate() panics
				}
				if c.Bound && r.Chance(1, 25) {
					set("server", hx.Pick(r, []any{"not-a-map", map[string]any{"port": "abc"}}))
				}
			}
			if r.Chance(1, 18) && kinds[i] != "static" && kinds[i] != "content" && !isEnvKind(kinds[i]) { // those cannot be made to fail
				s.Fail = true
			}
			if kinds[i] == "map" && r.Chance(1, 30) {
				// cancelling while the last source is read comes too late to stop the Load: it must still
				// either fail untouched or succeed completely (as the code stands: succeed)
				s.Cancel = true
			}
			ld.Srcs = append(ld.Srcs, s)
		}
		prev = prev[:0]
		for _, s := range ld.Srcs {
			m := s.M
			if m == nil {
				m = map[string]any{}
			}
			prev = append(prev, m)
		}
		if r.Chance(1, 6) {
			// a second Load runs concurrently and gets different content from the scripted sources
			for i := 0; i < nsrc; i++ {
				ld.Srcs[i].Cancel = false
				s := ld.Srcs[i]
				if s.Kind == "hfile" {
					// what the file holds when the second loader reads it: fewer keys, other values (a shorter file)
					m := map[string]any{}
					for n, k := range sortedMapKeys(s.M) {
						if n%2 == 0 || r.Chance(1, 4) {
							m[k] = genScalar(r)
						}
					}
					s.M = m
					s.Fail = false
				} else if s.Kind == "map" {
					s.Fail = r.Chance(1, 12)
					s.M = genMap(r, 0)
					if c.Bound || r.Chance(1, 2) {
						genBindable(r, s.M)
					}
					if c.Bound && r.Chance(1, 8) {
						s.M["deny"] = true
					}
					if c.NV > 0 && r.Chance(1, 8) {
						s.M["vfail0"] = true
					}
				}
				ld.Race = append(ld.Race, s)
			}
		} else {
			for n := r.Intn(3); n > 0; n-- {
				ld.Readers = append(ld.Readers, readerT{Place: hx.Pick(r, []int{0, 1, 2, 3, 4, 9})})
			}
		}
		c.Loads = append(c.Loads, ld)
	}
	// probes: keys that occur (in varied case), dotted paths, and misses
	seen := map[string]bool{}
	var walk func(m map[string]any, pre string)
	walk = func(m map[string]any, pre string) {
		for k, v := range m {
			p := k
			if pre != "" {
				p = pre + "." + k
			}
			seen[p] = true
			if mm, ok := v.(map[string]any); ok {
				walk(mm, p)
			}
		}
	}
	for _, ld := range c.Loads {
		for _, s := range ld.Srcs {
			walk(s.M, "")
		}
	}
	all := make([]string, 0, len(seen))
	for k := range seen {
		all = append(all, k)
	}
	sort.Strings(all)
	hx.Shuffle(r, all)
	for i, k := range all {
		if i >= 8 {
			break
		}
		// case variants on ASCII letters only: the model's lower-casing is ASCII (strings.ToLower also
		// folds É to é; keys with non-ASCII letters are probed as they are)
		switch r.Intn(3) {
		case 0:
			k = strings.ToUpper(k)
		case 1:
			k = strings.ToLower(k)
		}
		c.Keys = append(c.Keys, k)
	}
	c.Keys = append(c.Keys, "missing", "", "server.port.x", "a.b", "server.", ".server", "server..port", "tags.0", "Server.Port ")
	return c
}

func lowerKeys(m map[string]any) map[string]any {
	out := map[string]any{}
	for k, v := range m {
		if mm, ok := v.(map[string]any); ok {
			v = lowerKeys(mm)
		}
		out[strings.ToLower(k)] = v
	}
	return out
}

func mapASCII(s string, lo, hi byte, d int) string {
	b := []byte(s)
	for i, c := range b {
		if c >= lo && c <= hi {
			b[i] = byte(int(c) + d)
		}
	}
	return string(b)
}

func fixedCases() []caseT {
	m := func(kv ...any) map[string]any {
		out := map[string]any{}
		for i := 0; i < len(kv); i += 2 {
			out[kv[i].(string)] = kv[i+1]
		}
		return out
	}
	one := func(ms ...map[string]any) loadT {
		var ld loadT
		for _, x := range ms {
			ld.Srcs = append(ld.Srcs, srcT{Kind: "map", M: x})
		}
		return ld
	}
	return []caseT{
		// K14: a key removed between two Loads survives in the bound struct
		{Bound: true, Keys: []string{"name", "server.host"}, Loads: []loadT{
			one(m("name", "one", "server", m("host", "h1", "port", 8080), "level", "info")),
			one(m("server", m("port", 9090))),
		}},
		// last source wins, falsy values included, case-insensitively, through nested maps
		{Keys: []string{"Server.Port", "server.host", "NAME", "debug", "a.b", "A.B"}, Loads: []loadT{
			one(m("Name", "one", "Debug", true, "server", m("Host", "h1", "port", 8080), "a.b", 1),
				m("SERVER", m("PORT", 0), "debug", false, "name", "", "a", m("b", 2))),
		}},
		// map <-> scalar type change between sources
		{Keys: []string{"server", "server.port", "db.pool"}, Loads: []loadT{
			one(m("server", m("port", 1)), m("server", "scalar"), m("db", 5), m("db", m("pool", 3))),
		}},
		// failure at every stage leaves everything untouched
		{Schema: true, NV: 2, Bound: true, Keys: []string{"name"}, Loads: []loadT{
			one(m("name", "first", "server", m("port", 1))),
			{Srcs: []srcT{{Kind: "map", Fail: true}}},
			one(m("name", "x", "schemafail", true)),
			one(m("name", "x", "vfail1", true)),
			one(m("name", "x", "vpanic0", true)),
			one(m("name", "x", "deny", true)),
			one(m("name", "x", "server", "not-a-map")),
			one(m("name", "second")),
		}},
		// a source that hands out the same map on every Load (like config.TestSource): a rejected Load
		// and a later Load must not find that map modified
		{NV: 1, Keys: []string{"db.host", "db.port", "db.pool"}, Loads: []loadT{
			{Srcs: []srcT{{Kind: "static", M: m("db", m("host", "h", "port", 1))}, {Kind: "map", M: m("db", m("port", 2, "pool", 9))}}},
			{Srcs: []srcT{{Kind: "static", M: m("db", m("host", "h", "port", 1))}, {Kind: "map", M: m("db", m("port", 3), "vfail0", true)}}},
			{Srcs: []srcT{{Kind: "static", M: m("db", m("host", "h", "port", 1))}, {Kind: "map", M: m()}}},
		}},
		// a key deleted from a JSON file is gone after the reload; keys that differ only in non-ASCII case are one key
		{Keys: []string{"b", "a", "ÜBER.x"}, Loads: []loadT{
			{Srcs: []srcT{{Kind: "json", M: m("a", 1, "b", 2, "Über", m("x", 1, "y", 2))}, {Kind: "map", M: m("über", m("x", 0))}}},
			{Srcs: []srcT{{Kind: "json", M: m("a", 1)}, {Kind: "map", M: m("ÜBER", m("y", false))}}},
		}},
		// a file of more than a MiB: every key of it counts, also the ones behind the first MiB
		{Keys: []string{"name", "zz", "zzz.host"}, Loads: []loadT{
			{Srcs: []srcT{{Kind: "map", M: m("zz", "early", "zzz", m("host", "h0"))}, {Kind: "json", Pad: 1<<20 + 8192, M: m("name", "big", "zz", "late", "zzz", m("host", "h1"))}}},
			{Srcs: []srcT{{Kind: "map", M: m("zz", "early")}, {Kind: "json", Pad: 1<<20 + 8192, M: m("name", "big2", "zz", "late2")}}},
		}},
		{Keys: []string{"name", "zz"}, Loads: []loadT{
			{Srcs: []srcT{{Kind: "map", M: m("zz", "early")}, {Kind: "yaml", Pad: 1<<20 + 8192, M: m("name", "big3", "zz", "late3")}}},
		}},
		// an environment variable set to the empty string still overrides
		{Keys: []string{"name", "server.host"}, Loads: []loadT{
			{Srcs: []srcT{{Kind: "map", M: m("name", "file", "server", m("host", "h1"))}, {Kind: "env", M: m("NAME", "", "SERVER_HOST", "")}}},
		}},
		// a time key disappears between two Loads
		{Bound: true, Keys: []string{"since"}, Loads: []loadT{
			one(m("since", "2024-01-02T03:04:05Z", "idle", "2h", "meta", m("owner", "me"))),
			one(m("name", "x")),
		}},
		// custom tag name: a reload that Validate() rejects and one that cannot be decoded leave the struct alone
		{Bound: true, Tag: true, Keys: []string{"name"}, Loads: []loadT{
			one(m("name", "first", "idle", "2h", "rate", 2)),
			one(m("name", "second", "deny", true)),
			one(m("name", "third", "idle", "soon")),
			one(m("name", "fourth")),
		}},
		// the context is cancelled while the last source is read: too late, the Load goes through
		{Bound: true, Keys: []string{"name"}, Loads: []loadT{
			one(m("name", "first")),
			{Srcs: []srcT{{Kind: "map", M: m("name", "second", "level", "info"), Cancel: true}}},
		}},
		// the context is cancelled while the first source is read
		{Keys: []string{"a"}, Loads: []loadT{
			one(m("a", 1)),
			{Srcs: []srcT{{Kind: "map", M: m("a", 2), Cancel: true}, {Kind: "map", M: m("a", 3)}}},
		}},
		// two Loads racing: values and bound struct come from the same one
		{Bound: true, Keys: []string{"name"}, Loads: []loadT{
			one(m("name", "first")),
			{Srcs: []srcT{{Kind: "map", M: m("name", "a-wins", "level", "info")}}, Race: []srcT{{Kind: "map", M: m("name", "b-wins", "debug", true)}}},
			{Srcs: []srcT{{Kind: "map", M: m("name", "a2")}}, Race: []srcT{{Kind: "map", M: m("name", "b2", "deny", true)}}},
		}},
		// readers at every placement around a successful and a failing Load
		{NV: 1, Bound: true, Keys: []string{"name"}, Loads: []loadT{
			one(m("name", "first")),
			{Srcs: []srcT{{Kind: "map", M: m("name", "second")}}, Readers: []readerT{{0}, {1}, {2}, {3}, {4}, {9}}},
			{Srcs: []srcT{{Kind: "map", M: m("name", "third", "deny", true)}}, Readers: []readerT{{0}, {1}, {2}, {3}, {4}, {9}}},
		}},
	}
}

func main() {
	a := hx.ParseArgs()
	w := hx.Out()
	defer w.Flush()
	switch a.Cmd {
	case "gen":
		r := hx.NewRand(a.Seed)
		st := hx.NewStats()
		for i, c := range fixedCases() {
			fmt.Fprintln(w, emit(fmt.Sprintf("c14-fix-%d", i), c, st))
		}
		for i := 0; i < a.N; i++ {
			c := genCase(r, a.Tier)
			fmt.Fprintln(w, emit(fmt.Sprintf("c14-%d-%d", a.Seed, i), c, st))
		}
		st.Emit(w)
	case "replay":
		for _, line := range hx.StdinLines() {
			var c caseT
			id, err := hx.CaseFromComment(line, &c)
			if err != nil {
				fmt.Fprintf(w, "# cannot replay %q: %v\n", id, err)
				continue
			}
			fmt.Fprintln(w, emit(id, c, nil))
		}
	}
}
