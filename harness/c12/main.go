// Harness for C12 (configuration and serving are separate phases).
//
// A case is a list of actors (goroutines: request, Freeze, Warmup, registration of one route through
// r.GET / group / mount / version router, WhereInt, SetName, URLFor) and a schedule. The scheduler
// installed through router.VerifSetYield parks every actor goroutine at each yield point of the
// router (serve.entry, freeze.flags, warmup.drained, warmup.registered, warmup.compiled, freeze.done,
// serve.frozen) and releases exactly one goroutine per schedule step; the step ends when that
// goroutine is parked again, has finished, or is blocked in sync.Once.Do behind a goroutine that
// is parked inside the Once body (read off the goroutine dump: state "sync.Mutex.Lock" + which
// Once.Do frame). No sleeps, no timing assumptions; a 20 s watchdog fires only on a real deadlock.
//
// A second case kind checks the URLFor round trip (pattern, parameter values -> URL -> request).
package main

import (
	"bufio"
	"context"
	"encoding/json"
	"errors"
	"fmt"
	"net/http"
	"net/http/httptest"
	"net/url"
	"os"
	"os/exec"
	"runtime"
	"sort"
	"strconv"
	"strings"
	"sync"
	"sync/atomic"
	"time"

	"rivaas.dev/app"
	"rivaas.dev/openapi"
	"rivaas.dev/router"
	"rivaas.dev/router/route"
	"rivaas.dev/router/version"
	"verif/harness/hx"
)

// ---------------------------------------------------------------- case format

type actorT struct {
	K    string // Q request, F Freeze, W Warmup, R register, H WhereInt, N SetName, U URLFor
	R    int    // route id (target of the request / object of the operation)
	Val  bool   // Q: the parameter value is an integer
	Gone bool   `json:",omitempty"` // Q: the request's context is already done when it is handed to ServeHTTP (case-line token G)
	RK   int    // R: 0 r.GET, 1 group.GET, 2 mount, 3 r.Version("v1").GET; 4 mount of a sub-router with static routes only; 5, 6 = 2, 4 with the sub-router warmed up before the mount; 100+p: a route BELOW route p (/r<p>/:id/d<R>), same registrar as p; 200+p: the SAME path as version route p, registered in version v2
}

type caseT struct {
	Actors []actorT
	Plan   []int // schedule prefix; the harness then drains round-robin until every goroutine is done
	Comp   bool  `json:",omitempty"` // router built with WithRouteCompilation(true)
	// App: the world is an app.App (app.New with two WithRouter calls): routes through app.GET / app.Group / app.Version,
	// URLFor through app.URLFor; mounts, Freeze, Warmup and requests on app.Router(). Not a model input: same outcome.
	App bool `json:",omitempty"`
}

// routeName: mixed case, a dot, a digit (names are compared as given)
func routeName(id int) string { return "Users.getByID" + strconv.Itoa(id) }

func isMount(rk int) bool { return rk == 2 || (rk >= 4 && rk <= 6) }

func routePath(a actorT) (pattern, prefix string) {
	p := "/r" + strconv.Itoa(a.R) + "/:id"
	switch {
	case a.RK == 1:
		return p, "/g"
	case isMount(a.RK):
		return p, "/m" + strconv.Itoa(a.R)
	case a.RK >= 300:
		return "/r" + strconv.Itoa(a.RK-300) + "/:id/:name", ""
	case a.RK >= 200:
		return "/r" + strconv.Itoa(a.RK-200) + "/:id", ""
	}
	return p, ""
}

// ---------------------------------------------------------------- scheduler

type evT struct {
	point string // parked at this yield point ("" = finished)
	out   string // result token(s) when finished
}

type actor struct {
	idx    int
	gid    int64
	wake   chan struct{}
	ev     chan evT
	state  string // "N" not started, "P" parked, "B" blocked, "D" done
	rcSeen bool   // passed the yield point register.checked once already
	point  string
}

var (
	regMu  sync.Mutex
	byGID  = map[int64]*actor{}
	hookOn sync.Once
)

func curGID() int64 {
	var buf [64]byte
	n := runtime.Stack(buf[:], false)
	f := strings.Fields(string(buf[:n]))
	id, _ := strconv.ParseInt(f[1], 10, 64)
	return id
}

func yieldHook(point string) {
	regMu.Lock()
	a := byGID[curGID()]
	regMu.Unlock()
	if a == nil {
		return // not a scheduled goroutine (setup, probes)
	}
	if point == "register.checked" {
		if a.rcSeen {
			return // a mount of a sub-router with several routes: only its first registration is a scheduling point
		}
		a.rcSeen = true
	}
	a.ev <- evT{point: point}
	<-a.wake
}

type ginfo struct {
	state string
	funcs []string // function lines, innermost first
}

func dumpGoroutines() map[int64]ginfo {
	buf := make([]byte, 1<<18)
	for {
		n := runtime.Stack(buf, true)
		if n < len(buf) {
			buf = buf[:n]
			break
		}
		buf = make([]byte, 2*len(buf))
	}
	out := map[int64]ginfo{}
	for _, blk := range strings.Split(string(buf), "\n\n") {
		lines := strings.Split(blk, "\n")
		if len(lines) == 0 || !strings.HasPrefix(lines[0], "goroutine ") {
			continue
		}
		h := lines[0]
		sp := strings.IndexByte(h[10:], ' ')
		id, _ := strconv.ParseInt(h[10:10+sp], 10, 64)
		st := h[strings.IndexByte(h, '[')+1:]
		st = st[:strings.IndexByte(st, ']')]
		if c := strings.IndexByte(st, ','); c >= 0 {
			st = st[:c]
		}
		var fs []string
		for _, l := range lines[1:] {
			if l != "" && l[0] != '\t' {
				fs = append(fs, l)
			}
		}
		out[id] = ginfo{state: st, funcs: fs}
	}
	return out
}

// onceFrames lists the sync.Once.Do frames of a goroutine, innermost first: which Once ("F" freezeOnce,
// "W" warmupOnce — read off the caller frame, Router.Freeze or Router.Warmup) and whether the goroutine
// is waiting for that Once (blocked in its mutex) or is inside its body. Closure names differ between
// build modes (inlining, -race), so only the sync and the two exported method frames are relied on.
func onceFrames(g ginfo) (which []string, waiting []bool) {
	locking := strings.HasPrefix(g.state, "sync.Mutex.Lock")
	onlySyncSoFar := true // every frame inside the innermost Once.Do so far belongs to sync / internal/sync
	for i, f := range g.funcs {
		isSync := strings.HasPrefix(f, "sync.") || strings.HasPrefix(f, "internal/sync.")
		if strings.HasPrefix(f, "sync.(*Once).Do(") {
			w := ""
			for _, c := range g.funcs[i+1:] {
				if strings.HasPrefix(c, "sync.") || strings.HasPrefix(c, "internal/sync.") {
					continue
				}
				if strings.HasPrefix(c, "rivaas.dev/router.(*Router).Freeze(") {
					w = "F"
				} else if strings.HasPrefix(c, "rivaas.dev/router.(*Router).Warmup(") {
					w = "W"
				}
				break
			}
			which = append(which, w)
			waiting = append(waiting, locking && onlySyncSoFar && len(which) == 1)
			onlySyncSoFar = false
			continue
		}
		if !isSync {
			onlySyncSoFar = false
		}
	}
	return
}

// whichOnce says which Once a blocked goroutine waits for ("" = it is not blocked in a Once).
func whichOnce(g ginfo) string {
	w, wt := onceFrames(g)
	if len(w) > 0 && wt[0] {
		return w[0]
	}
	return ""
}

type schedT struct {
	actors   []*actor
	deadlock bool
}

// held: is the Once body occupied by a goroutine that cannot leave it on its own? That is a goroutine
// parked at a yield point inside the body (state P: all its Once frames are bodies it is inside), or a
// goroutine that is right now blocked on an inner Once (its outer Once frames are bodies it is inside).
// A goroutine we have on the books as blocked but which is no longer waiting — it was just woken, holds
// the Once's mutex for an instant and will return without entering the body — is NOT a holder (mistaking
// it for one made a woken request look stably blocked: one false deadlock in 65 000 -race cases).
func (s *schedT) held(dump map[int64]ginfo, once string) bool {
	for _, a := range s.actors {
		if a.state != "P" && a.state != "B" {
			continue
		}
		w, wt := onceFrames(dump[a.gid])
		first := 0
		if a.state == "B" {
			if len(w) == 0 || !wt[0] {
				continue // in transit
			}
			first = 1
		}
		for i := first; i < len(w); i++ {
			if w[i] == once {
				return true
			}
		}
	}
	return false
}

// settle waits until every goroutine that is running ("R": just released) or on the books as blocked ("B")
// has reached a stable position: parked at a yield point, finished, or blocked in a Once whose body is held
// (see held). All candidates are examined together, pass after pass: a goroutine woken by the step may have
// to park (and be recognised as the new holder) before another one can be judged stably blocked.
func (s *schedT) settle() {
	deadline := time.Now().Add(20 * time.Second)
	for spins := 0; ; spins++ {
		pending := false
		var dump map[int64]ginfo
		for _, x := range s.actors {
			if x.state != "R" && x.state != "B" {
				continue
			}
			select {
			case e := <-x.ev:
				if e.point == "" {
					x.state, x.point = "D", e.out
				} else {
					x.state, x.point = "P", e.point
				}
				dump = nil // the books changed: look again
				continue
			default:
			}
			if spins%4 != 3 {
				pending = true // give it time before paying for a goroutine dump
				continue
			}
			if dump == nil {
				dump = dumpGoroutines()
			}
			if w := whichOnce(dump[x.gid]); w != "" {
				prev := x.state
				x.state = "B"
				if s.held(dump, w) {
					continue // stably blocked
				}
				x.state = prev
			}
			pending = true
		}
		if !pending {
			return
		}
		runtime.Gosched()
		if spins > 2000 {
			time.Sleep(50 * time.Microsecond)
		}
		if time.Now().After(deadline) {
			s.deadlock = true
			for _, x := range s.actors {
				if x.state == "R" {
					x.state = "B"
				}
			}
			return
		}
	}
}

// release lets actor i run one step; returns false when the actor cannot be released (blocked / done).
func (s *schedT) release(i int) bool {
	a := s.actors[i]
	if a.state == "B" || a.state == "D" {
		return false
	}
	a.state = "R"
	a.wake <- struct{}{}
	s.settle()
	return true
}

func visTok(a *actor) string {
	switch a.state {
	case "N":
		return "N"
	case "B":
		return "B"
	case "D":
		return "D"
	}
	switch a.point {
	case "serve.entry":
		return "E"
	case "freeze.flags":
		return "FF"
	case "warmup.drained":
		return "WD"
	case "warmup.registered":
		return "WR"
	case "warmup.compiled":
		return "WC"
	case "freeze.done":
		return "FD"
	case "serve.frozen":
		return "SF"
	case "register.checked":
		return "RC"
	}
	return "?" + a.point
}

// ---------------------------------------------------------------- running one phases case

type world struct {
	app      *app.App
	agrp     *app.Group
	av1, av2 *app.VersionGroup
	r        *router.Router
	grp      *route.Group
	v1, v2   *router.VersionRouter
	objMu    sync.Mutex
	objs     map[int]*route.Route // retained route objects by id
	kindOf   map[int]actorT
	subs     map[int]*router.Router // sub-routers of the mount registrations
}

func (w *world) handler(id int) router.HandlerFunc {
	return func(c *router.Context) {
		c.Response.Header().Set("X-Route", strconv.Itoa(id))
		_ = c.String(http.StatusOK, "ok")
	}
}

func (w *world) reqPath(id int, valInt bool) string {
	v := "abc"
	if valInt {
		v = "12"
	}
	a := w.kindOf[id]
	if a.RK >= 300 { // a two-parameter route below route p: overlaps the static-tail routes below p in the compiled matcher
		_, prefix := routePath(w.kindOf[a.RK-300])
		return prefix + "/r" + strconv.Itoa(a.RK-300) + "/" + v + "/zz"
	}
	if a.RK >= 200 { // the twin of version route p in v2: the same path, asked for with the version header
		return "/r" + strconv.Itoa(a.RK-200) + "/" + v
	}
	if a.RK >= 100 { // below route p: the parent's parameter, then one more static segment
		_, prefix := routePath(w.kindOf[a.RK-100])
		return prefix + "/r" + strconv.Itoa(a.RK-100) + "/" + v + "/d" + strconv.Itoa(id)
	}
	_, prefix := routePath(a)
	return prefix + "/r" + strconv.Itoa(id) + "/" + v
}

func (w *world) get(id int, valInt bool, final bool) string {
	a := w.kindOf[id]
	scoped := false
	if final && isMount(a.RK) && a.R%4 != 3 { // (only in the probes after the schedule: one request per Q step)
		// the mount carries WithNotFound: FIRST ask for a path below the prefix that no route has. The scoped handler is
		// installed after the routes were merged, so "scoped handler answers, and THEN the mounted route is not
		// routable" means a rejected (or half-done) mount changed routing.
		rec := httptest.NewRecorder()
		w.r.ServeHTTP(rec, httptest.NewRequest(http.MethodGet, "/m"+strconv.Itoa(id)+"/no/such/route", nil))
		scoped = rec.Header().Get("X-Scoped-NF") == strconv.Itoa(id)
	}
	rec := httptest.NewRecorder()
	req := httptest.NewRequest(http.MethodGet, w.reqPath(id, valInt), nil)
	if a.RK >= 200 && a.RK < 300 {
		req.Header.Set("X-API-Version", "v2")
	}
	w.r.ServeHTTP(rec, req)
	if final && isMount(a.RK) && valInt {
		// what else belongs to an accepted mount: the static route that ends in a slash, the second prefix of the same
		// sub-router (even ids); and, mounted or not, the sub-router still serves its own routes itself
		want := rec.Code == http.StatusOK
		extra := []string{"/m" + strconv.Itoa(id) + "/docs/"}
		if a.RK >= 5 {
			extra = append(extra, "/m"+strconv.Itoa(id)+"/late")
		}
		if a.R%2 == 0 {
			extra = append(extra, "/twin"+w.reqPath(id, valInt), "/twin/m"+strconv.Itoa(id)+"/docs/")
		}
		for _, p := range extra {
			r2 := httptest.NewRecorder()
			w.r.ServeHTTP(r2, httptest.NewRequest(http.MethodGet, p, nil))
			if (r2.Code == http.StatusOK && r2.Header().Get("X-Route") == strconv.Itoa(id)) != want {
				return "1 " + strconv.Itoa(700000+id) // part of the mount is routable and part is not
			}
		}
		if want && (a.RK == 2 || a.RK == 5) {
			// the named route of the sub-router reverses, through the parent, to the MOUNTED path
			if u, err := w.r.URLFor("M"+strconv.Itoa(id)+".Sub.r"+strconv.Itoa(id), map[string]string{"id": "12"}, nil); err != nil || u != w.reqPath(id, true) {
				return "1 " + strconv.Itoa(500000+id)
			}
		}
		r3 := httptest.NewRecorder()
		w.subs[id].ServeHTTP(r3, httptest.NewRequest(http.MethodGet, "/docs/", nil))
		if r3.Code != http.StatusOK {
			return "1 " + strconv.Itoa(600000+id) // the sub-router lost its own route
		}
	}
	if rec.Code == http.StatusOK {
		if who, err := strconv.Atoi(rec.Header().Get("X-Route")); err == nil && who != id && w.kindOf[who].RK >= 300 {
			// the two-parameter route next to the asked one answered (it matches every /r<p>/<v>/<x>): the asked route did not
			return "0"
		}
		if a.RK >= 200 && a.RK < 300 && rec.Header().Get("X-Route") == strconv.Itoa(a.RK-200) {
			// a version without a tree for the method is served from the default version's tree (C13's subject):
			// the twin itself did not answer
			return "0"
		}
		return "1 " + rec.Header().Get("X-Route")
	}
	if rec.Code == http.StatusNotFound {
		if scoped {
			return "1 " + strconv.Itoa(800000+id) // not-found handler of a mount whose route is not there
		}
		return "0"
	}
	return "1 " + strconv.Itoa(900000+rec.Code) // anything else never matches the model
}

func panics(f func()) (p bool) {
	defer func() {
		if recover() != nil {
			p = true
		}
	}()
	f()
	return false
}

// do runs the operation of one actor to completion and returns its result token.
func (w *world) do(a actorT) (out string) {
	defer func() {
		if p := recover(); p != nil {
			out = "X"
		}
	}()
	switch a.K {
	case "Q":
		if a.Gone {
			// a client that went away / a deadline that expired in the accept queue: the request is handed to ServeHTTP all
			// the same (and ends the configuration phase); what it is answered is not looked at
			ctx, cancel := context.WithCancel(context.Background())
			cancel()
			req := httptest.NewRequest(http.MethodGet, w.reqPath(a.R, a.Val), nil).WithContext(ctx)
			w.r.ServeHTTP(httptest.NewRecorder(), req)
			return "G"
		}
		return "H " + w.get(a.R, a.Val, false)
	case "F":
		w.r.Freeze()
		return "-"
	case "W":
		w.r.Warmup()
		return "-"
	case "R":
		pattern, prefix := routePath(a)
		rk := a.RK
		if rk >= 100 && rk < 200 {
			pattern = "/r" + strconv.Itoa(rk-100) + "/:id/d" + strconv.Itoa(a.R)
			rk = w.kindOf[rk-100].RK
			if isMount(rk) || rk >= 100 {
				rk = 0
			}
		}
		if rk >= 300 {
			pattern = "/r" + strconv.Itoa(rk-300) + "/:id/:name"
			rk = w.kindOf[rk-300].RK
			if isMount(rk) || rk >= 100 {
				rk = 0
			}
		}
		if rk >= 200 {
			rk = 7
		}
		var rt *route.Route
		p := panics(func() {
			ah := func(c *app.Context) { w.handler(a.R)(c.Context) }
			switch {
			case w.app != nil && rk == 0:
				rt = w.app.GET(pattern, ah)
				return
			case w.app != nil && rk == 1:
				rt = w.agrp.GET(pattern, ah)
				return
			case w.app != nil && rk == 3:
				rt = w.av1.GET(pattern, ah)
				return
			case w.app != nil && rk == 7:
				rt = w.av2.GET(pattern, ah)
				return
			}
			switch rk {
			case 0:
				rt = w.r.GET(pattern, w.handler(a.R))
			case 1:
				rt = w.grp.GET(pattern, w.handler(a.R))
			case 2, 4, 5, 6:
				// the sub-router was built unscheduled (its own registration yields too)
				if a.R%4 != 3 {
					w.r.Mount(prefix, w.subs[a.R], router.NamePrefix("M"+strconv.Itoa(a.R)+"."), route.WithNotFound(router.HandlerFunc(func(c *router.Context) {
						c.Response.Header().Set("X-Scoped-NF", strconv.Itoa(a.R))
						c.Response.WriteHeader(http.StatusNotFound)
					})))
				} else {
					w.r.Mount(prefix, w.subs[a.R], router.NamePrefix("M"+strconv.Itoa(a.R)+"."))
				}
				if a.R%2 == 0 { // the same sub-router under a second prefix (both mounts belong to this one registration)
					w.r.Mount("/twin"+prefix, w.subs[a.R])
				}
			case 3:
				rt = w.v1.GET(pattern, w.handler(a.R))
			case 7:
				rt = w.v2.GET(pattern, w.handler(a.R))
			}
		})
		if p {
			return "M r"
		}
		w.objMu.Lock()
		w.objs[a.R] = rt // nil for a mount: no object is handed out
		w.objMu.Unlock()
		return "M a"
	case "H", "N", "B":
		w.objMu.Lock()
		rt, ok := w.objs[a.R]
		w.objMu.Unlock()
		if !ok || rt == nil {
			return "M n"
		}
		p := panics(func() {
			if a.K == "H" {
				rt.WhereInt("id")
			} else if a.K == "B" {
				rt.WhereRegex("zz", hx.Pick(hx.NewRand(uint64(a.R)), []string{"[0-9", "(?P<", "a(b"})) // regexp.Compile rejects it
			} else {
				rt.SetName(routeName(a.R))
			}
		})
		if p {
			return "M r"
		}
		return "M a"
	case "U":
		var err error
		if w.app != nil {
			_, err = w.app.URLFor(routeName(a.R), map[string]string{"id": "12"}, nil)
		} else {
			_, err = w.r.URLFor(routeName(a.R), map[string]string{"id": "12"}, nil)
		}
		switch {
		case err == nil:
			return "U o"
		case errors.Is(err, router.ErrRoutesNotFrozen):
			return "U f"
		case errors.Is(err, router.ErrRouteNotFound):
			return "U n"
		}
		return "X"
	}
	return "X"
}

func runPhases(id string, k caseT, st *hx.Stats) string {
	hookOn.Do(func() { router.VerifSetYield(yieldHook) })
	w := &world{objs: map[int]*route.Route{}, kindOf: map[int]actorT{}, subs: map[int]*router.Router{}}
	if k.App {
		a, err := app.New(app.WithServiceName("verif-c12"), app.WithServiceVersion("v0.0.0"),
			app.WithRouter(router.WithVersioning(version.WithHeaderDetection("X-API-Version"), version.WithDefault("v1"))),
			app.WithRouter(router.WithRouteCompilation(k.Comp)))
		if err != nil {
			panic("app.New: " + err.Error())
		}
		w.app, w.r = a, a.Router()
		w.agrp = a.Group("/g")
		w.av1 = a.Version("v1")
		w.av2 = a.Version("v2")
	} else {
		w.r = router.MustNew(router.WithVersioning(version.WithHeaderDetection("X-API-Version"), version.WithDefault("v1")), router.WithRouteCompilation(k.Comp))
	}
	w.grp = w.r.Group("/g")
	w.v1 = w.r.Version("v1")
	w.v2 = w.r.Version("v2")
	var ids []int
	for _, a := range k.Actors {
		if a.K == "R" {
			if _, dup := w.kindOf[a.R]; !dup {
				ids = append(ids, a.R)
			}
			w.kindOf[a.R] = a
		}
	}
	for _, a := range k.Actors { // requests / operations on ids nobody registers: still probe them
		if _, ok := w.kindOf[a.R]; !ok && (a.K == "Q" || a.K == "H" || a.K == "N" || a.K == "U" || a.K == "B") {
			w.kindOf[a.R] = actorT{K: "R", R: a.R}
			ids = append(ids, a.R)
		}
	}
	sort.Ints(ids)
	for _, a := range k.Actors {
		if a.K == "R" && isMount(a.RK) {
			pattern, _ := routePath(a)
			sub := router.MustNew()
			if a.RK == 4 || a.RK == 6 { // static routes only: exactly the two paths the probes ask for
				sub.GET("/r"+strconv.Itoa(a.R)+"/12", w.handler(a.R))
				sub.GET("/r"+strconv.Itoa(a.R)+"/abc", w.handler(a.R))
			} else {
				sub.GET(pattern, w.handler(a.R)).SetName("Sub.r" + strconv.Itoa(a.R)) // reversed through the parent after the mount
			}
			sub.GET("/docs/", w.handler(a.R)) // a static route that ends in a slash: mounted as <prefix>/docs/
			if a.RK >= 5 {                    // a sub-router that served (or was warmed up) on its own before it is mounted
				sub.Warmup()
				sub.GET("/late", w.handler(a.R)) // … and was extended afterwards (goes straight into its trees)
				if a.R%3 == 0 {
					sub.Freeze() // … or even frozen (it served on its own): its reverse patterns exist already
				}
			}
			w.subs[a.R] = sub
		}
	}

	s := &schedT{}
	for i, a := range k.Actors {
		ac := &actor{idx: i, wake: make(chan struct{}), ev: make(chan evT), state: "N"}
		s.actors = append(s.actors, ac)
		ready := make(chan struct{})
		go func(a actorT) {
			ac.gid = curGID()
			regMu.Lock()
			byGID[ac.gid] = ac
			regMu.Unlock()
			close(ready)
			<-ac.wake
			out := w.do(a)
			regMu.Lock()
			delete(byGID, ac.gid)
			regMu.Unlock()
			ac.ev <- evT{out: out}
		}(a)
		<-ready
	}

	var sched []int
	var evs []string
	stepOnce := func(i int) {
		a := s.actors[i]
		sched = append(sched, i)
		if !s.release(i) {
			evs = append(evs, visTok(a)+" -")
			return
		}
		out := "-"
		if a.state == "D" {
			out = a.point
		}
		evs = append(evs, visTok(a)+" "+out)
	}
	critical := false // a context switch while some goroutine is parked inside a Once body
	last := -1
	for _, i := range k.Plan {
		if i < 0 || i >= len(s.actors) || s.deadlock {
			continue
		}
		if last >= 0 && last != i {
			for _, b := range s.actors {
				if b.state == "P" && b.point != "serve.entry" && b.point != "serve.frozen" {
					critical = true
				}
			}
		}
		last = i
		stepOnce(i)
	}
	for pass := 0; pass < 16 && !s.deadlock; pass++ { // drain
		progress, all := false, true
		for i, a := range s.actors {
			if a.state == "D" {
				continue
			}
			all = false
			if a.state == "B" {
				continue
			}
			stepOnce(i)
			progress = true
			if s.deadlock {
				break
			}
		}
		if all || !progress {
			break
		}
	}

	l := hx.NewLine(id).Tok("P").Nat(len(k.Actors))
	for _, a := range k.Actors {
		if a.K == "Q" && a.Gone {
			l.Tok("G").Nat(a.R).Bool(a.Val)
			continue
		}
		l.Tok(a.K)
		switch a.K {
		case "Q":
			l.Nat(a.R).Bool(a.Val)
		case "R":
			l.Nat(a.R).Nat(a.RK)
		case "H", "N", "U", "B":
			l.Nat(a.R)
		}
	}
	l.Nat(len(sched))
	for _, i := range sched {
		l.Nat(i)
	}
	l.Nat(len(ids))
	for _, r := range ids {
		l.Nat(r)
	}
	in := l.String()
	l.Sep()
	l.Nat(len(evs))
	for _, e := range evs {
		l.Tok(e)
	}
	l.Nat(len(s.actors))
	allDone := true
	for _, a := range s.actors {
		l.Tok(visTok(a))
		if a.state != "D" {
			allDone = false
		}
	}
	if allDone {
		l.Nat(len(ids))
		for _, r := range ids {
			l.Tok(w.get(r, true, true)).Tok(w.get(r, false, true))
		}
	} else {
		l.Nat(0) // goroutines are stuck inside the router: do not touch it from here
		for _, a := range s.actors {
			regMu.Lock()
			delete(byGID, a.gid)
			regMu.Unlock()
		}
	}
	if st != nil {
		st.Case(in[len(id):], critical)
		st.Count("actors_" + strconv.Itoa(len(k.Actors)))
		for _, a := range k.Actors {
			st.Count("kind_" + a.K)
			if a.Gone {
				st.Count("request_with_context_already_done")
			}
			if a.K == "R" {
				if a.RK >= 300 {
					st.Count("register_two_parameter_route_below_another")
				} else if a.RK >= 200 {
					st.Count("register_same_path_in_second_version")
				} else if a.RK >= 100 {
					st.Count("register_below_another_route")
				} else if a.RK >= 4 {
					st.Count("register_via_mount_" + []string{"static_sub", "warmed_sub", "warmed_static_sub"}[a.RK-4])
				} else {
					st.Count("register_via_" + []string{"router", "group", "mount", "version"}[a.RK])
				}
			}
		}
		for _, e := range evs {
			switch {
			case strings.HasSuffix(e, "M r"):
				st.Count("mutation_rejected")
			case strings.HasSuffix(e, "M a"):
				st.Count("mutation_accepted")
			case strings.HasPrefix(e, "B "):
				st.Count("step_blocked")
			}
		}
		if k.Comp {
			st.Count("route_compilation_on")
		}
		if k.App {
			st.Count("world_is_an_app")
		}
		if critical {
			st.Count("switch_inside_once_body")
		}
		if s.deadlock {
			st.Count("deadlock_or_timeout")
		}
		st.Count("sched_len_" + strconv.Itoa(min(len(sched)/8*8, 48)))
	}
	if s.deadlock {
		sawDeadlock = true
	}
	return l.String() + hx.Comment(k)
}

// sawDeadlock: a goroutine stayed blocked for the whole watchdog period. The goroutines of that case are
// abandoned inside the router; the run stops after reporting the case (every further case would wait again).
var sawDeadlock bool

// ---------------------------------------------------------------- generators (phases)

func reg(r, rk int) actorT    { return actorT{K: "R", R: r, RK: rk} }
func rq(r int, v bool) actorT { return actorT{K: "Q", R: r, Val: v} }
func rqGone(r int) actorT     { return actorT{K: "Q", R: r, Val: true, Gone: true} }

// fixedPhases: the K12 / K12b witnesses and the documented windows.
func fixedPhases() []caseT {
	return []caseT{
		// K12: WhereInt on a served route after the first request
		{Actors: []actorT{reg(1, 0), rq(1, false), {K: "H", R: 1}, rq(1, false)}, Plan: []int{0, 0, 1, 1, 1, 1, 1, 1, 1, 1, 2, 3, 3, 3}},
		// K12b: registration through a version router after the first request
		{Actors: []actorT{reg(1, 0), rq(1, true), reg(2, 3), rq(2, true)}, Plan: []int{0, 0, 1, 1, 1, 1, 1, 1, 1, 1, 2, 3, 3, 3}},
		// late r.GET / group / mount: rejected
		{Actors: []actorT{reg(1, 0), rq(1, true), reg(2, 0), reg(3, 1), reg(4, 2), {K: "N", R: 1}}, Plan: []int{0, 0, 1, 1, 1, 2, 3, 4, 5}},
		// registration in the window "flags set, pending not yet drained" and "drained, not yet registered"
		{Actors: []actorT{reg(1, 0), rq(1, true), reg(2, 0)}, Plan: []int{0, 0, 1, 1, 2}},
		{Actors: []actorT{reg(1, 0), {K: "W"}, reg(2, 0), reg(3, 3), rq(2, true), rq(3, true)}, Plan: []int{0, 0, 1, 2, 2, 1, 3, 3, 1, 4, 5}},
		// two requests racing to freeze, Freeze and Warmup from other goroutines
		{Actors: []actorT{reg(1, 0), reg(2, 1), rq(1, true), rq(2, true), {K: "F"}, {K: "W"}}, Plan: []int{0, 0, 1, 1, 2, 3, 2, 3, 5, 2, 4, 3, 2, 5}},
		// Where before the freeze is honoured, URLFor before / after
		{Actors: []actorT{reg(1, 0), {K: "H", R: 1}, {K: "N", R: 1}, {K: "U", R: 1}, rq(1, false), rq(1, true), {K: "U", R: 1}, {K: "U", R: 2}}, Plan: []int{0, 0, 1, 2, 3, 4, 4, 4, 4, 4, 4, 4, 4, 5, 6, 7}},
		// explicit Warmup first, then Where re-registers, then freeze
		{Actors: []actorT{reg(1, 0), {K: "W"}, {K: "H", R: 1}, rq(1, false), rq(1, true)}, Plan: []int{0, 0, 1, 1, 1, 1, 2, 3, 4}},
		// the same on a route that lives in a version tree (observation passed on by b-c02-c10: not reproduced —
		// the constraint is enforced; static version routes never look at constraints, before or after Warmup)
		{Actors: []actorT{reg(1, 3), {K: "W"}, {K: "H", R: 1}, rq(1, false), rq(1, true)}, Plan: []int{0, 0, 1, 1, 1, 1, 2, 3, 4}},
		// seeded C12-8 class: a route and routes BELOW it; explicit Warmup; a constraint on the shallower retained route
		// re-registers it; the deeper ones must still be served (router, group, version tree)
		{Actors: []actorT{reg(1, 0), reg(5, 101), reg(6, 101), {K: "W"}, {K: "H", R: 1}, rq(5, true), rq(6, false), rq(1, false)}, Plan: []int{0, 0, 1, 1, 2, 2, 3, 3, 3, 3, 4, 5, 6, 7}},
		{Actors: []actorT{reg(1, 1), reg(5, 101), {K: "W"}, {K: "H", R: 1}, rq(5, true)}, Plan: []int{0, 0, 1, 1, 2, 2, 2, 2, 3, 4}},
		{Actors: []actorT{reg(1, 3), reg(5, 101), {K: "W"}, {K: "H", R: 1}, rq(5, false)}, Plan: []int{0, 0, 1, 1, 2, 2, 2, 2, 3, 4}},
		// seeded C12-6 class: a WhereRegex pattern that does not compile on a route with routes registered AFTER it
		{Actors: []actorT{reg(1, 0), {K: "B", R: 1}, reg(2, 0), reg(3, 3), rq(2, true), rq(3, true), rq(1, false)}, Plan: []int{0, 0, 1, 2, 2, 3, 3, 4, 5, 6}},
		{Actors: []actorT{reg(1, 1), reg(2, 0), {K: "W"}, {K: "B", R: 1}, rq(2, true), rq(1, false)}, Plan: []int{0, 0, 1, 1, 2, 2, 2, 2, 3, 4, 5}},
		// K12e: a registration passes the flag test, the first request is served, then the registration goes on —
		// through the router (pending list already drained) and through a version router after an explicit Warmup
		{Actors: []actorT{reg(1, 0), reg(2, 0), rq(1, true), rq(2, true)}, Plan: []int{0, 0, 1, 2, 2, 2, 2, 2, 2, 2, 2, 1, 3, 3, 3}},
		{Actors: []actorT{reg(1, 0), {K: "W"}, reg(2, 3), rq(1, true), rq(2, true)}, Plan: []int{0, 0, 1, 1, 1, 1, 2, 3, 3, 3, 3, 3, 3, 3, 3, 2, 4, 4, 4}},
		// … and in the freeze window itself (flags set, Warmup not yet entered)
		{Actors: []actorT{reg(1, 0), reg(2, 1), rq(1, true), rq(2, true)}, Plan: []int{0, 0, 1, 2, 2, 1, 2, 2, 2, 2, 2, 2, 3, 3, 3}},
		// seeded C12-12 class: sub-routers that were warmed up before the mount / hold static routes only
		{Actors: []actorT{reg(1, 0), reg(2, 6), reg(4, 5), reg(5, 4), rq(2, true), rq(4, true), rq(5, false)}, Plan: []int{0, 0, 1, 1, 2, 2, 3, 3, 4, 5, 6}},
		{Actors: []actorT{reg(1, 0), {K: "W"}, reg(2, 6), reg(4, 5), rq(2, false), rq(4, true)}, Plan: []int{0, 0, 1, 1, 1, 1, 2, 2, 3, 3, 4, 5}},
		// seeded C12-9 class: a LATE mount that carries a prefix-scoped not-found handler (rejected: nothing of it may stay)
		{Actors: []actorT{reg(1, 0), rq(1, true), reg(2, 2), reg(4, 6), rq(2, true)}, Plan: []int{0, 0, 1, 1, 1, 1, 1, 1, 1, 1, 2, 2, 3, 3, 4}},
		// seeded C12-10 class: one path in two versions (and route compilation on)
		{Actors: []actorT{reg(1, 3), reg(2, 201), rq(1, true), rq(2, true), rq(1, false)}, Plan: []int{0, 0, 1, 1, 2, 3, 4}, Comp: true},
		{Actors: []actorT{reg(1, 3), reg(2, 201), reg(3, 0), {K: "H", R: 2}, rq(2, false), rq(1, false), rq(3, true)}, Plan: []int{0, 0, 1, 1, 2, 2, 3, 4, 5, 6}, Comp: true},
		{Actors: []actorT{reg(2, 201), reg(1, 3), {K: "W"}, {K: "H", R: 1}, rq(2, false), rq(1, false)}, Plan: []int{0, 0, 1, 1, 2, 2, 2, 2, 3, 4, 5}},
		// seeded C12-33 class: overlapping dynamic routes in the compiled matcher (static tail vs second parameter), explicit
		// Warmup, then a constraint on the shallower retained route re-registers it
		{Actors: []actorT{reg(1, 0), reg(5, 101), reg(6, 301), reg(7, 101), {K: "W"}, {K: "H", R: 1}, rq(5, true), rq(6, true), rq(7, true), rq(1, false)}, Plan: []int{0, 0, 1, 1, 2, 2, 3, 3, 4, 4, 4, 4, 5, 6, 7, 8, 9}, Comp: true},
		{Actors: []actorT{reg(6, 301), reg(1, 0), reg(5, 101), {K: "W"}, {K: "H", R: 1}, {K: "B", R: 1}, rq(5, true), rq(6, false)}, Plan: []int{0, 0, 1, 1, 2, 2, 3, 3, 3, 3, 4, 5, 6, 7}, Comp: true},
		// … the constraint goes on the MOST specific route (re-registered: removed from and re-added to the compiled list)
		{Actors: []actorT{reg(1, 0), reg(5, 101), reg(7, 101), reg(6, 301), {K: "W"}, {K: "H", R: 5}, rq(5, true), rq(7, true), rq(6, true), rq(1, true)}, Plan: []int{0, 0, 1, 1, 2, 2, 3, 3, 4, 4, 4, 4, 5, 6, 7, 8, 9}, Comp: true},
		{Actors: []actorT{reg(1, 0), reg(7, 101), reg(6, 301), reg(5, 101), {K: "W"}, {K: "H", R: 7}, {K: "H", R: 5}, rq(5, true), rq(7, true), rq(6, true)}, Plan: []int{0, 0, 1, 1, 2, 2, 3, 3, 4, 4, 4, 4, 5, 6, 7, 8, 9}, Comp: true},
		// seeded C12-14 class: the FIRST request arrives with a context that is already done; it is a request all the same:
		// afterwards registration (router, version router, mount), Where*, SetName are rejected and URLFor works
		{Actors: []actorT{reg(1, 0), {K: "N", R: 1}, rqGone(1), reg(2, 0), reg(3, 3), reg(4, 2), {K: "H", R: 1}, {K: "U", R: 1}, rq(2, true), rq(1, false)}, Plan: []int{0, 0, 1, 2, 2, 2, 2, 2, 2, 2, 2, 2, 3, 3, 4, 4, 5, 5, 6, 7, 8, 9}},
		{Actors: []actorT{reg(1, 3), {K: "W"}, rqGone(1), rqGone(9), {K: "N", R: 1}, reg(2, 1), rq(1, true)}, Plan: []int{0, 0, 1, 1, 1, 1, 2, 3, 2, 3, 2, 2, 2, 3, 3, 3, 3, 3, 4, 5, 5, 6}},
	}
}

var oneShots = []actorT{reg(9, 0), reg(9, 1), reg(9, 2), reg(9, 3), reg(9, 6), {K: "H", R: 1}, {K: "N", R: 1}, {K: "U", R: 1}, {K: "F"}, {K: "W"}, rq(1, true), rq(1, false), rq(9, true), {K: "B", R: 1}, rq(5, false), rqGone(1)}
var drivers = []actorT{rq(1, true), {K: "F"}, {K: "W"}, rq(1, false), rqGone(2)}

// familyOne: one driver goroutine advanced step by step, a one-shot operation inserted after k steps; a
// registration (two steps: flag test, enqueue) is split by `gap` further driver steps.
func familyOne(emit func(caseT)) {
	for _, d := range drivers {
		for _, x := range oneShots {
			gaps := []int{0}
			if x.K == "R" {
				gaps = []int{0, 1, 2, 4, 9}
			}
			for k := 0; k <= 8; k++ {
				for _, gap := range gaps {
					for _, named := range []bool{false, true} {
						if named && x.K == "N" {
							continue // duplicate name
						}
						if named && gap > 0 {
							continue
						}
						// route 1, a route below it (5) and a route registered after both (2)
						acts := []actorT{reg(1, 0), reg(5, 101), reg(2, 0)}
						plan := []int{0, 0, 1, 1, 2, 2}
						if named {
							acts = append(acts, actorT{K: "N", R: 1})
							plan = append(plan, 3)
						}
						di := len(acts)
						acts = append(acts, d, x)
						for j := 0; j < k; j++ {
							plan = append(plan, di)
						}
						plan = append(plan, di+1)
						for j := 0; j < gap; j++ {
							plan = append(plan, di)
						}
						plan = append(plan, di+1)
						// a request for the one-shot's route at the end shows whether it took effect
						acts = append(acts, rq(9, true))
						emit(caseT{Actors: acts, Plan: plan})
					}
				}
			}
		}
	}
}

// familyTwo: two drivers, interleavings with at most `sw` context switches, optionally a one-shot in between.
func familyTwo(r *hx.Rand, n int, emit func(caseT)) {
	for c := 0; c < n; c++ {
		acts := []actorT{reg(1, hx.Pick(r, []int{0, 0, 1, 2, 3, 3, 4, 5, 6})), reg(2, hx.Pick(r, []int{0, 1, 3}))}
		plan := []int{0, 0, 1, 1}
		twin := acts[0].RK == 3 && r.Chance(1, 2) // the same path in version v2
		if twin {
			acts = append(acts, reg(3, 201))
			plan = append(plan, 2, 2)
		}
		named := r.Chance(1, 2)
		if named {
			t := 1
			if isMount(acts[0].RK) {
				t = 2 // a mount hands out no route object
			}
			acts = append(acts, actorT{K: "N", R: t})
			plan = append(plan, len(acts)-1)
		}
		base := len(acts)
		if twin {
			acts = append(acts, rq(3, r.Chance(1, 2)))
		}
		nd := r.Range(2, 3)
		for j := 0; j < nd; j++ {
			d := hx.Pick(r, drivers)
			if d.K == "Q" {
				d.R = r.Range(1, 2)
				d.Val = r.Chance(2, 3) || d.Gone
			}
			acts = append(acts, d)
		}
		nx := r.Range(0, 2)
		for j := 0; j < nx; j++ {
			x := hx.Pick(r, oneShots)
			if x.K == "R" {
				x.R = 9 + j
			}
			if (x.K == "H" || x.K == "N" || x.K == "B") && isMount(acts[0].RK) {
				x.R = 2 // a mount hands out no route object
			}
			if x.K == "N" && (named || j > 0) {
				continue // a second SetName on one route is a duplicate-name panic, not a phase question
			}
			acts = append(acts, x)
		}
		// walk: pick a current actor, stay on it for a run, switch
		cur := base + r.Intn(len(acts)-base)
		steps := r.Range(6, 26)
		for j := 0; j < steps; j++ {
			if r.Chance(1, 3) {
				cur = base + r.Intn(len(acts)-base)
			}
			plan = append(plan, cur)
		}
		emit(caseT{Actors: acts, Plan: plan})
	}
}

// familyRandom: 4-7 actors, registrations possibly late, random plan.
func familyRandom(r *hx.Rand, n int, emit func(caseT)) {
	for c := 0; c < n; c++ {
		var acts []actorT
		nr := r.Range(1, 3)
		mountIDs := map[int]bool{}
		for j := 1; j <= nr; j++ {
			rk := hx.Pick(r, []int{0, 0, 1, 1, 2, 3, 3, 4, 5, 6})
			acts = append(acts, reg(j, rk))
			if isMount(rk) {
				mountIDs[j] = true
			}
		}
		for j := 1; j <= nr; j++ { // the same path in version v2
			if acts[j-1].RK == 3 && r.Chance(1, 2) {
				acts = append(acts, reg(8, 200+j), rq(8, r.Chance(1, 2)))
				if r.Chance(1, 3) {
					acts = append(acts, actorT{K: "H", R: 8})
				}
				break
			}
		}
		if r.Chance(1, 3) { // a route below route 1
			if !mountIDs[1] {
				acts = append(acts, reg(7, 101), rq(7, r.Chance(1, 2)))
				if r.Chance(1, 2) { // … and a two-parameter route next to it
					acts = append(acts, reg(6, 301), rq(6, true))
				}
				if r.Chance(1, 3) { // a constraint on the deeper route
					acts = append(acts, actorT{K: "H", R: 7})
				}
			}
		}
		na := r.Range(2, 5)
		namedOnce := map[int]bool{}
		for j := 0; j < na; j++ {
			t := r.Range(1, nr)
			switch r.Intn(9) {
			case 0, 1, 2:
				if r.Chance(1, 6) {
					acts = append(acts, rqGone(t))
				} else {
					acts = append(acts, rq(t, r.Chance(2, 3)))
				}
			case 3:
				acts = append(acts, actorT{K: "F"})
			case 4:
				acts = append(acts, actorT{K: "W"})
			case 5:
				if !mountIDs[t] {
					acts = append(acts, actorT{K: "H", R: t})
				}
			case 6:
				if !mountIDs[t] && !namedOnce[t] {
					namedOnce[t] = true
					acts = append(acts, actorT{K: "N", R: t})
				}
			case 7:
				acts = append(acts, actorT{K: "U", R: t})
			case 8:
				acts = append(acts, rq(r.Range(1, nr+1), true))
			}
			if r.Chance(1, 8) && !mountIDs[t] {
				acts = append(acts, actorT{K: "B", R: t})
			}
		}
		var plan []int
		early := r.Range(0, nr) // this many registrations are scheduled up front
		for j := 0; j < early; j++ {
			plan = append(plan, j, j)
		}
		steps := r.Range(4, 30)
		cur := r.Intn(len(acts))
		for j := 0; j < steps; j++ {
			if r.Chance(2, 5) {
				cur = r.Intn(len(acts))
			}
			plan = append(plan, cur)
		}
		emit(caseT{Actors: acts, Plan: plan})
	}
}

// ---------------------------------------------------------------- URLFor round trip

type urlCaseT struct {
	Pattern string            // e.g. /users/:id/posts/:pid
	Params  map[string]string // values (valid single path segments, or not)
	Extra   []string          // other routes registered next to it
	Sib     bool              `json:",omitempty"` // a second NAMED route whose path differs only in the trailing slash
}

var segPool = []string{"users", "posts", "a", "v1", "files", "x-y", "_", "api"}
var valPool = []string{"1", "42", "abc", "a b", "a+b", "a%2Fb", "ü", "日本", "a:b", "~", "a.b", ".", "..", "a?b", "a#b", "%", "%zz", "a;b", "a=b&c", "A", "@", "!$'()*,", "\x7f", "a\tb", "\"", "<>", "{}", "|", "\\", "^", "`", "[x]"}
var badVals = []string{"", "a/b", "/", "a/"}

func genURLCase(r *hx.Rand) urlCaseT {
	n := r.Range(1, 5)
	var parts []string
	params := map[string]string{}
	np := 0
	for i := 0; i < n; i++ {
		if r.Chance(1, 2) {
			name := "p" + strconv.Itoa(np)
			np++
			parts = append(parts, ":"+name)
			if r.Chance(1, 12) {
				params[name] = hx.Pick(r, badVals)
			} else if r.Chance(1, 6) {
				params[name] = hx.Pick(r, valPool) + hx.Pick(r, valPool)
			} else {
				params[name] = hx.Pick(r, valPool)
			}
		} else {
			parts = append(parts, hx.Pick(r, segPool))
		}
	}
	u := urlCaseT{Pattern: "/" + strings.Join(parts, "/"), Params: params, Extra: []string{}}
	if r.Chance(1, 10) && np > 0 { // a parameter is missing
		delete(u.Params, "p0")
	}
	if r.Chance(1, 8) {
		u.Pattern += "/" // trailing slash in the pattern
	}
	if r.Chance(1, 3) {
		u.Extra = append(u.Extra, "/other/:z")
	}
	// static SIBLINGS at parameter positions (`/users/zzsib/…` next to `/users/:p0/…`): the theorems are about a router
	// with one route; the real router holds several — no value ever equals the sibling's segment, so the URL must still
	// route back to the named route (with a value equal to it the static sibling wins: outside the oracle)
	for i, part := range parts {
		if strings.HasPrefix(part, ":") && r.Chance(1, 3) {
			sib := append([]string{}, parts...)
			sib[i] = "zzsib"
			if r.Chance(1, 2) {
				sib = sib[:i+1] // the sibling ends here
			}
			u.Extra = append(u.Extra, "/"+strings.Join(sib, "/"))
		}
	}
	if np == 0 && r.Chance(1, 2) {
		// (only for parameter-less routes: a route WITH parameters and its trailing-slash twin share one tree node —
		// the second registration replaces the first; a duplicate registration, the routing properties' subject)
		u.Sib = true
	}
	return u
}

func runURL(id string, u urlCaseT, st *hx.Stats) string {
	r := router.MustNew()
	var got map[string]string
	hit := ""
	r.GET(u.Pattern, func(c *router.Context) {
		hit = "T"
		got = c.AllParams()
		_ = c.String(200, "ok")
	}).SetName("t")
	for i, e := range u.Extra {
		r.GET(e, func(c *router.Context) { hit = "E" + strconv.Itoa(i); _ = c.String(200, "ok") })
	}
	if u.Sib {
		sib := u.Pattern + "/"
		if strings.HasSuffix(u.Pattern, "/") {
			sib = strings.TrimSuffix(u.Pattern, "/")
		}
		if sib != "" {
			r.GET(sib, func(c *router.Context) { hit = "S"; _ = c.String(200, "ok") }).SetName("s")
		}
	}
	r.Freeze()
	names := make([]string, 0, len(u.Params))
	for k := range u.Params {
		names = append(names, k)
	}
	sort.Strings(names)
	l := hx.NewLine(id).Tok("U").Str(u.Pattern).Nat(len(names))
	for _, k := range names {
		v := u.Params[k]
		esc := url.PathEscape(v)
		un, err := url.PathUnescape(esc)
		// the parts of net/url the model takes as parameters: PathEscape, and whether the server side
		// decodes it back (URL parsing of the escaped segment)
		l.Str(k).Str(v).Str(esc).Bool(err == nil && un == v)
	}
	in := l.String()
	l.Sep()
	built, err := r.URLFor("t", u.Params, nil)
	if err != nil {
		l.Tok("E")
	} else {
		l.Tok("O").Str(built)
		pu, perr := url.ParseRequestURI(built)
		if perr != nil {
			l.Tok("B") // not a request URI
		} else {
			req := httptest.NewRequest(http.MethodGet, "http://example.com/", nil)
			req.URL = pu
			req.URL.Scheme, req.URL.Host = "http", "example.com"
			rec := httptest.NewRecorder()
			hit, got = "", nil
			r.ServeHTTP(rec, req)
			if hit == "T" {
				// parameters in pattern order (AllParams is a map); a name the handler did not see is "?"
				var ns []string
				for _, part := range strings.Split(u.Pattern, "/") {
					if strings.HasPrefix(part, ":") {
						ns = append(ns, part[1:])
					}
				}
				if len(got) != len(ns) {
					ns = append(ns, "?count")
				}
				l.Tok("T").Nat(len(ns))
				for _, k := range ns {
					v, ok := got[k]
					if !ok {
						v = "?"
					}
					l.Str(k).Str(v)
				}
			} else {
				l.Tok("M").Nat(rec.Code) // did not route back
			}
		}
	}
	if st != nil {
		nonCanon := false
		for _, v := range u.Params {
			if url.PathEscape(v) != v || v == "" || strings.Contains(v, "/") {
				nonCanon = true
			}
		}
		st.Case(in[len(id):], nonCanon)
		st.Count("url_cases")
		if u.Sib {
			st.Count("url_named_sibling_differs_in_trailing_slash")
		}
		if err != nil {
			st.Count("url_error")
		}
	}
	return l.String() + hx.Comment(u)
}

// ---------------------------------------------------------------- free-running stress (no scheduler)

// runStress starts the goroutines of a small scenario at once, unscheduled (the yield hook ignores them):
// k requests racing to freeze, Freeze, Warmup and URLFor start together; registrations through every
// registrar, WhereInt and SetName start as soon as the first request has been answered and race with the
// remaining requests. What must hold for every interleaving: every request for an early route is
// answered 200, every one of those late mutations panics and none is visible afterwards, nothing
// deadlocks. (Mutations concurrent with the configuration phase itself are outside the router's contract —
// "routes are registered during a single-threaded configuration phase" — and are exercised under the
// scheduler only.) In the thorough tier the binary is a -race build: a data race makes the process exit
// non-zero.
func runStress(id string, r *hx.Rand, st *hx.Stats) string {
	rt := router.MustNew(router.WithVersioning(version.WithHeaderDetection("X-API-Version"), version.WithDefault("v1")))
	grp := rt.Group("/g")
	v1 := rt.Version("v1")
	h := func(id int) router.HandlerFunc {
		return func(c *router.Context) {
			c.Response.Header().Set("X-Route", strconv.Itoa(id))
			_ = c.String(http.StatusOK, "ok")
		}
	}
	objs := []*route.Route{rt.GET("/r1/:id", h(1)), grp.GET("/r2/:id", h(2)), v1.GET("/r3/:id", h(3))}
	objs[0].SetName("n1")
	if r.Chance(1, 3) {
		rt.Warmup() // explicit warm-up before serving: registrations then go straight to the tree
	}
	sub := router.MustNew()
	sub.GET("/r7/:id", h(7))
	paths := map[int]string{1: "/r1/12", 2: "/g/r2/12", 3: "/r3/12", 4: "/r4/12", 5: "/g/r5/12", 6: "/r6/12", 7: "/m/r7/12"}
	get := func(id int) int {
		rec := httptest.NewRecorder()
		rt.ServeHTTP(rec, httptest.NewRequest(http.MethodGet, paths[id], nil))
		return rec.Code
	}
	var mu sync.Mutex
	var bad []string
	fail := func(f string, a ...any) { mu.Lock(); bad = append(bad, fmt.Sprintf(f, a...)); mu.Unlock() }
	served := make(chan struct{})
	var servedOnce sync.Once
	var early, late []func()
	for i := 0; i < r.Range(3, 7); i++ {
		t := r.Range(1, 3)
		early = append(early, func() {
			c := get(t)
			servedOnce.Do(func() { close(served) })
			if c != http.StatusOK {
				fail("early route %d answered %d", t, c)
			}
		})
	}
	early = append(early, func() { rt.Freeze() }, func() { rt.Warmup() }, func() { rt.Freeze() })
	early = append(early, func() {
		if _, err := rt.URLFor("n1", map[string]string{"id": "12"}, nil); err != nil && !errors.Is(err, router.ErrRoutesNotFrozen) {
			fail("URLFor: %v", err)
		}
	})
	mutation := func(name string, f func()) {
		late = append(late, func() {
			if !panics(f) {
				fail("%s after the first request did not panic", name)
			}
		})
	}
	if r.Chance(2, 3) {
		mutation("r.GET", func() { rt.GET("/r4/:id", h(4)) })
	}
	if r.Chance(2, 3) {
		mutation("group.GET", func() { grp.GET("/r5/:id", h(5)) })
	}
	if r.Chance(2, 3) {
		mutation("version.GET", func() { v1.GET("/r6/:id", h(6)) })
	}
	if r.Chance(1, 2) {
		mutation("Mount", func() { rt.Mount("/m", sub) })
	}
	if r.Chance(1, 2) {
		mutation("WhereInt", func() { objs[1].WhereInt("id") })
	}
	if r.Chance(1, 2) {
		mutation("SetName", func() { objs[2].SetName("n3") })
	}
	late = append(late, func() {
		if _, err := rt.URLFor("n1", map[string]string{"id": "12"}, nil); err != nil {
			fail("URLFor after the first request: %v", err)
		}
	})
	hx.Shuffle(r, early)
	start := make(chan struct{})
	var wg sync.WaitGroup
	spawn := func(f func(), gate chan struct{}) {
		wg.Add(1)
		go func() {
			defer wg.Done()
			defer func() {
				if p := recover(); p != nil {
					fail("panic: %v", p)
				}
			}()
			<-gate
			f()
		}()
	}
	for _, f := range early {
		spawn(f, start)
	}
	for _, f := range late {
		spawn(f, served)
	}
	close(start)
	done := make(chan struct{})
	go func() { wg.Wait(); close(done) }()
	select {
	case <-done:
	case <-time.After(20 * time.Second):
		fail("deadlock: goroutines still running after 20 s")
	}
	if len(bad) == 0 {
		for id := 4; id <= 7; id++ {
			if get(id) == http.StatusOK {
				fail("late route %d is routable", id)
			}
		}
		rec := httptest.NewRecorder()
		rt.ServeHTTP(rec, httptest.NewRequest(http.MethodGet, "/g/r2/abc", nil))
		if rec.Code != http.StatusOK {
			fail("/g/r2/abc answered %d: a late WhereInt took effect", rec.Code)
		}
	}
	n := len(early) + len(late)
	l := hx.NewLine(id).Tok("S").Nat(n)
	in := l.String()
	l.Sep()
	if len(bad) == 0 {
		l.Tok("OK")
	} else {
		sort.Strings(bad)
		l.Tok("BAD").Str(strings.Join(bad, "; "))
	}
	if st != nil {
		st.Case(in[len(id):]+id, false)
		st.Count("stress_runs")
	}
	return l.String()
}

// runApp: the same rule one layer up (app/app.go, app/group.go, app/version_group.go, app/lifecycle.go, app/options.go):
// routes registered through app.App, app.Group (nested, trailing-slash and root patterns), app.Version(v) and its
// (nested) groups before the router is frozen are routable at prefix+pattern; names set on them reverse through
// app.URLFor; routes, hooks and documented routes (app.WithDoc) are rejected afterwards and leave no trace — not in the
// routing table and not in the specification the app serves. The router options arrive through TWO app.WithRouter
// calls (they accumulate). Sequential; reported like a stress run.
func runApp(id string, viaRequest bool, st *hx.Stats) string {
	var bad []string
	fail := func(f string, a ...any) { bad = append(bad, fmt.Sprintf(f, a...)) }
	a, err := app.New(app.WithServiceName("verif-c12"), app.WithServiceVersion("v0.0.0"),
		app.WithRouter(router.WithVersioning(version.WithHeaderDetection("X-API-Version"), version.WithDefault("v1"))),
		app.WithRouter(router.WithRouteCompilation(viaRequest)),
		app.WithOpenAPI(openapi.WithTitle("verif-c12", "0.0.0")))
	if err != nil {
		fail("app.New: %v", err)
	} else {
		type seenT struct{ id string }
		h := func(id string) app.HandlerFunc {
			return func(c *app.Context) {
				c.Response.Header().Set("X-Route", id)
				_ = c.String(http.StatusOK, "ok")
			}
		}
		get := func(p string) (int, string) {
			rec := httptest.NewRecorder()
			a.Router().ServeHTTP(rec, httptest.NewRequest(http.MethodGet, p, nil))
			return rec.Code, rec.Header().Get("X-Route")
		}
		spec := func() string {
			b, _, err := a.VerifOpenAPIGenerateSpec(context.Background()) // what the handler of /openapi.json serves
			if err != nil {
				return "error: " + err.Error()
			}
			return string(b)
		}
		hooks := map[string]func(){
			"OnStart":    func() { a.OnStart(func(context.Context) error { return nil }) },
			"OnReady":    func() { a.OnReady(func() {}) },
			"OnReload":   func() { a.OnReload(func(context.Context) error { return nil }) },
			"OnShutdown": func() { a.OnShutdown(func(context.Context) {}) },
			"OnStop":     func() { a.OnStop(func() {}) },
			"OnRoute":    func() { a.OnRoute(func(*route.Route) {}) },
		}
		names := make([]string, 0, len(hooks))
		for n := range hooks {
			names = append(names, n)
		}
		sort.Strings(names)
		// registrars: the app, groups (nested), a version, version groups (nested)
		g := a.Group("/g")
		gn := g.Group("/in")
		v1 := a.Version("v1")
		vg := v1.Group("/vapi")
		vgn := vg.Group("/deep")
		type shapeT struct {
			where   string
			reg     func(pat, id string, opts ...app.RouteOption) *route.Route
			prefix  string
			pattern string
		}
		regs := map[string]struct {
			prefix string
			reg    func(pat, id string, opts ...app.RouteOption) *route.Route
		}{
			"app":                  {"", func(p, id string, o ...app.RouteOption) *route.Route { return a.GET(p, h(id), o...) }},
			"group":                {"/g", func(p, id string, o ...app.RouteOption) *route.Route { return g.GET(p, h(id), o...) }},
			"nested group":         {"/g/in", func(p, id string, o ...app.RouteOption) *route.Route { return gn.GET(p, h(id), o...) }},
			"version":              {"", func(p, id string, o ...app.RouteOption) *route.Route { return v1.GET(p, h(id), o...) }},
			"version group":        {"/vapi", func(p, id string, o ...app.RouteOption) *route.Route { return vg.GET(p, h(id), o...) }},
			"nested version group": {"/vapi/deep", func(p, id string, o ...app.RouteOption) *route.Route { return vgn.GET(p, h(id), o...) }},
		}
		var shapes []shapeT
		for _, w := range []string{"app", "group", "nested group", "version", "version group", "nested version group"} {
			tag := strings.ReplaceAll(w, " ", "")
			for _, pat := range []string{"/" + tag + "-plain", "/" + tag + "-slash/", "/" + tag + "-p/:id"} { // (a parameter route with a trailing slash is the route matcher's business: C01)
				shapes = append(shapes, shapeT{w, regs[w].reg, regs[w].prefix, pat})
			}
			if w != "app" && w != "version" {
				shapes = append(shapes, shapeT{w, regs[w].reg, regs[w].prefix, "/"}) // the group's root, with the slash
			}
		}
		reqPath := func(sh shapeT) string { return sh.prefix + strings.ReplaceAll(sh.pattern, ":id", "12") }
		// a start-up that fails before anything is served (an OnStart hook returns an error): no request has been handed
		// over, nobody called Freeze or Warmup — the configuration phase goes on (seeded C12-28)
		failed := false
		a.OnStart(func(context.Context) error {
			if !failed {
				failed = true
				return errors.New("dependency not ready (first attempt)")
			}
			return nil
		})
		if err := a.Start(context.Background()); err == nil {
			fail("app.Start with a failing OnStart hook returned nil")
		} else if a.Router().Frozen() {
			fail("a start-up that failed in an OnStart hook (%v) left the router frozen", err)
		}
		for i, sh := range shapes {
			id := "e" + strconv.Itoa(i)
			var rt *route.Route
			if panics(func() { rt = sh.reg(sh.pattern, id, app.WithDoc(openapi.WithSummary("early "+id))) }) {
				fail("early registration through %s of %q panicked", sh.where, sh.pattern)
				continue
			}
			if rt != nil && panics(func() { rt.SetName("n" + id) }) {
				fail("SetName on the early %s route %q panicked", sh.where, sh.pattern)
			}
		}
		// registration ORDER and overlapping shapes (seeded round 8): an explicit HEAD route before the GET route of the same
		// path; a version route and, later, app.Any for the same path; the root route next to a static tree served from the
		// root prefix; a named WhereInt route reversed with an integer beyond 63 bits
		type extraT struct{ method, path, ver, want string }
		var extras []extraT
		staticDir, _ := os.MkdirTemp("", "c12-static")
		defer os.RemoveAll(staticDir)
		_ = os.WriteFile(staticDir+"/index.html", []byte("index"), 0o644)
		_ = os.WriteFile(staticDir+"/f.txt", []byte("file"), 0o644)
		for n, f := range map[string]func(){
			"HEAD before GET":          func() { a.HEAD("/hg", h("x-head")); a.GET("/hg", h("x-get")) },
			"GET before HEAD":          func() { a.GET("/gh", h("x-get2")); a.HEAD("/gh", h("x-head2")) },
			"version route before Any": func() { a.Version("v2").GET("/status", h("x-v2")); a.Any("/status", h("x-any")) },
			"group HEAD before GET":    func() { g.HEAD("/hg", h("x-ghead")); g.GET("/hg", h("x-gget")) },
			"named WhereInt route":     func() { a.GET("/orders/:id", h("x-order")).WhereInt("id").SetName("Orders.get") },
		} {
			if panics(f) {
				fail("early registration (%s) panicked", n)
			}
		}
		extras = append(extras, extraT{"HEAD", "/hg", "", "x-head"}, extraT{"GET", "/hg", "", "x-get"}, extraT{"HEAD", "/gh", "", "x-head2"},
			extraT{"GET", "/gh", "", "x-get2"}, extraT{"GET", "/status", "", "x-any"}, extraT{"GET", "/status", "v2", "x-any"}, // (an unversioned route always wins: C13)
			extraT{"POST", "/status", "", "x-any"}, extraT{"HEAD", "/g/hg", "", "x-ghead"}, extraT{"GET", "/g/hg", "", "x-gget"},
			extraT{"GET", "/orders/18446744073709551615", "", "x-order"})
		for _, n := range names {
			if panics(hooks[n]) {
				fail("%s before the freeze panicked", n)
			}
		}
		checkExtras := func(when string) {
			for _, e := range extras {
				req := httptest.NewRequest(e.method, e.path, nil)
				if e.ver != "" {
					req.Header.Set("X-API-Version", e.ver)
				}
				rec := httptest.NewRecorder()
				a.Router().ServeHTTP(rec, req)
				if rec.Code != http.StatusOK || rec.Header().Get("X-Route") != e.want {
					fail("%s: %s %s (version %q) answered %d by %q, want 200 by %s", when, e.method, e.path, e.ver, rec.Code, rec.Header().Get("X-Route"), e.want)
				}
			}
			// a second, small app: the root route registered before a static tree served from the root prefix (the tree's
			// catch-all would shadow the version routes of the main app)
			if a2, err := app.New(app.WithServiceName("verif-c12s"), app.WithServiceVersion("v0.0.0")); err != nil {
				fail("app.New (static): %v", err)
			} else {
				if panics(func() { a2.GET("/", h("x-root")); a2.GET("/about", h("x-about")); a2.Static("/", staticDir) }) {
					fail("%s: root route + root static tree panicked", when)
				} else {
					for _, e := range []extraT{{"GET", "/", "", "x-root"}, {"GET", "/about", "", "x-about"}, {"GET", "/f.txt", "", ""}} {
						rec := httptest.NewRecorder()
						a2.Router().ServeHTTP(rec, httptest.NewRequest(e.method, e.path, nil))
						if rec.Code != http.StatusOK || rec.Header().Get("X-Route") != e.want {
							fail("%s: root static tree: GET %s answered %d by %q, want 200 by %q", when, e.path, rec.Code, rec.Header().Get("X-Route"), e.want)
						}
					}
				}
			}
			for _, v := range []string{"7", "18446744073709551615", "00012"} {
				u, err := a.URLFor("Orders.get", map[string]string{"id": v}, nil)
				if err != nil {
					fail("%s: app.URLFor(Orders.get, id=%s): %v (GET /orders/%s is routed)", when, v, err, v)
				} else if c, who := get(u); c != http.StatusOK || who != "x-order" {
					fail("%s: app.URLFor(Orders.get, id=%s) = %q routes back with %d to %q", when, v, u, c, who)
				}
			}
		}
		if viaRequest {
			if c, _ := get("/app-plain"); c != http.StatusOK {
				fail("first request answered %d", c)
			}
		} else {
			a.Router().Freeze()
		}
		specBefore := spec()
		checkExtras("after the freeze")
		for i, sh := range shapes {
			id := "e" + strconv.Itoa(i)
			if c, who := get(reqPath(sh)); c != http.StatusOK || who != id {
				fail("%s route %q registered before the freeze: GET %s answered %d by %q, want 200 by %s", sh.where, sh.pattern, reqPath(sh), c, who, id)
			}
			u, err := a.URLFor("n"+id, map[string]string{"id": "12"}, nil)
			if err != nil {
				fail("app.URLFor(n%s) for the %s route %q: %v", id, sh.where, sh.pattern, err)
			} else if c, who := get(u); c != http.StatusOK || who != id {
				fail("app.URLFor(n%s) = %q for the %s route %q routes back with %d to %q", id, u, sh.where, sh.pattern, c, who)
			}
			if !strings.Contains(specBefore, "early "+id) {
				fail("the documented early %s route %q is missing from the served specification", sh.where, sh.pattern)
			}
		}
		lateN := 0
		for _, w := range []string{"app", "group", "nested group", "version", "version group", "nested version group"} {
			tag := strings.ReplaceAll(w, " ", "")
			for _, pat := range []string{"/" + tag + "-late", "/" + tag + "-late/:id"} {
				lateN++
				id := "l" + strconv.Itoa(lateN)
				if !panics(func() { regs[w].reg(pat, id, app.WithDoc(openapi.WithSummary("late "+id))) }) {
					fail("registration through %s of %q after the freeze did not panic", w, pat)
				}
				if c, who := get(regs[w].prefix + strings.ReplaceAll(pat, ":id", "12")); c == http.StatusOK {
					fail("late %s route %q is routable (answered by %q)", w, pat, who)
				}
			}
		}
		if !panics(func() { a.Version("v2").GET("/v2-late", h("l-v2")) }) {
			fail("registration through a NEW version after the freeze did not panic")
		}
		for _, n := range names {
			if !panics(hooks[n]) {
				fail("%s after the freeze did not panic", n)
			}
		}
		// middleware added after serving began (app.Use, Group.Use, VersionGroup.Use are accepted by design): it must not
		// reach the chains of routes that are being served
		late := func(c *app.Context) { c.Response.Header().Set("X-Late-Middleware", "1"); c.Next() }
		for n, f := range map[string]func(){"app.Use": func() { a.Use(late) }, "Group.Use": func() { g.Use(late) }, "VersionGroup.Use": func() { vg.Use(late) }} {
			_ = panics(f) // accepted or rejected: both are allowed
			for _, sh := range shapes {
				rec := httptest.NewRecorder()
				a.Router().ServeHTTP(rec, httptest.NewRequest(http.MethodGet, reqPath(sh), nil))
				if rec.Header().Get("X-Late-Middleware") != "" {
					fail("%s after the freeze changed the chain of the %s route %q", n, sh.where, sh.pattern)
					break
				}
			}
		}
		if after := spec(); after != specBefore {
			what := "differs"
			if strings.Contains(after, "late l") {
				what = "advertises a rejected route"
			}
			fail("the specification the app serves changed after rejected late registrations (%s): %d -> %d bytes", what, len(specBefore), len(after))
		}
		for i, sh := range shapes {
			if c, who := get(reqPath(sh)); c != http.StatusOK || who != "e"+strconv.Itoa(i) {
				fail("after the late attempts: GET %s answered %d by %q", reqPath(sh), c, who)
			}
		}
		_ = seenT{}
	}
	l := hx.NewLine(id).Tok("S").Nat(0)
	in := l.String()
	l.Sep()
	if len(bad) == 0 {
		l.Tok("OK")
	} else {
		sort.Strings(bad)
		if len(bad) > 12 {
			bad = append(bad[:12], fmt.Sprintf("… %d more", len(bad)-12))
		}
		l.Tok("BAD").Str(strings.Join(bad, "; "))
	}
	if st != nil {
		st.Case(in[len(id):]+id, false)
		st.Count("app_level_runs")
	}
	return l.String() + hx.Comment(map[string]any{"Msg": bad})
}

// runBridge (finding K12f, open): after the first request the exported registrar-bridge methods of the router — the
// route.Registrar interface, which Route.RegisterRoute calls — are called DIRECTLY: Router.AddRouteToTree (which = 0) /
// Router.AddVersionRoute (which = 1). Observed: did the call panic, is the route routable afterwards.
func runBridge(id string, which int, st *hx.Stats) string {
	r := router.MustNew(router.WithVersioning(version.WithHeaderDetection("X-API-Version"), version.WithDefault("v1")))
	h := router.HandlerFunc(func(c *router.Context) { _ = c.String(http.StatusOK, "ok") })
	r.GET("/r1/:id", h)
	get := func(p string) int {
		rec := httptest.NewRecorder()
		r.ServeHTTP(rec, httptest.NewRequest(http.MethodGet, p, nil))
		return rec.Code
	}
	get("/r1/12") // serving has begun
	panicked := panics(func() {
		if which == 0 {
			r.AddRouteToTree("GET", "/r2/:id", []route.Handler{h}, nil)
		} else {
			r.AddVersionRoute("v1", "GET", "/r2/:id", []route.Handler{h}, nil)
		}
	})
	served := get("/r2/12") == http.StatusOK
	l := hx.NewLine(id).Tok("B").Nat(which)
	in := l.String()
	l.Sep().Bool(panicked).Bool(served)
	if st != nil {
		st.Case(in[len(id):], false)
		st.Count("direct_registrar_bridge_call_after_freeze")
	}
	return l.String() + hx.Comment(map[string]any{"Bridge": which})
}

// ---------------------------------------------------------------- unscheduled kinds run in a child process

// stressLine renders one unscheduled observation: the harness judged interleaving-independent facts itself.
func stressLine(id string, n int, bad []string, recipe any, st *hx.Stats, counter string) string {
	l := hx.NewLine(id).Tok("S").Nat(n)
	in := l.String()
	l.Sep()
	if len(bad) == 0 {
		l.Tok("OK")
	} else {
		sort.Strings(bad)
		if len(bad) > 6 {
			bad = append(bad[:6], fmt.Sprintf("… %d more", len(bad)-6))
		}
		l.Tok("BAD").Str(strings.Join(bad, "; "))
	}
	if st != nil {
		st.Case(in[len(id):]+id, false)
		st.Count(counter)
	}
	return l.String() + hx.Comment(map[string]any{"Stress": recipe, "Msg": bad})
}

type stressRecipe struct {
	Kind string
	Seed uint64
	N    int
}

// runInflight (seeded change C12-2 class): explicit Warmup(), then a goroutine registers fresh routes until
// it is rejected while another freezes the router (Freeze() or the first request) as soon as it sees — through
// the public Routes() — that one more registration has been admitted, and probes the routes in flight right
// after the freeze. For EVERY interleaving on a correct router: a registration that returned normally is
// routable from the moment the freeze returned (it was admitted and written into the tree under the mutex
// under which Freeze stores its flags), a registration that panicked is never routable, and no route answers
// 404 after the freeze and 200 later. Sound; only the detection power is a matter of chance.
func runInflight(id string, seed uint64, trials int, st *hx.Stats) string {
	r := hx.NewRand(seed)
	var bad []string
	hit := 0
	for t := 0; t < trials && len(bad) < 8; t++ {
		opts := []router.Option{router.WithVersioning(version.WithHeaderDetection("X-API-Version"), version.WithDefault("v1"))}
		if r.Chance(1, 2) {
			opts = append(opts, router.WithRouteCompilation(true))
		}
		rt := router.MustNew(opts...)
		nmw := hx.Pick(r, []int{0, 50, 400})
		for i := 0; i < nmw; i++ { // the tree insertion copies the global middleware: a longer way from "admitted" to "written"
			rt.Use(func(c *router.Context) { c.Next() })
		}
		h := func(c *router.Context) { _ = c.String(http.StatusOK, "ok") }
		grp := rt.Group("/g")
		v1 := rt.Version("v1")
		rt.GET("/r0/:id", h)
		rt.Warmup()
		kind := r.Intn(3)
		path := func(k int) string {
			if kind == 1 {
				return "/g/f" + strconv.Itoa(k) + "/12"
			}
			return "/f" + strconv.Itoa(k) + "/12"
		}
		get := func(p string) int {
			rec := httptest.NewRecorder()
			rt.ServeHTTP(rec, httptest.NewRequest(http.MethodGet, p, nil))
			return rec.Code
		}
		const maxK = 48
		var started atomic.Int64
		accepted := make([]bool, maxK+2)
		viaRequest := r.Chance(1, 2)
		waitFor := r.Range(1, 6)
		var wg sync.WaitGroup
		wg.Add(2)
		go func() {
			defer wg.Done()
			for k := 1; k <= maxK; k++ {
				started.Store(int64(k))
				pat := "/f" + strconv.Itoa(k) + "/:id"
				ok := !panics(func() {
					switch kind {
					case 0:
						rt.GET(pat, h)
					case 1:
						grp.GET(pat, h)
					default:
						v1.GET(pat, h)
					}
				})
				if !ok {
					return
				}
				accepted[k] = true
			}
		}()
		type probeT struct{ k, code int }
		var probes []probeT
		go func() {
			defer wg.Done()
			for len(rt.Routes()) < 1+waitFor && started.Load() < maxK { // registration number waitFor has been admitted
			}
			if viaRequest {
				get("/r0/12")
			} else {
				rt.Freeze()
			}
			k := int(started.Load())
			for _, kk := range []int{k, k - 1, k + 1} {
				if kk >= 1 && kk <= maxK {
					probes = append(probes, probeT{kk, get(path(kk))})
				}
			}
		}()
		wg.Wait()
		for _, p := range probes {
			final := get(path(p.k))
			switch {
			case accepted[p.k] && p.code != http.StatusOK:
				bad = append(bad, fmt.Sprintf("trial %d: registration %d returned normally but the route answered %d right after the freeze (now %d)", t, p.k, p.code, final))
			case p.code != http.StatusOK && final == http.StatusOK:
				bad = append(bad, fmt.Sprintf("trial %d: route %d answered %d after the freeze and 200 later", t, p.k, p.code))
			case !accepted[p.k] && final == http.StatusOK:
				bad = append(bad, fmt.Sprintf("trial %d: registration %d was rejected but the route is routable", t, p.k))
			}
			if accepted[p.k] {
				hit++
			}
		}
		for k := 1; k <= maxK; k++ {
			if c := get(path(k)); accepted[k] != (c == http.StatusOK) {
				bad = append(bad, fmt.Sprintf("trial %d: registration %d accepted=%v but the route answers %d", t, k, accepted[k], c))
				break
			}
		}
	}
	if st != nil {
		st.Counters["inflight_probes_of_accepted_routes"] += hit
	}
	return stressLine(id, trials, bad, stressRecipe{"inflight", seed, trials}, st, "inflight_batches")
}

// runRewarm (seeded change C12-4 class): Warmup() is called again and again — before serving from two goroutines
// racing the first requests, and after serving began — while requests hit static routes, unknown paths and wrong
// methods (the 404/405 handling reads the compiled tables). Freeze and Warmup are idempotent: every answer
// is what the table registered before says, and nothing crashes. A Go runtime `fatal error: concurrent map …`
// cannot be recovered: this kind runs in a child process and the parent reports the crash.
func runRewarm(id string, seed uint64, trials int, st *hx.Stats) string {
	r := hx.NewRand(seed)
	var mu sync.Mutex
	var bad []string
	fail := func(f string, a ...any) { mu.Lock(); bad = append(bad, fmt.Sprintf(f, a...)); mu.Unlock() }
	for t := 0; t < trials && len(bad) < 8; t++ {
		opts := []router.Option{router.WithVersioning(version.WithHeaderDetection("X-API-Version"), version.WithDefault("v1"))}
		if r.Chance(1, 2) {
			opts = append(opts, router.WithRouteCompilation(true))
		}
		rt := router.MustNew(opts...)
		h := func(c *router.Context) { _ = c.String(http.StatusOK, "ok") }
		hp := func(p string) router.HandlerFunc {
			// every static route answers with its own path (a request answered by ANOTHER route's handler is a wrong table too)
			return func(c *router.Context) {
				c.Response.Header().Set("X-Own", p)
				h(c)
			}
		}
		v1 := rt.Version("v1")
		for i := 0; i < 24; i++ {
			rt.GET("/s"+strconv.Itoa(i), hp("/s"+strconv.Itoa(i)))
			rt.POST("/p"+strconv.Itoa(i), hp("/p"+strconv.Itoa(i)))
			v1.GET("/v"+strconv.Itoa(i), hp("/v"+strconv.Itoa(i)))
		}
		rt.GET("/r0/:id", h)
		do := func(m, p string) int {
			rec := httptest.NewRecorder()
			rt.ServeHTTP(rec, httptest.NewRequest(m, p, nil))
			if own := rec.Header().Get("X-Own"); rec.Code == http.StatusOK && own != "" && own != p {
				return 1000 // answered by the handler of another route
			}
			return rec.Code
		}
		if r.Chance(1, 2) {
			rt.Warmup()
		}
		if r.Chance(1, 2) {
			do("GET", "/s0") // serving has begun before the repeated warm-ups
		}
		var wg sync.WaitGroup
		start := make(chan struct{})
		for g := 0; g < 2; g++ {
			wg.Add(1)
			go func() {
				defer wg.Done()
				<-start
				for i := 0; i < 40; i++ {
					rt.Warmup()
					if i%8 == 0 {
						rt.Freeze()
					}
				}
			}()
		}
		for g := 0; g < 2; g++ {
			wg.Add(1)
			go func(g int) {
				defer wg.Done()
				<-start
				for i := 0; i < 60; i++ {
					j := strconv.Itoa((i + g) % 24)
					checks := []struct {
						m, p string
						want int
					}{{"GET", "/s" + j, 200}, {"GET", "/v" + j, 200}, {"GET", "/nope" + j, 404}, {"GET", "/p" + j, 405}, {"POST", "/s" + j, 405}, {"GET", "/r0/7", 200}}
					for _, c := range checks {
						if got := do(c.m, c.p); got != c.want {
							fail("trial %d: %s %s answered %d, want %d", t, c.m, c.p, got, c.want)
							return
						}
					}
				}
			}(g)
		}
		// … and goroutines that only ask for static routes of ONE table each (the version's compiled table / the main
		// one) in a tight loop, from the racing first request on: every answer must come from the route's own handler
		// (seeded C12-26: scratch state of the compiled table shared under its read lock)
		for g := 0; g < 4; g++ {
			wg.Add(1)
			go func(g int) {
				defer wg.Done()
				<-start
				pre := []string{"/v", "/s"}[g%2]
				for i := 0; i < 1500; i++ {
					p := pre + strconv.Itoa((i*7+g*5)%24)
					if got := do("GET", p); got != 200 {
						fail("trial %d: GET %s answered %d (1000 = by the handler of another route) while other requests hit the same table", t, p, got)
						return
					}
				}
			}(g)
		}
		close(start)
		wg.Wait()
	}
	return stressLine(id, trials, bad, stressRecipe{"rewarm", seed, trials}, st, "rewarm_batches")
}

// runURLConc (seeded change C12-15 class): after the freeze G goroutines build links to ONE named route at the same
// time, each with its own parameter values (different lengths, characters that PathEscape rewrites). URLFor is a
// function of (route, values): every call must return the URL the same call returned sequentially before — that URL
// was fed back into ServeHTTP and bound every parameter to the value given. A differing URL is fed back too: the
// message says which parameters the route then sees. Sound for every interleaving; detection power is a matter of
// chance (shared scratch state inside the pattern is hit within a few hundred calls at GOMAXPROCS >= 2).
func runURLConc(id string, seed uint64, trials int, st *hx.Stats) string {
	r := hx.NewRand(seed)
	var mu sync.Mutex
	var bad []string
	fail := func(f string, a ...any) { mu.Lock(); bad = append(bad, fmt.Sprintf(f, a...)); mu.Unlock() }
	calls := 0
	for t := 0; t < trials && len(bad) < 4; t++ {
		rt := router.MustNew(router.WithRouteCompilation(r.Chance(1, 2)))
		np := r.Range(1, 3)
		pat := ""
		var names []string
		for i := 0; i < np; i++ {
			if r.Chance(1, 2) {
				pat += "/s" + strconv.Itoa(i)
			}
			names = append(names, "p"+strconv.Itoa(i))
			pat += "/:p" + strconv.Itoa(i)
		}
		if r.Chance(1, 3) {
			pat += "/tail"
		}
		type seenT struct{ vals map[string]string }
		seenKey := struct{}{}
		rt.GET(pat, func(c *router.Context) {
			if sp, ok := c.Request.Context().Value(seenKey).(*seenT); ok {
				for _, n := range names {
					sp.vals[n] = c.Param(n)
				}
			}
			_ = c.String(http.StatusOK, "ok")
		}).SetName("link")
		rt.GET("/other/:x", func(c *router.Context) { _ = c.String(http.StatusOK, "other") }).SetName("other")
		if r.Chance(1, 2) {
			rt.Freeze()
		} else {
			rt.ServeHTTP(httptest.NewRecorder(), httptest.NewRequest(http.MethodGet, "/other/1", nil))
		}
		back := func(u string) (int, map[string]string) {
			sp := &seenT{vals: map[string]string{}}
			pu, perr := url.ParseRequestURI(u)
			if perr != nil {
				return -1, nil // not even a request target
			}
			req := httptest.NewRequest(http.MethodGet, "/", nil)
			req.URL = pu
			req = req.WithContext(context.WithValue(req.Context(), seenKey, sp))
			rec := httptest.NewRecorder()
			rt.ServeHTTP(rec, req)
			return rec.Code, sp.vals
		}
		G := min(max(runtime.GOMAXPROCS(0), 2), 8)
		pool := []string{"7", "42", "alice", "bob-the-builder", "a b", "x%y", "ü", "0123456789012345678901234567890123456789", "Z", "q?r", "#1", "long-value-with-many-characters-to-grow-the-buffer"}
		params := make([]map[string]string, G)
		want := make([]string, G)
		okSeq := true
		for g := 0; g < G; g++ {
			params[g] = map[string]string{}
			for _, n := range names {
				params[g][n] = hx.Pick(r, pool) + strconv.Itoa(g)
			}
			u, err := rt.URLFor("link", params[g], nil)
			if err != nil {
				fail("trial %d: sequential URLFor(link, %v) failed: %v", t, params[g], err)
				okSeq = false
				break
			}
			code, got := back(u)
			if code != http.StatusOK || fmt.Sprint(got) != fmt.Sprint(params[g]) {
				fail("trial %d: sequential URLFor(link, %v) = %q routes back with status %d and parameters %v", t, params[g], u, code, got)
				okSeq = false
				break
			}
			want[g] = u
		}
		if !okSeq {
			continue
		}
		var wg sync.WaitGroup
		start := make(chan struct{})
		var stop atomic.Bool
		var n atomic.Int64
		for g := 0; g < G; g++ {
			wg.Add(1)
			go func(g int) {
				defer wg.Done()
				<-start
				for i := 0; i < 2000 && !stop.Load(); i++ {
					var u string
					var err error
					if p := recover2(func() { u, err = rt.URLFor("link", params[g], nil) }); p != nil {
						fail("trial %d: concurrent URLFor(link, %v) panicked: %v", t, params[g], p)
						stop.Store(true)
						return
					}
					n.Add(1)
					if err != nil || u != want[g] {
						code, got := back(u)
						fail("trial %d pattern %s: URLFor(link, %v) returned %q (err %v) while %d goroutines build links to the same route; sequentially it returns %q; fed back it answers %d with parameters %v", t, pat, params[g], u, err, G, want[g], code, got)
						stop.Store(true)
						return
					}
				}
			}(g)
		}
		close(start)
		wg.Wait()
		calls += int(n.Load())
	}
	if st != nil {
		st.Counters["urlconc_concurrent_urlfor_calls"] += calls
	}
	return stressLine(id, trials, bad, stressRecipe{"urlconc", seed, trials}, st, "urlconc_batches")
}

func recover2(f func()) (p any) {
	defer func() { p = recover() }()
	f()
	return nil
}

// stressChild is the body of the child process: one kind, lines flushed one by one.
func stressChild(kind string, seed uint64, n int, w *bufio.Writer) {
	st := hx.NewStats()
	out := func(l string) { fmt.Fprintln(w, l); w.Flush() }
	switch kind {
	case "late":
		r := hx.NewRand(seed)
		for i := 0; i < n; i++ {
			out(runStress(fmt.Sprintf("c12s-%d-%d", seed, i), r, st))
		}
	case "inflight":
		for b := 0; b*100 < n; b++ {
			out(runInflight(fmt.Sprintf("c12i-%d-%d", seed, b), seed*1000+uint64(b), min(100, n-b*100), st))
		}
	case "rewarm":
		for b := 0; b*10 < n; b++ {
			out(runRewarm(fmt.Sprintf("c12w-%d-%d", seed, b), seed*1000+uint64(b), min(10, n-b*10), st))
		}
	case "urlconc":
		for b := 0; b*10 < n; b++ {
			out(runURLConc(fmt.Sprintf("c12l-%d-%d", seed, b), seed*1000+uint64(b), min(10, n-b*10), st))
		}
	}
	st.Emit(w)
	w.Flush()
}

// spawnStress runs one unscheduled kind in a child process (a Go runtime fatal error — concurrent map access —
// or a -race exit would otherwise take the whole harness output with it) and relays its lines. A child that
// dies or hangs is itself the observation: one BAD line carrying the tail of its stderr, recipe in the comment.
func spawnStress(kind string, seed uint64, n int, w *bufio.Writer, st *hx.Stats) {
	if n <= 0 {
		return
	}
	cmd := exec.Command(os.Args[0], "stress", "-seed", strconv.FormatUint(seed, 10), "-n", strconv.Itoa(n), "-tier", kind)
	var stdout, stderr strings.Builder
	cmd.Stdout, cmd.Stderr = &stdout, &stderr
	done := make(chan error, 1)
	if err := cmd.Start(); err != nil {
		fmt.Fprintln(w, stressLine(fmt.Sprintf("c12x-%d-%s", seed, kind), n, []string{"cannot start the stress child: " + err.Error()}, stressRecipe{kind, seed, n}, st, "stress_child_failed"))
		return
	}
	go func() { done <- cmd.Wait() }()
	var werr error
	hung := false
	select {
	case werr = <-done:
	case <-time.After(90 * time.Second):
		hung = true
		_ = cmd.Process.Kill()
		werr = <-done
	}
	for _, l := range strings.Split(stdout.String(), "\n") {
		if strings.HasPrefix(l, "#stats ") {
			var m struct {
				Counters map[string]int `json:"counters"`
			}
			if json.Unmarshal([]byte(l[7:]), &m) == nil {
				for k, v := range m.Counters {
					st.Counters[k] += v
				}
			}
			continue
		}
		if l != "" {
			fmt.Fprintln(w, l)
			f := strings.Fields(l)
			st.Case(f[0], false)
		}
	}
	if werr != nil || hung {
		msg := "stress child (" + kind + ") "
		if hung {
			msg += "hung for 90 s and was killed"
		} else {
			msg += "died: " + werr.Error()
		}
		tail := stderr.String()
		if i := strings.Index(tail, "fatal error:"); i >= 0 {
			tail = tail[i:]
		} else if i := strings.Index(tail, "WARNING: DATA RACE"); i >= 0 {
			tail = tail[i:]
		}
		lines := strings.Split(tail, "\n")
		if len(lines) > 14 {
			lines = lines[:14]
		}
		msg += " | " + strings.Join(lines, " | ")
		fmt.Fprintln(w, stressLine(fmt.Sprintf("c12x-%d-%s", seed, kind), n, []string{msg}, stressRecipe{kind, seed, n}, st, "stress_child_failed"))
	}
}

// ---------------------------------------------------------------- main

const urlOn = true

func main() {
	a := hx.ParseArgs()
	w := hx.Out()
	defer w.Flush()
	switch a.Cmd {
	case "gen":
		r := hx.NewRand(a.Seed)
		st := hx.NewStats()
		n := 0
		emit := func(k caseT) {
			if sawDeadlock {
				return
			}
			if n%5 == 4 {
				k.Comp = true // compiled route matching in front of the trees (opt-in configuration)
			}
			if n%8 == 1 {
				k.App = true // the same through the app layer
			}
			fmt.Fprintln(w, runPhases(fmt.Sprintf("c12-%d-%d", a.Seed, n), k, st))
			n++
		}
		for i, k := range fixedPhases() {
			fmt.Fprintln(w, runPhases(fmt.Sprintf("c12-fix-%d", i), k, st))
			if !k.Comp && !sawDeadlock {
				k.Comp = true
				fmt.Fprintln(w, runPhases(fmt.Sprintf("c12-fixc-%d", i), k, st))
				k.Comp = false
			}
			if !sawDeadlock {
				k.App = true
				fmt.Fprintln(w, runPhases(fmt.Sprintf("c12-fixa-%d", i), k, st))
			}
		}
		familyOne(emit)
		budget := a.N
		familyTwo(r, budget/2, emit)
		familyRandom(r, budget/2, emit)
		for i := 0; i < budget && urlOn; i++ {
			fmt.Fprintln(w, runURL(fmt.Sprintf("c12u-%d-%d", a.Seed, i), genURLCase(r), st))
		}
		fmt.Fprintln(w, runBridge("c12b-0", 0, st))
		fmt.Fprintln(w, runBridge("c12b-1", 1, st))
		fmt.Fprintln(w, runApp("c12a-0", false, st))
		fmt.Fprintln(w, runApp("c12a-1", true, st))
		// unscheduled kinds, each in its own child process
		nLate, nInflight, nRewarm, nURLConc := budget/10, 1500, 40, 30
		if a.Tier == "thorough" && budget >= 6000 { // not for the 3x-budget search runs of an alarming quick check
			nLate, nInflight, nRewarm, nURLConc = budget/2, 6000, 200, 200
		}
		if !sawDeadlock {
			w.Flush()
			spawnStress("urlconc", a.Seed, nURLConc, w, st)
			spawnStress("rewarm", a.Seed, nRewarm, w, st)
			spawnStress("inflight", a.Seed, nInflight, w, st)
			spawnStress("late", a.Seed, nLate, w, st)
		}
		st.Emit(w)
	case "stress":
		stressChild(a.Tier, a.Seed, a.N, w)
	case "replay":
		for _, line := range hx.StdinLines() {
			f := strings.Fields(line)
			if len(f) > 1 && f[1] == "S" && !strings.HasPrefix(f[0], "c12a") {
				var rc struct{ Stress stressRecipe }
				if _, err := hx.CaseFromComment(line, &rc); err == nil && rc.Stress.Kind != "" {
					// re-run the recipe (in a child again); report the line with this id, or the child's failure
					var sb strings.Builder
					bw := bufio.NewWriter(&sb)
					st := hx.NewStats()
					seed := rc.Stress.Seed
					if strings.HasPrefix(f[0], "c12x") {
						spawnStress(rc.Stress.Kind, seed, rc.Stress.N, bw, st)
					} else {
						switch rc.Stress.Kind {
						case "inflight":
							fmt.Fprintln(bw, runInflight(f[0], seed, rc.Stress.N, nil))
						case "urlconc":
							fmt.Fprintln(bw, runURLConc(f[0], seed, rc.Stress.N, nil))
						case "rewarm":
							var one strings.Builder
							ob := bufio.NewWriter(&one)
							spawnStress("rewarm", seed/1000, 10*int(seed%1000+1), ob, st)
							ob.Flush()
							fmt.Fprint(bw, one.String())
						}
					}
					bw.Flush()
					printed := false
					for _, l := range strings.Split(sb.String(), "\n") {
						if strings.HasPrefix(l, f[0]+" ") || strings.HasPrefix(l, "c12x") {
							fmt.Fprintln(w, l)
							printed = true
						}
					}
					if !printed {
						fmt.Fprintln(w, stressLine(f[0], rc.Stress.N, nil, rc.Stress, nil, ""))
					}
					continue
				}
			}
			if len(f) > 2 && f[1] == "B" {
				fmt.Fprintln(w, runBridge(f[0], map[string]int{"0": 0, "1": 1}[f[2]], nil))
				continue
			}
			if len(f) > 1 && f[1] == "S" && strings.HasPrefix(f[0], "c12a") {
				fmt.Fprintln(w, runApp(f[0], strings.HasSuffix(f[0], "1"), nil))
				continue
			}
			if len(f) > 1 && f[1] == "S" {
				fmt.Fprintln(w, runStress(f[0], hx.NewRand(uint64(len(line))), nil)) // unscheduled: any seed will do
				continue
			}
			if len(f) > 1 && f[1] == "U" {
				var u urlCaseT
				id, err := hx.CaseFromComment(line, &u)
				if err != nil {
					fmt.Fprintf(w, "# cannot replay %q: %v\n", id, err)
					continue
				}
				fmt.Fprintln(w, runURL(id, u, nil))
				continue
			}
			var k caseT
			id, err := hx.CaseFromComment(line, &k)
			if err != nil {
				fmt.Fprintf(w, "# cannot replay %q: %v\n", id, err)
				continue
			}
			fmt.Fprintln(w, runPhases(id, k, nil))
		}
	}
}
