// Harness for C02 (handler chains). A case = a configuration script (router / app API calls), the
// behaviour of every instrumented handler, and one route of router 0 to request. The real router
// is built from the script through the public API; the request is served twice: once with the
// behaviours (enter/exit trace, status, body) and once as a probe in which every handler passes
// through, which shows the composed chain itself.
package main

import (
	"fmt"
	"io"
	"log/slog"
	"sort"
	"strconv"

	cx "verif/harness/chainx"
	"verif/harness/hx"
)

type caseT struct {
	Check    bool `json:"check"`
	Compiled bool `json:"compiled"`
	// NoRoute: a custom NoRoute handler that aborts is installed and an unmatched request is served
	// right before the request of the case (same pooled context); Tracing: app with tracing on.
	// Both are configuration the model says is irrelevant to the chain.
	NoRoute bool `json:"noroute"`
	Tracing bool `json:"tracing"`
	// FailW: every body write reports an error (broken pipe) after the bytes were taken
	FailW  bool `json:"failw,omitempty"`
	Health bool `json:"health,omitempty"` // app with app.WithHealthEndpoints()
	// Timeout > 0 (router world, no mounts): a timeout middleware with this real budget in ms (silent timeout
	// handler) is the first global middleware; the behaviours are free of writes, act T overruns the budget
	Timeout int       `json:"timeout,omitempty"`
	Script  []cx.Op   `json:"script"`
	Beh     []cx.Beh  `json:"beh"`
	Target  cx.Target `json:"target"`
}

// ---------------------------------------------------------------- generator

type entry struct {
	mounts []int
	route  int
	path   []int
	ver    int
}

type gen struct {
	nSpecial int
	vpaths   map[int]map[int]bool // URL path tag of a direct version route -> versions that declare it
	vorder   []int
	nAlias   int
	r        *hx.Rand
	script   []cx.Op
	nextH    int
	nextSeg  int
	nRouters int
	app      bool
	groups   []struct {
		router int
		path   []int
	}
	vrouters []struct{ router, ver int }
	vgroups  []struct {
		vr   int
		path []int
	}
	agroups  []struct{ path []int }
	avgroups []struct {
		vr   int
		path []int
	}
	arrays map[int]cx.Op // shared caller arrays of app.Group: id -> the first AG op using it
	routes map[int][]entry
	st     *hx.Stats
	decls  []decl
	theme  string // mixed | mount | alias
}

func (g *gen) hs(lo, hi int) []int {
	n := g.r.Range(lo, hi)
	out := make([]int, n)
	for i := range out {
		g.nextH++
		out[i] = g.nextH
	}
	return out
}

func (g *gen) seg() int {
	// one segment in twelve is a path that means something elsewhere in the framework (/health, /metrics, /debug, /admin …)
	if g.nSpecial < len(cx.SpecialNames) && g.r.Chance(1, 12) {
		g.nSpecial++
		return cx.SpecialSeg + g.nSpecial - 1
	}
	g.nextSeg++
	return g.nextSeg
}

// vseg: the segment of a route declared directly on a version router — one in two re-uses the URL path of
// a route of ANOTHER version (cx.AliasSeg: the model keeps the tags apart, the router sees the same path
// in two version trees)
func (g *gen) vseg(ver int) int {
	if g.vpaths == nil {
		g.vpaths = map[int]map[int]bool{}
	}
	sg := g.seg()
	if g.r.Chance(1, 2) {
		for _, base := range g.vorder {
			if !g.vpaths[base][ver] {
				g.nAlias++
				sg = cx.AliasSeg*g.nAlias + base
				g.vpaths[base][ver] = true
				return sg
			}
		}
	}
	g.vpaths[sg] = map[int]bool{ver: true}
	g.vorder = append(g.vorder, sg)
	return sg
}

// nseg: the segment of a nested group — one in three is the empty prefix `Group("")` (an invisible
// tag: the model keeps it in the path, the request path does not show it)
func (g *gen) nseg() int {
	s := g.seg()
	if g.r.Chance(1, 3) {
		return cx.InvisibleSeg + s
	}
	return s
}

func cat(a []int, b ...int) []int { return append(append([]int{}, a...), b...) }

func (g *gen) add(o cx.Op) int {
	g.script = append(g.script, o)
	if g.st != nil {
		g.st.Count("op_" + o.K)
	}
	return len(g.script) - 1
}

func (g *gen) addEntry(r int, e entry) {
	g.routes[r] = append(g.routes[r], e)
	if len(e.mounts) == 0 { // a declaration (not a mounted copy): a Route object `Where…` can be called on
		g.decls = append(g.decls, decl{e.route, r, e.ver, e.path})
		if g.r.Chance(1, 5) {
			g.script[e.route].Cons = g.r.Range(1, 2)
		}
	}
}

type decl struct {
	idx, router, ver int
	path             []int
}

// whereOn adds `Where…` calls on routes that were declared on router rt (re-registration when
// the router is already warmed up)
func (g *gen) whereOn(rt int, n int) {
	var ds []decl
	for _, d := range g.decls {
		// main-tree routes only: a version-tree route that was registered at warm-up is served from
		// the per-version compiled table built then, which a later re-registration does not refresh
		// (C11/C13 territory; recorded in notes/C02.md)
		if d.router == rt && d.ver < 0 {
			ds = append(ds, d)
		}
	}
	for ; n > 0 && len(ds) > 0; n-- {
		d := hx.Pick(g.r, ds)
		g.add(cx.Op{K: "WH", A: d.router, Ver: d.ver, RI: d.idx, P: d.path})
	}
}

type choice struct {
	w int
	f func()
}

func (g *gen) step() {
	r := g.r
	var cs []choice
	add := func(w int, ok bool, f func()) {
		if ok {
			cs = append(cs, choice{w, f})
		}
	}
	anyRouter := func() int {
		if g.theme == "mount" && g.nRouters > 1 && r.Chance(2, 3) {
			return r.Range(1, g.nRouters-1)
		}
		return r.Intn(g.nRouters)
	}
	mw := 10 // weight of Mount
	if g.theme == "mount" {
		mw = 30
	}
	subRouter := func() int { return r.Range(1, g.nRouters-1) }
	add(6, g.nRouters < 3, func() { g.add(cx.Op{K: "NR"}); g.nRouters++ })
	add(mw, g.nRouters > 1, func() {
		p := r.Intn(g.nRouters - 1)
		if r.Chance(1, 2) {
			p = 0
		}
		g.mount(p, r.Range(p+1, g.nRouters-1))
	})
	add(5, true, func() {
		rt := anyRouter()
		g.add(cx.Op{K: "W", A: rt})
		// the window the seeded "re-registration" class lives in: warmed up, not yet frozen
		if r.Chance(1, 2) {
			if r.Chance(1, 2) && !g.app {
				g.add(cx.Op{K: "U", A: rt, Hs: g.hs(1, 1)})
			}
			g.whereOn(rt, r.Range(1, 2))
		}
	})
	add(3, len(g.decls) > 0, func() { g.whereOn(hx.Pick(r, g.decls).router, 1) })
	if !g.app {
		add(14, true, func() { g.add(cx.Op{K: "U", A: anyRouter(), Hs: g.hs(1, 2)}) })
		add(10, true, func() {
			rt, sg := anyRouter(), g.seg()
			g.add(cx.Op{K: "G", A: rt, Seg: sg, Hs: g.hs(0, 2)})
			g.groups = append(g.groups, struct {
				router int
				path   []int
			}{rt, []int{sg}})
		})
		add(9, len(g.groups) > 0, func() {
			p, sg := r.Intn(len(g.groups)), g.nseg()
			g.add(cx.Op{K: "SG", A: p, Seg: sg, Hs: g.hs(0, 2)})
			g.groups = append(g.groups, struct {
				router int
				path   []int
			}{g.groups[p].router, cat(g.groups[p].path, sg)})
		})
		add(9, len(g.groups) > 0, func() { g.add(cx.Op{K: "GU", A: r.Intn(len(g.groups)), Hs: g.hs(1, 2)}) })
		add(4, len(g.vrouters) < 2, func() {
			v := len(g.vrouters) + 1
			g.add(cx.Op{K: "V", A: 0, Ver: v})
			g.vrouters = append(g.vrouters, struct{ router, ver int }{0, v})
		})
		add(5, len(g.vrouters) > 0, func() {
			v, sg := r.Intn(len(g.vrouters)), g.seg()
			g.add(cx.Op{K: "VG", A: v, Seg: sg, Hs: g.hs(0, 2)})
			g.vgroups = append(g.vgroups, struct {
				vr   int
				path []int
			}{v, []int{sg}})
		})
		add(24, true, func() { g.routeOp() })
	} else {
		add(10, true, func() { g.add(cx.Op{K: "AU", Hs: g.hs(1, 2)}) })
		add(4, g.nRouters > 1, func() { g.add(cx.Op{K: "U", A: subRouter(), Hs: g.hs(1, 2)}) })
		add(3, true, func() { g.add(cx.Op{K: "U", A: 0, Hs: g.hs(1, 1)}) })
		add(13, true, func() {
			sg := g.seg()
			o := cx.Op{K: "AG", Seg: sg}
			switch {
			case len(g.arrays) > 0 && r.Chance(3, 5): // a sibling built from the same caller slice
				ids := make([]int, 0, len(g.arrays))
				for id := range g.arrays {
					ids = append(ids, id)
				}
				sort.Ints(ids)
				first := g.arrays[hx.Pick(r, ids)]
				o.Hs, o.B, o.Cap = first.Hs, first.B, first.Cap
			case r.Chance(1, 2): // a caller slice with spare capacity
				o.Hs = g.hs(0, 2)
				o.B = len(g.arrays) + 1
				o.Cap = len(o.Hs) + r.Range(1, 3)
				g.arrays[o.B] = o
			default:
				o.Hs = g.hs(0, 2)
			}
			g.add(o)
			g.agroups = append(g.agroups, struct{ path []int }{[]int{sg}})
		})
		add(8, len(g.agroups) > 0, func() {
			p, sg := r.Intn(len(g.agroups)), g.nseg()
			g.add(cx.Op{K: "ASG", A: p, Seg: sg, Hs: g.hs(0, 2)})
			g.agroups = append(g.agroups, struct{ path []int }{cat(g.agroups[p].path, sg)})
		})
		add(12, len(g.agroups) > 0, func() { g.add(cx.Op{K: "AGU", A: r.Intn(len(g.agroups)), Hs: g.hs(1, 2)}) })
		add(4, len(g.vrouters) < 2, func() {
			v := len(g.vrouters) + 1
			g.add(cx.Op{K: "AV", Ver: v})
			g.vrouters = append(g.vrouters, struct{ router, ver int }{0, v})
			g.avgroups = append(g.avgroups, struct {
				vr   int
				path []int
			}{len(g.vrouters) - 1, nil})
		})
		add(4, len(g.avgroups) > 0, func() {
			p, sg := r.Intn(len(g.avgroups)), g.nseg()
			g.add(cx.Op{K: "AVSG", A: p, Seg: sg, Hs: g.hs(0, 2)})
			g.avgroups = append(g.avgroups, struct {
				vr   int
				path []int
			}{g.avgroups[p].vr, cat(g.avgroups[p].path, sg)})
		})
		add(5, len(g.avgroups) > 0, func() { g.add(cx.Op{K: "AVU", A: r.Intn(len(g.avgroups)), Hs: g.hs(1, 2)}) })
		add(24, true, func() { g.arouteOp() })
		add(6, g.nRouters > 1, func() { // a plain route on a sub-router, to be mounted
			rt, sg := subRouter(), g.seg()
			i := g.add(cx.Op{K: "R", OK: "r", A: rt, Seg: sg, Hs: g.hs(1, 2)})
			g.addEntry(rt, entry{nil, i, []int{sg}, -1})
		})
	}
	tot := 0
	for _, c := range cs {
		tot += c.w
	}
	k := r.Intn(tot)
	for _, c := range cs {
		if k < c.w {
			c.f()
			return
		}
		k -= c.w
	}
}

func (g *gen) mount(p, s int) {
	r := g.r
	sg := g.seg()
	var extra []int
	if r.Chance(1, 3) {
		extra = g.hs(1, 2)
	}
	j := g.add(cx.Op{K: "M", A: p, B: s, Seg: sg, Inh: r.Chance(1, 2), Hs: extra})
	for _, e := range g.routes[s] {
		if e.ver >= 0 {
			continue
		}
		g.addEntry(p, entry{cat([]int{j}, e.mounts...), e.route, cat([]int{sg}, e.path...), -1})
	}
}

// aliasPrelude: sibling app.Groups built from one caller slice with spare capacity (the K02 shape)
func (g *gen) aliasPrelude() {
	r := g.r
	first := cx.Op{K: "AG", Seg: g.seg(), Hs: g.hs(0, 2), B: 1}
	first.Cap = len(first.Hs) + r.Range(1, 3)
	g.arrays[1] = first
	g.add(first)
	g.agroups = append(g.agroups, struct{ path []int }{[]int{first.Seg}})
	for i := r.Range(1, 2); i > 0; i-- {
		o := first
		o.Seg = g.seg()
		g.add(o)
		g.agroups = append(g.agroups, struct{ path []int }{[]int{o.Seg}})
	}
}

// siblings: a parent group whose middleware slice has grown by Use (so it may have spare capacity),
// then several child groups with middleware of their own, then routes on every child — the shape
// on which a child that appends to the parent's slice instead of copying shows up.
func (g *gen) siblings() {
	r := g.r
	kind := r.Intn(3) // 0 router group, 1 app group, 2 app version group
	if kind > 0 {
		g.app = true
	}
	var parent int
	psg := g.seg()
	switch kind {
	case 0:
		g.add(cx.Op{K: "G", A: 0, Seg: psg, Hs: g.hs(0, 2)})
		g.groups = append(g.groups, struct {
			router int
			path   []int
		}{0, []int{psg}})
		parent = len(g.groups) - 1
	case 1:
		g.add(cx.Op{K: "AG", Seg: psg, Hs: g.hs(0, 2)})
		g.agroups = append(g.agroups, struct{ path []int }{[]int{psg}})
		parent = len(g.agroups) - 1
	default:
		g.add(cx.Op{K: "AV", Ver: 1})
		g.vrouters = append(g.vrouters, struct{ router, ver int }{0, 1})
		g.avgroups = append(g.avgroups, struct {
			vr   int
			path []int
		}{0, nil})
		parent = 0
	}
	useK := []string{"GU", "AGU", "AVU"}[kind]
	subK := []string{"SG", "ASG", "AVSG"}[kind]
	for i := r.Range(1, 3); i > 0; i-- {
		g.add(cx.Op{K: useK, A: parent, Hs: g.hs(1, 2)})
	}
	var kids []int
	for i := r.Range(2, 3); i > 0; i-- {
		sg := g.nseg()
		g.add(cx.Op{K: subK, A: parent, Seg: sg, Hs: g.hs(0, 2)})
		switch kind {
		case 0:
			g.groups = append(g.groups, struct {
				router int
				path   []int
			}{0, cat(g.groups[parent].path, sg)})
			kids = append(kids, len(g.groups)-1)
		case 1:
			g.agroups = append(g.agroups, struct{ path []int }{cat(g.agroups[parent].path, sg)})
			kids = append(kids, len(g.agroups)-1)
		default:
			g.avgroups = append(g.avgroups, struct {
				vr   int
				path []int
			}{0, cat(g.avgroups[parent].path, sg)})
			kids = append(kids, len(g.avgroups)-1)
		}
	}
	for _, k := range kids {
		if r.Chance(1, 2) {
			g.add(cx.Op{K: useK, A: k, Hs: g.hs(1, 1)})
		}
	}
	for _, k := range append(kids, parent) { // the parent last: what a child did must not show there
		sg := g.seg()
		switch kind {
		case 0:
			i := g.add(cx.Op{K: "R", OK: "g", A: k, Seg: sg, Hs: g.hs(1, 2)})
			g.addEntry(0, entry{nil, i, cat(g.groups[k].path, sg), -1})
		case 1:
			g.nextH++
			i := g.add(cx.Op{K: "AR", OK: "ag", A: k, Seg: sg, H: g.nextH})
			g.addEntry(0, entry{nil, i, cat(g.agroups[k].path, sg), -1})
		default:
			g.nextH++
			i := g.add(cx.Op{K: "AR", OK: "avg", A: k, Seg: sg, H: g.nextH})
			g.addEntry(0, entry{nil, i, cat(g.avgroups[k].path, sg), 1})
		}
	}
}

// aliasCoda: every sibling gets middleware of its own and then a route
func (g *gen) aliasCoda() {
	n := len(g.agroups)
	for i := 0; i < n; i++ {
		if g.r.Chance(4, 5) {
			g.add(cx.Op{K: "AGU", A: i, Hs: g.hs(1, 2)})
		}
	}
	for i := 0; i < n; i++ {
		sg := g.seg()
		g.nextH++
		j := g.add(cx.Op{K: "AR", OK: "ag", A: i, Seg: sg, H: g.nextH})
		g.addEntry(0, entry{nil, j, cat(g.agroups[i].path, sg), -1})
	}
}

func (g *gen) routeOp() {
	r := g.r
	sg := g.seg()
	hs := g.hs(1, 3)
	switch k := r.Intn(10); {
	case k < 4 || (len(g.groups) == 0 && k < 8):
		rt := r.Intn(g.nRouters)
		if g.theme == "mount" && g.nRouters > 1 && r.Chance(3, 4) {
			rt = r.Range(1, g.nRouters-1)
		}
		i := g.add(cx.Op{K: "R", OK: "r", A: rt, Seg: sg, Hs: hs})
		g.addEntry(rt, entry{nil, i, []int{sg}, -1})
	case k < 8:
		gi := r.Intn(len(g.groups))
		i := g.add(cx.Op{K: "R", OK: "g", A: gi, Seg: sg, Hs: hs})
		g.addEntry(g.groups[gi].router, entry{nil, i, cat(g.groups[gi].path, sg), -1})
	case (k == 8 || (k == 9 && r.Chance(1, 2))) && len(g.vrouters) > 0:
		v := r.Intn(len(g.vrouters))
		sg = g.vseg(g.vrouters[v].ver)
		i := g.add(cx.Op{K: "R", OK: "v", A: v, Seg: sg, Hs: hs})
		g.addEntry(0, entry{nil, i, []int{sg}, g.vrouters[v].ver})
	case len(g.vgroups) > 0:
		vg := r.Intn(len(g.vgroups))
		i := g.add(cx.Op{K: "R", OK: "vg", A: vg, Seg: sg, Hs: hs})
		g.addEntry(0, entry{nil, i, cat(g.vgroups[vg].path, sg), g.vrouters[g.vgroups[vg].vr].ver})
	default:
		i := g.add(cx.Op{K: "R", OK: "r", A: 0, Seg: sg, Hs: hs})
		g.addEntry(0, entry{nil, i, []int{sg}, -1})
	}
}

func (g *gen) arouteOp() {
	r := g.r
	sg := g.seg()
	o := cx.Op{K: "AR", Seg: sg}
	if r.Chance(1, 3) {
		o.Hs = g.hs(1, 2)
	}
	g.nextH++
	o.H = g.nextH
	if r.Chance(1, 3) {
		o.Hs2 = g.hs(1, 2)
	}
	switch k := r.Intn(10); {
	case k < 6 && len(g.agroups) > 0:
		o.OK, o.A = "ag", r.Intn(len(g.agroups))
		i := g.add(o)
		g.addEntry(0, entry{nil, i, cat(g.agroups[o.A].path, sg), -1})
	case k >= 8 && len(g.avgroups) > 0:
		o.OK, o.A = "avg", r.Intn(len(g.avgroups))
		i := g.add(o)
		g.addEntry(0, entry{nil, i, cat(g.avgroups[o.A].path, sg), g.vrouters[g.avgroups[o.A].vr].ver})
	default:
		o.OK = "a"
		i := g.add(o)
		g.addEntry(0, entry{nil, i, []int{sg}, -1})
	}
}

var alphabet = []string{"N", "N", "N", "A", "C", "W", "R", "K"}

func genActs(r *hx.Rand, depth int) []cx.Act {
	n := r.Range(0, 4)
	out := make([]cx.Act, 0, n)
	for i := 0; i < n; i++ {
		k := hx.Pick(r, alphabet)
		if k == "K" {
			if depth >= 2 {
				k = "N"
			} else {
				out = append(out, cx.Act{K: "K", Body: genActs(r, depth+1)})
				continue
			}
		}
		out = append(out, cx.Act{K: k})
	}
	return out
}

// timeoutActs: the behaviour without writes, with "overrun the budget" in place of "cancel the request context"
func timeoutActs(acts []cx.Act) []cx.Act {
	out := []cx.Act{}
	for _, x := range acts {
		switch x.K {
		case "W", "F":
		case "C":
			out = append(out, cx.Act{K: "T"})
		case "K":
			out = append(out, cx.Act{K: "K", Body: timeoutActs(x.Body)})
		default:
			out = append(out, x)
		}
	}
	return out
}

func a(ks ...string) []cx.Act {
	out := make([]cx.Act, len(ks))
	for i, k := range ks {
		out[i] = cx.Act{K: k}
	}
	return out
}

// genBeh draws one of the behaviours of the C02 quantifier for a handler.
func genBeh(r *hx.Rand, st *hx.Stats) []cx.Act {
	k := r.Intn(100)
	name, acts := "", []cx.Act(nil)
	switch {
	case k < 42:
		name, acts = "next", a("N")
	case k < 49:
		name, acts = "return", a()
	case k < 55:
		name, acts = "next_twice", a("N", "N")
	case k < 58:
		name, acts = "abort", a("A")
	case k < 60:
		name, acts = "fail", []cx.Act{{K: "F", V: r.Intn(2)}}
	case k < 63:
		name, acts = "abort_then_next", a("A", "N")
	case k < 65:
		name, acts = "fail_then_next", []cx.Act{{K: "F", V: r.Intn(2)}, {K: "N"}}
	case k < 69:
		name, acts = "write_next", a("W", "N")
	case k < 73:
		name, acts = "next_write", a("N", "W")
	case k < 78:
		name, acts = "cancel_next", []cx.Act{{K: "C", V: r.Intn(2)}, {K: "N"}}
	case k < 81:
		name, acts = "next_abort", a("N", "A")
	case k < 85:
		name, acts = "nested_next", []cx.Act{{K: "K", Body: a("N")}}
	case k < 88:
		name, acts = "nested_next_ret_then_next", []cx.Act{{K: "K", Body: a("N", "R", "A")}, {K: "N"}, {K: "W"}}
	default:
		name, acts = "random", genActs(r, 0)
	}
	if st != nil {
		st.Count("beh_" + name)
	}
	return acts
}

func genScript(r *hx.Rand, st *hx.Stats) (caseT, []cx.Target) {
	g := &gen{r: r, nRouters: 1, app: r.Chance(2, 5), routes: map[int][]entry{}, arrays: map[int]cx.Op{}, st: st, theme: "mixed"}
	switch k := r.Intn(10); {
	case k < 4:
		g.theme = "mount"
		for i := r.Range(1, 2); i > 0; i-- {
			g.add(cx.Op{K: "NR"})
			g.nRouters++
		}
	case k < 6:
		g.theme, g.app = "alias", true
		g.aliasPrelude()
	case k < 8:
		g.theme = "siblings"
		g.siblings()
	}
	n := r.Range(4, 16)
	if g.theme == "siblings" {
		n = r.Range(0, 6)
	}
	for i := 0; i < n; i++ {
		g.step()
	}
	if g.theme == "mount" { // make sure something is mounted into router 0 at the end as well
		for s := g.nRouters - 1; s >= 1; s-- {
			if len(g.routes[s]) > 0 && r.Chance(2, 3) {
				g.mount(r.Intn(s), s)
			}
		}
	}
	if g.theme == "alias" {
		g.aliasCoda()
	}
	if len(g.routes[0]) == 0 {
		if g.app {
			g.arouteOp()
		} else {
			sg := g.seg()
			i := g.add(cx.Op{K: "R", OK: "r", A: 0, Seg: sg, Hs: g.hs(1, 2)})
			g.addEntry(0, entry{nil, i, []int{sg}, -1})
		}
	}
	c := caseT{Check: !r.Chance(1, 4), Compiled: r.Chance(1, 3), NoRoute: r.Chance(1, 4), Tracing: g.app && r.Chance(1, 3), FailW: r.Chance(1, 5), Health: g.app && r.Chance(1, 4), Script: g.script}
	if !g.app && g.nRouters == 1 && r.Chance(1, 120) {
		c.Timeout = 120
	}
	for h := 1; h <= g.nextH; h++ {
		c.Beh = append(c.Beh, cx.Beh{H: h, Acts: genBeh(r, st)})
	}
	if c.Timeout > 0 {
		// nothing writes (after the deadline the guard of the timeout middleware would drop it); a cancel is an overrun
		// of the budget; one more handler overruns right away
		for i := range c.Beh {
			c.Beh[i].Acts = timeoutActs(c.Beh[i].Acts)
		}
		for i := range c.Beh { // mostly flat handlers: positions remain behind the point where the chain stops
			if r.Chance(2, 3) {
				c.Beh[i].Acts = nil
			}
		}
		i := r.Intn(len(c.Beh))
		c.Beh[i].Acts = append([]cx.Act{{K: "T"}}, c.Beh[i].Acts...)
	}
	var ts []cx.Target
	for _, e := range g.routes[0] {
		ts = append(ts, cx.Target{Mounts: append([]int{}, e.mounts...), Route: e.route, Path: e.path, Ver: e.ver})
	}
	if st != nil {
		if g.app {
			st.Count("world_app")
		} else {
			st.Count("world_router")
		}
		st.Count("theme_" + g.theme)
	}
	return c, ts
}

// ---------------------------------------------------------------- running a case

func nontrivialActs(acts []cx.Act) bool {
	for i, x := range acts {
		switch x.K {
		case "A", "C", "P", "F", "T":
			return true
		case "N":
			if i != len(acts)-1 {
				return true
			}
		case "K":
			if nontrivialActs(x.Body) || i != len(acts)-1 {
				return true
			}
		}
	}
	return false
}

func emit(id string, c caseT, w *cx.World, st *hx.Stats) string {
	l := hx.NewLine(id).Bool(c.Check).Bool(c.Compiled)
	cx.EncScript(l, c.Script)
	cx.EncTarget(l, c.Target)
	cx.EncBeh(l, c.Beh)
	in := l.String()
	l.Sep()
	if c.NoRoute {
		w.Miss()
	}
	res := w.Serve(c.Target, &cx.ReqState{Beh: cx.BehMap(c.Beh)})
	if res.Discard != "" {
		if st != nil {
			st.Count("discarded_timing")
		}
		return fmt.Sprintf("# %s discarded: %s%s", id, res.Discard, hx.Comment(c))
	}
	chain, found := w.Probe(c.Target)
	if found {
		l.Nat(1)
		cx.EncHs(l, chain)
	} else {
		l.Nat(0)
	}
	cx.EncResult(l, res)
	if st != nil {
		bm := cx.BehMap(c.Beh)
		nt := false
		for _, h := range chain {
			if nontrivialActs(bm[h]) {
				nt = true
			}
		}
		st.Case(in[len(id):], nt)
		st.Count("chain_len_" + strconv.Itoa(len(chain)))
		st.Count("mount_depth_" + strconv.Itoa(len(c.Target.Mounts)))
		if countEnters(res.Trace) == len(chain) {
			st.Count("entered_all")
		} else {
			st.Count("entered_some")
		}
		if c.Target.Ver >= 0 {
			st.Count("target_versioned")
		}
		if !c.Check {
			st.Count("cancellation_check_off")
		}
		if c.NoRoute {
			st.Count("aborting_NoRoute_then_404_before_request")
		}
		if c.Tracing {
			st.Count("app_tracing_on")
		}
		if c.Timeout > 0 {
			st.Count("timeout_middleware_in_front_real_budget")
		}
		if c.Compiled {
			st.Count("route_compilation_on")
		}
		if !found {
			st.Count("route_not_found")
		}
	}
	return l.String() + hx.Comment(c)
}

func countEnters(tr []string) int {
	n := 0
	for _, e := range tr {
		if e[0] == 'e' {
			n++
		}
	}
	return n
}

func runScript(idp string, c caseT, ts []cx.Target, w *hx.Rand, st *hx.Stats, out func(string)) {
	world, err := cx.Build(c.Script, cx.BuildOpts{Check: c.Check, Compiled: c.Compiled, NoRoute: c.NoRoute, Tracing: c.Tracing, Health: c.Health, TimeoutMs: c.Timeout})
	if world != nil {
		world.FailWrites = c.FailW
	}
	if err != nil {
		out(fmt.Sprintf("# %s: script not executable: %v%s", idp, err, hx.Comment(c)))
		if st != nil {
			st.Count("script_rejected")
		}
		return
	}
	if w != nil && len(ts) > 3 {
		hx.Shuffle(w, ts)
		sort.SliceStable(ts, func(i, j int) bool { return len(ts[i].Mounts) > len(ts[j].Mounts) })
		ts = ts[:3]
	}
	for i, t := range ts {
		c.Target = t
		out(emit(fmt.Sprintf("%s-%d", idp, i), c, world, st))
	}
}

// ---------------------------------------------------------------- fixed witnesses

func beh(n int, special map[int][]cx.Act) []cx.Beh {
	var out []cx.Beh
	for h := 1; h <= n; h++ {
		acts, ok := special[h]
		if !ok {
			acts = a("N")
		}
		out = append(out, cx.Beh{H: h, Acts: acts})
	}
	return out
}

func fixed() []struct {
	c  caseT
	ts []cx.Target
} {
	type F = struct {
		c  caseT
		ts []cx.Target
	}
	return []F{
		// K02: two app.Groups from one caller slice with spare capacity, then Use on each
		{caseT{Check: true, Script: []cx.Op{
			{K: "AG", Seg: 1, Hs: []int{1}, B: 1, Cap: 2}, {K: "AG", Seg: 2, Hs: []int{1}, B: 1, Cap: 2},
			{K: "AGU", A: 0, Hs: []int{2}}, {K: "AGU", A: 1, Hs: []int{3}},
			{K: "AR", OK: "ag", A: 0, Seg: 3, H: 4}, {K: "AR", OK: "ag", A: 1, Seg: 4, H: 5}},
			Beh: beh(5, nil)},
			[]cx.Target{{Route: 4, Path: []int{1, 3}, Ver: -1}, {Route: 5, Path: []int{2, 4}, Ver: -1}}},
		// K02b: sub-router warmed up before Mount
		{caseT{Check: true, Script: []cx.Op{
			{K: "NR"}, {K: "U", A: 0, Hs: []int{1}}, {K: "U", A: 1, Hs: []int{2}},
			{K: "R", OK: "r", A: 1, Seg: 1, Hs: []int{3}}, {K: "W", A: 1}, {K: "M", A: 0, B: 1, Seg: 2}},
			Beh: beh(3, nil)},
			[]cx.Target{{Mounts: []int{5}, Route: 3, Path: []int{2, 1}, Ver: -1}}},
		// the same without the early warm-up; with InheritMiddleware + WithMiddleware (mount_test.go's order)
		{caseT{Check: true, Script: []cx.Op{
			{K: "NR"}, {K: "U", A: 0, Hs: []int{1}}, {K: "U", A: 1, Hs: []int{2}},
			{K: "R", OK: "r", A: 1, Seg: 1, Hs: []int{3}}, {K: "M", A: 0, B: 1, Seg: 2, Inh: true, Hs: []int{4}}},
			Beh: beh(4, nil)},
			[]cx.Target{{Mounts: []int{4}, Route: 3, Path: []int{2, 1}, Ver: -1}}},
		// Use after the route was declared; group Use after the route; nested group created before parent Use
		{caseT{Check: true, Script: []cx.Op{
			{K: "G", A: 0, Seg: 1, Hs: []int{1}}, {K: "SG", A: 0, Seg: 2, Hs: []int{2}},
			{K: "R", OK: "g", A: 1, Seg: 3, Hs: []int{3, 4}}, {K: "GU", A: 0, Hs: []int{5}}, {K: "GU", A: 1, Hs: []int{6}},
			{K: "U", A: 0, Hs: []int{7}}, {K: "R", OK: "g", A: 1, Seg: 4, Hs: []int{8}}, {K: "W", A: 0}, {K: "U", A: 0, Hs: []int{9}},
			{K: "R", OK: "r", A: 0, Seg: 5, Hs: []int{10}}},
			Beh: beh(10, map[int][]cx.Act{3: a("N", "N"), 2: a("A", "N")})},
			[]cx.Target{{Route: 2, Path: []int{1, 2, 3}, Ver: -1}, {Route: 6, Path: []int{1, 2, 4}, Ver: -1}, {Route: 9, Path: []int{5}, Ver: -1}}},
		// the same URL path in two version trees (alias tag 10001 renders like 1), route compilation on
		{caseT{Check: true, Compiled: true, Script: []cx.Op{
			{K: "V", A: 0, Ver: 1}, {K: "V", A: 0, Ver: 2},
			{K: "R", OK: "v", A: 0, Seg: 1, Hs: []int{1, 2}}, {K: "R", OK: "v", A: 1, Seg: cx.AliasSeg + 1, Hs: []int{3}}},
			Beh: beh(3, nil)},
			[]cx.Target{{Route: 2, Path: []int{1}, Ver: 1}, {Route: 3, Path: []int{cx.AliasSeg + 1}, Ver: 2}}},
		// an app route whose before / after handlers are spelled with several WithBefore and app.RouteOptions sets
		{caseT{Check: true, Script: []cx.Op{
			{K: "AR", OK: "a", Seg: 1, Hs: []int{1, 2, 3}, H: 4, Hs2: []int{5, 6}}, {K: "AR", OK: "a", Seg: 2, Hs: []int{1, 2}, H: 3, Hs2: []int{5, 6}}},
			Beh: beh(6, nil)},
			[]cx.Target{{Route: 0, Path: []int{1}, Ver: -1}, {Route: 1, Path: []int{2}, Ver: -1}}},
		// application-wide middleware (Use + WithMiddleware-style) applies to application routes at /health and /debug/…
		{caseT{Check: true, Script: []cx.Op{
			{K: "AU", Hs: []int{1}}, {K: "AR", OK: "a", Seg: cx.SpecialSeg, H: 2}, {K: "AG", Seg: cx.SpecialSeg + 2, Hs: []int{3}},
			{K: "AR", OK: "ag", A: 0, Seg: 1, H: 4}, {K: "AR", OK: "a", Seg: cx.SpecialSeg + 6, H: 5}},
			Beh: beh(5, map[int][]cx.Act{1: a("A")})},
			[]cx.Target{{Route: 1, Path: []int{cx.SpecialSeg}, Ver: -1}, {Route: 3, Path: []int{cx.SpecialSeg + 2, 1}, Ver: -1}, {Route: 4, Path: []int{cx.SpecialSeg + 6}, Ver: -1}}},
		// a timeout middleware (real 120 ms budget, silent timeout handler) in front: the second of several flat route handlers
		// overruns the budget — nothing behind it may start, neither in the goroutine of the middleware nor after it
		{caseT{Check: true, Timeout: 120, Script: []cx.Op{
			{K: "R", OK: "r", A: 0, Seg: 1, Hs: []int{1, 2, 3, 4, 5}}},
			Beh: beh(5, map[int][]cx.Act{1: a(), 2: a("T"), 3: a(), 4: a(), 5: a()})},
			[]cx.Target{{Route: 0, Path: []int{1}, Ver: -1}}},
		{caseT{Check: true, Timeout: 120, Script: []cx.Op{
			{K: "U", A: 0, Hs: []int{1}}, {K: "R", OK: "r", A: 0, Seg: 1, Hs: []int{2, 3, 4, 5, 6, 7}}},
			Beh: beh(7, map[int][]cx.Act{2: a(), 3: a("T"), 4: a(), 5: a(), 6: a(), 7: a()})},
			[]cx.Target{{Route: 1, Path: []int{1}, Ver: -1}}},
		// a sub-router whose routes come from a route group (handlers passed as plain func values) is mounted
		{caseT{Check: true, Script: []cx.Op{
			{K: "NR"}, {K: "G", A: 1, Seg: 1, Hs: []int{1}}, {K: "GU", A: 0, Hs: []int{2, 3}},
			{K: "R", OK: "g", A: 0, Seg: 2, Hs: []int{4, 5}}, {K: "M", A: 0, B: 1, Seg: 3}},
			Beh: beh(5, nil)},
			[]cx.Target{{Mounts: []int{4}, Route: 3, Path: []int{3, 1, 2}, Ver: -1}}},
		// Where… on a registered route (Warmup, then Use, then WhereInt): re-registration with the middleware of now
		{caseT{Check: true, Script: []cx.Op{
			{K: "U", A: 0, Hs: []int{1}}, {K: "R", OK: "r", A: 0, Seg: 1, Hs: []int{2}}, {K: "W", A: 0},
			{K: "WH", A: 0, Ver: -1, RI: 1, P: []int{1}}, {K: "U", A: 0, Hs: []int{3}}, {K: "WH", A: 0, Ver: -1, RI: 1, P: []int{1}}},
			Beh: beh(3, nil)},
			[]cx.Target{{Route: 1, Path: []int{1}, Ver: -1}}},
		// a sub-router route with two constraints mounted into a parent that is already warmed up
		{caseT{Check: true, Script: []cx.Op{
			{K: "NR"}, {K: "U", A: 0, Hs: []int{1}}, {K: "R", OK: "r", A: 0, Seg: 1, Hs: []int{2}}, {K: "W", A: 0},
			{K: "U", A: 1, Hs: []int{3}}, {K: "R", OK: "r", A: 1, Seg: 2, Hs: []int{4}, Cons: 2}, {K: "M", A: 0, B: 1, Seg: 3}},
			Beh: beh(4, nil)},
			[]cx.Target{{Mounts: []int{6}, Route: 5, Path: []int{3, 2}, Ver: -1}, {Route: 2, Path: []int{1}, Ver: -1}}},
		// abort after Next returned; cancel with the check off; nested Next
		{caseT{Check: false, Script: []cx.Op{
			{K: "U", A: 0, Hs: []int{1, 2}}, {K: "R", OK: "r", A: 0, Seg: 1, Hs: []int{3, 4, 5}}},
			Beh: beh(5, map[int][]cx.Act{1: a("N", "A"), 2: a("C", "N"), 3: {{K: "K", Body: a("N", "R")}, {K: "W"}}, 4: a(), 5: a("W", "N")})},
			[]cx.Target{{Route: 1, Path: []int{1}, Ver: -1}}},
		// version group and app version group with before/after
		{caseT{Check: true, Script: []cx.Op{
			{K: "AU", Hs: []int{1}}, {K: "AV", Ver: 1}, {K: "AVU", A: 0, Hs: []int{2}}, {K: "AVSG", A: 0, Seg: 1, Hs: []int{3}},
			{K: "AR", OK: "avg", A: 1, Seg: 2, Hs: []int{4}, H: 5, Hs2: []int{6}}, {K: "AVU", A: 0, Hs: []int{7}}},
			Beh: beh(7, map[int][]cx.Act{5: a("W")})},
			[]cx.Target{{Route: 4, Path: []int{1, 2}, Ver: 1}}},
	}
}

func main() {
	// app.Context.Fail logs through slog.Default(): keep stderr quiet
	slog.SetDefault(slog.New(slog.NewTextHandler(io.Discard, nil)))
	args := hx.ParseArgs()
	w := hx.Out()
	defer w.Flush()
	out := func(s string) { fmt.Fprintln(w, s) }
	switch args.Cmd {
	case "gen":
		r := hx.NewRand(cx.MixSeed(args.Seed))
		st := hx.NewStats()
		for i, f := range fixed() {
			runScript(fmt.Sprintf("c02-fix-%d", i), f.c, f.ts, nil, st, out)
		}
		for i := 0; st.Evaluations < args.N+len(fixed()); i++ {
			c, ts := genScript(r, st)
			runScript(fmt.Sprintf("c02-%d-%d", args.Seed, i), c, ts, r, st, out)
		}
		st.Emit(w)
	case "replay":
		for _, line := range hx.StdinLines() {
			var c caseT
			id, err := hx.CaseFromComment(line, &c)
			if err != nil {
				out(fmt.Sprintf("# cannot replay %q: %v", id, err))
				continue
			}
			world, err := cx.Build(c.Script, cx.BuildOpts{Check: c.Check, Compiled: c.Compiled, NoRoute: c.NoRoute, Tracing: c.Tracing, Health: c.Health, TimeoutMs: c.Timeout})
			if world != nil {
				world.FailWrites = c.FailW
			}
			if err != nil {
				out(fmt.Sprintf("# %s: script not executable: %v", id, err))
				continue
			}
			out(emit(id, c, world, nil))
		}
	}
}
