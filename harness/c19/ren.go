package main

import (
	"bytes"
	"encoding/hex"
	"errors"
	"fmt"
	"io"
	"net/http"
	"net/http/httptest"
	"runtime"
	"strconv"
	"strings"
	"testing/iotest"

	"rivaas.dev/router"
	"verif/harness/hx"
)

// Family R: a HISTORY of render calls, one request each, on one router. Some requests are served to
// a ResponseWriter whose client has gone away (its k-th Write fails, or delivers only a part). Every
// response that reports success is judged by the unchanged per-call oracle: exactly the documented
// bytes, status and content type - whatever happened to other responses before.

type renStep struct {
	Op     string   // Stringf | String | HTML | Data | JSON (with J.Variant)
	F      *fmtCase `json:",omitempty"`
	J      *jsnCase `json:",omitempty"`
	Code   int      `json:",omitempty"`
	CT     string   `json:",omitempty"` // Data: content type
	Text   string   `json:",omitempty"` // hex: String / HTML / Data payload
	Rep    int      `json:",omitempty"` // Reader: the payload is Text repeated Rep times (0 = once)
	RMode  int      `json:",omitempty"` // Reader: 0 bytes.Reader, 1 final bytes together with io.EOF, 2 one byte per Read, 3 half of the buffer per Read
	KnownN bool     `json:",omitempty"` // Reader: content length passed (else -1)
	// Nest: the NEXT step of the history is served (completely, on its own healthy request) while this
	// step's response writer is inside its first Write - the deterministic form of "the connection is
	// slow and another request runs meanwhile"
	Nest   bool   `json:",omitempty"`
	Head   bool   `json:",omitempty"` // the request is a HEAD request (same route, same handler)
	After  string `json:",omitempty"` // hex: afterwards the handler (a relabelling middleware) calls c.Header("Content-Type", After)
	FailAt int    `json:",omitempty"` // 0: healthy recorder; k: the writer's k-th Write fails
	Mode   int    `json:",omitempty"` // 0 broken from then on, (0, err); 1 broken from then on, short write; 2 only that one Write fails
}

type renCase struct{ Steps []renStep }

// flakyWriter records like httptest.ResponseRecorder until its failAt-th Write.
type flakyWriter struct {
	rec    *httptest.ResponseRecorder
	failAt int
	mode   int
	n      int
}

func (w *flakyWriter) Header() http.Header { return w.rec.Header() }
func (w *flakyWriter) WriteHeader(c int)   { w.rec.WriteHeader(c) }
func (w *flakyWriter) Write(p []byte) (int, error) {
	w.n++
	if w.n == w.failAt || (w.n > w.failAt && w.mode != 2) {
		if w.mode == 1 && len(p) > 1 {
			w.rec.Write(p[:len(p)/2])
			return len(p) / 2, io.ErrShortWrite
		}
		return 0, errors.New("write: broken pipe")
	}
	return w.rec.Write(p)
}

var renTexts = []string{"", "hello", "<p>x</p>", "a\nb", "é", "\xff\x00", "100%", "%s"}

func (s renStep) payload() []byte {
	p := []byte(unhex(s.Text))
	if s.Rep > 1 {
		p = bytes.Repeat(p, s.Rep)
	}
	return p
}

func genRenStep(r *hx.Rand) renStep {
	var s renStep
	switch x := r.Intn(20); {
	case x < 9: // Stringf on the fast path: text around one %s
		plain := []string{"", "a", "100", "hello ", " world", "x=", "\n", "{}", "s", "é", "session token of ", " is 7f3a9c", "<", ">"}
		f := hx.Pick(r, plain) + "%s" + hx.Pick(r, plain)
		s.Op = "Stringf"
		s.F = &fmtCase{Code: hx.Pick(r, []int{200, 201, 404}), Format: hex.EncodeToString([]byte(f)),
			Args: []argT{{K: "s", S: hex.EncodeToString([]byte(hx.Pick(r, fmtStrings)))}}}
	case x < 12:
		s.Op = "Stringf"
		s.F = genFmt(r)
		s.F.PreCT = ""
	case x < 14:
		s.Op, s.Code, s.Text = "String", hx.Pick(r, []int{200, 404}), hex.EncodeToString([]byte(hx.Pick(r, renTexts)))
	case x < 15:
		s.Op, s.Code, s.Text = "HTML", 200, hex.EncodeToString([]byte(hx.Pick(r, renTexts)))
	case x == 15 && r.Chance(1, 2):
		s.Op, s.Code = "SendStatus", hx.Pick(r, []int{200, 201, 404, 418, 500, 599, 299})
		if r.Chance(1, 4) {
			s.Op, s.Code = "NoContent", 204
		}
	case x == 16:
		s.Op, s.Code = "Reader", hx.Pick(r, []int{200, 206})
		s.Text = hex.EncodeToString([]byte(hx.Pick(r, []string{"", "hello, world!", "a", "0123456789abcdef", "\xff\x00\n"})))
		s.CT = hx.Pick(r, []string{"", "application/octet-stream", "text/plain"})
		s.RMode, s.KnownN = r.Intn(4), r.Chance(1, 2)
		if r.Chance(1, 8) {
			s.Rep = hx.Pick(r, []int{2048, 2049, 4100}) // around and beyond a 32 KiB copy buffer
		}
	case x < 17:
		s.Op, s.Code, s.Text = "Data", hx.Pick(r, []int{200, 206}), hex.EncodeToString([]byte(hx.Pick(r, renTexts)))
		s.CT = hx.Pick(r, []string{"", "application/x-bin", "text/plain"})
	default:
		s.Op = "JSON"
		s.J = genJsn(r)
	}
	s.Head = r.Chance(1, 10)
	s.Nest = r.Chance(1, 5)
	if r.Chance(1, 8) { // status codes that carry no body on the wire: the helper's own output is still the documented one
		code := hx.Pick(r, []int{204, 304, 205, 100 + 99})
		switch {
		case s.F != nil:
			s.F.Code = code
		case s.J != nil:
			s.J.Code = code
		case s.Op != "NoContent":
			s.Code = code
		}
	}
	if r.Chance(1, 5) {
		s.After = hex.EncodeToString([]byte(hx.Pick(r, []string{"text/plain; charset=utf-8", "application/vnd.api+json", "text/html", "x\r\ny"})))
	}
	if r.Chance(7, 20) {
		s.FailAt = hx.Pick(r, []int{1, 1, 1, 2, 2, 3})
		s.Mode = hx.Pick(r, []int{0, 0, 1, 2})
	}
	return s
}

func genRen(r *hx.Rand) *renCase {
	k := &renCase{}
	for n := r.Range(2, 6); n > 0; n-- {
		k.Steps = append(k.Steps, genRenStep(r))
	}
	if r.Chance(1, 2) { // the shape that matters: a lost response, then a healthy fast-path Stringf
		lost, ok := genRenStep(r), genRenStep(r)
		for lost.Op != "Stringf" || lost.F.PreCT != "" || len(lost.F.Args) != 1 {
			lost = genRenStep(r)
		}
		lost.FailAt, lost.Mode = 1, hx.Pick(r, []int{0, 1})
		ok.FailAt = 0
		i := r.Intn(len(k.Steps))
		k.Steps = append(k.Steps[:i], append([]renStep{lost, ok}, k.Steps[i:]...)...)
		if len(k.Steps) > 6 {
			k.Steps = k.Steps[:6]
		}
	}
	// the history always ends with two ordinary responses on healthy writers: whatever an earlier step
	// left behind in the process shows up inside the case itself
	tailJ := genJsn(r)
	k.Steps = append(k.Steps,
		renStep{Op: "JSON", J: tailJ},
		renStep{Op: "Stringf", F: &fmtCase{Code: 200, Format: hex.EncodeToString([]byte("tail=%s;")), Args: []argT{{K: "s", S: hex.EncodeToString([]byte(hx.Pick(r, fmtStrings)))}}}})
	return k
}

type renObs struct {
	panicked bool
	err      error
	code     int
	ct       string
	body     []byte
	same     bool
}

// nestingWriter runs hook once, from inside its first Write, before it records the bytes.
type nestingWriter struct {
	http.ResponseWriter
	hook func()
}

func (w *nestingWriter) Write(p []byte) (int, error) {
	if h := w.hook; h != nil {
		w.hook = nil
		h()
	}
	return w.ResponseWriter.Write(p)
}

func runRenStep(s renStep, inWrite func()) (o renObs) {
	rec := httptest.NewRecorder()
	var w http.ResponseWriter = rec
	if s.FailAt > 0 {
		w = &flakyWriter{rec: rec, failAt: s.FailAt, mode: s.Mode}
	}
	if inWrite != nil {
		w = &nestingWriter{ResponseWriter: w, hook: inWrite}
	}
	method := http.MethodGet
	if s.Head {
		method = http.MethodHead
	}
	req := httptest.NewRequest(method, "/c19", nil)
	script = func(c *router.Context) {
		defer func() {
			if p := recover(); p != nil {
				o.panicked = true
			}
		}()
		switch s.Op {
		case "Stringf":
			o.err = c.Stringf(s.F.Code, unhex(s.F.Format), fmtVals(s.F)...)
		case "String":
			o.err = c.String(s.Code, unhex(s.Text))
		case "HTML":
			o.err = c.HTML(s.Code, unhex(s.Text))
		case "Data":
			o.err = c.Data(s.Code, s.CT, []byte(unhex(s.Text)))
		case "Reader":
			p := s.payload()
			n := int64(-1)
			if s.KnownN {
				n = int64(len(p))
			}
			var rd io.Reader = bytes.NewReader(p)
			switch s.RMode {
			case 1:
				rd = iotest.DataErrReader(rd)
			case 2:
				rd = iotest.OneByteReader(rd)
			case 3:
				rd = iotest.HalfReader(rd)
			}
			o.err = c.DataFromReader(s.Code, n, s.CT, rd, nil)
		case "SendStatus":
			o.err = c.SendStatus(s.Code)
		case "NoContent":
			c.NoContent()
		case "JSON":
			o.err = callJSON(c, s.J, s.J.V.val(), unhex(s.J.Extra))
		}
		// the response as the render call left it
		o.code, o.ct, o.body = rec.Code, c.Response.Header().Get("Content-Type"), append([]byte(nil), rec.Body.Bytes()...)
		if s.After != "" {
			c.Header("Content-Type", unhex(s.After))
		}
	}
	rt.ServeHTTP(w, req)
	if s.Op == "JSON" && o.err == nil && !o.panicked {
		o.same = jsonSame(s.J, s.J.V.val(), unhex(s.J.Extra), o.body)
	}
	return
}

func fmtVals(k *fmtCase) []any {
	vals := make([]any, len(k.Args))
	for i, a := range k.Args {
		vals[i] = a.val()
	}
	return vals
}

func emitRen(id string, k *renCase, st *hx.Stats) string {
	l := hx.NewLine(id).Tok("R").Nat(len(k.Steps))
	for _, s := range k.Steps {
		l.Tok("W").Nat(s.FailAt).Nat(s.Mode)
		switch s.Op {
		case "Stringf":
			format, vals := unhex(s.F.Format), fmtVals(s.F)
			l.Tok("F").Nat(s.F.Code).Str("").Str(format).Nat(len(vals))
			for _, v := range vals {
				if sv, ok := v.(string); ok {
					l.Tok("S").Str(sv)
				} else {
					l.Tok("O")
				}
			}
			l.Str(fmt.Sprintf(format, vals...))
		case "JSON":
			enc, encErr := encRef(s.J.Variant, s.J.V.val())
			l.Tok("J").Nat(s.J.Variant).Nat(s.J.Code).Bool(s.J.HasExtra).Str(unhex(s.J.Extra)).Bool(encErr == nil).Bytes(enc)
		default:
			kind := map[string]int{"String": 0, "HTML": 1, "Data": 2, "SendStatus": 3, "NoContent": 4, "Reader": 5}[s.Op]
			text := string(s.payload())
			if s.Op == "SendStatus" { // documented: the standard status text is the body (net/http's table is a parameter)
				if text = http.StatusText(s.Code); text == "" {
					text = strconv.Itoa(s.Code) + " Status Code"
				}
			}
			l.Tok("T").Nat(kind).Nat(s.Code).Str(s.CT).Str(text)
		}
	}
	in := l.String()
	l.Sep().Nat(len(k.Steps))
	lostThenOK, sawLost := false, false
	obsAll := make([]renObs, len(k.Steps))
	for i := 0; i < len(k.Steps); i++ {
		if k.Steps[i].Nest && i+1 < len(k.Steps) {
			j, done := i+1, false
			obsAll[i] = runRenStep(k.Steps[i], func() { obsAll[j], done = runRenStep(k.Steps[j], nil), true })
			if !done { // the outer helper never wrote: the next request simply comes afterwards
				obsAll[j] = runRenStep(k.Steps[j], nil)
			}
			i++
			continue
		}
		obsAll[i] = runRenStep(k.Steps[i], nil)
	}
	for _, o := range obsAll {
		switch {
		case o.panicked:
			l.Tok("P")
		case o.err != nil:
			l.Tok("E").Bytes(o.body)
			sawLost = true
		default:
			l.Tok("R").Nat(o.code).Str(o.ct).Bytes(o.body).Bool(o.same)
			if sawLost {
				lostThenOK = true
			}
		}
	}
	if sawLost {
		// a case must reproduce on its own (replay): whatever process-wide scratch state (sync.Pool) a
		// lost response left behind is dropped before the next case - two cycles empty a pool
		runtime.GC()
		runtime.GC()
	}
	if st != nil {
		st.Case(in[len(id):], lostThenOK)
		st.Count("R")
		st.Count("R_steps_" + strconv.Itoa(len(k.Steps)))
		if lostThenOK {
			st.Count("R_success_after_a_lost_response")
		}
		for _, s := range k.Steps {
			st.Count("R_op_" + s.Op)
			if s.After != "" {
				st.Count("R_content_type_relabelled_afterwards")
			}
			if s.Head {
				st.Count("R_head_request")
			}
			if s.Nest {
				st.Count("R_next_request_served_inside_this_write")
			}
			if s.FailAt > 0 {
				st.Count("R_flaky_writer_mode_" + strconv.Itoa(s.Mode) + "_at_" + strconv.Itoa(s.FailAt))
			}
			if s.Op == "Stringf" && len(s.F.Args) == 1 && s.F.Args[0].K == "s" && strings.Count(unhex(s.F.Format), "%") == 1 && strings.Contains(unhex(s.F.Format), "%s") {
				st.Count("R_stringf_fast_path")
			}
		}
	}
	return l.String() + hx.Comment(caseT{R: k})
}
