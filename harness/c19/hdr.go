package main

import (
	"encoding/hex"
	"errors"
	"mime"
	"net/http"
	"net/http/httptest"
	"net/textproto"
	"net/url"
	"strconv"
	"strings"

	"rivaas.dev/app"
	riverrors "rivaas.dev/errors"
	"rivaas.dev/router"
	"verif/harness/hx"
)

// appFailFormatter is an application-defined error formatter: it answers with one extra header (several values)
// and its own content type — the header part of app.Context.Fail is what the AppFail operation observes.
type appFailFormatter struct {
	key, ct string
	vals    []string
}

func (f appFailFormatter) Format(_ *http.Request, err error) riverrors.Response {
	return riverrors.Response{Status: http.StatusTeapot, ContentType: f.ct, Body: map[string]string{"error": err.Error()},
		Headers: http.Header{f.key: append([]string(nil), f.vals...)}}
}

// runAppFail serves one request on an app whose handler fails; the response headers as sent.
func runAppFail(a []string) (h http.Header, panicked bool) {
	ap, err := app.New(app.WithServiceName("c19"), app.WithServiceVersion("1.0.0"),
		app.WithErrorFormatter(appFailFormatter{key: a[0], ct: a[1], vals: a[2:]}))
	if err != nil {
		panic(err)
	}
	ap.GET("/fail", func(c *app.Context) {
		defer func() {
			if p := recover(); p != nil {
				panicked = true
			}
		}()
		c.Fail(errors.New("boom"))
	})
	rec := httptest.NewRecorder()
	func() {
		defer func() {
			if p := recover(); p != nil {
				panicked = true
			}
		}()
		ap.Router().ServeHTTP(rec, httptest.NewRequest(http.MethodGet, "/fail", nil))
	}()
	return rec.Header(), panicked
}

type hdrOp struct {
	Op   string
	A    []string // hex
	Code int      `json:",omitempty"`
}

type hdrCase struct {
	Ops  []hdrOp
	Path string `json:",omitempty"` // request path ("" = /c19); /c19p/<segment>/end matches a parameter route
	Diag bool   `json:",omitempty"` // the router has a diagnostics handler registered (router.WithDiagnostics)
}

var hdrPaths = []string{"", "", "", "/c19p/plain/end", "/c19p/a%0d%0aSet-Cookie:%20s=evil/end", "/c19p/x%0Ay/end", "/c19p/%0d/end", "/c19p/caf%C3%A9/end"}

func (o hdrOp) args() []string {
	out := make([]string, len(o.A))
	for i, a := range o.A {
		out[i] = unhex(a)
	}
	return out
}

// keys a script may name freely (none of them is touched by http.ServeFile / http.Error)
var hdrKeys = []string{"X-Custom", "x-custom", "X-A", "Vary", "vary", "VARY", "Link", "link", "Set-Cookie", "Location", "location",
	"Allow", "Content-Disposition", "X-Request-Id", "x b", "Cache-Tag"}
var hdrVals = []string{"abc", "intro", "../up", "edit?x=1", "a b", "", "\r", "\n", "\r\n", "x\r\nSet-Cookie: evil=1", "a\nb", "a\rb", "\x00", "\t", "\x7f", "é",
	", ", "Accept", "Accept-Encoding", "Cookie", "accept", "Origin", "no-cache", "v\r\n\r\n<html>", "\n\n", "trail\r", "\rlead", "/p?x=1"}

func hexs(ss ...string) []string {
	out := make([]string, len(ss))
	for i, s := range ss {
		out[i] = hex.EncodeToString([]byte(s))
	}
	return out
}

func genHVal(r *hx.Rand) string {
	if r.Chance(1, 3) {
		return hx.Pick(r, hdrVals) + hx.Pick(r, hdrVals)
	}
	return hx.Pick(r, hdrVals)
}

const readBackKey = "\x00read-back"

// cookieReadBack plays the client: it takes the cookie of the LAST Set-Cookie line, sends it back in a
// new request and returns what GetCookie(name) reads there (nothing on error or when no line was set).
func cookieReadBack(lines []string, name string) []string {
	if len(lines) == 0 {
		return nil
	}
	cs := (&http.Response{Header: http.Header{"Set-Cookie": lines[len(lines)-1:]}}).Cookies()
	if len(cs) == 0 {
		return nil
	}
	req := httptest.NewRequest(http.MethodGet, "/c19c", nil)
	req.AddCookie(&http.Cookie{Name: cs[0].Name, Value: cs[0].Value})
	var out []string
	cookieScript = func(c *router.Context) {
		if v, err := c.GetCookie(name); err == nil {
			out = []string{v}
		}
	}
	rt.ServeHTTP(httptest.NewRecorder(), req)
	return out
}

var cookieScript func(c *router.Context)

func init() {
	rt.GET("/c19c", func(c *router.Context) { cookieScript(c) })
}

var cookieVals = []string{"abc", "a b", "3q2+7w==", "C++", "a+b c", "%41", "100%", "é", "a;b", "x=y", "\"q\"", "", "a\r\nb", "~._-", "/p?x=1&y=2", "\x00\xff"}

func genHdrOp(r *hx.Rand) hdrOp {
	if r.Chance(1, 12) {
		return hdrOp{Op: "CookieRT", A: hexs(hx.Pick(r, []string{"sid", "theme", "a b", "", "tok"}), hx.Pick(r, cookieVals))}
	}
	switch r.Intn(16) {
	case 0, 1, 2:
		return hdrOp{Op: "Header", A: hexs(hx.Pick(r, hdrKeys), genHVal(r))}
	case 3, 4, 5:
		return hdrOp{Op: "Append", A: hexs(hx.Pick(r, hdrKeys), genHVal(r))}
	case 6, 7:
		n := r.Range(0, 3)
		fs := make([]string, n)
		for i := range fs {
			fs[i] = genHVal(r)
		}
		return hdrOp{Op: "Vary", A: hexs(fs...)}
	case 8:
		return hdrOp{Op: "Link", A: hexs(genHVal(r), hx.Pick(r, []string{"next", "last", "pre\r\nv", "", "a\"b"}))}
	case 9:
		return hdrOp{Op: "Redirect", A: hexs(genHVal(r)), Code: hx.Pick(r, []int{301, 302, 303, 307, 308})}
	case 10:
		return hdrOp{Op: "Location", A: hexs(genHVal(r))}
	case 11:
		return hdrOp{Op: "ContentType", A: hexs(hx.Pick(r, []string{"json", ".json", "html", ".htm", "xml", "txt", "png", ".unknownext", "application/x\r\ny",
			"text/plain", "a/b\nc", "", ".", "j\rson", "pdf", "css", "\r\n"}))}
	case 12:
		path := hx.Pick(r, []string{"/nonexistent-verif/a.pdf", "/nonexistent-verif/dir/", "/nonexistent-verif/", "nonexistent-verif.txt", "/nonexistent-verif/a\r\nb.txt", "/nonexistent-verif/x\"y"})
		if r.Chance(1, 2) {
			return hdrOp{Op: "Download", A: hexs(path)}
		}
		return hdrOp{Op: "Download", A: hexs(path, hx.Pick(r, []string{"report.pdf", "", "a\r\nb.pdf", "x\ny", "q\"uote.txt"}))}
	case 13:
		n := r.Range(0, 3)
		ms := make([]string, n)
		for i := range ms {
			ms[i] = hx.Pick(r, []string{"GET", "POST", "PUT", "DELETE", "PA\r\nTCH", "get", "X\nY"})
		}
		return hdrOp{Op: "NotAllowed", A: hexs(ms...)}
	case 14:
		return hdrOp{Op: "SetCookie", A: hexs(hx.Pick(r, []string{"sid", "a b", "", "n\r\nx", "theme"}), genHVal(r),
			hx.Pick(r, []string{"/", "", "/p\r\nq", "/a;b"}), hx.Pick(r, []string{"", "example.com", "ex\r\nample.com", ".a.b"}))}
	default:
		if r.Chance(1, 2) {
			return hdrOp{Op: "Data", A: hexs(hx.Pick(r, []string{"text/plain", "", "application/x\r\ny", "a/b\nc", "image/png"})), Code: 200}
		}
		return hdrOp{Op: "Reader", A: hexs(hx.Pick(r, []string{"text/plain", "", "application/x\r\ny", "image/png"}), hx.Pick(r, hdrKeys), genHVal(r)), Code: 200}
	}
}

// genAppFail: the script is ONE failing request on an app with an application-defined error formatter that
// returns a header with 1..3 values (request-derived text in any of them) and a content type.
func genAppFail(r *hx.Rand) *hdrCase {
	keys := []string{"X-Custom", "WWW-Authenticate", "Link", "x-custom", "X-Request-Id", "Retry-After"}
	a := []string{hx.Pick(r, keys), hx.Pick(r, []string{"application/problem+json", "", "application/x\r\ny", "application/vnd.api+json"})}
	for i, n := 0, r.Range(1, 3); i < n; i++ {
		a = append(a, genHVal(r))
	}
	return &hdrCase{Ops: []hdrOp{{Op: "AppFail", A: hexs(a...)}}}
}

func genHdr(r *hx.Rand) *hdrCase {
	if r.Chance(1, 25) {
		return genAppFail(r)
	}
	k := &hdrCase{Path: hx.Pick(r, hdrPaths), Diag: r.Chance(1, 3)}
	n := r.Range(1, 5)
	for i := 0; i < n; i++ {
		op := genHdrOp(r)
		// http.ServeFile rewrites headers of its own (Content-Type, Location on a directory, …):
		// Download only ends a script
		for op.Op == "Download" && i < n-1 {
			op = genHdrOp(r)
		}
		k.Ops = append(k.Ops, op)
	}
	if r.Chance(1, 3) && n >= 2 { // force an overlap: two operations on the same key
		a, b := &k.Ops[0], &k.Ops[n-1]
		if (a.Op == "Header" || a.Op == "Append") && (b.Op == "Header" || b.Op == "Append") {
			b.A[0] = a.A[0]
		}
	}
	return k
}

// external results (parameters of the model) and the header keys an operation touches
func hdrShip(o hdrOp) (ship []string, keys []string) {
	a := o.args()
	canon := textproto.CanonicalMIMEHeaderKey
	switch o.Op {
	case "Header", "Append":
		keys = []string{canon(a[0])}
	case "Vary":
		keys = []string{"Vary"}
	case "Link":
		keys = []string{"Link"}
	case "Redirect", "Location":
		keys = []string{"Location"}
	case "ContentType":
		ext := a[0]
		if !strings.HasPrefix(ext, ".") {
			ext = "." + ext
		}
		ship = []string{mime.TypeByExtension(ext)}
		keys = []string{"Content-Type"}
	case "Download":
		keys = []string{"Content-Disposition"}
	case "NotAllowed":
		keys = []string{"Allow", "Content-Type"}
	case "SetCookie":
		ck := &http.Cookie{Name: a[0], Value: url.QueryEscape(a[1]), MaxAge: 60, Path: a[2], Domain: a[3], Secure: true, HttpOnly: true}
		ship = []string{ck.String()}
		keys = []string{"Set-Cookie"}
	case "CookieRT":
		ck := &http.Cookie{Name: a[0], Value: url.QueryEscape(a[1]), MaxAge: 60, Path: "/", HttpOnly: true}
		ship = []string{ck.String()}
		keys = []string{"Set-Cookie", readBackKey}
	case "Data":
		keys = []string{"Content-Type"}
	case "AppFail":
		keys = []string{canon(a[0]), "Content-Type"}
	case "Reader":
		keys = []string{"Content-Type", canon(a[1])}
	}
	return
}

func doHdrOp(c *router.Context, o hdrOp) (panicked bool) {
	defer func() {
		if p := recover(); p != nil {
			panicked = true
		}
	}()
	a := o.args()
	switch o.Op {
	case "Header":
		c.Header(a[0], a[1])
	case "Append":
		c.AppendHeader(a[0], a[1])
	case "Vary":
		c.Vary(a...)
	case "Link":
		c.Link(a[0], a[1])
	case "Redirect":
		c.Redirect(o.Code, a[0])
	case "Location":
		c.Location(a[0])
	case "ContentType":
		c.ContentType(a[0])
	case "Download":
		if len(a) > 1 {
			_ = c.Download(a[0], a[1])
		} else {
			_ = c.Download(a[0])
		}
	case "NotAllowed":
		c.MethodNotAllowed(append([]string(nil), a...))
	case "SetCookie":
		c.SetCookie(a[0], a[1], 60, a[2], a[3], true, true)
	case "CookieRT":
		c.SetCookie(a[0], a[1], 60, "/", "", false, true)
	case "Data":
		_ = c.Data(o.Code, a[0], []byte("x"))
	case "Reader":
		_ = c.DataFromReader(o.Code, -1, a[0], strings.NewReader("x"), map[string]string{a[1]: a[2]})
	}
	return false
}

func emitHdr(id string, k *hdrCase, st *hx.Stats) string {
	l := hx.NewLine(id).Tok("H").Nat(len(k.Ops))
	allKeys := make([][]string, len(k.Ops))
	ctl := false
	for i, o := range k.Ops {
		ship, keys := hdrShip(o)
		allKeys[i] = keys
		l.Tok(o.Op).Strs(o.args()).Nat(o.Code).Strs(ship).Strs(keys)
		for _, a := range o.args() {
			if strings.ContainsAny(a, "\r\n\x00") {
				ctl = true
			}
		}
	}
	in := l.String()
	type obsT struct {
		p    bool
		vals [][]string
	}
	obs := make([]obsT, len(k.Ops))
	if len(k.Ops) == 1 && k.Ops[0].Op == "AppFail" {
		h, p := runAppFail(k.Ops[0].args())
		obs[0].p = p
		for _, key := range allKeys[0] {
			obs[0].vals = append(obs[0].vals, append([]string(nil), h[key]...))
		}
	} else {
		serveAt(k.Path, k.Diag, func(c *router.Context) {
			for i, o := range k.Ops {
				obs[i].p = doHdrOp(c, o)
				for _, key := range allKeys[i] {
					if key == readBackKey {
						obs[i].vals = append(obs[i].vals, cookieReadBack(c.Response.Header()["Set-Cookie"], o.args()[0]))
						continue
					}
					obs[i].vals = append(obs[i].vals, append([]string(nil), c.Response.Header()[key]...))
				}
			}
		})
	}
	l.Sep().Nat(len(k.Ops))
	leak := false
	for _, ob := range obs {
		if ob.p {
			l.Tok("P")
			continue
		}
		l.Tok("V").Nat(len(ob.vals))
		for _, vs := range ob.vals {
			l.Strs(vs)
			for _, v := range vs {
				if strings.ContainsAny(v, "\r\n") {
					leak = true
				}
			}
		}
	}
	if st != nil {
		st.Case(in[len(id):], ctl)
		st.Count("H")
		if k.Diag {
			st.Count("H_router_with_diagnostics_handler")
		}
		if strings.Contains(k.Path, "%0") {
			st.Count("H_request_path_with_encoded_CR_LF")
		}
		for _, o := range k.Ops {
			st.Count("H_op_" + o.Op)
		}
		if leak {
			st.Count("H_crlf_emitted")
		}
		st.Count("H_ops_" + strconv.Itoa(len(k.Ops)))
	}
	return l.String() + hx.Comment(caseT{H: k})
}
