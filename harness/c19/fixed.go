package main

import "encoding/hex"

func hx1(s string) string { return hex.EncodeToString([]byte(s)) }

// fixedCases: the witnesses of the §7 findings and boundary cases, emitted before the random cases.
func fixedCases() []caseT {
	accept := "text/html, application/json;q=0.9"
	return []caseT{
		// K19a: Accepts ; AcceptsEncodings ; Accepts on one context
		{N: &negCase{Calls: []negCall{
			{kAccept, accept, []string{"html"}, false, 0},
			{kEncoding, "gzip", []string{"gzip"}, false, 0},
			{kAccept, accept, []string{"html"}, false, 0},
		}}},
		// K19b: q=0 does not exclude
		{N: &negCase{Calls: []negCall{{kEncoding, "gzip;q=0", []string{"gzip"}, false, 0}}}},
		{N: &negCase{Calls: []negCall{{kAccept, "text/html;q=0, */*", []string{"html", "json"}, false, 0}}}},
		{N: &negCase{Calls: []negCall{{kEncoding, "*;q=0.1, gzip", []string{"br", "gzip"}, false, 0}}}},
		{N: &negCase{Calls: []negCall{{kAccept, "text/*;q=0.9, text/html;q=0.1, application/json;q=0.5", []string{"html", "json"}, false, 0}}}},
		// K19e: a lone double quote as parameter value panicked
		{N: &negCase{Calls: []negCall{{kEncoding, "gzip;q=\"", []string{"gzip"}, false, 0}}}},
		{N: &negCase{Calls: []negCall{{kAccept, "text/html;level=\"", []string{"html"}, false, 0}}}},
		// K19f: upper-case Q
		{N: &negCase{Calls: []negCall{{kEncoding, "gzip;Q=0", []string{"gzip"}, false, 0}}}},
		// K19g: blank before the semicolon
		{N: &negCase{Calls: []negCall{{kEncoding, "gzip ;q=0, *", []string{"gzip"}, false, 0}}}},
		{N: &negCase{Calls: []negCall{{kEncoding, "gzip ;q=0.5", []string{"gzip"}, false, 0}}}},
		// the arena boundary: 16 and 17 ranges cached, then another parse
		{N: &negCase{Calls: []negCall{
			{kAccept, "a/a,b/b,c/c,d/d,e/e,f/f,g/g,h/h,i/i,j/j,k/k,l/l,m/m,n/n,o/o,text/html", []string{"html"}, false, 0},
			{kLanguage, "en", []string{"en"}, false, 0},
			{kAccept, "a/a,b/b,c/c,d/d,e/e,f/f,g/g,h/h,i/i,j/j,k/k,l/l,m/m,n/n,o/o,text/html", []string{"html"}, false, 0},
			{kAccept, "a/a,b/b,c/c,d/d,e/e,f/f,g/g,h/h,i/i,j/j,k/k,l/l,m/m,n/n,o/o,p/p,text/html", []string{"html"}, false, 0},
			{kCharset, "utf-8", []string{"utf-8"}, false, 0},
			{kAccept, "a/a,b/b,c/c,d/d,e/e,f/f,g/g,h/h,i/i,j/j,k/k,l/l,m/m,n/n,o/o,p/p,text/html", []string{"html"}, false, 0},
		}}},
		// K19j: the second field line of a list-valued header
		{N: &negCase{Calls: []negCall{{kEncoding, "*,gzip;q=0", []string{"gzip"}, false, 1}}}},
		{N: &negCase{Calls: []negCall{{kAccept, "text/html;q=0.5,application/json", []string{"html", "json"}, false, 1}}}},
		// documented rows of the suite
		{N: &negCase{Calls: []negCall{{kLanguage, "en-US, en;q=0.9, fr;q=0.8", []string{"en", "fr", "de"}, false, 0}}}},
		{N: &negCase{Calls: []negCall{{kAccept, "text/html,application/xhtml+xml,application/xml;q=0.9,image/webp,image/apng,*/*;q=0.8", []string{"json", "html"}, false, 0}}}},
		{N: &negCase{Calls: []negCall{{kEncoding, "gzip, br;q=1.0, deflate;q=0.8", []string{"gzip", "br", "deflate"}, false, 0}}}},
		// K19c: the fast path of Stringf
		{F: &fmtCase{Code: 200, Format: hx1("100%%s"), Args: []argT{{K: "s", S: hx1("x")}}}},
		{F: &fmtCase{Code: 200, Format: hx1("%s %d"), Args: []argT{{K: "s", S: hx1("x")}}}},
		{F: &fmtCase{Code: 200, Format: hx1("User: %s"), Args: []argT{{K: "s", S: hx1("bob")}}}},
		{F: &fmtCase{Code: 201, Format: hx1("%s"), Args: []argT{{K: "s", S: hx1("")}}}},
		// K19i: a fast-path write fails once, the fallback formatted the response again behind it
		{R: &renCase{Steps: []renStep{
			{Op: "Stringf", F: &fmtCase{Code: 200, Format: hx1("a%sb"), Args: []argT{{K: "s", S: hx1("x")}}}, FailAt: 2, Mode: 2},
			{Op: "Stringf", F: &fmtCase{Code: 200, Format: hx1("a%sb"), Args: []argT{{K: "s", S: hx1("x")}}}, FailAt: 1, Mode: 1},
		}}},
		// a lost response (client gone), then further responses on other requests: each exactly its own bytes
		{R: &renCase{Steps: []renStep{
			{Op: "Stringf", F: &fmtCase{Code: 200, Format: hx1("session token of %s is 7f3a9c"), Args: []argT{{K: "s", S: hx1("alice")}}}, FailAt: 1},
			{Op: "Stringf", F: &fmtCase{Code: 200, Format: hx1("hello %s"), Args: []argT{{K: "s", S: hx1("bob")}}}},
			{Op: "String", Code: 200, Text: hx1("plain")},
			{Op: "Stringf", F: &fmtCase{Code: 200, Format: hx1("%d items for %s"), Args: []argT{{K: "i", I: 3}, {K: "s", S: hx1("bob")}}}},
			{Op: "JSON", J: &jsnCase{Variant: 4, Code: 200, V: jv{K: "s", S: hx1("é")}}, FailAt: 1, Mode: 1},
			{Op: "Stringf", F: &fmtCase{Code: 201, Format: hx1("<%s>"), Args: []argT{{K: "s", S: hx1("")}}}},
		}}},
		// Format: documented examples and an exclusion
		{M: &fmtNegCase{Code: 200, Accept: "application/json", V: jv{K: "s", S: hx1("u")}}},
		{M: &fmtNegCase{Code: 200, Accept: "text/html", V: jv{K: "s", S: hx1("u")}}},
		{M: &fmtNegCase{Code: 200, Accept: "text/plain", V: jv{K: "i", I: 7}}},
		{M: &fmtNegCase{Code: 201, Accept: "text/html;q=0, application/xml;q=0.3", V: jv{K: "s", S: hx1("u")}}},
		{M: &fmtNegCase{Code: 200, Accept: "image/png", V: jv{K: "s", S: hx1("u")}}},
		// escaper: BMP, astral, invalid
		{J: &jsnCase{Variant: 4, Code: 200, V: jv{K: "s", S: hx1("Hello, سلام 😀 \xff")}}},
		{J: &jsnCase{Variant: 3, Code: 200, V: jv{K: "a", A: []jv{{K: "i", I: 1}}}}},
		{J: &jsnCase{Variant: 5, Code: 200, V: jv{K: "s", S: hx1("<x>")}}},
		// K19d: AppendHeader second call, Vary
		{H: &hdrCase{Ops: []hdrOp{{Op: "Append", A: hexs("X-A", "a")}, {Op: "Append", A: hexs("X-A", "b\r\nSet-Cookie: evil=1")}}}},
		{H: &hdrCase{Ops: []hdrOp{{Op: "Vary", A: hexs("Accept\r\nX: y")}}}},
		// K19h: Data / DataFromReader
		{H: &hdrCase{Ops: []hdrOp{{Op: "Data", A: hexs("text/plain\r\nX: y"), Code: 200}}}},
		{H: &hdrCase{Ops: []hdrOp{{Op: "Reader", A: hexs("text/plain\r\nX: y", "X-A", "v\r\nSet-Cookie: a=b"), Code: 200}}}},
		{H: &hdrCase{Ops: []hdrOp{{Op: "Header", A: hexs("X-A", "a\r\nb")}, {Op: "Redirect", A: hexs("/x\r\nSet-Cookie: a=b"), Code: 302}}}},
	}
}
