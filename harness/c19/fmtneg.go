package main

import (
	"fmt"
	"strings"

	"rivaas.dev/router"
	"verif/harness/hx"
)

// Family M: Format(code, data) - negotiation over json / html / xml / txt followed by the rendering of
// the chosen representation - optionally after other negotiation calls on the same context.
// fmt.Sprintf("%v", data) and json.Encoder.Encode(data) are evaluated here and shipped.

type fmtNegCase struct {
	Pre    []negCall `json:",omitempty"`
	Code   int
	Accept string
	V      jv
}

var fmtNegAccepts = []string{"application/json", "text/html", "application/xml", "text/plain", "text/plain;q=0.9, text/html;q=0.8",
	"text/html;q=0, */*", "*/*", "text/*", "application/*;q=0.5, text/plain;q=0.6", "image/png", "text/*;q=0", "application/json;q=0, application/xml",
	"text/html, application/json;q=0.9", "application/json;q=0.5,text/html;q=0.5", "TEXT/HTML", "application/xml;q=0.2, text/plain;q=0.1, */*;q=0.05",
	"*/*;q=0", "text/plain ;q=1, application/json ; Q=0"}

func genFmtNeg(r *hx.Rand) *fmtNegCase {
	k := &fmtNegCase{Code: hx.Pick(r, []int{200, 201, 404, 500})}
	if r.Chance(1, 2) {
		k.Accept = hx.Pick(r, fmtNegAccepts)
	} else {
		k.Accept, _ = genNegHeader(r, kAccept)
	}
	k.V = genVal(r, 1)
	if r.Chance(1, 30) {
		k.V = jv{K: "nan"}
	}
	for n := r.Intn(3); n > 0; n-- {
		kind := r.Intn(4)
		h, gh := genNegHeader(r, kind)
		if kind == kAccept && r.Chance(1, 2) {
			h = k.Accept // fills the per-request cache with the header Format will ask about
		}
		o, gok := genOffers(r, kind)
		k.Pre = append(k.Pre, negCall{kind, h, o, gh && gok, 0})
	}
	return k
}

func emitFmtNeg(id string, k *fmtNegCase, st *hx.Stats) string {
	v := k.V.val()
	vtext := fmt.Sprintf("%v", v)
	enc, encErr := encRef(0, v)
	l := hx.NewLine(id).Tok("M").Nat(len(k.Pre))
	pf := map[string]bool{}
	var pfOrder []string
	addPF := func(h string) {
		for _, x := range rawValues(h) {
			if !pf[x] {
				pf[x] = true
				pfOrder = append(pfOrder, x)
			}
		}
	}
	for _, c := range k.Pre {
		l.Nat(c.Kind).Str(c.Header).Strs(c.Offers)
		addPF(c.Header)
	}
	addPF(k.Accept)
	l.Nat(k.Code).Str(k.Accept).Str(vtext).Bool(encErr == nil).Bytes(enc).Nat(len(pfOrder))
	for _, x := range pfOrder {
		m, ok := pfMicro(x)
		l.Str(x).Bool(ok)
		if ok {
			l.Nat(m)
		}
	}
	in := l.String()
	var rerr error
	panicked := false
	rec := serve(nil, func(c *router.Context) {
		defer func() {
			if p := recover(); p != nil {
				panicked = true
			}
		}()
		for _, call := range k.Pre {
			doNeg(c, call, call.Offers)
		}
		if k.Accept == "" {
			c.Request.Header.Del("Accept")
		} else {
			c.Request.Header.Set("Accept", k.Accept)
		}
		rerr = c.Format(k.Code, v)
	})
	body := rec.Body.Bytes()
	ct := rec.Header().Get("Content-Type")
	l.Sep()
	switch {
	case panicked:
		l.Tok("P")
	case rerr != nil:
		l.Tok("E").Nat(len(body)).Str(ct)
	default:
		same := true
		if strings.HasPrefix(ct, "application/json") {
			same = jsonSame(&jsnCase{Variant: 0}, v, "", body)
		}
		l.Tok("R").Nat(rec.Code).Str(ct).Bytes(body).Bool(same)
	}
	if st != nil {
		st.Case(in[len(id):], strings.ContainsAny(k.Accept, ";*") || len(k.Pre) > 0)
		st.Count("M")
		st.Count("M_rendered_as_" + strings.SplitN(ct+";", ";", 2)[0])
		if len(k.Pre) > 0 {
			st.Count("M_after_other_negotiation_calls")
		}
	}
	return l.String() + hx.Comment(caseT{M: k})
}
