package main

import (
	"math"
	"strconv"
	"strings"

	"rivaas.dev/router"
	"verif/harness/hx"
)

// kinds of negotiation call
const (
	kAccept = iota
	kCharset
	kEncoding
	kLanguage
)

var negHeader = [4]string{"Accept", "Accept-Charset", "Accept-Encoding", "Accept-Language"}

type negCall struct {
	Kind   int
	Header string // value of the call's own request header at the time of the call ("" = absent)
	Offers []string
	G      bool `json:",omitempty"` // generated from the grammatical pools only (statistics)
	// Split > 0: the header travels as TWO field lines, Header cut at its Split-th comma (a list-valued
	// field sent in several lines means the same as the lines joined with ", ": RFC 9110 §5.3)
	Split int `json:",omitempty"`
}

// fieldLines returns the field lines of the call's header.
func (k negCall) fieldLines() []string {
	if k.Split > 0 {
		n := 0
		for i := 0; i < len(k.Header); i++ {
			if k.Header[i] == ',' {
				n++
				if n == k.Split {
					return []string{k.Header[:i], k.Header[i+1:]}
				}
			}
		}
	}
	return []string{k.Header}
}

type negCase struct {
	Calls []negCall
	// Shared: the handler keeps ONE offers buffer and refills it for every call (c.Accepts(buf...)),
	// instead of passing a fresh slice each time
	Shared bool `json:",omitempty"`
}

func doNeg(c *router.Context, k negCall, offers []string) (ans string, panicked bool) {
	defer func() {
		if p := recover(); p != nil {
			panicked = true
		}
	}()
	c.Request.Header.Del(negHeader[k.Kind])
	if k.Header != "" {
		for _, line := range k.fieldLines() {
			c.Request.Header.Add(negHeader[k.Kind], line)
		}
	}
	switch k.Kind {
	case kAccept:
		ans = c.Accepts(offers...)
	case kCharset:
		ans = c.AcceptsCharsets(offers...)
	case kEncoding:
		ans = c.AcceptsEncodings(offers...)
	default:
		ans = c.AcceptsLanguages(offers...)
	}
	return
}

// --- generator ---------------------------------------------------------------------------------

var mediaRanges = []string{"text/html", "application/json", "application/xml", "text/plain", "image/png",
	"text/*", "application/*", "image/*", "*/*", "*/*", "TEXT/HTML", "Application/Json", "application/vnd.api+json",
	"text/css", "application/xhtml+xml", "*/html", "text", "*", "text/", "/html", "a/b/c"}
var mediaRangesValid = mediaRanges[:15]
var mediaOffersValid = []string{"json", "html", "xml", "text", "txt", "png", "css", "application/json", "text/html",
	"text/plain", "image/png", "TEXT/HTML", " text/plain ", "application/vnd.api+json", "application/xml", "JSON", "image/webp", "webp"}
var mediaOffers = []string{"json", "html", "xml", "text", "txt", "png", "css", "application/json", "text/html",
	"text/plain", "image/png", "TEXT/HTML", " text/plain ", "application/vnd.api+json", "application/xml", "JSON",
	"foo", "application/json;version=1", "", "image/webp", "webp"}
var tokPools = [4][]string{
	nil,
	{"utf-8", "iso-8859-1", "us-ascii", "utf-16", "*", "UTF-8", "utf", "windows-1252"},
	{"gzip", "br", "deflate", "identity", "compress", "*", "GZIP", "x-gzip", "zstd"},
	{"en", "en-US", "en-GB", "fr", "fr-CA", "de", "*", "EN-us", "zh-Hant-TW", "zh-Hant", "zh", "e", "en-", "-US", "es"},
}
var tokOffers = [4][]string{
	nil,
	{"utf-8", "iso-8859-1", "us-ascii", "utf-16", "UTF-8", " utf-8", "utf", "ascii", ""},
	{"gzip", "br", "deflate", "identity", "compress", "GZIP", "gzip ", "x-gzip", "zstd", ""},
	{"en", "en-US", "en-GB", "fr", "fr-CA", "de", "EN", "zh-Hant-TW", "zh", "es", " en", ""},
}
var tokPoolsValid = [4][]string{
	nil,
	{"utf-8", "iso-8859-1", "us-ascii", "utf-16", "*", "UTF-8", "utf", "windows-1252", "\u017fhift_jis", "shift_jis"},
	{"gzip", "br", "deflate", "identity", "compress", "*", "GZIP", "x-gzip", "zstd", "\u00b5-law", "gzi\u03c2"},
	{"en", "en-US", "en-GB", "fr", "fr-CA", "de", "*", "EN-us", "zh-Hant-TW", "zh-Hant", "zh", "e", "es", "\u017fv", "sv", "\u017fv-FI", "sv-FI"},
}
var tokOffersValid = [4][]string{
	nil,
	{"utf-8", "iso-8859-1", "us-ascii", "utf-16", "UTF-8", " utf-8", "utf", "ascii", "shift_jis", "Shift_JIS"},
	{"gzip", "br", "deflate", "identity", "compress", "GZIP", "gzip ", "x-gzip", "zstd", "\u00b5-law", "gzis"},
	{"en", "en-US", "en-GB", "fr", "fr-CA", "de", "EN", "zh-Hant-TW", "zh", "es", " en", "sv", "SV", "\u017fv"},
}

// Non-ASCII bytes in the pools are letters WITHOUT case mapping under strings.ToLower (long s, micro sign,
// final sigma): for them Go's lower-casing is the identity, like the ASCII-only lower-casing of HTTP and
// of the model. Upper-case non-ASCII letters are not generated (Go folds them, HTTP does not).
var qValid = []string{"0", "1", "0.5", "0.9", "0.8", "0.7", "0.1", "0.001", "0.999", "1.0", "1.000", "0.0", "0.000", "0.50", "0.10", "0.01", "0.3", "0.30", "0.300"}
var qOdd = []string{"0.", "1.", ".5", "0.5555", "1.5", "2", "-1", "abc", "", "1e-1", "0.50000", "+0.5", "00.5", "1.0000",
	"0x1p-1", "5e-1", "NaN", "inf", "0,5", "1.001", "0.0000", "0.9999", "01", "1x", "0.5x", "00", "-0", "0.0001"}
var seps = []string{",", ", ", ", ", " , ", ",,", ",\t", ", ,", " ,"}

func genQ(r *hx.Rand, clean bool) string {
	if clean && r.Chance(1, 12) {
		return hx.Pick(r, []string{"0.", "1."}) // grammatical, but only the float fallback accepts them
	}
	if !clean && r.Chance(1, 4) {
		return hx.Pick(r, qOdd)
	}
	if r.Chance(1, 6) { // any 0..3 digit qvalue
		s := "0."
		for d := r.Range(1, 3); d > 0; d-- {
			s += strconv.Itoa(r.Intn(10))
		}
		return s
	}
	return hx.Pick(r, qValid)
}

func genParams(r *hx.Rand, clean bool) string {
	q := genQ(r, clean)
	if clean { // only forms inside the RFC 9110 grammar (blanks around ';', empty parameters, other parameters, upper-case Q)
		switch r.Intn(14) {
		case 0, 1, 2, 3:
			return ";q=" + q
		case 4:
			return "; q=" + q
		case 5:
			return " ;q=" + q
		case 6:
			return " ; q=" + q
		case 7:
			return ";Q=" + q
		case 8:
			return ";q=" + q + ";x=1"
		case 9:
			return ";level=1;q=" + q
		case 10:
			return ";;q=" + q + "; "
		case 11:
			return ";charset=utf-8"
		case 12:
			return "\t;\tq=" + q + " "
		default:
			return ";v=\"1\";q=" + q
		}
	}
	switch r.Intn(24) {
	case 0, 1, 2, 3, 4, 5, 6, 7:
		return ";q=" + q
	case 8, 9:
		return "; q=" + q
	case 10:
		return " ;q=" + q
	case 11:
		return " ; q=" + q
	case 12:
		return ";Q=" + q
	case 13:
		return ";q = " + q
	case 14:
		return ";q=" + q + ";x=1"
	case 15:
		return ";level=1;q=" + q
	case 16:
		return ";q=" + q + ";q=" + genQ(r, clean)
	case 17:
		return hx.Pick(r, []string{";q", ";=1", ";", ";;", "; ;q=" + q, ";q=", ";x"})
	case 18:
		return ";;q=" + q
	case 19:
		return ";q=\"" + q + "\""
	case 20:
		return ";charset=utf-8"
	case 21:
		return ";title=\"a,b\";q=" + q
	case 22:
		return "\t;\tq=" + q + " "
	default:
		return ";q=" + q + " "
	}
}

func genNegHeader(r *hx.Rand, kind int) (string, bool) {
	if r.Chance(1, 12) {
		return "", true
	}
	clean := r.Chance(3, 5)
	pool := mediaRanges
	if kind != kAccept {
		pool = tokPools[kind]
	}
	if clean {
		pool = mediaRangesValid
		if kind != kAccept {
			pool = tokPoolsValid[kind]
		}
	}
	n := r.Range(1, 5)
	switch r.Intn(30) {
	case 0:
		n = 0
	case 1, 4:
		n = hx.Pick(r, []int{15, 16, 16, 16, 17, 18}) // around the 16 cells of the parse arena, mostly exactly 16
	case 2:
		n = r.Range(6, 12)
	case 3:
		if r.Chance(1, 3) {
			n = r.Range(30, 120) // very many elements: far beyond the arena, the cache and any fixed buffer
		}
	}
	var b strings.Builder
	if r.Chance(1, 10) {
		b.WriteString(hx.Pick(r, []string{" ", ",", "\t", ", "}))
	}
	for i := 0; i < n; i++ {
		if i > 0 {
			b.WriteString(hx.Pick(r, seps))
		}
		b.WriteString(hx.Pick(r, pool))
		if r.Chance(3, 5) {
			b.WriteString(genParams(r, clean))
		}
	}
	if r.Chance(1, 10) {
		b.WriteString(hx.Pick(r, []string{" ", ",", "\t", ", "}))
	}
	return b.String(), clean
}

// genLongHeader: very many elements with the decisive one at the far end - a wildcard of middling weight
// near the front, fillers that match no offer, and in the tail an offer's own range with q=0 or with the
// best weight. Whatever a parser does after its n-th element shows in the answer.
func genLongHeader(r *hx.Rand, kind int, offers []string) string {
	wild, filler := "*/*", func(i int) string { return "x-f" + strconv.Itoa(i%7) + "/y" + strconv.Itoa(i) }
	if kind != kAccept {
		wild, filler = "*", func(i int) string { return "x-f" + strconv.Itoa(i) }
	}
	n := hx.Pick(r, []int{14, 15, 16, 17, 20, 31, 32, 33, 40, 64, 65, 100, 129, 300})
	parts := make([]string, 0, n+2)
	for i := 0; i < n; i++ {
		parts = append(parts, filler(i))
	}
	parts[r.Intn(3)] = wild + ";q=0." + strconv.Itoa(r.Range(1, 8))
	tail := "x-none"
	if len(offers) > 0 {
		tail = strings.ToLower(strings.TrimSpace(hx.Pick(r, offers)))
		if kind == kAccept {
			tail = map[string]string{"json": "application/json", "html": "text/html", "xml": "application/xml", "text": "text/plain",
				"txt": "text/plain", "png": "image/png", "css": "text/css", "webp": "image/webp"}[tail]
			if tail == "" {
				tail = "text/html"
			}
		}
	}
	parts = append(parts, tail+hx.Pick(r, []string{";q=0", ";q=0", ";q=0.9", "", ";q=0.001"}))
	return strings.Join(parts, hx.Pick(r, []string{",", ", "}))
}

func genOffers(r *hx.Rand, kind int) ([]string, bool) {
	pool := mediaOffers
	if kind != kAccept {
		pool = tokOffers[kind]
	}
	valid := r.Chance(3, 4)
	if valid {
		pool = mediaOffersValid
		if kind != kAccept {
			pool = tokOffersValid[kind]
		}
	}
	n := r.Range(1, 4)
	if r.Chance(1, 25) {
		n = 0
	}
	out := make([]string, n)
	for i := range out {
		out[i] = hx.Pick(r, pool)
	}
	return out, valid
}

func genNeg(r *hx.Rand) *negCase {
	n := r.Range(1, 8)
	// the request carries one value per header; a call may change its header first (1 in 8)
	var cur [4]string
	var offers [4][]string
	var gh, go_ [4]bool
	for k := 0; k < 4; k++ {
		cur[k], gh[k] = genNegHeader(r, k)
		offers[k], go_[k] = genOffers(r, k)
	}
	k := &negCase{Shared: r.Chance(1, 2)}
	for i := 0; i < n; i++ {
		kind := r.Intn(4)
		if r.Chance(1, 3) {
			kind = kAccept // the cached path
		}
		if r.Chance(1, 8) {
			cur[kind], gh[kind] = genNegHeader(r, kind)
		}
		if r.Chance(1, 4) {
			offers[kind], go_[kind] = genOffers(r, kind)
		}
		if r.Chance(1, 20) {
			cur[kind], gh[kind] = genLongHeader(r, kind, offers[kind]), true
		}
		call := negCall{kind, cur[kind], offers[kind], gh[kind] && go_[kind], 0}
		if nc := strings.Count(call.Header, ","); nc > 0 && r.Chance(1, 6) {
			call.Split = r.Range(1, nc)
		}
		if i > 0 && cur[kind] != "" && r.Chance(1, 7) {
			// a further field line is ADDED to the request between two calls, the first line staying as it was
			// (Request.Header.Add): the list the helper negotiates over is the lines joined
			extra, g2 := genNegHeader(r, kind)
			if len(offers[kind]) > 0 && r.Chance(1, 2) { // decisive: excludes / prefers one of the offers
				extra, g2 = hx.Pick(r, offers[kind])+hx.Pick(r, []string{";q=0", ";q=1", ";q=0.001"}), true
			}
			if extra != "" {
				call.Split = strings.Count(cur[kind], ",") + 1
				cur[kind], gh[kind] = cur[kind]+","+extra, gh[kind] && g2
				call.Header, call.G = cur[kind], gh[kind] && go_[kind]
			}
		}
		k.Calls = append(k.Calls, call)
	}
	return k
}

// --- strconv.ParseFloat is a parameter of the model: evaluated here for every raw parameter value ---

// rawValues over-approximates the set of strings the parser may hand to strconv.ParseFloat.
func rawValues(h string) []string {
	var out []string
	for _, part := range strings.Split(h, ",") {
		for _, p := range strings.Split(part, ";") {
			i := strings.IndexByte(p, '=')
			if i < 0 {
				continue
			}
			v := strings.Trim(p[i+1:], " \t")
			out = append(out, v)
			if len(v) >= 2 && v[0] == '"' && v[len(v)-1] == '"' {
				out = append(out, v[1:len(v)-1])
			}
		}
	}
	return out
}

// pfMicro is the fallback's verdict on raw: (quality in millionths, accepted). The generator only uses
// values that are exact in millionths, so the float comparison in the real code is order-isomorphic.
func pfMicro(raw string) (int, bool) {
	q, err := strconv.ParseFloat(raw, 64)
	if err != nil || !(q >= 0 && q <= 1) {
		return 0, false
	}
	m := math.Round(q * 1e6)
	if float64(m)/1e6 != q {
		panic("q-value not exact in millionths: " + raw)
	}
	return int(m), true
}

func negNontrivial(k *negCase) bool {
	kinds := map[int]bool{}
	odd := false
	for _, c := range k.Calls {
		kinds[c.Kind] = true
		if strings.ContainsAny(c.Header, ";* \t") || strings.Contains(c.Header, ",,") {
			odd = true
		}
	}
	return odd || (len(k.Calls) >= 2 && len(kinds) >= 2)
}

func emitNeg(id string, k *negCase, st *hx.Stats) string {
	l := hx.NewLine(id).Tok("N").Nat(len(k.Calls))
	pf := map[string]bool{}
	var pfOrder []string
	for _, c := range k.Calls {
		l.Nat(c.Kind).Str(c.Header).Strs(c.Offers)
		for _, v := range rawValues(c.Header) {
			if !pf[v] {
				pf[v] = true
				pfOrder = append(pfOrder, v)
			}
		}
	}
	l.Nat(len(pfOrder))
	for _, v := range pfOrder {
		m, ok := pfMicro(v)
		l.Str(v).Bool(ok)
		if ok {
			l.Nat(m)
		}
	}
	in := l.String()
	// the history on one context
	type obsT struct {
		ans string
		p   bool
	}
	obs := make([]obsT, len(k.Calls))
	serve(nil, func(c *router.Context) {
		buf := make([]string, 0, 8)
		for i, call := range k.Calls {
			offers := call.Offers
			if k.Shared {
				buf = append(buf[:0], call.Offers...)
				offers = buf
			}
			obs[i].ans, obs[i].p = doNeg(c, call, offers)
		}
	})
	l.Sep().Nat(len(k.Calls))
	changed := false
	for i, call := range k.Calls {
		var fresh obsT
		serve(nil, func(c *router.Context) { fresh.ans, fresh.p = doNeg(c, call, append([]string(nil), call.Offers...)) })
		if obs[i].p || fresh.p {
			l.Tok("P")
			continue
		}
		l.Tok("A").Str(obs[i].ans).Str(fresh.ans)
		if obs[i].ans != fresh.ans {
			changed = true
		}
	}
	if st != nil {
		st.Case(in[len(id):], negNontrivial(k))
		st.Count("N")
		if k.Shared {
			st.Count("N_shared_offers_buffer")
		}
		st.Count("N_calls_" + strconv.Itoa(len(k.Calls)))
		if changed {
			st.Count("N_history_dependent")
		}
		prev := map[string]bool{}
		for _, c := range k.Calls {
			st.Count("N_call")
			if c.G {
				st.Count("N_call_grammatical_header_and_offers")
			}
			if len(c.fieldLines()) > 1 {
				st.Count("N_call_header_in_two_field_lines")
			}
			key := strconv.Itoa(c.Kind) + "|" + c.Header
			if c.Kind == kAccept && prev[key] {
				st.Count("N_call_accept_cache_hit")
			}
			prev[key] = true
			st.Count("N_kind_" + strconv.Itoa(c.Kind))
			if strings.Count(c.Header, ",") >= 15 {
				st.Count("N_header_ge16")
			}
			if strings.Count(c.Header, ",") >= 32 {
				st.Count("N_header_ge33")
			}
		}
	}
	return l.String() + hx.Comment(caseT{N: k})
}
