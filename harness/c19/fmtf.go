package main

import (
	"context"
	"encoding/hex"
	"errors"
	"fmt"
	"math/big"
	"net/url"
	"strings"

	"rivaas.dev/router"
	"verif/harness/hx"
)

// argT is one Stringf argument in a form that survives the JSON comment.
type argT struct {
	K string // s string (hex), i int, f float, b bool, n nil, e error, is []int, bs []byte (hex), st struct, sr fmt.Stringer,
	// es error+Stringer, fs Formatter+Stringer, bf *big.Float, np nil *url.URL, ur *url.URL
	S string  `json:",omitempty"`
	I int64   `json:",omitempty"`
	F float64 `json:",omitempty"`
}

type pointT struct{ X, Y int }
type namedT string

func (n namedT) String() string { return "<" + string(n) + ">" }

// errStringerT is an error that also has a String method: fmt prints Error().
type errStringerT struct{ s string }

func (e errStringerT) Error() string  { return "error(" + e.s + ")" }
func (e errStringerT) String() string { return "string(" + e.s + ")" }

// fmtStringerT formats itself (fmt.Formatter) and has a String method: fmt calls Format.
type fmtStringerT struct{ s string }

func (f fmtStringerT) Format(st fmt.State, verb rune) { fmt.Fprintf(st, "F[%c|%s]", verb, f.s) }
func (f fmtStringerT) String() string                 { return "string(" + f.s + ")" }

func (a argT) val() any {
	switch a.K {
	case "s":
		b, _ := hex.DecodeString(a.S)
		return string(b)
	case "i":
		return int(a.I)
	case "f":
		return a.F
	case "b":
		return a.I != 0
	case "n":
		return nil
	case "f32":
		return float32(a.F)
	case "u":
		return uint(a.I)
	case "i8":
		return int8(a.I)
	case "u64":
		return uint64(a.I)
	case "e":
		return errors.New(a.S)
	case "is":
		return []int{int(a.I), 2, 3}
	case "bs":
		b, _ := hex.DecodeString(a.S)
		return b
	case "st":
		return pointT{int(a.I), -1}
	case "sr":
		return namedT(a.S)
	case "es":
		return errStringerT{a.S}
	case "fs":
		return fmtStringerT{a.S}
	case "bf":
		return big.NewFloat(a.F)
	case "np":
		return (*url.URL)(nil) // nil pointer whose String method dereferences: fmt prints <nil>
	case "ur":
		return &url.URL{Scheme: "https", Host: "example.com", Path: "/" + a.S}
	}
	panic("bad arg kind " + a.K)
}

// (fmtCase.Cancelled: the request context is already done when Stringf is called — a client that hung up, a deadline
// that passed: the helper still writes what it documents; whether anybody reads it is not its business)
type fmtCase struct {
	Cancelled bool `json:",omitempty"`
	Code      int
	Format    string // hex
	Args      []argT
	PreCT     string // Content-Type set before the call ("" = none)
}

var fmtLits = []string{"", "a", "100", "hello ", " world", "é", "x=", "\n", "%%", "%%", "{}", "s", "%%s"}
var fmtVerbs = []string{"%s", "%s", "%s", "%s", "%d", "%v", "%q", "%x", "%5s", "%-5s", "%05d", "%+d", "%t", "%f", "%.2f", "%T",
	"%c", "%U", "%e", "%g", "%b", "%o", "%X", "%#v", "%+v", "%[1]s", "%[2]d", "%[1]v", "%*d", "%.*f", "%", "%!", "%z", "% s", "% d",
	"%.3s", "%10.2s", "%#x", "%#q", "%08.3f", "%[3]s", "%[0]s", "%-s", "%+s", "%#s", "%0s", "%ss", "%S"}
var fmtStrings = []string{"", "x", "hello", "%s", "%", "%d", "héllo", "a b", "\x00", "日本", "100%", "\xff"}

// stringish: operands other than a plain string that %s prints as text (each through a different fmt rule)
func genStringish(r *hx.Rand) argT {
	return hx.Pick(r, []argT{{K: "sr", S: "nm"}, {K: "es", S: "x"}, {K: "fs", S: "y"}, {K: "bf", F: 1.5}, {K: "np"}, {K: "ur", S: "p"},
		{K: "e", S: "boom"}, {K: "bs", S: "6869"}, {K: "n"}})
}

func genArg(r *hx.Rand) argT {
	if r.Chance(1, 10) {
		return genStringish(r)
	}
	switch r.Intn(14) {
	case 0, 1, 2, 3, 4, 5:
		return argT{K: "s", S: hex.EncodeToString([]byte(hx.Pick(r, fmtStrings)))}
	case 6, 7:
		return argT{K: "i", I: int64(r.Range(-1000, 100000))}
	case 8:
		return argT{K: "f", F: float64(r.Range(-1000, 1000)) / 8}
	case 9:
		return argT{K: "b", I: int64(r.Intn(2))}
	case 10:
		return argT{K: "n"}
	case 11:
		return hx.Pick(r, []argT{{K: "e", S: "boom"}, {K: "is", I: 7}, {K: "st", I: 4}, {K: "sr", S: "nm"}})
	case 12:
		return argT{K: "bs", S: hex.EncodeToString([]byte(hx.Pick(r, fmtStrings)))}
	default:
		return argT{K: "sr", S: hx.Pick(r, []string{"", "n", "%s"})}
	}
}

// fitArgs returns operands of a kind the verb accepts.
func fitArgs(r *hx.Rand, verb string) []argT {
	str := argT{K: "s", S: hex.EncodeToString([]byte(hx.Pick(r, fmtStrings)))}
	num := argT{K: "i", I: int64(r.Range(-1000, 100000))}
	flt := argT{K: "f", F: float64(r.Range(-1000, 1000)) / 8}
	if len(verb) < 2 || strings.Contains(verb, "[") {
		return []argT{genArg(r)}
	}
	var out []argT
	if strings.Contains(verb, "*") {
		out = append(out, argT{K: "i", I: int64(r.Range(0, 9))})
	}
	switch verb[len(verb)-1] {
	case 's', 'q':
		out = append(out, str)
	case 'd', 'b', 'o', 'c', 'U', 'x', 'X':
		out = append(out, num)
	case 'f', 'e', 'g':
		out = append(out, flt)
	case 't':
		out = append(out, argT{K: "b", I: int64(r.Intn(2))})
	case 'v', 'T':
		out = append(out, genArg(r))
	default: // "%", "%!", "%z", "%S": not verbs that consume sensibly
		if r.Chance(1, 2) {
			out = append(out, genArg(r))
		}
	}
	return out
}

func genFmt(r *hx.Rand) *fmtCase {
	k := &fmtCase{Code: hx.Pick(r, []int{200, 200, 201, 404, 500, 418})}
	var b strings.Builder
	switch r.Intn(10) {
	case 0: // exactly the fast path: literal, %s, literal
		plain := []string{"", "a", "100", "hello ", " world", "x=", "\n", "{}", "s", "é"}
		b.WriteString(hx.Pick(r, plain) + "%s" + hx.Pick(r, plain))
		k.Args = []argT{{K: "s", S: hex.EncodeToString([]byte(hx.Pick(r, fmtStrings)))}}
		if r.Chance(1, 3) { // the same shape with an operand that is not a string but prints as one
			k.Args = []argT{genStringish(r)}
		}
	case 1, 2: // the neighbourhood of the fast path: one string argument, a "%s" somewhere
		pieces := []string{"%s", "%%", "%", "%d", "%5s", "a", "100", "%%s", "%s%", "s", "% s", "%[1]s", " ", "%v"}
		n := r.Range(1, 4)
		hasS := false
		for i := 0; i < n; i++ {
			p := hx.Pick(r, pieces)
			if strings.Contains(p, "%s") {
				hasS = true
			}
			b.WriteString(p)
		}
		if !hasS {
			b.WriteString("%s")
		}
		if r.Chance(1, 2) {
			b.WriteString(hx.Pick(r, fmtLits))
		}
		k.Args = []argT{{K: "s", S: hex.EncodeToString([]byte(hx.Pick(r, fmtStrings)))}}
		if r.Chance(1, 6) {
			k.Args = append(k.Args, genArg(r))
		}
		if r.Chance(1, 8) {
			k.Args[0] = genArg(r)
		}
	case 3: // ONE bare directive other than %s with ONE scalar operand of any kind (fitting the verb or not): the
		// shape a "fast path for more verbs" would serve — %d with a float or a bool, %v with each scalar, …
		plain := []string{"", "a", "100", " items", "n=", "\n", "{}", "é"}
		b.WriteString(hx.Pick(r, plain) + hx.Pick(r, []string{"%d", "%d", "%v", "%v", "%t", "%x", "%g", "%f", "%q", "%c", "%e", "%o", "%b", "%U", "%T"}) + hx.Pick(r, plain))
		k.Args = []argT{hx.Pick(r, []argT{{K: "i", I: int64(r.Range(-1000, 100000))}, {K: "f", F: float64(r.Range(-1000, 1000)) / 8},
			{K: "f", F: float64(r.Range(-5, 5))}, {K: "b", I: int64(r.Intn(2))}, {K: "n"},
			{K: "f32", F: float64(r.Range(-40, 40)) / 8}, {K: "f32", F: 0.1}, {K: "u", I: int64(r.Range(0, 70000))}, {K: "i8", I: int64(r.Range(-128, 127))},
			{K: "u64", I: int64(r.Range(0, 1<<40))}, {K: "is", I: 7}, {K: "st", I: 4},
			{K: "s", S: hex.EncodeToString([]byte(hx.Pick(r, fmtStrings)))}})}
	default:
		n := r.Range(0, 5)
		matched := r.Chance(2, 3) // operands chosen to fit the verbs (no %!verb(type=…) markers)
		var fit []argT
		for i := 0; i < n; i++ {
			if r.Chance(1, 2) {
				b.WriteString(hx.Pick(r, fmtLits))
			}
			v := hx.Pick(r, fmtVerbs)
			b.WriteString(v)
			fit = append(fit, fitArgs(r, v)...)
		}
		if r.Chance(1, 2) {
			b.WriteString(hx.Pick(r, fmtLits))
		}
		if matched {
			k.Args = fit
			break
		}
		na := r.Range(0, 4)
		for i := 0; i < na; i++ {
			k.Args = append(k.Args, genArg(r))
		}
	}
	k.Format = hex.EncodeToString([]byte(b.String()))
	k.Cancelled = r.Chance(1, 8)
	if r.Chance(1, 10) {
		k.PreCT = hx.Pick(r, []string{"text/html", "application/x-custom"})
	}
	return k
}

func emitFmt(id string, k *fmtCase, st *hx.Stats) string {
	fb, _ := hex.DecodeString(k.Format)
	format := string(fb)
	vals := make([]any, len(k.Args))
	for i, a := range k.Args {
		vals[i] = a.val()
	}
	want := fmt.Sprintf(format, vals...) // fmt is a parameter of the model: evaluated here
	l := hx.NewLine(id).Tok("F").Nat(k.Code).Str(k.PreCT).Str(format).Nat(len(vals))
	for _, v := range vals {
		if s, ok := v.(string); ok {
			l.Tok("S").Str(s)
		} else {
			l.Tok("O")
		}
	}
	l.Str(want)
	in := l.String()
	var perr error
	panicked := false
	rec := serve(nil, func(c *router.Context) {
		defer func() {
			if p := recover(); p != nil {
				panicked = true
			}
		}()
		if k.PreCT != "" {
			c.Response.Header().Set("Content-Type", k.PreCT)
		}
		if k.Cancelled {
			ctx, cancel := context.WithCancel(c.Request.Context())
			cancel()
			c.Request = c.Request.WithContext(ctx)
		}
		perr = c.Stringf(k.Code, format, vals...)
	})
	l.Sep()
	switch {
	case panicked:
		l.Tok("P")
	case perr != nil:
		l.Tok("E")
	default:
		l.Tok("R").Nat(rec.Code).Str(rec.Header().Get("Content-Type")).Str(rec.Body.String())
	}
	if st != nil {
		oneStr := len(vals) == 1 && k.Args[0].K == "s"
		st.Case(in[len(id):], format != "%s" && strings.Contains(format, "%"))
		st.Count("F")
		if oneStr && strings.Contains(format, "%s") {
			st.Count("F_fastpath_candidate")
			if strings.Count(format, "%") == 1 {
				st.Count("F_fastpath_exact")
			}
		}
		if strings.Contains(want, "%!") {
			st.Count("F_sprintf_error_marker")
		}
		if len(vals) == 1 && k.Args[0].K != "s" && strings.Count(format, "%") == 1 && strings.Contains(format, "%s") {
			st.Count("F_single_pct_s_with_non_string_operand")
		}
	}
	return l.String() + hx.Comment(caseT{F: k})
}
