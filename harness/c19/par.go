package main

import (
	"bytes"
	"encoding/hex"
	"fmt"
	"net/http"
	"net/http/httptest"
	"os"
	"os/exec"
	"sort"
	"strconv"
	"strings"
	"sync"

	"rivaas.dev/router"
	"verif/harness/hx"
)

// Family P: requests served CONCURRENTLY. After a sequential prelude (requests that use Format, the
// negotiation helpers or Stringf - whatever may return pooled arenas and buffers to their pools), a few
// goroutines serve requests at the same time, each request a short history of negotiation calls followed
// by one fast-path Stringf. Every answer and every body is collected over all rounds; the per-call oracle
// is unchanged: one answer per (header, offers), the answer the call gets alone; body = fmt.Sprintf.
// A P case always runs in a fresh process (pools empty at the start), so it reproduces on its own.

type preStep struct {
	Op     string   // Format | Neg | Stringf
	Accept string   `json:",omitempty"`
	Data   string   `json:",omitempty"`
	Call   *negCall `json:",omitempty"`
}

type parWorker struct {
	Calls  []negCall
	Format string // hex: fast-path format (text around one %s)
	Val    string // hex
}

type parCase struct {
	Prelude []preStep
	Workers []parWorker
	Rounds  int
}

var workerScripts []func(c *router.Context)

func init() {
	rt.GET("/c19w/:id", func(c *router.Context) {
		i, _ := strconv.Atoi(c.Param("id"))
		workerScripts[i](c)
	})
}

func genPar(r *hx.Rand) *parCase {
	k := &parCase{Rounds: hx.Pick(r, []int{100, 200, 300})}
	for n := r.Range(0, 3); n > 0; n-- {
		switch r.Intn(4) {
		case 0, 1:
			h, _ := genNegHeader(r, kAccept)
			k.Prelude = append(k.Prelude, preStep{Op: "Format", Accept: h, Data: hx.Pick(r, []string{"x", "<b>", "é"})})
		case 2:
			kind := r.Intn(4)
			h, _ := genNegHeader(r, kind)
			o, _ := genOffers(r, kind)
			k.Prelude = append(k.Prelude, preStep{Op: "Neg", Call: &negCall{Kind: kind, Header: h, Offers: o}})
		default:
			k.Prelude = append(k.Prelude, preStep{Op: "Stringf", Data: "v"})
		}
	}
	plain := []string{"a", "w0 ", "<", ">", " end", "x=", "{}"}
	for w := r.Range(2, 4); w > 0; w-- {
		var pw parWorker
		for n := r.Range(1, 4); n > 0; n-- {
			kind := r.Intn(4)
			h, gh := genNegHeader(r, kind)
			o, gok := genOffers(r, kind)
			pw.Calls = append(pw.Calls, negCall{kind, h, o, gh && gok, 0})
		}
		pw.Format = hex.EncodeToString([]byte(hx.Pick(r, plain) + "%s" + hx.Pick(r, plain)))
		pw.Val = hex.EncodeToString([]byte(hx.Pick(r, fmtStrings)))
		k.Workers = append(k.Workers, pw)
	}
	return k
}

type parObs struct {
	answers []map[string]bool // per call: distinct answers over all rounds
	bodies  map[string]bool
	panics  int
}

func runPar(k *parCase) []parObs {
	for _, p := range k.Prelude {
		p := p
		switch p.Op {
		case "Format":
			serve(map[string]string{"Accept": p.Accept}, func(c *router.Context) { _ = c.Format(200, p.Data) })
		case "Neg":
			serve(nil, func(c *router.Context) { doNeg(c, *p.Call, p.Call.Offers) })
		default:
			serve(nil, func(c *router.Context) { _ = c.Stringf(200, "p=%s;", p.Data) })
		}
	}
	obs := make([]parObs, len(k.Workers))
	var mu sync.Mutex
	workerScripts = make([]func(c *router.Context), len(k.Workers))
	for i, pw := range k.Workers {
		i, pw := i, pw
		obs[i].answers = make([]map[string]bool, len(pw.Calls))
		for j := range obs[i].answers {
			obs[i].answers[j] = map[string]bool{}
		}
		obs[i].bodies = map[string]bool{}
		format, val := unhex(pw.Format), unhex(pw.Val)
		workerScripts[i] = func(c *router.Context) {
			got := make([]string, len(pw.Calls))
			panicked := false
			for j, call := range pw.Calls {
				a, p := doNeg(c, call, call.Offers)
				got[j], panicked = a, panicked || p
			}
			_ = c.Stringf(200, format, val)
			mu.Lock()
			for j, a := range got {
				obs[i].answers[j][a] = true
			}
			if panicked {
				obs[i].panics++
			}
			mu.Unlock()
		}
	}
	start := make(chan struct{})
	var wg sync.WaitGroup
	for i := range k.Workers {
		i := i
		wg.Add(1)
		go func() {
			defer wg.Done()
			<-start
			for n := 0; n < k.Rounds; n++ {
				req := httptest.NewRequest(http.MethodGet, "/c19w/"+strconv.Itoa(i), nil)
				rec := httptest.NewRecorder()
				rt.ServeHTTP(rec, req)
				b := rec.Body.String()
				mu.Lock()
				obs[i].bodies[b] = true
				mu.Unlock()
			}
		}()
	}
	close(start)
	wg.Wait()
	return obs
}

func sortedKeys(m map[string]bool) []string {
	out := make([]string, 0, len(m))
	for s := range m {
		out = append(out, s)
	}
	sort.Strings(out)
	return out
}

func emitPar(id string, k *parCase, st *hx.Stats) string {
	if st != nil {
		// gen mode: run the case in a fresh process (this binary, replay mode)
		st.Case(string(hx.Comment(caseT{P: k})), true)
		st.Count("P")
		st.Count("P_workers_" + strconv.Itoa(len(k.Workers)))
		for _, p := range k.Prelude {
			st.Count("P_prelude_" + p.Op)
		}
		cmd := exec.Command(os.Args[0], "replay")
		cmd.Stdin = strings.NewReader(id + " P" + hx.Comment(caseT{P: k}) + "\n")
		var out bytes.Buffer
		cmd.Stdout, cmd.Stderr = &out, os.Stderr
		if err := cmd.Run(); err != nil {
			panic(fmt.Sprintf("child process for %s: %v", id, err))
		}
		return strings.TrimRight(out.String(), "\n")
	}
	l := hx.NewLine(id).Tok("P").Nat(len(k.Workers))
	pf := map[string]bool{}
	var pfOrder []string
	for _, pw := range k.Workers {
		l.Nat(len(pw.Calls))
		for _, c := range pw.Calls {
			l.Nat(c.Kind).Str(c.Header).Strs(c.Offers)
			for _, v := range rawValues(c.Header) {
				if !pf[v] {
					pf[v] = true
					pfOrder = append(pfOrder, v)
				}
			}
		}
		l.Str(unhex(pw.Format)).Str(unhex(pw.Val)).Str(fmt.Sprintf(unhex(pw.Format), unhex(pw.Val)))
	}
	l.Nat(len(pfOrder))
	for _, v := range pfOrder {
		m, ok := pfMicro(v)
		l.Str(v).Bool(ok)
		if ok {
			l.Nat(m)
		}
	}
	// the answer every call gets alone, before anything else happened in this process
	fresh := make([][]string, len(k.Workers))
	for i, pw := range k.Workers {
		for _, call := range pw.Calls {
			call := call
			var a string
			serve(nil, func(c *router.Context) { a, _ = doNeg(c, call, call.Offers) })
			fresh[i] = append(fresh[i], a)
		}
	}
	obs := runPar(k)
	l.Sep().Nat(len(k.Workers))
	for i, ob := range obs {
		l.Nat(ob.panics).Nat(len(ob.answers))
		for j, m := range ob.answers {
			l.Strs(sortedKeys(m)).Str(fresh[i][j])
		}
		l.Strs(sortedKeys(ob.bodies))
	}
	return l.String() + hx.Comment(caseT{P: k})
}
