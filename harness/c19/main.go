// Harness for C19 (context helpers compute what they document). Four case families, one letter each:
//
//	N  content negotiation: a history of 1..8 Accepts / AcceptsCharsets / AcceptsEncodings /
//	   AcceptsLanguages calls on ONE request context; per call the answer and the answer the same
//	   call gets on a fresh context
//	F  Stringf: format + arguments, fmt.Sprintf evaluated here and shipped
//	J  JSON / IndentedJSON / PureJSON / SecureJSON / ASCIIJSON / JSONP: encoding/json evaluated here
//	   and shipped; body, status, content type, and whether the body decodes to the same value
//	R  render HISTORIES: 2..6 requests on one router, one render call each (Stringf fast and slow path,
//	   String, HTML, Data, the JSON helpers), some served to a ResponseWriter whose k-th Write fails;
//	   per request: error reported or status, content type, body
//	M  Format(code, data): negotiation over json/html/xml/txt + rendering, after 0..2 other negotiation calls
//	P  requests served concurrently (after a sequential prelude with Format), each in a fresh process:
//	   per call the set of answers over all rounds, per worker the set of Stringf bodies
//	H  header setters: a script of Header / AppendHeader / Vary / Link / Redirect / Location /
//	   ContentType / Download / MethodNotAllowed / SetCookie / Data / DataFromReader calls; after each call the
//	   values of the header it touched
//
// Only the public API of rivaas.dev/router is used: a real router, a real pooled context.
package main

import (
	"fmt"
	"io"
	"log"
	"net/http"
	"net/http/httptest"
	"os"
	"os/exec"
	"strconv"
	"strings"

	"rivaas.dev/router"
	"verif/harness/hx"
)

// caseT is the concrete case as it travels in the JSON comment of a case line (for `replay`).
type caseT struct {
	N *negCase    `json:",omitempty"`
	F *fmtCase    `json:",omitempty"`
	J *jsnCase    `json:",omitempty"`
	H *hdrCase    `json:",omitempty"`
	R *renCase    `json:",omitempty"`
	P *parCase    `json:",omitempty"`
	M *fmtNegCase `json:",omitempty"`
}

var rt = router.MustNew()

// rtDiag is configured with a diagnostics handler (the documented way to observe blocked header injections)
var rtDiag = router.MustNew(router.WithDiagnostics(router.DiagnosticHandlerFunc(func(e router.DiagnosticEvent) { diagEvents++ })))
var diagEvents int
var script func(c *router.Context)

func init() {
	log.SetOutput(io.Discard) // net/http reports every cookie byte it drops
	rt.GET("/c19", func(c *router.Context) { script(c) })
	rt.HEAD("/c19", func(c *router.Context) { script(c) })
	rt.GET("/c19p/:seg/end", func(c *router.Context) { script(c) })
	rtDiag.GET("/c19", func(c *router.Context) { script(c) })
	rtDiag.GET("/c19p/:seg/end", func(c *router.Context) { script(c) })
	rtDiag.Warmup()
	rt.Warmup()
}

// serve runs f inside a real request on a pooled context and returns the recorder.
func serve(hdr map[string]string, f func(c *router.Context)) *httptest.ResponseRecorder {
	req := httptest.NewRequest(http.MethodGet, "/c19", nil)
	for k, v := range hdr {
		if v != "" {
			req.Header.Set(k, v)
		}
	}
	rec := httptest.NewRecorder()
	script = f
	rt.ServeHTTP(rec, req)
	return rec
}

// canary: a fixed handful of calls whose observations depend on nothing but process-wide state. It is
// compared with its own value at process start (never with a constant): it judges nothing, it only
// tells whether an earlier case contaminated the process.
func canary() string {
	var b strings.Builder
	rec := serve(nil, func(c *router.Context) { _ = c.JSON(200, map[string]int{"a": 1}) })
	fmt.Fprintf(&b, "%d|%q|%q;", rec.Code, rec.Header().Get("Content-Type"), rec.Body.String())
	rec = serve(nil, func(c *router.Context) { _ = c.Stringf(200, "c=%s;", "v") })
	fmt.Fprintf(&b, "%d|%q|%q;", rec.Code, rec.Header().Get("Content-Type"), rec.Body.String())
	rec = serve(nil, func(c *router.Context) { _ = c.ASCIIJSON(201, "\u00e9") })
	fmt.Fprintf(&b, "%d|%q|%q;", rec.Code, rec.Header().Get("Content-Type"), rec.Body.String())
	serve(map[string]string{"Accept": "text/html;q=0.5, application/json", "Accept-Encoding": "br;q=0, gzip"}, func(c *router.Context) {
		fmt.Fprintf(&b, "%q|%q|%q;", c.Accepts("html", "json"), c.AcceptsEncodings("br", "gzip"), c.Accepts("html"))
		c.Header("X-Canary", "a\r\nb")
		c.AppendHeader("X-Canary", "c")
		fmt.Fprintf(&b, "%q;", c.Response.Header()["X-Canary"])
	})
	return b.String()
}

// serveAt is serve on another request path (escaped form; "" = /c19).
func serveAt(path string, diag bool, f func(c *router.Context)) *httptest.ResponseRecorder {
	if path == "" {
		path = "/c19"
	}
	req := httptest.NewRequest(http.MethodGet, path, nil)
	rec := httptest.NewRecorder()
	script = f
	if diag {
		rtDiag.ServeHTTP(rec, req)
	} else {
		rt.ServeHTTP(rec, req)
	}
	return rec
}

func emit(id string, k caseT, st *hx.Stats) string {
	switch {
	case k.N != nil:
		return emitNeg(id, k.N, st)
	case k.F != nil:
		return emitFmt(id, k.F, st)
	case k.J != nil:
		return emitJsn(id, k.J, st)
	case k.H != nil:
		return emitHdr(id, k.H, st)
	case k.R != nil:
		return emitRen(id, k.R, st)
	case k.P != nil:
		return emitPar(id, k.P, st)
	case k.M != nil:
		return emitFmtNeg(id, k.M, st)
	}
	panic("empty case")
}

func main() {
	a := hx.ParseArgs()
	w := hx.Out()
	defer w.Flush()
	switch a.Cmd {
	case "gen":
		r := hx.NewRand(a.Seed)
		st := hx.NewStats()
		// generation is pure (no call into the router), so a run can be resumed at any case index
		skip, _ := strconv.Atoi(os.Getenv("C19_SKIP"))
		fixed := fixedCases()
		total := len(fixed) + a.N
		// Every case line must reproduce on its own. A case that leaves process-wide state behind (a
		// poisoned package-level value, a dirty pool) fails on its own trailing steps; the canary notices
		// the contamination before the NEXT case and the rest of the run continues in a fresh process.
		base := canary()
		for i := 0; i < total; i++ {
			var k caseT
			id := fmt.Sprintf("c19-fix-%d", i)
			if i < len(fixed) {
				k = fixed[i]
			} else {
				id = fmt.Sprintf("c19-%d-%d", a.Seed, i-len(fixed))
				switch x := r.Intn(200); {
				case x < 5:
					k.P = genPar(r)
				case x < 20:
					k.M = genFmtNeg(r)
				case x < 75:
					k.N = genNeg(r)
				case x < 108:
					k.F = genFmt(r)
				case x < 141:
					k.J = genJsn(r)
				case x < 166:
					k.H = genHdr(r)
				default:
					k.R = genRen(r)
				}
			}
			if i < skip {
				continue
			}
			if i > skip && canary() != base {
				w.Flush()
				cmd := exec.Command(os.Args[0], os.Args[1:]...)
				cmd.Env = append(os.Environ(), "C19_SKIP="+strconv.Itoa(i))
				cmd.Stdout, cmd.Stderr = os.Stdout, os.Stderr
				if err := cmd.Run(); err != nil {
					fmt.Fprintln(os.Stderr, "resumed run failed:", err)
					os.Exit(1)
				}
				return
			}
			fmt.Fprintln(w, emit(id, k, st))
		}
		st.Emit(w)
	case "replay":
		for _, line := range hx.StdinLines() {
			var k caseT
			id, err := hx.CaseFromComment(line, &k)
			if err != nil {
				fmt.Fprintf(w, "# cannot replay %q: %v\n", id, err)
				continue
			}
			fmt.Fprintln(w, emit(id, k, nil))
		}
	}
}
