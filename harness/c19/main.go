// Harness for C19 (context helpers compute what they document). Four case families, one letter each:
//
//	N  content negotiation: a history of 1..8 Accepts / AcceptsCharsets / AcceptsEncodings /
//	   AcceptsLanguages calls on ONE request context; per call the answer and the answer the same
//	   call gets on a fresh context
//	F  Stringf: format + arguments, fmt.Sprintf evaluated here and shipped
//	J  JSON / IndentedJSON / PureJSON / SecureJSON / ASCIIJSON / JSONP: encoding/json evaluated here
//	   and shipped; body, status, content type, and whether the body decodes to the same value
//	R  render HISTORIES: 2..6 requests on one router, one render call each (Stringf fast and slow path,
//	   String, HTML, Data, the JSON helpers), some served to a ResponseWriter whose k-th Write fails;
//	   per request: error reported or status, content type, body
//	H  header setters: a script of Header / AppendHeader / Vary / Link / Redirect / Location /
//	   ContentType / Download / MethodNotAllowed / SetCookie / Data / DataFromReader calls; after each call the
//	   values of the header it touched
//
// Only the public API of rivaas.dev/router is used: a real router, a real pooled context.
package main

import (
	"fmt"
	"io"
	"log"
	"net/http"
	"net/http/httptest"

	"rivaas.dev/router"
	"verif/harness/hx"
)

// caseT is the concrete case as it travels in the JSON comment of a case line (for `replay`).
type caseT struct {
	N *negCase `json:",omitempty"`
	F *fmtCase `json:",omitempty"`
	J *jsnCase `json:",omitempty"`
	H *hdrCase `json:",omitempty"`
	R *renCase `json:",omitempty"`
}

var rt = router.MustNew()
var script func(c *router.Context)

func init() {
	log.SetOutput(io.Discard) // net/http reports every cookie byte it drops
	rt.GET("/c19", func(c *router.Context) { script(c) })
	rt.Warmup()
}

// serve runs f inside a real request on a pooled context and returns the recorder.
func serve(hdr map[string]string, f func(c *router.Context)) *httptest.ResponseRecorder {
	req := httptest.NewRequest(http.MethodGet, "/c19", nil)
	for k, v := range hdr {
		if v != "" {
			req.Header.Set(k, v)
		}
	}
	rec := httptest.NewRecorder()
	script = f
	rt.ServeHTTP(rec, req)
	return rec
}

func emit(id string, k caseT, st *hx.Stats) string {
	switch {
	case k.N != nil:
		return emitNeg(id, k.N, st)
	case k.F != nil:
		return emitFmt(id, k.F, st)
	case k.J != nil:
		return emitJsn(id, k.J, st)
	case k.H != nil:
		return emitHdr(id, k.H, st)
	case k.R != nil:
		return emitRen(id, k.R, st)
	}
	panic("empty case")
}

func main() {
	a := hx.ParseArgs()
	w := hx.Out()
	defer w.Flush()
	switch a.Cmd {
	case "gen":
		r := hx.NewRand(a.Seed)
		st := hx.NewStats()
		for i, k := range fixedCases() {
			fmt.Fprintln(w, emit(fmt.Sprintf("c19-fix-%d", i), k, st))
		}
		for i := 0; i < a.N; i++ {
			var k caseT
			switch x := r.Intn(24); {
			case x < 9:
				k.N = genNeg(r)
			case x < 13:
				k.F = genFmt(r)
			case x < 17:
				k.J = genJsn(r)
			case x < 20:
				k.H = genHdr(r)
			default:
				k.R = genRen(r)
			}
			fmt.Fprintln(w, emit(fmt.Sprintf("c19-%d-%d", a.Seed, i), k, st))
		}
		st.Emit(w)
	case "replay":
		for _, line := range hx.StdinLines() {
			var k caseT
			id, err := hx.CaseFromComment(line, &k)
			if err != nil {
				fmt.Fprintf(w, "# cannot replay %q: %v\n", id, err)
				continue
			}
			fmt.Fprintln(w, emit(id, k, nil))
		}
	}
}
