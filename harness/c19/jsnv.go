package main

import (
	"bytes"
	"encoding/hex"
	"encoding/json"
	"math"
	"reflect"
	"strconv"
	"strings"
	"unicode/utf8"

	"rivaas.dev/router"
	"verif/harness/hx"
)

// jv is a JSON-encodable value in a form that survives the JSON comment (strings hex-encoded:
// they carry invalid UTF-8 on purpose).
type jv struct {
	K string  // z null, b bool, i int, f float, s string, a array, o object, st struct, nan, ch
	S string  `json:",omitempty"`
	I int64   `json:",omitempty"`
	F float64 `json:",omitempty"`
	A []jv    `json:",omitempty"`
	O []jkv   `json:",omitempty"`
}
type jkv struct {
	K string // hex
	V jv
}

type recT struct {
	Name string   `json:"name"`
	Tags []string `json:"tags,omitempty"`
	N    int      `json:"n"`
	Raw  string   `json:"<raw>"`
}

func unhex(s string) string { b, _ := hex.DecodeString(s); return string(b) }

func (v jv) val() any {
	switch v.K {
	case "z":
		return nil
	case "b":
		return v.I != 0
	case "i":
		return v.I
	case "f":
		return v.F
	case "s":
		return unhex(v.S)
	case "a":
		out := make([]any, len(v.A))
		for i, x := range v.A {
			out[i] = x.val()
		}
		return out
	case "o":
		out := map[string]any{}
		for _, kv := range v.O {
			out[unhex(kv.K)] = kv.V.val()
		}
		return out
	case "st":
		return recT{Name: unhex(v.S), Tags: []string{unhex(v.S), "t"}, N: int(v.I), Raw: "<&>"}
	case "nan":
		return math.NaN()
	case "ch":
		return make(chan int)
	}
	panic("bad value kind " + v.K)
}

type jsnCase struct {
	Variant  int // 0 JSON 1 IndentedJSON 2 PureJSON 3 SecureJSON 4 ASCIIJSON 5 JSONP
	Code     int
	HasExtra bool   // prefix / callback argument given
	Extra    string // hex
	V        jv
	// PreCT: a Content-Type that is already in the response header map when the helper is called (set by an
	// earlier middleware, or left over from a negotiation step); the helper labels its own output all the same
	PreCT string `json:",omitempty"`
}

// string material: ASCII, HTML-sensitive, BMP, line separators, astral, and every flavour of invalid UTF-8
var strAtoms = []string{"", "a", "hello", "<b>&amp;</b>", "\"q\"", "\\", "\n\t", "\x00\x1f", "\x7f", "\u00e9", "\u00df", "\u0633\u0644\u0627\u0645", "\u65e5\u672c\u8a9e",
	"\u2028", "\u2029", "\ufeff", "\ufffd", "\uffff", "\ud7ff", "\ue000", "\u0080", "\u07ff", "\u0800", "\U0001F600", "\U0001D11E", "\U00010000", "\U0010FFFF", "\U000FFFFF",
	"\xff", "\xfe", "\x80", "\xbf", "\xc0\x80", "\xc1\xbf", "\xc2", "\xe2\x82", "\xe2", "\xf0\x9f\x98", "\xf0\x9f", "\xf0",
	"\xed\xa0\x80", "\xed\xbf\xbf", "\xf4\x90\x80\x80", "\xf5\x80\x80\x80", "\xf8\x88\x80\x80\x80", "\xe0\x80\x80", "\xf0\x80\x80\x80",
	"\xc3\x28", "\xe2\x28\xa1", "\xf0\x28\x8c\xbc", "a\xc3", "\\u00e9", "\\\u00e9", "\\\\\u00e9", "\u00e9\\", "u00e9"}

func genStr(r *hx.Rand) string {
	n := r.Range(0, 4)
	if r.Chance(1, 5) {
		n = 1
	}
	var b strings.Builder
	for i := 0; i < n; i++ {
		b.WriteString(hx.Pick(r, strAtoms))
	}
	if r.Chance(1, 12) { // a random scalar value anywhere in the code space
		var buf [4]byte
		c := rune(r.Intn(0x110000))
		if c >= 0xD800 && c <= 0xDFFF {
			c = 0x1F600
		}
		b.Write(buf[:utf8.EncodeRune(buf[:], c)])
	}
	if r.Chance(1, 12) { // raw random bytes
		for i := r.Range(1, 4); i > 0; i-- {
			b.WriteByte(byte(r.Intn(256)))
		}
	}
	return b.String()
}

func genVal(r *hx.Rand, depth int) jv {
	x := r.Intn(12)
	if depth >= 3 && x >= 8 {
		x = r.Intn(8)
	}
	hs := func() string { return hex.EncodeToString([]byte(genStr(r))) }
	switch x {
	case 0:
		return jv{K: "z"}
	case 1:
		return jv{K: "b", I: int64(r.Intn(2))}
	case 2:
		return jv{K: "i", I: int64(r.Range(-100000, 100000))}
	case 3:
		return jv{K: "f", F: float64(r.Range(-4000, 4000)) / 16}
	case 4, 5, 6, 7:
		return jv{K: "s", S: hs()}
	case 8, 9:
		n := r.Range(0, 3)
		v := jv{K: "a"}
		for i := 0; i < n; i++ {
			v.A = append(v.A, genVal(r, depth+1))
		}
		return v
	case 10:
		n := r.Range(0, 3)
		v := jv{K: "o"}
		for i := 0; i < n; i++ {
			v.O = append(v.O, jkv{hs(), genVal(r, depth+1)})
		}
		return v
	default:
		return jv{K: "st", S: hs(), I: int64(r.Intn(100))}
	}
}

func genJsn(r *hx.Rand) *jsnCase {
	k := &jsnCase{Variant: r.Intn(6), Code: hx.Pick(r, []int{200, 200, 201, 400, 404, 500})}
	if r.Chance(1, 3) {
		k.Variant = 4 // the hand-written escaper
	}
	k.V = genVal(r, 0)
	if r.Chance(1, 40) {
		k.V = hx.Pick(r, []jv{{K: "nan"}, {K: "ch"}, {K: "a", A: []jv{{K: "nan"}}}})
	}
	if (k.Variant == 3 || k.Variant == 5) && r.Chance(1, 2) {
		k.HasExtra = true
		pool := []string{")]}',\n", "", "for(;;);", "while(1);", "é"}
		if k.Variant == 5 {
			pool = []string{"cb", "", "my.func", "callback", "a\r\nb", "$j_1"}
		}
		k.Extra = hex.EncodeToString([]byte(hx.Pick(r, pool)))
	}
	if r.Chance(1, 6) {
		k.PreCT = hx.Pick(r, []string{"application/json; charset=iso-8859-1", "application/problem+json", "application/json", "text/html",
			"application/vnd.api+json; ext=x", "application/x-ndjson", "APPLICATION/JSON;charset=latin1"})
	}
	return k
}

// encRef is what encoding/json produces for the variant (a parameter of the model).
func encRef(variant int, v any) ([]byte, error) {
	switch variant {
	case 1:
		return json.MarshalIndent(v, "", "  ")
	case 5:
		return json.Marshal(v)
	}
	var buf bytes.Buffer
	e := json.NewEncoder(&buf)
	if variant == 2 || variant == 4 {
		e.SetEscapeHTML(false)
	}
	err := e.Encode(v)
	return buf.Bytes(), err
}

func decodeAny(b []byte) (any, bool) {
	var x any
	if err := json.Unmarshal(b, &x); err != nil {
		return nil, false
	}
	return x, true
}

func callJSON(c *router.Context, k *jsnCase, v any, extra string) error {
	switch k.Variant {
	case 0:
		return c.JSON(k.Code, v)
	case 1:
		return c.IndentedJSON(k.Code, v)
	case 2:
		return c.PureJSON(k.Code, v)
	case 3:
		if k.HasExtra {
			return c.SecureJSON(k.Code, v, extra)
		}
		return c.SecureJSON(k.Code, v)
	case 4:
		return c.ASCIIJSON(k.Code, v)
	}
	if k.HasExtra {
		return c.JSONP(k.Code, v, extra)
	}
	return c.JSONP(k.Code, v)
}

// jsonSame: does the body (prefix / callback stripped) decode with encoding/json to the value plain
// json.Marshal's output decodes to?
func jsonSame(k *jsnCase, v any, extra string, body []byte) bool {
	ref, err := json.Marshal(v)
	if err != nil {
		return false
	}
	payload := body
	switch k.Variant {
	case 3:
		p := "while(1);"
		if k.HasExtra && extra != "" {
			p = extra
		}
		payload = bytes.TrimPrefix(payload, []byte(p))
	case 5:
		cb := "callback"
		if k.HasExtra && extra != "" {
			cb = extra
		}
		payload = bytes.TrimSuffix(bytes.TrimPrefix(payload, []byte(cb+"(")), []byte(")"))
	}
	a, ok1 := decodeAny(payload)
	b, ok2 := decodeAny(ref)
	return ok1 && ok2 && reflect.DeepEqual(a, b)
}

func emitJsn(id string, k *jsnCase, st *hx.Stats) string {
	v := k.V.val()
	extra := unhex(k.Extra)
	enc, encErr := encRef(k.Variant, v)
	l := hx.NewLine(id).Tok("J").Nat(k.Variant).Nat(k.Code).Bool(k.HasExtra).Str(extra).Bool(encErr == nil).Bytes(enc)
	in := l.String()
	var rerr error
	panicked := false
	rec := serve(nil, func(c *router.Context) {
		defer func() {
			if p := recover(); p != nil {
				panicked = true
			}
		}()
		if k.PreCT != "" && encErr == nil {
			c.Header("Content-Type", k.PreCT)
		}
		rerr = callJSON(c, k, v, extra)
	})
	body := rec.Body.Bytes()
	l.Sep()
	switch {
	case panicked:
		l.Tok("P")
	case rerr != nil:
		l.Tok("E").Nat(len(body)).Str(rec.Header().Get("Content-Type"))
	default:
		// does the body decode (with encoding/json) to the value plain json.Marshal decodes to?
		same := jsonSame(k, v, extra, body)
		l.Tok("R").Nat(rec.Code).Str(rec.Header().Get("Content-Type")).Bytes(body).Bool(same)
	}
	if st != nil {
		nonASCII, invalid, astral := false, !utf8.Valid(mustRaw(v)), false
		for _, c := range string(enc) {
			if c >= 0x80 {
				nonASCII = true
			}
			if c >= 0x10000 {
				astral = true
			}
		}
		st.Case(in[len(id):], nonASCII || invalid)
		st.Count("J")
		st.Count("J_variant_" + strconv.Itoa(k.Variant))
		if astral {
			st.Count("J_astral")
		}
		if invalid {
			st.Count("J_invalid_utf8_input")
		}
		if encErr != nil {
			st.Count("J_encode_error")
		}
	}
	return l.String() + hx.Comment(caseT{J: k})
}

// mustRaw concatenates every string of the value (to classify the input).
func mustRaw(v any) []byte {
	var b []byte
	var walk func(x any)
	walk = func(x any) {
		switch t := x.(type) {
		case string:
			b = append(b, t...)
		case []any:
			for _, y := range t {
				walk(y)
			}
		case map[string]any:
			for k, y := range t {
				b = append(b, k...)
				walk(y)
			}
		case recT:
			b = append(b, t.Name...)
		}
	}
	walk(v)
	return b
}
