// Harness for C07 (generated OpenAPI documents are valid, closed, complete and deterministic).
//
// Drives the real generator through its public API only: openapi.MustNew(...).Generate(ctx, ops...)
// with operations built by the method constructors. Types come from the committed corpus
// (corpus/…, written by ./gencorpus) and from per-case anonymous compositions built with reflect
// (StructOf / SliceOf / MapOf / PointerTo / ArrayOf over corpus types).
//
// Per case the harness observes: Generate with validation off (document or error class), with
// validation on, validity of the produced JSON against the repository's own embedded meta-schema
// (evaluated with the jsonschema library directly: the validator is a parameter of the model),
// JSON-pointer resolution of every "$ref" of the raw JSON, and byte equality of repeated generations
// (a sample of them after a 1.1 s pause and in a fresh process).
package main

import (
	"bufio"
	"bytes"
	"context"
	"crypto/sha256"
	"encoding/hex"
	"encoding/json"
	"fmt"
	"io"
	"net"
	"net/http"
	"net/url"
	"os"
	"os/exec"
	"path/filepath"
	"reflect"
	"runtime/pprof"
	"sort"
	"strconv"
	"strings"
	"sync"
	"time"

	"github.com/santhosh-tekuri/jsonschema/v6"

	"rivaas.dev/app"
	"rivaas.dev/openapi"
	"rivaas.dev/openapi/example"
	"rivaas.dev/openapi/validate"
	"verif/harness/c07/corpus"
	"verif/harness/hx"
)

// ---------------------------------------------------------------------------------------------
// type expressions (serialisable, so that `replay` rebuilds exactly the same reflect.Type)

type TX struct {
	K string `json:"k"`           // corpus | req | prim | time | nil | data | ptr | slice | array | map | mapint | struct
	I int    `json:"i,omitempty"` // corpus / req index
	P string `json:"p,omitempty"` // prim name
	E *TX    `json:"e,omitempty"`
	F []FX   `json:"f,omitempty"`
}

type FX struct {
	Name string `json:"n"`
	Tag  string `json:"t,omitempty"`
	T    TX     `json:"x"`
	Emb  bool   `json:"e,omitempty"`
}

var primTypes = map[string]reflect.Type{
	"string": reflect.TypeFor[string](), "bool": reflect.TypeFor[bool](), "int": reflect.TypeFor[int](),
	"int8": reflect.TypeFor[int8](), "int16": reflect.TypeFor[int16](), "int32": reflect.TypeFor[int32](),
	"int64": reflect.TypeFor[int64](), "uint": reflect.TypeFor[uint](), "uint8": reflect.TypeFor[uint8](),
	"uint16": reflect.TypeFor[uint16](), "uint32": reflect.TypeFor[uint32](), "uint64": reflect.TypeFor[uint64](),
	"float32": reflect.TypeFor[float32](), "float64": reflect.TypeFor[float64](), "any": reflect.TypeFor[any](),
	"complex128": reflect.TypeFor[complex128](), "uintptr": reflect.TypeFor[uintptr](),
}
var primNames = []string{"string", "string", "bool", "int", "int8", "int16", "int32", "int64", "uint", "uint8", "uint16",
	"uint32", "uint64", "float32", "float64", "any", "complex128"}

var timeType = reflect.TypeFor[time.Time]()

// build returns the reflect.Type of a type expression (nil for K == "nil").
func (x *TX) build() reflect.Type {
	switch x.K {
	case "corpus":
		return reflect.TypeOf(corpus.Types[x.I])
	case "req":
		return reflect.TypeOf(corpus.Requests[x.I])
	case "prim":
		return primTypes[x.P]
	case "time":
		return timeType
	case "nil":
		return nil
	case "data":
		return reflect.TypeOf(dataPayload(x.I))
	case "ptr":
		return reflect.PointerTo(x.E.build())
	case "slice":
		return reflect.SliceOf(x.E.build())
	case "array":
		return reflect.ArrayOf(x.I, x.E.build())
	case "map":
		return reflect.MapOf(primTypes["string"], x.E.build())
	case "mapint":
		return reflect.MapOf(primTypes["int"], x.E.build())
	case "struct":
		fs := make([]reflect.StructField, 0, len(x.F))
		for _, f := range x.F {
			ft := f.T.build()
			sf := reflect.StructField{Name: f.Name, Type: ft, Tag: reflect.StructTag(f.Tag), Anonymous: f.Emb}
			if f.Emb {
				sf.Name = baseName(ft)
			}
			fs = append(fs, sf)
		}
		return reflect.StructOf(fs)
	}
	panic("bad type expression " + x.K)
}

func baseName(t reflect.Type) string {
	if t.Kind() == reflect.Pointer {
		t = t.Elem()
	}
	n := t.Name()
	if i := strings.IndexByte(n, '['); i >= 0 {
		n = n[:i]
	}
	return n
}

// effective type the option constructors record: the zero value of an interface type is nil, so
// WithResponse / WithRequest see "no type"
func eff(t reflect.Type) reflect.Type {
	if t != nil && t.Kind() == reflect.Interface {
		return nil
	}
	return t
}

// zero value of a type as the `any` the option constructors take
func zeroOf(t reflect.Type) any {
	if t == nil {
		return nil
	}
	return reflect.Zero(t).Interface()
}

// ---------------------------------------------------------------------------------------------
// cases

type respT struct {
	Status int `json:"s"`
	T      TX  `json:"t"`
}

// secT is one WithSecurity call
type secT struct {
	Scheme string   `json:"s"`
	Scopes []string `json:"c,omitempty"`
}

// extT is one specification extension: key and index into the payload pool
type extT struct {
	K string `json:"k"`
	P int    `json:"p"`
}

// exT is one named example: name, summary and index into the payload pool
type exT struct {
	Name string `json:"n"`
	Sum  string `json:"s,omitempty"`
	P    int    `json:"p"`
}

// payloads: literal DATA that travels through the generator unchanged (extension values, example
// values). Many look like JSON Schema / HAL / OpenAPI fragments: `$ref` members (resolvable in the
// produced document or not), `$id`, `$schema`, `type`, `properties`. They are data, not references.
var payloadTexts = []string{
	`{"$ref":"#/definitions/address"}`,
	`{"fields":{"address":{"$ref":"#/definitions/address"},"name":{"type":"string"}}}`,
	`{"$ref":"#/components/schemas/NoSuchComponent"}`,
	`{"$ref":"#/info"}`,
	`{"$schema":"http://json-schema.org/draft-07/schema#","$id":"urn:x","type":"object","properties":{"a":{"type":"string","$ref":"#/$defs/a"}},"required":["a","a"]}`,
	`{"_links":{"self":{"href":"/x","$ref":"#/paths/~1nowhere"},"next":null}}`,
	`[{"$ref":"#/a/b"},1,"s",null,true,{"$ref":"other.json#/x"}]`,
	`"#/components/schemas/X"`,
	`42`,
	`{"type":["string","null"],"enum":[{"$ref":"#/x"}],"default":{"$ref":"#/y"},"nullable":"yes"}`,
	`{"openapi":"3.0.0","paths":{"/p":{"get":{"responses":{"200":{"$ref":"#/components/responses/Gone"}}}}}}`,
	`true`,
	`"plain"`,
	`{"lang":"curl","source":"curl https://api.example.com/users","n":100,"f":false}`,
	`[]`,
	`{}`,
	deepPayload(45),
}

// deepPayload: data nested deeper than any schema of the document
func deepPayload(n int) string {
	return strings.Repeat(`{"next":`, n) + `null` + strings.Repeat(`}`, n)
}

func payload(i int) any {
	var v any
	if err := json.Unmarshal([]byte(payloadTexts[i%len(payloadTexts)]), &v); err != nil {
		panic(err)
	}
	return v
}

// object / array payloads can be the response value itself (type map[string]any / []any): the
// non-zero value becomes the media type's single `example`
func dataPayload(i int) any {
	v := payload(i)
	switch v.(type) {
	case map[string]any, []any:
		return v
	}
	return map[string]any{"value": v}
}

type opT struct {
	Ctor    string   `json:"c"` // GET, POST, …, TRACE, or "Op:<method>"
	Path    string   `json:"p"`
	Summary string   `json:"s,omitempty"`
	Desc    string   `json:"d,omitempty"`
	OpID    string   `json:"o,omitempty"`
	Req     *TX      `json:"r,omitempty"`
	Resps   []respT  `json:"a,omitempty"`
	Ext     []extT   `json:"x,omitempty"` // openapi.WithOperationExtension
	Tags    []string `json:"t,omitempty"` // openapi.WithTags, one call per element group (see options)
	Dep     bool     `json:"dep,omitempty"`
	Sec     []secT   `json:"sec,omitempty"`  // openapi.WithSecurity
	Cons    []string `json:"cons,omitempty"` // openapi.WithConsumes (when non-empty)
	Prod    []string `json:"prod,omitempty"` // openapi.WithProduces (when non-empty)
	// named examples (example.New) of the response with that status, by position in Resps
	Ex map[int][]exT `json:"e,omitempty"`
}

type caseT struct {
	V31     bool   `json:"v31"`
	Strict  bool   `json:"strict"`
	Ops     []opT  `json:"ops"`
	Cfg     *cfgT  `json:"cfg,omitempty"`   // API-level configuration objects
	RootExt []extT `json:"rx,omitempty"`    // openapi.WithExtension
	InfoExt []extT `json:"ix,omitempty"`    // openapi.WithInfoExtension
	Pause   bool   `json:"pause,omitempty"` // 1.1 s between two of the generations
	Exec    bool   `json:"exec,omitempty"`  // one of the generations in a fresh process
	App     bool   `json:"app,omitempty"`   // also serve the operations from two app instances and compare body and ETag
	Cold    bool   `json:"cold,omitempty"`  // first-use concurrency: 8 goroutines validate for the first time in a fresh process
	Mid     *caseT `json:"mid,omitempty"`   // another document generated between two generations of this one
	Seq     bool   `json:"seq,omitempty"`   // the app OpenAPI state: registrations interleaved with a running generation
}

func (o *opT) method() string {
	if m, ok := strings.CutPrefix(o.Ctor, "Op:"); ok {
		return m
	}
	return o.Ctor
}

// construct builds the openapi.Operation; panics (invalid path) propagate to the caller.
func (o *opT) construct() openapi.Operation {
	opts := o.options()
	switch o.Ctor {
	case "GET":
		return openapi.GET(o.Path, opts...)
	case "POST":
		return openapi.POST(o.Path, opts...)
	case "PUT":
		return openapi.PUT(o.Path, opts...)
	case "PATCH":
		return openapi.PATCH(o.Path, opts...)
	case "DELETE":
		return openapi.DELETE(o.Path, opts...)
	case "HEAD":
		return openapi.HEAD(o.Path, opts...)
	case "OPTIONS":
		return openapi.OPTIONS(o.Path, opts...)
	case "TRACE":
		return openapi.TRACE(o.Path, opts...)
	}
	return openapi.Op(o.method(), o.Path, opts...)
}

func (o *opT) options() []openapi.OperationOption {
	var opts []openapi.OperationOption
	if o.Summary != "" {
		opts = append(opts, openapi.WithSummary(o.Summary))
	}
	if o.Desc != "" {
		opts = append(opts, openapi.WithDescription(o.Desc))
	}
	if o.OpID != "" {
		opts = append(opts, openapi.WithOperationID(o.OpID))
	}
	if o.Req != nil {
		opts = append(opts, openapi.WithRequest(zeroOf(o.Req.build())))
	}
	for ri, r := range o.Resps {
		var val any
		if r.T.K == "data" {
			val = dataPayload(r.T.I) // a non-zero value: the single example of the media type
		} else {
			val = zeroOf(r.T.build())
		}
		var exs []example.Example
		for _, x := range o.Ex[ri] {
			if x.Sum != "" {
				exs = append(exs, example.New(x.Name, payload(x.P), example.WithSummary(x.Sum)))
			} else {
				exs = append(exs, example.New(x.Name, payload(x.P)))
			}
		}
		opts = append(opts, openapi.WithResponse(r.Status, val, exs...))
	}
	for _, x := range o.Ext {
		opts = append(opts, openapi.WithOperationExtension(x.K, payload(x.P)))
	}
	if len(o.Tags) > 0 {
		// a composed option set contributes the first tag, the operation's own WithTags the rest
		opts = append(opts, openapi.WithOptions(openapi.WithTags(o.Tags[0])))
		if len(o.Tags) > 1 {
			opts = append(opts, openapi.WithTags(o.Tags[1:]...))
		}
	}
	if o.Dep {
		opts = append(opts, openapi.WithDeprecated())
	}
	for _, x := range o.Sec {
		opts = append(opts, openapi.WithSecurity(x.Scheme, x.Scopes...))
	}
	if len(o.Cons) > 0 {
		opts = append(opts, openapi.WithConsumes(o.Cons...))
	}
	if len(o.Prod) > 0 {
		opts = append(opts, openapi.WithProduces(o.Prod...))
	}
	return opts
}

// apiOptions are the API-level options of a case (version, strict, validation, extensions).
func (c *caseT) apiOptions(validation bool) []openapi.Option {
	ver := openapi.V30x
	if c.V31 {
		ver = openapi.V31x
	}
	opts := []openapi.Option{openapi.WithTitle("t", "1"), openapi.WithVersion(ver),
		openapi.WithStrictDownlevel(c.Strict), openapi.WithValidation(validation)}
	for _, x := range c.RootExt {
		opts = append(opts, openapi.WithExtension(x.K, payload(x.P)))
	}
	for _, x := range c.InfoExt {
		opts = append(opts, openapi.WithInfoExtension(x.K, payload(x.P)))
	}
	if c.Cfg != nil {
		opts = append(opts, c.Cfg.options()...)
	}
	return opts
}

func (c *caseT) carriesCollections() bool {
	for i := range c.Ops {
		o := &c.Ops[i]
		if len(o.Tags) > 0 || len(o.Sec) > 0 || len(o.Ext) > 0 || len(o.Ex) > 0 {
			return true
		}
	}
	return false
}

// manyExtensions: some object of the case carries two or more extensions (their relative order is
// then a degree of freedom of the output: byte equality is compared over more repetitions)
func (c *caseT) manyExtensions() bool {
	if len(c.RootExt) >= 2 || len(c.InfoExt) >= 2 {
		return true
	}
	for i := range c.Ops {
		if len(c.Ops[i].Ext) >= 2 {
			return true
		}
	}
	return false
}

type result struct {
	kind string // CP | P | E | D
	cls  string
	json []byte
}

func classify(err error) string {
	m := err.Error()
	switch {
	case strings.Contains(m, "duplicate operation ID"):
		return "dupop"
	case strings.Contains(m, "invalid response code"):
		return "status"
	case strings.Contains(m, "invalid style"):
		return "style"
	case strings.Contains(m, "requires 'paths'"):
		return "nopaths"
	case strings.Contains(m, "info.summary not supported"):
		return "strict"
	case strings.Contains(m, "spec validation failed"):
		return "validation"
	}
	return "other"
}

// generate runs the real code once, from fresh option and operation values.
func generate(c *caseT, validation bool) (res result) {
	var ops []openapi.Operation
	func() {
		defer func() {
			if p := recover(); p != nil {
				res = result{kind: "CP"}
			}
		}()
		for i := range c.Ops {
			ops = append(ops, c.Ops[i].construct())
		}
	}()
	if res.kind != "" {
		return res
	}
	defer func() {
		if p := recover(); p != nil {
			res = result{kind: "P", cls: fmt.Sprint(p)}
		}
	}()
	api := openapi.MustNew(c.apiOptions(validation)...)
	r, err := api.Generate(context.Background(), ops...)
	if err != nil {
		return result{kind: "E", cls: classify(err)}
	}
	return result{kind: "D", json: r.JSON}
}

// reuseStable: the SAME operation values (and the same API value) are handed to Generate again, as an
// app does when a route is added after the specification was served: every generation must return
// the bytes of the first one (Generate must not modify what the caller handed in).
func reuseStable(c *caseT, want []byte) (ok bool) {
	defer func() {
		if p := recover(); p != nil {
			ok = false
		}
	}()
	var ops []openapi.Operation
	for i := range c.Ops {
		ops = append(ops, c.Ops[i].construct())
	}
	api := openapi.MustNew(c.apiOptions(false)...)
	for k := 0; k < 3; k++ {
		if k == 2 {
			api = openapi.MustNew(c.apiOptions(false)...) // a second API over the same operation values
		}
		r, err := api.Generate(context.Background(), ops...)
		if err != nil || !bytes.Equal(r.JSON, want) {
			return false
		}
	}
	return true
}

// ---------------------------------------------------------------------------------------------
// the meta-schema validator (parameter of the model): jsonschema called directly on the
// repository's embedded meta-schema files

var metaSchemas = map[string]*jsonschema.Schema{}

func repoRoot() string {
	if r := os.Getenv("VERIF_REPO"); r != "" {
		return r
	}
	return "/repo"
}

func metaSchema(ver string) *jsonschema.Schema {
	if s, ok := metaSchemas[ver]; ok {
		return s
	}
	b, err := os.ReadFile(filepath.Join(repoRoot(), "openapi/internal/metaschema/OpenAPI-v"+ver+".x.json"))
	if err != nil {
		panic(err)
	}
	doc, err := jsonschema.UnmarshalJSON(bytes.NewReader(b))
	if err != nil {
		panic(err)
	}
	c := jsonschema.NewCompiler()
	if err = c.AddResource("meta-"+ver+".json", doc); err != nil {
		panic(err)
	}
	s, err := c.Compile("meta-" + ver + ".json")
	if err != nil {
		panic(err)
	}
	metaSchemas[ver] = s
	return s
}

func metaValid(c *caseT, js []byte) bool {
	doc, err := jsonschema.UnmarshalJSON(bytes.NewReader(js))
	if err != nil {
		return false
	}
	ver := "3.0"
	if c.V31 {
		ver = "3.1"
	}
	return metaSchema(ver).Validate(doc) == nil
}

// validatorAgrees probes the repository's own validate.Validator (the wiring `WithValidation(true)`
// uses) with the produced document and with one damaged variant of it, and compares its verdicts
// with the direct use of the jsonschema library: a validator that accepts or rejects everything
// disagrees on one of the two.
func validatorAgrees(c *caseT, js []byte) bool {
	ver, vv := "3.0", validate.V30
	if c.V31 {
		ver, vv = "3.1", validate.V31
	}
	probe := func(doc []byte) bool {
		direct := false
		if d, err := jsonschema.UnmarshalJSON(bytes.NewReader(doc)); err == nil {
			direct = metaSchema(ver).Validate(d) == nil
		}
		repo := repoValidator.Validate(context.Background(), doc, vv) == nil
		return direct == repo
	}
	if !probe(js) {
		return false
	}
	var root map[string]any
	if err := json.Unmarshal(js, &root); err != nil {
		return false
	}
	h := sha256.Sum256(js)
	switch h[0] % 5 {
	case 0:
		delete(root, "info")
	case 1:
		root["openapi"] = "2.0"
	case 2:
		root["unknownMember"] = 1
	case 3:
		root["paths"] = []any{}
	default:
		root["info"] = map[string]any{"title": 1}
	}
	damaged, err := json.Marshal(root)
	if err != nil {
		return false
	}
	return probe(damaged)
}

var repoValidator = validate.New()

// ---------------------------------------------------------------------------------------------
// first-use concurrency of the built-in validation. The compiled meta-schemas are cached per process
// (one package-level validator serves every API), so the probe runs in a FRESH process: `cold` reads
// the case from stdin, prepares 8 APIs (validation on) with their own operation values, releases
// them on a barrier and counts the calls that did not return the document; then it does the same
// with fresh exported validators (validate.New()) on the produced document, three rounds.
// Oracle (the statement): a document the meta-schema accepts is never rejected by validation-on.

const coldWorkers = 8

func coldMain() {
	var c caseT
	if err := json.NewDecoder(os.Stdin).Decode(&c); err != nil {
		fmt.Println("cold bad-case")
		return
	}
	vv := validate.V30
	if c.V31 {
		vv = validate.V31
	}
	type prepT struct {
		api *openapi.API
		ops []openapi.Operation
	}
	preps := make([]prepT, coldWorkers)
	for i := range preps {
		preps[i].api = openapi.MustNew(c.apiOptions(true)...)
		for k := range c.Ops {
			preps[i].ops = append(preps[i].ops, c.Ops[k].construct())
		}
	}
	var (
		start = make(chan struct{})
		wg    sync.WaitGroup
		errs  = make([]string, coldWorkers)
		docs  = make([][]byte, coldWorkers)
	)
	for i := range preps {
		wg.Add(1)
		go func() {
			defer wg.Done()
			defer func() {
				if p := recover(); p != nil {
					errs[i] = "panic"
				}
			}()
			<-start
			r, err := preps[i].api.Generate(context.Background(), preps[i].ops...)
			if err != nil {
				errs[i] = classify(err)
				return
			}
			docs[i] = r.JSON
		}()
	}
	close(start)
	wg.Wait()
	okN, rejected, other := 0, 0, 0
	var doc []byte
	for i := range errs {
		switch errs[i] {
		case "":
			okN++
			doc = docs[i]
		case "validation":
			rejected++
		default:
			other++
		}
	}
	// the exported validator, cold, on the produced document
	vrej := 0
	if doc == nil {
		if r := generate(&c, false); r.kind == "D" {
			doc = r.json
		}
	}
	for round := 0; doc != nil && round < 3; round++ {
		v := validate.New()
		st := make(chan struct{})
		res := make([]error, coldWorkers)
		var wg2 sync.WaitGroup
		for i := 0; i < coldWorkers; i++ {
			wg2.Add(1)
			go func() {
				defer wg2.Done()
				<-st
				res[i] = v.Validate(context.Background(), doc, vv)
			}()
		}
		close(st)
		wg2.Wait()
		for _, e := range res {
			if e != nil {
				vrej++
			}
		}
	}
	fmt.Printf("cold ok=%d rejected=%d other=%d vrejected=%d\n", okN, rejected, other, vrej)
}

// coldProbe runs the probe in a fresh process; ran=false when the process could not be run.
func coldProbe(c *caseT) (clean bool, ran bool, detail string) {
	self, err := os.Executable()
	if err != nil {
		return true, false, ""
	}
	js, _ := json.Marshal(c)
	cmd := exec.Command(self, "cold")
	cmd.Stdin = bytes.NewReader(js)
	out, err := cmd.Output()
	if err != nil {
		return true, false, ""
	}
	var okN, rej, other, vrej int
	if n, _ := fmt.Sscanf(strings.TrimSpace(string(out)), "cold ok=%d rejected=%d other=%d vrejected=%d", &okN, &rej, &other, &vrej); n != 4 {
		return true, false, ""
	}
	return okN == coldWorkers && rej == 0 && other == 0 && vrej == 0, true, strings.TrimSpace(string(out))
}

// ---------------------------------------------------------------------------------------------
// the served specification: GET <spec path> on an app (body + ETag)

func freePort() int {
	l, err := net.Listen("tcp", "127.0.0.1:0")
	if err != nil {
		return 0
	}
	defer l.Close()
	return l.Addr().(*net.TCPAddr).Port
}

type servedT struct {
	body, etag string
	notMod     int
	ok         bool
}

// serve starts an app with the case's operations as documented routes, fetches the specification
// and shuts the app down. ok=false: the routes cannot be registered on a router (conflict), or the
// app did not come up — the probe is then skipped, not failed.
func serve(c *caseT) (res servedT) {
	defer func() {
		if p := recover(); p != nil {
			res = servedT{}
		}
	}()
	port := freePort()
	if port == 0 {
		return servedT{}
	}
	a, err := app.New(app.WithServiceName("c07"), app.WithHost("127.0.0.1"), app.WithPort(port),
		app.WithOpenAPI(c.apiOptions(false)...))
	if err != nil {
		return servedT{}
	}
	h := func(*app.Context) {}
	for i := range c.Ops {
		o := &c.Ops[i]
		doc := app.WithDoc(o.options()...)
		switch o.Ctor {
		case "GET":
			a.GET(o.Path, h, doc)
		case "POST":
			a.POST(o.Path, h, doc)
		case "PUT":
			a.PUT(o.Path, h, doc)
		case "PATCH":
			a.PATCH(o.Path, h, doc)
		case "DELETE":
			a.DELETE(o.Path, h, doc)
		case "HEAD":
			a.HEAD(o.Path, h, doc)
		case "OPTIONS":
			a.OPTIONS(o.Path, h, doc)
		default:
			return servedT{}
		}
	}
	ctx, cancel := context.WithCancel(context.Background())
	done := make(chan error, 1)
	go func() {
		defer func() {
			if p := recover(); p != nil {
				done <- fmt.Errorf("panic: %v", p)
			}
		}()
		done <- a.Start(ctx)
	}()
	defer func() {
		cancel()
		select {
		case <-done:
		case <-time.After(5 * time.Second):
		}
	}()
	url := fmt.Sprintf("http://127.0.0.1:%d/openapi.json", port)
	var resp *http.Response
	for i := 0; i < 150; i++ {
		select {
		case <-done: // Start returned early: the app did not come up
			return servedT{}
		default:
		}
		resp, err = http.Get(url)
		if err == nil {
			break
		}
		time.Sleep(20 * time.Millisecond)
	}
	if err != nil {
		return servedT{}
	}
	b, _ := io.ReadAll(resp.Body)
	resp.Body.Close()
	if resp.StatusCode != http.StatusOK {
		return servedT{}
	}
	res = servedT{body: string(b), etag: resp.Header.Get("ETag"), ok: true}
	req, _ := http.NewRequest(http.MethodGet, url, nil)
	req.Header.Set("If-None-Match", res.etag)
	if r2, e2 := http.DefaultClient.Do(req); e2 == nil {
		res.notMod = r2.StatusCode
		r2.Body.Close()
	}
	return res
}

// appProbe: two app instances serve byte-identical specifications with the same ETag, the ETag is
// the quoted SHA-256 of the body, and a conditional request with it is answered 304.
func appProbe(c *caseT, st *hx.Stats) bool {
	s1 := serve(c)
	if c.Pause {
		time.Sleep(1100 * time.Millisecond)
	}
	s2 := serve(c)
	if !s1.ok || !s2.ok {
		if st != nil {
			st.Count("app_probe_skipped")
		}
		return true
	}
	if st != nil {
		st.Count("app_probe")
	}
	sum := sha256.Sum256([]byte(s1.body))
	return s1.body == s2.body && s1.etag == s2.etag && s1.etag == fmt.Sprintf(`"%x"`, sum) && s1.notMod == http.StatusNotModified
}

// ---------------------------------------------------------------------------------------------
// the app's OpenAPI state (openapiState.{ops,specCache,specETag}): what a documented route
// registration (AddOperation) and the handler of the specification path (GenerateSpec) call, driven
// through the verif-tagged accessors. A registration that arrives WHILE a specification is being
// generated must not be lost: once it has returned, the served document describes it.

// gateT is a response sample whose MarshalJSON runs in the middle of Generate (the document is
// serialised there); the probe uses it to register further operations at that moment.
type gateT struct {
	N string `json:"n"`
}

var gateHook func()

func (g gateT) MarshalJSON() ([]byte, error) {
	if f := gateHook; f != nil {
		f()
	}
	return []byte(`{"n":"` + g.N + `"}`), nil
}

func stateProbe(c *caseT) (ok bool, ran bool) {
	defer func() {
		if p := recover(); p != nil {
			ok, ran = true, false
		}
	}()
	gateHook = nil
	gate := func() openapi.Operation {
		return openapi.GET("/zz-gate", openapi.WithSummary("gate"), openapi.WithResponse(200, gateT{N: "x"}))
	}
	k := len(c.Ops) / 2
	build := func() (early, late []openapi.Operation) {
		for i := range c.Ops {
			if i < k {
				early = append(early, c.Ops[i].construct())
			} else {
				late = append(late, c.Ops[i].construct())
			}
		}
		return
	}
	// what the served document must be once everything is registered
	e0, l0 := build()
	all := append(append(append([]openapi.Operation{}, e0...), gate()), l0...)
	want, err := openapi.MustNew(c.apiOptions(false)...).Generate(context.Background(), all...)
	if err != nil {
		return true, false
	}
	a, err := app.New(app.WithServiceName("c07"), app.WithOpenAPI(c.apiOptions(false)...))
	if err != nil {
		return true, false
	}
	early, late := build()
	for _, op := range early {
		a.VerifOpenAPIAddOperation(op)
	}
	a.VerifOpenAPIAddOperation(gate())
	registered := make(chan struct{})
	var once sync.Once
	gateHook = func() {
		once.Do(func() {
			go func() {
				defer close(registered)
				for _, op := range late {
					a.VerifOpenAPIAddOperation(op)
				}
			}()
			select { // give the registration the chance to run during the generation
			case <-registered:
			case <-time.After(120 * time.Millisecond):
			}
		})
	}
	defer func() { gateHook = nil }()
	ctx := context.Background()
	if _, _, err = a.VerifOpenAPIGenerateSpec(ctx); err != nil {
		return true, false
	}
	select {
	case <-registered:
	case <-time.After(5 * time.Second):
		return false, true
	}
	gateHook = nil
	// every registration has returned: the served document describes all of them
	b2, e2, err := a.VerifOpenAPIGenerateSpec(ctx)
	if err != nil || !bytes.Equal(b2, want.JSON) || e2 != fmt.Sprintf(`"%x"`, sha256.Sum256(b2)) {
		return false, true
	}
	b3, e3, err := a.VerifOpenAPIGenerateSpec(ctx)
	if err != nil || !bytes.Equal(b3, b2) || e3 != e2 {
		return false, true
	}
	// a generation that fails for a reason of its own (here: a context that is already cancelled, validation on)
	// may return an error — it must not decide what later requests get: with a live context the valid document
	// is served, with its ETag
	e1, l1 := build()
	all1 := append(append(append([]openapi.Operation{}, e1...), gate()), l1...)
	wantOn, err := openapi.MustNew(c.apiOptions(true)...).Generate(context.Background(), all1...)
	if err != nil {
		return true, true // not a valid document (or rejected for another reason): nothing to demand
	}
	a2, err := app.New(app.WithServiceName("c07"), app.WithOpenAPI(c.apiOptions(true)...))
	if err != nil {
		return true, true
	}
	e2ops, l2ops := build()
	for _, op := range append(append(e2ops, gate()), l2ops...) {
		a2.VerifOpenAPIAddOperation(op)
	}
	cctx, cancel := context.WithCancel(context.Background())
	cancel()
	_, _, _ = a2.VerifOpenAPIGenerateSpec(cctx)
	b4, e4, err := a2.VerifOpenAPIGenerateSpec(ctx)
	if err != nil || !bytes.Equal(b4, wantOn.JSON) || e4 != fmt.Sprintf(`"%x"`, sha256.Sum256(b4)) {
		return false, true
	}
	// history: what GenerateSpec returns is a function of the operations registered so far, not of what an
	// earlier generation returned — a good document first, then a registration that makes the set ungeneratable
	// (two operations with one explicit id): the answer is the error a fresh state gives, not the old document
	dup := func(p string) openapi.Operation {
		return openapi.GET(p, openapi.WithSummary("dup"), openapi.WithOperationID("zzDupId"), openapi.WithResponse(200, gateT{N: "d"}))
	}
	a3, err := app.New(app.WithServiceName("c07"), app.WithOpenAPI(c.apiOptions(false)...))
	if err != nil {
		return true, true
	}
	e3ops, _ := build()
	first := append(e3ops, dup("/zz-dup-a"))
	for _, op := range first {
		a3.VerifOpenAPIAddOperation(op)
	}
	agree := func(n int) bool {
		f1, _ := build()
		ops := append(f1, dup("/zz-dup-a"))
		if n == 2 {
			ops = append(ops, dup("/zz-dup-b"))
		}
		w, werr := openapi.MustNew(c.apiOptions(false)...).Generate(context.Background(), ops...)
		b, e, gerr := a3.VerifOpenAPIGenerateSpec(ctx)
		if werr != nil || gerr != nil {
			return werr != nil && gerr != nil
		}
		return bytes.Equal(b, w.JSON) && e == fmt.Sprintf(`"%x"`, sha256.Sum256(b))
	}
	if !agree(1) {
		return false, true
	}
	a3.VerifOpenAPIAddOperation(dup("/zz-dup-b"))
	return agree(2), true
}

// appEligible: standard-method constructors, plain router paths, no two routes with the same
// method and path
func appEligible(c *caseT) bool {
	seen := map[string]bool{}
	for i := range c.Ops {
		o := &c.Ops[i]
		switch o.Ctor {
		case "GET", "POST", "PUT", "PATCH", "DELETE", "HEAD", "OPTIONS":
		default:
			return false
		}
		if strings.ContainsAny(o.Path, "{}*") || strings.Contains(o.Path, "//") || o.Path == "" || !strings.HasPrefix(o.Path, "/") ||
			(len(o.Path) > 1 && strings.HasSuffix(o.Path, "/")) || strings.HasSuffix(o.Path, ":") {
			return false
		}
		k := o.Ctor + " " + o.Path
		if seen[k] {
			return false
		}
		seen[k] = true
	}
	return len(c.Ops) > 0
}

// refsResolve: every "$ref" member of the document is a local JSON pointer that resolves.
func refsResolve(js []byte) bool {
	var root any
	if err := json.Unmarshal(js, &root); err != nil {
		return false
	}
	ok := true
	// names: the members of this object are names (property names, component names), not keywords
	var walk func(v any, names bool)
	walk = func(v any, names bool) {
		switch x := v.(type) {
		case map[string]any:
			for k, e := range x {
				if !names {
					// literal data is not a reference position: example payloads, defaults, enum
					// values and extension values may contain members called "$ref"
					if k == "example" || k == "examples" || k == "default" || k == "enum" || k == "const" || strings.HasPrefix(k, "x-") {
						continue
					}
					if k == "$ref" {
						if s, isStr := e.(string); isStr {
							if !resolvePointer(root, s) {
								ok = false
							}
							continue
						}
					}
				}
				walk(e, !names && (k == "properties" || k == "patternProperties" || k == "schemas" || k == "$defs"))
			}
		case []any:
			for _, e := range x {
				walk(e, false)
			}
		}
	}
	walk(root, false)
	return ok
}

// dataIntact: the literal data handed in (extension values, example values) is found unchanged at
// its place in the produced document. Checked for the API-level extensions always, and for the
// operations whose place in the document is unambiguous (standard constructor, documented, no other
// operation with the same converted path and method).
func dataIntact(c *caseT, js []byte) bool {
	var root map[string]any
	if err := json.Unmarshal(js, &root); err != nil {
		return false
	}
	same := func(got any, p int, wrap bool) bool {
		var want any
		if wrap {
			want = dataPayload(p)
		} else {
			want = payload(p)
		}
		return reflect.DeepEqual(got, want)
	}
	last := func(xs []extT) map[string]int {
		m := map[string]int{}
		for _, x := range xs {
			m[x.K] = x.P
		}
		return m
	}
	for k, p := range last(c.RootExt) {
		if !same(root[k], p, false) {
			return false
		}
	}
	info, _ := root["info"].(map[string]any)
	for k, p := range last(c.InfoExt) {
		if !same(info[k], p, false) {
			return false
		}
	}
	convert := func(p string) string {
		parts := strings.Split(p, "/")
		for i, part := range parts {
			if strings.HasPrefix(part, ":") {
				parts[i] = "{" + part[1:] + "}"
			}
		}
		return strings.Join(parts, "/")
	}
	place := func(o *opT) string { return strings.ToLower(o.method()) + " " + convert(o.Path) }
	count := map[string]int{}
	for i := range c.Ops {
		count[place(&c.Ops[i])]++
	}
	paths, _ := root["paths"].(map[string]any)
	for i := range c.Ops {
		o := &c.Ops[i]
		switch o.Ctor {
		case "GET", "POST", "PUT", "PATCH", "DELETE", "HEAD", "OPTIONS":
		default:
			continue
		}
		if count[place(o)] != 1 || (o.Summary == "" && o.Desc == "" && len(o.Resps) == 0) {
			continue
		}
		item, _ := paths[convert(o.Path)].(map[string]any)
		op, _ := item[strings.ToLower(o.Ctor)].(map[string]any)
		if op == nil {
			return false
		}
		for k, p := range last(o.Ext) {
			if !opExtKept(k, c.V31) {
				if _, there := op[k]; there {
					return false // a key the projection must filter out
				}
				continue
			}
			if !same(op[k], p, false) {
				return false
			}
		}
		final := map[int]*respT{}
		finalEx := map[int][]exT{}
		repeated := false
		for k := range o.Resps {
			if _, dup := final[o.Resps[k].Status]; dup {
				repeated = true // examples of an earlier WithResponse of the same status persist: not checked
			}
			final[o.Resps[k].Status] = &o.Resps[k]
			finalEx[o.Resps[k].Status] = o.Ex[k]
		}
		resps, _ := op["responses"].(map[string]any)
		if repeated {
			continue
		}
		for st, r := range final {
			if st == 204 || eff(r.T.build()) == nil {
				continue
			}
			rs, _ := resps[strconv.Itoa(st)].(map[string]any)
			content, _ := rs["content"].(map[string]any)
			outCT := "application/json"
			if len(o.Prod) > 0 {
				outCT = o.Prod[0]
			}
			mt, _ := content[outCT].(map[string]any)
			if mt == nil {
				return false
			}
			if len(finalEx[st]) > 0 {
				exs, _ := mt["examples"].(map[string]any)
				names := map[string]int{}
				for _, x := range finalEx[st] {
					names[x.Name] = x.P
				}
				for n, p := range names {
					ex, _ := exs[n].(map[string]any)
					if ex == nil || !same(ex["value"], p, false) {
						return false
					}
				}
			} else if r.T.K == "data" {
				if !same(mt["example"], r.T.I, true) {
					return false
				}
			}
		}
	}
	return true
}

func resolvePointer(root any, ref string) bool {
	p, found := strings.CutPrefix(ref, "#")
	if !found {
		return false
	}
	if p == "" {
		return true
	}
	if !strings.HasPrefix(p, "/") {
		return false
	}
	cur := root
	for _, tok := range strings.Split(p[1:], "/") {
		tok = strings.ReplaceAll(strings.ReplaceAll(tok, "~1", "/"), "~0", "~")
		switch x := cur.(type) {
		case map[string]any:
			nxt, ok := x[tok]
			if !ok {
				return false
			}
			cur = nxt
		case []any:
			i, err := strconv.Atoi(tok)
			if err != nil || i < 0 || i >= len(x) {
				return false
			}
			cur = x[i]
		default:
			return false
		}
	}
	return true
}

// ---------------------------------------------------------------------------------------------
// reflect -> Ty tokens + environment

type encT struct {
	ids   map[reflect.Type]int
	order []reflect.Type
}

func newEnc() *encT { return &encT{ids: map[reflect.Type]int{}} }

func (e *encT) id(t reflect.Type) int {
	if i, ok := e.ids[t]; ok {
		return i
	}
	i := len(e.order)
	e.ids[t] = i
	e.order = append(e.order, t)
	return i
}

func kindName(k reflect.Kind) string {
	switch k {
	case reflect.Bool, reflect.Int, reflect.Int8, reflect.Int16, reflect.Int32, reflect.Int64, reflect.Uint, reflect.Uint8,
		reflect.Uint16, reflect.Uint32, reflect.Uint64, reflect.Float32, reflect.Float64, reflect.String:
		return k.String()
	case reflect.Interface:
		return "iface"
	}
	return "other"
}

func (e *encT) structure(l *hx.Line, t reflect.Type) {
	switch t.Kind() {
	case reflect.Pointer:
		l.Tok("Ptr")
		e.ty(l, t.Elem())
	case reflect.Slice:
		l.Tok("Sl")
		e.ty(l, t.Elem())
	case reflect.Array:
		l.Tok("Ar")
		e.ty(l, t.Elem())
	case reflect.Map:
		l.Tok("Mp").Bool(t.Key().Kind() == reflect.String)
		e.ty(l, t.Elem())
	default:
		panic("structure of " + t.String())
	}
}

func (e *encT) ty(l *hx.Line, t reflect.Type) {
	if t == timeType {
		l.Tok("T")
		return
	}
	switch t.Kind() {
	case reflect.Struct:
		l.Tok("N").Nat(e.id(t))
	case reflect.Pointer, reflect.Slice, reflect.Array, reflect.Map:
		if t.Name() != "" {
			l.Tok("N").Nat(e.id(t))
		} else {
			e.structure(l, t)
		}
	default:
		l.Tok("P").Tok(kindName(t.Kind()))
	}
}

func str(l *hx.Line, s string) {
	raw := s != "" && s != "=>"
	for i := 0; i < len(s) && raw; i++ {
		c := s[i]
		raw = c > ' ' && c < 0x7f && c != '#'
	}
	if raw {
		l.Tok("r:" + s)
	} else {
		l.Str(s)
	}
}

func (e *encT) def(l *hx.Line, t reflect.Type) {
	l.Nat(e.ids[t])
	if t.Kind() != reflect.Struct {
		l.Tok("A")
		e.structure(l, t)
		return
	}
	l.Tok("S")
	str(l, t.Name())
	str(l, t.PkgPath())
	l.Nat(t.NumField())
	for i := 0; i < t.NumField(); i++ {
		f := t.Field(i)
		if f.Anonymous {
			ft := f.Type
			if ft.Kind() == reflect.Pointer {
				ft = ft.Elem()
			}
			if ft.Kind() == reflect.Struct {
				l.Tok("E").Nat(e.id(ft))
				continue
			}
		}
		l.Tok("F")
		str(l, f.Name)
		l.Bool(f.IsExported())
		for _, k := range []string{"json", "validate", "query", "path", "header", "cookie", "default", "style", "explode", "doc", "example", "enum", "format"} {
			str(l, f.Tag.Get(k))
		}
		// type identity after one pointer level (inferFormat compares with net.IP and url.URL)
		ft := f.Type
		if ft.Kind() == reflect.Pointer {
			ft = ft.Elem()
		}
		switch ft {
		case reflect.TypeFor[net.IP]():
			str(l, "ip")
		case reflect.TypeFor[url.URL]():
			str(l, "url")
		default:
			str(l, "")
		}
		if !f.IsExported() && !f.Anonymous {
			l.Tok("P").Tok("other") // never inspected by the generator
		} else {
			e.ty(l, f.Type)
		}
	}
}

// env renders every definition reachable from the types encoded so far (encoding a definition may
// discover further types).
func (e *encT) env() string {
	var defs []string
	for i := 0; i < len(e.order); i++ {
		l := hx.NewLine("")
		e.def(l, e.order[i])
		defs = append(defs, strings.TrimPrefix(l.String(), " "))
	}
	return strconv.Itoa(len(defs)) + " " + strings.Join(defs, " ")
}

// ---------------------------------------------------------------------------------------------
// JSON -> tokens

func jsonTokens(l *hx.Line, js []byte) error {
	dec := json.NewDecoder(bytes.NewReader(js))
	dec.UseNumber()
	var v any
	if err := dec.Decode(&v); err != nil {
		return err
	}
	var emit func(v any)
	emit = func(v any) {
		switch x := v.(type) {
		case map[string]any:
			keys := make([]string, 0, len(x))
			for k := range x {
				keys = append(keys, k)
			}
			sort.Strings(keys)
			l.Tok("O").Nat(len(keys))
			for _, k := range keys {
				str(l, k)
				emit(x[k])
			}
		case []any:
			l.Tok("A").Nat(len(x))
			for _, e := range x {
				emit(e)
			}
		case string:
			l.Tok("S")
			str(l, x)
		case json.Number:
			l.Tok("N")
			str(l, x.String())
		case bool:
			if x {
				l.Tok("T")
			} else {
				l.Tok("F")
			}
		case nil:
			l.Tok("Z")
		}
	}
	emit(v)
	return nil
}

// ---------------------------------------------------------------------------------------------
// one case -> one line

type shapeT struct {
	ptrSliceMap, embed2, generic, recursive, collision, timeT, dynamic bool
}

func shapes(e *encT) shapeT {
	var s shapeT
	embedsStruct := func(t reflect.Type) bool {
		for i := 0; i < t.NumField(); i++ {
			f := t.Field(i)
			ft := f.Type
			if ft.Kind() == reflect.Pointer {
				ft = ft.Elem()
			}
			if f.Anonymous && ft.Kind() == reflect.Struct {
				return true
			}
		}
		return false
	}
	names := map[string]reflect.Type{}
	for _, t := range e.order {
		if t.Kind() != reflect.Struct {
			s.recursive = s.recursive || t.Name() == "Tree" || t.Name() == "Dict" || t.Name() == "Ptr"
			continue
		}
		if strings.Contains(t.Name(), "[") {
			s.generic = true
		}
		if t.Name() == "" {
			s.dynamic = true
		}
		if t.Name() != "" {
			key := filepath.Base(t.PkgPath()) + "." + t.Name()
			if o, ok := names[key]; ok && o != t {
				s.collision = true
			}
			names[key] = t
		}
		for i := 0; i < t.NumField(); i++ {
			f := t.Field(i)
			if f.Type == timeType {
				s.timeT = true
			}
			switch f.Type.Kind() {
			case reflect.Pointer, reflect.Slice, reflect.Map:
				s.ptrSliceMap = true
			}
			ft := f.Type
			if ft.Kind() == reflect.Pointer {
				ft = ft.Elem()
			}
			if f.Anonymous && ft.Kind() == reflect.Struct && embedsStruct(ft) {
				s.embed2 = true
			}
			if ft == t {
				s.recursive = true
			}
		}
	}
	return s
}

// pending, when set, is told the fallback line of a case before the real code runs on it.
var pending func(fallback string)

func emit(id string, c *caseT, st *hx.Stats) string {
	l := hx.NewLine(id)
	if c.V31 {
		l.Tok("31")
	} else {
		l.Tok("30")
	}
	l.Bool(c.Strict)
	// operations first (into a side line): encoding them discovers the environment
	e := newEnc()
	ol := hx.NewLine("")
	ol.Nat(len(c.Ops))
	typeErr := false
	func() {
		defer func() {
			if p := recover(); p != nil {
				typeErr = true
			}
		}()
		for i := range c.Ops {
			o := &c.Ops[i]
			str(ol, o.method())
			str(ol, o.Path)
			str(ol, o.Summary)
			str(ol, o.Desc)
			str(ol, o.OpID)
			var rt reflect.Type
			if o.Req != nil {
				rt = eff(o.Req.build())
			}
			if rt != nil {
				ol.Bool(true)
				e.ty(ol, rt)
			} else {
				ol.Bool(false)
			}
			// doc.ResponseTypes is a map: a later WithResponse of the same status replaces the earlier
			final := map[int]reflect.Type{}
			var order []int
			for _, r := range o.Resps {
				if _, ok := final[r.Status]; !ok {
					order = append(order, r.Status)
				}
				final[r.Status] = eff(r.T.build())
			}
			ol.Nat(len(order))
			for _, s := range order {
				ol.Nat(s)
				str(ol, http.StatusText(s))
				if final[s] != nil {
					ol.Bool(true)
					e.ty(ol, final[s])
				} else {
					ol.Bool(false)
				}
			}
			ol.Strs(o.Tags)
			ol.Bool(o.Dep)
			ol.Nat(len(o.Sec))
			for _, x := range o.Sec {
				str(ol, x.Scheme)
				ol.Strs(x.Scopes)
			}
			ol.Strs(o.Cons)
			ol.Strs(o.Prod)
			// the WithResponse calls in order, as the option function sees them (the example maps are folded by
			// the model): status, value == nil, value not the zero value, names of the named examples
			ol.Nat(len(o.Resps))
			for ri, r := range o.Resps {
				ol.Nat(r.Status)
				var val any
				if r.T.K == "data" {
					val = dataPayload(r.T.I)
				} else {
					val = zeroOf(r.T.build())
				}
				ol.Bool(val == nil)
				ol.Bool(r.T.K == "data")
				var names []string
				for _, x := range o.Ex[ri] {
					names = append(names, x.Name)
				}
				ol.Strs(names)
			}
		}
	}()
	if typeErr {
		return "# " + id + " skipped: the type expression cannot be built by reflect"
	}
	l.Tok(e.env())
	l.Tok(strings.TrimPrefix(ol.String(), " "))
	// the configured server urls (the only API-level configuration the structured document carries)
	if c.Cfg != nil {
		l.Nat(len(c.Cfg.Servers))
		for _, x := range c.Cfg.Servers {
			str(l, x[0])
		}
	} else {
		l.Nat(0)
	}
	// WithInfoSummary: in the Lean document (dropped for 3.0, an error under StrictDownlevel, kept for 3.1)
	if c.Cfg != nil {
		str(l, c.Cfg.Summary)
	} else {
		str(l, "")
	}
	in := l.String()
	l.Sep()
	if pending != nil {
		// what the supervisor reports if the real code kills the process (fatal stack overflow)
		pending(in + " => P P 0 0 0 1 1 1 1" + hx.Comment(c))
	}

	off := generate(c, false)
	on := generate(c, true)
	mv, rr, stable, va, appOK, coldOK, dataOK := false, false, true, true, true, true, true
	switch off.kind {
	case "CP":
		l.Tok("CP")
	case "P":
		l.Tok("P")
	case "E":
		l.Tok("E").Tok(off.cls)
	case "D":
		l.Tok("D")
		if err := jsonTokens(l, off.json); err != nil {
			return "# " + id + " skipped: produced JSON does not decode: " + err.Error()
		}
		mv = metaValid(c, off.json)
		rr = refsResolve(off.json)
		va = validatorAgrees(c, off.json)
		// repeated generations: fresh API, fresh operations
		// (the generation with validation on, compared below, is a further repetition)
		if c.Pause {
			time.Sleep(1100 * time.Millisecond)
		}
		reps := 1
		if c.manyExtensions() {
			reps = 10 // the order of k extensions of one object coincides by chance with probability 1/k!
		}
		for k := 0; k < reps && stable; k++ {
			again := generate(c, false)
			stable = again.kind == "D" && bytes.Equal(again.json, off.json)
		}
		// a three-step sequence in one process: this document, ANOTHER document (other types, other
		// tags on the same types), this document again — the third must equal the first
		if c.Mid != nil && stable {
			_ = generate(c.Mid, false)
			_ = generate(c.Mid, true)
			again := generate(c, false)
			stable = again.kind == "D" && bytes.Equal(again.json, off.json)
			if st != nil {
				st.Count("sequence_with_other_document")
			}
		}
		// (every case whose operations carry slices or maps the generator might keep — tags, security,
		// extensions, examples — and a third of the others)
		if c.carriesCollections() || sha256.Sum256(off.json)[0]%3 == 0 {
			stable = stable && reuseStable(c, off.json)
		}
		dataOK = dataIntact(c, off.json) && configIntact(c, off.json)
		if stable && c.Exec {
			stable = execDigest(c) == digest(off.json)
		}
		if c.App {
			appOK = appProbe(c, st)
		}
		if c.Seq {
			okS, ran := stateProbe(c)
			appOK = appOK && okS
			if st != nil {
				if ran {
					st.Count("state_probe")
				} else {
					st.Count("state_probe_skipped")
				}
			}
		}
		if c.Cold && mv {
			clean, ran, _ := coldProbe(c)
			coldOK = clean
			if st != nil {
				if ran {
					st.Count("cold_probe")
				} else {
					st.Count("cold_probe_skipped")
				}
			}
		}
	}
	switch on.kind {
	case "CP":
		l.Tok("CP")
	case "P":
		l.Tok("P")
	case "E":
		l.Tok("E").Tok(on.cls)
	case "D":
		if off.kind == "D" && bytes.Equal(on.json, off.json) {
			l.Tok("S")
		} else {
			l.Tok("X")
		}
	}
	l.Bool(mv).Bool(rr).Bool(stable).Bool(va).Bool(appOK).Bool(coldOK).Bool(dataOK)
	if st != nil {
		sh := shapes(e)
		st.Case(in[len(id):], sh.ptrSliceMap || sh.embed2)
		st.Count("off_" + off.kind + off.cls)
		st.Count("on_" + on.kind + on.cls)
		if c.V31 {
			st.Count("v31")
		} else {
			st.Count("v30")
		}
		if c.Strict {
			st.Count("strict")
		}
		st.Count("ops_" + strconv.Itoa(min(len(c.Ops), 6)))
		if c.manyExtensions() {
			st.Count("extensions_2plus_on_one_object")
		}
		if len(c.RootExt)+len(c.InfoExt) > 0 {
			st.Count("api_extensions")
		}
		for i := range c.Ops {
			if len(c.Ops[i].Ex) > 0 {
				st.Count("named_examples")
			}
			for _, r := range c.Ops[i].Resps {
				if r.T.K == "data" {
					st.Count("data_example")
				}
			}
		}
		for k, b := range map[string]bool{"shape_ptr_slice_map": sh.ptrSliceMap, "shape_embed_depth2": sh.embed2,
			"shape_generic": sh.generic, "shape_recursive": sh.recursive, "shape_name_collision": sh.collision,
			"shape_time": sh.timeT, "shape_dynamic_anon": sh.dynamic, "pause": c.Pause, "fresh_process": c.Exec} {
			if b {
				st.Count(k)
			}
		}
		st.Count("env_types_" + bucket(len(e.order)))
	}
	return l.String() + hx.Comment(c)
}

func bucket(n int) string {
	switch {
	case n == 0:
		return "0"
	case n < 5:
		return "1-4"
	case n < 20:
		return "5-19"
	case n < 60:
		return "20-59"
	}
	return "60+"
}

func digest(b []byte) string { h := sha256.Sum256(b); return hex.EncodeToString(h[:]) }

// execDigest generates the case in a fresh process and returns the sha256 of its JSON.
func execDigest(c *caseT) string {
	self, err := os.Executable()
	if err != nil {
		return "no-exe"
	}
	js, _ := json.Marshal(c)
	cmd := exec.Command(self, "one")
	cmd.Stdin = bytes.NewReader(js)
	out, err := cmd.Output()
	if err != nil {
		return "exec-failed"
	}
	return strings.TrimSpace(string(out))
}

// ---------------------------------------------------------------------------------------------
// generators

var words = []string{"users", "orders", "items", "boxes", "cities", "classes", "matches", "v1", "api", "status", "s", "ies", "api-keys", "v10", "apis"}
var params = []string{"id", "id", "name", "slug", "orderId", "user.id", "x-y", "q", "filepath", "path"}
var badPaths = []string{"", "users", "/a/:", "/a/:id/:id", "/a/{id", "/a/:i d", "/a/id}", "/a/{}", "/a/{id}/:id", "/x/:a/{a}", "/a/{b/c}"}
var opIDs = []string{"getUser", "listAll", "op1", "getUsers", "createUser"}
var statuses = []int{200, 200, 201, 204, 400, 404, 500, 202, 301, 418, 503, 599, 100}
var badStatuses = []int{99, 600, 0, 1000, 42, 777}

func genPath(r *hx.Rand) string {
	if r.Chance(1, 90) {
		return hx.Pick(r, badPaths)
	}
	if r.Chance(1, 25) {
		return "/"
	}
	n := r.Range(1, 4)
	var b strings.Builder
	used := map[string]bool{}
	for i := 0; i < n; i++ {
		b.WriteByte('/')
		switch {
		case i > 0 && r.Chance(2, 5):
			p := hx.Pick(r, params)
			if used[p] {
				p = p + strconv.Itoa(i)
			}
			used[p] = true
			if r.Chance(1, 12) {
				b.WriteString("{" + p + "}")
			} else {
				b.WriteString(":" + p)
			}
		case r.Chance(1, 30):
			b.WriteString("*" + hx.Pick(r, params))
		case r.Chance(1, 30): // empty segment
		default:
			b.WriteString(hx.Pick(r, words))
		}
	}
	if r.Chance(1, 15) {
		b.WriteByte('/')
	} else if r.Chance(1, 8) {
		b.WriteString("/*") // the router's catch-all segment: a literal for the document (no parameter is declared for it)
	}
	return b.String()
}

func genTX(r *hx.Rand, d int) TX {
	switch r.Intn(14) {
	case 0, 1, 2, 3, 4, 5:
		if r.Chance(1, 8) { // the da/dup, db/dup types (equal component names) are the last eight entries
			return TX{K: "corpus", I: len(corpus.Types) - 1 - r.Intn(8)}
		}
		return TX{K: "corpus", I: r.Intn(len(corpus.Types))}
	case 6:
		if d > 0 {
			e := genTX(r, d-1)
			if e.K == "nil" {
				e = TX{K: "prim", P: "string"}
			}
			k := hx.Pick(r, []string{"ptr", "slice", "slice", "map", "mapint", "array"})
			x := TX{K: k, E: &e}
			if k == "array" {
				x.I = r.Range(1, 3)
			}
			return x
		}
		return TX{K: "prim", P: hx.Pick(r, primNames)}
	case 7, 8:
		if d > 0 {
			return genStruct(r, d-1, false)
		}
		return TX{K: "time"}
	case 9:
		return TX{K: "time"}
	case 10:
		return TX{K: "nil"}
	case 11:
		return TX{K: "req", I: r.Intn(len(corpus.Requests))}
	default:
		return TX{K: "prim", P: hx.Pick(r, primNames)}
	}
}

var defaultValues = []string{"5", "0", "42", "abc", "true", "false", "x", "007", "1", "T"}
var dynNames = []string{"A", "B", "C", "Id", "Name", "Items", "Next", "When"}
var dynJSON = []string{"id", "name", "a", "b", "items", "next"}
var dynValidate = []string{"excludes=admin", "startswith=ab,endswith=z", "contains=x", "alpha", "numeric,required", "ip", "datetime=2006-01-02", "ne=5",
	"", "", "required", "required,email", "min=1,max=10", "gt=0,lte=9", "oneof=a b", "len=4",
	"minlen=1,maxlen=3", "uuid", "url,required", "alphanum", "omitempty,max=3", "min=x"}

// genStruct: an anonymous struct type over corpus types (reflect.StructOf)
func genStruct(r *hx.Rand, d int, req bool) TX {
	n := r.Range(0, 4)
	x := TX{K: "struct"}
	used := map[string]bool{}
	// embedded corpus struct (no methods in the corpus, so StructOf accepts it)
	if r.Chance(1, 4) {
		for try := 0; try < 4; try++ {
			i := r.Intn(len(corpus.Types))
			t := reflect.TypeOf(corpus.Types[i])
			if t.Kind() == reflect.Struct && !used[baseName(t)] && t.NumMethod() == 0 && reflect.PointerTo(t).NumMethod() == 0 {
				used[baseName(t)] = true
				e := TX{K: "corpus", I: i}
				if r.Chance(1, 3) {
					e = TX{K: "ptr", E: &TX{K: "corpus", I: i}}
				}
				x.F = append(x.F, FX{Name: baseName(t), T: e, Emb: true})
				break
			}
		}
	}
	for i := 0; i < n; i++ {
		name := hx.Pick(r, dynNames)
		if used[name] {
			continue
		}
		used[name] = true
		var tags []string
		if req && r.Chance(3, 5) {
			loc := hx.Pick(r, []string{"query", "path", "path", "header", "cookie"})
			tags = append(tags, fmt.Sprintf(`%s:"%s"`, loc, hx.Pick(r, params)))
			if r.Chance(1, 3) {
				tags = append(tags, fmt.Sprintf(`default:"%s"`, hx.Pick(r, defaultValues)))
			}
			if r.Chance(1, 5) {
				st := map[string][]string{"path": {"simple", "label", "matrix"}, "query": {"form", "deepObject", "pipeDelimited", "spaceDelimited"},
					"header": {"simple"}, "cookie": {"form"}}[loc]
				v := hx.Pick(r, st)
				if r.Chance(1, 6) {
					// possibly not admissible for the location; an admissible one in another spelling is not admissible either
					v = hx.Pick(r, []string{"form", "simple", "deepObject", "bogus", "deepobject", "PipeDelimited", "Simple", "FORM", "Matrix"})
				}
				tags = append(tags, fmt.Sprintf(`style:"%s"`, v))
			}
			if r.Chance(1, 6) {
				tags = append(tags, fmt.Sprintf(`explode:"%s"`, hx.Pick(r, []string{"true", "false", "yes"})))
			}
		} else {
			switch r.Intn(8) {
			case 0:
			case 1:
				tags = append(tags, `json:"-"`)
			case 2:
				tags = append(tags, fmt.Sprintf(`json:"%s,omitempty"`, hx.Pick(r, dynJSON)))
			default:
				tags = append(tags, fmt.Sprintf(`json:"%s"`, hx.Pick(r, dynJSON)))
			}
		}
		if v := hx.Pick(r, dynValidate); v != "" {
			tags = append(tags, fmt.Sprintf(`validate:"%s"`, v))
		}
		// doc / example / enum / format tags: read by structSchema (doc, example) and by the parameter
		// introspection (all four)
		if r.Chance(1, 4) {
			tags = append(tags, fmt.Sprintf(`doc:"%s"`, hx.Pick(r, []string{"the id", "free text, with a comma", "x", "Name of the thing."})))
		}
		if r.Chance(1, 4) {
			tags = append(tags, fmt.Sprintf(`example:"%s"`, hx.Pick(r, defaultValues)))
		}
		if r.Chance(1, 6) {
			tags = append(tags, fmt.Sprintf(`enum:"%s"`, hx.Pick(r, []string{"a,b,c", " a , b ", "1,2,3", ",,", "x", "a,a"})))
		}
		if r.Chance(1, 6) {
			tags = append(tags, fmt.Sprintf(`format:"%s"`, hx.Pick(r, []string{"int64", "email", "custom-fmt", "date", "uuid"})))
		}
		ft := genTX(r, d)
		if ft.K == "nil" {
			ft = TX{K: "prim", P: "any"}
		}
		x.F = append(x.F, FX{Name: name, Tag: strings.Join(tags, " "), T: ft})
	}
	return x
}

var extKeys = []string{"x-a", "x-b", "x-rate-limit", "x-internal", "x-cost", "x-code-samples", "x-z9"}

func genExts(r *hx.Rand) []extT {
	n := r.Range(2, 5)
	if r.Chance(1, 5) {
		n = 1
	}
	keys := append([]string(nil), extKeys...)
	hx.Shuffle(r, keys)
	var out []extT
	for _, k := range keys[:n] {
		out = append(out, extT{K: k, P: r.Intn(len(payloadTexts))})
	}
	return out
}

// extension keys on operations are not checked by an option: the projection filters them — a key that does not
// start with a lower-case "x-" is dropped, and so is a reserved prefix (x-oai-, x-oas-) for a 3.1 target
var droppedOpExtKeys = []string{"X-Internal", "X-Rate-Limit", "internal", "x_under", "x-oai-meta", "x-oas-draft", "X-OAI-up"}

func opExtKept(k string, v31 bool) bool {
	if !strings.HasPrefix(k, "x-") {
		return false
	}
	return !(v31 && (strings.HasPrefix(k, "x-oai-") || strings.HasPrefix(k, "x-oas-")))
}

func genOp(r *hx.Rand) opT {
	var o opT
	switch r.Intn(20) {
	case 0:
		o.Ctor = "TRACE"
	case 1:
		o.Ctor = "Op:" + hx.Pick(r, []string{"PURGE", "get", "Post", "LINK", "delete"})
	default:
		o.Ctor = hx.Pick(r, []string{"GET", "GET", "GET", "POST", "POST", "PUT", "PATCH", "DELETE", "HEAD", "OPTIONS"})
	}
	o.Path = genPath(r)
	if r.Chance(7, 10) {
		o.Summary = hx.Pick(r, []string{"s", "List things", "Get one"})
	}
	if r.Chance(1, 5) {
		o.Desc = "d"
	}
	if r.Chance(1, 5) {
		o.OpID = hx.Pick(r, opIDs)
	}
	switch r.Intn(10) {
	case 0, 1, 2, 3: // no request
	case 4, 5, 6:
		x := TX{K: "req", I: r.Intn(len(corpus.Requests))}
		if r.Chance(1, 4) {
			x = TX{K: "ptr", E: &TX{K: "req", I: x.I}}
		}
		o.Req = &x
	case 7:
		x := genStruct(r, 1, true)
		o.Req = &x
	case 8:
		x := TX{K: "corpus", I: r.Intn(len(corpus.Types))}
		o.Req = &x
	default:
		x := genTX(r, 1)
		if x.K != "nil" {
			o.Req = &x
		}
	}
	n := r.Intn(4)
	for i := 0; i < n; i++ {
		st := hx.Pick(r, statuses)
		if r.Chance(1, 100) {
			st = hx.Pick(r, badStatuses)
		}
		rs := respT{Status: st, T: genTX(r, 2)}
		if r.Chance(1, 14) {
			rs.T = TX{K: "data", I: r.Intn(len(payloadTexts))}
		}
		if r.Chance(1, 9) {
			if o.Ex == nil {
				o.Ex = map[int][]exT{}
			}
			for k, m := 0, r.Range(1, 3); k < m; k++ {
				o.Ex[i] = append(o.Ex[i], exT{Name: hx.Pick(r, []string{"one", "two", "schema-like", "hal"}), P: r.Intn(len(payloadTexts)),
					Sum: hx.Pick(r, []string{"", "s"})})
			}
		}
		o.Resps = append(o.Resps, rs)
	}
	if r.Chance(1, 16) {
		o.Ext = genExts(r)
		if r.Chance(1, 3) {
			o.Ext = append(o.Ext, extT{K: hx.Pick(r, droppedOpExtKeys), P: r.Intn(len(payloadTexts))})
		}
	}
	if r.Chance(1, 4) {
		for k, m := 0, r.Range(1, 4); k < m; k++ {
			o.Tags = append(o.Tags, hx.Pick(r, []string{"users", "admin", "users", "orders", "a"})) // repeats are likely
		}
	}
	o.Dep = r.Chance(1, 12)
	if r.Chance(1, 7) {
		for k, m := 0, r.Range(1, 3); k < m; k++ {
			o.Cons = append(o.Cons, hx.Pick(r, mediaTypes))
		}
	}
	if r.Chance(1, 9) {
		for k, m := 0, r.Range(1, 2); k < m; k++ {
			o.Prod = append(o.Prod, hx.Pick(r, mediaTypes[:8]))
		}
	}
	if r.Chance(1, 6) {
		for k, m := 0, r.Range(1, 2); k < m; k++ {
			x := secT{Scheme: hx.Pick(r, []string{"bearerAuth", "oauth2", "apiKey"})}
			if r.Chance(1, 2) {
				x.Scopes = []string{"read", "write:users"}[:r.Range(1, 2)]
			}
			o.Sec = append(o.Sec, x)
		}
	}
	// an option sequence that documents the same status twice: first with a sample value (single
	// example), later refined with named examples, or the other way round
	if len(o.Resps) > 0 && r.Chance(1, 8) {
		k := r.Intn(len(o.Resps))
		st := o.Resps[k].Status
		named := []exT{{Name: "refined", P: r.Intn(len(payloadTexts))}}
		if o.Ex == nil {
			o.Ex = map[int][]exT{}
		}
		if r.Chance(1, 2) {
			o.Resps[k].T = TX{K: "data", I: r.Intn(len(payloadTexts))}
			o.Resps = append(o.Resps, respT{Status: st, T: TX{K: "corpus", I: r.Intn(len(corpus.Types))}})
			o.Ex[len(o.Resps)-1] = named
		} else {
			o.Ex[k] = named
			o.Resps = append(o.Resps, respT{Status: st, T: TX{K: "data", I: r.Intn(len(payloadTexts))}})
		}
	}
	return o
}

// idsOf returns the operationIds of a produced document by (member, path key).
func idsOf(js []byte) []string {
	var root map[string]any
	if json.Unmarshal(js, &root) != nil {
		return nil
	}
	var out []string
	paths, _ := root["paths"].(map[string]any)
	keys := make([]string, 0, len(paths))
	for k := range paths {
		keys = append(keys, k)
	}
	sort.Strings(keys)
	for _, k := range keys {
		item, _ := paths[k].(map[string]any)
		ms := make([]string, 0, len(item))
		for m := range item {
			ms = append(ms, m)
		}
		sort.Strings(ms)
		for _, m := range ms {
			op, _ := item[m].(map[string]any)
			if id, _ := op["operationId"].(string); id != "" {
				out = append(out, id)
			}
		}
	}
	return out
}

func genCase(r *hx.Rand) caseT {
	c := caseT{V31: r.Chance(1, 2), Strict: r.Chance(1, 3)}
	n := r.Range(1, 5)
	if r.Chance(1, 12) {
		n = r.Range(6, 12)
	}
	if r.Chance(1, 25) {
		n = 0
	}
	for i := 0; i < n; i++ {
		o := genOp(r)
		if i > 0 && r.Chance(1, 6) {
			// the same route under another method: operations of one path item, built one after the other
			o.Path = c.Ops[r.Intn(i)].Path
			if r.Chance(1, 3) {
				// … or the same shape with other parameter names (`/users/:id`, `/users/:userId`): two path items
				parts := strings.Split(o.Path, "/")
				for k, part := range parts {
					if strings.HasPrefix(part, ":") && len(part) > 1 {
						parts[k] = ":" + hx.Pick(r, params) + strconv.Itoa(k)
					}
				}
				o.Path = strings.Join(parts, "/")
			}
		}
		c.Ops = append(c.Ops, o)
	}
	if r.Chance(1, 5) {
		c.Cfg = genCfg(r, c.V31)
	}
	if r.Chance(1, 12) && len(c.Ops) > 0 {
		m := caseT{V31: r.Chance(1, 2)}
		for i, n := 0, r.Range(1, 3); i < n; i++ {
			m.Ops = append(m.Ops, genOp(r))
		}
		c.Mid = &m
	}
	// an explicit operationId equal to the id another route generates (either visiting order)
	if len(c.Ops) >= 2 && r.Chance(1, 10) {
		if res := generate(&c, false); res.kind == "D" {
			if ids := idsOf(res.json); len(ids) > 0 {
				j := r.Intn(len(c.Ops))
				c.Ops[j].OpID = hx.Pick(r, ids)
				if c.Ops[j].Summary == "" {
					c.Ops[j].Summary = "s" // WithOperationID only counts on a documented operation
				}
			}
		}
	}
	if r.Chance(1, 12) {
		c.RootExt = genExts(r)
	}
	if r.Chance(1, 14) {
		c.InfoExt = genExts(r)
	}
	// force overlaps: the same path with another method, or the same method on a near-identical path
	if len(c.Ops) >= 2 && r.Chance(1, 4) {
		c.Ops[1].Path = c.Ops[0].Path
	}
	return c
}

// fixed witnesses: the findings of DESIGN.md §7 / notes/C07.md and boundary cases, emitted first
func fixedCases() []caseT {
	idx := func(name string) int {
		for i, v := range corpus.Types {
			if reflect.TypeOf(v).String() == name {
				return i
			}
		}
		panic("corpus type not found: " + name)
	}
	firstWhere := func(pred func(reflect.Type) bool) int {
		for i, v := range corpus.Types {
			if pred(reflect.TypeOf(v)) {
				return i
			}
		}
		panic("no corpus type with the wanted shape")
	}
	ct := func(name string) TX { return TX{K: "corpus", I: idx(name)} }
	ok := func(t TX) []respT { return []respT{{200, t}} }
	generic := firstWhere(func(t reflect.Type) bool {
		return t.Kind() == reflect.Struct && strings.Contains(t.Name(), "[") && strings.Contains(t.Name(), "/")
	})
	var cs []caseT
	for _, v31 := range []bool{false, true} {
		cs = append(cs,
			// K07a: validation on must accept a plain valid document
			caseT{V31: v31, Ops: []opT{{Ctor: "GET", Path: "/u/:id", Summary: "s", Resps: ok(ct("pa.Item"))}}},
			// K07b: time.Time example, generations 1.1 s apart and in a fresh process
			caseT{V31: v31, Pause: true, Exec: true, Ops: []opT{{Ctor: "GET", Path: "/t", Resps: ok(TX{K: "struct",
				F: []FX{{Name: "When", Tag: `json:"when"`, T: TX{K: "time"}}}})}}},
			// repeated tags through a composed option set, deprecated, security with and without scopes
			// (K07k), a path parameter with a default, an explicit id equal to a generated one
			caseT{V31: v31, Ops: []opT{
				{Ctor: "GET", Path: "/users/:id", Summary: "s", Tags: []string{"users", "users", "admin"}, Dep: true,
					Sec: []secT{{Scheme: "bearerAuth"}, {Scheme: "oauth2", Scopes: []string{"read", "write:users"}}},
					Req: &TX{K: "struct", F: []FX{{Name: "ID", Tag: `path:"id" default:"7"`, T: TX{K: "prim", P: "int"}},
						{Name: "Q", Tag: `query:"q" default:"abc"`, T: TX{K: "prim", P: "int"}},
						{Name: "B", Tag: `query:"b" default:"true"`, T: TX{K: "ptr", E: &TX{K: "prim", P: "bool"}}}}}},
				{Ctor: "POST", Path: "/users", Summary: "s", Tags: []string{"users"}}}},
			caseT{V31: v31, Ops: []opT{{Ctor: "GET", Path: "/users"}, {Ctor: "GET", Path: "/v2/users", Summary: "s", OpID: "getUsers"}}},
			caseT{V31: v31, Ops: []opT{{Ctor: "GET", Path: "/v2/users"}, {Ctor: "GET", Path: "/a", Summary: "s", OpID: "getV2Users"}}},
			// the same status documented twice: sample value then named examples, and the reverse
			caseT{V31: v31, Ops: []opT{{Ctor: "GET", Path: "/r", Summary: "s",
				Resps: []respT{{404, TX{K: "data", I: 1}}, {404, ct("pa.Item")}, {200, ct("pa.Item")}, {200, TX{K: "data", I: 5}}},
				Ex:    map[int][]exT{1: {{"refined", "", 4}}, 2: {{"first", "s", 0}}}}}},
			// literal data: several extensions on the root, the info object and an operation; example
			// payloads that look like schemas / references (they are data: validation must accept them,
			// reference resolution must not look into them, their bytes must be stable)
			caseT{V31: v31,
				RootExt: []extT{{"x-a", 0}, {"x-b", 4}, {"x-rate-limit", 8}, {"x-internal", 11}, {"x-code-samples", 13}},
				InfoExt: []extT{{"x-a", 9}, {"x-cost", 8}, {"x-z9", 2}},
				Ops: []opT{
					{Ctor: "GET", Path: "/forms/:name", Summary: "s", Ext: []extT{{"x-rate-limit", 8}, {"x-internal", 11}, {"x-cost", 1}, {"x-a", 6}},
						Resps: []respT{{200, TX{K: "data", I: 1}}, {404, ct("pa.Item")}},
						Ex:    map[int][]exT{1: {{"schema-like", "s", 4}, {"hal", "", 5}}}},
					{Ctor: "POST", Path: "/forms", Summary: "s", Resps: []respT{{201, TX{K: "data", I: 10}}, {400, TX{K: "data", I: 6}}}}}},
			// API-level configuration (contact, license, external docs, servers, tags, four kinds of security
			// scheme, OAuth2 flows with nil / empty / named scopes, default security); request bodies whose
			// WithConsumes list has no well-formed entry, several media types
			caseT{V31: v31, Cfg: fixedCfg(), Ops: []opT{
				{Ctor: "POST", Path: "/up/:id", Summary: "s", Req: &TX{K: "req", I: 0}, Cons: []string{"application/json, application/xml"}, Resps: ok(ct("pa.Item"))},
				{Ctor: "PUT", Path: "/up/:id", Summary: "s", Req: &TX{K: "req", I: 0}, Cons: []string{"multipart/form-data; boundary", ""}, Prod: []string{"application/xml", "application/json"}, Resps: ok(ct("pa.Item"))},
				{Ctor: "PATCH", Path: "/up/:id", Summary: "s", Req: &TX{K: "req", I: 0}, Cons: []string{""}}}},
			// two operations of one path item: the first declares the path parameter in its request struct, the
			// second has a body-only request struct — each gets its own `id` path parameter
			caseT{V31: v31, Ops: []opT{
				{Ctor: "GET", Path: "/pt/:id", Summary: "s", Req: &TX{K: "struct", F: []FX{{Name: "ID", Tag: `path:"id"`, T: TX{K: "prim", P: "int"}}}}},
				{Ctor: "PUT", Path: "/pt/:id", Summary: "s", Req: &TX{K: "struct", F: []FX{{Name: "Name", Tag: `json:"name"`, T: TX{K: "prim", P: "string"}}}}},
				{Ctor: "OPTIONS", Path: "/pt/:id", Summary: "s"}}},
			// info.summary (a 3.1 member): kept for 3.1, dropped for 3.0, an error for 3.0 under StrictDownlevel
			caseT{V31: v31, Strict: true, Cfg: &cfgT{Summary: "Users and orders"}, Ops: []opT{{Ctor: "GET", Path: "/sm", Summary: "s", Resps: ok(ct("pa.Item"))}}},
			caseT{V31: v31, Cfg: &cfgT{Summary: "Users and orders", Desc: "An API"}, Ops: []opT{{Ctor: "GET", Path: "/sm", Summary: "s", Resps: ok(ct("pa.Item"))}}},
			// well-known types with a fixed JSON form, plain — then, in between, the same types behind
			// pointers and with constraints — then plain again (same process)
			caseT{V31: v31, Ops: []opT{{Ctor: "GET", Path: "/wk", Resps: ok(ct("pa.WellKnown"))}},
				Mid: &caseT{V31: v31, Ops: []opT{{Ctor: "GET", Path: "/wk2", Resps: ok(ct("pa.WellKnownPtr"))},
					{Ctor: "GET", Path: "/wk3", Summary: "s", Req: &TX{K: "corpus", I: idx("pa.WellKnownPtr")}}}}},
			// a wrapper struct whose only field is an embedded struct that refers back to it, entered
			// through the wrapper and through the inner type
			caseT{V31: v31, Ops: []opT{{Ctor: "GET", Path: "/cat", Resps: []respT{{200, ct("pa.CatNode")}}}}},
			caseT{V31: v31, Ops: []opT{{Ctor: "GET", Path: "/cat", Resps: []respT{{200, ct("pa.Cat")}, {201, ct("pa.CatNode")}}}}},
			// validator rules the generator does not interpret, object-typed parameters in every location,
			// style / explode tags (admissible), and a style that is not admissible for its location (K07l)
			caseT{V31: v31, Ops: []opT{{Ctor: "GET", Path: "/rules/:id", Summary: "s", Req: &TX{K: "corpus", I: idx("pa.ObjParams")},
				Resps: ok(ct("pa.Rules"))}}},
			caseT{V31: v31, Ops: []opT{{Ctor: "GET", Path: "/st/:id", Summary: "s", Req: &TX{K: "struct", F: []FX{
				{Name: "ID", Tag: `path:"id" style:"form"`, T: TX{K: "prim", P: "int"}}}}}}},
			// the app's OpenAPI state: operations registered while a specification is being generated
			caseT{V31: v31, Seq: true, Ops: []opT{
				{Ctor: "GET", Path: "/early", Summary: "early", Resps: ok(ct("pa.Item"))},
				{Ctor: "GET", Path: "/late/:id", Summary: "late", Resps: ok(ct("pa.Node"))},
				{Ctor: "POST", Path: "/late", Summary: "late", Tags: []string{"users"}}}},
			// first-use concurrency of validation-on in a fresh process (cold meta-schema cache)
			caseT{V31: v31, Cold: true, Ops: []opT{{Ctor: "GET", Path: "/ping", Summary: "Ping", Resps: ok(TX{K: "struct",
				F: []FX{{Name: "OK", Tag: `json:"ok"`, T: TX{K: "prim", P: "bool"}}}})}}},
			caseT{V31: v31, Cold: true, Strict: true, Ops: []opT{
				{Ctor: "POST", Path: "/u/:id", Summary: "s", Req: &TX{K: "req", I: 0}, Resps: ok(ct("pa.Item"))},
				{Ctor: "GET", Path: "/n", Resps: []respT{{200, ct("pa.Node")}, {404, TX{K: "nil"}}}}}},
			// the served specification: body and ETag of two app instances 1.1 s apart (K07b, K07h shapes)
			caseT{V31: v31, Pause: true, App: true, Ops: []opT{
				{Ctor: "GET", Path: "/t/:id", Summary: "s", Resps: ok(TX{K: "struct", F: []FX{{Name: "When", Tag: `json:"when"`, T: TX{K: "time"}}}})},
				{Ctor: "POST", Path: "/a", Summary: "s", Resps: ok(ct("dup.Item"))},
				{Ctor: "POST", Path: "/b", Summary: "s", Resps: ok(TX{K: "corpus", I: idx("dup.Item") + 1})},
				{Ctor: "POST", Path: "/c", Summary: "s", Resps: ok(ct("dup.Sub"))},
				{Ctor: "POST", Path: "/d", Summary: "s", Resps: ok(TX{K: "corpus", I: idx("dup.Sub") + 1})}}},
			// K07c: instantiated generic whose argument has an import path with '/'
			caseT{V31: v31, Ops: []opT{{Ctor: "GET", Path: "/g", Resps: ok(TX{K: "corpus", I: generic})}}},
			// K07d: embedded structs repeat a required JSON name (depth 3) / a dynamic variant
			caseT{V31: v31, Ops: []opT{{Ctor: "GET", Path: "/d", Resps: ok(ct("pa.D3"))}}},
			caseT{V31: v31, Ops: []opT{{Ctor: "GET", Path: "/d", Resps: ok(TX{K: "struct", F: []FX{
				{Name: "Req", T: ct("dup.Req"), Emb: true},
				{Name: "A2", Tag: `json:"a" validate:"required"`, T: TX{K: "prim", P: "string"}},
				{Name: "A3", Tag: `json:"a" validate:"required"`, T: TX{K: "prim", P: "int"}}}})}}},
			// K07e: status codes outside 1XX-5XX
			caseT{V31: v31, Ops: []opT{{Ctor: "GET", Path: "/e", Resps: []respT{{600, ct("pa.Item")}}}}},
			caseT{V31: v31, Ops: []opT{{Ctor: "GET", Path: "/e", Resps: []respT{{200, ct("pa.Item")}, {99, TX{K: "nil"}}}}}},
			// K07f: embedded non-struct types
			caseT{V31: v31, Ops: []opT{{Ctor: "GET", Path: "/f", Resps: ok(ct("pa.EmbNon"))}}},
			// K07g: two fields with the same path tag
			caseT{V31: v31, Ops: []opT{{Ctor: "GET", Path: "/p/:id", Summary: "s", Req: &TX{K: "struct", F: []FX{
				{Name: "A", Tag: `path:"id"`, T: TX{K: "prim", P: "int"}},
				{Name: "B", Tag: `path:"id"`, T: TX{K: "prim", P: "int"}}}}}}},
			// K07h: types with the same component name on several paths / several status codes
			caseT{V31: v31, Ops: []opT{
				{Ctor: "GET", Path: "/a", Resps: ok(ct("dup.Item"))},
				{Ctor: "GET", Path: "/b", Resps: ok(TX{K: "corpus", I: idx("dup.Item") + 1})},
				{Ctor: "GET", Path: "/c", Resps: ok(ct("dup.Wrap"))},
				{Ctor: "GET", Path: "/d", Resps: ok(TX{K: "corpus", I: idx("dup.Wrap") + 1})},
				{Ctor: "GET", Path: "/e", Resps: ok(ct("dup.Sub"))},
				{Ctor: "GET", Path: "/f", Resps: ok(TX{K: "corpus", I: idx("dup.Sub") + 1})}}},
			caseT{V31: v31, Ops: []opT{{Ctor: "GET", Path: "/a", Resps: []respT{
				{200, ct("dup.Item")}, {201, TX{K: "corpus", I: idx("dup.Item") + 1}}, {202, ct("dup.Wrap")},
				{203, TX{K: "corpus", I: idx("dup.Wrap") + 1}}, {204, ct("dup.Sub")}, {205, TX{K: "corpus", I: idx("dup.Sub") + 1}},
				{206, ct("dup.Sub")}}}}},
			// K07i: self-referential container types
			caseT{V31: v31, Ops: []opT{{Ctor: "GET", Path: "/i", Resps: []respT{{200, ct("pa.Tree")}, {201, ct("pa.Dict")},
				{202, ct("pa.Ptr")}, {203, ct("pa.Items")}}}}},
			// K07j: a struct embedding a pointer to itself, directly and through another struct
			caseT{V31: v31, Ops: []opT{{Ctor: "GET", Path: "/j", Resps: ok(ct("pa.SelfEmb"))}}},
			caseT{V31: v31, Ops: []opT{{Ctor: "GET", Path: "/j", Resps: ok(ct("pb.EmbA"))}}},
			// further hand-written shapes: embedded generic instantiations, unexported embedded struct,
			// embedded interfaces, nested containers
			caseT{V31: v31, Ops: []opT{{Ctor: "GET", Path: "/shapes", Resps: []respT{{200, ct("pa.EmbGen")}, {201, ct("pa.EmbHidden")},
				{202, ct("pb.EmbIface")}, {203, ct("pa.Deep")}}}}},
			// boundaries
			caseT{V31: v31},
			caseT{V31: v31, Ops: []opT{{Ctor: "GET", Path: "/u/:id"}, {Ctor: "GET", Path: "/u/:id"}}},
			caseT{V31: v31, Ops: []opT{{Ctor: "GET", Path: "/users/:id"}, {Ctor: "GET", Path: "/user/:id"}}},
			caseT{V31: v31, Ops: []opT{{Ctor: "TRACE", Path: "/t", Summary: "s"}}},
			caseT{V31: v31, Ops: []opT{{Ctor: "GET", Path: "users"}}},
			caseT{V31: v31, Ops: []opT{{Ctor: "POST", Path: "/r/:id", Summary: "s", Req: &TX{K: "req", I: 0}, Resps: []respT{{204, TX{K: "nil"}}}}}},
		)
	}
	return cs
}

func main() {
	if len(os.Args) >= 2 && os.Args[1] == "cold" {
		coldMain()
		return
	}
	if len(os.Args) >= 2 && os.Args[1] == "one" {
		// print the sha256 of one generation of the case read from stdin (fresh-process determinism)
		var c caseT
		if err := json.NewDecoder(os.Stdin).Decode(&c); err != nil {
			fmt.Println("bad-case")
			return
		}
		r := generate(&c, false)
		if r.kind != "D" {
			fmt.Println("no-doc-" + r.kind)
			return
		}
		fmt.Println(digest(r.json))
		return
	}
	switch os.Args[1] {
	case "gen":
		// supervisor: the cases run in a worker process, so that a crash of the real code that
		// cannot be recovered (stack overflow) is an observation of one case, not the end of the run
		os.Exit(supervise(append([]string{"work"}, os.Args[2:]...), nil))
	case "replay":
		var in bytes.Buffer
		_, _ = in.ReadFrom(os.Stdin)
		os.Exit(supervise([]string{"replaywork"}, in.Bytes()))
	}
	from, _ := strconv.Atoi(os.Getenv("C07_FROM"))
	w := hx.Out()
	defer w.Flush()
	// the app prints a start-up banner to os.Stdout; the case stream keeps the original descriptor
	if null, err := os.OpenFile(os.DevNull, os.O_WRONLY, 0); err == nil {
		os.Stdout = null
	}
	idx := 0
	run := func(id string, c *caseT, st *hx.Stats) {
		if idx >= from {
			pending = func(fb string) {
				fmt.Fprintf(w, "#pending %d %s\n", idx, fb)
				w.Flush()
			}
			fmt.Fprintln(w, emit(id, c, st))
			w.Flush()
		}
		idx++
	}
	switch os.Args[1] {
	case "work":
		a := hx.ParseArgs()
		if pf := os.Getenv("C07_CPUPROFILE"); pf != "" {
			f, _ := os.Create(pf)
			_ = pprof.StartCPUProfile(f)
			defer pprof.StopCPUProfile()
		}
		r := hx.NewRand(a.Seed)
		st := hx.NewStats()
		for i, c := range fixedCases() {
			run(fmt.Sprintf("c07-fix-%d", i), &c, st)
		}
		pauses, execs, apps, colds, seqs := 2, 3, 3, 4, 4
		if a.Tier == "thorough" {
			pauses, execs, apps, colds, seqs = 4, 12, 10, 16, 16
		}
		for i := 0; i < a.N; i++ {
			c := genCase(r)
			if pauses > 0 && r.Chance(1, 50) {
				c.Pause = true
				pauses--
			}
			if execs > 0 && r.Chance(1, 40) {
				c.Exec = true
				execs--
			}
			if apps > 0 && r.Chance(1, 20) && appEligible(&c) {
				c.App = true
				apps--
			}
			if seqs > 0 && r.Chance(1, 10) && len(c.Ops) >= 2 {
				c.Seq = true
				seqs--
			}
			if colds > 0 && r.Chance(1, 12) && len(c.Ops) > 0 {
				c.Cold = true
				colds--
			}
			run(fmt.Sprintf("c07-%d-%d", a.Seed, i), &c, st)
		}
		st.Emit(w)
	case "replaywork":
		for _, line := range hx.StdinLines() {
			var c caseT
			id, err := hx.CaseFromComment(line, &c)
			if err != nil {
				fmt.Fprintf(w, "# cannot replay %q: %v\n", id, err)
				idx++
				continue
			}
			run(id, &c, nil)
		}
	default:
		fmt.Fprintln(os.Stderr, "usage: gen|replay [-seed S] [-n N] [-tier T]")
		os.Exit(2)
	}
}

// supervise runs the worker, relays its lines, and turns a worker crash into the pending case's
// fallback line (observation: the generator killed the process) before restarting after that case.
func supervise(args []string, stdin []byte) int {
	self, err := os.Executable()
	if err != nil {
		fmt.Fprintln(os.Stderr, err)
		return 2
	}
	out := hx.Out()
	defer out.Flush()
	from := 0
	for attempt := 0; attempt < 200; attempt++ {
		cmd := exec.Command(self, args...)
		cmd.Env = append(os.Environ(), "C07_FROM="+strconv.Itoa(from))
		cmd.Stdin = bytes.NewReader(stdin)
		var stderr bytes.Buffer
		cmd.Stderr = &stderr
		pipe, err := cmd.StdoutPipe()
		if err != nil {
			fmt.Fprintln(os.Stderr, err)
			return 2
		}
		if err = cmd.Start(); err != nil {
			fmt.Fprintln(os.Stderr, err)
			return 2
		}
		pendingIdx, pendingLine := -1, ""
		sc := bufio.NewScanner(pipe)
		sc.Buffer(make([]byte, 1<<20), 1<<28)
		for sc.Scan() {
			line := sc.Text()
			if rest, ok := strings.CutPrefix(line, "#pending "); ok {
				i := strings.IndexByte(rest, ' ')
				pendingIdx, _ = strconv.Atoi(rest[:i])
				pendingLine = rest[i+1:]
				continue
			}
			if !strings.HasPrefix(line, "#") {
				pendingIdx = -1
			}
			fmt.Fprintln(out, line)
		}
		if err = cmd.Wait(); err == nil {
			return 0
		}
		if pendingIdx < 0 {
			msg := stderr.String()
			if len(msg) > 2000 {
				msg = msg[:2000]
			}
			fmt.Fprintf(os.Stderr, "worker failed outside a case: %v\n%s\n", err, msg)
			return 2
		}
		fmt.Fprintln(out, pendingLine)
		from = pendingIdx + 1
	}
	fmt.Fprintln(os.Stderr, "too many worker crashes")
	return 2
}
