// gencorpus writes the committed corpus of Go types used by the C07 harness:
//
//	corpus/pa, corpus/pb          two packages that declare the same type names (Item, User, Node, Page, …)
//	corpus/da/dup, corpus/db/dup  two packages whose import paths end in the same component, so that
//	                              schemaName gives their equally named types the same component key
//	corpus/registry_gen.go        []any of zero values the harness indexes into
//
// Run from /verif/harness:  go run ./c07/gencorpus   (deterministic; the output is committed, ./check
// never runs this program).
package main

import (
	"bytes"
	"fmt"
	"go/format"
	"os"
	"path/filepath"
	"sort"
	"strings"

	"verif/harness/hx"
)

const root = "c07/corpus"
const imp = "verif/harness/c07/corpus"

var jsonNames = []string{"id", "name", "a", "b", "items", "next", "meta", "when", "tags", "value", "count", "kind"}
var validateTags = []string{
	"excludes=admin", "startswith=ab", "contains=x,required", "alpha", "numeric", "ne=5", "ip",
	"", "", "", "required", "required", "required,email", "min=1,max=10", "gte=0,lt=100", "oneof=a b c",
	"len=5", "minlen=2,maxlen=8", "uuid", "url", "alphanum", "omitempty,min=3", "required,oneof=x y",
	"gt=0", "lte=5", "min=abc", "required,uuid", "required,min=2", "email", "max=7",
}
var prims = []string{"string", "string", "string", "bool", "int", "int8", "int16", "int32", "int64", "uint", "uint8",
	"uint16", "uint32", "uint64", "float32", "float64"}

type pkgT struct {
	name, path string
	imports    map[string]bool
	decls      []string
	structs    []string // named struct types declared so far (usable by value)
	all        []string // every struct name that will exist in the package (usable behind pointer/slice/map)
	reqs       []string
	extra      []string // registry expressions (instantiated generics, containers)
}

type gen struct {
	r     *hx.Rand
	p     *pkgT
	other *pkgT // package whose types may be referenced qualified (pa -> pb); nil otherwise
	self  string
	depth int
}

func (g *gen) prim() string { return hx.Pick(g.r, prims) }

// named struct usable by value at this point (declared earlier), possibly from the other package
func (g *gen) earlier() string {
	if g.other != nil && len(g.other.all) > 0 && g.r.Chance(1, 4) {
		g.p.imports[imp+"/"+g.other.path] = true
		return g.other.name + "." + hx.Pick(g.r, g.other.all)
	}
	if len(g.p.structs) == 0 {
		return ""
	}
	return hx.Pick(g.r, g.p.structs)
}

// any named struct of the package, including the one being declared and later ones
func (g *gen) anyStruct() string {
	if g.r.Chance(1, 3) {
		return g.self
	}
	return hx.Pick(g.r, g.p.all)
}

func (g *gen) leaf() string {
	switch g.r.Intn(14) {
	case 0:
		g.p.imports["time"] = true
		return "time.Time"
	case 1:
		g.p.imports["time"] = true
		return "*time.Time"
	case 2:
		return "[]byte"
	case 3:
		return hx.Pick(g.r, []string{"ID", "Count", "Raw", "Tags", "Labels"})
	case 4:
		return hx.Pick(g.r, []string{"any", "error", "func()", "chan int", "complex128"})
	case 5:
		return hx.Pick(g.r, []string{"Tree", "Dict", "Ptr", "Items"})
	default:
		return g.prim()
	}
}

// byValue: a type expression that may contain named structs only by value of earlier declarations
func (g *gen) typ(d int) string {
	if d <= 0 {
		return g.leaf()
	}
	switch g.r.Intn(16) {
	case 0, 1:
		return "*" + g.indirect(d-1)
	case 2, 3:
		return "[]" + g.indirect(d-1)
	case 4:
		return "map[string]" + g.indirect(d-1)
	case 5:
		return "map[" + hx.Pick(g.r, []string{"int", "ID", "string", "Count"}) + "]" + g.indirect(d-1)
	case 6:
		return fmt.Sprintf("[%d]", g.r.Range(1, 4)) + g.typ(d-1)
	case 7:
		if e := g.earlier(); e != "" {
			return e
		}
		return g.leaf()
	case 9:
		return g.anon(d - 1)
	case 10:
		return g.generic(d-1, false)
	default:
		return g.leaf()
	}
}

// behind a pointer/slice/map any named struct is allowed (recursion)
func (g *gen) indirect(d int) string {
	switch g.r.Intn(8) {
	case 0:
		return g.anyStruct()
	case 1:
		return g.self
	case 2:
		return g.generic(d, true)
	default:
		return g.typ(d)
	}
}

func (g *gen) generic(d int, indirect bool) string {
	arg := func() string {
		if indirect && g.r.Chance(1, 3) {
			return g.anyStruct()
		}
		switch g.r.Intn(5) {
		case 0:
			if e := g.earlier(); e != "" {
				return e
			}
			return g.prim()
		case 1:
			if d > 0 {
				return g.generic(d-1, indirect)
			}
			return g.prim()
		case 2:
			return "[]" + g.prim()
		default:
			return g.prim()
		}
	}
	switch g.r.Intn(3) {
	case 0:
		return "Page[" + arg() + "]"
	case 1:
		return "Pair[" + hx.Pick(g.r, []string{"string", "int", "ID"}) + ", " + arg() + "]"
	default:
		return "Box[" + arg() + "]"
	}
}

func (g *gen) tag(req bool, used map[string]bool) string {
	var parts []string
	r := g.r
	if req && r.Chance(3, 5) {
		loc := hx.Pick(r, []string{"query", "query", "path", "path", "header", "cookie"})
		name := hx.Pick(r, []string{"id", "name", "slug", "orderId", "q", "limit", "X-Trace", "sid"})
		if r.Chance(1, 10) {
			name = ""
		}
		if r.Chance(1, 8) {
			name += ",omitempty"
		}
		parts = append(parts, fmt.Sprintf(`%s:"%s"`, loc, name))
		if r.Chance(1, 4) {
			parts = append(parts, fmt.Sprintf(`default:"%s"`, hx.Pick(r, []string{"5", "0", "42", "abc", "true", "false", "x", "007", "1"})))
		}
		if r.Chance(1, 6) {
			st := map[string][]string{"path": {"simple", "label", "matrix"}, "query": {"form", "deepObject", "pipeDelimited", "spaceDelimited"},
				"header": {"simple"}, "cookie": {"form"}}[loc]
			parts = append(parts, fmt.Sprintf(`style:"%s"`, hx.Pick(r, st)))
		}
		if r.Chance(1, 8) {
			parts = append(parts, fmt.Sprintf(`explode:"%s"`, hx.Pick(r, []string{"true", "false"})))
		}
		if r.Chance(1, 6) {
			parts = append(parts, fmt.Sprintf(`json:"%s"`, hx.Pick(r, jsonNames)))
		}
	} else {
		switch r.Intn(10) {
		case 0: // no json tag
		case 1:
			parts = append(parts, `json:"-"`)
		case 2:
			parts = append(parts, `json:",omitempty"`)
		case 3, 4:
			parts = append(parts, fmt.Sprintf(`json:"%s,omitempty"`, hx.Pick(r, jsonNames)))
		default:
			parts = append(parts, fmt.Sprintf(`json:"%s"`, hx.Pick(r, jsonNames)))
		}
	}
	if v := hx.Pick(r, validateTags); v != "" {
		parts = append(parts, fmt.Sprintf(`validate:"%s"`, v))
	}
	if len(parts) == 0 {
		return ""
	}
	return " `" + strings.Join(parts, " ") + "`"
}

func (g *gen) anon(d int) string {
	var b strings.Builder
	b.WriteString("struct {\n")
	g.fields(&b, d, g.r.Range(0, 3), false, false)
	b.WriteString("}")
	return b.String()
}

var fieldNames = []string{"A", "B", "C", "D", "E", "F", "G", "H", "Id", "Name", "Meta", "Next", "Items", "When", "Val", "Key"}

func base(t string) string {
	t = strings.TrimPrefix(t, "*")
	if i := strings.LastIndex(t, "."); i >= 0 {
		t = t[i+1:]
	}
	return t
}

func (g *gen) fields(b *strings.Builder, d, n int, req, allowEmbed bool) {
	used := map[string]bool{}
	r := g.r
	if allowEmbed {
		for k := r.Intn(5) - 2; k > 0; k-- {
			var e string
			switch r.Intn(6) {
			case 0:
				e = "*" + g.anyStruct() // may be a pointer to the struct itself
			case 1:
				e = hx.Pick(r, []string{"ID", "Count", "Tags", "*ID"}) // embedded non-struct
			case 2:
				if x := g.earlier(); x != "" {
					e = "*" + x
				}
			default:
				e = g.earlier()
			}
			if e == "" || used[base(e)] {
				continue
			}
			used[base(e)] = true
			fmt.Fprintf(b, "\t%s%s\n", e, g.embedTag())
		}
	}
	for i := 0; i < n; i++ {
		name := hx.Pick(r, fieldNames)
		if r.Chance(1, 12) {
			name = strings.ToLower(name[:1]) + name[1:] + "x" // unexported
		}
		if used[name] {
			continue
		}
		used[name] = true
		fmt.Fprintf(b, "\t%s %s%s\n", name, g.typ(d), g.tag(req, used))
	}
}

func (g *gen) embedTag() string {
	if g.r.Chance(1, 8) {
		return " `json:\"-\"`"
	}
	return ""
}

func header(p *pkgT) string {
	var b strings.Builder
	fmt.Fprintf(&b, "// Code generated by verif/harness/c07/gencorpus; DO NOT EDIT.\n\npackage %s\n\n", p.name)
	var imps []string
	for i := range p.imports {
		imps = append(imps, i)
	}
	sort.Strings(imps)
	if len(imps) > 0 {
		b.WriteString("import (\n")
		for _, i := range imps {
			fmt.Fprintf(&b, "\t%q\n", i)
		}
		b.WriteString(")\n\n")
	}
	return b.String()
}

const common = `
// named non-struct types (schema generation sees only their kind)
type ID string
type Count int64
type Raw []byte
type Tags []string
type Labels map[string]string

// self-referential container types (no struct on the cycle)
type Tree []Tree
type Dict map[string]Dict
type Ptr *Ptr

// a named slice whose element refers back to it through a struct
type Items []Item

// structs that embed a pointer to themselves, directly and through another struct
type SelfEmb struct {
	*SelfEmb
	X int ` + "`json:\"x\"`" + `
}
type EmbA struct {
	*EmbB
	A string ` + "`json:\"a\" validate:\"required\"`" + `
}
type EmbB struct {
	*EmbA
	B string ` + "`json:\"a\" validate:\"required\"`" + `
}

// embedded non-struct types
type EmbNon struct {
	ID
	*Count
	Tags ` + "`json:\"tags\"`" + `
	Z    bool ` + "`json:\"z\"`" + `
}

// embedding depth 3 with shadowed, required JSON names
type D1 struct {
	Id   int    ` + "`json:\"id\" validate:\"required\"`" + `
	Name string ` + "`json:\"name\" validate:\"required\"`" + `
}
type D2 struct {
	D1
	Id int64 ` + "`json:\"id\" validate:\"required\"`" + `
}
type D3 struct {
	*D2
	Name string ` + "`json:\"name\" validate:\"required\"`" + `
	Id   string ` + "`json:\"id,omitempty\"`" + `
}

// embedded generic instantiations, an unexported embedded struct with exported fields, embedded interfaces
type EmbGen struct {
	Page[int]
	*Box[string]
	Z string ` + "`json:\"z\"`" + `
}
type hidden struct {
	HX int    ` + "`json:\"hx\" validate:\"required\"`" + `
	hy string ` + "`json:\"hy\"`" + `
}
type EmbHidden struct {
	hidden
	Stringish
	Y int ` + "`json:\"y\"`" + `
}
type Stringish interface{ String() string }
type EmbIface struct {
	error
	Stringish
	X int ` + "`json:\"x\" validate:\"required\"`" + `
}

// nested containers
type Deep struct {
	A [][]string            ` + "`json:\"a\"`" + `
	B map[string][]*Deep    ` + "`json:\"b\"`" + `
	C *[]map[string]any     ` + "`json:\"c,omitempty\"`" + `
	D **Deep                ` + "`json:\"d\"`" + `
	E [2][3]uint8           ` + "`json:\"e\"`" + `
	F map[string]map[int]ID ` + "`json:\"f\"`" + `
	G []Raw                 ` + "`json:\"g\"`" + `
	H [4]byte               ` + "`json:\"h\"`" + `
}

// types with a fixed JSON form: plain, and behind pointers / with constraints
type WellKnown struct {
	IP  net.IP          ` + "`json:\"ip\"`" + `
	Raw json.RawMessage ` + "`json:\"raw\"`" + `
	Num json.Number     ` + "`json:\"num\"`" + `
	Big big.Int         ` + "`json:\"big\"`" + `
	Dur time.Duration   ` + "`json:\"dur\"`" + `
	U   [16]byte        ` + "`json:\"u\"`" + `
	A   netip.Addr      ` + "`json:\"a\"`" + `
}
type WellKnownPtr struct {
	IP  *net.IP          ` + "`json:\"ip,omitempty\" validate:\"required,min=4\" query:\"ip\"`" + `
	Raw *json.RawMessage ` + "`json:\"raw\" validate:\"len=5\"`" + `
	Num *json.Number     ` + "`json:\"num\" validate:\"oneof=1 2\" header:\"X-Num\" default:\"1\"`" + `
	Big *big.Int         ` + "`json:\"big\" validate:\"gt=0\"`" + `
	Dur *time.Duration   ` + "`json:\"dur\" validate:\"max=9\" cookie:\"dur\"`" + `
	A   *netip.Addr      ` + "`json:\"a\" validate:\"uuid\"`" + `
}

// a wrapper whose only field is an embedded struct that refers back to the wrapper
type Cat struct {
	Children []CatNode ` + "`json:\"children\"`" + `
	Name     string    ` + "`json:\"name\" validate:\"required\"`" + `
}
type CatNode struct {
	Cat
}

// validator rules the generator does not interpret
type Rules struct {
	A string ` + "`json:\"a\" validate:\"excludes=admin\"`" + `
	B string ` + "`json:\"b\" validate:\"startswith=ab,endswith=z\"`" + `
	C string ` + "`json:\"c\" validate:\"required,contains=x\"`" + `
	D string ` + "`json:\"d\" validate:\"alpha,numeric,ip,datetime=2006-01-02,ne=5\"`" + `
	E *int   ` + "`json:\"e,omitempty\" validate:\"omitempty,gte=1,lte=9\"`" + `
}

// object-typed parameters in every location, style / explode tags
type ObjParams struct {
	F  map[string]string ` + "`query:\"f\" style:\"deepObject\" explode:\"true\"`" + `
	G  Cat               ` + "`query:\"g\"`" + `
	H  map[string]int    ` + "`header:\"X-H\"`" + `
	C  D1                ` + "`cookie:\"c\"`" + `
	ID map[string]string ` + "`path:\"id\" style:\"matrix\"`" + `
	L  []string          ` + "`query:\"l\" style:\"pipeDelimited\" explode:\"false\"`" + `
	M  []int             ` + "`header:\"X-M\" style:\"simple\" explode:\"yes\"`" + `
}

// generic types
type Page[T any] struct {
	Items []T      ` + "`json:\"items\" validate:\"required\"`" + `
	Next  *Page[T] ` + "`json:\"next,omitempty\"`" + `
	Total int      ` + "`json:\"total\"`" + `
}
type Pair[K comparable, V any] struct {
	Key K ` + "`json:\"key\"`" + `
	Val V ` + "`json:\"val\"`" + `
}
type Box[T any] struct {
	V T
	P *T           ` + "`json:\"p,omitempty\"`" + `
	M map[string]T ` + "`json:\"m\"`" + `
}
`

var hand = []string{"SelfEmb", "EmbA", "EmbB", "EmbNon", "D1", "D2", "D3", "EmbGen", "EmbHidden", "EmbIface", "Deep",
	"WellKnown", "WellKnownPtr", "Cat", "CatNode", "Rules", "ObjParams"}

func genPkg(r *hx.Rand, p, other *pkgT, nStructs, nReqs int, fixed []string) {
	for _, i := range []string{"net", "encoding/json", "math/big", "net/netip", "time"} {
		p.imports[i] = true // used by the hand-written types of `common`
	}
	p.structs = append(p.structs, hand...) // declared in `common`
	p.all = append(p.all, fixed...)
	for i := 0; i < nStructs; i++ {
		p.all = append(p.all, fmt.Sprintf("T%d", i))
	}
	names := append([]string{}, p.all...)
	for _, n := range names {
		g := &gen{r: r, p: p, other: other, self: n}
		var b strings.Builder
		fmt.Fprintf(&b, "type %s struct {\n", n)
		if n == "Item" {
			b.WriteString("\tChildren Items `json:\"children,omitempty\"`\n")
		}
		g.fields(&b, r.Range(1, 3), r.Range(1, 6), false, true)
		b.WriteString("}\n")
		p.decls = append(p.decls, b.String())
		p.structs = append(p.structs, n)
	}
	for i := 0; i < nReqs; i++ {
		n := fmt.Sprintf("Req%d", i)
		g := &gen{r: r, p: p, other: other, self: n}
		var b strings.Builder
		fmt.Fprintf(&b, "type %s struct {\n", n)
		g.fields(&b, r.Range(0, 2), r.Range(1, 7), true, true)
		b.WriteString("}\n")
		p.decls = append(p.decls, b.String())
		p.structs = append(p.structs, n)
		p.reqs = append(p.reqs, n)
	}
	// instantiated generics and containers for the registry
	g := &gen{r: r, p: p, other: other, self: "Item"}
	for i := 0; i < 14; i++ {
		p.extra = append(p.extra, g.generic(2, true))
	}
	p.extra = append(p.extra, "Tree", "Dict", "Ptr", "Items", "Raw", "Tags", "Labels", "ID")
}

func write(p *pkgT, body string) {
	src := header(p) + body
	out, err := format.Source([]byte(src))
	if err != nil {
		fmt.Fprintln(os.Stderr, src)
		panic(err)
	}
	dir := filepath.Join(root, p.path)
	if err := os.MkdirAll(dir, 0o755); err != nil {
		panic(err)
	}
	if err := os.WriteFile(filepath.Join(dir, "types_gen.go"), out, 0o644); err != nil {
		panic(err)
	}
}

func main() {
	r := hx.NewRand(20260926)
	pb := &pkgT{name: "pb", path: "pb", imports: map[string]bool{}}
	pa := &pkgT{name: "pa", path: "pa", imports: map[string]bool{}}
	genPkg(r, pb, nil, 22, 8, []string{"Item", "User", "Node"})
	genPkg(r, pa, pb, 36, 14, []string{"Item", "User", "Node"})
	write(pb, common+strings.Join(pb.decls, "\n"))
	write(pa, common+strings.Join(pa.decls, "\n"))

	// two packages with the same last path component and the same type names, different shapes
	da := &pkgT{name: "dup", path: "da/dup", imports: map[string]bool{}}
	db := &pkgT{name: "dup", path: "db/dup", imports: map[string]bool{}}
	write(da, `
type Item struct {
	A string `+"`json:\"a\" validate:\"required\"`"+`
	Sub *Sub `+"`json:\"sub,omitempty\"`"+`
}
type Sub struct {
	X int `+"`json:\"x\"`"+`
}
type Wrap struct {
	Items []Item `+"`json:\"items\"`"+`
}
type Req struct {
	ID string `+"`path:\"id\"`"+`
	A  string `+"`json:\"a\"`"+`
}
`)
	write(db, `
type Item struct {
	B int64 `+"`json:\"b\"`"+`
	C []Sub `+"`json:\"c\"`"+`
}
type Sub struct {
	Y string `+"`json:\"y\" validate:\"required\"`"+`
	Z *Item  `+"`json:\"z\"`"+`
}
type Wrap struct {
	One Item `+"`json:\"one\"`"+`
}
type Req struct {
	ID int   `+"`path:\"id\"`"+`
	B  int64 `+"`json:\"b\"`"+`
}
`)

	// registry
	var b bytes.Buffer
	b.WriteString("// Code generated by verif/harness/c07/gencorpus; DO NOT EDIT.\n\npackage corpus\n\nimport (\n")
	fmt.Fprintf(&b, "\t%q\n\t%q\n\tda %q\n\tdb %q\n)\n\n", imp+"/pa", imp+"/pb", imp+"/da/dup", imp+"/db/dup")
	b.WriteString("// Types are zero values of every corpus type a case may name as a response type.\nvar Types = []any{\n")
	emit := func(pkg string, names []string) {
		for _, n := range names {
			fmt.Fprintf(&b, "\t%s{},\n", qualify(pkg, n))
		}
	}
	emitExpr := func(pkg string, exprs []string) {
		for _, e := range exprs {
			q := qualify(pkg, e)
			fmt.Fprintf(&b, "\t*new(%s),\n", q)
		}
	}
	emit("pa", pa.structs)
	emit("pb", pb.structs)
	emitExpr("pa", pa.extra)
	emitExpr("pb", pb.extra)
	for _, n := range []string{"Item", "Sub", "Wrap", "Req"} {
		fmt.Fprintf(&b, "\tda.%s{},\n\tdb.%s{},\n", n, n)
	}
	b.WriteString("}\n\n// Requests are zero values of the request structs (query/path/header/cookie tags).\nvar Requests = []any{\n")
	emit("pa", pa.reqs)
	emit("pb", pb.reqs)
	b.WriteString("\tda.Req{},\n\tdb.Req{},\n}\n")
	out, err := format.Source(b.Bytes())
	if err != nil {
		fmt.Fprintln(os.Stderr, b.String())
		panic(err)
	}
	if err := os.WriteFile(filepath.Join(root, "registry_gen.go"), out, 0o644); err != nil {
		panic(err)
	}
}

var builtin = map[string]bool{"string": true, "bool": true, "int": true, "int8": true, "int16": true, "int32": true, "int64": true,
	"uint": true, "uint8": true, "uint16": true, "uint32": true, "uint64": true, "float32": true, "float64": true, "any": true,
	"error": true, "byte": true, "struct": true, "map": true, "func": true, "chan": true, "complex128": true, "comparable": true}

// qualify prefixes every unqualified, non-builtin identifier of a type expression with pkg.
func qualify(pkg, expr string) string {
	var b strings.Builder
	i := 0
	for i < len(expr) {
		c := expr[i]
		if c == '_' || (c >= 'a' && c <= 'z') || (c >= 'A' && c <= 'Z') {
			j := i
			for j < len(expr) && (expr[j] == '_' || (expr[j] >= 'a' && expr[j] <= 'z') || (expr[j] >= 'A' && expr[j] <= 'Z') || (expr[j] >= '0' && expr[j] <= '9')) {
				j++
			}
			id := expr[i:j]
			switch {
			case j < len(expr) && expr[j] == '.': // already qualified: copy "pkg.Name"
				k := j + 1
				for k < len(expr) && (expr[k] == '_' || (expr[k] >= 'a' && expr[k] <= 'z') || (expr[k] >= 'A' && expr[k] <= 'Z') || (expr[k] >= '0' && expr[k] <= '9')) {
					k++
				}
				b.WriteString(expr[i:k])
				j = k
			case builtin[id]:
				b.WriteString(id)
			default:
				b.WriteString(pkg + "." + id)
			}
			i = j
			continue
		}
		b.WriteByte(c)
		i++
	}
	return b.String()
}
