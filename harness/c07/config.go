package main

// API-level configuration of a case: the objects the projection writes from the API options (info
// members, external docs, servers, tag definitions, security schemes, default security). They are
// compared by the harness with what the options say (`configIntact`, part of MI) and skipped by the
// Lean reader; only the configured server urls travel into the structured document.

import (
	"bytes"
	"encoding/json"
	"fmt"
	"os"
	"sort"
	"strconv"

	"rivaas.dev/openapi"
	"verif/harness/hx"
)

type cfgT struct {
	Desc    string      `json:"d,omitempty"`
	Summary string      `json:"sm,omitempty"` // WithInfoSummary (a 3.1 member: dropped for 3.0, an error under StrictDownlevel)
	TOS     string      `json:"tos,omitempty"`
	Contact *[3]string  `json:"c,omitempty"`  // name, url, email
	License *[3]string  `json:"l,omitempty"`  // name, url, identifier (url and identifier exclusive)
	ExtDocs *[2]string  `json:"x,omitempty"`  // url, description
	Servers [][2]string `json:"s,omitempty"`  // url, description
	TagDefs [][2]string `json:"t,omitempty"`  // name, description
	Schemes []schemeT   `json:"sc,omitempty"` // security schemes
	DefSec  []secT      `json:"ds,omitempty"` // WithDefaultSecurity
}

type flowT struct {
	Type   string            `json:"t"` // implicit | password | clientCredentials | authorizationCode
	Auth   string            `json:"a,omitempty"`
	Token  string            `json:"k,omitempty"`
	Refr   string            `json:"r,omitempty"`
	Scopes map[string]string `json:"s,omitempty"` // nil: no named scopes
	Empty  bool              `json:"e,omitempty"` // an empty, non-nil scope map
}

type schemeT struct {
	Kind  string  `json:"k"` // bearer | apiKey | oauth2 | oidc
	Name  string  `json:"n"`
	Desc  string  `json:"d,omitempty"`
	Param string  `json:"p,omitempty"` // apiKey: parameter name
	In    string  `json:"i,omitempty"` // apiKey: header | query | cookie
	URL   string  `json:"u,omitempty"` // oidc
	Flows []flowT `json:"f,omitempty"`
}

func (g *cfgT) options() []openapi.Option {
	var o []openapi.Option
	if g.Desc != "" {
		o = append(o, openapi.WithInfoDescription(g.Desc))
	}
	if g.TOS != "" {
		o = append(o, openapi.WithTermsOfService(g.TOS))
	}
	if g.Summary != "" {
		o = append(o, openapi.WithInfoSummary(g.Summary))
	}
	if g.Contact != nil {
		o = append(o, openapi.WithContact(g.Contact[0], g.Contact[1], g.Contact[2]))
	}
	if g.License != nil {
		if g.License[2] != "" {
			o = append(o, openapi.WithLicenseIdentifier(g.License[0], g.License[2]))
		} else {
			o = append(o, openapi.WithLicense(g.License[0], g.License[1]))
		}
	}
	if g.ExtDocs != nil {
		o = append(o, openapi.WithExternalDocs(g.ExtDocs[0], g.ExtDocs[1]))
	}
	for _, x := range g.Servers {
		o = append(o, openapi.WithServer(x[0], x[1]))
	}
	for _, x := range g.TagDefs {
		o = append(o, openapi.WithTag(x[0], x[1]))
	}
	for _, x := range g.Schemes {
		switch x.Kind {
		case "bearer":
			o = append(o, openapi.WithBearerAuth(x.Name, x.Desc))
		case "apiKey":
			o = append(o, openapi.WithAPIKey(x.Name, x.Param, openapi.ParameterLocation(x.In), x.Desc))
		case "oidc":
			o = append(o, openapi.WithOpenIDConnect(x.Name, x.URL, x.Desc))
		case "oauth2":
			var fl []openapi.OAuth2Flow
			for _, f := range x.Flows {
				sc := f.Scopes
				if sc == nil && f.Empty {
					sc = map[string]string{}
				}
				fl = append(fl, openapi.OAuth2Flow{Type: openapi.OAuthFlowType(f.Type), AuthorizationURL: f.Auth, TokenURL: f.Token, RefreshURL: f.Refr, Scopes: sc})
			}
			o = append(o, openapi.WithOAuth2(x.Name, x.Desc, fl...))
		}
	}
	for _, x := range g.DefSec {
		o = append(o, openapi.WithDefaultSecurity(x.Scheme, x.Scopes...))
	}
	return o
}

func nonEmpty(kv ...string) map[string]any {
	m := map[string]any{}
	for i := 0; i+1 < len(kv); i += 2 {
		if kv[i+1] != "" {
			m[kv[i]] = kv[i+1]
		}
	}
	return m
}

// configIntact: the configuration objects of the document are what the options say.
func configIntact(c *caseT, js []byte) bool {
	g := c.Cfg
	if g == nil {
		return true
	}
	var root map[string]any
	if json.Unmarshal(js, &root) != nil {
		return false
	}
	eq := func(got, want any) bool {
		b1, _ := json.Marshal(got)
		b2, _ := json.Marshal(want)
		if !bytes.Equal(b1, b2) && os.Getenv("C07_DEBUG") != "" {
			fmt.Fprintf(os.Stderr, "config differs:\n got  %s\n want %s\n", b1, b2)
		}
		return bytes.Equal(b1, b2)
	}
	info, _ := root["info"].(map[string]any)
	if g.Desc != "" && info["description"] != g.Desc || g.TOS != "" && info["termsOfService"] != g.TOS {
		return false
	}
	if g.Contact != nil && !eq(info["contact"], nonEmpty("name", g.Contact[0], "url", g.Contact[1], "email", g.Contact[2])) {
		return false
	}
	if g.License != nil {
		want := nonEmpty("url", g.License[1])
		want["name"] = g.License[0]
		if c.V31 && g.License[2] != "" {
			want["identifier"] = g.License[2]
		}
		if !eq(info["license"], want) {
			return false
		}
	}
	if g.ExtDocs != nil {
		want := nonEmpty("description", g.ExtDocs[1])
		want["url"] = g.ExtDocs[0]
		if !eq(root["externalDocs"], want) {
			return false
		}
	}
	if len(g.Servers) > 0 {
		var want []any
		for _, x := range g.Servers {
			m := nonEmpty("description", x[1])
			m["url"] = x[0]
			want = append(want, m)
		}
		if !eq(root["servers"], want) {
			return false
		}
	}
	if len(g.TagDefs) > 0 {
		defs := append([][2]string(nil), g.TagDefs...)
		sort.SliceStable(defs, func(i, j int) bool { return defs[i][0] < defs[j][0] })
		var want []any
		for _, x := range defs {
			m := nonEmpty("description", x[1])
			m["name"] = x[0]
			want = append(want, m)
		}
		if !eq(root["tags"], want) {
			return false
		}
	}
	if len(g.DefSec) > 0 {
		var want []any
		for _, x := range g.DefSec {
			sc := x.Scopes
			if sc == nil {
				sc = []string{}
			}
			want = append(want, map[string]any{x.Scheme: sc})
		}
		if !eq(root["security"], want) {
			return false
		}
	}
	if len(g.Schemes) > 0 {
		want := map[string]any{}
		for _, x := range g.Schemes {
			var m map[string]any
			switch x.Kind {
			case "bearer":
				m = nonEmpty("description", x.Desc)
				m["type"], m["scheme"], m["bearerFormat"] = "http", "bearer", "JWT"
			case "apiKey":
				m = nonEmpty("description", x.Desc, "name", x.Param, "in", x.In)
				m["type"] = "apiKey"
			case "oidc":
				m = nonEmpty("description", x.Desc, "openIdConnectUrl", x.URL)
				m["type"] = "openIdConnect"
			case "oauth2":
				m = nonEmpty("description", x.Desc)
				m["type"] = "oauth2"
				flows := map[string]any{}
				for _, f := range x.Flows {
					fm := nonEmpty("authorizationUrl", f.Auth, "tokenUrl", f.Token, "refreshUrl", f.Refr)
					sc := map[string]any{}
					for k, v := range f.Scopes {
						sc[k] = v
					}
					fm["scopes"] = sc // required by the specification: an empty object when there are no scopes
					flows[f.Type] = fm
				}
				m["flows"] = flows
			}
			want[x.Name] = m // a later option with the same name replaces the earlier
		}
		comps, _ := root["components"].(map[string]any)
		if !eq(comps["securitySchemes"], want) {
			return false
		}
	}
	return true
}

var cleanURLs = []string{"https://example.com/docs", "https://auth.example.com/token", "/relative", "http://localhost:8080"}

// server urls: some with a path of their own (`/api`, `/v1`) — route paths stay as they are whatever the servers say
var serverURLs = []string{"https://example.com/docs", "http://localhost:8080", "/relative", "https://api.example.com/api", "https://eu.example.com/api", "/api", "https://example.com/v1", "/v1"}
var oddURLs = []string{"https://{tenant}.example.com/docs", `C:\docs\api`, "not a url", "https://example.com/a b"}
var cleanMails = []string{"support@example.com", ""}
var oddMails = []string{"Ada Lovelace <ada@example.com>", "support at example.com"}

// genCfg: API-level configuration. The unusual strings (display-name e-mail, templated host, …) are
// annotations in the 3.1 meta-schema (format is not asserted there); 3.0 gets RFC-clean strings only.
func genCfg(r *hx.Rand, v31 bool) *cfgT {
	u := func() string {
		if v31 && r.Chance(1, 3) {
			return hx.Pick(r, oddURLs)
		}
		return hx.Pick(r, cleanURLs)
	}
	mail := func() string {
		if v31 && r.Chance(1, 3) {
			return hx.Pick(r, oddMails)
		}
		return hx.Pick(r, cleanMails)
	}
	g := &cfgT{}
	if r.Chance(1, 3) {
		g.Desc = "An API"
	}
	if r.Chance(1, 3) {
		g.Summary = hx.Pick(r, []string{"Users and orders", "s", "A summary, with a comma"})
	}
	if r.Chance(1, 4) {
		g.TOS = u()
	}
	if r.Chance(1, 2) {
		g.Contact = &[3]string{hx.Pick(r, []string{"Support", ""}), u(), mail()}
	}
	if r.Chance(1, 3) {
		g.License = &[3]string{"MIT", "", ""}
		if r.Chance(1, 2) {
			g.License[1] = u()
		} else if r.Chance(1, 2) {
			g.License[2] = "MIT"
		}
	}
	if r.Chance(1, 3) {
		g.ExtDocs = &[2]string{u(), hx.Pick(r, []string{"", "more"})}
	}
	for i, n := 0, r.Intn(3); i < n; i++ {
		g.Servers = append(g.Servers, [2]string{hx.Pick(r, serverURLs), hx.Pick(r, []string{"", "prod"})})
	}
	for i, n := 0, r.Intn(3); i < n; i++ {
		g.TagDefs = append(g.TagDefs, [2]string{hx.Pick(r, []string{"users", "admin", "orders"}) + strconv.Itoa(i), hx.Pick(r, []string{"", "d"})})
	}
	for i, n := 0, r.Intn(4); i < n; i++ {
		x := schemeT{Name: hx.Pick(r, []string{"bearerAuth", "oauth2", "apiKey", "oidc"}), Desc: hx.Pick(r, []string{"", "d"})}
		switch r.Intn(4) {
		case 0:
			x.Kind = "bearer"
		case 1:
			x.Kind, x.Param, x.In = "apiKey", "X-API-Key", hx.Pick(r, []string{"header", "query", "cookie"})
		case 2:
			x.Kind, x.URL = "oidc", u()
		default:
			x.Kind = "oauth2"
			for _, t := range []string{"implicit", "password", "clientCredentials", "authorizationCode"} {
				if !r.Chance(1, 2) {
					continue
				}
				f := flowT{Type: t}
				if t == "implicit" || t == "authorizationCode" {
					f.Auth = u()
				}
				if t != "implicit" {
					f.Token = u()
				}
				if r.Chance(1, 4) {
					f.Refr = u()
				}
				switch r.Intn(3) {
				case 0: // nil scopes: a flow without named scopes
				case 1:
					f.Empty = true
				default:
					f.Scopes = map[string]string{"read": "read things", "write:users": ""}
				}
				x.Flows = append(x.Flows, f)
			}
			if len(x.Flows) == 0 {
				x.Flows = []flowT{{Type: "clientCredentials", Token: hx.Pick(r, cleanURLs)}}
			}
		}
		g.Schemes = append(g.Schemes, x)
	}
	if r.Chance(1, 3) {
		g.DefSec = []secT{{Scheme: "bearerAuth"}}
		if r.Chance(1, 2) {
			g.DefSec = append(g.DefSec, secT{Scheme: "oauth2", Scopes: []string{"read"}})
		}
	}
	return g
}

var mediaTypes = []string{"application/json", "application/xml", "multipart/form-data", "application/x-www-form-urlencoded", "text/plain; charset=utf-8",
	"application/json, application/xml", "multipart/form-data; boundary", "", "json", "*/*"}

// fixedCfg is the configuration of the fixed witness.
func fixedCfg() *cfgT {
	return &cfgT{Desc: "An API", TOS: "https://example.com/tos", Contact: &[3]string{"Support", "https://example.com", "support@example.com"},
		License: &[3]string{"MIT", "https://opensource.org/licenses/MIT", ""}, ExtDocs: &[2]string{"https://example.com/docs", "more"},
		Servers: [][2]string{{"https://api.example.com", "prod"}, {"http://localhost:8080", ""}},
		TagDefs: [][2]string{{"users", "d"}, {"admin", ""}},
		Schemes: []schemeT{{Kind: "bearer", Name: "bearerAuth", Desc: "JWT"}, {Kind: "apiKey", Name: "apiKey", Param: "X-API-Key", In: "header"},
			{Kind: "oidc", Name: "oidc", URL: "https://example.com/.well-known/openid-configuration"},
			{Kind: "oauth2", Name: "oauth2", Flows: []flowT{{Type: "clientCredentials", Token: "https://auth.example.com/token"},
				{Type: "authorizationCode", Auth: "https://auth.example.com/authorize", Token: "https://auth.example.com/token", Empty: true},
				{Type: "implicit", Auth: "https://auth.example.com/authorize", Scopes: map[string]string{"read": "r"}}}}},
		DefSec: []secT{{Scheme: "bearerAuth"}, {Scheme: "oauth2", Scopes: []string{"read"}}}}
}
