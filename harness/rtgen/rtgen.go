// Package rtgen is shared by the C01 and C11 harnesses: registration scripts, requests, building a
// real router from a script through the public API only, observing one request, and the case-line
// encoding read by lean/Rivaas/Driver/RouteCase.lean.
package rtgen

import (
	"context"
	"fmt"
	"net/http"
	"net/http/httptest"
	"net/url"
	"os"
	"regexp"
	"runtime"
	"sort"
	"strings"
	"sync"
	"time"

	"rivaas.dev/router"
	"rivaas.dev/router/route"
	"rivaas.dev/router/version"
	"verif/harness/hx"
)

// ConsT is one constraint call on a route: Kind is one of int, float, uuid, date, datetime, enum
// (Arg = values joined by '|'), regex (typed, Arg = pattern), where (legacy Where, Arg = pattern),
// rejected (a Where call with a pattern that does not compile: the call panics, the caller recovers
// and goes on; the route is as if the call had not been made).
type ConsT struct {
	Name string
	Kind string
	Arg  string
}

// RegT is one registration: METHOD(path) on the router itself or through nested groups.
type RegT struct {
	Method string
	Groups []string
	Path   string
	Cons   []ConsT
	// Mounted route (MountSub > 0): SubPath is registered on sub-router number MountSub (as its route number
	// SubIdx), and the sub-router is mounted with r.Mount(MountPrefix, sub) when the script reaches the first route
	// of the block (the regs of one Mount call are contiguous, in the sub-router's registration order; the same
	// sub-router may be mounted again under another prefix later in the script). The model is handed SubPath and
	// MountPrefix and joins them itself; Path (MountJoin) only serves the request generator and the probe's
	// bookkeeping, and Groups is empty.
	// Static: this registration and the next one (same Path, methods GET then HEAD) come from ONE call
	// r.StaticFS(Static, fs). Static is the prefix as the caller spells it ("/assets", "/assets/", "assets",
	// "/assets/*"), Path the pattern it stands for (StaticPattern). A file handler cannot report a route: the
	// harness serves from a file system that records that it was opened, and reports the registration, the pattern
	// and the captured remainder from there (finishStatic). Only in scripts served by one request at a time.
	Static      string `json:",omitempty"`
	MountSub    int    `json:",omitempty"`
	MountPrefix string `json:",omitempty"`
	SubPath     string `json:",omitempty"`
	SubIdx      int    `json:",omitempty"`
}

// StaticPattern is the documented rule of Router.Static / StaticFS: the prefix gets a leading slash and stands for
// everything below it (prefix + "/*"; a prefix already written with a trailing slash or with "/*" is taken as such).
func StaticPattern(prefix string) string {
	p := prefix
	if !strings.HasPrefix(p, "/") {
		p = "/" + p
	}
	switch {
	case strings.HasSuffix(p, "/*"):
		return p
	case strings.HasSuffix(p, "/"):
		return p + "*"
	}
	return p + "/*"
}

// HasStatic: the script contains routes registered through StaticFS.
func HasStatic(script []RegT) bool {
	for _, g := range script {
		if g.Static != "" {
			return true
		}
	}
	return false
}

// staticFS serves one small regular file under every name and records (in the session's shared record) that it
// was opened and for which StaticFS call.
type staticFS struct {
	getID, headID int
	pattern       string
	shared        *ObsT
}

func (f *staticFS) Open(string) (http.File, error) {
	f.shared.static = f
	return staticFile{strings.NewReader("x")}, nil
}

type staticFile struct{ *strings.Reader }

func (staticFile) Close() error                       { return nil }
func (staticFile) Readdir(int) ([]os.FileInfo, error) { return nil, nil }
func (f staticFile) Stat() (os.FileInfo, error)       { return staticInfo{f.Reader.Size()}, nil }

type staticInfo struct{ n int64 }

func (staticInfo) Name() string       { return "f.txt" }
func (i staticInfo) Size() int64      { return i.n }
func (staticInfo) Mode() os.FileMode  { return 0o444 }
func (staticInfo) ModTime() time.Time { return time.Time{} }
func (staticInfo) IsDir() bool        { return false }
func (staticInfo) Sys() any           { return nil }

// MountJoin is the documented rule of Router.Mount (used to aim requests; the model computes its own): the prefix
// loses one trailing slash and gets a leading one; the sub-router's root route "/" is the prefix itself, every
// other route is the prefix followed by its path.
func MountJoin(prefix, sub string) string {
	p := strings.TrimSuffix(prefix, "/")
	if !strings.HasPrefix(p, "/") {
		p = "/" + p
	}
	if sub == "/" {
		return p
	}
	return p + sub
}

type ReqT struct {
	Method string
	Path   string
	// Cancelled: the request context is already cancelled when ServeHTTP is entered. Only generated for
	// requests that no route handler answers (the 405 / 404 / NoRoute clause does not look at the context).
	Cancelled bool `json:",omitempty"`
	// PanicIn: the handler that answers this request (route or NoRoute handler) panics after it has
	// recorded what it saw and set the status; the caller of ServeHTTP recovers, as net/http does. What
	// the handler saw stands; the requests served afterwards on the same router must not notice.
	PanicIn bool `json:",omitempty"`
	// CancelMid: a router-global middleware cancels the request context after the route has been matched and
	// before it calls Next(): the route's own handler must not run any more (default WithCancellationCheck).
	// The middleware reports what the handler would have seen; a handler that runs all the same answers 299.
	CancelMid bool `json:",omitempty"`
	// Raw: a spelling of Path as a request target with some bytes percent-escaped that need not be; it is
	// put into URL.RawPath (URL.Path stays the decoded Path, as net/http sets both). Routing is on Path:
	// not part of the case tokens.
	Raw string `json:",omitempty"`
}

// OverlapT: Req is served while another request is in flight on the same router (two goroutines,
// GOMAXPROCS(1) so that the context pool hands a released context to the next request).
//   - "handler":   A is held at the entry of its handler, B is served completely, A goes on and reads.
//   - "end-slow":  A is held in OnRequestEnd of an observability recorder (after its chain has run), B is
//     dispatched and held at the entry of its handler, A's hook returns, then B goes on and reads.
//   - "end-panic": as end-slow, but A's hook panics (recovered by the goroutine, as net/http does).
//
// Role says which of the two Req is ("A" or "B"); Other is the other request.
type OverlapT struct {
	Kind  string
	Role  string
	Other ReqT
}

// EngineT selects the engine configuration (C11); the zero value is the plain tree router.
type EngineT struct {
	Compiled  bool
	BloomSize uint64 // 0 = leave the default
	BloomK    int    // 0 = leave the default
	Version   string // non-empty: every route is registered in this version tree (header detection)
}

type CaseT struct {
	NoRoute bool
	Script  []RegT
	Req     ReqT
	Eng     EngineT
	// Warm: r.Warmup() is called after the first WarmupAt registrations (still before the first
	// request); the routes after it are registered immediately and every Where* re-registers them.
	Warm     bool
	WarmupAt int
	// Prev: requests served on the same router instance before Req (the router is stateless per the
	// property: every request of a session is judged on its own by the same oracle).
	Prev []ReqT
	// Burst: Req is served many times while the requests of Burst are served concurrently on the same
	// router by several goroutines (every observation of a burst is judged on its own).
	Burst   []ReqT    `json:",omitempty"`
	Overlap *OverlapT `json:",omitempty"`
}

var Methods = []string{"GET", "POST", "PUT", "PATCH", "DELETE", "HEAD", "OPTIONS"}

// FullPath is the plain concatenation the statement talks about (group prefixes then path).
func (g RegT) FullPath() string { return strings.Join(g.Groups, "") + g.Path }

// effectiveSpec lists the constraints in force on a route in the order RegisterRoute hands them to the
// engines (typed ones: one per name, the last call wins, sorted by name; then the Where ones in call
// order) — without going through the repository's conversion of typed constraints to regular expressions.
func effectiveSpec(cs []ConsT) []ConsT {
	typed := map[string]ConsT{}
	var where []ConsT
	for _, c := range cs {
		if c.Kind == "rejected" {
			continue
		}
		if c.Kind == "where" {
			where = append(where, c)
		} else {
			typed[c.Name] = c
		}
	}
	names := make([]string, 0, len(typed))
	for n := range typed {
		names = append(names, n)
	}
	sort.Strings(names)
	out := make([]ConsT, 0, len(cs))
	for _, n := range names {
		if typed[n].Kind == "badregex" {
			continue // WhereRegex with a pattern that does not compile: the typed constraint of that name is void
		}
		out = append(out, typed[n])
	}
	return append(out, where...)
}

var (
	reFloat    = regexp.MustCompile(`^-?(?:\d+\.?\d*|\.\d+)(?:[eE][+-]?\d+)?$`)
	reDateTime = regexp.MustCompile(`^\d{4}-\d{2}-\d{2}T\d{2}:\d{2}:\d{2}(?:\.\d+)?(?:Z|[+-]\d{2}:\d{2})$`)
)

func isDigits(s string) bool {
	if s == "" {
		return false
	}
	for i := 0; i < len(s); i++ {
		if s[i] < '0' || s[i] > '9' {
			return false
		}
	}
	return true
}

func isHex(s string) bool {
	for i := 0; i < len(s); i++ {
		c := s[i]
		if !(c >= '0' && c <= '9' || c >= 'a' && c <= 'f' || c >= 'A' && c <= 'F') {
			return false
		}
	}
	return true
}

// Meaning is the documented meaning of a constraint as a predicate on the parameter value, written
// here from the documentation of the Where* methods — NOT taken from route.ToRegexConstraint: int = one or
// more decimal digits, uuid = RFC 4122 text form with version 1–5 and variant 8/9/a/b, date = dddd-dd-dd,
// enum = exact membership, float/datetime = the documented grammars. Only the user's own patterns
// (WhereRegex, Where) go through Go's regexp, anchored at both ends as documented.
func Meaning(c ConsT) func(string) bool {
	switch c.Kind {
	case "int":
		return isDigits
	case "float":
		return reFloat.MatchString
	case "uuid":
		return func(s string) bool {
			if len(s) != 36 || s[8] != '-' || s[13] != '-' || s[18] != '-' || s[23] != '-' {
				return false
			}
			if !isHex(s[0:8]) || !isHex(s[9:13]) || !isHex(s[14:18]) || !isHex(s[19:23]) || !isHex(s[24:36]) {
				return false
			}
			return s[14] >= '1' && s[14] <= '5' && strings.ContainsRune("89abAB", rune(s[19]))
		}
	case "date":
		return func(s string) bool {
			return len(s) == 10 && s[4] == '-' && s[7] == '-' && isDigits(s[0:4]) && isDigits(s[5:7]) && isDigits(s[8:10])
		}
	case "datetime":
		return reDateTime.MatchString
	case "enum":
		members := strings.Split(c.Arg, "|")
		return func(s string) bool {
			for _, m := range members {
				if s == m {
					return true
				}
			}
			return false
		}
	default: // "regex" (typed) and "where": the user's own pattern, anchored
		re := regexp.MustCompile("^" + c.Arg + "$")
		return re.MatchString
	}
}

func applyCons(rt *route.Route, cs []ConsT) {
	for _, c := range cs {
		switch c.Kind {
		case "int":
			rt.WhereInt(c.Name)
		case "float":
			rt.WhereFloat(c.Name)
		case "uuid":
			rt.WhereUUID(c.Name)
		case "date":
			rt.WhereDate(c.Name)
		case "datetime":
			rt.WhereDateTime(c.Name)
		case "enum":
			rt.WhereEnum(c.Name, strings.Split(c.Arg, "|")...)
		case "regex", "badregex":
			rt.WhereRegex(c.Name, c.Arg)
		case "where":
			rt.Where(c.Name, c.Arg)
		case "rejected":
			func() {
				defer func() { _ = recover() }()
				rt.Where(c.Name, c.Arg)
			}()
		}
	}
}

// ObsT is what one request was observed to do.
type ObsT struct {
	Panic   bool
	Status  int
	Allow   []string
	Ran     int // route id, -1 = no route handler ran
	NoRoute bool
	Pattern string
	Params  map[string]string
	Lookups map[string]string
	Exists  bool // RouteExists(method, path) asked after the request
	static  *staticFS
}

// AskNames: every parameter name some route declares, "filepath", and a name nobody declares.
func AskNames(script []RegT) []string {
	set := map[string]bool{"filepath": true, "nobody": true}
	for _, g := range script {
		for _, seg := range strings.Split(g.FullPath(), "/") {
			if strings.HasPrefix(seg, ":") {
				set[seg[1:]] = true
			}
		}
		for _, c := range g.Cons {
			set[c.Name] = true
		}
	}
	out := make([]string, 0, len(set))
	for n := range set {
		out = append(out, n)
	}
	sort.Strings(out)
	return out
}

// Build makes a real router from the script. The returned probe pointer receives what the handler
// that ran saw.
func Build(c CaseT, ask []string, obs *ObsT) *router.Router {
	var opts []router.Option
	if c.Eng.Compiled {
		opts = append(opts, router.WithRouteCompilation(true))
	}
	if c.Eng.BloomSize != 0 {
		opts = append(opts, router.WithBloomFilterSize(c.Eng.BloomSize))
	}
	if c.Eng.BloomK != 0 {
		opts = append(opts, router.WithBloomFilterHashFunctions(c.Eng.BloomK))
	}
	if c.Eng.Version != "" {
		opts = append(opts, router.WithVersioning(version.WithHeaderDetection("X-API-Version"), version.WithDefault(c.Eng.Version)))
	}
	r := router.MustNew(opts...)
	if c.Overlap != nil && strings.HasPrefix(c.Overlap.Kind, "end") {
		r.SetObservabilityRecorder(recorder{})
	}
	shared := obs
	probe := func(id int, noRoute bool) router.HandlerFunc {
		return func(ctx *router.Context) {
			// the observation record (and the hold point) of this very request travel in its context
			obs := shared
			var hook *reqHook
			if ctx.Request != nil {
				if h, ok := ctx.Request.Context().Value(hookKey{}).(*reqHook); ok {
					hook = h
					obs = h.obs
					if h.park != nil {
						h.park()
					}
				}
			}
			obs.Ran = id
			obs.NoRoute = noRoute
			obs.Pattern = ctx.RoutePattern()
			obs.Params = ctx.AllParams()
			obs.Lookups = map[string]string{}
			for _, n := range ask {
				obs.Lookups[n] = ctx.Param(n)
			}
			if hook != nil && hook.cancelled {
				ctx.Status(299) // a handler entered although the request was cancelled before Next()
			} else if noRoute {
				ctx.Status(http.StatusNotFound)
			} else {
				ctx.Status(http.StatusOK)
			}
			if hook != nil && hook.fail {
				hook.faulted = true
				panic("injected fault: the handler fails after it has answered")
			}
		}
	}
	if c.Req.CancelMid {
		idOf := map[string]int{}
		for i, g := range c.Script {
			idOf[g.Method+" "+g.FullPath()] = i // the last registration of a pattern text is the one a leaf holds
		}
		r.Use(func(ctx *router.Context) {
			if ctx.Request != nil {
				if h, ok := ctx.Request.Context().Value(hookKey{}).(*reqHook); ok && h.cancelMid && h.cancel != nil {
					if id, ok := idOf[ctx.Request.Method+" "+ctx.RoutePattern()]; ok {
						h.obs.Ran = id
						h.obs.Pattern = ctx.RoutePattern()
						h.obs.Params = ctx.AllParams()
						h.obs.Lookups = map[string]string{}
						for _, n := range ask {
							h.obs.Lookups[n] = ctx.Param(n)
						}
					}
					h.cancelled = true
					h.cancel()
				}
			}
			ctx.Next()
		})
	}
	if c.NoRoute {
		r.NoRoute(probe(-1, true))
	}
	// sub-routers of mounted blocks: built when the first block of a sub-router is reached
	subs := map[int]*router.Router{}
	flatOf := map[string]int{} // (sub, route, full pattern) -> index in the script
	for i, g := range c.Script {
		if g.MountSub > 0 {
			flatOf[fmt.Sprintf("%d/%d/%s", g.MountSub, g.SubIdx, g.Path)] = i
		}
	}
	mountedProbe := func(sub, idx, dflt int) router.HandlerFunc {
		return func(ctx *router.Context) {
			id := dflt
			if j, ok := flatOf[fmt.Sprintf("%d/%d/%s", sub, idx, ctx.RoutePattern())]; ok {
				id = j
			}
			probe(id, false)(ctx)
		}
	}
	for i, g := range c.Script {
		if c.Warm && i == c.WarmupAt {
			r.Warmup()
		}
		if g.Static != "" && c.Eng.Version == "" {
			if g.Method == "GET" {
				r.StaticFS(g.Static, &staticFS{getID: i, headID: i + 1, pattern: g.Path, shared: shared})
			}
			continue // (the HEAD twin was registered by the same call)
		}
		if g.MountSub > 0 && c.Eng.Version == "" { // (in a version tree the route is registered under its full path)
			if i > 0 && c.Script[i-1].MountSub == g.MountSub && c.Script[i-1].MountPrefix == g.MountPrefix {
				continue // registered by the Mount call of its block
			}
			sub := subs[g.MountSub]
			if sub == nil {
				sub = router.MustNew()
				subs[g.MountSub] = sub
				for j := i; j < len(c.Script) && c.Script[j].MountSub == g.MountSub && c.Script[j].MountPrefix == g.MountPrefix; j++ {
					sg := c.Script[j]
					var srt *route.Route
					sh := mountedProbe(sg.MountSub, sg.SubIdx, j)
					switch sg.Method {
					case "GET":
						srt = sub.GET(sg.SubPath, sh)
					case "POST":
						srt = sub.POST(sg.SubPath, sh)
					case "PUT":
						srt = sub.PUT(sg.SubPath, sh)
					case "PATCH":
						srt = sub.PATCH(sg.SubPath, sh)
					case "DELETE":
						srt = sub.DELETE(sg.SubPath, sh)
					case "HEAD":
						srt = sub.HEAD(sg.SubPath, sh)
					case "OPTIONS":
						srt = sub.OPTIONS(sg.SubPath, sh)
					}
					applyCons(srt, sg.Cons)
				}
			}
			r.Mount(g.MountPrefix, sub)
			continue
		}
		var rt *route.Route
		h := probe(i, false)
		if c.Eng.Version != "" {
			vr := r.Version(c.Eng.Version)
			p := g.FullPath()
			switch g.Method {
			case "GET":
				rt = vr.GET(p, h)
			case "POST":
				rt = vr.POST(p, h)
			case "PUT":
				rt = vr.PUT(p, h)
			case "PATCH":
				rt = vr.PATCH(p, h)
			case "DELETE":
				rt = vr.DELETE(p, h)
			case "HEAD":
				rt = vr.HEAD(p, h)
			case "OPTIONS":
				rt = vr.OPTIONS(p, h)
			}
		} else if len(g.Groups) == 0 {
			switch g.Method {
			case "GET":
				rt = r.GET(g.Path, h)
			case "POST":
				rt = r.POST(g.Path, h)
			case "PUT":
				rt = r.PUT(g.Path, h)
			case "PATCH":
				rt = r.PATCH(g.Path, h)
			case "DELETE":
				rt = r.DELETE(g.Path, h)
			case "HEAD":
				rt = r.HEAD(g.Path, h)
			case "OPTIONS":
				rt = r.OPTIONS(g.Path, h)
			}
		} else {
			grp := r.Group(g.Groups[0])
			for _, p := range g.Groups[1:] {
				grp = grp.Group(p)
			}
			switch g.Method {
			case "GET":
				rt = grp.GET(g.Path, h)
			case "POST":
				rt = grp.POST(g.Path, h)
			case "PUT":
				rt = grp.PUT(g.Path, h)
			case "PATCH":
				rt = grp.PATCH(g.Path, h)
			case "DELETE":
				rt = grp.DELETE(g.Path, h)
			case "HEAD":
				rt = grp.HEAD(g.Path, h)
			case "OPTIONS":
				rt = grp.OPTIONS(g.Path, h)
			}
		}
		applyCons(rt, g.Cons)
	}
	return r
}

// Session is one real router serving several requests one after the other.
type Session struct {
	c   CaseT
	ask []string
	cur ObsT
	r   *router.Router
	bad bool // building the router panicked
}

// NewSession builds the router of the case (script, options, warm-up placement).
func NewSession(c CaseT, ask []string) (s *Session) {
	s = &Session{c: c, ask: ask}
	defer func() {
		if p := recover(); p != nil {
			s.bad = true
		}
	}()
	s.r = Build(c, ask, &s.cur)
	return s
}

type hookKey struct{}

// reqHook travels in the request context: where this request's handler reports, and optional hold
// points at the entry of the handler (park) and in OnRequestEnd (end).
type reqHook struct {
	obs  *ObsT
	park func()
	end  func()
	// fail: the handler that answers this request panics after it has recorded what it saw
	fail bool
	// faulted: the hook itself is about to panic on purpose (fault injection)
	faulted bool
	// cancelMid: the global middleware cancels the request context before Next(); cancel does it
	cancelMid bool
	cancel    context.CancelFunc
	cancelled bool
}

// recorder is a minimal ObservabilityRecorder: it only gives a request's hook a place to run after
// the handler chain (OnRequestEnd).
type recorder struct{}

func (recorder) OnRequestStart(ctx context.Context, req *http.Request) (context.Context, any) {
	return ctx, req
}
func (recorder) WrapResponseWriter(w http.ResponseWriter, _ any) http.ResponseWriter { return w }
func (recorder) OnRequestEnd(_ context.Context, state any, _ http.ResponseWriter, _ string) {
	if req, ok := state.(*http.Request); ok && req != nil {
		if h, ok := req.Context().Value(hookKey{}).(*reqHook); ok && h.end != nil {
			h.end()
		}
	}
}

// Serve runs one request through ServeHTTP on the session's router; a panic is an observation.
func (s *Session) Serve(q ReqT) ObsT { return s.serve(q, &reqHook{fail: q.PanicIn}) }

func (s *Session) serve(q ReqT, h *reqHook) (o ObsT) {
	if s.bad {
		return ObsT{Panic: true, Ran: -1}
	}
	cur := ObsT{Ran: -1}
	h.obs = &cur
	rec := httptest.NewRecorder()
	s.cur.static = nil
	finish := func() ObsT {
		o := cur
		o.Status = rec.Code
		if sf := s.cur.static; sf != nil && o.Ran < 0 {
			// a StaticFS route answered: which registration, under which pattern, with which remainder
			s.cur.static = nil
			o.Ran = sf.getID
			if q.Method == "HEAD" {
				o.Ran = sf.headID
			}
			o.Pattern = sf.pattern
			capture := strings.TrimPrefix(q.Path, strings.TrimSuffix(sf.pattern, "*"))
			o.Params = map[string]string{"filepath": capture}
			o.Lookups = map[string]string{}
			for _, n := range s.ask {
				if n == "filepath" {
					o.Lookups[n] = capture
				} else {
					o.Lookups[n] = ""
				}
			}
			o.Status = http.StatusOK // (the file server may also redirect: the route is what is observed)
		}
		if a := rec.Header().Get("Allow"); a != "" {
			o.Allow = strings.Split(a, ", ")
		}
		o.Exists = s.r.RouteExists(q.Method, q.Path)
		return o
	}
	defer func() {
		if p := recover(); p != nil {
			if h.faulted { // the injected failure after the response: what was observed until then stands
				o = finish()
			} else {
				o = ObsT{Panic: true, Ran: -1}
			}
		}
	}()
	req := httptest.NewRequest(q.Method, "/", nil)
	req.URL.Path = q.Path
	req.URL.RawPath = ""
	if q.Raw != "" && !HasStatic(s.c.Script) { // (http.StripPrefix looks at RawPath too)
		if u, err := url.PathUnescape(q.Raw); err == nil && u == q.Path {
			req.URL.RawPath = q.Raw
		}
	}
	if s.c.Eng.Version != "" {
		req.Header.Set("X-API-Version", s.c.Eng.Version)
	}
	ctx := context.WithValue(req.Context(), hookKey{}, h)
	if q.CancelMid {
		var cancel context.CancelFunc
		ctx, cancel = context.WithCancel(ctx)
		defer cancel()
		h.cancelMid, h.cancel = true, cancel
	}
	if q.Cancelled {
		var cancel context.CancelFunc
		ctx, cancel = context.WithCancel(ctx)
		cancel()
	}
	s.r.ServeHTTP(rec, req.WithContext(ctx))
	return finish()
}

// ObsKey is a canonical text of an observation (to tell different answers to one request apart).
func ObsKey(o ObsT, ask []string) string {
	l := hx.NewLine("")
	ObsTokens(l, o, ask)
	if !o.Panic {
		l.Bool(o.Exists)
	}
	return l.String()
}

// ServeBurst serves the requests concurrently: `workers` goroutines, each going `rounds` times through
// all requests (every worker starts at a different one). It returns, per request, the different
// observations that were made (exactly one each if the router answers a request the same way every time).
func (s *Session) ServeBurst(reqs []ReqT, workers, rounds int) [][]ObsT {
	type seen struct {
		keys map[string]bool
		obs  []ObsT
	}
	var mu sync.Mutex
	all := make([]seen, len(reqs))
	for i := range all {
		all[i].keys = map[string]bool{}
	}
	var wg sync.WaitGroup
	start := make(chan struct{})
	for w := 0; w < workers; w++ {
		wg.Add(1)
		go func(w int) {
			defer wg.Done()
			<-start
			for n := 0; n < rounds; n++ {
				for k := range reqs {
					i := (k + w) % len(reqs)
					o := s.Serve(reqs[i])
					key := ObsKey(o, s.ask)
					mu.Lock()
					if !all[i].keys[key] {
						all[i].keys[key] = true
						all[i].obs = append(all[i].obs, o)
					}
					mu.Unlock()
				}
			}
		}(w)
	}
	close(start)
	wg.Wait()
	out := make([][]ObsT, len(reqs))
	for i := range all {
		out[i] = all[i].obs
	}
	return out
}

func waitAny(chs ...<-chan struct{}) bool {
	t := time.After(30 * time.Second)
	switch len(chs) {
	case 1:
		select {
		case <-chs[0]:
			return true
		case <-t:
			return false
		}
	default:
		select {
		case <-chs[0]:
			return true
		case <-chs[1]:
			return true
		case <-t:
			return false
		}
	}
}

// ServeOverlap runs the two-request scenario of OverlapT on the session's router and returns both
// observations. A request that is never released within 30 s is reported as a panic observation.
func (s *Session) ServeOverlap(kind string, a, b ReqT) (oa, ob ObsT) {
	defer runtime.GOMAXPROCS(runtime.GOMAXPROCS(1))
	aHeld, aGo := make(chan struct{}), make(chan struct{})
	bHeld, bGo := make(chan struct{}), make(chan struct{})
	var onceA, onceB sync.Once
	ha := &reqHook{fail: a.PanicIn}
	holdA := func() {
		first := false
		onceA.Do(func() { first = true; close(aHeld) })
		if first {
			<-aGo
			if kind == "end-panic" {
				ha.faulted = true
				panic("injected fault: OnRequestEnd fails")
			}
		}
	}
	if kind == "handler" {
		ha.park = holdA
	} else {
		ha.end = holdA
	}
	hb := &reqHook{fail: b.PanicIn}
	if kind != "handler" {
		hb.park = func() {
			first := false
			onceB.Do(func() { first = true; close(bHeld) })
			if first {
				<-bGo
			}
		}
	}
	aDone, bDone := make(chan struct{}), make(chan struct{})
	go func() { defer close(aDone); oa = s.serve(a, ha) }()
	ok := waitAny(aHeld, aDone)
	go func() { defer close(bDone); ob = s.serve(b, hb) }()
	if kind == "handler" {
		ok = waitAny(bDone) && ok
	} else {
		ok = waitAny(bHeld, bDone) && ok
	}
	close(aGo)
	ok = waitAny(aDone) && ok
	close(bGo)
	ok = waitAny(bDone) && ok
	if !ok {
		return ObsT{Panic: true, Ran: -1}, ObsT{Panic: true, Ran: -1}
	}
	return oa, ob
}

// Observe builds a fresh router, serves the requests of c.Prev and then c.Req, and reports the last one.
func Observe(c CaseT, ask []string) ObsT {
	s := NewSession(c, ask)
	for _, q := range c.Prev {
		s.Serve(q)
	}
	switch {
	case c.Overlap != nil:
		if c.Overlap.Role == "A" {
			o, _ := s.ServeOverlap(c.Overlap.Kind, c.Req, c.Overlap.Other)
			return o
		}
		_, o := s.ServeOverlap(c.Overlap.Kind, c.Overlap.Other, c.Req)
		return o
	case len(c.Burst) > 0:
		// replay of a burst: the answer given alone, unless the burst shows another one
		alone := s.Serve(c.Req)
		for try := 0; try < BurstTries; try++ {
			for _, o := range s.ServeBurst(append([]ReqT{c.Req}, c.Burst...), BurstWorkers, BurstRounds)[0] {
				if ObsKey(o, ask) != ObsKey(alone, ask) {
					return o
				}
			}
		}
		return alone
	}
	return s.Serve(c.Req)
}

// BurstTries: how often Observe repeats the burst of a case looking for a deviating answer (replay: 5)
var BurstTries = 1

const (
	BurstWorkers = 8
	BurstRounds  = 120
)

// InputTokens writes the input part of the case line (everything the Lean driver needs: script,
// the sat table of every constraint on every slash-separated piece of the path, the request).
func InputTokens(l *hx.Line, c CaseT, ask []string) {
	l.Bool(c.NoRoute).Nat(len(c.Script))
	type cref struct {
		id int
		ok func(string) bool
	}
	var all []cref
	for _, g := range c.Script {
		if g.MountSub > 0 {
			// a route of a mounted sub-router: the model gets the path registered on the sub-router and the prefix
			// handed to Mount, and joins them itself (Model/Radix `mountPath`, Spec/Match `regText`)
			l.Str(g.Method).Strs(nil).Str(g.SubPath)
		} else {
			l.Str(g.Method).Strs(g.Groups).Str(g.Path)
		}
		eff := effectiveSpec(g.Cons)
		l.Nat(len(eff))
		for _, e := range eff {
			id := len(all)
			all = append(all, cref{id, Meaning(e)})
			l.Str(e.Name).Nat(id)
		}
		if g.MountSub > 0 {
			l.Bool(true).Str(g.MountPrefix)
		} else {
			l.Bool(false)
		}
	}
	vals := map[string]bool{}
	for _, v := range strings.Split(c.Req.Path, "/") {
		vals[v] = true
	}
	for i := 0; i < len(c.Req.Path); i++ { // what a wildcard can capture: every suffix that starts a segment
		if i == 0 || c.Req.Path[i-1] == '/' {
			vals[c.Req.Path[i:]] = true
		}
	}
	vs := make([]string, 0, len(vals))
	for v := range vals {
		vs = append(vs, v)
	}
	sort.Strings(vs)
	l.Nat(len(all) * len(vs))
	for _, cr := range all {
		for _, v := range vs {
			l.Nat(cr.id).Str(v).Bool(cr.ok(v))
		}
	}
	l.Str(c.Req.Method).Str(c.Req.Path).Strs(ask)
}

func kvs(l *hx.Line, m map[string]string) {
	keys := make([]string, 0, len(m))
	for k := range m {
		keys = append(keys, k)
	}
	sort.Strings(keys)
	l.Nat(len(keys))
	for _, k := range keys {
		l.Str(k).Str(m[k])
	}
}

// ObsTokens writes one observation; ask fixes the order of the lookups.
func ObsTokens(l *hx.Line, o ObsT, ask []string) {
	if o.Panic {
		l.Tok("P")
		return
	}
	l.Tok("O").Nat(o.Status).Strs(o.Allow)
	if o.Ran >= 0 {
		l.Bool(true).Nat(o.Ran)
	} else {
		l.Bool(false)
	}
	l.Bool(o.NoRoute).Str(o.Pattern)
	kvs(l, o.Params)
	if o.Lookups == nil {
		l.Nat(0)
	} else {
		l.Nat(len(ask))
		for _, n := range ask {
			l.Str(n).Str(o.Lookups[n])
		}
	}
}

// Compatible counts the routes of the request method whose first segment is compatible with the
// first segment of the path (the non-triviality rule of C01/C11).
func Compatible(c CaseT) int {
	first := func(p string) string {
		p = strings.TrimPrefix(p, "/")
		if i := strings.IndexByte(p, '/'); i >= 0 {
			p = p[:i]
		}
		return p
	}
	want := first(c.Req.Path)
	n := 0
	for _, g := range c.Script {
		if g.Method != c.Req.Method {
			continue
		}
		f := first(g.FullPath())
		if f == want || strings.HasPrefix(f, ":") || f == "*" {
			n++
		}
	}
	return n
}
