package rtgen

import (
	"fmt"
	"regexp"
	"strings"

	"verif/harness/hx"
)

var statics = []string{"a", "b", "users", "list", "new"}
var pnames = []string{"x", "y", "id", "p1", "p2", "p3", "p4", "p5", "p6", "p7", "p8", "p9"}
var values = []string{"1", "42", "abc", "a", "b", "users", "list", "new", "x1", "2024-01-01",
	"123e4567-e89b-42d3-a456-426614174000", "3.5", "A", "é", "%41", "a b", "0",
	// near misses of the enum members: prefixes, suffixes, superstrings
	"ab", "xb", "usersx", "xusers", "opened", "unclosed", "avoid", "open", "void", "v1x", "xv3", "v2",
	"123e4567-e89b-62d3-a456-426614174000", "2024-1-01", "12a", "-3.5e2", "1e",
	// dot segments and dots inside segments: a captured remainder is handed over verbatim
	"..", ".", "x..y", "v1..2", "..a",
	// signed and padded numbers: an int constraint is "digits only"
	"-5", "+7", "007", "1_0",
	// digits only, but beyond 64 bits
	"18446744073709551616", "99999999999999999999999"}

var consPalette = []ConsT{
	{Kind: "int"}, {Kind: "int"}, {Kind: "float"}, {Kind: "uuid"}, {Kind: "date"},
	{Kind: "enum", Arg: "a|b|users"}, {Kind: "enum", Arg: "open|closed|void"}, {Kind: "enum", Arg: "v1|v2|v3"},
	{Kind: "regex", Arg: "[a-z]+"}, {Kind: "where", Arg: `\d+`},
	{Kind: "where", Arg: "[a-c]+"}, {Kind: "datetime"},
}

var wherePatterns = []string{`\d+`, `[a-c]+`, `[a-z0-9]+`, `.{1,3}`, `[^0]+`, `[a-z]+`, `[0-9a-f-]+`, `\w+`}

func pickName(r *hx.Rand, used map[string]bool, allowDup bool) string {
	if allowDup {
		return hx.Pick(r, pnames[:3])
	}
	// prefer the three short names (forces D_names overlaps across routes), fall back to unused ones
	for try := 0; try < 4; try++ {
		n := hx.Pick(r, pnames[:3])
		if !used[n] {
			used[n] = true
			return n
		}
	}
	for _, n := range pnames {
		if !used[n] {
			used[n] = true
			return n
		}
	}
	return "x"
}

// genSegs returns the segments of a fresh pattern (no leading slash inside the segments).
func genSegs(r *hx.Rand, maxLen int) []string {
	n := 1 + r.Intn(4)
	if r.Chance(1, 12) {
		n = r.Range(5, maxLen)
	}
	used := map[string]bool{}
	segs := make([]string, 0, n)
	for i := 0; i < n; i++ {
		switch {
		case i == n-1 && r.Chance(1, 8):
			segs = append(segs, "*")
		case r.Chance(2, 5) || (n > 6 && r.Chance(1, 2)):
			segs = append(segs, ":"+pickName(r, used, false))
		default:
			segs = append(segs, hx.Pick(r, statics))
		}
	}
	return segs
}

// mutateSegs derives a sibling pattern from an existing one so that route sets overlap.
func mutateSegs(r *hx.Rand, in []string) []string {
	segs := append([]string(nil), in...)
	if len(segs) == 0 {
		return []string{hx.Pick(r, statics)}
	}
	used := map[string]bool{}
	for _, s := range segs {
		if strings.HasPrefix(s, ":") {
			used[s[1:]] = true
		}
	}
	i := r.Intn(len(segs))
	switch r.Intn(7) {
	case 0: // another kind at position i
		if strings.HasPrefix(segs[i], ":") || segs[i] == "*" {
			segs[i] = hx.Pick(r, statics)
		} else {
			segs[i] = ":" + pickName(r, used, false)
		}
	case 1: // rename a parameter (K01a / K01c shapes)
		for j, s := range segs {
			if strings.HasPrefix(s, ":") {
				delete(used, s[1:])
				segs[j] = ":" + pickName(r, used, false)
				break
			}
		}
	case 2: // extend
		if segs[len(segs)-1] != "*" {
			if r.Chance(1, 2) {
				segs = append(segs, hx.Pick(r, statics))
			} else {
				segs = append(segs, ":"+pickName(r, used, false))
			}
		}
	case 3: // cut the tail and catch it with a wildcard
		segs = append(segs[:i:i], "*")
	case 4: // drop the last segment
		if len(segs) > 1 {
			segs = segs[:len(segs)-1]
		}
	case 5: // different static at position i
		segs[i] = hx.Pick(r, statics)
		for j := 0; j < len(segs)-1; j++ {
			if segs[j] == "*" {
				segs[j] = hx.Pick(r, statics)
			}
		}
	default: // same shape again (exact duplicate or same shape with other constraints)
	}
	for j := 0; j < len(segs)-1; j++ {
		if segs[j] == "*" {
			segs[j] = hx.Pick(r, statics)
		}
	}
	return segs
}

var malformed = []string{"", "a", "/a/", "/a//b", "/:", "/a:b", "/a/x*", "/*/a", "//", "/a/:x/", "/:x/:x", "/a/*/", "/:x*", "/a/::y"}

func genCons(r *hx.Rand, segs []string) []ConsT {
	var cs []ConsT
	for _, s := range segs {
		if strings.HasPrefix(s, ":") && r.Chance(1, 4) {
			c := hx.Pick(r, consPalette)
			c.Name = s[1:]
			cs = append(cs, c)
			if r.Chance(1, 10) { // a second constraint on the same parameter
				c2 := hx.Pick(r, consPalette)
				c2.Name = s[1:]
				cs = append(cs, c2)
			}
			if r.Chance(1, 8) { // a Where call that is rejected (pattern does not compile; the caller recovers), before or after the others
				bad := ConsT{Name: s[1:], Kind: "rejected", Arg: hx.Pick(r, rejectedPatterns)}
				if r.Chance(1, 3) { // WhereRegex does not reject such a pattern: the constraint is void
					bad.Kind = "badregex"
				}
				if r.Chance(2, 3) {
					cs = append(cs[:len(cs)-1:len(cs)-1], bad, cs[len(cs)-1])
				} else {
					cs = append(cs, bad)
				}
			}
			if r.Chance(1, 8) { // two or three Where patterns on one parameter: all of them must hold
				k := r.Range(2, 3)
				if cs[len(cs)-1].Kind != "rejected" {
					cs = cs[:len(cs)-1]
				}
				for j := 0; j < k; j++ {
					cs = append(cs, ConsT{Name: s[1:], Kind: "where", Arg: hx.Pick(r, wherePatterns)})
				}
			}
		}
	}
	if r.Chance(1, 40) { // a constraint on a name the pattern does not declare (outside the domain)
		c := hx.Pick(r, consPalette)
		c.Name = hx.Pick(r, []string{"filepath", "nobody", "x"})
		cs = append(cs, c)
	}
	return cs
}

// splitGroups cuts "/a/:x/b" into group prefixes and a path at segment boundaries.
func splitGroups(r *hx.Rand, segs []string) ([]string, string) {
	if len(segs) < 2 || !r.Chance(1, 3) {
		return nil, "/" + strings.Join(segs, "/")
	}
	k := r.Range(1, min(3, len(segs)-1)) // number of groups
	cuts := map[int]bool{}
	for len(cuts) < k {
		cuts[r.Range(1, len(segs)-1)] = true
	}
	var groups []string
	start := 0
	for i := 1; i < len(segs); i++ {
		if cuts[i] {
			groups = append(groups, "/"+strings.Join(segs[start:i], "/"))
			start = i
		}
	}
	path := "/" + strings.Join(segs[start:], "/")
	switch r.Intn(12) {
	case 0: // the route is the group itself: g.GET("")
		groups = append(groups, path)
		path = ""
	case 1: // … or the group with a trailing slash: g.GET("/") (a pattern outside the vocabulary: only model = code is judged)
		groups = append(groups, path)
		path = "/"
	}
	if r.Chance(1, 10) {
		groups = append([]string{""}, groups...) // a group with an empty prefix
	}
	return groups, path
}

var longNames = []string{"documentation-and-reference-material", "international-shipping-preferences",
	"quarterly-financial-statements-archive", "x", "administration", "customer-relationship-management-console"}

// longStatic builds a parameter-free path of exactly `total` bytes out of long segment names.
func longStatic(r *hx.Rand, total int) []string {
	var segs []string
	n := 0
	for n < total-20 {
		s := hx.Pick(r, longNames)
		segs = append(segs, s)
		n += 1 + len(s)
	}
	pad := total - n - 1
	if pad < 1 {
		pad = 1
	}
	segs = append(segs, strings.Repeat("z", pad))
	return segs
}

// addLongStatics appends static routes whose full path is 60–70 or 120–135 bytes long (the lengths at
// which length-indexed shortcuts in front of the static map break), each with a parameter sibling that
// matches the same path.
func addLongStatics(r *hx.Rand, script []RegT, method string) []RegT {
	k := r.Range(1, 3)
	for i := 0; i < k; i++ {
		total := r.Range(60, 70)
		if r.Chance(1, 2) {
			total = r.Range(120, 135)
		}
		if r.Chance(1, 6) {
			total = hx.Pick(r, []int{63, 64, 65, 127, 128, 129})
		}
		segs := longStatic(r, total)
		script = append(script, RegT{Method: method, Path: "/" + strings.Join(segs, "/")})
		if r.Chance(2, 3) {
			sib := append([]string(nil), segs...)
			sib[len(sib)-1] = ":" + hx.Pick(r, pnames[:3])
			g := RegT{Method: method, Path: "/" + strings.Join(sib, "/")}
			if r.Chance(1, 3) {
				g.Method = hx.Pick(r, Methods)
			}
			script = append(script, g)
		}
	}
	return script
}

// fanOut registers patterns of the script again under other methods, with other constraints or with a
// static sibling, so that the set of methods matching a path depends on the parameter values (the
// 405/Allow clause).
func fanOut(r *hx.Rand, script []RegT) []RegT {
	k := r.Range(1, 3)
	for i := 0; i < k; i++ {
		g := hx.Pick(r, script)
		full := g.FullPath()
		if !strings.Contains(full, ":") || strings.Contains(full, " ") {
			continue
		}
		segs := strings.Split(strings.TrimPrefix(full, "/"), "/")
		m := hx.Pick(r, Methods)
		switch r.Intn(3) {
		case 0, 1: // same pattern, another method, its own constraints
			var cs []ConsT
			for _, s := range segs {
				if strings.HasPrefix(s, ":") && r.Chance(2, 3) {
					c := hx.Pick(r, consPalette)
					c.Name = s[1:]
					cs = append(cs, c)
				}
			}
			script = append(script, RegT{Method: m, Path: full, Cons: cs})
		default: // a static sibling under another method
			sib := append([]string(nil), segs...)
			for j, s := range sib {
				if strings.HasPrefix(s, ":") {
					sib[j] = hx.Pick(r, []string{"new", "list", "42", "abc"})
					break
				}
			}
			script = append(script, RegT{Method: m, Path: "/" + strings.Join(sib, "/")})
		}
	}
	return script
}

// GenScript produces a registration script whose routes overlap on purpose.
func GenScript(r *hx.Rand, maxRoutes int) []RegT {
	script := genScriptBase(r, maxRoutes)
	if r.Chance(1, 3) {
		script = fanOut(r, script)
	}
	if r.Chance(1, 8) {
		script = addLongStatics(r, script, script[0].Method)
	}
	if r.Chance(1, 6) {
		script = renamedSibling(r, script)
	}
	if r.Chance(1, 10) {
		script = MountSome(r, script)
	}
	if r.Chance(1, 12) {
		script = StaticSome(r, script)
	}
	return script
}

// StaticSome adds one r.StaticFS(prefix, fs) call to the script: two registrations (GET and HEAD) of the pattern the
// prefix stands for; the prefix is spelled in one of the four ways the documentation allows.
func StaticSome(r *hx.Rand, script []RegT) []RegT {
	segs := []string{hx.Pick(r, []string{"assets", "a", "users", "list", "files"})}
	if r.Chance(1, 2) {
		segs = append(segs, hx.Pick(r, statics))
	}
	base := strings.Join(segs, "/")
	sp := hx.Pick(r, []string{"/" + base, "/" + base + "/", base, "/" + base + "/*"})
	pair := []RegT{{Method: "GET", Path: StaticPattern(sp), Static: sp}, {Method: "HEAD", Path: StaticPattern(sp), Static: sp}}
	at := 0 // before or after everything else (never inside the block of a Mount call)
	if r.Chance(1, 2) {
		at = len(script)
	}
	out := append([]RegT{}, script[:at]...)
	out = append(out, pair...)
	return append(out, script[at:]...)
}

// renamedSibling appends, for one parameter route of the script, a sibling that shares its prefix up to a parameter,
// calls that parameter differently, constrains it, and goes on with a static segment: requests that instantiate the
// original route also walk into the sibling, which rejects, and come back (the names of a rejected alternative must
// leave no trace).
func renamedSibling(r *hx.Rand, script []RegT) []RegT {
	var cands []int
	for i, g := range script {
		if g.MountSub == 0 && strings.Contains(g.FullPath(), ":") && !strings.Contains(g.FullPath(), "*") {
			cands = append(cands, i)
		}
	}
	if len(cands) == 0 {
		return script
	}
	g := script[hx.Pick(r, cands)]
	segs := strings.Split(strings.TrimPrefix(g.FullPath(), "/"), "/")
	var ps []int
	for i, s := range segs {
		if strings.HasPrefix(s, ":") {
			ps = append(ps, i)
		}
	}
	if len(ps) == 0 { // a colon inside a segment ("/a:b"): no parameter to rename
		return script
	}
	k := hx.Pick(r, ps)
	name := hx.Pick(r, []string{"name", "key", "slug"})
	sib := append([]string{}, segs[:k]...)
	sib = append(sib, ":"+name)
	if k+1 < len(segs) {
		sib = append(sib, segs[k+1:]...)
		sib[len(sib)-1] = hx.Pick(r, statics)
	} else if r.Chance(1, 2) {
		sib = append(sib, hx.Pick(r, statics))
	}
	c := hx.Pick(r, consPalette)
	c.Name = name
	out := append([]RegT{}, script...)
	s2 := RegT{Method: g.Method, Path: "/" + strings.Join(sib, "/"), Cons: []ConsT{c}}
	if r.Chance(1, 2) {
		out = append(out, s2)
	} else {
		out = append([]RegT{s2}, out...)
	}
	return out
}

// genScriptPlain is GenScript without mounted blocks (for callers that reorder the script afterwards).
func genScriptPlain(r *hx.Rand, maxRoutes int) []RegT {
	script := genScriptBase(r, maxRoutes)
	if r.Chance(1, 3) {
		script = fanOut(r, script)
	}
	if r.Chance(1, 8) {
		script = addLongStatics(r, script, script[0].Method)
	}
	return script
}

var mountPrefixes = []string{"/m", "/m/", "m", "/api/v1", "/a", "/users", "/", "/:x", "/a/:id", "/m//", "m/", "", "/list/"}

// MountSome turns a contiguous block of the script into routes of a sub-router that is mounted at a prefix (in
// place, so that the main router's registration order is the script order), and in one case out of three mounts
// the same sub-router a second time, under another prefix, at the end of the script.
func MountSome(r *hx.Rand, script []RegT) []RegT {
	if len(script) == 0 {
		return script
	}
	lo := r.Intn(len(script))
	hi := min(len(script), lo+r.Range(1, 4))
	prefix := hx.Pick(r, mountPrefixes)
	out := append([]RegT{}, script[:lo]...)
	var block []RegT
	for k, g := range script[lo:hi] {
		sub := g.FullPath()
		if sub == "" {
			sub = "/"
		}
		block = append(block, RegT{Method: g.Method, Cons: g.Cons, MountSub: 1, MountPrefix: prefix, SubPath: sub, SubIdx: k,
			Path: MountJoin(prefix, sub)})
	}
	out = append(out, block...)
	out = append(out, script[hi:]...)
	if r.Chance(1, 3) {
		second := hx.Pick(r, mountPrefixes)
		if second != prefix {
			for _, g := range block {
				g.MountPrefix = second
				g.Path = MountJoin(second, g.SubPath)
				out = append(out, g)
			}
		}
	}
	return out
}

func genScriptBase(r *hx.Rand, maxRoutes int) []RegT {
	n := r.Range(1, maxRoutes)
	if r.Chance(1, 3) {
		n = r.Range(1, 4) // many small sets: the interesting two- and three-route interactions
	}
	mainMethod := hx.Pick(r, Methods)
	withMalformed := r.Chance(1, 8) // one script in eight contains patterns outside the vocabulary
	var script []RegT
	var pats [][]string
	for i := 0; i < n; i++ {
		var g RegT
		g.Method = mainMethod
		if r.Chance(1, 4) {
			g.Method = hx.Pick(r, Methods)
		}
		if withMalformed && r.Chance(1, 5) {
			g.Path = hx.Pick(r, malformed)
			script = append(script, g)
			continue
		}
		var segs []string
		switch {
		case r.Chance(1, 30):
			segs = nil // root
		case len(pats) > 0 && r.Chance(3, 5):
			segs = mutateSegs(r, hx.Pick(r, pats))
		default:
			segs = genSegs(r, 11)
		}
		pats = append(pats, segs)
		if len(segs) == 0 {
			g.Path = "/"
		} else {
			g.Groups, g.Path = splitGroups(r, segs)
			if len(g.Groups) > 0 && r.Chance(1, 12) { // route at the group's own prefix: path ""
				g.Groups = append(g.Groups, g.Path)
				g.Path = ""
			}
		}
		g.Cons = genCons(r, segs)
		if r.Chance(1, 150) && len(segs) > 0 && segs[len(segs)-1] != "*" {
			g.Path += " " // trailing white space: in the vocabulary, trimmed by CompileRoute only (K11f)
		}
		script = append(script, g)
	}
	return script
}

func instantiate(r *hx.Rand, full string) string {
	if full == "/" || full == "" {
		return "/"
	}
	segs := strings.Split(strings.TrimPrefix(full, "/"), "/")
	out := make([]string, 0, len(segs)+2)
	for _, s := range segs {
		switch {
		case s == "*":
			k := r.Range(1, 3)
			if r.Chance(1, 6) { // a remainder deeper than any pattern of the script
				k = r.Range(4, 12)
			}
			for j := 0; j < k; j++ {
				out = append(out, hx.Pick(r, values))
			}
		case strings.HasPrefix(s, ":"):
			out = append(out, hx.Pick(r, values))
		default:
			out = append(out, s)
		}
	}
	return "/" + strings.Join(out, "/")
}

// GenReq produces a request aimed at the script: an instantiation of one of its patterns, mutated.
func GenReq(r *hx.Rand, script []RegT) ReqT {
	g := hx.Pick(r, script)
	q := ReqT{Method: g.Method, Path: instantiate(r, g.FullPath())}
	if r.Chance(1, 4) {
		q.Method = hx.Pick(r, Methods)
	}
	if r.Chance(1, 60) {
		q.Method = hx.Pick(r, []string{"TRACE", "CONNECT", "get", "PROPFIND"})
	}
	if r.Chance(1, 40) {
		// an extension method with the length and the first byte of a standard one
		q.Method = hx.Pick(r, []string{"PURGE", "DETACH", "PING", "GOT", "PUB", "HELO", "OPTIMAL", "PARSE"})
	}
	segs := strings.Split(strings.TrimPrefix(q.Path, "/"), "/")
	if q.Path == "/" {
		segs = nil
	}
	switch r.Intn(14) {
	case 0: // a sibling's static name in place of a value
		if len(segs) > 0 {
			segs[r.Intn(len(segs))] = hx.Pick(r, statics)
		}
	case 1: // drop the last segment
		if len(segs) > 0 {
			segs = segs[:len(segs)-1]
		}
	case 2: // one more segment
		segs = append(segs, hx.Pick(r, values))
	case 3: // empty segment somewhere (outside the canonical domain)
		if len(segs) > 0 {
			segs[r.Intn(len(segs))] = ""
		}
	case 4: // trailing slash (outside the canonical domain)
		segs = append(segs, "")
	case 5: // an entirely random path over the alphabet
		k := r.Range(1, 5)
		segs = segs[:0]
		for j := 0; j < k; j++ {
			if r.Chance(1, 2) {
				segs = append(segs, hx.Pick(r, statics))
			} else {
				segs = append(segs, hx.Pick(r, values))
			}
		}
	case 6: // another value
		if len(segs) > 0 {
			segs[r.Intn(len(segs))] = hx.Pick(r, values)
		}
	}
	q.Path = "/" + strings.Join(segs, "/")
	if r.Chance(1, 80) && !HasStatic(script) { // (http.StripPrefix in front of a file server answers such paths itself)
		q.Path = strings.TrimPrefix(q.Path, "/") // no leading slash (outside the canonical domain)
	}
	if r.Chance(1, 12) {
		q.Raw = EscapeSome(r, q.Path)
	}
	return q
}

// EscapeSome spells the path as a request target in which some bytes are percent-escaped although they need
// not be (net/http then sets URL.RawPath next to the decoded URL.Path); "" when nothing was escaped.
func EscapeSome(r *hx.Rand, path string) string {
	if len(path) < 2 || path[0] != '/' {
		return ""
	}
	var b strings.Builder
	n := 0
	k := r.Range(1, 3)
	for i := 0; i < len(path); i++ {
		c := path[i]
		if i > 0 && n < k && r.Chance(1, 4) && c != '%' {
			if r.Chance(1, 2) {
				fmt.Fprintf(&b, "%%%02X", c)
			} else {
				fmt.Fprintf(&b, "%%%02x", c)
			}
			n++
			continue
		}
		if c == '%' || c == ' ' || c >= 0x80 || c == '?' || c == '#' {
			fmt.Fprintf(&b, "%%%02X", c)
			continue
		}
		b.WriteByte(c)
	}
	if n == 0 {
		return ""
	}
	return b.String()
}

var wideStatics = []string{"a", "b", "users", "list", "new", "api", "v1", "health", "c", "d", "é", "items"}

// GenScriptWide produces scripts for C11: sizes straddling the ten-route thresholds of the compiled
// engine (first-segment index over dynamic routes, bloom filter over static routes), with many
// parameter-free routes in some scripts and overlapping templates in all.
func GenScriptWide(r *hx.Rand) []RegT {
	var script []RegT
	switch r.Intn(4) {
	case 0:
		script = genScriptPlain(r, 8)
	case 1:
		script = genScriptPlain(r, 25)
	default:
		script = genScriptPlain(r, 14)
	}
	mainMethod := script[0].Method
	// top up with static routes so that the static tables straddle ten entries
	if r.Chance(1, 2) {
		k := r.Range(3, 16)
		for i := 0; i < k; i++ {
			n := r.Range(1, 3)
			segs := make([]string, n)
			for j := range segs {
				segs[j] = hx.Pick(r, wideStatics)
			}
			g := RegT{Method: mainMethod, Path: "/" + strings.Join(segs, "/")}
			if r.Chance(1, 6) {
				g.Method = hx.Pick(r, Methods)
			}
			script = append(script, g)
		}
	}
	// and with simple dynamic routes so that the dynamic list straddles ten entries
	if r.Chance(1, 2) {
		k := r.Range(2, 12)
		for i := 0; i < k; i++ {
			var segs []string
			switch r.Intn(4) {
			case 0:
				segs = []string{hx.Pick(r, wideStatics), ":id"}
			case 1:
				segs = []string{":x", hx.Pick(r, wideStatics)}
			case 2:
				segs = []string{hx.Pick(r, wideStatics), ":id", hx.Pick(r, wideStatics)}
			default:
				segs = []string{hx.Pick(r, wideStatics), hx.Pick(r, wideStatics), ":y"}
			}
			g := RegT{Method: mainMethod, Path: "/" + strings.Join(segs, "/"), Cons: genCons(r, segs)}
			if r.Chance(1, 6) {
				g.Method = hx.Pick(r, Methods)
			}
			script = append(script, g)
		}
	}
	hx.Shuffle(r, script)
	if r.Chance(1, 10) { // after the shuffle: the regs of one Mount call stay together
		script = MountSome(r, script)
	}
	return script
}

// mergeInstantiate builds a path that instantiates two templates of the same length at once where
// possible (static of either, else a value): the paths on which the scan order of the compiled matcher
// and the segment-wise priority of the tree can disagree (K11a).
func mergeInstantiate(r *hx.Rand, a, b string) string {
	sa := strings.Split(strings.TrimPrefix(a, "/"), "/")
	sb := strings.Split(strings.TrimPrefix(b, "/"), "/")
	out := make([]string, 0, len(sa))
	for i := range sa {
		pick := func(s string) (string, bool) {
			if s == "" || s == "*" || strings.HasPrefix(s, ":") {
				return "", false
			}
			return s, true
		}
		if v, ok := pick(sa[i]); ok {
			out = append(out, v)
		} else if i < len(sb) {
			if v, ok := pick(sb[i]); ok {
				out = append(out, v)
			} else {
				out = append(out, hx.Pick(r, values))
			}
		} else {
			out = append(out, hx.Pick(r, values))
		}
	}
	return "/" + strings.Join(out, "/")
}

// GenReqWide: requests for C11 — like GenReq, plus paths instantiating two templates at once and a
// non-ASCII first byte now and then.
func GenReqWide(r *hx.Rand, script []RegT) ReqT {
	q := GenReq(r, script)
	if r.Chance(1, 6) && len(script) >= 2 {
		a, b := hx.Pick(r, script), hx.Pick(r, script)
		if a.Method == b.Method && a.FullPath() != "/" && b.FullPath() != "/" {
			q = ReqT{Method: a.Method, Path: mergeInstantiate(r, a.FullPath(), b.FullPath())}
		}
	}
	if r.Chance(1, 25) && len(q.Path) > 1 {
		rest := ""
		if i := strings.IndexByte(q.Path[1:], '/'); i >= 0 {
			rest = q.Path[1+i:]
		}
		q.Path = "/" + hx.Pick(r, []string{"é", "ü1", "\xff", "日本"}) + rest
	}
	if r.Chance(1, 25) && len(q.Path) > 1 && q.Path[0] == '/' && !HasStatic(script) {
		// no leading slash (a router behind http.StripPrefix sees such paths): outside the canonical domain, but
		// the two engines still have to agree
		q.Path = q.Path[1:]
		q.Raw = ""
	}
	return q
}

// GenFamily produces 2–4 requests for ONE router that instantiate templates of one family: same method,
// same number of segments, same first segment (the compiled matcher keeps such templates in one bucket of
// its first-segment index). Templates of a family overlap (one generalises another), so what an earlier
// request of the family did must not change the answer to a later one.
func GenFamily(r *hx.Rand, script []RegT) []ReqT {
	var g RegT
	for try := 0; try < 8; try++ {
		g = hx.Pick(r, script)
		if strings.Contains(g.FullPath(), ":") {
			break
		}
	}
	split := func(p string) []string { return strings.Split(strings.TrimPrefix(p, "/"), "/") }
	gs := split(g.FullPath())
	dyn := func(s string) bool { return s == "*" || strings.HasPrefix(s, ":") }
	var fam []RegT
	for _, h := range script {
		hs := split(h.FullPath())
		if h.Method == g.Method && len(hs) == len(gs) && (hs[0] == gs[0] || (dyn(hs[0]) && dyn(gs[0]))) {
			fam = append(fam, h)
		}
	}
	// pairs (h, g) of the family where h generalises g: first a request only h answers, then one for g
	type pair struct{ h, g RegT }
	var pairs []pair
	for _, h := range fam {
		for _, k := range fam {
			hs, ks := split(h.FullPath()), split(k.FullPath())
			gen, same := true, true
			for i := range hs {
				if hs[i] != ks[i] {
					same = false
					if !strings.HasPrefix(hs[i], ":") || dyn(ks[i]) {
						gen = false
					}
				}
			}
			if gen && !same {
				pairs = append(pairs, pair{h, k})
			}
		}
	}
	if len(pairs) > 0 && r.Chance(2, 3) {
		p := hx.Pick(r, pairs)
		out := []ReqT{{Method: g.Method, Path: instantiate(r, p.h.FullPath())}, {Method: g.Method, Path: instantiate(r, p.g.FullPath())}}
		if r.Chance(1, 3) {
			out = append([]ReqT{{Method: g.Method, Path: instantiate(r, p.g.FullPath())}}, out...)
		}
		return out
	}
	n := r.Range(2, 4)
	out := make([]ReqT, 0, n)
	for i := 0; i < n; i++ {
		h := hx.Pick(r, fam)
		q := ReqT{Method: g.Method, Path: instantiate(r, h.FullPath())}
		if r.Chance(1, 4) {
			q.Path = mergeInstantiate(r, h.FullPath(), hx.Pick(r, fam).FullPath())
		}
		out = append(out, q)
	}
	return out
}

// patterns Where rejects: "^" + p + "$" does not compile
var rejectedPatterns = []string{"[0-9", "(", "a**", `\d+(`, "a{2,1}", "[z-a]", "(?P<n"}

func init() {
	for _, p := range rejectedPatterns {
		if _, err := regexp.Compile("^" + p + "$"); err == nil {
			panic("rtgen: pattern " + p + " compiles")
		}
	}
}

var wideLabels = []string{"users", "orders", "items", "files", "posts", "tags", "teams", "repos", "keys", "jobs", "logs", "docs", "apps", "orgs", "a", "b"}

// GenWide: a node with 9–14 static children that are walked segment by segment (a parameter or a
// wildcard below each), optionally a parameter / wildcard sibling at the wide level, and requests that
// hit the late children of that node (plus an early one, an unknown one and a method without a route).
func GenWide(r *hx.Rand) ([]RegT, []ReqT) {
	prefix := hx.Pick(r, []string{"", "", "/api", "/api/v1", "/:tenant"})
	labels := append([]string(nil), wideLabels...)
	for i := len(labels) - 1; i > 0; i-- {
		j := r.Intn(i + 1)
		labels[i], labels[j] = labels[j], labels[i]
	}
	n := r.Range(9, 14)
	labels = labels[:n]
	m := hx.Pick(r, []string{"GET", "GET", "POST"})
	var script []RegT
	tails := make([]string, n)
	for i, l := range labels {
		tails[i] = hx.Pick(r, []string{"/:id", "/:id", "/:id", "/*", "/:id/x"})
		g := RegT{Method: m, Path: prefix + "/" + l + tails[i]}
		if tails[i] != "/*" && r.Chance(1, 5) {
			g.Cons = []ConsT{{Name: "id", Kind: "int"}}
		}
		script = append(script, g)
	}
	if r.Chance(1, 2) {
		script = append(script, RegT{Method: m, Path: prefix + "/:kind/:id"})
	}
	if r.Chance(1, 3) {
		script = append(script, RegT{Method: m, Path: prefix + "/*"})
	}
	if r.Chance(1, 3) {
		script = append(script, RegT{Method: "DELETE", Path: prefix + "/" + labels[n-1] + "/:id"})
	}
	inst := func(i int) string {
		p := strings.ReplaceAll(prefix, ":tenant", hx.Pick(r, []string{"t1", "acme"})) + "/" + labels[i]
		switch tails[i] {
		case "/*":
			return p + "/" + hx.Pick(r, []string{"a/b", "7", "x/y/z"})
		case "/:id/x":
			return p + "/" + hx.Pick(r, []string{"7", "42", "abc"}) + "/x"
		}
		return p + "/" + hx.Pick(r, []string{"7", "42", "abc", "1"})
	}
	var reqs []ReqT
	for i := 6; i < n; i++ {
		reqs = append(reqs, ReqT{Method: m, Path: inst(i)})
	}
	reqs = append(reqs, ReqT{Method: m, Path: inst(n - 1)}, ReqT{Method: m, Path: inst(n - 2)}, ReqT{Method: m, Path: inst(0)})
	reqs = append(reqs, ReqT{Method: m, Path: strings.ReplaceAll(prefix, ":tenant", "t1") + "/nothing/7"})
	reqs = append(reqs, ReqT{Method: "DELETE", Path: inst(n - 1)})
	return script, reqs
}

// GenSession produces 2–6 requests meant for one router instance: several of them instantiate the same
// pattern with different values under methods with and without a route, so that consecutive 404/405
// answers on one pattern have different right answers.
func GenSession(r *hx.Rand, script []RegT) []ReqT {
	n := r.Range(2, 6)
	out := make([]ReqT, 0, n)
	g := hx.Pick(r, script)
	other := hx.Pick(r, Methods)
	for i := 0; i < n; i++ {
		switch r.Intn(5) {
		case 0:
			out = append(out, GenReq(r, script))
		case 1, 2: // the same pattern again, a method chosen once for the session
			out = append(out, ReqT{Method: other, Path: instantiate(r, g.FullPath())})
		case 3:
			out = append(out, ReqT{Method: hx.Pick(r, Methods), Path: instantiate(r, g.FullPath())})
		default:
			out = append(out, ReqT{Method: g.Method, Path: instantiate(r, g.FullPath())})
		}
	}
	return out
}
