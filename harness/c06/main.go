// Harness for C06 (error responses conform to the selected formatter). Public API only:
// app.New + WithErrorFormatter / WithErrorFormatters / WithDefaultErrorFormat, routes whose handlers
// call c.Fail / c.FailStatus / c.NotFound …, observed through httptest.ResponseRecorder or a real
// net/http server; errors.ProblemDetail.MarshalJSON called directly for the reserved-member guard.
package main

import (
	"bytes"
	"context"
	"encoding/json"
	"errors"
	"fmt"
	"io"
	"log/slog"
	"math"
	"net/http"
	"net/http/httptest"
	"net/url"
	"regexp"
	"runtime"
	"sort"
	"strconv"
	"strings"
	"sync"
	"time"

	"rivaas.dev/app"
	riverrors "rivaas.dev/errors"
	"rivaas.dev/router"
	"verif/harness/hx"
)

// ---------------------------------------------------------------- case types

type fmtT struct {
	Kind      string  // rfc jsonapi simple
	BaseURL   string  `json:",omitempty"`
	DisableID bool    `json:",omitempty"`
	StatusRes *int    `json:",omitempty"`
	TypeRes   *string `json:",omitempty"`
}

type entryT struct {
	MT string
	F  fmtT
}

type optT struct {
	F   *fmtT    `json:",omitempty"`
	M   []entryT `json:",omitempty"`
	IsM bool     `json:",omitempty"`
	D   *string  `json:",omitempty"`
}

// mbReq is what a MustBind case binds from the query string (binding error on n, validation errors on name / age)
type mbReq struct {
	N    int    `query:"n"`
	Name string `query:"name" validate:"required,min=3"`
	Age  int    `query:"age" validate:"max=130"`
}

var mbQueries = []string{"", "?n=abc", "?name=x", "?n=abc&name=x", "?name=ok1&age=200", "?age=999", "?n=1.5&name=alice"}

// mbBody / mbBodies: MustBind on a POSTed JSON body (MB = len(mbQueries) + index)
type mbBody struct {
	Name string `json:"name" validate:"required,min=3"`
	Qty  int    `json:"qty" validate:"max=9"`
}

var mbBodies = []struct {
	body   string
	strict bool
}{
	{`{"name":"alice","extra":1}`, true}, // unknown field under WithStrict
	{`{"name":"x","qty":50}`, false},     // validation
	{`{"name":`, false},                  // malformed JSON
	{`{"name":"bob","qty":"many"}`, true}, // wrong type
	{`{"nam":"bob"}`, true},               // unknown field and a missing required one
}

type callT struct {
	// MB (Kind mustbind): index into mbQueries — the handler calls c.MustBind(&req), which fails with whatever
	// c.Bind returned (a binding error or a *validation.Error); the error tree is read off that value
	MB     int    `json:",omitempty"`
	Kind   string // fail status helper mustbind
	Status int    `json:",omitempty"`
	Helper int    `json:",omitempty"`
	Err    *errT  `json:",omitempty"`
}

type acaseT struct {
	Wire   string // r | s
	Opts   []optT
	Accept *string `json:",omitempty"`
	Len    int     // chain length (global middleware + before + main + after), 2..5
	Pos    int     // position of the failing handler
	Mask   int     // bit i set: handler i calls c.Next() (middleware style) instead of just returning
	Call   callT
	// PreCT: a Content-Type (and an unrelated header) already set when Fail is called — by the global
	// middleware before Next (PreAt 0: "default content type" middleware) or by the failing handler
	// itself right before it fails (PreAt 1: a handler that had prepared a download)
	PreCT *string `json:",omitempty"`
	PreAt int     `json:",omitempty"`
	// AbortFirst: the failing handler calls c.Abort() itself before it fails (guard style)
	AbortFirst bool `json:",omitempty"`
	// Prod: the app runs in the production environment (app.WithEnvironment("production"))
	Prod bool `json:",omitempty"`
	// NoCancelCheck: the app's router is built with router.WithoutCancellationCheck() (its other Next loop)
	NoCancelCheck bool `json:",omitempty"`
	// NextAfterFail: the failing handler goes on to call c.Next() after it failed (a guard with a missing return)
	NextAfterFail bool `json:",omitempty"`
	// CtxDone: the request's context becomes done inside the failing handler before it fails
	// (1 cancelled, 2 deadline exceeded) — a backend call timed out, the handler answers 504
	CtxDone int `json:",omitempty"`
	// Tail: a last path segment captured by a :tail parameter, any bytes but '/' (percent-encoded on
	// the wire); it reaches the body through req.URL.Path (RFC 9457 `instance`)
	Tail bstr `json:",omitempty"`
	// AcceptAdd: the request arrives with its Accept header in two field lines? No — the second line is added while
	// the request is served: the global middleware negotiates something of its own first (c.Accepts for a view
	// format), the failing handler then appends this field line (a compatibility shim for old clients) and fails.
	// What the client accepts is the joined list, which is what the oracle and the real Accepts (asked on a fresh
	// request carrying both lines) see.
	AcceptAdd string `json:",omitempty"`
	// AfterNoRoute: a request for a path no route matches is served first; the app's NoRoute handler answers it
	// with c.NotFound(nil) (an error response of its own, which aborts on a pooled context without a chain)
	AfterNoRoute bool `json:",omitempty"`
}

// accept: the Accept header as the failing handler sees it (field lines joined)
func (k acaseT) acceptSeen() *string {
	if k.AcceptAdd == "" {
		return k.Accept
	}
	if k.Accept == nil {
		s := k.AcceptAdd
		return &s
	}
	s := *k.Accept + ", " + k.AcceptAdd
	return &s
}

// ocaseT: overlapping failing requests on one app. Request 0 is served on its own goroutine with a
// ResponseWriter that parks inside WriteHeader ("h") or inside its first Write ("w") until the other
// requests (different errors) have been served completely; then it is released. Park "d": it parks inside the
// first Details() call of its error instead, i.e. in the middle of Formatter.Format. Every response is
// judged on its own by the ordinary oracle.
type ocaseT struct {
	Opts []optT
	Reqs []acaseT
	Park string
}

type mcaseT struct {
	Type, Title      string
	Status           int
	Detail, Instance string
	Ext              []extT
}

type extT struct {
	K string
	V string // JSON text
}

// fcaseT: Formatter.Format called directly (the errors package's own API, no app, no HTTP)
type fcaseT struct {
	F   fmtT
	Err errT
}

// pcaseT: a burst of failing requests served truly in parallel on one app (Workers goroutines, PerWorker requests
// each, recorder wire, every worker its own slot); every response is judged on its own by the ordinary oracle
type pcaseT struct {
	Opts      []optT
	Workers   int
	PerWorker int
}

type caseT struct {
	P   *pcaseT `json:",omitempty"`
	O   *ocaseT `json:",omitempty"`
	Idx int     `json:",omitempty"`
	A   *acaseT `json:",omitempty"`
	M   *mcaseT `json:",omitempty"`
	F   *fcaseT `json:",omitempty"`
}

// ---------------------------------------------------------------- JSON helpers

func decodeJSON(text string) any {
	var v any
	if err := json.Unmarshal([]byte(text), &v); err != nil {
		panic(fmt.Sprintf("bad JSON in case %q: %v", text, err))
	}
	return v
}

// canonical generic form: decode with UseNumber so that numbers keep their literal text
func canonDecode(b []byte) (any, error) {
	dec := json.NewDecoder(bytes.NewReader(b))
	dec.UseNumber()
	var v any
	if err := dec.Decode(&v); err != nil {
		return nil, err
	}
	return v, nil
}

func encJSON(l *hx.Line, v any) {
	switch x := v.(type) {
	case nil:
		l.Tok("z")
	case bool:
		if x {
			l.Tok("t")
		} else {
			l.Tok("f")
		}
	case json.Number:
		l.Tok("n").Str(x.String())
	case string:
		l.Tok("s").Str(x)
	case []any:
		l.Tok("a").Nat(len(x))
		for _, e := range x {
			encJSON(l, e)
		}
	case map[string]any:
		keys := make([]string, 0, len(x))
		for k := range x {
			keys = append(keys, k)
		}
		sort.Strings(keys)
		l.Tok("o").Nat(len(keys))
		for _, k := range keys {
			l.Str(k)
			encJSON(l, x[k])
		}
	default:
		panic(fmt.Sprintf("encJSON: %T", v))
	}
}

// canonOf marshals a Go value the way encoding/json does and returns the canonical generic form.
func canonOf(v any) any {
	b, err := json.Marshal(v)
	if err != nil {
		panic(err)
	}
	c, err := canonDecode(b)
	if err != nil {
		panic(err)
	}
	return c
}

var idRe = regexp.MustCompile(`^err-[0-9a-f]{32}$`)

// blankIDs replaces generated identifiers (RFC 9457 `error_id`, JSON:API `errors[i].id`) by "ID".
func blankIDs(v any) any {
	m, ok := v.(map[string]any)
	if !ok {
		return v
	}
	if s, ok := m["error_id"].(string); ok && idRe.MatchString(s) {
		m["error_id"] = "ID"
	}
	if arr, ok := m["errors"].([]any); ok {
		for _, e := range arr {
			if em, ok := e.(map[string]any); ok {
				if s, ok := em["id"].(string); ok && idRe.MatchString(s) {
					em["id"] = "ID"
				}
			}
		}
	}
	return m
}

// ---------------------------------------------------------------- building the real things

func (f fmtT) build() riverrors.Formatter {
	var sr func(error) int
	if f.StatusRes != nil {
		s := *f.StatusRes
		sr = func(error) int { return s }
	}
	switch f.Kind {
	case "broken":
		return brokenFormatter{}
	case "rfc":
		r := &riverrors.RFC9457{BaseURL: f.BaseURL, DisableErrorID: f.DisableID, StatusResolver: sr}
		if f.TypeRes != nil {
			t := *f.TypeRes
			r.TypeResolver = func(error) string { return t }
		}
		return r
	case "jsonapi":
		return &riverrors.JSONAPI{StatusResolver: sr}
	default:
		return &riverrors.Simple{StatusResolver: sr}
	}
}

// brokenFormatter: a user-written Formatter (the interface is public) whose Body never encodes
type brokenFormatter struct{}

func (brokenFormatter) Format(_ *http.Request, err error) riverrors.Response {
	status := http.StatusInternalServerError
	var t riverrors.ErrorType
	if errors.As(err, &t) {
		status = t.HTTPStatus()
	}
	return riverrors.Response{Status: status, ContentType: "application/x-trace+json",
		Body: map[string]any{"error": err.Error(), "trace": make(chan int)}}
}

func isBroken(opts []optT) bool {
	return len(opts) == 1 && opts[0].F != nil && opts[0].F.Kind == "broken"
}

// the state the pre-registered handlers read, one slot per request in flight (header X-Slot)
type slotT struct {
	c       *acaseT
	bindErr error // mustbind: what c.Bind returns for the request (captured by the handler)
	err     error
	entered []int
	aborted bool
}

var slots [20]slotT
var acceptAnswers []string

func slotIndex(r *http.Request) int {
	i, _ := strconv.Atoi(r.Header.Get("X-Slot"))
	if i < 0 || i >= len(slots) {
		i = 0
	}
	return i
}

func slotOf(r *http.Request) *slotT { return &slots[slotIndex(r)] }

// ---- the "handler error" record fail logs (slog default handler), attributed to the slot that is failing
type logRec struct {
	err    string
	status int
}

var (
	capMu   sync.Mutex
	capLogs [20][]logRec
	curSlot int
)

type capHandler struct{}

func (capHandler) Enabled(context.Context, slog.Level) bool { return true }
func (capHandler) WithAttrs([]slog.Attr) slog.Handler       { return capHandler{} }
func (capHandler) WithGroup(string) slog.Handler            { return capHandler{} }
type slotKey struct{}

func (capHandler) Handle(ctx context.Context, r slog.Record) error {
	if r.Message == "failed to write JSON response" {
		// the encoding (or write) failure record: kept as a marker, its error text is encoding/json's
		capMu.Lock()
		slot := curSlot
		if v, ok := ctx.Value(slotKey{}).(int); ok {
			slot = v
		}
		capLogs[slot] = append(capLogs[slot], logRec{err: r.Message, status: 0})
		capMu.Unlock()
		return nil
	}
	if r.Message != "handler error" {
		return nil
	}
	rec := logRec{status: -1}
	r.Attrs(func(a slog.Attr) bool {
		switch a.Key {
		case "error":
			if e, ok := a.Value.Any().(error); ok {
				rec.err = e.Error()
			} else {
				rec.err = a.Value.String()
			}
		case "status":
			rec.status = int(a.Value.Int64())
		}
		return true
	})
	capMu.Lock()
	slot := curSlot
	if v, ok := ctx.Value(slotKey{}).(int); ok { // recorder requests carry their slot in the request context
		slot = v
	}
	capLogs[slot] = append(capLogs[slot], rec)
	capMu.Unlock()
	return nil
}

var helperCalls = []func(c *app.Context, err error){
	func(c *app.Context, err error) { c.NotFound(err) },
	func(c *app.Context, err error) { c.BadRequest(err) },
	func(c *app.Context, err error) { c.Unauthorized(err) },
	func(c *app.Context, err error) { c.Forbidden(err) },
	func(c *app.Context, err error) { c.Conflict(err) },
	func(c *app.Context, err error) { c.Gone(err) },
	func(c *app.Context, err error) { c.UnprocessableEntity(err) },
	func(c *app.Context, err error) { c.TooManyRequests(err) },
	func(c *app.Context, err error) { c.InternalError(err) },
	func(c *app.Context, err error) { c.ServiceUnavailable(err) },
}

func handlerAt(i int) app.HandlerFunc {
	return func(c *app.Context) {
		sl := slotOf(c.Request)
		k := sl.c
		if k == nil {
			c.Next()
			return
		}
		sl.entered = append(sl.entered, i)
		if k.PreCT != nil && ((k.PreAt == 0 && i == 0) || (k.PreAt == 1 && i == k.Pos)) {
			c.Header("Content-Type", *k.PreCT)
			c.Header("X-Prepared", "1")
		}
		if i == 0 && k.AcceptAdd != "" {
			_ = c.Accepts("text/html", "application/json", "application/xml")
		}
		if i == k.Pos {
			if k.AcceptAdd != "" {
				c.Request.Header.Add("Accept", k.AcceptAdd)
			}
			if k.AbortFirst {
				c.Abort()
			}
			switch k.CtxDone {
			case 1:
				ctx, cancel := context.WithCancel(c.Request.Context())
				c.Request = c.Request.WithContext(ctx)
				cancel()
			case 2:
				ctx, cancel := context.WithDeadline(c.Request.Context(), time.Unix(1, 0))
				c.Request = c.Request.WithContext(ctx)
				defer cancel()
			}
			capMu.Lock()
			curSlot = slotIndex(c.Request)
			capMu.Unlock()
			switch k.Call.Kind {
			case "mustbind":
				if j := k.Call.MB - len(mbQueries); j >= 0 {
					var probe, req mbBody
					var bo []app.BindOption
					if mbBodies[j%len(mbBodies)].strict {
						bo = append(bo, app.WithStrict())
					}
					sl.bindErr = c.Bind(&probe, bo...)
					c.MustBind(&req, bo...)
					break
				}
				var probe, req mbReq
				sl.bindErr = c.Bind(&probe)
				c.MustBind(&req)
			case "fail":
				c.Fail(sl.err)
			case "status":
				c.FailStatus(k.Call.Status, sl.err)
			default:
				helperCalls[k.Call.Helper](c, sl.err)
			}
			sl.aborted = c.IsAborted()
			if k.NextAfterFail {
				c.Next()
			}
			return
		}
		if k.Mask&(1<<i) != 0 {
			c.Next()
		}
	}
}

type builtApp struct {
	a   *app.App
	srv *httptest.Server
}

var apps = map[string]*builtApp{}
var tableOptions = map[string]app.Option{}

func lastOffers(opts []optT) []string {
	var offers []string
	for _, o := range opts {
		if o.IsM {
			offers = offers[:0]
			for _, e := range o.M {
				offers = append(offers, e.MT)
			}
		}
	}
	return offers
}

func permutations(xs []string) [][]string {
	if len(xs) <= 1 {
		return [][]string{append([]string(nil), xs...)}
	}
	var out [][]string
	for i := range xs {
		rest := append(append([]string(nil), xs[:i]...), xs[i+1:]...)
		for _, p := range permutations(rest) {
			out = append(out, append([]string{xs[i]}, p...))
		}
	}
	return out
}

func getApp(opts []optT, noCancel, prod bool) *builtApp {
	keyB, _ := json.Marshal(opts)
	key := string(keyB) + fmt.Sprint(noCancel, prod)
	if b, ok := apps[key]; ok {
		return b
	}
	ao := []app.Option{app.WithServiceName("c06"), app.WithServiceVersion("1.0.0")}
	if noCancel {
		ao = append(ao, app.WithRouter(router.WithoutCancellationCheck()))
	}
	if prod {
		ao = append(ao, app.WithEnvironment("production"))
	}
	for _, o := range opts {
		switch {
		case o.F != nil:
			ao = append(ao, app.WithErrorFormatter(o.F.build()))
		case o.IsM:
			// one option VALUE per table, shared by every app configured with that table (as a package-level
			// `var errorFormats = app.WithErrorFormatters(...)` would be): apps must not share state through it
			mk, _ := json.Marshal(o.M)
			opt, ok := tableOptions[string(mk)]
			if !ok {
				m := map[string]riverrors.Formatter{}
				for _, e := range o.M {
					m[e.MT] = e.F.build()
				}
				opt = app.WithErrorFormatters(m)
				tableOptions[string(mk)] = opt
			}
			ao = append(ao, opt)
		case o.D != nil:
			ao = append(ao, app.WithDefaultErrorFormat(*o.D))
		}
	}
	a, err := app.New(ao...)
	if err != nil {
		panic(err)
	}
	a.Use(handlerAt(0))
	// chain of length n = global middleware (0) + nb before-handlers + main + na after-handlers
	for n := 2; n <= 5; n++ {
		for nb := 0; nb <= n-2; nb++ {
			na := n - 2 - nb
			var before, after []app.HandlerFunc
			for i := 0; i < nb; i++ {
				before = append(before, handlerAt(1+i))
			}
			for i := 0; i < na; i++ {
				after = append(after, handlerAt(2+nb+i))
			}
			a.GET(fmt.Sprintf("/f/%d/%d", n, nb), handlerAt(1+nb), app.WithBefore(before...), app.WithAfter(after...))
			a.POST(fmt.Sprintf("/f/%d/%d", n, nb), handlerAt(1+nb), app.WithBefore(before...), app.WithAfter(after...))
			a.GET(fmt.Sprintf("/t/%d/%d/:tail", n, nb), handlerAt(1+nb), app.WithBefore(before...), app.WithAfter(after...))
		}
	}
	a.NoRoute(func(c *app.Context) { c.NotFound(nil) })
	offers := lastOffers(opts)
	a.GET("/accepts", func(c *app.Context) {
		seen := map[string]bool{}
		acceptAnswers = nil
		for _, p := range permutations(offers) {
			ans := c.Accepts(p...)
			if !seen[ans] {
				seen[ans] = true
				acceptAnswers = append(acceptAnswers, ans)
			}
		}
		sort.Strings(acceptAnswers)
		_ = c.String(200, "ok")
	})
	b := &builtApp{a: a}
	apps[key] = b
	return b
}

func (b *builtApp) server() *httptest.Server {
	if b.srv == nil {
		b.srv = httptest.NewServer(b.a.Router())
	}
	return b.srv
}

var client = &http.Client{Transport: &http.Transport{DisableCompression: true}}

type obsT struct {
	status  int
	ctype   string
	bodies  []any
	aborted bool
	entered []int
	panic   bool
	logs    []logRec
	bindErr error
}

// nb picks how many of the handlers before the main one are "before" handlers: derived from the case
func (k acaseT) route() string {
	if k.Call.Kind == "mustbind" {
		kk := k
		kk.Call.Kind = "fail"
		if k.Call.MB >= len(mbQueries) {
			return kk.route()
		}
		return kk.route() + mbQueries[k.Call.MB]
	}
	nb := (k.Mask >> 8) % (k.Len - 1)
	if k.Tail != "" {
		return fmt.Sprintf("/t/%d/%d/%s", k.Len, nb, url.PathEscape(string(k.Tail)))
	}
	return fmt.Sprintf("/f/%d/%d", k.Len, nb)
}

// path is req.URL.Path of the case's request
func (k acaseT) path() string {
	nb := (k.Mask >> 8) % (k.Len - 1)
	if k.Tail != "" {
		return fmt.Sprintf("/t/%d/%d/%s", k.Len, nb, string(k.Tail))
	}
	return fmt.Sprintf("/f/%d/%d", k.Len, nb)
}

// postBody, when set, makes the next serve call a POST with this JSON body (MustBind on a body)
var postBody *string

func serve(b *builtApp, wire, path string, accept *string, slot int) (status int, ctype string, body []byte, panicked bool) {
	method, rd := http.MethodGet, io.Reader(nil)
	if postBody != nil {
		method, rd = http.MethodPost, strings.NewReader(*postBody)
	}
	ctJSON := postBody != nil
	postBody = nil
	if wire == "s" {
		req, _ := http.NewRequest(method, b.server().URL+path, rd)
		if ctJSON {
			req.Header.Set("Content-Type", "application/json")
		}
		req.Header.Set("X-Slot", strconv.Itoa(slot))
		if accept != nil {
			req.Header.Set("Accept", *accept)
		}
		resp, err := client.Do(req)
		if err != nil {
			return 0, "", nil, true
		}
		defer resp.Body.Close()
		if resp.StatusCode != http.StatusSwitchingProtocols {
			body, _ = io.ReadAll(resp.Body)
		}
		return resp.StatusCode, resp.Header.Get("Content-Type"), body, false
	}
	rec := httptest.NewRecorder()
	req := httptest.NewRequest(method, path, rd)
	if ctJSON {
		req.Header.Set("Content-Type", "application/json")
	}
	req = req.WithContext(context.WithValue(req.Context(), slotKey{}, slot))
	req.Header.Set("X-Slot", strconv.Itoa(slot))
	if accept != nil {
		req.Header.Set("Accept", *accept)
	}
	func() {
		defer func() {
			if p := recover(); p != nil {
				panicked = true
			}
		}()
		b.a.Router().ServeHTTP(rec, req)
	}()
	return rec.Code, rec.Header().Get("Content-Type"), rec.Body.Bytes(), panicked
}

func answersFor(b *builtApp, accept *string) []string {
	// what c.Accepts answers for every order of the configured media types
	slots[0].c = nil
	acceptAnswers = nil
	serve(b, "r", "/accepts", accept, 0)
	answers := acceptAnswers
	if len(answers) == 0 {
		answers = []string{""}
	}
	return answers
}

func arm(slot int, k *acaseT) {
	slots[slot] = slotT{c: k}
	capMu.Lock()
	capLogs[slot] = nil
	capMu.Unlock()
	if k.Call.Err != nil {
		slots[slot].err = k.Call.Err.build()
	}
}

func observe(slot, st int, ct string, body []byte, panicked bool) obsT {
	sl := &slots[slot]
	o := obsT{status: st, ctype: ct, aborted: sl.aborted, entered: append([]int(nil), sl.entered...), panic: panicked, bindErr: sl.bindErr}
	sl.c = nil
	capMu.Lock()
	o.logs = append([]logRec(nil), capLogs[slot]...)
	capMu.Unlock()
	dec := json.NewDecoder(bytes.NewReader(body))
	dec.UseNumber()
	for {
		var v any
		err := dec.Decode(&v)
		if err == io.EOF {
			break
		}
		if err != nil {
			o.bodies = append(o.bodies, "!not-json: "+err.Error())
			break
		}
		o.bodies = append(o.bodies, blankIDs(v))
	}
	return o
}

func runA(k acaseT) (obsT, []string) {
	b := getApp(k.Opts, k.NoCancelCheck, k.Prod)
	answers := answersFor(b, k.acceptSeen())
	if k.AfterNoRoute {
		slots[0].c = nil
		serve(b, "r", "/no/such/route", k.Accept, 0)
	}
	arm(0, &k)
	if j := k.Call.MB - len(mbQueries); k.Call.Kind == "mustbind" && j >= 0 {
		postBody = &mbBodies[j%len(mbBodies)].body
	}
	st, ct, body, panicked := serve(b, k.Wire, k.route(), k.Accept, 0)
	return observe(0, st, ct, body, panicked), answers
}

// parkWriter is request 0's ResponseWriter in an overlap case.
type parkWriter struct {
	h       http.Header
	code    int
	body    bytes.Buffer
	park    string
	parked  chan struct{}
	release chan struct{}
	done    bool
}

func (w *parkWriter) Header() http.Header { return w.h }

func (w *parkWriter) stall() {
	if !w.done {
		w.done = true
		close(w.parked)
		<-w.release
	}
}

func (w *parkWriter) WriteHeader(code int) {
	if w.code == 0 {
		w.code = code
	}
	if w.park == "h" {
		w.stall()
	}
}

func (w *parkWriter) Write(p []byte) (int, error) {
	if w.code == 0 {
		w.code = http.StatusOK
	}
	if w.park == "w" {
		w.stall()
	}
	return w.body.Write(p)
}

func runO(k ocaseT) ([]obsT, [][]string) {
	b := getApp(k.Opts, false, false)
	n := len(k.Reqs)
	answers := make([][]string, n)
	for i := range k.Reqs {
		answers[i] = answersFor(b, k.Reqs[i].acceptSeen())
	}
	pw := &parkWriter{h: http.Header{}, park: k.Park, parked: make(chan struct{}), release: make(chan struct{})}
	for i := range k.Reqs {
		if i == 0 && k.Park == "d" {
			// request 0 parks inside the first Details() call of its error (a lookup that takes its time)
			detailsHook = pw.stall
		}
		arm(i, &k.Reqs[i])
		detailsHook = nil
	}
	// one P: the goroutines of the overlapping requests share its sync.Pool slots, as requests on a
	// busy server do
	defer runtime.GOMAXPROCS(runtime.GOMAXPROCS(1))
	finished := make(chan bool, 1)
	go func() {
		panicked := false
		defer func() {
			if r := recover(); r != nil {
				panicked = true
			}
			finished <- panicked
		}()
		req := httptest.NewRequest(http.MethodGet, k.Reqs[0].route(), nil)
		req = req.WithContext(context.WithValue(req.Context(), slotKey{}, 0))
		req.Header.Set("X-Slot", "0")
		if k.Reqs[0].Accept != nil {
			req.Header.Set("Accept", *k.Reqs[0].Accept)
		}
		b.a.Router().ServeHTTP(pw, req)
	}()
	obs := make([]obsT, n)
	early := false
	var pan0 bool
	select {
	case <-pw.parked:
	case pan0 = <-finished: // never reached the parking point
		early = true
	}
	for i := 1; i < n; i++ {
		st, ct, body, panicked := serve(b, "r", k.Reqs[i].route(), k.Reqs[i].Accept, i)
		obs[i] = observe(i, st, ct, body, panicked)
	}
	if !early {
		close(pw.release)
		pan0 = <-finished
	}
	obs[0] = observe(0, pw.code, pw.h.Get("Content-Type"), pw.body.Bytes(), pan0)
	return obs, answers
}

// ---------------------------------------------------------------- case line

func encFmt(l *hx.Line, f fmtT) {
	l.Tok(map[string]string{"rfc": "r", "jsonapi": "j", "simple": "s"}[f.Kind]).Str(f.BaseURL).Bool(f.DisableID)
	if f.StatusRes != nil {
		l.Bool(true).Nat(*f.StatusRes)
	} else {
		l.Bool(false)
	}
	if f.TypeRes != nil {
		l.Bool(true).Str(*f.TypeRes)
	} else {
		l.Bool(false)
	}
}

// detMode: 0 no Details method, 1 details (canonical JSON in det), 2 details that cannot be encoded
func node(l *hx.Line, st *int, code *string, det any, detMode int, msg func(), kids func() int) {
	l.Tok("N")
	if st != nil {
		l.Bool(true).Nat(*st)
	} else {
		l.Bool(false)
	}
	if code != nil {
		l.Bool(true).Str(*code)
	} else {
		l.Bool(false)
	}
	switch detMode {
	case 1:
		l.Nat(1)
		encJSON(l, det)
	case 2:
		l.Nat(2)
	default:
		l.Nat(0)
	}
	msg()
	kids()
}

// set by encErr when the tree has a details layer that cannot be encoded (counter only)
var badSeen bool
var bad = &badSeen

var errValidationText = func() string {
	var v any = errT{Kind: "fielderr", Fields: []fldT{{}}}.build()
	if u, ok := v.(interface{ Unwrap() error }); ok && u.Unwrap() != nil {
		return u.Unwrap().Error()
	}
	return ""
}()

// encErr writes the error as the rose tree errors.As walks: per layer what it implements, how its
// Error() text comes about, and what Unwrap yields.
func encErr(l *hx.Line, e errT, depth *int, caps *int, statuses map[int]bool) {
	*depth++
	leaf := func() int { l.Nat(0); return 0 }
	one := func(k errT) func() int {
		return func() int { l.Nat(1); encErr(l, k, depth, caps, statuses); return 1 }
	}
	switch e.Kind {
	case "new":
		node(l, nil, nil, nil, 0, func() { l.Tok("O").Str(jt(string(e.Msg))) }, leaf)
	case "wrap":
		node(l, nil, nil, nil, 0, func() { l.Tok("P").Str(jt(string(e.Msg))) }, one(*e.Inner))
	case "join":
		node(l, nil, nil, nil, 0, func() { l.Tok("J") }, func() int {
			l.Nat(len(e.Kids))
			for _, k := range e.Kids {
				encErr(l, k, depth, caps, statuses)
			}
			return len(e.Kids)
		})
	case "status":
		st := e.Status
		statuses[st] = true
		if e.Inner == nil {
			node(l, &st, nil, nil, 0, func() { l.Tok("T").Nat(st) }, leaf)
		} else {
			node(l, &st, nil, nil, 0, func() { l.Tok("I") }, one(*e.Inner))
		}
	case "typed":
		var st *int
		var code *string
		n := 0
		if e.HasSt {
			st = &e.St
			statuses[e.St] = true
			n++
		}
		if e.HasCo {
			cs := jt(string(e.Code))
			code = &cs
			n++
		}
		var det any
		detMode := 0
		if e.HasDe {
			if e.BadDet > 0 {
				detMode = 2
				*bad = true
			} else {
				det, detMode = canonOf(decodeJSON(e.Det)), 1
			}
			n++
		}
		if n > *caps {
			*caps = n
		}
		kids := leaf
		if e.Inner != nil {
			kids = one(*e.Inner)
		}
		node(l, st, code, det, detMode, func() { l.Tok("O").Str(jt(string(e.Msg))) }, kids)
	case "valerr", "valerrptr":
		st := 422
		statuses[st] = true
		code := "validation_error"
		v := e.valErr()
		*caps = 3
		node(l, &st, &code, canonOf(v.Details()), 1, func() { l.Tok("O").Str(jt(v.Error())) },
			one(errT{Kind: "new", Msg: bstr(errValidationText)}))
	case "fielderr":
		st := 422
		statuses[st] = true
		node(l, &st, nil, nil, 0, func() { l.Tok("O").Str(jt(e.build().Error())) },
			one(errT{Kind: "new", Msg: bstr(errValidationText)}))
	default:
		// any other real error value: read the tree off the value itself
		*depth--
		encReal(l, e.build(), depth, caps, statuses)
	}
}

// encReal writes a real error value as the rose tree errors.As walks: at each layer what it implements
// (the same interface assertions errors.As makes), its Error() text, and what Unwrap yields.
func encReal(l *hx.Line, err error, depth *int, caps *int, statuses map[int]bool) {
	*depth++
	var st *int
	var code *string
	var det any
	hasDet, badDet := false, false
	n := 0
	if t, ok := err.(riverrors.ErrorType); ok {
		s := t.HTTPStatus()
		st = &s
		statuses[s] = true
		n++
	}
	if c, ok := err.(riverrors.ErrorCode); ok {
		cs := jt(c.Code())
		code = &cs
		n++
	}
	if d, ok := err.(riverrors.ErrorDetails); ok {
		hasDet = true
		if _, mErr := json.Marshal(d.Details()); mErr != nil {
			badDet = true
			*bad = true
		} else {
			det = canonOf(d.Details())
		}
		n++
	}
	if n > *caps {
		*caps = n
	}
	var kids []error
	switch u := err.(type) {
	case interface{ Unwrap() error }:
		if k := u.Unwrap(); k != nil {
			kids = []error{k}
		}
	case interface{ Unwrap() []error }:
		kids = u.Unwrap()
	}
	detMode := 0
	if hasDet {
		detMode = 1
	}
	if badDet {
		detMode = 2
	}
	node(l, st, code, det, detMode, func() { l.Tok("O").Str(jt(err.Error())) }, func() int {
		l.Nat(len(kids))
		for _, k := range kids {
			encReal(l, k, depth, caps, statuses)
		}
		return len(kids)
	})
}

var helperStatus = []int{404, 400, 401, 403, 409, 410, 422, 429, 500, 503}

func emitA(id string, k acaseT, st *hx.Stats) string {
	if k.Call.Kind == "mustbind" && k.Call.MB >= len(mbQueries) {
		k.Tail = "" // the body cases use the plain routes (POST is registered there)
	}
	o, answers := runA(k)
	return lineA(id, k, o, answers, st) + hx.Comment(caseT{A: &k})
}

func emitP(id string, k pcaseT, st *hx.Stats) []string {
	if k.Workers > len(slots) {
		k.Workers = len(slots)
	}
	b := getApp(k.Opts, false, false)
	answers := answersFor(b, nil)
	type one struct {
		k acaseT
		o obsT
	}
	res := make([][]one, k.Workers)
	var wg sync.WaitGroup
	for w := 0; w < k.Workers; w++ {
		wg.Add(1)
		go func(w int) {
			defer wg.Done()
			for i := 0; i < k.PerWorker; i++ {
				e := errT{Kind: "typed", Msg: bstr(fmt.Sprintf("order %d-%d not found", w, i)), HasSt: true, St: []int{404, 409, 422, 503}[(w+i)%4], HasCo: true, Code: "E_ORDER"}
				a := acaseT{Wire: "r", Opts: k.Opts, Len: 2, Pos: 1, Mask: 1, Call: callT{Kind: "fail", Err: &e}}
				arm(w, &a)
				st, ct, body, panicked := serve(b, "r", a.route(), nil, w)
				res[w] = append(res[w], one{a, observe(w, st, ct, body, panicked)})
			}
		}(w)
	}
	wg.Wait()
	var out []string
	for w := range res {
		for i, r := range res[w] {
			out = append(out, lineA(fmt.Sprintf("%s.%d.%d", id, w, i), r.k, r.o, answers, st)+hx.Comment(caseT{P: &k}))
		}
	}
	if st != nil {
		st.Count("fail_parallel_bursts")
	}
	return out
}

func emitO(id string, k ocaseT, only int, st *hx.Stats) []string {
	obs, answers := runO(k)
	var out []string
	for i := range k.Reqs {
		if only >= 0 && i != only {
			continue
		}
		lid := id
		if only < 0 {
			lid = fmt.Sprintf("%s.%d", id, i)
		}
		out = append(out, lineA(lid, k.Reqs[i], obs[i], answers[i], st)+hx.Comment(caseT{O: &k, Idx: i}))
	}
	if st != nil {
		st.Count("fail_overlapping_histories")
	}
	return out
}

// lineB: the configured formatter's body never encodes; the model needs the failing position only
func lineB(id string, k acaseT, o obsT, st *hx.Stats) string {
	l := hx.NewLine(id).Tok("B").Nat(k.Pos)
	in := l.String()
	l.Sep()
	encObs(l, o)
	if st != nil {
		st.Case(in[len(id):]+fmt.Sprint(k.Len, k.Mask, k.NextAfterFail, k.AbortFirst), k.Len-k.Pos >= 2)
		st.Count("fail_formatter_body_never_encodes")
	}
	return l.String()
}

func encObs(l *hx.Line, o obsT) {
	if o.panic {
		l.Tok("P")
		return
	}
	l.Tok("R").Nat(o.status).Str(o.ctype).Nat(len(o.bodies))
	for _, b := range o.bodies {
		encJSON(l, b)
	}
	l.Bool(o.aborted).Nat(len(o.entered))
	for _, e := range o.entered {
		l.Nat(e)
	}
	l.Nat(len(o.logs))
	for _, r := range o.logs {
		l.Str(jt(r.err)).Nat(max(r.status, 0))
	}
}

func lineA(id string, k acaseT, o obsT, answers []string, st *hx.Stats) string {
	if isBroken(k.Opts) {
		return lineB(id, k, o, st)
	}
	l := hx.NewLine(id).Tok("A").Tok(k.Wire).Str(jt(k.path()))
	// the error tree goes to a side line first so that the statuses it mentions are known
	el := hx.NewLine("")
	depth, caps := 0, 0
	badSeen = false
	statuses := map[int]bool{500: true}
	switch k.Call.Kind {
	case "mustbind":
		if o.bindErr == nil {
			return "# skipped " + id + ": MustBind succeeded, nothing fails"
		}
		el.Tok("C")
		encReal(el, o.bindErr, &depth, &caps, statuses)
	case "fail":
		el.Tok("C")
		encErr(el, *k.Call.Err, &depth, &caps, statuses)
	case "status":
		statuses[k.Call.Status] = true
		el.Tok("S").Nat(k.Call.Status)
		if k.Call.Err != nil {
			el.Bool(true)
			encErr(el, *k.Call.Err, &depth, &caps, statuses)
		} else {
			el.Bool(false)
		}
	default:
		statuses[helperStatus[k.Call.Helper]] = true
		el.Tok("H").Nat(k.Call.Helper)
		if k.Call.Err != nil {
			el.Bool(true)
			encErr(el, *k.Call.Err, &depth, &caps, statuses)
		} else {
			el.Bool(false)
		}
	}
	for _, op := range k.Opts {
		fs := []fmtT{}
		if op.F != nil {
			fs = append(fs, *op.F)
		}
		for _, e := range op.M {
			fs = append(fs, e.F)
		}
		for _, f := range fs {
			if f.StatusRes != nil {
				statuses[*f.StatusRes] = true
			}
		}
	}
	sts := make([]int, 0, len(statuses))
	for s := range statuses {
		sts = append(sts, s)
	}
	sort.Ints(sts)
	l.Nat(len(sts))
	for _, s := range sts {
		l.Nat(s).Str(http.StatusText(s))
	}
	l.Nat(len(k.Opts))
	for _, op := range k.Opts {
		switch {
		case op.F != nil:
			l.Tok("F")
			encFmt(l, *op.F)
		case op.IsM:
			l.Tok("M").Nat(len(op.M))
			for _, e := range op.M {
				l.Str(e.MT)
				encFmt(l, e.F)
			}
		default:
			l.Tok("D").Str(*op.D)
		}
	}
	if acc := k.acceptSeen(); acc != nil {
		l.Bool(true).Str(*acc)
	} else {
		l.Bool(false)
	}
	l.Strs(answers)
	// strconv.ParseFloat on every raw parameter value of the header (parameter of the model of Accepts)
	var raws []string
	seenRaw := map[string]bool{}
	if acc := k.acceptSeen(); acc != nil {
		for _, v := range rawValues(*acc) {
			if !seenRaw[v] {
				seenRaw[v] = true
				raws = append(raws, v)
			}
		}
	}
	l.Nat(len(raws))
	for _, v := range raws {
		l.Str(v)
		if m, ok := pfMicro(v); ok {
			l.Bool(true).Nat(m)
		} else {
			l.Bool(false)
		}
	}
	if k.PreCT != nil {
		l.Bool(true).Str(*k.PreCT)
	} else {
		l.Bool(false)
	}
	l.Bool(k.AbortFirst)
	l.Bool(k.CtxDone != 0)
	l.Nat(k.Pos)
	l.Tok(strings.TrimSpace(el.String()))
	in := l.String()
	l.Sep()
	encObs(l, o)
	if st != nil {
		st.Case(in[len(id):], depth >= 3 || caps >= 2)
		st.Count("fail_wire_" + k.Wire)
		st.Count("fail_call_" + k.Call.Kind)
		st.Count("fail_status_" + strconv.Itoa(o.status/100) + "xx")
		st.Count("fail_depth_" + strconv.Itoa(min(depth, 6)))
		cfg := "default"
		for _, op := range k.Opts {
			if op.F != nil {
				cfg = "single_" + op.F.Kind
			} else if op.IsM {
				cfg = "negotiated"
			}
		}
		st.Count("fail_cfg_" + cfg)
		if k.Accept != nil {
			st.Count("fail_accept_present")
		}
		if len(answers) > 1 {
			st.Count("fail_accepts_order_dependent")
		}
		if k.PreCT != nil {
			st.Count("fail_content_type_preset_" + strconv.Itoa(k.PreAt))
		}
		if k.AbortFirst {
			st.Count("fail_after_abort")
		}
		if k.CtxDone != 0 {
			st.Count("fail_with_context_done")
		}
		if k.NextAfterFail {
			st.Count("fail_then_next")
		}
		if k.NoCancelCheck {
			st.Count("fail_router_without_cancellation_check")
		}
		if k.Prod {
			st.Count("fail_production_environment")
		}
		if k.AcceptAdd != "" {
			st.Count("fail_after_accept_line_added_mid_request")
		}
		if k.AfterNoRoute {
			st.Count("fail_after_a_request_answered_by_the_noroute_handler")
		}
		if badSeen {
			st.Count("fail_details_unencodable")
		}
	}
	return l.String()
}

// rawValues over-approximates the set of strings the Accept parser may hand to strconv.ParseFloat.
func rawValues(h string) []string {
	var out []string
	for _, part := range strings.Split(h, ",") {
		for _, p := range strings.Split(part, ";") {
			i := strings.IndexByte(p, '=')
			if i < 0 {
				continue
			}
			v := strings.Trim(p[i+1:], " \t")
			out = append(out, v)
			if len(v) >= 2 && v[0] == '"' && v[len(v)-1] == '"' {
				out = append(out, v[1:len(v)-1])
			}
		}
	}
	return out
}

// pfMicro: the ParseFloat fallback's verdict on raw (quality in millionths, accepted); the generator only uses
// values that are exact in millionths
func pfMicro(raw string) (int, bool) {
	q, err := strconv.ParseFloat(raw, 64)
	if err != nil || !(q >= 0 && q <= 1) {
		return 0, false
	}
	m := math.Round(q * 1e6)
	if m/1e6 != q {
		return 0, false
	}
	return int(m), true
}

func emitM(id string, k mcaseT, st *hx.Stats) string {
	l := hx.NewLine(id).Tok("M").Str(k.Type).Str(k.Title).Nat(k.Status).Str(k.Detail).Str(k.Instance)
	p := riverrors.ProblemDetail{Type: k.Type, Title: k.Title, Status: k.Status, Detail: k.Detail, Instance: k.Instance}
	// extensions are a Go map: later duplicates overwrite earlier ones, like in the map literal
	m := map[string]any{}
	var keys []string
	for _, e := range k.Ext {
		if _, dup := m[e.K]; !dup {
			keys = append(keys, e.K)
		}
		m[e.K] = decodeJSON(e.V)
	}
	if len(k.Ext) > 0 {
		p.Extensions = m
	}
	l.Nat(len(keys))
	reservedHit := false
	for _, key := range keys {
		l.Str(key)
		encJSON(l, canonOf(m[key]))
		switch key {
		case "type", "title", "status", "detail", "instance":
			reservedHit = true
		}
	}
	in := l.String()
	l.Sep()
	func() {
		defer func() {
			if r := recover(); r != nil {
				l.Tok("P")
			}
		}()
		b, err := json.Marshal(p)
		if err != nil {
			l.Tok("E")
			return
		}
		v, err := canonDecode(b)
		if err != nil {
			l.Tok("E")
			return
		}
		l.Tok("R")
		encJSON(l, v)
	}()
	if st != nil {
		st.Case(in[len(id):], reservedHit)
		st.Count("marshal")
		if reservedHit {
			st.Count("marshal_reserved_key_in_extensions")
		}
	}
	return l.String() + hx.Comment(caseT{M: &k})
}

func emitF(id string, k fcaseT, st *hx.Stats) string {
	const path = "/direct/format"
	l := hx.NewLine(id).Tok("F").Str(path)
	el := hx.NewLine("")
	depth, caps := 0, 0
	statuses := map[int]bool{500: true}
	encErr(el, k.Err, &depth, &caps, statuses)
	if k.F.StatusRes != nil {
		statuses[*k.F.StatusRes] = true
	}
	sts := make([]int, 0, len(statuses))
	for s := range statuses {
		sts = append(sts, s)
	}
	sort.Ints(sts)
	l.Nat(len(sts))
	for _, s := range sts {
		l.Nat(s).Str(http.StatusText(s))
	}
	encFmt(l, k.F)
	l.Tok(strings.TrimSpace(el.String()))
	in := l.String()
	l.Sep()
	func() {
		defer func() {
			if r := recover(); r != nil {
				l.Tok("P")
			}
		}()
		resp := k.F.build().Format(httptest.NewRequest(http.MethodGet, path, nil), k.Err.build())
		l.Tok("R").Nat(resp.Status).Str(resp.ContentType)
		encJSON(l, blankIDs(canonOf(resp.Body)))
	}()
	if st != nil {
		st.Case(in[len(id):], depth >= 3 || caps >= 2)
		st.Count("format_direct_" + k.F.Kind)
	}
	return l.String() + hx.Comment(caseT{F: &k})
}

func main() {
	slog.SetDefault(slog.New(capHandler{}))
	a := hx.ParseArgs()
	w := hx.Out()
	defer w.Flush()
	defer func() {
		for _, b := range apps {
			if b.srv != nil {
				b.srv.Close()
			}
		}
	}()
	switch a.Cmd {
	case "gen":
		r := hx.NewRand(a.Seed)
		st := hx.NewStats()
		for i, c := range fixedCases() {
			if c.P != nil {
				for _, line := range emitP(fmt.Sprintf("c06-fix-%d", i), *c.P, st) {
					fmt.Fprintln(w, line)
				}
			} else if c.O != nil {
				for _, line := range emitO(fmt.Sprintf("c06-fix-%d", i), *c.O, -1, st) {
					fmt.Fprintln(w, line)
				}
			} else if c.A != nil {
				fmt.Fprintln(w, emitA(fmt.Sprintf("c06-fix-%d", i), *c.A, st))
			} else {
				fmt.Fprintln(w, emitM(fmt.Sprintf("c06-fix-%d", i), *c.M, st))
			}
		}
		g := newGen(r)
		for i := 0; i < a.N; i++ {
			if r.Chance(1, 8) {
				fmt.Fprintln(w, emitM(fmt.Sprintf("c06-m-%d-%d", a.Seed, i), g.mcase(), st))
			} else if r.Chance(1, 10) {
				for _, line := range emitO(fmt.Sprintf("c06-o-%d-%d", a.Seed, i), g.ocase(), -1, st) {
					fmt.Fprintln(w, line)
				}
			} else if r.Chance(1, 8) {
				g.noBad = true
				fk := fcaseT{F: g.fmt(), Err: g.err(0)}
				g.noBad = false
				fmt.Fprintln(w, emitF(fmt.Sprintf("c06-f-%d-%d", a.Seed, i), fk, st))
			} else {
				fmt.Fprintln(w, emitA(fmt.Sprintf("c06-a-%d-%d", a.Seed, i), g.acase(), st))
			}
		}
		st.Emit(w)
	case "replay":
		for _, line := range hx.StdinLines() {
			var k caseT
			id, err := hx.CaseFromComment(line, &k)
			if err != nil {
				fmt.Fprintf(w, "# cannot replay %q: %v\n", id, err)
				continue
			}
			switch {
			case k.P != nil:
				for _, line := range emitP(id, *k.P, nil) {
					fmt.Fprintln(w, line)
				}
			case k.O != nil:
				for _, line := range emitO(id, *k.O, k.Idx, nil) {
					fmt.Fprintln(w, line)
				}
			case k.A != nil:
				fmt.Fprintln(w, emitA(id, *k.A, nil))
			case k.M != nil:
				fmt.Fprintln(w, emitM(id, *k.M, nil))
			case k.F != nil:
				fmt.Fprintln(w, emitF(id, *k.F, nil))
			}
		}
	}
}
