package main

import (
	"encoding/hex"
	"encoding/json"
	"errors"
	"fmt"
	"math"
	"reflect"
	"strconv"
	"unicode/utf8"

	"rivaas.dev/binding"

	riverrors "rivaas.dev/errors"
	"rivaas.dev/validation"
)

// errT is the error grammar of the property statement:
// errors.New | fmt.Errorf(%w) | errors.Join | WithStatus | user types implementing any subset of
// ErrorType / ErrorCode / ErrorDetails (with or without Unwrap) | validation.Error | validation.FieldError.
type errT struct {
	Kind   string // new wrap join status typed valerr valerrptr fielderr
	Msg    bstr   `json:",omitempty"`
	Kids   []errT `json:",omitempty"` // join
	Inner  *errT  `json:",omitempty"` // wrap, status (nil allowed), typed (nil = no Unwrap method)
	Status int    `json:",omitempty"` // status
	HasSt  bool   `json:",omitempty"` // typed
	St     int    `json:",omitempty"`
	HasCo  bool   `json:",omitempty"`
	Code   bstr   `json:",omitempty"`
	HasDe  bool   `json:",omitempty"`
	Det    string `json:",omitempty"` // typed: JSON text of what Details() returns
	BadDet int    `json:",omitempty"` // typed, HasDe: Details() returns a value encoding/json cannot encode (1..6, see badDetail)
	Fields []fldT `json:",omitempty"` // valerr
	Trunc  bool   `json:",omitempty"`
}

// bstr is a Go string that may hold any bytes (control bytes, invalid UTF-8). In the JSON comment of a case
// line it travels as a plain string when it is valid UTF-8 and as {"x": hex} otherwise, so that replay
// rebuilds exactly the same bytes (encoding/json would replace invalid bytes by U+FFFD).
type bstr string

func (b bstr) MarshalJSON() ([]byte, error) {
	if utf8.ValidString(string(b)) {
		return json.Marshal(string(b))
	}
	return json.Marshal(map[string]string{"x": hex.EncodeToString([]byte(b))})
}

func (b *bstr) UnmarshalJSON(data []byte) error {
	var s string
	if err := json.Unmarshal(data, &s); err == nil {
		*b = bstr(s)
		return nil
	}
	var m map[string]string
	if err := json.Unmarshal(data, &m); err != nil {
		return err
	}
	raw, err := hex.DecodeString(m["x"])
	*b = bstr(raw)
	return err
}

// jt is a string as encoding/json transports it: marshalled and read back (invalid UTF-8 becomes U+FFFD;
// everything else, control bytes and U+2028 included, survives). encoding/json is a parameter of the model.
func jt(s string) string {
	b, err := json.Marshal(s)
	if err != nil {
		panic(err)
	}
	var out string
	if err := json.Unmarshal(b, &out); err != nil {
		panic(err)
	}
	return out
}

type fldT struct {
	Path, Code, Message string
	Meta                string `json:",omitempty"` // JSON text of a map, "" = nil
}

// ---- user error types: every subset of the three interfaces, with and without Unwrap ----

type base struct {
	msg   string
	inner error
	st    int
	code  string
	det   any
	// hook, when set, runs at the start of Details() (overlap cases: the request parks there)
	hook func()
}

func (b *base) details() any {
	if b.hook != nil {
		b.hook()
	}
	return b.det
}

// detailsHook is given to every typed error built while it is set
var detailsHook func()

func (b *base) Error() string { return b.msg }

type (
	t0   struct{ base }
	tS   struct{ base }
	tC   struct{ base }
	tD   struct{ base }
	tSC  struct{ base }
	tSD  struct{ base }
	tCD  struct{ base }
	tSCD struct{ base }
)

func (e *tS) HTTPStatus() int   { return e.st }
func (e *tSC) HTTPStatus() int  { return e.st }
func (e *tSD) HTTPStatus() int  { return e.st }
func (e *tSCD) HTTPStatus() int { return e.st }
func (e *tC) Code() string      { return e.code }
func (e *tSC) Code() string     { return e.code }
func (e *tCD) Code() string     { return e.code }
func (e *tSCD) Code() string    { return e.code }
func (e *tD) Details() any { return e.details() }
func (e *tSD) Details() any { return e.details() }
func (e *tCD) Details() any { return e.details() }
func (e *tSCD) Details() any { return e.details() }

type (
	u0   struct{ t0 }
	uS   struct{ tS }
	uC   struct{ tC }
	uD   struct{ tD }
	uSC  struct{ tSC }
	uSD  struct{ tSD }
	uCD  struct{ tCD }
	uSCD struct{ tSCD }
)

func (e *u0) Unwrap() error   { return e.inner }
func (e *uS) Unwrap() error   { return e.inner }
func (e *uC) Unwrap() error   { return e.inner }
func (e *uD) Unwrap() error   { return e.inner }
func (e *uSC) Unwrap() error  { return e.inner }
func (e *uSD) Unwrap() error  { return e.inner }
func (e *uCD) Unwrap() error  { return e.inner }
func (e *uSCD) Unwrap() error { return e.inner }

var (
	_ riverrors.ErrorType    = (*uSCD)(nil)
	_ riverrors.ErrorCode    = (*uSCD)(nil)
	_ riverrors.ErrorDetails = (*uSCD)(nil)
)

// failingJSON is a value whose MarshalJSON reports an error (a lazily loaded record whose store is gone)
type failingJSON struct{ Field string }

func (failingJSON) MarshalJSON() ([]byte, error) { return nil, errors.New("record store closed") }

// badDetail: what a careless Details() can return that encoding/json refuses
func badDetail(k int) any {
	switch k {
	case 1:
		return math.NaN()
	case 2:
		return make(chan int)
	case 3:
		return failingJSON{Field: "email"}
	case 4:
		return map[string]any{"limit": math.Inf(1), "field": "amount"}
	case 5:
		return []any{map[string]any{"path": "email", "message": "bad"}, func() {}}
	default:
		return []failingJSON{{Field: "a"}}
	}
}

func mkTyped(e errT) error {
	b := base{msg: string(e.Msg), st: e.St, code: string(e.Code), hook: detailsHook}
	if e.HasDe {
		if e.BadDet > 0 {
			b.det = badDetail(e.BadDet)
		} else {
			b.det = decodeJSON(e.Det)
		}
	}
	idx := 0
	if e.HasSt {
		idx |= 1
	}
	if e.HasCo {
		idx |= 2
	}
	if e.HasDe {
		idx |= 4
	}
	if e.Inner == nil {
		switch idx {
		case 0:
			return &t0{b}
		case 1:
			return &tS{b}
		case 2:
			return &tC{b}
		case 3:
			return &tSC{b}
		case 4:
			return &tD{b}
		case 5:
			return &tSD{b}
		case 6:
			return &tCD{b}
		default:
			return &tSCD{b}
		}
	}
	b.inner = e.Inner.build()
	switch idx {
	case 0:
		return &u0{t0{b}}
	case 1:
		return &uS{tS{b}}
	case 2:
		return &uC{tC{b}}
	case 3:
		return &uSC{tSC{b}}
	case 4:
		return &uD{tD{b}}
	case 5:
		return &uSD{tSD{b}}
	case 6:
		return &uCD{tCD{b}}
	default:
		return &uSCD{tSCD{b}}
	}
}

func (e errT) valErr() validation.Error {
	v := validation.Error{Truncated: e.Trunc}
	for _, f := range e.Fields {
		fe := validation.FieldError{Path: f.Path, Code: f.Code, Message: f.Message}
		if f.Meta != "" {
			fe.Meta, _ = decodeJSON(f.Meta).(map[string]any)
		}
		v.Fields = append(v.Fields, fe)
	}
	return v
}

func (e errT) bindErr() *binding.BindError {
	b := &binding.BindError{Field: string(e.Code), Source: binding.SourceQuery, Value: string(e.Msg), Type: reflect.TypeOf(0)}
	if e.Trunc {
		b.Source = binding.SourceJSON
		b.Reason = "must be a whole number"
	}
	if e.Inner != nil {
		b.Err = e.Inner.build()
	} else if b.Reason == "" {
		b.Err = strconv.ErrSyntax
	}
	return b
}

// build makes the real Go error value.
func (e errT) build() error {
	switch e.Kind {
	case "new":
		return errors.New(string(e.Msg))
	case "wrap":
		return fmt.Errorf("%s: %w", string(e.Msg), e.Inner.build())
	case "join":
		es := make([]error, len(e.Kids))
		for i, k := range e.Kids {
			es[i] = k.build()
		}
		return errors.Join(es...)
	case "status":
		if e.Inner == nil {
			return riverrors.WithStatus(nil, e.Status)
		}
		return riverrors.WithStatus(e.Inner.build(), e.Status)
	case "typed":
		return mkTyped(e)
	case "valerr":
		return e.valErr()
	case "valerrptr":
		v := e.valErr()
		return &v
	case "fielderr":
		f := e.Fields[0]
		return validation.FieldError{Path: f.Path, Code: f.Code, Message: f.Message}
	// the binding package's own error types (what c.Bind returns and handlers pass to Fail)
	case "binderr":
		return e.bindErr()
	case "unknownfield":
		fs := []string{"extra"}
		if len(e.Fields) > 0 {
			fs = nil
			for _, f := range e.Fields {
				fs = append(fs, f.Path)
			}
		}
		return &binding.UnknownFieldError{Fields: fs}
	case "multibind":
		m := &binding.MultiError{}
		for _, k := range e.Kids {
			m.Add(k.bindErr())
		}
		return m
	}
	panic("unknown error kind " + e.Kind)
}
