package main

import (
	"encoding/json"
	"strconv"

	"verif/harness/hx"
)

type gen struct {
	r *hx.Rand
	// noBad: no unencodable details (direct Format cases compare the canonical JSON of the returned Body)
	noBad bool
}

func newGen(r *hx.Rand) *gen { return &gen{r: r} }

// ordinary text, then what an error echoing a request value can contain: control bytes, DEL, invalid
// UTF-8, U+2028/2029, non-printable runes above U+FFFF
var msgs = []bstr{"boom", "user not found", "", "a: b", "quote\"d", "<tag> & é", "line1\nline2", "x",
	"ctl\x01\x02", "bell\a\v\x1b[0m", "nul\x00byte", "del\x7f", "caf\xe9", "\xff\xfe", "half\xc3", "ls\u2028ps\u2029",
	"tag\U000e0001", "user \x1f\U000e007f not found", "\b\f\r\t"}
var codes = []bstr{"RESOURCE_NOT_FOUND", "validation_error", "", "E42", "a/b", "type", "E\x01", "c\xe9"}
var objKeys = []string{"type", "title", "status", "detail", "instance", "errors", "code", "error_id", "path", "message", "meta", "id", "k1", "k2"}

// statuses: the whole range of the statement (100..599) with weight on the interesting ones
func (g *gen) status() int {
	r := g.r
	switch r.Intn(10) {
	case 0, 1, 2, 3:
		return hx.Pick(r, []int{400, 401, 403, 404, 409, 410, 418, 422, 429, 500, 502, 503})
	case 4:
		return hx.Pick(r, []int{100, 101, 102, 103, 150, 199, 204, 304, 200, 201, 301, 599})
	default:
		return r.Range(100, 599)
	}
}

func (g *gen) jsonVal(depth int) any {
	r := g.r
	k := r.Intn(8)
	if depth >= 3 && k >= 6 {
		k = r.Intn(6)
	}
	switch k {
	case 0:
		return nil
	case 1:
		return r.Chance(1, 2)
	case 2:
		return r.Range(-3, 1000)
	case 3, 4, 5:
		return string(hx.Pick(r, msgs))
	case 6:
		n := r.Range(0, 3)
		out := make([]any, n)
		for i := range out {
			out[i] = g.jsonVal(depth + 1)
		}
		return out
	default:
		n := r.Range(0, 4)
		out := map[string]any{}
		for i := 0; i < n; i++ {
			out[hx.Pick(r, objKeys)] = g.jsonVal(depth + 1)
		}
		return out
	}
}

// fieldish: what a validation library hands to Details(): a slice of field errors, more or less well formed
func (g *gen) fieldSlice() any {
	r := g.r
	n := r.Range(0, 3)
	out := make([]any, n)
	for i := range out {
		if r.Chance(1, 8) {
			out[i] = g.jsonVal(2)
			continue
		}
		f := map[string]any{}
		if r.Chance(4, 5) {
			f["path"] = hx.Pick(r, []string{"email", "items.0.price", "", "user.name", "a.b.c"})
		}
		if r.Chance(3, 4) {
			f["code"] = hx.Pick(r, []string{"tag.required", "", "schema.type"})
		}
		if r.Chance(3, 4) {
			f["message"] = hx.Pick(r, []string{"is required", "", "must be a number"})
		}
		if r.Chance(1, 3) {
			f["meta"] = g.jsonVal(2)
		}
		if r.Chance(1, 6) {
			f[hx.Pick(r, objKeys)] = g.jsonVal(2)
		}
		out[i] = f
	}
	return out
}

func jsonText(v any) string {
	b, err := json.Marshal(v)
	if err != nil {
		panic(err)
	}
	return string(b)
}

func (g *gen) details() string {
	r := g.r
	switch r.Intn(6) {
	case 0, 1, 2:
		return jsonText(g.fieldSlice())
	case 3:
		// a map whose keys collide with the reserved members of RFC 9457
		m := map[string]any{}
		for i, n := 0, r.Range(1, 5); i < n; i++ {
			m[hx.Pick(r, objKeys)] = g.jsonVal(2)
		}
		return jsonText(m)
	default:
		return jsonText(g.jsonVal(0))
	}
}

func (g *gen) fields() []fldT {
	r := g.r
	n := r.Range(0, 3)
	out := make([]fldT, n)
	for i := range out {
		out[i] = fldT{
			Path:    hx.Pick(r, []string{"email", "items.0.price", "", "user.name"}),
			Code:    hx.Pick(r, []string{"tag.required", "", "schema.type"}),
			Message: hx.Pick(r, []string{"is required", "", "must be a number"}),
		}
		if r.Chance(1, 3) {
			out[i].Meta = jsonText(map[string]any{"tag": "required", "param": r.Range(0, 9)})
		} else if r.Chance(1, 6) {
			out[i].Meta = "{}"
		}
	}
	return out
}

func (g *gen) err(depth int) errT {
	r := g.r
	k := r.Intn(14)
	if depth >= 5 {
		k = hx.Pick(r, []int{0, 1, 7, 9})
	}
	switch k {
	case 0, 1:
		return errT{Kind: "new", Msg: hx.Pick(r, msgs)}
	case 2, 3:
		in := g.err(depth + 1)
		return errT{Kind: "wrap", Msg: hx.Pick(r, []bstr{"ctx", "load user", "a b", "id \x01", "caf\xe9"}), Inner: &in}
	case 4:
		n := r.Range(1, 3)
		e := errT{Kind: "join"}
		for i := 0; i < n; i++ {
			e.Kids = append(e.Kids, g.err(depth+1))
		}
		return e
	case 5, 6:
		e := errT{Kind: "status", Status: g.status()}
		if !r.Chance(1, 6) {
			in := g.err(depth + 1)
			e.Inner = &in
		}
		return e
	case 7, 8:
		e := errT{Kind: "typed", Msg: hx.Pick(r, msgs)}
		if r.Chance(1, 2) {
			e.HasSt, e.St = true, g.status()
		}
		if r.Chance(1, 2) {
			e.HasCo, e.Code = true, hx.Pick(r, codes)
		}
		if r.Chance(1, 2) {
			e.HasDe, e.Det = true, g.details()
			// a Details() value that encoding/json refuses (NaN, a channel, a failing MarshalJSON, …)
			if !g.noBad && r.Chance(1, 8) {
				e.BadDet = r.Range(1, 6)
			}
		}
		if depth < 5 && r.Chance(1, 2) {
			in := g.err(depth + 1)
			e.Inner = &in
		}
		return e
	case 9:
		return errT{Kind: hx.Pick(r, []string{"valerr", "valerrptr"}), Fields: g.fields(), Trunc: r.Chance(1, 5)}
	case 10:
		return errT{Kind: "fielderr", Fields: g.fields()[:0:0]}.withOneField(g)
	case 12:
		return g.bindErr(depth)
	case 13:
		if r.Chance(1, 3) {
			return errT{Kind: "unknownfield", Fields: g.fields()}
		}
		e := errT{Kind: "multibind"}
		for i, n := 0, r.Range(0, 3); i < n; i++ {
			e.Kids = append(e.Kids, g.bindErr(5))
		}
		return e
	default:
		in := g.err(depth + 1)
		return errT{Kind: "wrap", Msg: "outer", Inner: &in}
	}
}

// bindErr: a binding.BindError (Field in Code, Value in Msg, JSON source + reason when Trunc, optional inner error)
func (g *gen) bindErr(depth int) errT {
	r := g.r
	e := errT{Kind: "binderr", Code: bstr(hx.Pick(r, []string{"age", "page", "user.id", ""})), Msg: hx.Pick(r, msgs), Trunc: r.Chance(1, 3)}
	if depth < 5 && r.Chance(1, 3) {
		in := g.err(depth + 1)
		e.Inner = &in
	}
	return e
}

func (e errT) withOneField(g *gen) errT {
	f := g.fields()
	for len(f) == 0 {
		f = g.fields()
	}
	e.Fields = f[:1]
	e.Fields[0].Meta = ""
	return e
}

var mediaTypes = []string{"application/problem+json", "application/vnd.api+json", "application/json", "text/plain", "application/xml", "Application/JSON",
	"application/json; charset=utf-8", "application/problem+json;charset=utf-8", "application/vnd.api+json; ext=\"x\""}

func (g *gen) fmt() fmtT {
	r := g.r
	f := fmtT{Kind: hx.Pick(r, []string{"rfc", "jsonapi", "simple"})}
	if f.Kind == "rfc" {
		if r.Chance(1, 2) {
			f.BaseURL = hx.Pick(r, []string{"https://api.example.com/problems", "urn:p", "/"})
		}
		f.DisableID = r.Chance(1, 4)
		if r.Chance(1, 8) {
			t := hx.Pick(r, []string{"https://example.com/t", ""})
			f.TypeRes = &t
		}
	}
	if r.Chance(1, 10) {
		s := g.status()
		f.StatusRes = &s
	}
	return f
}

func (g *gen) opts() []optT {
	r := g.r
	single := func() optT { f := g.fmt(); return optT{F: &f} }
	multi := func() (optT, []string) {
		if r.Chance(1, 3) {
			// one of two house tables, configured again and again with different defaults
			t := houseTables[r.Intn(len(houseTables))]
			var keys []string
			for _, e := range t {
				keys = append(keys, e.MT)
			}
			return optT{IsM: true, M: t}, keys
		}
		n := r.Range(1, 3)
		perm := append([]string(nil), mediaTypes...)
		hx.Shuffle(r, perm)
		var o optT
		o.IsM = true
		seen := map[string]bool{}
		for _, mt := range perm {
			if len(o.M) == n {
				break
			}
			if seen[mt] {
				continue
			}
			seen[mt] = true
			o.M = append(o.M, entryT{MT: mt, F: g.fmt()})
		}
		var keys []string
		for _, e := range o.M {
			keys = append(keys, e.MT)
		}
		return o, keys
	}
	dflt := func(keys []string) optT {
		d := hx.Pick(r, keys)
		if r.Chance(1, 8) {
			d = hx.Pick(r, []string{"application/none", ""})
		}
		return optT{D: &d}
	}
	switch r.Intn(12) {
	case 0:
		return nil
	case 1, 2, 3:
		return []optT{single()}
	case 4, 5, 6, 7:
		m, keys := multi()
		return []optT{m, dflt(keys)}
	case 8:
		m, _ := multi()
		return []optT{m}
	case 9:
		m, keys := multi()
		return []optT{dflt(keys), m}
	case 10:
		m, keys := multi()
		return []optT{single(), m, dflt(keys)}
	default:
		m, keys := multi()
		return []optT{m, dflt(keys), single()}
	}
}

var houseTables = [][]entryT{
	{{"application/problem+json", fmtT{Kind: "rfc"}}, {"application/json", fmtT{Kind: "simple"}}, {"application/vnd.api+json", fmtT{Kind: "jsonapi"}}},
	{{"application/json; charset=utf-8", fmtT{Kind: "simple"}}, {"application/problem+json", fmtT{Kind: "rfc", BaseURL: "https://api.example.com/problems"}}},
}

var ranges = []string{"application/problem+json", "application/vnd.api+json", "application/json", "text/plain", "application/xml",
	"text/html", "application/*", "text/*", "*/*", "APPLICATION/JSON", "image/png"}

func (g *gen) accept() *string {
	r := g.r
	if r.Chance(1, 6) {
		return nil
	}
	if r.Chance(1, 20) {
		s := hx.Pick(r, []string{"", " ", "garbage", "a/b/c", ";q=1", "application/json;q=abc", ","})
		return &s
	}
	n := r.Range(1, 4)
	s := ""
	for i := 0; i < n; i++ {
		if i > 0 {
			s += hx.Pick(r, []string{",", ", ", " , "})
		}
		s += hx.Pick(r, ranges)
		if r.Chance(1, 5) {
			s += hx.Pick(r, []string{";version=1", "; charset=utf-8", ";v=\"2\""})
		}
		if r.Chance(1, 2) {
			s += hx.Pick(r, []string{";q=1", ";q=0.9", "; q=0.5", ";q=0.001", ";q=1.0", ";Q=0.8", ";q=0", ";q=0", ";q=0.0", "; q=0.000"})
		}
	}
	return &s
}

func (g *gen) acase() acaseT {
	r := g.r
	k := acaseT{Wire: "r", Opts: g.opts(), Accept: g.accept(), Len: r.Range(2, 5), Mask: r.Intn(1 << 12)}
	k.Pos = r.Intn(k.Len)
	switch r.Intn(7) {
	case 6:
		// c.MustBind(&req): Bind's own error (binding or validation) goes to Fail
		k.Call = callT{Kind: "mustbind", MB: r.Range(1, len(mbQueries)+len(mbBodies)-1)}
		if k.Call.MB >= len(mbQueries) {
			k.Tail = "" // the body cases use the plain routes
		}
	case 0, 1, 2:
		e := g.err(0)
		k.Call = callT{Kind: "fail", Err: &e}
	case 3:
		k.Call = callT{Kind: "status", Status: g.status()}
		if !r.Chance(1, 5) {
			e := g.err(1)
			k.Call.Err = &e
		}
	default:
		k.Call = callT{Kind: "helper", Helper: r.Intn(10)}
		if !r.Chance(1, 4) {
			e := g.err(1)
			k.Call.Err = &e
		}
	}
	if r.Chance(1, 12) {
		k.Wire = "s"
	}
	// the error happens on a route with a parameter: the raw segment ends up in req.URL.Path
	if r.Chance(1, 4) {
		k.Tail = hx.Pick(r, []bstr{"42", "caf\xe9", "\x01", "a b", "x\x7f", "\U000e0001", "é", "\u2028", "%41", "\xff", "tab\t", "q?x=1"})
	}
	// the request's context is done when the handler fails (timeout of a backend call, client gave up)
	if r.Chance(1, 6) {
		k.CtxDone = r.Range(1, 2)
	}
	// a guard that fails and then falls through to c.Next(); the router's other dispatch loop
	k.NextAfterFail = r.Chance(1, 6)
	k.NoCancelCheck = r.Chance(1, 5)
	k.Prod = r.Chance(1, 4)
	// a guard: c.Abort() first, then the error response
	k.AbortFirst = r.Chance(1, 6)
	// the request before this one matched no route and was answered by the app's NoRoute handler with c.NotFound(nil)
	k.AfterNoRoute = r.Chance(1, 6)
	// the Accept header grows a field line while the request is served, after an earlier negotiation
	if r.Chance(1, 8) {
		k.AcceptAdd = hx.Pick(r, ranges) + hx.Pick(r, []string{"", ";q=0.9", ";q=0.5", ";q=0"})
	}
	// a user-written formatter whose body never encodes: only "abort the chain" is left of the statement
	if r.Chance(1, 40) {
		k.Opts = []optT{{F: &fmtT{Kind: "broken"}}}
		k.Wire = "r"
		return k
	}
	// something had set a Content-Type before the error happened
	if r.Chance(1, 5) {
		k.PreCT = sp(hx.Pick(r, []string{"text/csv; charset=utf-8", "text/html", "application/json", "application/octet-stream", "application/problem+json", "image/png"}))
		k.PreAt = r.Intn(2)
	}
	return k
}

// ocase: 2 or 3 failing requests that overlap on one app
func (g *gen) ocase() ocaseT {
	r := g.r
	k := ocaseT{Opts: g.opts(), Park: hx.Pick(r, []string{"h", "w", "d"})}
	n := r.Range(2, 3)
	for i := 0; i < n; i++ {
		a := g.acase()
		a.Opts = k.Opts
		a.Wire = "r"
		k.Reqs = append(k.Reqs, a)
	}
	return k
}

func (g *gen) mcase() mcaseT {
	r := g.r
	k := mcaseT{
		Type:     hx.Pick(r, []string{"about:blank", "https://example.com/p", "", "urn:\x03"}),
		Title:    hx.Pick(r, []string{"Not Found", "", "T"}),
		Status:   g.status(),
		Detail:   hx.Pick(r, []string{"", "boom", "d", "ctl\x01\x1b", "del\x7f\U000e0001"}),
		Instance: hx.Pick(r, []string{"", "/api/users", "/", "/u/\x02", "/u/\u2028"}),
	}
	n := r.Range(0, 6)
	for i := 0; i < n; i++ {
		k.Ext = append(k.Ext, extT{K: hx.Pick(r, objKeys), V: jsonText(g.jsonVal(1))})
	}
	return k
}

func sp(s string) *string { return &s }

// fixed witnesses: K06 (media type), K06b (negotiation never reached), K06c (bodyless statuses on the wire)
func fixedCases() []caseT {
	boom := &errT{Kind: "new", Msg: "boom"}
	rfc := fmtT{Kind: "rfc"}
	japi := fmtT{Kind: "jsonapi"}
	simple := fmtT{Kind: "simple"}
	// first of all a burst of error responses formatted truly in parallel (16 goroutines × 40 requests, RFC 9457 with
	// generated error ids, then JSON:API): shared state of the formatters that is not safe for concurrent use shows
	// here, or in everything that follows
	burst := []caseT{{P: &pcaseT{Workers: 16, PerWorker: 40}}, {P: &pcaseT{Opts: []optT{{F: &japi}}, Workers: 16, PerWorker: 20}}}
	neg := []optT{{IsM: true, M: []entryT{{"application/json", simple}, {"application/vnd.api+json", japi}}}, {D: sp("application/json")}}
	out := burst
	add := func(a acaseT) { out = append(out, caseT{A: &a}) }
	// K06: NotFound(err) with RFC 9457 (default and explicit), JSON:API, Simple
	add(acaseT{Wire: "r", Len: 2, Pos: 1, Call: callT{Kind: "helper", Helper: 0, Err: boom}})
	add(acaseT{Wire: "r", Opts: []optT{{F: &rfc}}, Len: 3, Pos: 1, Mask: 1, Call: callT{Kind: "helper", Helper: 0, Err: boom}})
	add(acaseT{Wire: "r", Opts: []optT{{F: &japi}}, Len: 2, Pos: 1, Mask: 1, Call: callT{Kind: "fail", Err: boom}})
	add(acaseT{Wire: "r", Opts: []optT{{F: &simple}}, Len: 2, Pos: 1, Mask: 1, Call: callT{Kind: "fail", Err: boom}})
	// K06b: negotiated map + default, four Accept headers
	for _, acc := range []*string{nil, sp("application/vnd.api+json"), sp("application/json"), sp("text/html")} {
		add(acaseT{Wire: "r", Opts: neg, Accept: acc, Len: 2, Pos: 1, Mask: 1, Call: callT{Kind: "helper", Helper: 0, Err: boom}})
	}
	// a configured type the client refuses (q=0) next to one it takes; refused by the specific range although */* is there
	for _, acc := range []*string{sp("application/json;q=0, application/vnd.api+json"), sp("application/vnd.api+json;q=0, */*;q=0.5"), sp("application/json;q=0, application/vnd.api+json;q=0")} {
		add(acaseT{Wire: "r", Opts: neg, Accept: acc, Len: 2, Pos: 1, Mask: 1, Call: callT{Kind: "helper", Helper: 0, Err: boom}})
	}
	// K06c: statuses that cannot carry a body, over a real connection
	for _, s := range []int{100, 101, 150, 204, 304} {
		add(acaseT{Wire: "s", Len: 2, Pos: 1, Mask: 1, Call: callT{Kind: "status", Status: s, Err: boom}})
	}
	add(acaseT{Wire: "s", Len: 2, Pos: 1, Mask: 1, Call: callT{Kind: "status", Status: 204}})
	// errors.As order: the outermost ErrorType layer decides
	in := errT{Kind: "typed", Msg: "inner", HasSt: true, St: 409, HasCo: true, Code: "E42"}
	w := errT{Kind: "wrap", Msg: "ctx", Inner: &in}
	ws := errT{Kind: "status", Status: 418, Inner: &w}
	add(acaseT{Wire: "r", Len: 4, Pos: 2, Mask: 3, Call: callT{Kind: "fail", Err: &ws}})
	j := errT{Kind: "join", Kids: []errT{{Kind: "new", Msg: "a"}, in, {Kind: "status", Status: 400}}}
	add(acaseT{Wire: "r", Opts: []optT{{F: &japi}}, Len: 4, Pos: 0, Call: callT{Kind: "fail", Err: &j}})
	// details with reserved-name keys; empty details slice (JSON:API must still have one error)
	d := errT{Kind: "typed", Msg: "bad", HasSt: true, St: 422, HasDe: true, Det: `{"status":200,"type":"x","title":"y","detail":"z","instance":"/w"}`}
	add(acaseT{Wire: "r", Len: 2, Pos: 1, Mask: 1, Call: callT{Kind: "fail", Err: &d}})
	e0 := errT{Kind: "typed", Msg: "bad", HasDe: true, Det: `[]`}
	add(acaseT{Wire: "r", Opts: []optT{{F: &japi}}, Len: 2, Pos: 1, Mask: 1, Call: callT{Kind: "fail", Err: &e0}})
	v0 := errT{Kind: "valerr"}
	add(acaseT{Wire: "r", Opts: []optT{{F: &japi}}, Len: 2, Pos: 1, Mask: 1, Call: callT{Kind: "fail", Err: &v0}})
	// the request path / the message carry control bytes, invalid UTF-8, an astral non-printable
	add(acaseT{Wire: "r", Len: 2, Pos: 1, Mask: 1, Tail: "\x01", Call: callT{Kind: "helper", Helper: 0, Err: boom}})
	add(acaseT{Wire: "s", Len: 2, Pos: 1, Mask: 1, Tail: "caf\xe9", Call: callT{Kind: "helper", Helper: 0}})
	add(acaseT{Wire: "r", Len: 2, Pos: 1, Mask: 1, Call: callT{Kind: "helper", Helper: 0, Err: &errT{Kind: "new", Msg: "user \x1b\U000e0001\xe9 not found"}}})
	// deadline exceeded inside the handler, then FailStatus(504)
	add(acaseT{Wire: "r", Len: 2, Pos: 1, Mask: 1, CtxDone: 2, Call: callT{Kind: "status", Status: 504, Err: &errT{Kind: "new", Msg: "backend timed out"}}})
	add(acaseT{Wire: "s", Len: 3, Pos: 1, Mask: 1, CtxDone: 1, Call: callT{Kind: "helper", Helper: 9, Err: boom}})
	// guard with a missing return on a router without cancellation checks: Unauthorized, then Next
	add(acaseT{Wire: "r", Len: 3, Pos: 0, NoCancelCheck: true, NextAfterFail: true, Call: callT{Kind: "helper", Helper: 2, Err: boom}})
	add(acaseT{Wire: "r", Len: 4, Pos: 1, Mask: 1, NextAfterFail: true, Call: callT{Kind: "helper", Helper: 2, Err: boom}})
	// guard middleware: Abort, then Forbidden
	add(acaseT{Wire: "r", Len: 3, Pos: 0, AbortFirst: true, Call: callT{Kind: "helper", Helper: 3, Err: boom}})
	// a Content-Type already set when the handler fails (download handler; default-content-type middleware)
	for _, f := range []fmtT{rfc, japi, simple} {
		f := f
		add(acaseT{Wire: "r", Opts: []optT{{F: &f}}, Len: 2, Pos: 1, Mask: 1, PreCT: sp("text/csv; charset=utf-8"), PreAt: 1,
			Call: callT{Kind: "helper", Helper: 9, Err: &errT{Kind: "new", Msg: "report store is down"}}})
		add(acaseT{Wire: "r", Opts: []optT{{F: &f}}, Len: 3, Pos: 2, Mask: 3, PreCT: sp("application/json"), PreAt: 0,
			Call: callT{Kind: "helper", Helper: 0, Err: boom}})
	}
	// two failing requests overlap: the first is parked inside WriteHeader / Write while the second is served
	for _, park := range []string{"h", "w"} {
		for _, f := range []fmtT{rfc, japi} {
			f := f
			opts := []optT{{F: &f}}
			out = append(out, caseT{O: &ocaseT{Opts: opts, Park: park, Reqs: []acaseT{
				{Wire: "r", Opts: opts, Len: 2, Pos: 1, Mask: 1, Call: callT{Kind: "helper", Helper: 0, Err: &errT{Kind: "new", Msg: "no such user"}}},
				{Wire: "r", Opts: opts, Len: 2, Pos: 1, Mask: 1, Call: callT{Kind: "helper", Helper: 4, Err: &errT{Kind: "new", Msg: "busy"}}},
			}}})
		}
	}
	// K06d: a guard answers Forbidden / Fail with an error whose Details() cannot be encoded; handlers follow it
	for i, f := range []fmtT{rfc, japi, simple} {
		f := f
		nan := errT{Kind: "typed", Msg: "forbidden", HasSt: true, St: 403, HasCo: true, Code: "E_FORBIDDEN", HasDe: true, Det: "null", BadDet: 1 + 2*i}
		add(acaseT{Wire: "r", Opts: []optT{{F: &f}}, Len: 4, Pos: 1, Mask: 0x10f, Call: callT{Kind: "helper", Helper: 3, Err: &nan}})
		add(acaseT{Wire: "s", Opts: []optT{{F: &f}}, Len: 3, Pos: 0, Mask: 7, Call: callT{Kind: "fail", Err: &errT{Kind: "wrap", Msg: "ctx", Inner: &nan}}})
	}
	// the pooled context comes back from a NoRoute handler that failed (aborted without a chain)
	add(acaseT{Wire: "r", Len: 2, Pos: 1, Mask: 1, AfterNoRoute: true, Call: callT{Kind: "helper", Helper: 4, Err: boom}})
	// MustBind: a query value that does not convert; a validation failure (details: field errors)
	for _, f := range []fmtT{rfc, japi, simple} {
		f := f
		add(acaseT{Wire: "r", Opts: []optT{{F: &f}}, Len: 3, Pos: 1, Mask: 3, Call: callT{Kind: "mustbind", MB: 1}})
		add(acaseT{Wire: "s", Opts: []optT{{F: &f}}, Len: 2, Pos: 1, Mask: 1, Call: callT{Kind: "mustbind", MB: 4}})
	}
	// MustBind(WithStrict()) on a body with a field the struct does not have (422 from the binding step)
	add(acaseT{Wire: "r", Len: 3, Pos: 1, Mask: 3, Call: callT{Kind: "mustbind", MB: len(mbQueries)}})
	add(acaseT{Wire: "s", Opts: []optT{{F: &japi}}, Len: 2, Pos: 1, Mask: 1, Call: callT{Kind: "mustbind", MB: len(mbQueries) + 4}})
	// an earlier negotiation in the request, then a second Accept field line, then the failure
	add(acaseT{Wire: "r", Opts: neg, Accept: sp("text/html"), AcceptAdd: "application/vnd.api+json", Len: 3, Pos: 2, Mask: 3, Call: callT{Kind: "helper", Helper: 0, Err: boom}})
	add(acaseT{Wire: "s", Opts: neg, Accept: sp("application/json;q=0.1"), AcceptAdd: "application/vnd.api+json", Len: 2, Pos: 1, Mask: 1, Call: callT{Kind: "fail", Err: boom}})
	// a formatter whose body never encodes, in front of a protected handler and an after-handler
	add(acaseT{Wire: "r", Opts: []optT{{F: &fmtT{Kind: "broken"}}}, Len: 4, Pos: 1, Mask: 0x10f, Call: callT{Kind: "helper", Helper: 3, Err: boom}})
	add(acaseT{Wire: "r", Opts: []optT{{F: &fmtT{Kind: "broken"}}}, Len: 3, Pos: 0, Mask: 7, Call: callT{Kind: "fail", Err: boom}})
	// two failing requests with different statuses on one shared formatter; the first is inside Details() while the second is served
	for _, f := range []fmtT{japi, rfc, simple} {
		f := f
		opts := []optT{{F: &f}}
		slow := errT{Kind: "typed", Msg: "invalid order", HasSt: true, St: 422, HasDe: true, Det: `[{"path":"qty","code":"min","message":"too small"}]`}
		out = append(out, caseT{O: &ocaseT{Opts: opts, Park: "d", Reqs: []acaseT{
			{Wire: "r", Opts: opts, Len: 2, Pos: 1, Mask: 1, Call: callT{Kind: "fail", Err: &slow}},
			{Wire: "r", Opts: opts, Len: 2, Pos: 1, Mask: 1, Call: callT{Kind: "helper", Helper: 0, Err: &errT{Kind: "new", Msg: "no such user"}}},
		}}})
	}
	// MarshalJSON with extensions that try to override every reserved member
	out = append(out, caseT{M: &mcaseT{Type: "about:blank", Title: "Not Found", Status: 404, Ext: []extT{
		{"type", `"evil"`}, {"title", `"evil"`}, {"status", `200`}, {"detail", `"evil"`}, {"instance", `"evil"`}, {"trace", `"t-` + strconv.Itoa(1) + `"`}}}})
	return out
}
