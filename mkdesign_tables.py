#!/usr/bin/env python3
"""regenerate the machine-made tables of DESIGN.md §12 (between the BEGIN/END markers) from
checks/*.json, known_findings.jsonl, evidence/*.json"""
import json, glob, os, re
ROOT = os.path.dirname(os.path.abspath(__file__))
def cell(s, n=300): return re.sub(r"\s+", " ", str(s)).replace("|", "/")[:n]
rows = ["| id | technique | obligations (last run) | cases (quick) | Lean modules | driver / harness |", "|---|---|---|---|---|---|"]
for p in sorted(glob.glob(os.path.join(ROOT, "checks", "C*.json"))):
    c = json.load(open(p)); pid = c["property_id"]
    ev = {}
    try: ev = json.load(open(os.path.join(ROOT, "evidence", pid + ".json")))["coverage"]
    except Exception: pass
    mods = c["lean"]["props"] + c["lean"].get("tie", [])
    rows.append("| %s | %s | %s/%s | %s (%s distinct non-trivial) | %s | `%s` / `harness/%s` |" % (
        pid, cell(c["manifest"]["technique"], 200), ev.get("discharged", "?"), ev.get("obligations", "?"), ev.get("evaluations", "?"),
        ev.get("distinct_nontrivial", "?"), ", ".join("`%s`" % m.replace("Rivaas.", "") for m in mods), c["lean"].get("driver", "-"), (c.get("harness") or {}).get("pkg", "-")))
t1 = "\n".join(rows)
rows = ["| finding | property | status | commit | what failed |", "|---|---|---|---|---|"]
fs = [json.loads(l) for l in open(os.path.join(ROOT, "known_findings.jsonl")) if l.strip() and not l.startswith("#")]
def k(f):
    m = re.match(r"C(\d+)", f["property"]); return (int(m.group(1)), f.get("id", ""))
for f in sorted(fs, key=k):
    rows.append("| %s | %s | %s | %s | %s |" % (f.get("id", "?"), f["property"], "**open** (class `%s`)" % f.get("class") if f["status"] == "open" else "fixed", f.get("commit", "-"), cell(f["what"], 260)))
t2 = "\n".join(rows)
tb = []
for p_ in sorted(glob.glob(os.path.join(ROOT, "checks", "C*.json"))):
    c = json.load(open(p_)); pid = c["property_id"]
    tb.append("**%s** — %s" % (pid, cell(c["manifest"]["level_note"], 1200)))
    for x in c.get("trusted_base", []):
        tb.append("* parameter / trusted: %s" % cell(x, 600))
    for x in c.get("assumptions", []):
        tb.append("* assumption: %s" % cell(x, 600))
    tb.append("")
t3 = "\n".join(tb)
nfix = sum(1 for f in fs if f["status"] == "fixed"); nopen = len(fs) - nfix
p = os.path.join(ROOT, "DESIGN.md"); s = open(p).read()
for name, t in (("TRUSTED", t3), ("CHECKS", t1), ("FINDINGS", "%d findings fixed by `fix:` commits, %d recorded as open.\n\n%s" % (nfix, nopen, t2))):
    b, e = "<!-- BEGIN %s -->" % name, "<!-- END %s -->" % name
    if b in s:
        s = s[:s.index(b) + len(b)] + "\n" + t + "\n" + s[s.index(e):]
open(p, "w").write(s)
print("tables regenerated: %d checks, %d findings (%d fixed, %d open)" % (len(glob.glob(os.path.join(ROOT, 'checks', 'C*.json'))), len(fs), nfix, nopen))
