#!/bin/sh
# Build the framework from files on disk only (offline): Gen/*.lean from the current source,
# the whole Lean project (theorems + compiled drivers), and a warm Go build cache for the harness.
set -e
cd "$(dirname "$0")"
mkdir -p build evidence
if [ -x extract/run.sh ]; then ./extract/run.sh "${VERIF_REPO:-/repo}" || echo "setup: extractor failed (checks will report it)"; fi
# a module that does not build must not take the other properties down: every check builds its own targets again
(cd lean && lake build) || echo "setup: lake build reported failures (the checks concerned will report them)"
# Tie modules import the regenerated Gen/*.lean and are not reachable from the library root: warm them too
(cd lean && lake build $(ls Rivaas/Tie/*.lean | sed "s#/#.#g; s#\.lean\$##")) || echo "setup: Tie modules do not build (the checks concerned will report it)"
python3 - <<'PY'
import sys, os
sys.path.insert(0, '.')
import importlib.machinery, importlib.util
l = importlib.machinery.SourceFileLoader('check', './check'); s = importlib.util.spec_from_loader('check', l); m = importlib.util.module_from_spec(s); l.exec_module(m)
env = dict(os.environ); env.update(m.goenv(m.REPO))
import subprocess
subprocess.run(['go', 'build', '-tags', 'verif', './...'], cwd='harness', env=env)
PY
echo setup done
