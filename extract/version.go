package main

// C13 (tie B): decision trees of the versioning code, regenerated from the current source.
//
// genVersion walks the bodies of the functions the C13 model mirrors statement by statement — the option
// constructors of router/version/options.go, NewConfig / Config.validate, Engine.DetectVersion / validateVersion /
// ShouldApplyVersioning / ExtractPathSegment / StripPathVersion / SetLifecycleHeaders, and Router.processVersioning /
// selectRoutingTree — and prints each as a term of the small decision language `Rivaas.Tie.Dec.D`
// (lean/Rivaas/Tie/C13Dec.lean): branch on an atom, effect, return, loop over a slice with `next`/`brk`.
//
// Conditions, results and effects are printed as canonical text: the receiver is `recv`, parameters are `p0, p1, …`
// by position, a local that is assigned once is replaced by its defining expression (`x, ok := f(a)` gives `f(a)#0`,
// `f(a)#1`), a loop variable by `elem(<slice>)`, a local assigned more than once by `m0, m1, …` in order of first
// appearance. Renaming locals, parameters or the receiver therefore changes nothing; restructuring (if/else instead
// of an early return, a helper variable more or less) changes the tree but not its meaning — the Tie theorems compare
// meanings (all valuations of the atoms), and compare the atom/result/effect tables literally.
//
// Fails closed: an unhandled statement form ends the extraction with a message.

import (
	"fmt"
	"go/ast"
	"go/token"
	"path/filepath"
	"sort"
	"strings"
)

type verFn struct {
	name                    string
	atoms, results, effects *table
	recv                    string
	params                  map[string]string
	defs                    map[string]string // single-assignment local -> canonical defining expression
	multi                   map[string]string // local assigned more than once -> m<i>
	counts                  map[string]int
}

func (x *verFn) canonList(es []ast.Expr) string {
	var parts []string
	for _, e := range es {
		parts = append(parts, x.canon(e))
	}
	return strings.Join(parts, ", ")
}

func (x *verFn) canon(e ast.Expr) string {
	switch v := e.(type) {
	case *ast.Ident:
		if v.Name == x.recv && x.recv != "" {
			return "recv"
		}
		if p, ok := x.params[v.Name]; ok {
			return p
		}
		if m, ok := x.multi[v.Name]; ok {
			return m
		}
		if d, ok := x.defs[v.Name]; ok {
			return d
		}
		return v.Name
	case *ast.BasicLit:
		return v.Value
	case *ast.SelectorExpr:
		return x.canon(v.X) + "." + v.Sel.Name
	case *ast.CallExpr:
		s := x.canon(v.Fun) + "(" + x.canonList(v.Args)
		if v.Ellipsis.IsValid() {
			s += "..."
		}
		return s + ")"
	case *ast.UnaryExpr:
		return v.Op.String() + x.canon(v.X)
	case *ast.BinaryExpr:
		return x.canon(v.X) + " " + v.Op.String() + " " + x.canon(v.Y)
	case *ast.ParenExpr:
		return "(" + x.canon(v.X) + ")"
	case *ast.StarExpr:
		return "*" + x.canon(v.X)
	case *ast.TypeAssertExpr:
		return x.canon(v.X) + ".(" + src(v.Type) + ")"
	case *ast.IndexExpr:
		return x.canon(v.X) + "[" + x.canon(v.Index) + "]"
	case *ast.SliceExpr:
		lo, hi := "", ""
		if v.Low != nil {
			lo = x.canon(v.Low)
		}
		if v.High != nil {
			hi = x.canon(v.High)
		}
		return x.canon(v.X) + "[" + lo + ":" + hi + "]"
	case *ast.CompositeLit:
		var parts []string
		for _, el := range v.Elts {
			if kv, ok := el.(*ast.KeyValueExpr); ok {
				parts = append(parts, src(kv.Key)+": "+x.canon(kv.Value))
			} else {
				parts = append(parts, x.canon(el))
			}
		}
		t := ""
		if v.Type != nil {
			t = src(v.Type)
		}
		return t + "{" + strings.Join(parts, ", ") + "}"
	case *ast.KeyValueExpr:
		return src(v.Key) + ": " + x.canon(v.Value)
	case *ast.FuncLit:
		return "func"
	case *ast.MapType, *ast.ArrayType, *ast.FuncType, *ast.InterfaceType, *ast.ChanType, *ast.StructType:
		return src(v)
	}
	fatalf(e.Pos(), "version extractor: expression form %T not handled in %s", e, x.name)
	return ""
}

// countAssignments: which locals are assigned after their definition (`=`, `+=`, `++`, or declared without a value).
// A `:=` / range definition alone makes a local single-assignment (a later `:=` of the same name in another scope
// shadows it and is followed in source order).
func (x *verFn) countAssignments(body *ast.BlockStmt) {
	bump := func(e ast.Expr) {
		if id, ok := e.(*ast.Ident); ok && id.Name != "_" {
			x.counts[id.Name]++
		}
	}
	ast.Inspect(body, func(n ast.Node) bool {
		switch v := n.(type) {
		case *ast.FuncLit:
			return false
		case *ast.AssignStmt:
			if v.Tok != token.DEFINE {
				for _, l := range v.Lhs {
					bump(l)
				}
			}
		case *ast.IncDecStmt:
			bump(v.X)
		case *ast.DeclStmt:
			if gd, ok := v.Decl.(*ast.GenDecl); ok {
				for _, s := range gd.Specs {
					if vs, ok := s.(*ast.ValueSpec); ok && len(vs.Values) == 0 {
						for _, n := range vs.Names {
							x.counts[n.Name]++
						}
					}
				}
			}
		}
		return true
	})
}

func (x *verFn) isLocalSingle(name string) bool { return x.counts[name] == 0 }

func (x *verFn) multiName(name string) string {
	if m, ok := x.multi[name]; ok {
		return m
	}
	m := fmt.Sprintf("m%d", len(x.multi))
	x.multi[name] = m
	return m
}

// define records `lhs := rhs` for single-assignment locals; returns the effects (as Lean wrappers) for the others.
func (x *verFn) define(lhs []ast.Expr, rhs []ast.Expr, tok token.Token) []int {
	var effs []int
	if len(lhs) == len(rhs) {
		for i, l := range lhs {
			effs = append(effs, x.defineOne(l, x.canon(rhs[i]), tok)...)
		}
		return effs
	}
	if len(rhs) != 1 {
		fatalf(lhs[0].Pos(), "version extractor: assignment shape not handled in %s", x.name)
	}
	r := x.canon(rhs[0])
	for i, l := range lhs {
		effs = append(effs, x.defineOne(l, fmt.Sprintf("%s#%d", r, i), tok)...)
	}
	return effs
}

func (x *verFn) defineOne(l ast.Expr, r string, tok token.Token) []int {
	if id, ok := l.(*ast.Ident); ok {
		if id.Name == "_" {
			return nil
		}
		_, isParam := x.params[id.Name]
		if !isParam && id.Name != x.recv && x.isLocalSingle(id.Name) && (tok == token.DEFINE || tok == token.ASSIGN) {
			x.defs[id.Name] = r
			return nil
		}
		if !isParam && id.Name != x.recv {
			return []int{x.effects.id(x.multiName(id.Name) + " " + tok.String() + " " + r)}
		}
	}
	return []int{x.effects.id(x.canon(l) + " " + tok.String() + " " + r)}
}

type verK func() string // continuation: the Lean term for "the rest"

func wrapActs(effs []int, rest string) string {
	for i := len(effs) - 1; i >= 0; i-- {
		rest = fmt.Sprintf("(.act %d %s)", effs[i], rest)
	}
	return rest
}

func (x *verFn) block(l []ast.Stmt, k verK, loop *verLoop) string {
	if len(l) == 0 {
		return k()
	}
	return x.stmt(l[0], func() string { return x.block(l[1:], k, loop) }, loop)
}

type verLoop struct{}

func (x *verFn) stmt(s ast.Stmt, k verK, loop *verLoop) string {
	switch v := s.(type) {
	case *ast.ReturnStmt:
		return fmt.Sprintf("(.ret %d)", x.results.id(x.canonList(v.Results)))
	case *ast.AssignStmt:
		return wrapActs(x.define(v.Lhs, v.Rhs, v.Tok), k())
	case *ast.DeclStmt:
		gd, ok := v.Decl.(*ast.GenDecl)
		if !ok || gd.Tok != token.VAR {
			fatalf(s.Pos(), "version extractor: declaration not handled in %s", x.name)
		}
		var effs []int
		for _, sp := range gd.Specs {
			vs := sp.(*ast.ValueSpec)
			if len(vs.Values) == 0 {
				for _, n := range vs.Names {
					x.multiName(n.Name)
				}
				continue
			}
			var lhs []ast.Expr
			for _, n := range vs.Names {
				lhs = append(lhs, n)
			}
			effs = append(effs, x.define(lhs, vs.Values, token.DEFINE)...)
		}
		return wrapActs(effs, k())
	case *ast.ExprStmt:
		return wrapActs([]int{x.effects.id(x.canon(v.X))}, k())
	case *ast.IncDecStmt:
		return wrapActs([]int{x.effects.id(x.canon(v.X) + v.Tok.String())}, k())
	case *ast.DeferStmt:
		return wrapActs([]int{x.effects.id("defer " + x.canon(v.Call))}, k())
	case *ast.BlockStmt:
		return x.block(v.List, k, loop)
	case *ast.IfStmt:
		var effs []int
		if v.Init != nil {
			as, ok := v.Init.(*ast.AssignStmt)
			if !ok {
				fatalf(v.Init.Pos(), "version extractor: if-initialiser not handled in %s", x.name)
			}
			effs = x.define(as.Lhs, as.Rhs, as.Tok)
		}
		a := x.atoms.id(x.canon(v.Cond))
		t := x.block(v.Body.List, k, loop)
		var e string
		switch el := v.Else.(type) {
		case nil:
			e = k()
		case *ast.BlockStmt:
			e = x.block(el.List, k, loop)
		case *ast.IfStmt:
			e = x.stmt(el, k, loop)
		default:
			fatalf(v.Else.Pos(), "version extractor: else form not handled in %s", x.name)
		}
		return wrapActs(effs, fmt.Sprintf("(.ite %d %s %s)", a, t, e))
	case *ast.RangeStmt:
		if loop != nil {
			fatalf(s.Pos(), "version extractor: nested loop not handled in %s", x.name)
		}
		over := x.canon(v.X)
		srcID := x.results.id("range " + over)
		for _, kv := range []struct {
			e    ast.Expr
			what string
		}{{v.Key, "idx"}, {v.Value, "elem"}} {
			if id, ok := kv.e.(*ast.Ident); ok && id.Name != "_" {
				if !x.isLocalSingle(id.Name) {
					fatalf(s.Pos(), "version extractor: loop variable %s is assigned elsewhere in %s", id.Name, x.name)
				}
				x.defs[id.Name] = kv.what + "(" + over + ")"
			}
		}
		body := x.block(v.Body.List, func() string { return ".next" }, &verLoop{})
		return fmt.Sprintf("(.each %d %s %s)", srcID, body, k())
	case *ast.BranchStmt:
		if loop == nil || v.Label != nil {
			fatalf(s.Pos(), "version extractor: branch statement outside a loop / with a label in %s", x.name)
		}
		switch v.Tok {
		case token.CONTINUE:
			return ".next"
		case token.BREAK:
			return ".brk"
		}
	}
	fatalf(s.Pos(), "version extractor: statement form %T not handled in %s", s, x.name)
	return ""
}

func newVerFn(name string, d *ast.FuncDecl) *verFn {
	x := &verFn{name: name, atoms: newTable(), results: newTable(), effects: newTable(), params: map[string]string{},
		defs: map[string]string{}, multi: map[string]string{}, counts: map[string]int{}}
	x.recv = recvName(d)
	for i, p := range paramNames(d) {
		x.params[p] = fmt.Sprintf("p%d", i)
	}
	return x
}

func strList(l []string) string {
	var b strings.Builder
	b.WriteString("[")
	for i, s := range l {
		if i > 0 {
			b.WriteString(",")
		}
		b.WriteString("\n  " + leanStr(s))
	}
	b.WriteString("]")
	return b.String()
}

func (x *verFn) emit(b *strings.Builder, doc, term string) {
	fmt.Fprintf(b, "/-- %s -/\ndef %s : D :=\n  %s\n", doc, x.name, term)
	fmt.Fprintf(b, "def %s_atoms : List String := %s\n", x.name, strList(x.atoms.names))
	fmt.Fprintf(b, "def %s_results : List String := %s\n", x.name, strList(x.results.names))
	fmt.Fprintf(b, "def %s_effects : List String := %s\n\n", x.name, strList(x.effects.names))
}

// verBody: the decision tree of a plain function / method body. A function the walker cannot handle is recorded as
// `<name>_problem` (only the Tie theorems about that function stop building).
func verBody(b *strings.Builder, p *pkg, recv, fn, leanName string) {
	var own strings.Builder
	func() {
		defer func() {
			if r := recover(); r != nil {
				fe, ok := r.(fatalErr)
				if !ok {
					panic(r)
				}
				own.Reset()
				fmt.Fprintf(&own, "/-- the extraction of this function FAILED (fails closed) -/\ndef %s_problem : String := %s\n\n", leanName, leanStr(fe.msg))
			}
		}()
		verBody1(&own, p, recv, fn, leanName)
	}()
	b.WriteString(own.String())
}

func verBody1(b *strings.Builder, p *pkg, recv, fn, leanName string) {
	d := p.fn(recv, fn)
	x := newVerFn(leanName, d)
	x.countAssignments(d.Body)
	term := x.block(d.Body.List, func() string { return ".fall" }, nil)
	where := fn
	if recv != "" {
		where = recv + "." + fn
	}
	x.emit(b, fmt.Sprintf("`%s` (%s)", where, shortFile(fset.Position(d.Pos()).Filename)), term)
}

// verOption: an option constructor `func WithX(args) Option { return func(cfg *Config) error { … } }`: the tree of
// the inner function (outer parameters p0…, the configuration parameter `cfg`).
func verOption(b *strings.Builder, d *ast.FuncDecl) bool {
	if d.Recv != nil || d.Type.Results == nil || len(d.Type.Results.List) != 1 || src(d.Type.Results.List[0].Type) != "Option" {
		return false
	}
	if len(d.Body.List) != 1 {
		fatalf(d.Pos(), "version extractor: option constructor %s is not a single return of a function literal", d.Name.Name)
	}
	ret, ok := d.Body.List[0].(*ast.ReturnStmt)
	if !ok || len(ret.Results) != 1 {
		fatalf(d.Pos(), "version extractor: option constructor %s is not a single return of a function literal", d.Name.Name)
	}
	fl, ok := ret.Results[0].(*ast.FuncLit)
	if !ok {
		fatalf(d.Pos(), "version extractor: option constructor %s does not return a function literal", d.Name.Name)
	}
	x := newVerFn("opt_"+d.Name.Name, d)
	if len(fl.Type.Params.List) != 1 || len(fl.Type.Params.List[0].Names) != 1 {
		fatalf(d.Pos(), "version extractor: option function of %s does not take exactly the configuration", d.Name.Name)
	}
	x.params[fl.Type.Params.List[0].Names[0].Name] = "cfg"
	x.countAssignments(fl.Body)
	term := x.block(fl.Body.List, func() string { return ".fall" }, nil)
	x.emit(b, fmt.Sprintf("option constructor `%s` (%s): the function it returns", d.Name.Name, shortFile(fset.Position(d.Pos()).Filename)), term)
	return true
}

// genVersion never exits: a problem is recorded inside the generated file (the Tie theorems of C13 then fail to
// build, which fails the C13 check only).
func genVersion(repo string) (out string) {
	defer func() {
		if r := recover(); r != nil {
			fe, ok := r.(fatalErr)
			if !ok {
				panic(r)
			}
			out = "/- GENERATED by extract/version.go — the extraction FAILED (fails closed) -/\nnamespace Rivaas.Gen.Version\n" +
				"def extractError : String := " + leanStr(fe.msg) + "\nend Rivaas.Gen.Version\n"
		}
	}()
	return genVersion1(repo)
}

func genVersion1(repo string) string {
	ver := parseDir(filepath.Join(repo, "router", "version"))
	router := parseDir(filepath.Join(repo, "router"))
	var b strings.Builder
	b.WriteString("/- GENERATED by extract/version.go from router/version/*.go and router/versioning.go of the current working tree —\n")
	b.WriteString("   do not edit, not committed. Decision trees of the code the C13 model mirrors; conditions, results and effects as\n")
	b.WriteString("   canonical text (recv, p<i> = parameters, single-assignment locals inlined, m<i> = other locals, elem(s) = loop variable). -/\n")
	b.WriteString("import Rivaas.Tie.C13Dec\n\nnamespace Rivaas.Gen.Version\nopen Rivaas.Tie.Dec\n\n")
	var optNames []string
	for n, d := range ver.funcs {
		if d.Type.Results != nil && len(d.Type.Results.List) == 1 && src(d.Type.Results.List[0].Type) == "Option" && ast.IsExported(n) {
			optNames = append(optNames, n)
		}
	}
	sort.Strings(optNames)
	if len(optNames) == 0 {
		fatalf(token.NoPos, "version extractor: no option constructors found in router/version")
	}
	for _, n := range optNames {
		verOption(&b, ver.funcs[n])
	}
	fmt.Fprintf(&b, "/-- the exported option constructors of router/version -/\ndef optionNames : List String := %s\n\n", strList(optNames))
	verBody(&b, ver, "", "NewConfig", "newConfig")
	verBody(&b, ver, "Config", "validate", "validate")
	verBody(&b, ver, "Engine", "DetectVersion", "detectVersion")
	verBody(&b, ver, "Engine", "validateVersion", "validateVersion")
	verBody(&b, ver, "Engine", "ShouldApplyVersioning", "shouldApplyVersioning")
	verBody(&b, ver, "Engine", "ExtractPathSegment", "extractPathSegment")
	verBody(&b, ver, "Engine", "StripPathVersion", "stripPathVersion")
	verBody(&b, ver, "Engine", "SetLifecycleHeaders", "setLifecycleHeaders")
	verBody(&b, router, "Router", "processVersioning", "processVersioning")
	verBody(&b, router, "Router", "selectRoutingTree", "selectRoutingTree")
	verBody(&b, router, "Router", "serveVersionedRequest", "serveVersionedRequest")
	verBody(&b, router, "Router", "serveVersionedHandlers", "serveVersionedHandlers")
	b.WriteString("end Rivaas.Gen.Version\n")
	return b.String()
}
