package main

import (
	"fmt"
	"go/ast"
	"go/token"
	"sort"
	"strconv"
	"strings"
)

// names of the calls that make a function part of the skeleton
var (
	obsCalls  = map[string]bool{"OnRequestStart": true, "OnRequestEnd": true, "WrapResponseWriter": true}
	poolGet   = "getContextFromGlobalPool"
	poolPut   = "releaseGlobalContext"
	obsField  = "observability"
	lookupFns = map[string][2]int{ // callee name -> {number of arguments, index of the pattern result}
		"getRoute":         {2, 1},
		"getRouteWithPath": {1, 1},
		"Pattern":          {0, 0},
	}
	exactFns = map[string]int{"getRoute": 1} // exact static-table lookups: name -> number of arguments (key is argument 0)
)

type label struct {
	kind string // sentinel | lookup | exactKey | raw
	code int    // lookup, exactKey: index into the lookup table
	str  string // sentinel: the literal; raw: the source text (ids are assigned when a label is emitted)
}

func (x *extractor) leanLabel(l label) string {
	switch l.kind {
	case "sentinel":
		return fmt.Sprintf("Label.sentinel %d", x.sentinels.id(l.str))
	case "raw":
		return fmt.Sprintf("Label.raw %d", x.raws.id(l.str))
	}
	return fmt.Sprintf("Label.%s %d", l.kind, l.code)
}

type env struct {
	fn    string         // function being extracted
	recv  string         // its receiver name
	ctx   map[string]int // identifier -> context id
	obs   string         // identifier holding the observability state ("" = none)
	obsOK bool           // `var obs any` seen (root) or bound from the caller
	w     string         // identifier holding the tracked response writer ("" = none)
	prov  map[string]label
	stack []string
}

func (e *env) clone() *env {
	n := *e
	n.ctx = map[string]int{}
	for k, v := range e.ctx {
		n.ctx[k] = v
	}
	n.prov = map[string]label{}
	for k, v := range e.prov {
		n.prov[k] = v
	}
	return &n
}

type extractor struct {
	p          *pkg
	fields     []string
	fieldIdx   map[string]int
	what       *table // codes of callee / method names carried by use, run, wuse, obsRaw
	sentinels  *table
	lookups    *table
	raws       *table
	atoms      []string
	ctxIDs     []string // per context id: where it was obtained
	defs       []string // emitted scope definitions, in dependency order
	nscope     int
	interest   map[*ast.FuncDecl]bool
	assignOnly map[string][]assignFact // Context methods made only of `recv.F = param|literal`
	inlined    map[string]int
}

type assignFact struct {
	field string
	rhs   ast.Expr
}

func (x *extractor) atom(cond ast.Node, e *env, kind string) int {
	pos := fset.Position(cond.Pos())
	x.atoms = append(x.atoms, fmt.Sprintf("%s `%s` @%s:%d in %s", kind, src(cond), shortFile(pos.Filename), pos.Line, strings.Join(append(append([]string{}, e.stack...), e.fn), ">")))
	return len(x.atoms) - 1
}

// ---------------------------------------------------------------- which functions are inlined

func calleeName(c *ast.CallExpr) (name string, recv ast.Expr) {
	switch f := c.Fun.(type) {
	case *ast.Ident:
		return f.Name, nil
	case *ast.SelectorExpr:
		return f.Sel.Name, f.X
	case *ast.ParenExpr:
		return "", nil
	}
	return "", nil
}

func (x *extractor) computeInterest() {
	x.interest = map[*ast.FuncDecl]bool{}
	var all []*ast.FuncDecl
	for _, d := range x.p.funcs {
		all = append(all, d)
	}
	for _, d := range x.p.methods["Router"] {
		all = append(all, d)
	}
	direct := func(d *ast.FuncDecl) bool {
		found := false
		ast.Inspect(d.Body, func(n ast.Node) bool {
			if c, ok := n.(*ast.CallExpr); ok {
				name, _ := calleeName(c)
				if obsCalls[name] || name == poolGet || name == poolPut {
					found = true
				}
			}
			return !found
		})
		return found
	}
	for _, d := range all {
		if d.Name.Name == poolGet || d.Name.Name == poolPut {
			continue // the pool primitives themselves are events
		}
		if direct(d) {
			x.interest[d] = true
		}
	}
	for changed := true; changed; {
		changed = false
		for _, d := range all {
			if x.interest[d] || d.Name.Name == poolGet || d.Name.Name == poolPut {
				continue
			}
			rn := recvName(d)
			ast.Inspect(d.Body, func(n ast.Node) bool {
				if c, ok := n.(*ast.CallExpr); ok {
					if t := x.resolve(c, rn); t != nil && x.interest[t] {
						x.interest[d] = true
						changed = true
					}
				}
				return true
			})
		}
	}
}

// resolve finds the declaration a call refers to when that can be told from syntax alone:
// `name(...)` -> package function, `<router receiver>.name(...)` -> method of Router.
func (x *extractor) resolve(c *ast.CallExpr, routerRecv string) *ast.FuncDecl {
	name, recv := calleeName(c)
	if name == "" {
		return nil
	}
	if recv == nil {
		return x.p.funcs[name]
	}
	if id, ok := recv.(*ast.Ident); ok && routerRecv != "" && id.Name == routerRecv {
		return x.p.methods["Router"][name]
	}
	return nil
}

func (x *extractor) interestingName(name string) bool {
	for d := range x.interest {
		if d.Name.Name == name {
			return true
		}
	}
	return false
}

func (x *extractor) computeAssignOnly() {
	x.assignOnly = map[string][]assignFact{}
	for name, d := range x.p.methods["Context"] {
		rn := recvName(d)
		if rn == "" || len(d.Body.List) == 0 {
			continue
		}
		var facts []assignFact
		ok := true
		for _, st := range d.Body.List {
			as, isAs := st.(*ast.AssignStmt)
			if !isAs || as.Tok != token.ASSIGN || len(as.Lhs) != 1 || len(as.Rhs) != 1 {
				ok = false
				break
			}
			sel, isSel := as.Lhs[0].(*ast.SelectorExpr)
			if !isSel {
				ok = false
				break
			}
			id, isID := sel.X.(*ast.Ident)
			if !isID || id.Name != rn {
				ok = false
				break
			}
			switch as.Rhs[0].(type) {
			case *ast.Ident, *ast.BasicLit, *ast.UnaryExpr:
			default:
				ok = false
			}
			facts = append(facts, assignFact{sel.Sel.Name, as.Rhs[0]})
		}
		if ok {
			x.assignOnly[name] = facts
		}
	}
}

// ---------------------------------------------------------------- events

func (x *extractor) evGet(pos token.Pos, e *env) (int, S) {
	p := fset.Position(pos)
	x.ctxIDs = append(x.ctxIDs, fmt.Sprintf("%s:%d in %s", shortFile(p.Filename), p.Line, strings.Join(append(append([]string{}, e.stack...), e.fn), ">")))
	k := len(x.ctxIDs) - 1
	return k, sEv{fmt.Sprintf("Ev.get %d", k)}
}

func (x *extractor) fieldOf(pos token.Pos, name string) int {
	i, ok := x.fieldIdx[name]
	if !ok {
		fatalf(pos, "assignment to unknown Context field %q", name)
	}
	return i
}

func (x *extractor) obsRaw(what string) S { return sEv{fmt.Sprintf("Ev.obsRaw %d", x.what.id(what))} }

func isIdent(e ast.Expr, name string) bool {
	id, ok := e.(*ast.Ident)
	return ok && name != "" && id.Name == name
}

func (x *extractor) ctxOf(e ast.Expr, en *env) (int, bool) {
	if id, ok := e.(*ast.Ident); ok {
		k, ok := en.ctx[id.Name]
		return k, ok
	}
	return 0, false
}

// isObsSel: `<recv>.observability`
func isObsSel(e ast.Expr, en *env) bool {
	sel, ok := e.(*ast.SelectorExpr)
	return ok && sel.Sel.Name == obsField && isIdent(sel.X, en.recv)
}

func isNeNil(e ast.Expr) (ast.Expr, bool) {
	b, ok := e.(*ast.BinaryExpr)
	if !ok || b.Op != token.NEQ || !isIdent(b.Y, "nil") {
		return nil, false
	}
	return b.X, true
}

func (x *extractor) labelOf(e ast.Expr, en *env) label {
	switch v := e.(type) {
	case *ast.BasicLit:
		if v.Kind == token.STRING {
			s, err := strconv.Unquote(v.Value)
			if err != nil {
				fatalf(v.Pos(), "bad string literal %s", v.Value)
			}
			return label{kind: "sentinel", str: s}
		}
	case *ast.Ident:
		if l, ok := en.prov[v.Name]; ok {
			return l
		}
	case *ast.ParenExpr:
		return x.labelOf(v.X, en)
	}
	return label{kind: "raw", str: src(e)}
}

// mentions reports whether the node mentions a tracked identifier or an interesting call.
func (x *extractor) mentions(n ast.Node, en *env) bool {
	found := false
	ast.Inspect(n, func(m ast.Node) bool {
		switch v := m.(type) {
		case *ast.Ident:
			if _, ok := en.ctx[v.Name]; ok || v.Name == en.obs && en.obs != "" || v.Name == en.w && en.w != "" {
				found = true
			}
		case *ast.CallExpr:
			name, _ := calleeName(v)
			if obsCalls[name] || name == poolGet || name == poolPut || x.interestingName(name) {
				found = true
			}
		}
		return !found
	})
	return found
}

func hasReturn(n ast.Node) bool {
	found := false
	ast.Inspect(n, func(m ast.Node) bool {
		switch m.(type) {
		case *ast.FuncLit:
			return false
		case *ast.ReturnStmt:
			found = true
		}
		return !found
	})
	return found
}

// ---------------------------------------------------------------- expressions

// expr returns the events of evaluating e, in evaluation order (arguments before the call).
func (x *extractor) expr(e ast.Expr, en *env) []S {
	if e == nil {
		return nil
	}
	switch v := e.(type) {
	case *ast.Ident:
		if k, ok := en.ctx[v.Name]; ok {
			return []S{sEv{fmt.Sprintf("Ev.use %d 0", k)}}
		}
		if v.Name == en.w && en.w != "" {
			return []S{x.obsRaw("writer mentioned outside a call: " + v.Name)}
		}
		if v.Name == en.obs && en.obs != "" {
			return nil // reading the state (comparisons) is harmless
		}
		return nil
	case *ast.BasicLit:
		return nil
	case *ast.FuncLit:
		if x.mentions(v.Body, en) {
			fatalf(v.Pos(), "function literal mentions a tracked variable or an observability/pool call")
		}
		return nil
	case *ast.ParenExpr:
		return x.expr(v.X, en)
	case *ast.SelectorExpr:
		return x.expr(v.X, en)
	case *ast.StarExpr:
		return x.expr(v.X, en)
	case *ast.UnaryExpr:
		return x.expr(v.X, en)
	case *ast.TypeAssertExpr:
		return x.expr(v.X, en)
	case *ast.IndexExpr:
		return append(x.expr(v.X, en), x.expr(v.Index, en)...)
	case *ast.SliceExpr:
		out := x.expr(v.X, en)
		out = append(out, x.expr(v.Low, en)...)
		out = append(out, x.expr(v.High, en)...)
		return append(out, x.expr(v.Max, en)...)
	case *ast.KeyValueExpr:
		return append(x.expr(v.Key, en), x.expr(v.Value, en)...)
	case *ast.CompositeLit:
		var out []S
		for _, el := range v.Elts {
			out = append(out, x.expr(el, en)...)
		}
		return out
	case *ast.BinaryExpr:
		l := x.expr(v.X, en)
		r := x.expr(v.Y, en)
		if (v.Op == token.LAND || v.Op == token.LOR) && len(r) > 0 {
			// the right operand is evaluated conditionally: only context mentions are tolerated
			for _, s := range r {
				if ev, ok := s.(sEv); !ok || !strings.HasPrefix(ev.term, "Ev.use ") {
					fatalf(v.Pos(), "event under a short-circuit operator: %s", src(v))
				}
			}
		}
		return append(l, r...)
	case *ast.CallExpr:
		return x.call(v, en)
	case *ast.ArrayType, *ast.MapType, *ast.InterfaceType, *ast.FuncType, *ast.StructType, *ast.ChanType, *ast.Ellipsis:
		return nil
	}
	fatalf(e.Pos(), "unhandled expression form %T: %s", e, src(e))
	return nil
}

func (x *extractor) call(c *ast.CallExpr, en *env) []S {
	name, recv := calleeName(c)
	if name == "" {
		// call of a computed function value
		out := x.expr(c.Fun, en)
		for _, a := range c.Args {
			out = append(out, x.expr(a, en)...)
		}
		if x.mentions(c, en) {
			fatalf(c.Pos(), "tracked variable passed to a computed function value: %s", src(c))
		}
		return out
	}
	// observability calls outside the idioms
	if obsCalls[name] {
		return []S{x.obsRaw(name + " outside its idiom: " + src(c))}
	}
	if recv == nil && name == poolGet {
		fatalf(c.Pos(), "%s() must be bound with `x := %s()`", poolGet, poolGet)
	}
	if recv == nil && name == poolPut {
		if len(c.Args) == 1 {
			if k, ok := x.ctxOf(c.Args[0], en); ok {
				return []S{sEv{fmt.Sprintf("Ev.release %d", k)}}
			}
		}
		fatalf(c.Pos(), "%s of something that is not a tracked pooled context: %s", poolPut, src(c))
	}
	if recv == nil && name == "panic" {
		var out []S
		for _, a := range c.Args {
			out = append(out, x.expr(a, en)...)
		}
		return append(out, x.obsRaw("panic"), sRet{})
	}
	// inlined callee?
	if d := x.resolve(c, en.recv); d != nil && x.interest[d] {
		return x.inline(c, d, en)
	}
	if x.interestingName(name) && !(recv == nil && x.p.funcs[name] != nil && !x.interest[x.p.funcs[name]]) {
		if d := x.resolve(c, en.recv); d == nil || !x.interest[d] {
			// a method named like an inlined function on a receiver we cannot resolve syntactically
			if _, isCtx := x.ctxOf(recv, en); !isCtx {
				fatalf(c.Pos(), "cannot resolve call to %s (same name as an extracted function): %s", name, src(c))
			}
		}
	}
	var out []S
	// method call on a tracked context
	if k, ok := x.ctxOf(recv, en); ok {
		for _, a := range c.Args {
			if _, isCtx := x.ctxOf(a, en); isCtx {
				fatalf(c.Pos(), "context passed to a method of a context: %s", src(c))
			}
			if isIdent(a, en.w) {
				continue
			}
			out = append(out, x.expr(a, en)...)
		}
		if name == "reset" {
			return append(out, sEv{fmt.Sprintf("Ev.reset %d", k)})
		}
		if facts, ok := x.assignOnly[name]; ok {
			d := x.p.methods["Context"][name]
			params := paramNames(d)
			if len(params) != len(c.Args) {
				fatalf(c.Pos(), "argument count mismatch calling %s", name)
			}
			for _, f := range facts {
				fi := x.fieldOf(c.Pos(), f.field)
				if f.field == "paramCount" {
					zero := src(f.rhs) == "0"
					if id, isID := f.rhs.(*ast.Ident); isID {
						for i, pn := range params {
							if pn == id.Name && src(c.Args[i]) == "0" {
								zero = true
							}
						}
					}
					if !zero {
						fatalf(c.Pos(), "paramCount of a pooled context is assigned something other than the literal 0: %s", src(c))
					}
				}
				if f.field == "Response" && en.w != "" {
					okW := false
					if id, isID := f.rhs.(*ast.Ident); isID {
						for i, pn := range params {
							if pn == id.Name && isIdent(c.Args[i], en.w) {
								okW = true
							}
						}
					}
					if !okW {
						out = append(out, x.obsRaw("Response set to something other than the tracked writer in "+name))
					}
				}
				out = append(out, sEv{fmt.Sprintf("Ev.assign %d %d", k, fi)})
			}
			return out
		}
		for _, a := range c.Args {
			if isIdent(a, en.w) {
				out = append(out, sEv{fmt.Sprintf("Ev.wuse %d", x.what.id(name))})
			}
		}
		return append(out, sEv{fmt.Sprintf("Ev.run %d %d", k, x.what.id(name))})
	}
	// anything else: receiver chain, then arguments
	wUsed := false
	if recv != nil {
		if isIdent(recv, en.w) {
			wUsed = true
		} else {
			out = append(out, x.expr(recv, en)...)
		}
	}
	var ctxArgs []int
	for _, a := range c.Args {
		if k, ok := x.ctxOf(a, en); ok {
			ctxArgs = append(ctxArgs, k)
			continue
		}
		if isIdent(a, en.w) {
			wUsed = true
			continue
		}
		out = append(out, x.expr(a, en)...)
	}
	localFn := recv == nil && x.p.funcs[name] == nil && !isBuiltin(name)
	for _, k := range ctxArgs {
		if localFn {
			out = append(out, sEv{fmt.Sprintf("Ev.run %d %d", k, x.what.id("call "+name))})
		} else {
			out = append(out, sEv{fmt.Sprintf("Ev.use %d %d", k, x.what.id(name))})
		}
	}
	if wUsed {
		out = append(out, sEv{fmt.Sprintf("Ev.wuse %d", x.what.id(name))})
	}
	return out
}

func isBuiltin(n string) bool {
	switch n {
	case "append", "cap", "clear", "close", "complex", "copy", "delete", "imag", "len", "make", "max", "min", "new", "panic", "print", "println", "real", "recover",
		"int", "int8", "int16", "int32", "int64", "uint", "uint8", "uint16", "uint32", "uint64", "string", "float32", "float64", "bool", "byte", "rune", "any", "error":
		return true
	}
	return false
}

func paramNames(d *ast.FuncDecl) []string {
	var out []string
	for _, f := range d.Type.Params.List {
		if len(f.Names) == 0 {
			out = append(out, "_")
		}
		for _, n := range f.Names {
			out = append(out, n.Name)
		}
	}
	return out
}

func (x *extractor) inline(c *ast.CallExpr, d *ast.FuncDecl, en *env) []S {
	for _, s := range append(append([]string{}, en.stack...), en.fn) {
		if s == d.Name.Name {
			fatalf(c.Pos(), "recursive call to extracted function %s", s)
		}
	}
	if len(en.stack) > 8 {
		fatalf(c.Pos(), "inlining too deep at %s", d.Name.Name)
	}
	if d.Type.Params.NumFields() != len(c.Args) || c.Ellipsis.IsValid() {
		fatalf(c.Pos(), "cannot bind arguments of %s (variadic or count mismatch)", d.Name.Name)
	}
	ne := &env{fn: d.Name.Name, recv: recvName(d), ctx: map[string]int{}, prov: map[string]label{}, stack: append(append([]string{}, en.stack...), en.fn)}
	var out []S
	params := paramNames(d)
	for i, a := range c.Args {
		pn := params[i]
		if k, ok := x.ctxOf(a, en); ok {
			ne.ctx[pn] = k
			continue
		}
		if isIdent(a, en.obs) {
			ne.obs, ne.obsOK = pn, en.obsOK
			continue
		}
		if isIdent(a, en.w) {
			ne.w = pn
			continue
		}
		out = append(out, x.expr(a, en)...)
		ne.prov[pn] = x.labelOf(a, en)
	}
	if d.Type.Results != nil && d.Type.Results.NumFields() > 0 {
		for _, f := range d.Type.Results.List {
			if len(f.Names) > 0 {
				fatalf(d.Pos(), "named results in extracted function %s", d.Name.Name)
			}
		}
	}
	body := x.block(d.Body.List, ne)
	x.nscope++
	x.inlined[d.Name.Name]++
	name := fmt.Sprintf("s%d_%s", x.nscope, d.Name.Name)
	p := fset.Position(c.Pos())
	x.defs = append(x.defs, fmt.Sprintf("/-- `%s` inlined at %s:%d (%s) -/\ndef %s : Stmt :=\n  %s\n", d.Name.Name, shortFile(p.Filename), p.Line, strings.Join(ne.stack, ">"), name, body.lean("  ")))
	return append(out, sScope{name, body})
}

// ---------------------------------------------------------------- statements

func (x *extractor) block(l []ast.Stmt, en *env) S {
	var parts []S
	for _, s := range l {
		parts = append(parts, x.stmt(s, en)...)
	}
	return mkSeq(parts)
}

func (x *extractor) stmt(s ast.Stmt, en *env) []S {
	switch v := s.(type) {
	case nil:
		return nil
	case *ast.EmptyStmt:
		return nil
	case *ast.ExprStmt:
		return x.expr(v.X, en)
	case *ast.IncDecStmt:
		return x.expr(v.X, en)
	case *ast.DeclStmt:
		return x.declStmt(v, en)
	case *ast.AssignStmt:
		return x.assign(v, en)
	case *ast.ReturnStmt:
		var out []S
		for _, r := range v.Results {
			out = append(out, x.expr(r, en)...)
		}
		return append(out, sRet{})
	case *ast.DeferStmt:
		name, recv := calleeName(v.Call)
		if recv == nil && name == poolPut && len(v.Call.Args) == 1 {
			if k, ok := x.ctxOf(v.Call.Args[0], en); ok {
				return []S{sDefer{fmt.Sprintf("Ev.release %d", k)}}
			}
		}
		if x.mentions(v.Call, en) {
			fatalf(v.Pos(), "unhandled defer: %s", src(v))
		}
		return nil
	case *ast.BlockStmt:
		return []S{x.block(v.List, en.clone())}
	case *ast.IfStmt:
		return x.ifStmt(v, en)
	case *ast.ForStmt:
		var pre []S
		inner := en.clone()
		pre = append(pre, x.stmt(v.Init, inner)...)
		pre = append(pre, x.expr(v.Cond, inner)...)
		body := x.block(v.Body.List, inner)
		post := x.stmt(v.Post, inner)
		return append(pre, x.loop(v, mkSeq(append([]S{body}, post...)), en)...)
	case *ast.RangeStmt:
		pre := x.expr(v.X, en)
		return append(pre, x.loop(v, x.block(v.Body.List, en.clone()), en)...)
	case *ast.SwitchStmt:
		if !x.mentions(v, en) && !hasReturn(v) {
			return nil
		}
		return x.switchStmt(v, en)
	case *ast.TypeSwitchStmt:
		if x.mentions(v, en) || hasReturn(v) {
			fatalf(v.Pos(), "unhandled statement form %T with a tracked variable, extracted call or return inside", s)
		}
		return nil
	}
	fatalf(s.Pos(), "unhandled statement form %T: %s", s, firstLine(src(s)))
	return nil
}

// switchStmt renders an expression switch as a chain of conditionals, one fresh atom per case clause
// (`switch { case a: A; case b: B; default: D }` = if a {A} else if b {B} else {D}). `fallthrough` and
// `break` are not handled (fail closed).
func (x *extractor) switchStmt(v *ast.SwitchStmt, en *env) []S {
	ast.Inspect(v.Body, func(n ast.Node) bool {
		switch b := n.(type) {
		case *ast.FuncLit, *ast.ForStmt, *ast.RangeStmt:
			return false
		case *ast.BranchStmt:
			fatalf(b.Pos(), "%s inside a switch of an extracted function", b.Tok)
		}
		return true
	})
	inner := en.clone()
	var out []S
	out = append(out, x.stmt(v.Init, inner)...)
	out = append(out, x.expr(v.Tag, inner)...)
	type clause struct {
		atom int
		body S
	}
	var clauses []clause
	var def S = sSkip{}
	hasDefault := false
	for _, st := range v.Body.List {
		cc := st.(*ast.CaseClause)
		for _, e := range cc.List {
			if evs := x.expr(e, inner); len(evs) > 0 {
				fatalf(e.Pos(), "event in a case expression")
			}
		}
		body := x.block(cc.Body, inner.clone())
		if cc.List == nil {
			def, hasDefault = body, true
			continue
		}
		clauses = append(clauses, clause{x.atom(cc, en, "case"), body})
	}
	_ = hasDefault
	res := def
	for i := len(clauses) - 1; i >= 0; i-- {
		res = sIte{clauses[i].atom, clauses[i].body, res}
	}
	// provenance of variables assigned inside the clauses is dropped
	ast.Inspect(v.Body, func(n ast.Node) bool {
		if as, ok := n.(*ast.AssignStmt); ok {
			for _, l := range as.Lhs {
				if id, ok := l.(*ast.Ident); ok {
					if _, had := en.prov[id.Name]; had {
						en.prov[id.Name] = label{kind: "raw", str: id.Name + " (assigned in a switch)"}
					}
				}
			}
		}
		return true
	})
	return append(out, res)
}

func firstLine(s string) string {
	if len(s) > 100 {
		return s[:100] + "…"
	}
	return s
}

// loop abstracts a loop by one representative iteration between loopBegin/loopEnd. Sound only for
// obligations that are insensitive to repeating / dropping iterations of context mentions, so the
// body may contain nothing but use/assign/reset events.
func (x *extractor) loop(n ast.Stmt, body S, en *env) []S {
	hasEv, hasRet := false, false
	visit(body, func(s S) {
		switch q := s.(type) {
		case sEv:
			hasEv = true
			if !(strings.HasPrefix(q.term, "Ev.use ") || strings.HasPrefix(q.term, "Ev.assign ") || strings.HasPrefix(q.term, "Ev.reset ")) {
				fatalf(n.Pos(), "loop body contains event %s (only context mentions are handled inside loops)", q.term)
			}
		case sRet:
			hasRet = true
		case sDefer, sScope:
			fatalf(n.Pos(), "loop body contains a defer or an extracted call")
		}
	})
	hasBranch := false
	ast.Inspect(n, func(m ast.Node) bool {
		if _, ok := m.(*ast.FuncLit); ok {
			return false
		}
		if b, ok := m.(*ast.BranchStmt); ok && (b.Tok == token.GOTO || b.Label != nil) {
			fatalf(b.Pos(), "goto / labelled branch in an extracted function")
		} else if ok {
			hasBranch = true
		}
		return true
	})
	switch {
	case !hasEv && !hasRet:
		return nil
	case !hasEv && hasRet:
		return []S{sIte{x.atom(n, en, "loop-returns"), sRet{}, sSkip{}}}
	case hasRet || hasBranch:
		fatalf(n.Pos(), "loop with context events and return/break/continue")
	}
	// one marker pair per context mentioned in the body
	ids := map[int]bool{}
	visit(body, func(s S) {
		if q, ok := s.(sEv); ok {
			var k, y int
			for _, f := range []string{"Ev.use %d %d", "Ev.assign %d %d", "Ev.reset %d"} {
				if n, _ := fmt.Sscanf(q.term, f, &k, &y); n >= 1 {
					ids[k] = true
					break
				}
			}
		}
	})
	var ks []int
	for k := range ids {
		ks = append(ks, k)
	}
	sort.Ints(ks)
	var pre, post []S
	for _, k := range ks {
		pre = append(pre, sEv{fmt.Sprintf("Ev.loopBegin %d", k)})
		post = append([]S{sEv{fmt.Sprintf("Ev.loopEnd %d", k)}}, post...)
	}
	return []S{sIte{x.atom(n, en, "loop"), mkSeq(append(append(pre, body), post...)), sSkip{}}}
}

func (x *extractor) declStmt(v *ast.DeclStmt, en *env) []S {
	gd, ok := v.Decl.(*ast.GenDecl)
	if !ok {
		fatalf(v.Pos(), "unhandled declaration")
	}
	var out []S
	for _, sp := range gd.Specs {
		vs, ok := sp.(*ast.ValueSpec)
		if !ok {
			continue // type / import declarations
		}
		for _, val := range vs.Values {
			out = append(out, x.expr(val, en)...)
		}
		for _, n := range vs.Names {
			if n.Name == en.obs && en.obs != "" {
				if len(vs.Values) == 0 {
					en.obsOK = true
				} else {
					out = append(out, x.obsRaw("observability state declared with an initial value"))
				}
			}
			if _, ok := en.ctx[n.Name]; ok || (n.Name == en.w && en.w != "") {
				fatalf(n.Pos(), "tracked variable %s redeclared", n.Name)
			}
			delete(en.prov, n.Name)
		}
	}
	return out
}

func (x *extractor) assign(v *ast.AssignStmt, en *env) []S {
	// x := getContextFromGlobalPool()
	if len(v.Rhs) == 1 {
		if c, ok := v.Rhs[0].(*ast.CallExpr); ok {
			if name, recv := calleeName(c); recv == nil && name == poolGet {
				id, isID := v.Lhs[0].(*ast.Ident)
				if len(v.Lhs) != 1 || !isID || v.Tok != token.DEFINE {
					fatalf(v.Pos(), "%s() must be bound with `x := %s()`", poolGet, poolGet)
				}
				k, ev := x.evGet(v.Pos(), en)
				en.ctx[id.Name] = k
				return []S{ev}
			}
		}
	}
	var out []S
	for _, r := range v.Rhs {
		// `c.Response = w` : the writer on the right-hand side is accounted for below
		if len(v.Lhs) == 1 && isIdent(r, en.w) {
			if sel, ok := v.Lhs[0].(*ast.SelectorExpr); ok {
				if _, isCtx := x.ctxOf(sel.X, en); isCtx && sel.Sel.Name == "Response" {
					continue
				}
			}
		}
		out = append(out, x.expr(r, en)...)
	}
	for i, l := range v.Lhs {
		switch lv := l.(type) {
		case *ast.Ident:
			if lv.Name == "_" {
				continue
			}
			if _, ok := en.ctx[lv.Name]; ok {
				fatalf(v.Pos(), "tracked context variable %s reassigned", lv.Name)
			}
			if lv.Name == en.obs && en.obs != "" {
				out = append(out, x.obsRaw("observability state assigned outside the start idiom"))
				continue
			}
			if lv.Name == en.w && en.w != "" {
				out = append(out, x.obsRaw("response writer reassigned outside the wrap idiom"))
				continue
			}
			// label provenance
			switch {
			case len(v.Rhs) == len(v.Lhs):
				if c, ok := v.Rhs[i].(*ast.CallExpr); ok {
					name, _ := calleeName(c)
					if spec, isLookup := lookupFns[name]; isLookup && len(c.Args) == spec[0] && spec[1] == 0 && len(v.Lhs) == 1 {
						en.prov[lv.Name] = label{kind: "lookup", code: x.lookups.id(name)}
						continue
					}
					en.prov[lv.Name] = label{kind: "raw", str: src(c)}
					continue
				}
				en.prov[lv.Name] = x.labelOf(v.Rhs[i], en)
			case len(v.Rhs) == 1:
				if c, ok := v.Rhs[0].(*ast.CallExpr); ok {
					name, _ := calleeName(c)
					if spec, isLookup := lookupFns[name]; isLookup && len(c.Args) == spec[0] && spec[1] == i && len(v.Lhs) == 2 {
						en.prov[lv.Name] = label{kind: "lookup", code: x.lookups.id(name)}
						continue
					}
				}
				en.prov[lv.Name] = label{kind: "raw", str: src(v.Rhs[0])}
			}
		case *ast.SelectorExpr:
			if k, ok := x.ctxOf(lv.X, en); ok {
				fi := x.fieldOf(v.Pos(), lv.Sel.Name)
				if lv.Sel.Name == "paramCount" && !(len(v.Rhs) == len(v.Lhs) && src(v.Rhs[i]) == "0") {
					fatalf(v.Pos(), "paramCount of a pooled context is assigned something other than the literal 0: %s", src(v))
				}
				if lv.Sel.Name == "Response" && en.w != "" && !(len(v.Rhs) == len(v.Lhs) && isIdent(v.Rhs[i], en.w)) {
					out = append(out, x.obsRaw("Response set to something other than the tracked writer"))
				}
				out = append(out, sEv{fmt.Sprintf("Ev.assign %d %d", k, fi)})
				continue
			}
			out = append(out, x.expr(lv.X, en)...)
		case *ast.IndexExpr:
			out = append(out, x.expr(lv.X, en)...)
			out = append(out, x.expr(lv.Index, en)...)
		case *ast.StarExpr:
			out = append(out, x.expr(lv.X, en)...)
		default:
			fatalf(v.Pos(), "unhandled assignment target %T", l)
		}
	}
	return out
}

func (x *extractor) ifStmt(v *ast.IfStmt, en *env) []S {
	if ev, ok := x.idiom(v, en); ok {
		return ev
	}
	inner := en.clone()
	var out []S
	out = append(out, x.stmt(v.Init, inner)...)
	out = append(out, x.expr(v.Cond, inner)...)
	thenEnv := inner.clone()
	// `if h := T.getRoute(key); h != nil { … }` : inside the branch `key` is a registered static pattern
	if as, ok := v.Init.(*ast.AssignStmt); ok && len(as.Lhs) == 1 && len(as.Rhs) == 1 {
		if c, ok := as.Rhs[0].(*ast.CallExpr); ok {
			name, recv := calleeName(c)
			if n, isExact := exactFns[name]; isExact && recv != nil && len(c.Args) == n {
				if hv, ok := as.Lhs[0].(*ast.Ident); ok {
					if xe, ok := isNeNil(v.Cond); ok && isIdent(xe, hv.Name) {
						if key, ok := c.Args[0].(*ast.Ident); ok {
							thenEnv.prov[key.Name] = label{kind: "exactKey", code: x.lookups.id(name + "/1")}
						}
					}
				}
			}
		}
	}
	a := x.atom(v.Cond, en, "if")
	t := x.block(v.Body.List, thenEnv)
	var e S = sSkip{}
	elseEnv := inner.clone()
	switch el := v.Else.(type) {
	case nil:
	case *ast.BlockStmt:
		e = x.block(el.List, elseEnv)
	case *ast.IfStmt:
		e = mkSeq(x.ifStmt(el, elseEnv))
	default:
		fatalf(v.Pos(), "unhandled else form %T", v.Else)
	}
	// variables assigned differently in the two branches lose their provenance
	for name, l := range en.prov {
		lt, okT := thenEnv.prov[name]
		le, okE := elseEnv.prov[name]
		if name == "" {
			continue
		}
		if okT && okE && lt == le && lt == l {
			continue
		}
		if lt.kind == "exactKey" && okE && le == l {
			continue // the refinement is local to the branch
		}
		en.prov[name] = label{kind: "raw", str: name + " (assigned in a branch)"}
	}
	return append(out, sIte{a, t, e})
}

// idiom recognises the three guarded observability blocks. Anything that merely resembles them
// is left to the generic path, where the observability calls become `obsRaw` events.
func (x *extractor) idiom(v *ast.IfStmt, en *env) ([]S, bool) {
	if v.Init != nil || v.Else != nil {
		return nil, false
	}
	// end: if obs != nil { r.observability.OnRequestEnd(_, obs, w, label) }
	if xe, ok := isNeNil(v.Cond); ok && isIdent(xe, en.obs) && len(v.Body.List) == 1 {
		if es, ok := v.Body.List[0].(*ast.ExprStmt); ok {
			if c, ok := es.X.(*ast.CallExpr); ok {
				name, recv := calleeName(c)
				if name == "OnRequestEnd" && isObsSel(recv, en) && len(c.Args) == 4 && isIdent(c.Args[1], en.obs) {
					if x.mentions(c.Args[0], &env{ctx: en.ctx}) {
						return nil, false
					}
					if _, isCtx := x.ctxOf(c.Args[3], en); isCtx {
						return nil, false
					}
					wOK := isIdent(c.Args[2], en.w) && en.obsOK
					l := x.labelOf(c.Args[3], en)
					// a label read from a pooled context (c.routePattern) would be a use of it
					if x.mentions(c.Args[3], &env{ctx: en.ctx}) {
						return nil, false
					}
					return []S{sEv{fmt.Sprintf("Ev.endG (%s) %v", x.leanLabel(l), wOK)}}, true
				}
			}
		}
	}
	// wrap: if r.observability != nil && obs != nil { w = r.observability.WrapResponseWriter(w, obs) }
	if b, ok := v.Cond.(*ast.BinaryExpr); ok && b.Op == token.LAND && len(v.Body.List) == 1 {
		l, okL := isNeNil(b.X)
		r, okR := isNeNil(b.Y)
		if okL && okR && ((isObsSel(l, en) && isIdent(r, en.obs)) || (isObsSel(r, en) && isIdent(l, en.obs))) {
			if as, ok := v.Body.List[0].(*ast.AssignStmt); ok && as.Tok == token.ASSIGN && len(as.Lhs) == 1 && len(as.Rhs) == 1 && isIdent(as.Lhs[0], en.w) {
				if c, ok := as.Rhs[0].(*ast.CallExpr); ok {
					name, recv := calleeName(c)
					if name == "WrapResponseWriter" && isObsSel(recv, en) && len(c.Args) == 2 && isIdent(c.Args[0], en.w) && isIdent(c.Args[1], en.obs) {
						return []S{sEv{"Ev.wrapG"}}, true
					}
				}
			}
		}
	}
	// start: if r.observability != nil { …; _, obs = r.observability.OnRequestStart(ctx, req); … }
	if xe, ok := isNeNil(v.Cond); ok && isObsSel(xe, en) && en.obs != "" && en.obsOK {
		starts := 0
		okBody := true
		for _, st := range v.Body.List {
			if as, ok := st.(*ast.AssignStmt); ok && len(as.Rhs) == 1 {
				if c, ok := as.Rhs[0].(*ast.CallExpr); ok {
					name, recv := calleeName(c)
					if name == "OnRequestStart" {
						argsClean := true
						for _, a := range c.Args {
							if x.mentions(a, &env{ctx: en.ctx, w: en.w}) {
								argsClean = false
							}
						}
						if isObsSel(recv, en) && as.Tok == token.ASSIGN && len(as.Lhs) == 2 && isIdent(as.Lhs[1], en.obs) && argsClean {
							starts++
							continue
						}
						okBody = false
					}
				}
			}
			// every other statement of the block must be free of tracked state
			if x.mentions(st, en) || hasReturn(st) {
				okBody = false
			}
		}
		if okBody && starts == 1 {
			return []S{sEv{"Ev.startG"}}, true
		}
	}
	return nil, false
}

// ---------------------------------------------------------------- Gen/Serve.lean

func genServe(p *pkg, fields []string) string {
	x := &extractor{p: p, fields: fields, fieldIdx: map[string]int{}, what: newTable("(mention)"), sentinels: newTable(), lookups: newTable(), raws: newTable(), inlined: map[string]int{}}
	for i, f := range fields {
		x.fieldIdx[f] = i
	}
	x.computeInterest()
	x.computeAssignOnly()
	root := p.methods["Router"]["ServeHTTP"]
	if root == nil {
		fatalf(token.NoPos, "router.(*Router).ServeHTTP not found")
	}
	en := &env{fn: "ServeHTTP", recv: recvName(root), ctx: map[string]int{}, prov: map[string]label{}}
	// the tracked writer is the http.ResponseWriter parameter; the state variable is the one
	// OnRequestStart's second result is assigned to
	for _, f := range root.Type.Params.List {
		if src(f.Type) == "http.ResponseWriter" && len(f.Names) == 1 {
			en.w = f.Names[0].Name
		}
	}
	if en.w == "" {
		fatalf(root.Pos(), "ServeHTTP has no http.ResponseWriter parameter")
	}
	ast.Inspect(root.Body, func(n ast.Node) bool {
		if as, ok := n.(*ast.AssignStmt); ok && len(as.Rhs) == 1 && len(as.Lhs) == 2 {
			if c, ok := as.Rhs[0].(*ast.CallExpr); ok {
				if name, _ := calleeName(c); name == "OnRequestStart" {
					if id, ok := as.Lhs[1].(*ast.Ident); ok && en.obs == "" {
						en.obs = id.Name
					}
				}
			}
		}
		return true
	})
	body := x.block(root.Body.List, en)

	var names []string
	for n := range x.inlined {
		names = append(names, fmt.Sprintf("%s×%d", n, x.inlined[n]))
	}
	sort.Strings(names)
	var b strings.Builder
	b.WriteString("/- GENERATED by extract/ from router/*.go of the current working tree — do not edit, not committed.\n")
	b.WriteString("   Skeleton of (*Router).ServeHTTP with these same-package callees inlined: " + strings.Join(names, ", ") + ". -/\n")
	b.WriteString("import Rivaas.Tie.Skel\nset_option maxRecDepth 100000\nnamespace Rivaas.Gen.Serve\nopen Rivaas.Skel Rivaas.Skel.Stmt\n\n")
	for _, d := range x.defs {
		b.WriteString(d + "\n")
	}
	b.WriteString("def serveHTTP : Stmt :=\n  scope (" + body.lean("  ") + ")\n\n")
	// other exported entry points that borrow a pooled context
	var others []string
	for _, name := range []string{"RouteExists"} {
		d := p.methods["Router"][name]
		if d == nil {
			continue
		}
		oe := &env{fn: name, recv: recvName(d), ctx: map[string]int{}, prov: map[string]label{}}
		nd := len(x.defs)
		ob := x.block(d.Body.List, oe)
		for _, df := range x.defs[nd:] {
			b.WriteString(df + "\n")
		}
		ln := strings.ToLower(name[:1]) + name[1:]
		b.WriteString("def " + ln + " : Stmt :=\n  scope (" + ob.lean("  ") + ")\n\n")
		others = append(others, ln)
	}
	b.WriteString("/-- every extracted entry point -/\ndef entryPoints : List Stmt := [serveHTTP")
	for _, o := range others {
		b.WriteString(", " + o)
	}
	b.WriteString("]\n\n")
	fmt.Fprintf(&b, "def atomCount : Nat := %d\n\n", len(x.atoms))
	fmt.Fprintf(&b, "/-- context ids (one per `%s()` occurrence and inlining) -/\ndef ctxIds : List Nat := %s\n\n", poolGet, natList(len(x.ctxIDs)))
	b.WriteString("def ctxIdSrc : List (Nat × String) := " + strTable(x.ctxIDs) + "\n\n")
	b.WriteString("def atomSrc : List (Nat × String) := " + strTable(x.atoms) + "\n\n")
	b.WriteString("def whatNames : List (Nat × String) := " + x.what.lean() + "\n\n")
	b.WriteString("def sentinels : List (Nat × String) := " + x.sentinels.lean() + "\n\n")
	// first byte of every sentinel: a label that starts with '/' could collide with a path
	b.WriteString("def sentinelFirstByte : List (Nat × Nat) := [")
	for i, s := range x.sentinels.names {
		if i > 0 {
			b.WriteString(", ")
		}
		fb := 0
		if len(s) > 0 {
			fb = int(s[0])
		}
		fmt.Fprintf(&b, "(%d, %d)", i, fb)
	}
	b.WriteString("]\n\n")
	b.WriteString("def lookupNames : List (Nat × String) := " + x.lookups.lean() + "\n\n")
	b.WriteString("def rawNames : List (Nat × String) := " + x.raws.lean() + "\n\n")
	// codes the obligations refer to by name
	for i, n := range []string{"Next", "NotFound", "MethodNotAllowed", "call handler", "SetLifecycleHeaders", "WriteHeader", "Write"} {
		dn := strings.ReplaceAll(strings.Title(n), " ", "")
		if id, ok := x.what.ids[n]; ok {
			fmt.Fprintf(&b, "def what%s : Nat := %d\n", dn, id)
		} else {
			fmt.Fprintf(&b, "def what%s : Nat := %d\n", dn, 1000000+i)
		}
	}
	for _, n := range []string{"Request", "Response", "handlers", "router", "index", "paramCount"} {
		fmt.Fprintf(&b, "def f%s : Nat := %d\n", strings.ToUpper(n[:1])+n[1:], x.fieldOf(token.NoPos, n))
	}
	b.WriteString("\nend Rivaas.Gen.Serve\n")
	return b.String()
}

func natList(n int) string {
	var s []string
	for i := 0; i < n; i++ {
		s = append(s, strconv.Itoa(i))
	}
	return "[" + strings.Join(s, ", ") + "]"
}

func strTable(l []string) string {
	t := newTable()
	t.names = l
	return t.lean()
}
