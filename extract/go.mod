module verif/extract

go 1.25.7
