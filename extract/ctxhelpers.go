package main

// Gen/CtxHelpers.lean (C19) — structural facts of the context helpers (router/context.go, router/response.go,
// router/request.go, app/context.go) that Model/Render.lean and Model/Headers.lean rely on:
//   * tryFastStringFormat: the guards that send a call to the general path (each returns the not-applicable
//     sentinel) with locals named by role, and the three pieces the fast path writes;
//   * that Stringf falls back to fmt.Fprintf with the caller's format and operands unchanged;
//   * Context.Header: the sanitiser — its guard, the two replacements and that the write comes after them, on
//     every path (no early return, no branch around it);
//   * EVERY raw write into a response header map in those four files (X.Header().Set/Add(k, v), h[k] = []string{v}
//     with h a header map) with the kind of value written: a string literal, a number (strconv), or the parameter
//     of Header after its sanitiser — anything else is reported as "unsanitised";
//   * the net/http functions that are handed the response writer (they write headers on their own).
// Things are located by structure (callee names, statement shapes, parameter positions), not by local names.
//
// This generator never makes the extractor exit: what it does not recognise is recorded in `extractProblem`
// (the fact keeps a sentinel), so only Tie/C19Helpers.lean stops building.

import (
	"fmt"
	"go/ast"
	"go/token"
	"path/filepath"
	"sort"
	"strings"
)

func chParams(d *ast.FuncDecl) map[string]string {
	names := map[string]string{}
	k := 0
	for _, f := range d.Type.Params.List {
		for _, n := range f.Names {
			names[n.Name] = fmt.Sprintf("arg%d", k)
			k++
		}
	}
	return names
}

// chIsHeaderMapExpr: X.Header() (a call of a method named Header without arguments)
func chIsHeaderCall(e ast.Expr) bool {
	c, ok := e.(*ast.CallExpr)
	if !ok || len(c.Args) != 0 {
		return false
	}
	s, ok := c.Fun.(*ast.SelectorExpr)
	return ok && s.Sel.Name == "Header"
}

func genCtxHelpers(repo string) string {
	g := &pxGen{}
	var rp, ap *pkg
	g.guard("parse", "", func() string {
		rp = parseDir(filepath.Join(repo, "router"))
		ap = parseDir(filepath.Join(repo, "app"))
		return ""
	})
	empty := &pkg{funcs: map[string]*ast.FuncDecl{}, methods: map[string]map[string]*ast.FuncDecl{}}
	if rp == nil {
		rp = empty
	}
	if ap == nil {
		ap = empty
	}

	// ---- the Stringf fast path
	g.guard("tryFastStringFormat", `
def fastPathGuards : List String := ["EXTRACT-PROBLEM"]
def fastPathWrites : List String := ["EXTRACT-PROBLEM"]
def stringfFallback : String := "EXTRACT-PROBLEM"
`, func() string {
		d := rp.methods["Context"]["tryFastStringFormat"]
		if d == nil {
			pxFail(nil, "Context.tryFastStringFormat not found")
		}
		names := chParams(d) // arg0 = format, arg1 = operands
		sentinel := ""
		var guards, writes []string
		for _, s := range d.Body.List {
			switch v := s.(type) {
			case *ast.AssignStmt:
				// v, ok := values[0].(string)   /   idx := strings.Index(format, "%s")
				if len(v.Rhs) == 1 {
					if ta, ok := v.Rhs[0].(*ast.TypeAssertExpr); ok && len(v.Lhs) == 2 {
						names[v.Lhs[0].(*ast.Ident).Name] = "operand"
						names[v.Lhs[1].(*ast.Ident).Name] = "isString(" + pxRename(src(ta.X), names) + ")"
						if src(ta.Type) != "string" {
							pxFail(v, "fast path asserts a type other than string: %s", src(ta.Type))
						}
						continue
					}
					if nm, c := pxCallName(v.Rhs[0]); nm == "Index" && len(v.Lhs) == 1 {
						names[v.Lhs[0].(*ast.Ident).Name] = "Index(" + pxRename(src(c.Args[0]), names) + ", " + src(c.Args[1]) + ")"
						continue
					}
				}
				pxFail(v, "fast path: unexpected assignment %s", src(v))
			case *ast.IfStmt:
				ret := pxReturnsIdent(v.Body)
				if ret != "" && ret != "nil" && v.Init == nil && len(v.Body.List) == 1 && pxFindCall(v.Body, "Write") == nil {
					if sentinel == "" {
						sentinel = ret
					}
					if ret != sentinel {
						pxFail(v, "fast path: guard returns %s, not the sentinel %s", ret, sentinel)
					}
					guards = append(guards, strings.TrimPrefix(pxRename(src(v.Cond), names), "strings."))
					continue
				}
				w := pxFindCall(v.Body, "Write")
				if w == nil || len(w.Args) != 1 {
					pxFail(v, "fast path: an if that is neither a guard nor a write")
				}
				arg := w.Args[0]
				if _, c := pxCallName(arg); c != nil && len(c.Args) == 1 {
					arg = c.Args[0] // unsafeStringToBytes(x) / []byte(x)
				}
				writes = append(writes, pxRename(src(arg), names))
			case *ast.ReturnStmt:
				if src(v.Results[0]) != "nil" {
					pxFail(v, "fast path does not end in return nil")
				}
			default:
				pxFail(s, "fast path: unexpected statement")
			}
		}
		// Stringf: the general path formats with the caller's format and operands
		sd := rp.methods["Context"]["Stringf"]
		if sd == nil {
			pxFail(nil, "Context.Stringf not found")
		}
		sn := chParams(sd)
		fb := ""
		ast.Inspect(sd.Body, func(n ast.Node) bool {
			if c, ok := n.(*ast.CallExpr); ok {
				if nm, _ := pxCallName(c); nm == "Fprintf" || nm == "Sprintf" {
					var as []string
					for _, a := range c.Args {
						as = append(as, pxRename(src(a), sn))
					}
					el := ""
					if c.Ellipsis.IsValid() {
						el = "..."
					}
					fb = nm + "(" + strings.Join(as, ", ") + el + ")"
				}
			}
			return true
		})
		sort.Strings(guards)
		return fmt.Sprintf(`
/-- conditions (sorted) under which tryFastStringFormat hands the call to the general path; arg0 = format,
    arg1 = operands -/
def fastPathGuards : List String := %s
/-- what the fast path writes, in order -/
def fastPathWrites : List String := %s
/-- the general path of Stringf (arg1 = format, arg2 = operands) -/
def stringfFallback : String := %s
`, pxStrs(guards), pxStrs(writes), leanStr(fb))
	})

	// ---- the sanitiser
	g.guard("Header", `
def sanitiserSteps : List String := ["EXTRACT-PROBLEM"]
`, func() string {
		d := rp.methods["Context"]["Header"]
		if d == nil {
			pxFail(nil, "Context.Header not found")
		}
		names := chParams(d) // arg0 = key, arg1 = value
		var steps []string
		var walk func(list []ast.Stmt, in string)
		walk = func(list []ast.Stmt, in string) {
			for _, s := range list {
				switch v := s.(type) {
				case *ast.IfStmt:
					cond := strings.ReplaceAll(pxRename(src(v.Cond), names), "strings.", "")
					if pxFindCall(v.Cond, "ContainsAny") != nil || pxFindCall(v.Cond, "IndexAny") != nil || pxFindCall(v.Cond, "Contains") != nil {
						if v.Else != nil {
							pxFail(v, "Header: the CR/LF test has an else branch")
						}
						steps = append(steps, in+"if "+cond)
						walk(v.Body.List, in+"  ")
						continue
					}
					// anything else (diagnostics) must not write, assign the value or leave the function
					bad := false
					ast.Inspect(v, func(n ast.Node) bool {
						switch x := n.(type) {
						case *ast.ReturnStmt, *ast.BranchStmt:
							bad = true
						case *ast.AssignStmt:
							for _, l := range x.Lhs {
								if id, ok := l.(*ast.Ident); ok && names[id.Name] == "arg1" {
									bad = true
								}
							}
						case *ast.CallExpr:
							if nm, _ := pxCallName(x); nm == "Set" || nm == "Add" {
								bad = true
							}
						}
						return true
					})
					if bad {
						pxFail(v, "Header: a branch other than the CR/LF test writes, reassigns the value or returns: %s", cond)
					}
				case *ast.AssignStmt:
					steps = append(steps, in+strings.ReplaceAll(pxRename(src(v), names), "strings.", ""))
				case *ast.ExprStmt:
					c, ok := v.X.(*ast.CallExpr)
					if !ok {
						pxFail(v, "Header: unexpected statement")
					}
					if nm, _ := pxCallName(c); (nm == "Set" || nm == "Add") && len(c.Args) == 2 {
						recv := c.Fun.(*ast.SelectorExpr).X
						if !chIsHeaderCall(recv) {
							pxFail(v, "Header: write into something else than the response header map")
						}
						steps = append(steps, in+"write "+nm+"("+pxRename(src(c.Args[0]), names)+", "+pxRename(src(c.Args[1]), names)+")")
						continue
					}
					if pxFindCall(c, "Set") != nil || pxFindCall(c, "Add") != nil {
						pxFail(v, "Header: a header write inside another call")
					}
				case *ast.ReturnStmt:
					pxFail(v, "Header: a return before the write")
				default:
					pxFail(s, "Header: unexpected statement")
				}
			}
		}
		walk(d.Body.List, "")
		return "\n/-- Context.Header: the CR/LF test, what happens to the value, the write (arg0 = key, arg1 = value) -/\ndef sanitiserSteps : List String := " + pxStrs(steps) + "\n"
	})

	// ---- every raw write into a response header map
	g.guard("raw header writes", `
def rawHeaderWrites : List (String × String × String × String) := [("EXTRACT-PROBLEM", "", "", "")]
def foreignHeaderWriters : List (String × String) := [("EXTRACT-PROBLEM", "")]
`, func() string {
		var raws, foreign []string
		scan := func(p *pkg, rel string, files map[string]bool) {
			for _, f := range p.files {
				fname := filepath.Base(fset.Position(f.Pos()).Filename)
				if !files[fname] {
					continue
				}
				for _, dd := range f.Decls {
					d, ok := dd.(*ast.FuncDecl)
					if !ok || d.Body == nil {
						continue
					}
					fn := d.Name.Name
					if d.Recv != nil {
						fn = recvType(d) + "." + fn
					}
					// local aliases of a header map: h := X.Header()
					alias := map[string]bool{}
					ast.Inspect(d.Body, func(n ast.Node) bool {
						if as, ok := n.(*ast.AssignStmt); ok && len(as.Lhs) == 1 && len(as.Rhs) == 1 && chIsHeaderCall(as.Rhs[0]) {
							if id, ok := as.Lhs[0].(*ast.Ident); ok {
								alias[id.Name] = true
							}
						}
						return true
					})
					isHdr := func(e ast.Expr) bool {
						if chIsHeaderCall(e) {
							return true
						}
						id, ok := e.(*ast.Ident)
						return ok && alias[id.Name]
					}
					kind := func(v ast.Expr) string {
						if _, ok := strLit(v); ok {
							return "literal"
						}
						if cl, ok := v.(*ast.CompositeLit); ok { // []string{"text/plain"}
							all := len(cl.Elts) > 0
							for _, e := range cl.Elts {
								if _, ok := strLit(e); !ok {
									all = false
								}
							}
							if all {
								return "literal"
							}
						}
						if c, ok := v.(*ast.CallExpr); ok {
							if s, ok := c.Fun.(*ast.SelectorExpr); ok {
								if x, ok := s.X.(*ast.Ident); ok && x.Name == "strconv" {
									return "number"
								}
							}
						}
						if id, ok := v.(*ast.Ident); ok && fn == "Context.Header" && rel == "router" && chParams(d)[id.Name] == "arg1" {
							return "sanitised parameter of Header"
						}
						return "unsanitised: " + src(v)
					}
					ast.Inspect(d.Body, func(n ast.Node) bool {
						switch v := n.(type) {
						case *ast.CallExpr:
							nm, _ := pxCallName(v)
							if s, ok := v.Fun.(*ast.SelectorExpr); ok && (nm == "Set" || nm == "Add") && len(v.Args) == 2 && isHdr(s.X) {
								raws = append(raws, fmt.Sprintf("(%s, %s, %s, %s)", leanStr(rel+"/"+fname), leanStr(fn), leanStr(src(v.Args[0])), leanStr(kind(v.Args[1]))))
							}
							if s, ok := v.Fun.(*ast.SelectorExpr); ok {
								if x, ok := s.X.(*ast.Ident); ok && x.Name == "http" && len(v.Args) > 0 && strings.HasSuffix(src(v.Args[0]), ".Response") {
									foreign = append(foreign, fmt.Sprintf("(%s, %s)", leanStr(fn), leanStr("http."+s.Sel.Name)))
								}
							}
						case *ast.AssignStmt:
							for i, l := range v.Lhs {
								ix, ok := l.(*ast.IndexExpr)
								if !ok || !isHdr(ix.X) || i >= len(v.Rhs) {
									continue
								}
								raws = append(raws, fmt.Sprintf("(%s, %s, %s, %s)", leanStr(rel+"/"+fname), leanStr(fn), leanStr(src(ix.Index)), leanStr(kind(v.Rhs[i]))))
							}
						}
						return true
					})
				}
			}
		}
		scan(rp, "router", map[string]bool{"context.go": true, "response.go": true, "request.go": true})
		scan(ap, "app", map[string]bool{"context.go": true})
		sort.Strings(raws)
		sort.Strings(foreign)
		return fmt.Sprintf(`
/-- every raw write into a response header map in router/{context,response,request}.go and app/context.go:
    (file, function, key, kind of value) -/
def rawHeaderWrites : List (String × String × String × String) := [
  %s]
/-- net/http functions that are handed the response writer: (function, callee) -/
def foreignHeaderWriters : List (String × String) := [%s]
`, strings.Join(raws, ",\n  "), strings.Join(foreign, ", "))
	})

	// ---- literal tables: short media-type names (normalizeMediaType), extension fallback (ContentType)
	g.guard("literal tables", `
def mimeShortNames : List (String × String) := [("EXTRACT-PROBLEM", "")]
def contentTypeFallback : List (String × String) := [("EXTRACT-PROBLEM", "")]
def contentTypeFallbackDefault : String := "EXTRACT-PROBLEM"
`, func() string {
		d := rp.funcs["normalizeMediaType"]
		if d == nil {
			pxFail(nil, "normalizeMediaType not found")
		}
		var short []string
		ast.Inspect(d.Body, func(n ast.Node) bool {
			cl, ok := n.(*ast.CompositeLit)
			if !ok {
				return true
			}
			if _, isMap := cl.Type.(*ast.MapType); !isMap {
				return true
			}
			for _, e := range cl.Elts {
				kv := e.(*ast.KeyValueExpr)
				k, ok1 := strLit(kv.Key)
				v, ok2 := strLit(kv.Value)
				if !ok1 || !ok2 {
					pxFail(kv, "normalizeMediaType: table entry is not a pair of string literals")
				}
				short = append(short, fmt.Sprintf("(%s, %s)", leanStr(k), leanStr(v)))
			}
			return false
		})
		if short == nil {
			pxFail(d, "normalizeMediaType: no map literal")
		}
		sort.Strings(short)
		cd := rp.methods["Context"]["ContentType"]
		if cd == nil {
			pxFail(nil, "Context.ContentType not found")
		}
		var fb []string
		def := ""
		ast.Inspect(cd.Body, func(n ast.Node) bool {
			sw, ok := n.(*ast.SwitchStmt)
			if !ok {
				return true
			}
			for _, c := range sw.Body.List {
				cc := c.(*ast.CaseClause)
				if len(cc.Body) != 1 {
					pxFail(cc, "ContentType: fallback case is not a single assignment")
				}
				as, ok := cc.Body[0].(*ast.AssignStmt)
				if !ok {
					pxFail(cc, "ContentType: fallback case is not a single assignment")
				}
				v, ok := strLit(as.Rhs[0])
				if !ok {
					pxFail(as, "ContentType: fallback value is not a literal")
				}
				if len(cc.List) == 0 {
					def = v
				}
				for _, e := range cc.List {
					k, ok := strLit(e)
					if !ok {
						pxFail(e, "ContentType: fallback label is not a literal")
					}
					fb = append(fb, fmt.Sprintf("(%s, %s)", leanStr(k), leanStr(v)))
				}
			}
			return false
		})
		if fb == nil || def == "" {
			pxFail(cd, "ContentType: no fallback switch")
		}
		sort.Strings(fb)
		return fmt.Sprintf(`
/-- the short names normalizeMediaType expands (sorted) -/
def mimeShortNames : List (String × String) := [%s]
/-- ContentType: extensions the mime package may not know (sorted) and the last resort -/
def contentTypeFallback : List (String × String) := [%s]
def contentTypeFallbackDefault : String := %s
`, strings.Join(short, ", "), strings.Join(fb, ", "), leanStr(def))
	})

	var out strings.Builder
	out.WriteString("/- GENERATED by extract/ctxhelpers.go from router/*.go and app/context.go of the current working tree — do not edit, not committed. -/\nnamespace Rivaas.Gen.CtxHelpers\n")
	if len(g.errs) > 0 {
		out.WriteString("\n/-- the extractor failed closed on part of the source -/\ndef extractProblem : String := " + leanStr(strings.Join(g.errs, "; ")) + "\n")
	} else {
		out.WriteString("\ndef extractProblem : String := \"\"\n")
	}
	out.WriteString(g.b.String())
	out.WriteString("\nend Rivaas.Gen.CtxHelpers\n")
	_ = token.NoPos
	return out.String()
}
